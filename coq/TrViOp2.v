(* TrViOp2.v -- C08: vi_indents and vc_join of /repo/vi.c on the translated C text (whitelist tools/c2clite.d/99zzzzz_viops.list), with the
   vocabulary of coq/TrViOp.v: the buffer as TrViOp.ed_at, the allocating callees as the record TrViOp.oracles (the string builder is one
   block that holds the text built so far), lbuf_edit / vi_drawfix with one hypothesis per call. *)
From Coq Require Import List ZArith NArith Bool Lia.
From NV Require Import Bytes UcDefs CLite CLiteProps GenCFuncs CLiteTac CLiteExt TrLbufBase MotDefs TrUc TrMot TrViOpPure TrViOp.
Import ListNotations.
Local Open Scope Z_scope.
Ltac xc := repeat (progress (xcbn; cbn [b2z fst snd]; try change (0 =? 0) with true; try change (1 =? 0) with false; cbn [negb])).

(* ------------------------------------------------------------------ vi_indents(ln): the leading blanks and tabs, nothing under noai *)
Definition is_bl (c : N) : bool := (c =? 32)%N || (c =? 9)%N.
Fixpoint take_blank (s : bytes) : bytes := match s with c :: r => if is_bl c then c :: take_blank r else [] | [] => [] end.
Definition indents_b (xai : Z) (os : option bytes) : bytes :=
  if xai =? 0 then [] else match os with Some s => take_blank s | None => [] end.
Lemma sx_bl : forall c, (c < 256)%N -> ((wrap I32 (wrap I8 (Z.of_N c)) =? 32) || (wrap I32 (wrap I8 (Z.of_N c)) =? 9)) = is_bl c.
Proof. byte_fact. Qed.
Lemma sx_eq9 : forall c, (c < 256)%N -> (wrap I32 (wrap I8 (Z.of_N c)) =? 9) = (c =? 9)%N.
Proof. byte_fact. Qed.
Lemma sx_bl_val c : is_bl c = true -> wrap I32 (wrap I8 (Z.of_N c)) = Z.of_N c /\ (0 < c < 256)%N.
Proof. unfold is_bl. destruct (N.eqb_spec c 32) as [->|]; [split; [reflexivity|lia]|]. destruct (N.eqb_spec c 9) as [->|]; [split; [reflexivity|lia]|discriminate]. Qed.
Lemma take_blank_len s : (length (take_blank s) <= length s)%nat.
Proof. induction s as [|c r IH]; cbn [take_blank length]; [lia|]. destruct (is_bl c); cbn [length]; lia. Qed.

Section Op2.
  Variable ext : nat -> list val -> mem -> res (val * mem).
  Variable fuel : nat.
  Hypothesis OR : oracles ext.
  Local Notation cx D := (callx ext cprog fuel D).

  Definition ind_loop : stmt := match fn_body cf_vi_indents with SSeq _ (SSeq w _) => w | _ => SSkip end.
  Lemma upd_last (m : mem) x y : upd (m ++ [x]) (length m) y = m ++ [y].
  Proof. rewrite <- (Nat.add_0_r (length m)) at 1. rewrite upd_app_at. reflexivity. Qed.
  Lemma str_last (m : mem) s : str_at (m ++ [cstr_block (zb s)]) (length m) s.
  Proof. unfold str_at. apply nth_error_app_new. Qed.

  Lemma ind_loop_ok D m b s xai : str_at m b s -> nonul s -> cell_at m G_xai xai -> int_ok xai -> xai <> 0 -> (b < length m)%nat ->
    forall n o acc F, (n = length s - o)%nat -> (o <= length s)%nat -> (n < F)%nat ->
    exec (cx (S D)) F ind_loop (mkst [VPtr b (Z.of_nat o); VPtr (length m) 0] (m ++ [cstr_block (zb acc)]))
    = ONormal (mkst [VPtr b (Z.of_nat (o + length (take_blank (skipn o s)))); VPtr (length m) 0] (m ++ [cstr_block (zb (acc ++ take_blank (skipn o s)))])).
  Proof.
    intros Hs Hn Hx Ix Hx0 Hb. pose proof (nonul_lt256 s Hn) as H256.
    assert (Hexit : forall o, is_bl (nthb s o) = false -> take_blank (skipn o s) = []).
    { intros o E. destruct (Nat.lt_ge_cases o (length s)); [rewrite (skipn_cons_nthb s o) by lia; cbn [take_blank]; rewrite E; reflexivity|rewrite skipn_all2 by lia; reflexivity]. }
    assert (Hstep : forall o, is_bl (nthb s o) = true -> (o < length s)%nat /\ take_blank (skipn o s) = nthb s o :: take_blank (skipn (S o) s)).
    { intros o E. destruct (Nat.lt_ge_cases o (length s)); [|rewrite nthb_end in E by lia; discriminate E]. split; [lia|].
      rewrite (skipn_cons_nthb s o) by lia. cbn [take_blank]. rewrite E. reflexivity. }
    induction n as [|n IH]; intros o acc F Hn' Ho HF; (destruct F as [|F]; [lia|]);
      unfold ind_loop; cbn [fn_body cf_vi_indents]; rewrite exec_while; xs;
      rewrite (ld1 _ G_xai (VInt xai)) by (apply cell_at_app; exact Hx); xs; rewrite (wrap_int_ok xai Ix);
      (destruct (Z.eqb_spec xai 0) as [|_]; [contradiction|]); xs;
      rewrite (load_str (m ++ _) b s _ o (str_at_app m _ b s Hs)) by lia; xs; rewrite (sx_eq32 _ (nthb_lt256 s o H256));
      (destruct (N.eqb_spec (nthb s o) 32) as [E|E]; xs;
       [|rewrite (load_str (m ++ _) b s _ o (str_at_app m _ b s Hs)) by lia; xs; rewrite (sx_eq9 _ (nthb_lt256 s o H256));
         destruct (N.eqb_spec (nthb s o) 9) as [E9|E9]; xs;
         [|rewrite (Hexit o) by (unfold is_bl; destruct (N.eqb_spec (nthb s o) 32); [congruence|]; destruct (N.eqb_spec (nthb s o) 9); [congruence|reflexivity]);
           cbn [length]; rewrite app_nil_r, Nat.add_0_r; reflexivity]]).
    - destruct (Hstep o) as [Hlt _]; [unfold is_bl; rewrite E; reflexivity|lia].
    - destruct (Hstep o) as [Hlt _]; [unfold is_bl; rewrite E9; apply orb_true_r|lia].
    - destruct (Hstep o) as [Hlt Et]; [unfold is_bl; rewrite E; reflexivity|].
      rewrite (load_str (m ++ _) b s _ o (str_at_app m _ b s Hs)) by lia. xs. rewrite E. change (wrap I32 (wrap I8 (Z.of_N 32))) with (Z.of_N 32).
      rewrite (cx_ext ext fuel D _ _ _ x_sbuf_chr_none), (o_chr ext OR _ (length m) acc 32%N (str_last m acc) ltac:(lia)). xs. rewrite upd_last.
      replace (Z.of_nat o + 1) with (Z.of_nat (S o)) by lia.
      specialize (IH (S o) (acc ++ [32%N]) F ltac:(lia) ltac:(lia) ltac:(lia)). unfold ind_loop in IH; cbn [fn_body cf_vi_indents] in IH. rewrite IH.
      rewrite Et, E. cbn [length]. rewrite <- app_assoc. cbn [app]. replace (S o + length (take_blank (skipn (S o) s)))%nat with (o + S (length (take_blank (skipn (S o) s))))%nat by lia. reflexivity.
    - destruct (Hstep o) as [Hlt Et]; [unfold is_bl; rewrite E9; apply orb_true_r|].
      rewrite (load_str (m ++ _) b s _ o (str_at_app m _ b s Hs)) by lia. xs. rewrite E9. change (wrap I32 (wrap I8 (Z.of_N 9))) with (Z.of_N 9).
      rewrite (cx_ext ext fuel D _ _ _ x_sbuf_chr_none), (o_chr ext OR _ (length m) acc 9%N (str_last m acc) ltac:(lia)). xs. rewrite upd_last.
      replace (Z.of_nat o + 1) with (Z.of_nat (S o)) by lia.
      specialize (IH (S o) (acc ++ [9%N]) F ltac:(lia) ltac:(lia) ltac:(lia)). unfold ind_loop in IH; cbn [fn_body cf_vi_indents] in IH. rewrite IH.
      rewrite Et, E9. cbn [length]. rewrite <- app_assoc. cbn [app]. replace (S o + length (take_blank (skipn (S o) s)))%nat with (o + S (length (take_blank (skipn (S o) s))))%nat by lia. reflexivity.
  Qed.

  (* vi_indents(ln): a fresh block with the leading blanks of ln (none when ln is NULL or under noai) *)
  Theorem tr_vi_indents D m v os xai : sarg m v os -> cell_at m G_xai xai -> int_ok xai ->
    (match os with Some s => length s | None => O end < fuel)%nat ->
    callx ext cprog fuel (S (S D)) F_vi_indents [v] m = Ok (VPtr (length m) 0, m ++ [cstr_block (zb (indents_b xai os))]).
  Proof.
    intros Hv Hx Ix Hf. rewrite callx_S. change (nth_error cprog F_vi_indents) with (Some cf_vi_indents).
    cbn [fn_nparams cf_vi_indents length Nat.eqb fn_nlocals Nat.sub repeat app fn_body]. xs.
    rewrite (cx_ext ext fuel D _ _ _ x_sbuf_make_none), (o_make ext OR m). unfold fresh. xs. unfold indents_b.
    destruct (Z.eqb_spec xai 0) as [->|Hx0].
    - destruct fuel as [|F] eqn:EF; [lia|]. rewrite exec_while. xs.
      rewrite (ld1 _ G_xai (VInt 0)) by (apply cell_at_app; exact Hx). xs. change (wrap I32 0 =? 0) with true. xs.
      rewrite (cx_ext ext (S F) D _ _ _ x_sbuf_done_none), (o_done ext OR _ (length m) [] (str_last m [])). reflexivity.
    - destruct os as [s|]; cbn [sarg] in Hv.
      + destruct Hv as (b & -> & Hs & Hn).
        assert (Hb : (b < length m)%nat) by (apply nth_error_Some; unfold str_at in Hs; congruence).
        pose proof (ind_loop_ok D m b s xai Hs Hn Hx Ix Hx0 Hb (length s) O [] fuel ltac:(lia) ltac:(lia) Hf) as X.
        unfold ind_loop in X; cbn [fn_body cf_vi_indents] in X. change (Z.of_nat 0) with 0 in X. rewrite X. xs. cbn [skipn app].
        rewrite (cx_ext ext fuel D _ _ _ x_sbuf_done_none), (o_done ext OR _ (length m) _ (str_last m _)). reflexivity.
      + subst v. destruct fuel as [|F] eqn:EF; [lia|]. rewrite exec_while. xs.
        rewrite (ld1 _ G_xai (VInt xai)) by (apply cell_at_app; exact Hx). xs. rewrite (wrap_int_ok xai Ix).
        destruct (Z.eqb_spec xai 0); [contradiction|]. xs.
        rewrite (cx_ext ext (S F) D _ _ _ x_sbuf_done_none), (o_done ext OR _ (length m) [] (str_last m [])). reflexivity.
  Qed.

  (* ================================================================ vc_join *)
  Definition nl_pos (s : bytes) : nat := match find_byte 10 s with Some k => k | None => length s end.
  (* one more line: its leading blanks dropped and join_spaces' spaces in front, unless it is the first; the text up to its newline *)
  Definition join_row (first : bool) (sb s : bytes) : bytes :=
    let o := if first then O else length (take_blank s) in
    let sp := if first then 0 else join_spaces_b sb (skipn o s) in
    sb ++ repeat 32%N (Z.to_nat sp) ++ firstn (nl_pos s - o) (skipn o s).
  Fixpoint join_rows (first : bool) (rows : list bytes) (sb : bytes) (off : Z) : bytes * Z :=
    match rows with [] => (sb, off) | s :: r => join_rows false r (join_row first sb s) (Z.of_nat (uc_slen sb)) end.

  Definition jn_for : stmt := match fn_body cf_vc_join with SSeq _ (SSeq _ (SSeq _ (SSeq _ (SSeq _ (SSeq _ (SSeq (SSeq _ w) _)))))) => w | _ => SSkip end.
  Definition jn_body : stmt := match jn_for with SFor _ _ b => b | _ => SSkip end.
  Definition jn_skip : stmt := match jn_body with SSeq _ (SSeq _ (SSeq (SIf _ w _) _)) => w | _ => SSkip end.
  Definition jn_spaces : stmt := match jn_body with SSeq _ (SSeq _ (SSeq _ (SSeq _ (SSeq _ (SSeq w _))))) => w | _ => SSkip end.

  Lemma jn_skip_ok call mm b s l0 l1 l2 l3 l4 l5 l7 l8 : str_at mm b s -> nonul s ->
    forall n o F, (n = length s - o)%nat -> (o <= length s)%nat -> (n < F)%nat ->
    exec call F jn_skip (mkst [l0; l1; l2; l3; l4; l5; VPtr b (Z.of_nat o); l7; l8] mm)
    = ONormal (mkst [l0; l1; l2; l3; l4; l5; VPtr b (Z.of_nat (o + length (take_blank (skipn o s)))); l7; l8] mm).
  Proof.
    intros Hs Hn. pose proof (nonul_lt256 s Hn) as H256.
    induction n as [|n IH]; intros o F Hn' Ho HF; (destruct F as [|F]; [lia|]); unfold jn_skip; cbn [jn_body jn_for fn_body cf_vc_join];
      rewrite exec_while; xs; rewrite (load_str mm b s _ o Hs) by lia; xs; rewrite (sx_eq32 _ (nthb_lt256 s o H256)).
    - assert (o = length s) by lia. subst o. rewrite nthb_end by lia. change (0 =? 32)%N with false. xs.
      rewrite (load_str mm b s _ (length s) Hs) by lia. xs. rewrite nthb_end by lia. change (wrap I32 (wrap I8 (Z.of_N 0)) =? 9) with false. xs.
      rewrite skipn_all. cbn [take_blank length]. rewrite Nat.add_0_r. reflexivity.
    - rewrite (skipn_cons_nthb s o) by lia. cbn [take_blank]. unfold is_bl.
      specialize (IH (S o) F ltac:(lia) ltac:(lia) ltac:(lia)). unfold jn_skip in IH; cbn [jn_body jn_for fn_body cf_vc_join] in IH.
      destruct (N.eqb_spec (nthb s o) 32) as [E|E]; xs.
      + replace (Z.of_nat o + 1) with (Z.of_nat (S o)) by lia. rewrite IH. cbn [orb length]. replace (S o + length (take_blank (skipn (S o) s)))%nat with (o + S (length (take_blank (skipn (S o) s))))%nat by lia. reflexivity.
      + rewrite (load_str mm b s _ o Hs) by lia. xs. rewrite (sx_eq9 _ (nthb_lt256 s o H256)).
        destruct (N.eqb_spec (nthb s o) 9) as [E9|E9]; xs.
        * replace (Z.of_nat o + 1) with (Z.of_nat (S o)) by lia. rewrite IH. cbn [orb length]. replace (S o + length (take_blank (skipn (S o) s)))%nat with (o + S (length (take_blank (skipn (S o) s))))%nat by lia. reflexivity.
        * cbn [orb length]. rewrite Nat.add_0_r. reflexivity.
  Qed.

  Lemma jn_spaces_ok D m l1 l2 l3 l4 l5 l6 l7 : forall k acc F n, n = Z.of_nat k -> n <= 2147483647 -> (k < F)%nat ->
    exec (cx (S D)) F jn_spaces (mkst [VPtr (length m) 0; l1; l2; l3; l4; l5; l6; l7; VInt n] (m ++ [cstr_block (zb acc)]))
    = ONormal (mkst [VPtr (length m) 0; l1; l2; l3; l4; l5; l6; l7; VInt (-1)] (m ++ [cstr_block (zb (acc ++ repeat 32%N k))])).
  Proof.
    induction k as [|k IH]; intros acc F n Hn Hmax HF; (destruct F as [|F]; [lia|]); unfold jn_spaces; cbn [jn_body jn_for fn_body cf_vc_join];
      rewrite exec_while; xs; rewrite chk_I32 by lia; xs; subst n.
    - cbn [Z.of_nat Z.eqb negb repeat]. rewrite app_nil_r. reflexivity.
    - destruct (Z.eqb_spec (Z.of_nat (S k)) 0); [lia|]. xs.
      rewrite (cx_ext ext fuel D _ _ _ x_sbuf_chr_none). change 32 with (Z.of_N 32).
      rewrite (o_chr ext OR _ (length m) acc 32%N (str_last m acc) ltac:(lia)). change (Z.of_N 32) with 32. xs. rewrite upd_last.
      specialize (IH (acc ++ [32%N]) F (Z.of_nat (S k) + -1) ltac:(lia) ltac:(lia) ltac:(lia)).
      unfold jn_spaces in IH; cbn [jn_body jn_for fn_body cf_vc_join] in IH. rewrite IH. rewrite <- app_assoc. reflexivity.
  Qed.

  Lemma chk_I64_small z : 0 <= z <= 4294967296 -> chk I64 z = Ok z.
  Proof.
    intro H. unfold chk, in_range, ity_min, ity_max, ity_signed, ity_bits.
    change (- 2 ^ (64 - 1)) with (-9223372036854775808). change (2 ^ (64 - 1) - 1) with 9223372036854775807.
    destruct (Z.leb_spec (-9223372036854775808) z); [|lia]. destruct (Z.leb_spec z 9223372036854775807); [|lia]. reflexivity.
  Qed.
  Lemma take_blank_nl s k : find_byte 10 s = Some k -> (length (take_blank s) <= k)%nat.
  Proof.
    revert k; induction s as [|c r IH]; intros k H; [discriminate H|]. cbn [find_byte] in H. cbn [take_blank].
    destruct (N.eqb_spec c 10) as [->|Hc]; [injection H as <-; cbn; lia|].
    destruct (find_byte 10 r) as [j|]; [|discriminate H]. injection H as <-. destruct (is_bl c); cbn [length]; [specialize (IH j eq_refl)|]; lia.
  Qed.
  Lemma join_spaces_b_range a b : 0 <= join_spaces_b a b <= 2.
  Proof. unfold join_spaces_b. destruct (_ =? 0)%N; [lia|]. destruct (_ || _); [lia|]. destruct (_ =? 46)%N; lia. Qed.

  (* one round of the loop of vc_join, on row i *)
  Lemma jn_body_ok D F m lb bln lbs lines sb i beg en (l1 l4 l6 l7 l8 : val) k : ed_at m lb bln lbs lines -> (i < length lines)%nat ->
    find_byte 10 (nthl lines i) = Some k -> nonul sb -> Z.of_nat (length sb) + 2 <= 2147483647 -> (length sb < fuel)%nat -> (maxlen lines < F)%nat -> (2 < F)%nat ->
    int_ok beg -> beg <= Z.of_nat i ->
    let s := nthl lines i in
    let first := Z.of_nat i =? beg in
    let o := if first then O else length (take_blank s) in
    exec (cx (S (S (S D)))) F jn_body (mkst [VPtr (length m) 0; l1; VInt beg; VInt en; l4; VInt (Z.of_nat i); l6; l7; l8] (m ++ [cstr_block (zb sb)]))
    = ONormal (mkst [VPtr (length m) 0; l1; VInt beg; VInt en; VInt (Z.of_nat (uc_slen sb)); VInt (Z.of_nat i); VPtr (nth i lbs O) (Z.of_nat o);
                     VPtr (nth i lbs O) (Z.of_nat k); VInt (-1)] (m ++ [cstr_block (zb (join_row first sb s))])).
  Proof.
    intros E Hi Hk Nsb Hmax Hfsb Hfl Hf2 Ibeg Hbi s first o.
    pose proof (ed_at_app m [cstr_block (zb sb)] _ _ _ _ E) as E1. pose proof (ed_lb _ _ _ _ _ E) as R.
    pose proof (la_str _ _ _ _ _ R i Hi) as Hs. fold s in Hs. pose proof (nthl_nonul lines i (la_nonul _ _ _ _ _ R)) as Hn. fold s in Hn.
    pose proof (maxlen_ge lines i) as Hml. fold s in Hml. pose proof (nthl_small lines i (ed_small _ _ _ _ _ E)) as Hsm. fold s in Hsm.
    destruct (find_byte_lt _ _ _ Hk) as [Hkl _]. fold s in Hkl.
    assert (Hrow : rowidx lines (Z.of_nat i) = Some i).
    { unfold rowidx. destruct (Z.leb_spec 0 (Z.of_nat i)); [|lia]. destruct (Z.ltb_spec (Z.of_nat i) (Z.of_nat (length lines))); [|lia]. cbn [andb]. f_equal. lia. }
    set (bi := nth i lbs O) in *. assert (Hbi' : (bi < length m)%nat) by (apply nth_error_Some; intro X; unfold str_at in Hs; rewrite X in Hs; discriminate Hs).
    set (M := m ++ [cstr_block (zb sb)]). assert (HsM : str_at M bi s) by (apply str_at_app; exact Hs).
    unfold jn_body. cbn [jn_for fn_body cf_vc_join].
    match goal with |- context [SIf ?c (SWhile ?a ?b) SSkip] => change (SWhile a b) with jn_skip end.
    match goal with |- context [SWhile (EIncLocal true 8 ?t ?d) ?b] => change (SWhile (EIncLocal true 8 t d) b) with jn_spaces end.
    xs. rewrite (cx_xb ext fuel (S (S D)) M lb bln lbs lines E1). xs. rewrite (cx_get ext fuel (S (S D)) M lb bln lbs lines (Z.of_nat i) E1).
    unfold line_ptr. rewrite Hrow. fold bi. xs.
    change 10 with (Z.of_N 10). change (VPtr bi 0) with (VPtr bi (Z.of_nat 0)).
    rewrite (builtin_strchr M bi s 0 10 HsM Hn) by lia. change (Z.of_N 10) with 10. cbn [skipn]. fold s in Hk. rewrite Hk. xs. change (Z.of_nat 0) with 0.
    replace (0 + Z.of_nat k) with (Z.of_nat k) by lia.
    assert (HsbM : str_at M (length m) sb) by (apply str_last).
    assert (Hslen : callx ext cprog fuel (S (S (S D))) F_uc_slen [VPtr (length m) 0] M = Ok (VInt (Z.of_nat (uc_slen sb)), M)).
    { apply callx_mono. change (VPtr (length m) 0) with (VPtr (length m) (Z.of_nat 0)).
      rewrite (tr_uc_slen M (length m) sb 0 (S D) fuel HsbM Nsb ltac:(lia) Hfsb ltac:(lia)). reflexivity. }
    assert (Hko : (o <= k)%nat) by (unfold o; destruct first; [lia|apply take_blank_nl; exact Hk]).
    (* the tail: off = uc_slen(sb); the spaces; the text up to the newline *)
    assert (Tail : forall sp, 0 <= sp <= 2 ->
      exec (cx (S (S (S D)))) F
        (SSeq (SExpr (ESetLocal 4 (ECall F_uc_slen [ECall X_sbuf_buf [ELocal 0]])))
           (SSeq jn_spaces (SExpr (ECall X_sbuf_mem [ELocal 0; ELocal 6; ECast I32 (EPtrDiff 1 (ELocal 7) (ELocal 6))]))))
        (mkst [VPtr (length m) 0; l1; VInt beg; VInt en; l4; VInt (Z.of_nat i); VPtr bi (Z.of_nat o); VPtr bi (Z.of_nat k); VInt sp] M)
      = ONormal (mkst [VPtr (length m) 0; l1; VInt beg; VInt en; VInt (Z.of_nat (uc_slen sb)); VInt (Z.of_nat i); VPtr bi (Z.of_nat o); VPtr bi (Z.of_nat k); VInt (-1)]
                      (m ++ [cstr_block (zb (sb ++ repeat 32%N (Z.to_nat sp) ++ firstn (k - o) (skipn o s)))]))).
    { intros sp Hsp. xs. rewrite (cx_ext ext fuel (S (S D)) _ _ _ x_sbuf_buf_none), (o_buf ext OR M (length m) sb HsbM). xs. rewrite Hslen. xs.
      assert (A1 : sp = Z.of_nat (Z.to_nat sp)) by lia. assert (A2 : sp <= 2147483647) by lia. assert (A3 : (Z.to_nat sp < F)%nat) by lia.
      rewrite (jn_spaces_ok (S (S D)) m l1 (VInt beg) (VInt en) _ _ _ _ (Z.to_nat sp) sb F sp A1 A2 A3). xs.
      rewrite Nat.eqb_refl, Z.quot_1_r. xs.
      rewrite (cx_ext ext fuel (S (S D)) _ _ _ x_sbuf_mem_none).
      replace (wrap I32 (Z.of_nat k - Z.of_nat o)) with (Z.of_nat (k - o)) by (rewrite wrap_I32_id by lia; lia).
      rewrite (o_mem ext OR _ (length m) _ bi s o (k - o) (str_last m _) (str_at_app m _ bi s Hs) ltac:(lia) Hn ltac:(lia)). xs.
      rewrite upd_last. rewrite <- app_assoc. reflexivity. }
    unfold join_row. fold s. unfold nl_pos. rewrite Hk. fold o.
    unfold first in *. destruct (Z.eqb_spec (Z.of_nat i) beg) as [Eb|Nb].
    - destruct (Z.ltb_spec beg (Z.of_nat i)); [lia|]. rewrite exec_seq, exec_expr. xc. destruct (Z.ltb_spec beg (Z.of_nat i)); [lia|]. xc.
      change (VPtr bi 0) with (VPtr bi (Z.of_nat o)). rewrite (Tail 0 ltac:(lia)). reflexivity.
    - destruct (Z.ltb_spec beg (Z.of_nat i)); [|lia].
      change (VPtr bi 0) with (VPtr bi (Z.of_nat 0)).
      rewrite (jn_skip_ok _ M bi s _ _ _ _ _ _ _ _ HsM Hn (length s) O F ltac:(lia) ltac:(lia) ltac:(lia)). cbn [skipn Nat.add]. fold o.
      rewrite exec_seq, exec_expr. xc. destruct (Z.ltb_spec beg (Z.of_nat i)); [|lia]. xc.
      rewrite (cx_ext ext fuel (S (S D)) _ _ _ x_sbuf_buf_none), (o_buf ext OR M (length m) sb HsbM). xc.
      rewrite (callx_mono ext _ _ _ _ _ _ _ (tr_join_spaces M (length m) bi sb s o (S (S D)) fuel HsbM HsM Nsb Hn ltac:(lia) ltac:(lia))). xc.
      rewrite (Tail _ (join_spaces_b_range sb (skipn o s))). reflexivity.
  Qed.

  Definition has_nl (s : bytes) : Prop := exists k, find_byte 10 s = Some k.
  Lemma join_row_len first sb s : (length sb <= length (join_row first sb s))%nat.
  Proof. unfold join_row. rewrite app_length. lia. Qed.
  Lemma join_row_nonul first sb s : nonul sb -> nonul s -> nonul (join_row first sb s).
  Proof.
    intros H1 H2. unfold join_row. apply nonul_app; [exact H1|]. apply nonul_app; [|apply nonul_firstn, nonul_skipn'; exact H2].
    unfold nonul. apply Forall_forall. intros x Hx. apply repeat_spec in Hx. subst x. unfold byte_ok. lia.
  Qed.
  Lemma join_rows_len rows : forall first sb off, (length sb <= length (fst (join_rows first rows sb off)))%nat.
  Proof.
    induction rows as [|s r IH]; intros first sb off; cbn [join_rows fst]; [lia|].
    specialize (IH false (join_row first sb s) (Z.of_nat (uc_slen sb))). pose proof (join_row_len first sb s). lia.
  Qed.
  Lemma skipn_nthl (lines : list bytes) i : (i < length lines)%nat -> skipn i lines = nthl lines i :: skipn (S i) lines.
  Proof.
    revert i; induction lines as [|s l IH]; intros i H; [cbn in H; lia|]. destruct i as [|i]; [reflexivity|].
    cbn [skipn]. rewrite IH by (cbn in H; lia). reflexivity.
  Qed.

  Lemma jn_for_ok D m lb bln lbs lines beg en l1 : ed_at m lb bln lbs lines -> int_ok beg -> en <= 2147483647 ->
    forall n i sb off F (l6 l7 l8 : val), en = Z.of_nat (i + n) -> (i + n <= length lines)%nat -> beg <= Z.of_nat i ->
      Forall has_nl (firstn n (skipn i lines)) -> nonul sb ->
      let R := join_rows (Z.of_nat i =? beg) (firstn n (skipn i lines)) sb off in
      Z.of_nat (length (fst R)) + 2 <= 2147483647 -> (length (fst R) < fuel)%nat -> (n + maxlen lines + 2 < F)%nat ->
      exists l6' l7' l8',
        exec (cx (S (S (S D)))) F jn_for (mkst [VPtr (length m) 0; l1; VInt beg; VInt en; VInt off; VInt (Z.of_nat i); l6; l7; l8] (m ++ [cstr_block (zb sb)]))
        = ONormal (mkst [VPtr (length m) 0; l1; VInt beg; VInt en; VInt (snd R); VInt en; l6'; l7'; l8'] (m ++ [cstr_block (zb (fst R))])).
  Proof.
    intros E Ibeg Hen. induction n as [|n IH]; intros i sb off F l6 l7 l8 Een Hil Hbi Hnl Nsb R Hmax Hfu HF; (destruct F as [|F]; [lia|]);
      unfold jn_for; cbn [fn_body cf_vc_join]; rewrite exec_for; xc.
    - destruct (Z.ltb_spec (Z.of_nat i) en); [lia|]. xc. exists l6, l7, l8. unfold R. cbn [firstn join_rows fst snd]. rewrite Een, Nat.add_0_r. reflexivity.
    - destruct (Z.ltb_spec (Z.of_nat i) en); [|lia]. xc.
      assert (Hi : (i < length lines)%nat) by lia.
      unfold R in *. rewrite (skipn_nthl lines i Hi) in *. cbn [firstn join_rows] in *. inversion Hnl as [|? ? [k Hk] Hnl']; subst.
      set (s := nthl lines i) in *. set (first := Z.of_nat i =? beg) in *.
      set (sb1 := join_row first sb s) in *.
      pose proof (join_rows_len (firstn n (skipn (S i) lines)) false sb1 (Z.of_nat (uc_slen sb))) as Hl1. pose proof (join_row_len first sb s) as Hl2. fold sb1 in Hl2.
      match goal with |- context [exec _ (S F) ?b _] => change b with jn_body end.
      rewrite (jn_body_ok D (S F) m lb bln lbs lines sb i beg (Z.of_nat (i + S n)) l1 (VInt off) l6 l7 l8 k E Hi Hk Nsb ltac:(lia) ltac:(lia) ltac:(lia) ltac:(lia) Ibeg Hbi).
      fold s. fold first. fold sb1. xc. rewrite chk_I32 by lia. xc. replace (Z.of_nat i + 1) with (Z.of_nat (S i)) by lia.
      assert (Ef : (Z.of_nat (S i) =? beg) = false) by (apply Z.eqb_neq; lia).
      specialize (IH (S i) sb1 (Z.of_nat (uc_slen sb)) F (VPtr (nth i lbs O) (Z.of_nat (if first then O else length (take_blank s)))) (VPtr (nth i lbs O) (Z.of_nat k)) (VInt (-1))
                    ltac:(lia) ltac:(lia) ltac:(lia) Hnl' (join_row_nonul first sb s Nsb (nthl_nonul lines i (la_nonul _ _ _ _ _ (ed_lb _ _ _ _ _ E))))).
      rewrite Ef in IH. specialize (IH Hmax Hfu ltac:(lia)). destruct IH as (l6' & l7' & l8' & IH).
      unfold jn_for in IH; cbn [fn_body cf_vc_join] in IH. exists l6', l7', l8'. exact IH.
  Qed.

  Variable lown : nat -> Prop.
  Definition join_cnt (a1 : Z) : Z := if a1 <=? 1 then 2 else a1.
  (* J: the rows xrow .. xrow + cnt - 1 must exist *)
  Theorem tr_vc_join_fail D m lb bln lbs lines a1 xr : ed_at m lb bln lbs lines -> cell_at m G_vi_arg1 a1 -> cell_at m G_xrow xr ->
    int_ok a1 -> int_ok xr -> int_ok (xr + join_cnt a1) -> (rowidx lines xr = None \/ rowidx lines (xr + join_cnt a1 - 1) = None) ->
    callx ext cprog fuel (S (S (S (S D)))) F_vc_join [] m = Ok (VInt 0, m).
  Proof.
    intros E Ha Hx Ia Ix Ic Hrow. rewrite callx_S. change (nth_error cprog F_vc_join) with (Some cf_vc_join).
    cbn [fn_nparams cf_vc_join length Nat.eqb fn_nlocals Nat.sub repeat app fn_body]. xs.
    rewrite (ld1 m G_vi_arg1 _ Ha). xs. rewrite (wrap_int_ok a1 Ia). unfold join_cnt in *.
    destruct (Z.leb_spec a1 1); xs; rewrite ?(ld1 m G_vi_arg1 _ Ha); xs; rewrite ?(wrap_int_ok a1 Ia);
      rewrite (ld1 m G_xrow _ Hx); xs; rewrite (wrap_int_ok xr Ix); rewrite (ld1 m G_xrow _ Hx); xs; rewrite (wrap_int_ok xr Ix);
      rewrite chk_I32 by (unfold int_ok in Ic; lia); xs;
      rewrite (cx_xb ext fuel (S (S D)) m lb bln lbs lines E); xs; rewrite (cx_get ext fuel (S (S D)) m lb bln lbs lines xr E); unfold line_ptr.
    - destruct (rowidx lines xr) eqn:E1; xs; [|reflexivity]. destruct Hrow as [Hrow|Hrow]; [discriminate Hrow|].
      rewrite (cx_xb ext fuel (S (S D)) m lb bln lbs lines E). xs. rewrite chk_I32 by (unfold int_ok in *; lia). xs.
      rewrite (cx_get ext fuel (S (S D)) m lb bln lbs lines _ E). unfold line_ptr. rewrite Hrow. xs. reflexivity.
    - destruct (rowidx lines xr) eqn:E1; xs; [|reflexivity]. destruct Hrow as [Hrow|Hrow]; [discriminate Hrow|].
      rewrite (cx_xb ext fuel (S (S D)) m lb bln lbs lines E). xs. rewrite chk_I32 by (unfold int_ok in *; lia). xs.
      rewrite (cx_get ext fuel (S (S D)) m lb bln lbs lines _ E). unfold line_ptr. rewrite Hrow. xs. reflexivity.
  Qed.

  (* J on existing rows: the text handed to lbuf_edit is join_rows of the rows xrow .. xrow + cnt - 1 followed by "\n", the range is
     (xrow, xrow + cnt), xoff = the number of characters in front of the last line joined *)
  Definition join_rows_of (lines : list bytes) (xr cnt : Z) : list bytes := firstn (Z.to_nat cnt) (skipn (Z.to_nat xr) lines).
  Definition join_res (lines : list bytes) (xr cnt : Z) : bytes * Z := join_rows true (join_rows_of lines xr cnt) [] 0.
  Definition join_mem9 (m : mem) (lines : list bytes) (xr cnt : Z) : mem := m ++ [cstr_block (zb (fst (join_res lines xr cnt) ++ [10%N]))].
  Lemma uc_slen_le (t : bytes) : nonul t -> (uc_slen t <= length t)%nat.
  Proof. intro H. rewrite uc_slen_chop by exact H. apply chop_length_le. exact H. Qed.
  Lemma join_rows_off rows : forall first sb off, Forall nonul rows -> nonul sb -> 0 <= off <= Z.of_nat (length sb) ->
    0 <= snd (join_rows first rows sb off) <= Z.of_nat (length (fst (join_rows first rows sb off))).
  Proof.
    induction rows as [|s r IH]; intros first sb off Hr Hs Ho; cbn [join_rows fst snd]; [exact Ho|]. inversion Hr; subst.
    apply IH; [assumption|apply join_row_nonul; assumption|]. pose proof (uc_slen_le sb Hs). pose proof (join_row_len first sb s). lia.
  Qed.
  Definition jn_rest : stmt := match fn_body cf_vc_join with SSeq _ r => r | _ => SSkip end.
  Definition ret_of (o : outcome) : res (val * mem) :=
    match o with ONormal st => Ok (VUndef, memm st) | OReturn v st => Ok (v, memm st) | OErr x => Err x | _ => Err EShape end.
  Lemma jn_rest_ok D m lb bln lbs lines cnt xr xo u' m6 ud m8 : ed_at m lb bln lbs lines ->
    cell_at m G_xrow xr -> cell_at m G_xoff xo -> 2 <= cnt ->
    0 <= xr -> xr + cnt <= Z.of_nat (length lines) -> 2 * xr + cnt <= 2147483647 ->
    Forall has_nl (join_rows_of lines xr cnt) ->
    let R := join_res lines xr cnt in
    Z.of_nat (length (fst R)) + 2 <= 2147483647 -> (length (fst R) < fuel)%nat -> (Z.to_nat cnt + maxlen lines + 2 < fuel)%nat ->
    (forall b, lown b -> (b < length m)%nat) -> ~ lown G_xrow -> ~ lown G_xoff ->
    ext X_lbuf_edit [VPtr lb 0; VPtr (length m) 0; VInt xr; VInt (xr + cnt)] (join_mem9 m lines xr cnt) = Ok (u', m6) ->
    eframe lown (join_mem9 m lines xr cnt) m6 ->
    ext X_vi_drawfix [VInt xr; VInt (xr + cnt - 1); VInt 1; VInt 0] (upd (upd m6 G_xoff [VInt (snd R)]) (length m) []) = Ok (ud, m8) ->
    ret_of (exec (cx (S (S (S D)))) fuel jn_rest (mkst [VUndef; VInt cnt; VUndef; VUndef; VUndef; VUndef; VUndef; VUndef; VUndef] m)) = Ok (VInt 16, m8).
  Proof.
    intros E Hx Ho Hc2 Hxr0 Hend Hfit Hnl R Hmax Hfu HF Hlown Nlx Nlo Hedit [Hlen6 Hfr6] Hdraw.
    pose proof (ed_small _ _ _ _ _ E) as [Hsm _].
    assert (Ix : int_ok xr) by (unfold int_ok; lia).
    assert (Lx : (G_xrow < length m)%nat) by (apply nth_error_Some; unfold cell_at in Hx; congruence).
    assert (Lo : (G_xoff < length m)%nat) by (apply nth_error_Some; unfold cell_at in Ho; congruence).
    unfold jn_rest. cbn [fn_body cf_vc_join].
    match goal with |- context [SSeq (SExpr (ESetLocal 5 (ELocal 2))) ?f] => change f with jn_for end.
    xs. rewrite (ld1 m G_xrow _ Hx). xs. rewrite (wrap_int_ok xr Ix). rewrite (ld1 m G_xrow _ Hx). xs. rewrite (wrap_int_ok xr Ix).
    rewrite chk_I32 by lia. xs.
    assert (Hrow : forall r, 0 <= r < Z.of_nat (length lines) -> rowidx lines r = Some (Z.to_nat r)).
    { intros r Hr. unfold rowidx. destruct (Z.leb_spec 0 r); [|lia]. destruct (Z.ltb_spec r (Z.of_nat (length lines))); [|lia]. reflexivity. }
    rewrite (cx_xb ext fuel (S (S D)) m lb bln lbs lines E). xs. rewrite (cx_get ext fuel (S (S D)) m lb bln lbs lines xr E). unfold line_ptr.
    rewrite (Hrow xr) by lia. xs.
    rewrite (cx_xb ext fuel (S (S D)) m lb bln lbs lines E). xs. rewrite chk_I32 by lia. xs.
    rewrite (cx_get ext fuel (S (S D)) m lb bln lbs lines _ E). unfold line_ptr. rewrite (Hrow (xr + cnt - 1)) by lia. xs.
    rewrite (cx_ext ext fuel (S (S D)) _ _ _ x_sbuf_make_none), (o_make ext OR m). unfold fresh. xs.
    (* the loop *)
    set (b := Z.to_nat xr). set (c := Z.to_nat cnt).
    assert (Exr : xr = Z.of_nat b) by (unfold b; lia).
    destruct (jn_for_ok D m lb bln lbs lines xr (xr + cnt) (VInt cnt) E Ix ltac:(lia) c b [] 0 fuel VUndef VUndef VUndef
                ltac:(unfold b, c; lia) ltac:(unfold b, c; lia) ltac:(lia) Hnl ltac:(constructor)) as (l6' & l7' & l8' & X).
    { rewrite <- Exr, Z.eqb_refl. exact Hmax. } { rewrite <- Exr, Z.eqb_refl. exact Hfu. } { unfold c. lia. }
    rewrite <- Exr, Z.eqb_refl in X. change (join_rows true (firstn c (skipn b lines)) [] 0) with R in X.
    rewrite X. clear X. xs.
    (* sbuf_chr(sb, '\n'); lbuf_edit *)
    rewrite (cx_ext ext fuel (S (S D)) _ _ _ x_sbuf_chr_none). change 10 with (Z.of_N 10).
    rewrite (o_chr ext OR _ (length m) (fst R) 10%N (str_last m _) ltac:(lia)). change (Z.of_N 10) with 10. xs. rewrite upd_last.
    change (m ++ [cstr_block (zb (fst R ++ [10%N]))]) with (join_mem9 m lines xr cnt). set (M9 := join_mem9 m lines xr cnt) in *.
    assert (E9 : ed_at M9 lb bln lbs lines) by (apply ed_at_app; exact E).
    assert (S9 : str_at M9 (length m) (fst R ++ [10%N])) by apply str_last.
    rewrite (cx_xb ext fuel (S (S D)) M9 lb bln lbs lines E9). xs.
    rewrite (cx_ext ext fuel (S (S D)) _ _ _ x_sbuf_buf_none), (o_buf ext OR M9 (length m) _ S9). xs.
    rewrite (cx_ext ext fuel (S (S D)) _ _ _ x_lbuf_edit_none), Hedit. xs.
    (* xoff = off; sbuf_free(sb); vi_drawfix *)
    assert (L9 : length M9 = S (length m)) by (unfold M9, join_mem9; rewrite app_length; cbn [length]; lia).
    assert (Old6 : forall g v, (g < length m)%nat -> ~ lown g -> cell_at m g v -> cell_at m6 g v).
    { intros g v Hg Nl Hc. unfold cell_at. rewrite Hfr6 by (try exact Nl; lia). unfold M9, join_mem9. rewrite nth_app_lt by exact Hg. exact Hc. }
    assert (Iv : int_ok (snd R)).
    { pose proof (join_rows_off (join_rows_of lines xr cnt) true [] 0) as HH. fold (join_res lines xr cnt) in HH. fold R in HH.
      specialize (HH ltac:(unfold join_rows_of; apply Forall_firstn', Forall_skipn'; exact (la_nonul _ _ _ _ _ (ed_lb _ _ _ _ _ E))) ltac:(constructor) ltac:(cbn; lia)).
      unfold int_ok. lia. }
    rewrite (wrap_int_ok _ Iv), (store_cell m6 G_xoff xo _ (Old6 _ _ Lo Nlo Ho)). xs.
    assert (P6 : str_at (upd m6 G_xoff [VInt (snd R)]) (length m) (fst R ++ [10%N])).
    { unfold str_at. rewrite mem_upd_other by lia. rewrite Hfr6; [exact S9|lia|]. intro Hl. specialize (Hlown _ Hl). lia. }
    rewrite (cx_ext ext fuel (S (S D)) _ _ _ x_sbuf_free_none), (o_free ext OR _ (length m) _ P6). xs.
    assert (Hx7 : cell_at (upd (upd m6 G_xoff [VInt (snd R)]) (length m) []) G_xrow xr).
    { unfold cell_at. rewrite !mem_upd_other by (rewrite ?upd_length; unfold G_xrow, G_xoff in *; lia). apply (Old6 _ _ Lx Nlx Hx). }
    rewrite (ld1 _ G_xrow _ Hx7). xs. rewrite (wrap_int_ok xr Ix). rewrite (ld1 _ G_xrow _ Hx7). xs. rewrite (wrap_int_ok xr Ix).
    rewrite chk_I32 by lia. xs. rewrite chk_I32 by lia. xs. rewrite chk_I32 by lia. xs.
    rewrite (cx_ext ext fuel (S (S D)) _ _ _ x_vi_drawfix_none).
    replace (xr + (xr + cnt) - xr - 1) with (xr + cnt - 1) by lia. rewrite Hdraw. xs. reflexivity.
  Qed.

  Theorem tr_vc_join D m lb bln lbs lines a1 xr xo u' m6 ud m8 : ed_at m lb bln lbs lines ->
    cell_at m G_vi_arg1 a1 -> cell_at m G_xrow xr -> cell_at m G_xoff xo -> int_ok a1 ->
    let cnt := join_cnt a1 in
    0 <= xr -> xr + cnt <= Z.of_nat (length lines) -> 2 * xr + cnt <= 2147483647 ->
    Forall has_nl (join_rows_of lines xr cnt) ->
    let R := join_res lines xr cnt in
    Z.of_nat (length (fst R)) + 2 <= 2147483647 -> (length (fst R) < fuel)%nat -> (Z.to_nat cnt + maxlen lines + 2 < fuel)%nat ->
    (forall b, lown b -> (b < length m)%nat) -> ~ lown G_xrow -> ~ lown G_xoff ->
    ext X_lbuf_edit [VPtr lb 0; VPtr (length m) 0; VInt xr; VInt (xr + cnt)] (join_mem9 m lines xr cnt) = Ok (u', m6) ->
    eframe lown (join_mem9 m lines xr cnt) m6 ->
    ext X_vi_drawfix [VInt xr; VInt (xr + cnt - 1); VInt 1; VInt 0] (upd (upd m6 G_xoff [VInt (snd R)]) (length m) []) = Ok (ud, m8) ->
    callx ext cprog fuel (S (S (S (S D)))) F_vc_join [] m = Ok (VInt 16, m8).
  Proof.
    intros E Ha Hx Ho Ia cnt Hxr0 Hend Hfit Hnl R Hmax Hfu HF Hlown Nlx Nlo Hedit Hfr Hdraw.
    assert (Hc2 : 2 <= cnt) by (unfold cnt, join_cnt; destruct (Z.leb_spec a1 1); lia).
    pose proof (jn_rest_ok D m lb bln lbs lines cnt xr xo u' m6 ud m8 E Hx Ho Hc2 Hxr0 Hend Hfit Hnl Hmax Hfu HF Hlown Nlx Nlo Hedit Hfr Hdraw) as X.
    rewrite callx_S. change (nth_error cprog F_vc_join) with (Some cf_vc_join).
    cbn [fn_nparams cf_vc_join length Nat.eqb fn_nlocals Nat.sub repeat app].
    change (fn_body cf_vc_join) with (SSeq (SExpr (ESetLocal 1 (ECond (EBin OLe I32 (ELoad (Some I32) (EGlob G_vi_arg1)) (EConst 1)) (EConst 2) (ELoad (Some I32) (EGlob G_vi_arg1))))) jn_rest).
    rewrite exec_seq, exec_expr. xc. rewrite (ld1 m G_vi_arg1 _ Ha). xc. rewrite (wrap_int_ok a1 Ia).
    unfold cnt, join_cnt in *. destruct (Z.leb_spec a1 1); xc; rewrite ?(ld1 m G_vi_arg1 _ Ha); xc; rewrite ?(wrap_int_ok a1 Ia); exact X.
  Qed.
End Op2.

(* ------------------------------------------------------------------ the translated vc_join and vi_indents RUN (oracle TrViOp.ideal_ext) *)
(* lines "ab.\n", "  cd \n", ")e\n", "f\n"; vi_arg1 = 3 on row 0: lbuf_edit(xb, "ab.  cd )e\n", 0, 3), xoff = 8 (the characters in front of ")e"),
   vi_drawfix(0, 2, 1, 0); J with a count that overruns the buffer returns 0 and calls nothing *)
Definition join_mem (a1 xr : Z) : mem :=
  let g := length cglobals in
  upd (upd (upd cglobals G_xrow [VInt xr]) G_vi_arg1 [VInt a1]) G_bufs (upd gb_bufs BUFS_LB (VPtr g 0))
  ++ [repeat (VInt 0) 64 ++ [VPtr (g + 1) 0; VInt 0; VInt 4; VInt 4] ++ repeat (VInt 0) 7;
      [VPtr (g + 2) 0; VPtr (g + 3) 0; VPtr (g + 4) 0; VPtr (g + 5) 0];
      cstr_block [97; 98; 46; 10]; cstr_block [32; 32; 99; 100; 32; 10]; cstr_block [41; 101; 10]; cstr_block [102; 10]].
Definition join_show (r : res (val * mem)) : option (val * option block * list block) :=
  match r with
  | Ok (v, m) => Some (v, nth_error m G_xoff,
                       filter (fun b => match b with VInt 2 :: _ | VInt 3 :: _ => Nat.ltb 2 (length b) | _ => false end) (skipn (length cglobals + 6) m))
  | Err _ => None end.
Lemma join_run_examples :
  join_show (callx ideal_ext cprog 60 8 F_vc_join [] (join_mem 3 0))
  = Some (VInt 16, Some [VInt 8], [map VInt [2; 0; 3; 97; 98; 46; 32; 32; 99; 100; 32; 41; 101; 10]; map VInt [3; 0; 2; 1; 0]]) /\
  join_show (callx ideal_ext cprog 60 8 F_vc_join [] (join_mem 0 1))
  = Some (VInt 16, Some [VInt 5], [map VInt [2; 1; 3; 32; 32; 99; 100; 32; 41; 101; 10]; map VInt [3; 1; 2; 1; 0]]) /\
  join_show (callx ideal_ext cprog 60 8 F_vc_join [] (join_mem 5 0)) = Some (VInt 0, Some [VInt 0], []) /\
  (match callx ideal_ext cprog 60 8 F_vi_indents [VPtr (length cglobals + 3) 0] (join_mem 0 0) with
   | Ok (v, m) => Some (rd0 m v) | Err _ => None end) = Some [32; 32]%N.
Proof. vm_compute. repeat split; reflexivity. Qed.
