(* SubstNotbol.v -- C14 over the regex model: what RE_NOTBOL (handed to rstr_find by ec_substitute on every search after
   the first replacement of a line) changes, and what it must not change.
     1. atom level: under REG_NOTBOL the atom ^ fails at offset 0 of the searched text; EVERY other atom at every offset,
        and ^ at every other offset, answers exactly as without the flag (ratom_match_notbol).
     2. attempt level: an attempt of the backtracking machine that starts to the right of the first byte is the same
        computation with and without the flag (recmatch_notbol_later); so is the rest of regexec's loop (loop_notbol_later).
     3. an attempt that fails without the flag fails with it (the flag only removes paths: rec_fail); an attempt whose
        reported match is reached by a choice path of the NOTBOL semantics is reported unchanged with the flag (rec_found).
     4. search level: for a compiled pattern (anything rstr_simple does not take: alternations, groups, repetitions ...),
        whenever no match at the first byte of the searched rest needs ^ to hold there, rstr_find answers under RE_NOTBOL
        exactly what it answers without it -- whatever the pattern TEXT begins with (engine_find_notbol).  In particular
        an unanchored alternative of  ^A|B  is still found in the rest of a line after the first replacement.
   New file; no existing file's statements are changed. *)
From Coq Require Import List NArith ZArith Bool Arith Lia.
From NV Require Import Bytes GenConsts ReSyntax ReParse ReEmit ReVM RsetDefs.
From NV Require ReProps6 ReProps8 ReProps10 RstrDefs UcSpec.
From NV Require Import SubstDefs SubstEngineDefs.
Import ListNotations.

(* ---------------------------------------------------------------------------------------------- *)
(* 1. flags and atoms *)

Lemma has_lor_other f m m' : Z.land m m' = 0%Z -> has (Z.lor f m) m' = has f m'.
Proof. intro H. unfold has. rewrite Z.land_lor_distr_l, H, Z.lor_0_r. reflexivity. Qed.

Lemma has_lor_self f m : m <> 0%Z -> has (Z.lor f m) m = true.
Proof.
  intro H. unfold has. rewrite Z.land_lor_distr_l, Z.land_diag.
  destruct (Z.lor (Z.land f m) m =? 0)%Z eqn:E; [|reflexivity]. apply Z.eqb_eq, Z.lor_eq_0_iff in E. tauto.
Qed.

Lemma chr_icase_flags f1 f2 line : has f1 REG_ICASE = has f2 REG_ICASE ->
  forall k a p0 pos, chr_icase f1 line k a p0 pos = chr_icase f2 line k a p0 pos.
Proof.
  intros H k. induction k as [|k IH]; intros a p0 pos; cbn [chr_icase]; [reflexivity|]. rewrite H.
  destruct (nthb a pos =? 0)%N; [reflexivity|].
  destruct (re_ucdec a pos); cbn [bind]; try reflexivity.
  destruct (re_ucdec line (p0 + pos)); cbn [bind]; try reflexivity. rewrite IH. reflexivity.
Qed.

(* the only (atom, offset) pair REG_NOTBOL is about *)
Definition bol_at_0 (a : atom) (p : nat) : bool := match a with ABeg => Nat.eqb p 0 | _ => false end.

Theorem ratom_match_notbol flg line a p :
  ratom_match (Z.lor flg REG_NOTBOL) line a p = if bol_at_0 a p then Ok None else ratom_match flg line a p.
Proof.
  assert (Hi : has (Z.lor flg REG_NOTBOL) REG_ICASE = has flg REG_ICASE) by (apply has_lor_other; reflexivity).
  assert (Hn : has (Z.lor flg REG_NOTBOL) REG_NEWLINE = has flg REG_NEWLINE) by (apply has_lor_other; reflexivity).
  assert (He : has (Z.lor flg REG_NOTBOL) REG_NOTEOL = has flg REG_NOTEOL) by (apply has_lor_other; reflexivity).
  assert (Hb : has (Z.lor flg REG_NOTBOL) REG_NOTBOL = true) by (apply has_lor_self; discriminate).
  destruct a; cbn [ratom_match bol_at_0]; rewrite ?Hi, ?Hn, ?He, ?Hb; try reflexivity.
  - rewrite (chr_icase_flags _ flg line Hi). reflexivity.
  - destruct (Nat.eqb p 0); reflexivity.
Qed.

Lemma atom_step_notbol flg line a s :
  atom_step (Z.lor flg REG_NOTBOL) line a s = if bol_at_0 a (fst s) then Ok None else atom_step flg line a s.
Proof. unfold atom_step. rewrite ratom_match_notbol. destruct (bol_at_0 a (fst s)); reflexivity. Qed.

(* ---------------------------------------------------------------------------------------------- *)
(* 2. two machines over the same program that differ in the atom semantics *)

Section TwoMachines.
  Variable St : Type.
  Variables as1 as2 : atom -> St -> res (option St).
  Variable mk : nat -> St -> St.
  Variable P : list instr.

  (* A. the two atom semantics agree on a set of states that steps and marks do not leave *)
  Section Agree.
    Variable Inv : St -> Prop.
    Hypothesis agree : forall a s, Inv s -> as2 a s = as1 a s.
    Hypothesis inv_step : forall a s s', Inv s -> as1 a s = Ok (Some s') -> Inv s'.
    Hypothesis inv_mark : forall m s, Inv s -> Inv (mk m s).

    Lemma loopF_agree call1 call2 : (forall pc s, Inv s -> call2 pc s = call1 pc s) ->
      forall k pc s, Inv s -> loopF St as2 mk P call2 k pc s = loopF St as1 mk P call1 k pc s.
    Proof.
      intros Hc k. induction k as [|k IH]; intros pc s Hs; cbn [loopF]; [reflexivity|].
      destruct (fetch P pc) eqn:F.
      - rewrite (agree _ _ Hs). destruct (as1 a s) as [[s'|]| |] eqn:E; try reflexivity. apply IH. eapply inv_step; eauto.
      - apply IH. apply inv_mark, Hs.
      - apply IH, Hs.
      - rewrite (Hc _ _ Hs). destruct (call1 a1 s) as [[cs r| | |w] c]; try reflexivity. rewrite (IH _ _ Hs). reflexivity.
      - reflexivity.
    Qed.

    Lemma rec_agree : forall d pc s, Inv s -> rec St as2 mk P d pc s = rec St as1 mk P d pc s.
    Proof.
      induction d as [|d IH]; intros pc s Hs; cbn [rec]; [reflexivity|]. apply loopF_agree; [|exact Hs].
      intros pc' s' Hs'. apply IH, Hs'.
    Qed.
  End Agree.

  (* B. as2 answers like as1 or refuses: as2 has fewer paths *)
  Section Restrict.
    Hypothesis restr : forall a s, as2 a s = as1 a s \/ as2 a s = Ok None.

    Lemma loopF_fail call1 call2 : (forall pc s c, call1 pc s = (Fail, c) -> exists c', call2 pc s = (Fail, c')) ->
      forall k pc s c, loopF St as1 mk P call1 k pc s = (Fail, c) -> exists c', loopF St as2 mk P call2 k pc s = (Fail, c').
    Proof.
      intros Hc k. induction k as [|k IH]; intros pc s c H; cbn [loopF] in *; [discriminate|].
      destruct (fetch P pc) eqn:F.
      - destruct (restr a s) as [E|E]; rewrite E.
        + destruct (as1 a s) as [[s'|]| |]; try discriminate; [eapply IH; eauto | eexists; reflexivity].
        + eexists; reflexivity.
      - eapply IH; eauto.
      - eapply IH; eauto.
      - destruct (call1 a1 s) as [o1 c1] eqn:E1. destruct o1; try discriminate.
        destruct (loopF St as1 mk P call1 k a2 s) as [o2 c2] eqn:E2. destruct o2; try discriminate.
        destruct (Hc _ _ _ E1) as [c1' E1']. destruct (IH _ _ _ E2) as [c2' E2']. rewrite E1', E2'. eexists; reflexivity.
      - discriminate.
    Qed.

    Lemma rec_fail : forall d pc s c, rec St as1 mk P d pc s = (Fail, c) -> exists c', rec St as2 mk P d pc s = (Fail, c').
    Proof.
      induction d as [|d IH]; intros pc s c H; cbn [rec] in *; [eexists; reflexivity|].
      eapply loopF_fail; [|exact H]. exact IH.
    Qed.

    (* inversion of a path of the second semantics at a known instruction *)
    Lemma path_atom pc s a cs r : fetch P pc = IAtom a -> path St as2 mk P pc s cs r ->
      exists s', as2 a s = Ok (Some s') /\ path St as2 mk P (S pc) s' cs r.
    Proof.
      intros F H. inversion H; subst; try congruence.
      match goal with A : fetch P pc = IAtom ?b, B : as2 ?b s = Ok (Some ?t), C : path _ _ _ _ _ ?t _ _ |- _ =>
        exists t; split; [congruence|exact C] end.
    Qed.
    Lemma path_mark pc s m cs r : fetch P pc = IMark m -> path St as2 mk P pc s cs r -> path St as2 mk P (S pc) (mk m s) cs r.
    Proof.
      intros F H. inversion H; subst; try congruence.
    Qed.
    Lemma path_jump pc s t cs r : fetch P pc = IJump t -> path St as2 mk P pc s cs r -> path St as2 mk P t s cs r.
    Proof.
      intros F H. inversion H; subst; try congruence.
    Qed.
    Lemma path_fork pc s a1 a2 cs r : fetch P pc = IFork a1 a2 -> path St as2 mk P pc s cs r ->
      exists b cs', cs = b :: cs' /\ path St as2 mk P (if b then a2 else a1) s cs' r.
    Proof.
      intros F H. inversion H; subst; try congruence.
      - match goal with A : fetch P pc = IFork ?x ?y, C : path _ _ _ _ ?x s ?l _ |- _ =>
          exists false, l; split; [reflexivity|]; replace a1 with x by congruence; exact C end.
      - match goal with A : fetch P pc = IFork ?x ?y, C : path _ _ _ _ ?y s ?l _ |- _ =>
          exists true, l; split; [reflexivity|]; replace a2 with y by congruence; exact C end.
    Qed.
    Lemma path_match pc s cs r : fetch P pc = IMatch -> path St as2 mk P pc s cs r -> cs = [] /\ r = s.
    Proof. intros F H. inversion H; subst; try congruence. split; reflexivity. Qed.

    Lemma loopF_found call1 call2 :
      (forall pc s c, call1 pc s = (Fail, c) -> exists c', call2 pc s = (Fail, c')) ->
      (forall pc s cs r c, call1 pc s = (Found cs r, c) -> path St as2 mk P pc s cs r -> exists c', call2 pc s = (Found cs r, c')) ->
      forall k pc s cs r c, loopF St as1 mk P call1 k pc s = (Found cs r, c) -> path St as2 mk P pc s cs r ->
        exists c', loopF St as2 mk P call2 k pc s = (Found cs r, c').
    Proof.
      intros Hf Hc k. induction k as [|k IH]; intros pc s cs r c H Hp; cbn [loopF] in *; [discriminate|].
      destruct (fetch P pc) eqn:F.
      - destruct (path_atom _ _ _ _ _ F Hp) as (s' & E2 & Hp').
        destruct (restr a s) as [E|E]; [|congruence]. rewrite E2. rewrite E2 in E. rewrite <- E in H. eapply IH; eauto.
      - eapply IH; [exact H|]. eapply path_mark; eauto.
      - eapply IH; [exact H|]. eapply path_jump; eauto.
      - destruct (path_fork _ _ _ _ _ _ F Hp) as (b & cs' & -> & Hp').
        destruct (call1 a1 s) as [o1 c1] eqn:E1. destruct o1; try discriminate.
        + inversion H; subst. destruct (Hc _ _ _ _ _ E1 Hp') as [c' E']. rewrite E'. eexists; reflexivity.
        + destruct (loopF St as1 mk P call1 k a2 s) as [o2 c2] eqn:E2. destruct o2; try discriminate.
          inversion H; subst. destruct (Hf _ _ _ E1) as [c1' E1']. destruct (IH _ _ _ _ _ E2 Hp') as [c2' E2'].
          rewrite E1', E2'. eexists; reflexivity.
      - destruct (path_match _ _ _ _ F Hp) as [-> ->]. inversion H; subst. eexists; reflexivity.
    Qed.

    Lemma rec_found : forall d pc s cs r c, rec St as1 mk P d pc s = (Found cs r, c) -> path St as2 mk P pc s cs r ->
      exists c', rec St as2 mk P d pc s = (Found cs r, c').
    Proof.
      induction d as [|d IH]; intros pc s cs r c H Hp; cbn [rec] in *; [discriminate|].
      eapply loopF_found; [apply rec_fail | exact IH | exact H | exact Hp].
    Qed.
  End Restrict.
End TwoMachines.

(* ---------------------------------------------------------------------------------------------- *)
(* 3. the concrete machine: positions and marks *)

Section Concrete.
  Variable d : nat.
  Variable P : list instr.
  Variable flg : Z.
  Variable line : bytes.
  Let nbf := Z.lor flg REG_NOTBOL.

  Lemma notbol_restricts a s : atom_step nbf line a s = atom_step flg line a s \/ atom_step nbf line a s = Ok None.
  Proof. unfold nbf. rewrite atom_step_notbol. destruct (bol_at_0 a (fst s)); [right|left]; reflexivity. Qed.

  Definition later (s : st) : Prop := 1 <= fst s <= length line.

  Lemma later_agree a s : later s -> atom_step nbf line a s = atom_step flg line a s.
  Proof.
    intros [H _]. unfold nbf. rewrite atom_step_notbol. destruct a; cbn [bol_at_0]; try reflexivity.
    destruct (Nat.eqb (fst s) 0) eqn:E; [apply Nat.eqb_eq in E; lia | reflexivity].
  Qed.
  Lemma later_step a s s' : later s -> atom_step flg line a s = Ok (Some s') -> later s'.
  Proof.
    intros [H1 H2] H. unfold atom_step in H. destruct (ratom_match flg line a (fst s)) as [[q|]| |] eqn:E; cbn [bind] in H; try discriminate.
    inversion H; subst. pose proof (ReProps8.ratom_match_range _ _ _ _ _ H2 E). unfold later. cbn [fst]. lia.
  Qed.
  Lemma later_mark m s : later s -> later (mark_step m s).
  Proof. unfold later, mark_step. destruct (Z.of_nat m <? NGRPS)%Z; cbn [fst]; auto. Qed.

  (* an attempt that starts to the right of the first byte never sees the flag *)
  Theorem recmatch_notbol_later o : 1 <= o <= length line -> re_recmatch d P nbf line o = re_recmatch d P flg line o.
  Proof.
    intro H. unfold re_recmatch. apply (rec_agree st (atom_step flg line) (atom_step nbf line) mark_step P later).
    - exact later_agree.
    - exact later_step.
    - exact later_mark.
    - exact H.
  Qed.

  (* ... nor does the rest of regexec's loop *)
  Theorem loop_notbol_later : forall k o s, 1 <= s -> re_loop d P nbf line k o s = re_loop d P flg line k o s.
  Proof.
    induction k as [|k IH]; intros o s Hs; cbn [re_loop]; [reflexivity|].
    destruct (rdk SUcLen line o) as [co| |]; try reflexivity. destruct (co =? 0)%N; [reflexivity|].
    destruct (rdk SUcLen line s) as [c1| |] eqn:R; try reflexivity.
    apply ReProps10.rdk_val in R. destruct R as [_ R].
    rewrite recmatch_notbol_later by lia. rewrite IH by lia. reflexivity.
  Qed.

  (* the attempt at the first byte: failure is kept, and a match reached without ^ at offset 0 is kept *)
  Theorem recmatch_notbol_fail o c : re_recmatch d P flg line o = (Fail, c) -> exists c', re_recmatch d P nbf line o = (Fail, c').
  Proof. unfold re_recmatch. apply rec_fail. exact notbol_restricts. Qed.

  Theorem recmatch_notbol_found o cs r c : re_recmatch d P flg line o = (Found cs r, c) ->
    path st (atom_step nbf line) mark_step P 0 (o, repeat (-1)%Z nmarks) cs r ->
    exists c', re_recmatch d P nbf line o = (Found cs r, c').
  Proof. unfold re_recmatch. apply rec_found. exact notbol_restricts. Qed.

  Lemma first_char_len co : rdk SUcLen line 0 = Ok co -> (co =? 0)%N = false -> 1 <= 0 + re_uclen_at line 0.
  Proof.
    intros R Z0. apply ReProps10.rdk_val in R. destruct R as [-> _]. apply N.eqb_neq in Z0.
    unfold re_uclen_at. cbn [skipn plus]. apply ReProps6.re_uclen_pos. destruct line; exact Z0.
  Qed.

  (* regexec's loop from the start of the searched text *)
  Theorem loop_notbol_start k :
    (exists c, re_recmatch d P flg line 0 = (Fail, c)) \/
    (exists cs r c, re_recmatch d P flg line 0 = (Found cs r, c) /\
       path st (atom_step nbf line) mark_step P 0 (0, repeat (-1)%Z nmarks) cs r) ->
    fst (re_loop d P nbf line k 0 0) = fst (re_loop d P flg line k 0 0).
  Proof.
    intro H. destruct k as [|k]; [reflexivity|]. cbn [re_loop].
    destruct (rdk SUcLen line 0) as [co| |] eqn:R0; try reflexivity. destruct (co =? 0)%N eqn:Z0; [reflexivity|].
    destruct H as [(c & E)|(cs & r & c & E & Hp)].
    - destruct (recmatch_notbol_fail _ _ E) as [c' E']. rewrite E, E'.
      rewrite loop_notbol_later by (eapply first_char_len; eauto).
      destruct (re_loop d P flg line k 0 (0 + re_uclen_at line 0)) as [x c2]. reflexivity.
    - destruct (recmatch_notbol_found _ _ _ _ E Hp) as [c' E']. rewrite E, E'. reflexivity.
  Qed.
End Concrete.

(* ---------------------------------------------------------------------------------------------- *)
(* 4. regexec, rset_find, rstr_find *)

Lemma search_flags_notbol rs : search_flags rs true = Z.lor (search_flags rs false) REG_NOTBOL.
Proof.
  unfold search_flags.
  change (has (nbflag true) RE_NOTBOL) with true. change (has (nbflag true) RE_NOTEOL) with false.
  change (has (nbflag false) RE_NOTBOL) with false. change (has (nbflag false) RE_NOTEOL) with false.
  cbv iota. rewrite !Z.lor_0_r, !Z.lor_assoc. reflexivity.
Qed.

Lemma rset_find_notbol d rs ln n : start_indifferent d rs ln ->
  fst (rset_find_d d rs ln n (nbflag true)) = fst (rset_find_d d rs ln n (nbflag false)).
Proof.
  intro H. unfold rset_find_d. destruct (Nat.leb (rs_grpcnt rs) 2); [reflexivity|].
  unfold regexec_d.
  change (Z.lor (rs_cflg rs) (Z.lor REG_NEWLINE (Z.lor (if has (nbflag true) RE_NOTBOL then REG_NOTBOL else 0%Z)
            (if has (nbflag true) RE_NOTEOL then REG_NOTEOL else 0%Z)))) with (search_flags rs true).
  change (Z.lor (rs_cflg rs) (Z.lor REG_NEWLINE (Z.lor (if has (nbflag false) RE_NOTBOL then REG_NOTBOL else 0%Z)
            (if has (nbflag false) RE_NOTEOL then REG_NOTEOL else 0%Z)))) with (search_flags rs false).
  assert (L : fst (re_loop d (code (rs_prog rs)) (search_flags rs true) ln (length ln + 2) 0 0) =
              fst (re_loop d (code (rs_prog rs)) (search_flags rs false) ln (length ln + 2) 0 0)).
  { rewrite search_flags_notbol. apply loop_notbol_start. unfold start_indifferent, first_attempt in H.
    rewrite search_flags_notbol in H. exact H. }
  destruct (re_loop d (code (rs_prog rs)) (search_flags rs true) ln (length ln + 2) 0 0) as [x1 c1].
  destruct (re_loop d (code (rs_prog rs)) (search_flags rs false) ln (length ln + 2) 0 0) as [x2 c2].
  cbn [fst] in L. subst x2. destruct x1 as [[r|]| |]; try reflexivity.
  cbn [fst]. destruct (rset_which _ _ _ _ <? 0)%Z; reflexivity.
Qed.

(* the compiled leg of rstr_find: with nothing at the first byte that needs ^, RE_NOTBOL changes no answer *)
Theorem general_find_notbol d ic pat ln rs : rset_make [Some pat] (icflag ic) = Ok (Some rs) -> start_indifferent d rs ln ->
  general_find d ic pat ln true = general_find d ic pat ln false.
Proof.
  intros Hm H. unfold general_find. rewrite Hm. pose proof (rset_find_notbol d rs ln ngrps H) as E.
  destruct (rset_find_d d rs ln ngrps (nbflag true)) as [x1 c1]. destruct (rset_find_d d rs ln ngrps (nbflag false)) as [x2 c2].
  cbn [fst] in E. subst x2. reflexivity.
Qed.

(* rstr_find consults its "anchored at the line start" shortcut for literal patterns only: a pattern that rstr_simple does
   not take goes to rset_find with the flags untouched, whatever its text begins with *)
Theorem engine_find_general d ic pat ln nb : RstrDefs.rstr_simple ic pat = None ->
  engine_find d ic pat ln nb = general_find d ic pat ln nb.
Proof. intro H. unfold engine_find, RstrDefs.rstr_make. rewrite H. reflexivity. Qed.

Theorem engine_find_notbol d ic pat ln rs : RstrDefs.rstr_simple ic pat = None ->
  rset_make [Some pat] (icflag ic) = Ok (Some rs) -> start_indifferent d rs ln ->
  engine_find d ic pat ln true = engine_find d ic pat ln false.
Proof. intros Hs Hm H. rewrite !engine_find_general by exact Hs. eapply general_find_notbol; eauto. Qed.

(* ---------------------------------------------------------------------------------------------- *)
(* 5. non-vacuity: the pattern  ^a|b  (text begins with ^, compiled, second alternative unanchored) *)

Ltac path_step := first
 [ eapply p_match; reflexivity
 | eapply p_mark; [reflexivity|]
 | eapply p_atom; [reflexivity | reflexivity |]
 | eapply p_jump; [reflexivity|]
 | eapply p_left; [reflexivity|]
 | eapply p_right; [reflexivity|] ].

(* on "bab\n" the match at the first byte comes from the alternative b: choice path [true], no ^ atom on it *)
Lemma ex_path : path st (atom_step (Z.lor REG_NEWLINE REG_NOTBOL) [98; 97; 98; 10]%N) mark_step
   [IMark 0; IMark 2; IMark 4; IFork 4 7; IAtom ABeg; IAtom (AChr [97%N]); IJump 8; IAtom (AChr [98%N]); IMark 5; IMark 3; IMark 1; IMatch]
   0 (0%nat, repeat (-1)%Z nmarks) [true] (1%nat, [0; 1; 0; 1; 0; 1]%Z ++ repeat (-1)%Z 122).
Proof. repeat path_step. Qed.

Definition ex_pat : bytes := [94; 97; 124; 98]%N.          (* ^a|b *)

Example notbol_nonvacuous :
  (exists rs, rset_make [Some ex_pat] (icflag false) = Ok (Some rs) /\ RstrDefs.rstr_simple false ex_pat = None /\
    (* "cbab": nothing matches at the first byte; under RE_NOTBOL the b at offset 1 is found *)
    (exists c, first_attempt 256 rs [99; 98; 97; 98; 10]%N = (Fail, c)) /\
    engine_find 256 false ex_pat [99; 98; 97; 98; 10]%N true = Some ((1, 2)%Z :: repeat unset 15) /\
    (* "bab" (the rest of "abab" after its first replacement): the b at the first byte is found under RE_NOTBOL *)
    start_indifferent 256 rs [98; 97; 98; 10]%N /\
    engine_find 256 false ex_pat [98; 97; 98; 10]%N true = Some ((0, 1)%Z :: repeat unset 15)) /\
  (* through the scan of ec_substitute:  s/^a|b/X/g  on "abab",  s/^ +| +$//g  on "  ab cd  ",  s/^é|ü/_/g  on "éaüaü" *)
  subst_line (engine_find 256 false ex_pat) [88%N] true [97; 98; 97; 98; 10]%N = Changed [88; 88; 97; 88; 10]%N /\
  subst_line (engine_find 256 false [94; 32; 43; 124; 32; 43; 36]%N) [] true [32; 32; 97; 98; 32; 99; 100; 32; 32; 10]%N
    = Changed [97; 98; 32; 99; 100; 10]%N /\
  subst_line (engine_find 256 false (UcSpec.chars [94; 233; 124; 252]%N)) [95%N] true (UcSpec.chars [233; 97; 252; 97; 252; 10]%N)
    = Changed [95; 97; 95; 97; 95; 10]%N /\
  (* ... and a pattern that IS anchored as a whole is replaced once:  s/^a+/X/g  on "aaa" *)
  subst_line (engine_find 256 false [94; 97; 43]%N) [88%N] true [97; 97; 97; 10]%N = Changed [88; 10]%N.
Proof.
  split.
  - eexists. split; [vm_compute; reflexivity|]. split; [vm_compute; reflexivity|].
    split; [eexists; vm_compute; reflexivity|]. split; [vm_compute; reflexivity|].
    split; [|vm_compute; reflexivity].
    right. exists [true], (1%nat, [0; 1; 0; 1; 0; 1]%Z ++ repeat (-1)%Z 122), 0%N. split; [vm_compute; reflexivity|].
    exact ex_path.
  - repeat split; vm_compute; reflexivity.
Qed.

Print Assumptions ratom_match_notbol.
Print Assumptions engine_find_notbol.
