(* TrUcCode.v (uc_len, uc_code; the navigation functions are in TrUc.v) -- the hand-written model of uc.c (UcDefs.v and the width/shape parts of RenDefs/ShapeDefs)
   is what the C text says: for each function, running the CLite term that tools/c2clite.py
   generated from /repo's uc.c (GenCFuncs.v) gives, for ALL inputs, the value of the model -- and no
   checked load leaves its block, no signed operation overflows, no fuel runs out. *)
From Coq Require Import List ZArith NArith Bool Lia.
From NV Require Import Bytes UcDefs CLite CLiteProps GenCFuncs.
From NV Require Export CLiteTac.
Import ListNotations.
Local Open Scope Z_scope.

(* ------------------------------------------------------------------ uc_len *)
Theorem tr_uc_len m b s o d fuel :
  str_at m b s -> bytes_lt256 s -> (o <= length s)%nat ->
  callf cprog fuel (S d) F_uc_len [VPtr b (Z.of_nat o)] m
  = Ok (VInt (Z.of_nat (uc_len_b (nthb s o))), m).
Proof.
  intros Hs H256 Ho. enter F_uc_len cf_uc_len. xstep.
  rewrite (load_str m b s _ o Hs) by lia. xstep. rewrite wrap_byte_chain by (apply nthb_lt256; exact H256).
  pose proof (nthb_lt256 s o H256) as Hc. generalize dependent (nthb s o). intros c Hc.
  Time sweep_byte c Hc.
Time Qed.

(* ------------------------------------------------------------------ uc_code *)
Lemma cc_c0 : forall c, (c < 256)%N ->
  negb (Z.land (Z.lnot (Z.of_N c)) 192 =? 0) = negb (bit c 128 && bit c 64).
Proof. byte_fact. Qed.
Lemma cc_20 : forall c, (c < 256)%N -> negb (Z.land (Z.lnot (Z.of_N c)) 32 =? 0) = negb (bit c 32).
Proof. byte_fact. Qed.
Lemma cc_10 : forall c, (c < 256)%N -> negb (Z.land (Z.lnot (Z.of_N c)) 16 =? 0) = negb (bit c 16).
Proof. byte_fact. Qed.
Lemma cc_08 : forall c, (c < 256)%N -> negb (Z.land (Z.lnot (Z.of_N c)) 8 =? 0) = negb (bit c 8).
Proof. byte_fact. Qed.
Lemma sh_1f_6 : forall c, (c < 256)%N ->
  shl32 (Z.land (Z.of_N c) 31) 6 = Ok (Z.of_N (N.shiftl (N.land c 31) 6)).
Proof. byte_fact. Qed.
Lemma sh_0f_12 : forall c, (c < 256)%N ->
  shl32 (Z.land (Z.of_N c) 15) 12 = Ok (Z.of_N (N.shiftl (N.land c 15) 12)).
Proof. byte_fact. Qed.
Lemma sh_07_18 : forall c, (c < 256)%N ->
  shl32 (Z.land (Z.of_N c) 7) 18 = Ok (Z.of_N (N.shiftl (N.land c 7) 18)).
Proof. byte_fact. Qed.
Lemma sx_3f : forall c, (c < 256)%N -> Z.land (wrap I32 (wrap I8 (Z.of_N c))) 63 = Z.of_N (N.land c 63).
Proof. byte_fact. Qed.
Lemma sh_3f_6 : forall c, (c < 256)%N ->
  shl32 (Z.of_N (N.land c 63)) 6 = Ok (Z.of_N (N.shiftl (N.land c 63) 6)).
Proof. byte_fact. Qed.
Lemma sh_3f_12 : forall c, (c < 256)%N ->
  shl32 (Z.of_N (N.land c 63)) 12 = Ok (Z.of_N (N.shiftl (N.land c 63) 12)).
Proof. byte_fact. Qed.
Lemma len_2 : forall c, (c < 256)%N -> (negb (bit c 128 && bit c 64) || bit c 32) = negb (Nat.eqb (uc_len_b c) 2).
Proof. byte_fact. Qed.
Lemma len_3 : forall c, (c < 256)%N -> (negb (bit c 128 && bit c 64) || negb (bit c 32) || bit c 16) = negb (Nat.eqb (uc_len_b c) 3).
Proof. byte_fact. Qed.
Lemma len_4 : forall c, (c < 256)%N -> (negb (bit c 128 && bit c 64) || negb (bit c 32) || negb (bit c 16) || bit c 8) = negb (Nat.eqb (uc_len_b c) 4).
Proof. byte_fact. Qed.

Theorem tr_uc_code m b s o d fuel :
  str_at m b s -> bytes_lt256 s -> (o + uc_len_b (nthb s o) - 1 <= length s)%nat -> (o <= length s)%nat ->
  callf cprog fuel (S d) F_uc_code [VPtr b (Z.of_nat o)] m
  = Ok (VInt (Z.of_N (uc_code (skipn o s))), m).
Proof.
  intros Hs H256 Hlen Ho. enter F_uc_code cf_uc_code. xstep.
  rewrite (load_str m b s _ o Hs) by lia. xstep. rewrite wrap_byte_chain by (apply nthb_lt256; exact H256).
  unfold uc_code. rewrite !nthb_skipn, Nat.add_0_r.
  pose proof (nthb_lt256 s o H256) as Hc. pose proof (nthb_lt256 s (o + 1) H256) as H1.
  pose proof (nthb_lt256 s (o + 2) H256) as H2. pose proof (nthb_lt256 s (o + 3) H256) as H3.
  pose proof (len_2 _ Hc) as L2. pose proof (len_3 _ Hc) as L3. pose proof (len_4 _ Hc) as L4.
  set (c := nthb s o) in *. set (b1 := nthb s (o + 1)) in *. set (b2 := nthb s (o + 2)) in *. set (b3 := nthb s (o + 3)) in *.
  rewrite (cc_c0 c Hc). destruct (negb (bit c 128 && bit c 64)) eqn:E1; [reflexivity|].
  xstep. rewrite (cc_20 c Hc).
  destruct (negb (bit c 32)) eqn:E2.
  { (* two bytes *)
    assert (uc_len_b c = 2%nat) as L by (destruct (bit c 32); cbn in *; try discriminate; apply Nat.eqb_eq; destruct (Nat.eqb (uc_len_b c) 2); [reflexivity|discriminate]).
    xstep. fold_shl. rewrite (sh_1f_6 c Hc). xstep.
    rewrite (load_str m b s _ (o + 1) Hs) by lia. xstep. fold b1.
    rewrite (sx_3f b1 H1), of_N_lor. reflexivity. }
  xstep. rewrite (cc_10 c Hc).
  destruct (negb (bit c 16)) eqn:E3.
  { assert (uc_len_b c = 3%nat) as L by (destruct (bit c 32), (bit c 16); cbn in *; try discriminate; apply Nat.eqb_eq; destruct (Nat.eqb (uc_len_b c) 3); [reflexivity|discriminate]).
    xstep. fold_shl. rewrite (sh_0f_12 c Hc). xstep.
    rewrite (load_str m b s _ (o + 1) Hs) by lia. xstep. fold b1. rewrite (sx_3f b1 H1).
    fold_shl. rewrite (sh_3f_6 b1 H1). xstep.
    rewrite (load_str m b s _ (o + 2) Hs) by lia. xstep. fold b2.
    rewrite (sx_3f b2 H2), !of_N_lor. reflexivity. }
  xstep. rewrite (cc_08 c Hc).
  destruct (negb (bit c 8)) eqn:E4.
  { assert (uc_len_b c = 4%nat) as L by (destruct (bit c 32), (bit c 16), (bit c 8); cbn in *; try discriminate; apply Nat.eqb_eq; destruct (Nat.eqb (uc_len_b c) 4); [reflexivity|discriminate]).
    xstep. fold_shl. rewrite (sh_07_18 c Hc). xstep.
    rewrite (load_str m b s _ (o + 1) Hs) by lia. xstep. fold b1. rewrite (sx_3f b1 H1).
    fold_shl. rewrite (sh_3f_12 b1 H1). xstep.
    rewrite (load_str m b s _ (o + 2) Hs) by lia. xstep. fold b2. rewrite (sx_3f b2 H2).
    fold_shl. rewrite (sh_3f_6 b2 H2). xstep.
    rewrite (load_str m b s _ (o + 3) Hs) by lia. xstep. fold b3.
    rewrite (sx_3f b3 H3), !of_N_lor. reflexivity. }
  xstep. reflexivity.
Qed.

