(* UcDefs.v -- model of the UTF-8 helpers of uc.c (and of the private copies in regex.c).
   A C pointer into a string is modelled by the suffix it points at (the terminator is
   implicit: reading past the last byte yields 0); functions that move backwards use a
   zipper (reversed prefix, suffix).  Only definitions here: the model must stay runnable when a
   proof breaks. *)
From Coq Require Import List NArith ZArith Bool.
From NV Require Import Bytes.
Import ListNotations.
Local Open Scope N_scope.

(* uc.c: uc_len (identical text in regex.c) *)
Definition uc_len_b (c : N) : nat :=
  if negb (bit c 128 && bit c 64) then (if 0 <? c then 1%nat else 0%nat)   (* if (~c & 0xc0) return c > 0; *)
  else if negb (bit c 32) then 2%nat
  else if negb (bit c 16) then 3%nat
  else if negb (bit c 8) then 4%nat
  else 1%nat.
Definition uc_len (s : bytes) : nat := uc_len_b (hd0 s).

(* uc.c: uc_code (regex.c: uc_dec) *)
Definition uc_code (s : bytes) : N :=
  let c := nthb s 0 in
  if negb (bit c 128 && bit c 64) then c
  else if negb (bit c 32) then N.lor (N.shiftl (N.land c 31) 6) (N.land (nthb s 1) 63)
  else if negb (bit c 16) then
    N.lor (N.lor (N.shiftl (N.land c 15) 12) (N.shiftl (N.land (nthb s 1) 63) 6)) (N.land (nthb s 2) 63)
  else if negb (bit c 8) then
    N.lor (N.lor (N.lor (N.shiftl (N.land c 7) 18) (N.shiftl (N.land (nthb s 1) 63) 12))
                 (N.shiftl (N.land (nthb s 2) 63) 6)) (N.land (nthb s 3) 63)
  else c.

Definition is_cont (b : N) : bool := N.land b 192 =? 128.     (* (b & 0xc0) == 0x80 *)
Definition is_lead (b : N) : bool := N.land b 192 =? 192.     (* (b & 0xc0) == 0xc0 *)

(* while (s[0] is a continuation byte) s++;   -- how far s moves *)
Fixpoint skip_cont (s : bytes) : nat :=
  match s with
  | b :: r => if is_cont b then S (skip_cont r) else 0%nat
  | [] => 0%nat
  end.

(* uc.c: uc_end(s) - s *)
Definition uc_end (s : bytes) : nat :=
  match s with
  | [] => 0%nat
  | b :: r =>
      if negb (bit b 128) then 0%nat
      else if is_lead b then skip_cont r               (* s++; while (cont) s++; return s - 1; *)
      else (skip_cont s - 1)%nat                        (* a continuation byte: only the loop moves *)
  end.

(* uc.c: uc_next(s) - s *)
Definition uc_next (s : bytes) : nat :=
  let e := uc_end s in if nthb s e =? 0 then e else S e.

(* uc.c: uc_slen; the C loop runs while *s, fuel = length s suffices because every step
   advances by at least one byte *)
Fixpoint uc_slen_f (fuel : nat) (s : bytes) : nat :=
  match fuel with
  | O => 0%nat
  | S f => match s with
           | [] => 0%nat
           | _ => S (uc_slen_f f (skipn (S (uc_end s)) s))
           end
  end.
Definition uc_slen (s : bytes) : nat := uc_slen_f (length s) s.

(* uc.c: uc_beg(beg, s) on a zipper: pre = bytes between beg and s, nearest first.
   returns how many bytes s moves back *)
Fixpoint uc_beg (pre : bytes) (cur : N) : nat :=
  match pre with
  | [] => 0%nat
  | p :: pre' => if is_cont cur then S (uc_beg pre' p) else 0%nat
  end.
(* uc.c: uc_prev(beg, s): s == beg ? beg : uc_beg(beg, s - 1); returns how far s moves back *)
Definition uc_prev (pre : bytes) : nat :=
  match pre with
  | [] => 0%nat
  | p :: pre' => S (uc_beg pre' p)
  end.

(* uc.c: uc_chop: byte offsets of the n + 1 character starts (the last one is the terminator) *)
Fixpoint uc_chop_f (k : nat) (s : bytes) (base : nat) : list nat :=
  match k with
  | O => []
  | S k' => base :: uc_chop_f k' (skipn (uc_next s) s) (base + uc_next s)
  end.
Definition uc_chop (s : bytes) : list nat := uc_chop_f (S (uc_slen s)) s 0.

(* uc.c: uc_chr(s, off): Some k = the pointer s + k, None = the static "" *)
Fixpoint uc_chr_f (fuel : nat) (s : bytes) (i off : Z) (base : nat) : option nat :=
  match s with
  | [] => if (off <? 0)%Z || (i =? off)%Z then Some base else None
  | _ :: _ =>
      if (i =? off)%Z then Some base
      else match fuel with
           | O => None   (* unreachable: fuel = length of the string *)
           | S f => uc_chr_f f (skipn (uc_next s) s) (i + 1)%Z off (base + uc_next s)
           end
  end.
Definition uc_chr (s : bytes) (off : Z) : option nat := uc_chr_f (length s) s 0%Z off 0.

(* uc.c: uc_off(s, off): the number of characters between s and s + off *)
Fixpoint uc_off_f (fuel : nat) (s : bytes) (pos e : nat) : nat :=
  match fuel with
  | O => 0%nat
  | S f => match s with
           | [] => 0%nat
           | _ => if (pos <? e)%nat then S (uc_off_f f (skipn (uc_next s) s) (pos + uc_next s) e) else 0%nat
           end
  end.
Definition uc_off (s : bytes) (off : nat) : nat := uc_off_f (length s) s 0 off.

(* uc.c: uc_sub(s, beg, end); defined when both offsets resolve inside the string *)
Definition uc_sub (s : bytes) (b e : Z) : option bytes :=
  match uc_chr s b, uc_chr s e with
  | Some pb, Some pe => Some (if (pb <=? pe)%nat then firstn (pe - pb) (skipn pb s) else [])
  | _, _ => None
  end.

(* uc.c: uc_cput *)
Definition uc_cput (c : N) : bytes :=
  if 65535 <? c then
    [N.lor 240 (N.shiftr c 18); N.lor 128 (N.land (N.shiftr c 12) 63);
     N.lor 128 (N.land (N.shiftr c 6) 63); N.lor 128 (N.land c 63)]
  else if 2047 <? c then
    [N.lor 224 (N.shiftr c 12); N.lor 128 (N.land (N.shiftr c 6) 63); N.lor 128 (N.land c 63)]
  else if 127 <? c then
    [N.lor 192 (N.shiftr c 6); N.lor 128 (N.land c 63)]
  else [c].

(* character classes of uc.c (C locale) *)
Definition c_isspace (c : N) : bool := (c =? 32) || ((9 <=? c) && (c <=? 13)).
Definition c_isdigit (c : N) : bool := (48 <=? c) && (c <=? 57).
Definition c_isupper (c : N) : bool := (65 <=? c) && (c <=? 90).
Definition c_islower (c : N) : bool := (97 <=? c) && (c <=? 122).
Definition c_isalpha (c : N) : bool := c_isupper c || c_islower c.
Definition c_isalnum (c : N) : bool := c_isalpha c || c_isdigit c.
Definition c_isprint (c : N) : bool := (32 <=? c) && (c <=? 126).
Definition c_tolower (c : N) : N := if c_isupper c then c + 32 else c.
Definition uc_isspace (s : bytes) : bool := let c := hd0 s in (c <=? 127) && c_isspace c.
Definition uc_isprint (s : bytes) : bool := let c := hd0 s in (127 <? c) || c_isprint c.
Definition uc_isalpha (s : bytes) : bool := let c := hd0 s in (127 <? c) || c_isalpha c.
Definition uc_isdigit (s : bytes) : bool := let c := hd0 s in (c <=? 127) && c_isdigit c.
Definition uc_kind (s : bytes) : N :=
  if uc_isspace s then 0 else if uc_isalpha s || uc_isdigit s || (hd0 s =? 95) then 1 else 2.
