(* TrSubst.v -- the substitute command of /repo/ex.c tied to its model (coq/SubstDefs.v) BY PROOF on the translated C text
   (coq/GenCFuncs.v, whitelist tools/c2clite.d/99z_subst.list):
     (A) replace(dst, rep, ln, offs)  = SubstDefs.expand        (tr_replace)
     (B) the per-line scan loop of ec_substitute = SubstDefs.scan / subst_line, for every matcher oracle   (tr_subst_line)
   The string buffer under both is the translated sbuf.c (coq/TrSbuf.v), uc_len is coq/TrUcCode.v. *)
From Coq Require Import List ZArith NArith Bool Lia.
From NV Require Import Bytes UcDefs GenConsts IoDefs IoProps CLite CLiteProps GenCFuncs CLiteTac CLiteExt TrSbuf TrUcCode SubstDefs.
Import ListNotations.
Local Open Scope Z_scope.

(* ------------------------------------------------------------------ a C string somewhere in a block *)
(* block b holds, from cell o on, the bytes of s and the terminator (anything may follow: a char array such as xrep[EXLEN]) *)
Definition cstr_in (m : mem) (b : nat) (o : Z) (s : bytes) : Prop :=
  exists blk tail, nth_error m b = Some blk /\ 0 <= o /\ skipn (Z.to_nat o) blk = map VInt (zb s) ++ VInt 0 :: tail.

Lemma cstr_in_str_at m b s : str_at m b s -> cstr_in m b 0 s.
Proof. intro H. exists (cstr_block (zb s)), []. split; [exact H|]. split; [lia|]. reflexivity. Qed.
Lemma cstr_in_lt m b o s : cstr_in m b o s -> (b < length m)%nat.
Proof. intros (blk & tail & H & _). apply nth_error_Some. congruence. Qed.
Lemma cstr_in_same m m' b o s : nth_error m' b = nth_error m b -> cstr_in m b o s -> cstr_in m' b o s.
Proof. intros E (blk & tail & H & R). exists blk, tail. rewrite E. auto. Qed.
Lemma load_cstr_in m b o s z (i : nat) : cstr_in m b o s -> z = o + Z.of_nat i -> (i <= length s)%nat ->
  load m b z = Ok (VInt (Z.of_N (nthb s i))).
Proof.
  intros (blk & tail & H & Ho & E) -> Hi. unfold load. rewrite H.
  destruct (Z.ltb_spec (o + Z.of_nat i) 0); [lia|].
  replace (Z.to_nat (o + Z.of_nat i)) with (Z.to_nat o + i)%nat by lia.
  rewrite <- nth_error_skipn_add, E.
  change (VInt 0 :: tail) with ([VInt 0] ++ tail). rewrite app_assoc.
  rewrite nth_error_app1 by (rewrite app_length, map_length; unfold zb; rewrite map_length; cbn [length]; lia).
  fold (cstr_block (zb s)).
  assert (S : str_at [cstr_block (zb s)] 0 s) by reflexivity.
  pose proof (load_str _ 0 s _ i S eq_refl Hi) as L. unfold load in L. cbn [nth_error] in L.
  destruct (Z.ltb_spec (Z.of_nat i) 0); [lia|]. rewrite Nat2Z.id in L.
  destruct (nth_error (cstr_block (zb s)) i); [injection L as ->; reflexivity|discriminate].
Qed.

(* ------------------------------------------------------------------ facts about one byte *)
Lemma b_zero : forall c, (c < 256)%N -> (wrap I8 (Z.of_N c) =? 0) = (c =? 0)%N.
Proof. byte_fact. Qed.
Lemma b_is92 : forall c, (c < 256)%N -> (wrap I32 (wrap I8 (Z.of_N c)) =? 92) = (c =? 92)%N.
Proof. byte_fact. Qed.
Lemma b_is10 : forall c, (c < 256)%N -> (wrap I32 (wrap I8 (Z.of_N c)) =? 10) = (c =? 10)%N.
Proof. byte_fact. Qed.
Lemma b_sx0 : forall c, (c < 256)%N -> (wrap I32 (wrap I8 (Z.of_N c)) =? 0) = (c =? 0)%N.
Proof. byte_fact. Qed.
Lemma b_digit : forall c, (c < 256)%N ->
  (48 <=? wrap I32 (wrap I8 (Z.of_N c))) && (wrap I32 (wrap I8 (Z.of_N c)) <=? 57) = is_digit c.
Proof. byte_fact. Qed.

(* ------------------------------------------------------------------ the buffer with its capacity invariant *)
Definition sb_inv (m : mem) (p : nat) (cs : list Z) : Prop :=
  exists sz, sbuf_rep m p cs sz /\ sz_small (Z.of_nat (length cs)) sz.

Lemma sb_inv_make (m : mem) : sb_inv (m ++ [[VInt 0; VInt 0; VInt 0]]) (length m) [].
Proof. exists 0. split; [apply rep_make|apply make_small]. Qed.

Lemma sb_chr m p cs c d fuel : sb_inv m p cs -> Z.of_nat (length cs) + 1 <= 500000000 ->
  exists m', callf cprog fuel (S (S d)) F_sbuf_chr [VPtr p 0; VInt c] m = Ok (VUndef, m') /\
    sb_inv m' p (cs ++ [wrap I8 c]) /\ sbuf_step m m' p.
Proof.
  intros (sz & R & Hs) Hn.
  destruct (tr_sbuf_chr m p cs sz c d fuel R) as (m' & E & R' & _ & S').
  { apply (fits_small (Z.of_nat (length cs))); [exact Hs|lia|lia]. }
  exists m'. split; [exact E|]. split; [|exact S'].
  eexists. split; [exact R'|]. rewrite chr_sz_model, app_length, Nat2Z.inj_add. cbn [length]. apply chr_sz_small. exact Hs.
Qed.

Lemma sb_mem m p cs bs os sblk src d fuel : sb_inv m p cs ->
  bs <> p -> sbuf_datab m p <> Some bs -> nth_error m bs = Some sblk -> 0 <= os ->
  os + Z.of_nat (length src) <= Z.of_nat (length sblk) ->
  firstn (length src) (skipn (Z.to_nat os) sblk) = map VInt src ->
  Z.of_nat (length cs) + Z.of_nat (length src) <= 500000000 ->
  exists m', callf cprog fuel (S (S d)) F_sbuf_mem [VPtr p 0; VPtr bs os; VInt (Z.of_nat (length src))] m = Ok (VUndef, m') /\
    sb_inv m' p (cs ++ src) /\ sbuf_step m m' p.
Proof.
  intros (sz & R & Hs) Hbs Hbd Hsb Hos Hl Hsrc Hn.
  destruct (tr_sbuf_mem m p cs sz bs os sblk src d fuel R Hbs Hbd Hsb Hos Hl Hsrc) as (m' & E & R' & _ & S').
  { apply (fits_small (Z.of_nat (length cs))); [exact Hs|lia|lia]. }
  exists m'. split; [exact E|]. split; [|exact S'].
  eexists. split; [exact R'|].
  unfold IoDefs.sbuf_mem, sb_model. cbn [sb_sz sb_n sb_data]. rewrite map_length, Z.geb_leb, app_length, Nat2Z.inj_add.
  apply mem_sz_small; [exact Hs|lia].
Qed.

(* a block that is neither the struct nor its data block, older than the buffer's last step, is untouched by the step *)
Definition apart (m : mem) (p b : nat) : Prop := (b < length m)%nat /\ b <> p /\ sbuf_datab m p <> Some b.
Lemma apart_step m m' p b : sbuf_step m m' p -> apart m p b -> nth_error m' b = nth_error m b /\ apart m' p b.
Proof.
  intros S (Hl & Hp & Hd). destruct (step_src m m' p b S Hl Hp Hd) as [E D]. split; [exact E|].
  destruct S as (L & _). split; [lia|]. split; assumption.
Qed.

(* ------------------------------------------------------------------ the offsets array and the model's list of groups *)
Fixpoint pairs (l : list Z) : list grp :=
  match l with a :: b :: r => (a, b) :: pairs r | _ => [] end.
Lemma nth_pairs l : forall g, (2 * g + 1 < length l)%nat ->
  nth g (pairs l) unset = (nthz l (Z.of_nat (2 * g)), nthz l (Z.of_nat (2 * g + 1))).
Proof.
  induction l as [l IH] using (well_founded_induction (Wf_nat.well_founded_ltof _ (@length Z))).
  intros g Hg. destruct l as [|a [|b r]]; cbn [length] in Hg; try lia.
  destruct g as [|g]; [reflexivity|]. cbn [pairs nth].
  rewrite (IH r) by (unfold Wf_nat.ltof; cbn [length]; lia).
  unfold nthz. rewrite !Nat2Z.id. replace (2 * S g)%nat with (S (S (2 * g))) by lia.
  replace (S (S (2 * g)) + 1)%nat with (S (S (2 * g + 1))) by lia. reflexivity.
Qed.

(* the groups the replacement refers to *)
Fixpoint refs (rep : bytes) : list nat :=
  match rep with
  | [] => []
  | c :: rep1 =>
      if (c =? 92)%N then
        match rep1 with
        | [] => []
        | d :: rep2 => if is_digit d then N.to_nat (d - 48) :: refs rep2 else refs rep2
        end
      else refs rep1
  end.
(* the pointer ln + offs[2g] that replace() hands to memcpy, and the end of the copied range, stay inside the block of the
   line (its bytes and the terminator).  For a group with text this follows from the model's own range check; it is a
   condition for an EMPTY or UNSET group only: ln + (-1) must not leave the block, i.e. ln is not at its first byte. *)
Definition grp_ptr_ok (o n : nat) (g : grp) : Prop := 0 <= Z.of_nat o + fst g /\ Z.of_nat o + snd g <= Z.of_nat n + 1.
Definition refs_ptr_ok (o n : nat) (rep : bytes) (offs : list grp) : Prop :=
  Forall (fun g => grp_ptr_ok o n (nth g offs unset)) (refs rep).

(* ------------------------------------------------------------------ (A) replace *)
Definition rp_cond : expr := match fn_body cf_replace with SWhile c _ => c | _ => EConst 0 end.
Definition rp_body : stmt := match fn_body cf_replace with SWhile _ b => b | _ => SSkip end.
Lemma rp_shape : fn_body cf_replace = SWhile rp_cond rp_body.
Proof. reflexivity. Qed.

Lemma b_digit_sx : forall c, (c < 256)%N -> (if is_digit c then wrap I32 (wrap I8 (Z.of_N c)) else Z.of_N c) = Z.of_N c.
Proof. byte_fact. Qed.
Lemma byte_of_N c : (c < 256)%N -> byte_of (Z.of_N c) = c.
Proof. intro H. unfold byte_of. rewrite Z.mod_small by lia. apply N2Z.id. Qed.

Lemma firstn_cstr_sub (line : bytes) a k : (a + k <= length line)%nat ->
  firstn k (skipn a (cstr_block (zb line))) = map VInt (zb (firstn k (skipn a line))).
Proof.
  intro H. rewrite skipn_cstr_block by lia. unfold cstr_block, zb.
  rewrite firstn_app, !map_length, skipn_length. replace (k - (length line - a))%nat with 0%nat by lia.
  cbn [firstn]. rewrite app_nil_r, !firstn_map. reflexivity.
Qed.

(* the text of a group as the source of sbuf_mem's memcpy: the length is offs[2g+1] - offs[2g] >= 0 (never negative:
   the case of the defect repaired by f74e779 is excluded by the model's answer being Some), the copied range lies
   inside the block of the line *)
Lemma grp_text_src (line : bytes) o so eo t0 : (o <= length line)%nat ->
  grp_text (skipn o line) (so, eo) = Some t0 -> grp_ptr_ok o (length line) (so, eo) ->
  eo - so = Z.of_nat (length t0) /\ 0 <= Z.of_nat o + so /\
  Z.of_nat o + so + Z.of_nat (length t0) <= Z.of_nat (length (cstr_block (zb line))) /\
  firstn (length (zb t0)) (skipn (Z.to_nat (Z.of_nat o + so)) (cstr_block (zb line))) = map VInt (zb t0).
Proof.
  intros Ho G [P1 P2]. cbn [fst snd] in P1, P2. unfold grp_text in G.
  assert (Lc : length (cstr_block (zb line)) = S (length line)) by (unfold cstr_block, zb; rewrite app_length, !map_length; cbn; lia).
  destruct (Z.ltb_spec (eo - so) 0); [discriminate|].
  destruct (Z.eqb_spec (eo - so) 0) as [E0|E0].
  - injection G as <-. cbn [length zb map firstn]. rewrite Lc. repeat split; lia.
  - rewrite skipn_length in G.
    destruct (Z.ltb_spec so 0); [discriminate|]. destruct (Z.ltb_spec (Z.of_nat (length line - o)) eo); [discriminate|].
    cbn [orb] in G. injection G as <-.
    rewrite skipn_skipn.
    assert (Lt : length (firstn (Z.to_nat (eo - so)) (skipn (o + Z.to_nat so) line)) = Z.to_nat (eo - so))
      by (rewrite firstn_length, skipn_length; lia).
    rewrite Lt, Lc. split; [lia|]. split; [lia|]. split; [lia|].
    unfold zb at 1. rewrite map_length, Lt.
    replace (Z.to_nat (Z.of_nat o + so)) with (o + Z.to_nat so)%nat by lia.
    apply firstn_cstr_sub. lia.
Qed.

Section Replace.
  Variables (m0 : mem) (p br bl bo : nat) (ro : Z) (rep line : bytes) (o : nat) (offl : list Z) (d fuel : nat).
  Hypothesis Hrep : cstr_in m0 br ro rep.
  Hypothesis Hnrep : nonul rep.
  Hypothesis Hline : str_at m0 bl line.
  Hypothesis H256 : bytes_lt256 line.
  Hypothesis Ho : (o <= length line)%nat.
  Hypothesis Hlen : Z.of_nat (length line) < 2147483647.
  Hypothesis Hoffs : int_arr_at m0 bo offl.
  Hypothesis Hoffl : length offl = 32%nat.
  Hypothesis Hints : ints_ok offl.
  Hypothesis Abr : apart m0 p br.
  Hypothesis Abl : apart m0 p bl.
  Hypothesis Abo : apart m0 p bo.
  Let offs := pairs offl.
  Let rest := skipn o line.
  Let call := callf cprog fuel (S (S d)).
  Local Notation ST k g l m := (mkst [VPtr p 0; VPtr br (ro + Z.of_nat k); VPtr bl (Z.of_nat o); VPtr bo 0; g; l] m).

  Lemma rp_cond_eval k m g l : (k <= length rep)%nat -> sbuf_step m0 m p ->
    eval call rp_cond (ST k g l m) = Ok (VInt (wrap I8 (Z.of_N (nthb rep k))), ST k g l m).
  Proof.
    intros Hk S0. destruct (apart_step _ _ _ _ S0 Abr) as [Er _].
    pose proof (cstr_in_same _ _ _ _ _ Er Hrep) as Hr.
    unfold rp_cond. cbn [fn_body cf_replace]. xstep.
    rewrite (load_cstr_in _ _ _ _ _ k Hr) by lia. xstep. reflexivity.
  Qed.

  Lemma rp_chr k i j m cs g l fuel' : i = Z.of_nat j -> (k + j <= length rep)%nat -> sbuf_step m0 m p -> sb_inv m p cs ->
    Z.of_nat (length cs) + 1 <= 500000000 ->
    exists m', exec call fuel' (SExpr (ECall F_sbuf_chr [ELocal 0; ECast I32 (ECast U8 (ELoad (Some I8) (EPtrAdd 1 (ELocal 1) (EConst i))))])) (ST k g l m)
      = ONormal (ST k g l m') /\ sb_inv m' p (cs ++ [wrap I8 (Z.of_N (nthb rep (k + j)))]) /\ sbuf_step m m' p.
  Proof.
    intros -> Hk S0 R Hsz. destruct (apart_step _ _ _ _ S0 Abr) as [Er _].
    pose proof (cstr_in_same _ _ _ _ _ Er Hrep) as Hr.
    pose proof (nthb_lt256 rep (k + j) (nonul_lt256 _ Hnrep)) as Hc.
    destruct (sb_chr m p cs (Z.of_N (nthb rep (k + j))) d fuel R Hsz) as (m' & E & R' & S').
    exists m'. xstep. rewrite (load_cstr_in _ _ _ _ _ (k + j)%nat Hr) by lia. xstep.
    rewrite wrap_byte_chain by exact Hc. unfold call. rewrite E. xstep. auto.
  Qed.

  (* one round of the loop = one step of SubstDefs.expand *)
  Lemma rp_body_ok k m cs t g l fuel' : (k < length rep)%nat -> sbuf_step m0 m p -> sb_inv m p cs ->
    expand (skipn k rep) rest offs = Some t -> refs_ptr_ok o (length line) (skipn k rep) offs ->
    Z.of_nat (length cs) + Z.of_nat (length t) <= 500000000 ->
    exists k' m' cells t' g' l',
      exec call fuel' rp_body (ST k g l m) = ONormal (ST k' g' l' m') /\ (k < k' <= length rep)%nat /\
      sb_inv m' p (cs ++ cells) /\ t = map byte_of cells ++ t' /\ sbuf_step m m' p /\
      expand (skipn k' rep) rest offs = Some t' /\ refs_ptr_ok o (length line) (skipn k' rep) offs.
  Proof.
    intros Hk S0 R He Hp Hsz.
    destruct (apart_step _ _ _ _ S0 Abr) as [Er Ar]. destruct (apart_step _ _ _ _ S0 Abl) as [El Al].
    destruct (apart_step _ _ _ _ S0 Abo) as [Eo Ao].
    pose proof (cstr_in_same _ _ _ _ _ Er Hrep) as Hr.
    assert (Hl : nth_error m bl = Some (cstr_block (zb line))) by (rewrite El; exact Hline).
    assert (Hof : int_arr_at m bo offl) by (unfold int_arr_at; rewrite Eo; exact Hoffs).
    pose proof (nonul_lt256 _ Hnrep) as Hr256.
    rewrite (skipn_cons_nthb rep k Hk) in He, Hp.
    set (c := nthb rep k) in *.
    assert (Hc : (c < 256)%N) by (apply nthb_lt256; exact Hr256).
    assert (Hc0 : c <> 0%N).
    { unfold c, nthb. unfold nonul in Hnrep. rewrite Forall_forall in Hnrep. destruct (Hnrep (nth k rep 0%N)) as [X _]; [apply nth_In; exact Hk|]. lia. }
    (* the plain branch: the byte itself *)
    assert (Plain : forall t1, t = c :: t1 -> expand (skipn (S k) rep) rest offs = Some t1 -> refs_ptr_ok o (length line) (skipn (S k) rep) offs ->
              forall st1, st1 = ST k g l m ->
              exists k' m' cells t' g' l',
                match exec call fuel' (SExpr (ECall F_sbuf_chr [ELocal 0; ECast I32 (ECast U8 (ELoad (Some I8) (EPtrAdd 1 (ELocal 1) (EConst 0))))])) st1 with
                | ONormal st1 => exec call fuel' (SExpr (EIncLocal true 1 None 1)) st1
                | o => o
                end = ONormal (ST k' g' l' m') /\ (k < k' <= length rep)%nat /\
                sb_inv m' p (cs ++ cells) /\ t = map byte_of cells ++ t' /\ sbuf_step m m' p /\
                expand (skipn k' rep) rest offs = Some t' /\ refs_ptr_ok o (length line) (skipn k' rep) offs).
    { intros t1 -> He1 Hp1 st1 ->. cbn [length] in Hsz.
      destruct (rp_chr k 0 0%nat m cs g l fuel' eq_refl ltac:(lia) S0 R ltac:(lia)) as (m' & E & R' & S').
      rewrite E. xstep. rewrite Nat.add_0_r in R'. fold c in R'.
      exists (S k), m', [wrap I8 (Z.of_N c)], t1, g, l.
      replace (ro + Z.of_nat k + 1) with (ro + Z.of_nat (S k)) by lia.
      split; [reflexivity|]. split; [lia|]. split; [exact R'|].
      split; [cbn [map app]; rewrite byte_of_wrap, byte_of_N by exact Hc; reflexivity|]. auto. }
    unfold rp_body. cbn [fn_body cf_replace]. xstep.
    rewrite (load_cstr_in _ _ _ _ _ k Hr) by lia. xstep. fold c. rewrite (b_is92 c Hc).
    rewrite (load_cstr_in _ _ _ _ _ (S k) Hr) by lia. xstep.
    set (d1 := nthb rep (S k)) in *.
    assert (Hd1 : (d1 < 256)%N) by (apply nthb_lt256; exact Hr256).
    rewrite (b_sx0 d1 Hd1).
    cbn [expand] in He. cbn [refs refs_ptr_ok] in Hp. unfold refs_ptr_ok in Hp. cbn [refs] in Hp.
    destruct (N.eqb_spec c 92) as [E92|E92].
    2:{ cbn [truth Z.eqb negb]. destruct (expand (skipn (S k) rep) rest offs) as [t1|] eqn:E1; [|discriminate]. cbn [opt_app app] in He. injection He as <-.
        apply (Plain t1 eq_refl eq_refl Hp _ eq_refl). }
    destruct (Nat.eq_dec (S k) (length rep)) as [Elast|Elast].
    { (* the backslash is the last byte *)
      assert (d1 = 0%N) as -> by (apply nthb_end; lia). cbn [N.eqb negb b2z bind truth as_int Z.eqb].
      rewrite (skipn_end rep (S k)) in * by lia. injection He as <-.
      apply (Plain [] eq_refl eq_refl ltac:(constructor) _ eq_refl). }
    rewrite (skipn_cons_nthb rep (S k)) in He, Hp by lia. fold d1 in He, Hp.
    assert (Hd0 : d1 <> 0%N).
    { unfold d1, nthb. unfold nonul in Hnrep. rewrite Forall_forall in Hnrep. destruct (Hnrep (nth (S k) rep 0%N)) as [X _]; [apply nth_In; lia|]. lia. }
    destruct (N.eqb_spec d1 0); [contradiction|]. cbn [negb b2z]. xstep.
    rewrite (load_cstr_in _ _ _ _ _ (S k) Hr) by lia. xstep. fold d1.
    rewrite (load_cstr_in _ _ _ _ _ (S k) Hr) by lia. xstep. fold d1.
    pose proof (b_digit d1 Hd1) as Bd. set (x := wrap I32 (wrap I8 (Z.of_N d1))) in *.
    assert (Hx : (if 48 <=? x then @Ok (val * state) (VInt (b2z (x <=? 57)), ST k g l m) else Ok (VInt 0, ST k g l m)) = Ok (VInt (b2z (is_digit d1)), ST k g l m))
      by (rewrite <- Bd; destruct (48 <=? x), (x <=? 57); reflexivity).
    rewrite Hx, truth_b2z. clear Hx.
    destruct (is_digit d1) eqn:Ed.
    2:{ (* \c: the byte c *)
      destruct (expand (skipn (S (S k)) rep) rest offs) as [t1|] eqn:E1; [|discriminate]. cbn [opt_app app] in He. injection He as <-.
      cbn [length] in Hsz.
      destruct (rp_chr k 1 1%nat m cs g l fuel' eq_refl ltac:(lia) S0 R ltac:(lia)) as (m' & E & R' & S').
      rewrite E. xstep. replace (k + 1)%nat with (S k) in R' by lia. fold d1 in R'.
      exists (S (S k)), m', [wrap I8 (Z.of_N d1)], t1, g, l.
      replace (ro + Z.of_nat k + 1 + 1) with (ro + Z.of_nat (S (S k))) by lia.
      split; [reflexivity|]. split; [lia|]. split; [exact R'|].
      split; [cbn [map app]; rewrite byte_of_wrap, byte_of_N by exact Hd1; reflexivity|]. auto. }
    (* \N: the text of group N *)
    pose proof (b_digit_sx d1 Hd1) as Bx. rewrite Ed in Bx. fold x in Bx.
    assert (Hdr : (48 <= d1 <= 57)%N) by (unfold is_digit in Ed; lia).
    set (gi := N.to_nat (d1 - 48)) in *.
    assert (Hgi : Z.of_N d1 - 48 = Z.of_nat gi) by (unfold gi; lia).
    assert (Hgr : (gi <= 9)%nat) by (unfold gi; lia).
    inversion Hp as [|? ? Hp1 Hp2]; subst. 
    unfold offs in He, Hp1. rewrite (nth_pairs offl gi) in He, Hp1 by lia. fold offs in He.
    set (so := nthz offl (Z.of_nat (2 * gi))) in *. set (eo := nthz offl (Z.of_nat (2 * gi + 1))) in *.
    destruct (grp_text rest (so, eo)) as [t0|] eqn:Eg; [|discriminate].
    destruct (expand (skipn (S (S k)) rep) rest offs) as [t1|] eqn:E1; [|discriminate]. cbn [opt_app] in He. injection He as <-.
    destruct (grp_text_src line o so eo t0 Ho Eg Hp1) as (G1 & G2 & G3 & G4).
    assert (Lc : length (cstr_block (zb line)) = S (length line)) by (unfold cstr_block, zb; rewrite app_length, !map_length; cbn; lia).
    pose proof (nthz_ok offl (Z.of_nat (2 * gi)) Hints) as Iso. pose proof (nthz_ok offl (Z.of_nat (2 * gi + 1)) Hints) as Ieo. fold so in Iso. fold eo in Ieo.
    xstep. rewrite (load_cstr_in _ _ _ _ _ (S k) Hr) by lia. xstep. fold d1. fold x. rewrite Bx, Hgi.
    rewrite chk_I32 by lia. xstep. rewrite chk_I32 by lia. xstep. rewrite chk_I32 by lia. xstep.
    rewrite (load_int_arr m bo offl _ Hof) by lia. xstep.
    rewrite (load_int_arr m bo offl _ Hof) by lia. xstep.
    replace (0 + 1 * (Z.of_nat gi * 2 + 1)) with (Z.of_nat (2 * gi + 1)) by lia.
    replace (0 + 1 * (Z.of_nat gi * 2)) with (Z.of_nat (2 * gi)) by lia. fold so. fold eo.
    rewrite !wrap_I32_id by lia. rewrite chk_I32 by lia. xstep.
    rewrite (load_int_arr m bo offl _ Hof) by lia. xstep.
    replace (0 + 1 * (Z.of_nat gi * 2)) with (Z.of_nat (2 * gi)) by lia. fold so. rewrite wrap_I32_id by lia.
    assert (Hlz : length (zb t0) = length t0) by (unfold zb; apply map_length).
    replace (eo - so) with (Z.of_nat (length (zb t0))) by lia.
    replace (Z.of_nat o + 1 * so) with (Z.of_nat o + so) by lia.
    rewrite app_length, Nat2Z.inj_add in Hsz.
    destruct Al as (Al1 & Al2 & Al3).
    destruct (sb_mem m p cs bl (Z.of_nat o + so) _ (zb t0) d fuel R Al2 Al3 Hl G2) as (m' & E & R' & S'); [lia|exact G4|lia|].
    unfold call. rewrite E. xstep.
    exists (S (S k)), m', (zb t0), t1, (VInt (Z.of_nat gi * 2)), (VInt (Z.of_nat (length (zb t0)))).
    replace (ro + Z.of_nat k + 1 + 1) with (ro + Z.of_nat (S (S k))) by lia.
    split; [reflexivity|]. split; [lia|]. split; [exact R'|].
    split; [rewrite byte_of_zb; [reflexivity|]|auto].
    (* the copied bytes are bytes of the line *)
    unfold grp_text in Eg. destruct (eo - so <? 0); [discriminate|]. destruct (eo - so =? 0); [injection Eg as <-; constructor|].
    destruct ((so <? 0) || (Z.of_nat (length rest) <? eo)); [discriminate|]. injection Eg as <-.
    apply Forall_firstn'. apply Forall_skipn'. apply Forall_skipn'. exact H256.
  Qed.

  Lemma replace_loop : forall n k m cs t g l fuel',
    (length rep - k <= n)%nat -> (k <= length rep)%nat -> sbuf_step m0 m p -> sb_inv m p cs ->
    expand (skipn k rep) rest offs = Some t -> refs_ptr_ok o (length line) (skipn k rep) offs ->
    Z.of_nat (length cs) + Z.of_nat (length t) <= 500000000 -> (n < fuel')%nat ->
    exists m' cells g' l',
      exec call fuel' (fn_body cf_replace) (ST k g l m) = ONormal (ST (length rep) g' l' m') /\
      sb_inv m' p (cs ++ cells) /\ map byte_of cells = t /\ sbuf_step m m' p.
  Proof.
    induction n as [|n IH]; intros k m cs t g l fuel' Hn Hk S0 R He Hp Hsz Hf;
      (destruct fuel' as [|f]; [lia|]); rewrite rp_shape, exec_while, (rp_cond_eval k m g l Hk S0);
      pose proof (nthb_lt256 rep k (nonul_lt256 _ Hnrep)) as Hc; cbn [truth]; rewrite (b_zero _ Hc).
    - assert (k = length rep) by lia. subst k. rewrite nthb_end by lia. cbn [N.eqb negb].
      rewrite skipn_end in He by lia. injection He as <-.
      exists m, [], g, l. rewrite app_nil_r. split; [reflexivity|]. split; [exact R|]. split; [reflexivity|apply sbuf_step_refl].
    - destruct (Nat.eq_dec k (length rep)) as [->|Hne].
      + rewrite nthb_end by lia. cbn [N.eqb negb]. rewrite skipn_end in He by lia. injection He as <-.
        exists m, [], g, l. rewrite app_nil_r. split; [reflexivity|]. split; [exact R|]. split; [reflexivity|apply sbuf_step_refl].
      + assert (Hk' : (k < length rep)%nat) by lia.
        assert (Hc0 : nthb rep k <> 0%N).
        { unfold nthb. unfold nonul in Hnrep. rewrite Forall_forall in Hnrep. destruct (Hnrep (nth k rep 0%N)) as [X _]; [apply nth_In; exact Hk'|]. lia. }
        destruct (N.eqb_spec (nthb rep k) 0); [contradiction|]. cbn [negb].
        destruct (rp_body_ok k m cs t g l (S f) Hk' S0 R He Hp Hsz) as (k' & m1 & cells1 & t1 & g1 & l1 & E1 & Hk1 & R1 & Et & S1 & He1 & Hp1).
        rewrite E1. subst t. rewrite app_length, map_length in Hsz.
        destruct (IH k' m1 (cs ++ cells1) t1 g1 l1 f ltac:(lia) ltac:(lia) (sbuf_step_trans _ _ _ _ S0 S1) R1 He1 Hp1) as (m' & cells & g' & l' & E' & R' & Ec & S');
          [rewrite app_length; lia|lia|].
        rewrite rp_shape in E'. rewrite E'. exists m', (cells1 ++ cells), g', l'. split; [reflexivity|]. rewrite app_assoc. split; [exact R'|].
        split; [rewrite map_app, Ec; reflexivity|apply (sbuf_step_trans _ m1); assumption].
  Qed.
End Replace.

(* THE THEOREM about replace(dst, rep, ln, offs).  Memory m: the struct sbuf in block p holds the cells cs (sb_inv: with the
   capacity rule of sbuf.c); rep = the NUL-free string at cell ro of block br (e.g. the array xrep); ln points to offset o of
   the line in block bl; offs = the 32 ints of block bo; the three blocks are neither the struct nor its data block.
   Model: expand rep (skipn o line) (pairs offl) = Some t -- every group the replacement refers to has a length
   offs[2g+1] - offs[2g] >= 0 and, when it is not empty, lies inside the rest of the line.  (The garbage pairs of the defect
   repaired by f74e779 -- a NEGATIVE length handed to memcpy -- make the model answer None: they are outside the theorem, and
   C14_tr_replace_negative_length RUNS that case: the translated replace ends in Err EOob.)  refs_ptr_ok: for an empty or
   unset group the pointer ln + offs[2g] handed to memcpy (with length 0) must still point into the block of the line.
   Then the call returns, dst holds cs ++ cells with the bytes of cells = t, and nothing but the buffer changed. *)
Theorem tr_replace m p cs br ro rep bl line o bo offl t d fuel :
  sb_inv m p cs -> cstr_in m br ro rep -> nonul rep -> str_at m bl line -> bytes_lt256 line -> (o <= length line)%nat ->
  Z.of_nat (length line) < 2147483647 ->
  int_arr_at m bo offl -> length offl = 32%nat -> ints_ok offl ->
  apart m p br -> apart m p bl -> apart m p bo ->
  expand rep (skipn o line) (pairs offl) = Some t -> refs_ptr_ok o (length line) rep (pairs offl) ->
  Z.of_nat (length cs) + Z.of_nat (length t) <= 500000000 -> (length rep < fuel)%nat ->
  exists m' cells,
    callf cprog fuel (S (S (S d))) F_replace [VPtr p 0; VPtr br ro; VPtr bl (Z.of_nat o); VPtr bo 0] m = Ok (VUndef, m') /\
    sb_inv m' p (cs ++ cells) /\ map byte_of cells = t /\ sbuf_step m m' p.
Proof.
  intros R Hrep Hn Hl H256 Ho Hlen Hof Hol Hints A1 A2 A3 He Hp Hsz Hf.
  destruct (replace_loop m p br bl bo ro rep line o offl d fuel Hrep Hn Hl H256 Ho Hlen Hof Hol Hints A1 A2 A3
              (length rep) 0%nat m cs t VUndef VUndef fuel ltac:(lia) ltac:(lia) (sbuf_step_refl m p) R He Hp Hsz Hf)
    as (m' & cells & g' & l' & E & R' & Ec & S').
  rewrite callf_S. change (nth_error cprog F_replace) with (Some cf_replace). cbv iota beta.
  change (fn_nparams cf_replace) with 4%nat. change (fn_nlocals cf_replace) with 6%nat.
  cbn [length Nat.eqb Nat.sub repeat app]. rewrite Z.add_0_r in E. rewrite E.
  exists m', cells. auto.
Qed.
Print Assumptions tr_replace.

(* running the translated replace on top of the translated sbuf.c: memory = [rep; line; offs], then sbuf_make, replace,
   sbuf_buf; the result is the string handed back (its cells up to the terminator) *)
Fixpoint cells_to_nul (blk : list val) : list Z :=
  match blk with VInt 0 :: _ => [] | VInt z :: r => z :: cells_to_nul r | _ => [] end.
Definition rp_run (rep line : bytes) (o : Z) (offl : list Z) (fuel : nat) : res (list N) :=
  let m := [cstr_block (zb rep); cstr_block (zb line); map VInt offl] in
  match callf cprog fuel 8 F_sbuf_make [] m with
  | Ok (VPtr p 0, m1) =>
      match callf cprog fuel 8 F_replace [VPtr p 0; VPtr 0 0; VPtr 1 o; VPtr 2 0] m1 with
      | Ok (_, m2) =>
          match callf cprog fuel 8 F_sbuf_buf [VPtr p 0] m2 with
          | Ok (VPtr b 0, m3) => match nth_error m3 b with Some blk => Ok (map byte_of (cells_to_nul blk)) | None => Err EShape end
          | Ok _ => Err EShape
          | Err e => Err e
          end
      | Err e => Err e
      end
  | Ok _ => Err EShape
  | Err e => Err e
  end.
