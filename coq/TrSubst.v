(* TrSubst.v -- the substitute command of /repo/ex.c tied to its model (coq/SubstDefs.v) BY PROOF on the translated C text
   (coq/GenCFuncs.v, whitelist tools/c2clite.d/99z_subst.list):
     (A) replace(dst, rep, ln, offs)  = SubstDefs.expand        (tr_replace)
     (B) the per-line scan loop of ec_substitute = SubstDefs.scan / subst_line, for every matcher oracle   (tr_subst_line)
   The string buffer under both is the translated sbuf.c (coq/TrSbuf.v), uc_len is coq/TrUcCode.v. *)
From Coq Require Import List ZArith NArith Bool Lia.
From NV Require Import Bytes UcDefs GenConsts IoDefs IoProps CLite CLiteProps GenCFuncs CLiteTac CLiteExt TrSbuf TrUcCode SubstDefs.
Import ListNotations.
Local Open Scope Z_scope.

(* ------------------------------------------------------------------ a C string somewhere in a block *)
(* block b holds, from cell o on, the bytes of s and the terminator (anything may follow: a char array such as xrep[EXLEN]) *)
Definition cstr_in (m : mem) (b : nat) (o : Z) (s : bytes) : Prop :=
  exists blk tail, nth_error m b = Some blk /\ 0 <= o /\ skipn (Z.to_nat o) blk = map VInt (zb s) ++ VInt 0 :: tail.

Lemma cstr_in_str_at m b s : str_at m b s -> cstr_in m b 0 s.
Proof. intro H. exists (cstr_block (zb s)), []. split; [exact H|]. split; [lia|]. reflexivity. Qed.
Lemma cstr_in_lt m b o s : cstr_in m b o s -> (b < length m)%nat.
Proof. intros (blk & tail & H & _). apply nth_error_Some. congruence. Qed.
Lemma cstr_in_same m m' b o s : nth_error m' b = nth_error m b -> cstr_in m b o s -> cstr_in m' b o s.
Proof. intros E (blk & tail & H & R). exists blk, tail. rewrite E. auto. Qed.
Lemma load_cstr_in m b o s z (i : nat) : cstr_in m b o s -> z = o + Z.of_nat i -> (i <= length s)%nat ->
  load m b z = Ok (VInt (Z.of_N (nthb s i))).
Proof.
  intros (blk & tail & H & Ho & E) -> Hi. unfold load. rewrite H.
  destruct (Z.ltb_spec (o + Z.of_nat i) 0); [lia|].
  replace (Z.to_nat (o + Z.of_nat i)) with (Z.to_nat o + i)%nat by lia.
  rewrite <- nth_error_skipn_add, E.
  change (VInt 0 :: tail) with ([VInt 0] ++ tail). rewrite app_assoc.
  rewrite nth_error_app1 by (rewrite app_length, map_length; unfold zb; rewrite map_length; cbn [length]; lia).
  fold (cstr_block (zb s)).
  assert (S : str_at [cstr_block (zb s)] 0 s) by reflexivity.
  pose proof (load_str _ 0 s _ i S eq_refl Hi) as L. unfold load in L. cbn [nth_error] in L.
  destruct (Z.ltb_spec (Z.of_nat i) 0); [lia|]. rewrite Nat2Z.id in L.
  destruct (nth_error (cstr_block (zb s)) i); [injection L as ->; reflexivity|discriminate].
Qed.

(* ------------------------------------------------------------------ facts about one byte *)
Lemma b_zero : forall c, (c < 256)%N -> (wrap I8 (Z.of_N c) =? 0) = (c =? 0)%N.
Proof. byte_fact. Qed.
Lemma b_is92 : forall c, (c < 256)%N -> (wrap I32 (wrap I8 (Z.of_N c)) =? 92) = (c =? 92)%N.
Proof. byte_fact. Qed.
Lemma b_is10 : forall c, (c < 256)%N -> (wrap I32 (wrap I8 (Z.of_N c)) =? 10) = (c =? 10)%N.
Proof. byte_fact. Qed.
Lemma b_sx0 : forall c, (c < 256)%N -> (wrap I32 (wrap I8 (Z.of_N c)) =? 0) = (c =? 0)%N.
Proof. byte_fact. Qed.
Lemma b_digit : forall c, (c < 256)%N ->
  (48 <=? wrap I32 (wrap I8 (Z.of_N c))) && (wrap I32 (wrap I8 (Z.of_N c)) <=? 57) = is_digit c.
Proof. byte_fact. Qed.

(* ------------------------------------------------------------------ the buffer with its capacity invariant *)
Definition sb_inv (m : mem) (p : nat) (cs : list Z) : Prop :=
  exists sz, sbuf_rep m p cs sz /\ sz_small (Z.of_nat (length cs)) sz.

Lemma sb_inv_make (m : mem) : sb_inv (m ++ [[VInt 0; VInt 0; VInt 0]]) (length m) [].
Proof. exists 0. split; [apply rep_make|apply make_small]. Qed.

Lemma sb_chr m p cs c d fuel : sb_inv m p cs -> Z.of_nat (length cs) + 1 <= 500000000 ->
  exists m', callf cprog fuel (S (S d)) F_sbuf_chr [VPtr p 0; VInt c] m = Ok (VUndef, m') /\
    sb_inv m' p (cs ++ [wrap I8 c]) /\ sbuf_step m m' p.
Proof.
  intros (sz & R & Hs) Hn.
  destruct (tr_sbuf_chr m p cs sz c d fuel R) as (m' & E & R' & _ & S').
  { apply (fits_small (Z.of_nat (length cs))); [exact Hs|lia|lia]. }
  exists m'. split; [exact E|]. split; [|exact S'].
  eexists. split; [exact R'|]. rewrite chr_sz_model, app_length, Nat2Z.inj_add. cbn [length]. apply chr_sz_small. exact Hs.
Qed.

Lemma sb_mem m p cs bs os sblk src d fuel : sb_inv m p cs ->
  bs <> p -> sbuf_datab m p <> Some bs -> nth_error m bs = Some sblk -> 0 <= os ->
  os + Z.of_nat (length src) <= Z.of_nat (length sblk) ->
  firstn (length src) (skipn (Z.to_nat os) sblk) = map VInt src ->
  Z.of_nat (length cs) + Z.of_nat (length src) <= 500000000 ->
  exists m', callf cprog fuel (S (S d)) F_sbuf_mem [VPtr p 0; VPtr bs os; VInt (Z.of_nat (length src))] m = Ok (VUndef, m') /\
    sb_inv m' p (cs ++ src) /\ sbuf_step m m' p.
Proof.
  intros (sz & R & Hs) Hbs Hbd Hsb Hos Hl Hsrc Hn.
  destruct (tr_sbuf_mem m p cs sz bs os sblk src d fuel R Hbs Hbd Hsb Hos Hl Hsrc) as (m' & E & R' & _ & S').
  { apply (fits_small (Z.of_nat (length cs))); [exact Hs|lia|lia]. }
  exists m'. split; [exact E|]. split; [|exact S'].
  eexists. split; [exact R'|].
  unfold IoDefs.sbuf_mem, sb_model. cbn [sb_sz sb_n sb_data]. rewrite map_length, Z.geb_leb, app_length, Nat2Z.inj_add.
  apply mem_sz_small; [exact Hs|lia].
Qed.

Lemma sb_str m p cs bs (s : bytes) o d fuel : sb_inv m p cs ->
  bs <> p -> sbuf_datab m p <> Some bs -> str_at m bs s -> nonul s -> (o <= length s)%nat -> Z.of_nat (length s) <= 2147483647 ->
  Z.of_nat (length cs) + Z.of_nat (length (skipn o s)) <= 500000000 ->
  exists m', callf cprog fuel (S (S (S d))) F_sbuf_str [VPtr p 0; VPtr bs (Z.of_nat o)] m = Ok (VUndef, m') /\
    sb_inv m' p (cs ++ zb (skipn o s)) /\ sbuf_step m m' p.
Proof.
  intros (sz & R & Hs) Hbs Hbd Hsb Hn Ho Hl Hsz.
  destruct (tr_sbuf_str m p cs sz bs s o d fuel R Hbs Hbd Hsb Hn Ho Hl) as (m' & E & R' & _ & S').
  { apply (fits_small (Z.of_nat (length cs))); [exact Hs|lia|lia]. }
  exists m'. split; [exact E|]. split; [|exact S'].
  eexists. split; [exact R'|].
  unfold IoDefs.sbuf_mem, sb_model. cbn [sb_sz sb_n sb_data]. rewrite Z.geb_leb, app_length, Nat2Z.inj_add.
  unfold zb. rewrite map_length. apply mem_sz_small; [exact Hs|lia].
Qed.

(* a block that is neither the struct nor its data block, older than the buffer's last step, is untouched by the step *)
Definition apart (m : mem) (p b : nat) : Prop := (b < length m)%nat /\ b <> p /\ sbuf_datab m p <> Some b.
Lemma apart_step m m' p b : sbuf_step m m' p -> apart m p b -> nth_error m' b = nth_error m b /\ apart m' p b.
Proof.
  intros S (Hl & Hp & Hd). destruct (step_src m m' p b S Hl Hp Hd) as [E D]. split; [exact E|].
  destruct S as (L & _). split; [lia|]. split; assumption.
Qed.

(* ------------------------------------------------------------------ the offsets array and the model's list of groups *)
Fixpoint pairs (l : list Z) : list grp :=
  match l with a :: b :: r => (a, b) :: pairs r | _ => [] end.
Lemma nth_pairs l : forall g, (2 * g + 1 < length l)%nat ->
  nth g (pairs l) unset = (nthz l (Z.of_nat (2 * g)), nthz l (Z.of_nat (2 * g + 1))).
Proof.
  induction l as [l IH] using (well_founded_induction (Wf_nat.well_founded_ltof _ (@length Z))).
  intros g Hg. destruct l as [|a [|b r]]; cbn [length] in Hg; try lia.
  destruct g as [|g]; [reflexivity|]. cbn [pairs nth].
  rewrite (IH r) by (unfold Wf_nat.ltof; cbn [length]; lia).
  unfold nthz. rewrite !Nat2Z.id. replace (2 * S g)%nat with (S (S (2 * g))) by lia.
  replace (S (S (2 * g)) + 1)%nat with (S (S (2 * g + 1))) by lia. reflexivity.
Qed.

(* the groups the replacement refers to *)
Fixpoint refs (rep : bytes) : list nat :=
  match rep with
  | [] => []
  | c :: rep1 =>
      if (c =? 92)%N then
        match rep1 with
        | [] => []
        | d :: rep2 => if is_digit d then N.to_nat (d - 48) :: refs rep2 else refs rep2
        end
      else refs rep1
  end.
(* the pointer ln + offs[2g] that replace() hands to memcpy, and the end of the copied range, stay inside the block of the
   line (its bytes and the terminator).  For a group with text this follows from the model's own range check; it is a
   condition for an EMPTY or UNSET group only: ln + (-1) must not leave the block, i.e. ln is not at its first byte. *)
Definition grp_ptr_ok (o n : nat) (g : grp) : Prop := 0 <= Z.of_nat o + fst g /\ Z.of_nat o + snd g <= Z.of_nat n + 1.
Definition refs_ptr_ok (o n : nat) (rep : bytes) (offs : list grp) : Prop :=
  Forall (fun g => grp_ptr_ok o n (nth g offs unset)) (refs rep).

(* ------------------------------------------------------------------ (A) replace *)
Definition rp_cond : expr := match fn_body cf_replace with SWhile c _ => c | _ => EConst 0 end.
Definition rp_body : stmt := match fn_body cf_replace with SWhile _ b => b | _ => SSkip end.
Lemma rp_shape : fn_body cf_replace = SWhile rp_cond rp_body.
Proof. reflexivity. Qed.

Lemma b_digit_sx : forall c, (c < 256)%N -> (if is_digit c then wrap I32 (wrap I8 (Z.of_N c)) else Z.of_N c) = Z.of_N c.
Proof. byte_fact. Qed.
Lemma byte_of_N c : (c < 256)%N -> byte_of (Z.of_N c) = c.
Proof. intro H. unfold byte_of. rewrite Z.mod_small by lia. apply N2Z.id. Qed.

Lemma firstn_cstr_sub (line : bytes) a k : (a + k <= length line)%nat ->
  firstn k (skipn a (cstr_block (zb line))) = map VInt (zb (firstn k (skipn a line))).
Proof.
  intro H. rewrite skipn_cstr_block by lia. unfold cstr_block, zb.
  rewrite firstn_app, !map_length, skipn_length. replace (k - (length line - a))%nat with 0%nat by lia.
  cbn [firstn]. rewrite app_nil_r, !firstn_map. reflexivity.
Qed.

(* the text of a group as the source of sbuf_mem's memcpy: the length is offs[2g+1] - offs[2g] >= 0 (never negative:
   the case of the defect repaired by f74e779 is excluded by the model's answer being Some), the copied range lies
   inside the block of the line *)
Lemma grp_text_src (line : bytes) o so eo t0 : (o <= length line)%nat ->
  grp_text (skipn o line) (so, eo) = Some t0 -> grp_ptr_ok o (length line) (so, eo) ->
  eo - so = Z.of_nat (length t0) /\ 0 <= Z.of_nat o + so /\
  Z.of_nat o + so + Z.of_nat (length t0) <= Z.of_nat (length (cstr_block (zb line))) /\
  firstn (length (zb t0)) (skipn (Z.to_nat (Z.of_nat o + so)) (cstr_block (zb line))) = map VInt (zb t0).
Proof.
  intros Ho G [P1 P2]. cbn [fst snd] in P1, P2. unfold grp_text in G.
  assert (Lc : length (cstr_block (zb line)) = S (length line)) by (unfold cstr_block, zb; rewrite app_length, !map_length; cbn; lia).
  destruct (Z.ltb_spec (eo - so) 0); [discriminate|].
  destruct (Z.eqb_spec (eo - so) 0) as [E0|E0].
  - injection G as <-. cbn [length zb map firstn]. rewrite Lc. repeat split; lia.
  - rewrite skipn_length in G.
    destruct (Z.ltb_spec so 0); [discriminate|]. destruct (Z.ltb_spec (Z.of_nat (length line - o)) eo); [discriminate|].
    cbn [orb] in G. injection G as <-.
    rewrite skipn_skipn.
    assert (Lt : length (firstn (Z.to_nat (eo - so)) (skipn (o + Z.to_nat so) line)) = Z.to_nat (eo - so))
      by (rewrite firstn_length, skipn_length; lia).
    rewrite Lt, Lc. split; [lia|]. split; [lia|]. split; [lia|].
    unfold zb at 1. rewrite map_length, Lt.
    replace (Z.to_nat (Z.of_nat o + so)) with (o + Z.to_nat so)%nat by lia.
    apply firstn_cstr_sub. lia.
Qed.

Section Replace.
  Variables (m0 : mem) (p br bl bo : nat) (ro : Z) (rep line : bytes) (o : nat) (offl : list Z) (d fuel : nat).
  Hypothesis Hrep : cstr_in m0 br ro rep.
  Hypothesis Hnrep : nonul rep.
  Hypothesis Hline : str_at m0 bl line.
  Hypothesis H256 : bytes_lt256 line.
  Hypothesis Ho : (o <= length line)%nat.
  Hypothesis Hlen : Z.of_nat (length line) < 2147483647.
  Hypothesis Hoffs : int_arr_at m0 bo offl.
  Hypothesis Hoffl : length offl = 32%nat.
  Hypothesis Hints : ints_ok offl.
  Hypothesis Abr : apart m0 p br.
  Hypothesis Abl : apart m0 p bl.
  Hypothesis Abo : apart m0 p bo.
  Let offs := pairs offl.
  Let rest := skipn o line.
  Let call := callf cprog fuel (S (S d)).
  Local Notation ST k g l m := (mkst [VPtr p 0; VPtr br (ro + Z.of_nat k); VPtr bl (Z.of_nat o); VPtr bo 0; g; l] m).

  Lemma rp_cond_eval k m g l : (k <= length rep)%nat -> sbuf_step m0 m p ->
    eval call rp_cond (ST k g l m) = Ok (VInt (wrap I8 (Z.of_N (nthb rep k))), ST k g l m).
  Proof.
    intros Hk S0. destruct (apart_step _ _ _ _ S0 Abr) as [Er _].
    pose proof (cstr_in_same _ _ _ _ _ Er Hrep) as Hr.
    unfold rp_cond. cbn [fn_body cf_replace]. xstep.
    rewrite (load_cstr_in _ _ _ _ _ k Hr) by lia. xstep. reflexivity.
  Qed.

  Lemma rp_chr k i j m cs g l fuel' : i = Z.of_nat j -> (k + j <= length rep)%nat -> sbuf_step m0 m p -> sb_inv m p cs ->
    Z.of_nat (length cs) + 1 <= 500000000 ->
    exists m', exec call fuel' (SExpr (ECall F_sbuf_chr [ELocal 0; ECast I32 (ECast U8 (ELoad (Some I8) (EPtrAdd 1 (ELocal 1) (EConst i))))])) (ST k g l m)
      = ONormal (ST k g l m') /\ sb_inv m' p (cs ++ [wrap I8 (Z.of_N (nthb rep (k + j)))]) /\ sbuf_step m m' p.
  Proof.
    intros -> Hk S0 R Hsz. destruct (apart_step _ _ _ _ S0 Abr) as [Er _].
    pose proof (cstr_in_same _ _ _ _ _ Er Hrep) as Hr.
    pose proof (nthb_lt256 rep (k + j) (nonul_lt256 _ Hnrep)) as Hc.
    destruct (sb_chr m p cs (Z.of_N (nthb rep (k + j))) d fuel R Hsz) as (m' & E & R' & S').
    exists m'. xstep. rewrite (load_cstr_in _ _ _ _ _ (k + j)%nat Hr) by lia. xstep.
    rewrite wrap_byte_chain by exact Hc. unfold call. rewrite E. xstep. auto.
  Qed.

  (* one round of the loop = one step of SubstDefs.expand *)
  Lemma rp_body_ok k m cs t g l fuel' : (k < length rep)%nat -> sbuf_step m0 m p -> sb_inv m p cs ->
    expand (skipn k rep) rest offs = Some t -> refs_ptr_ok o (length line) (skipn k rep) offs ->
    Z.of_nat (length cs) + Z.of_nat (length t) <= 500000000 ->
    exists k' m' cells t' g' l',
      exec call fuel' rp_body (ST k g l m) = ONormal (ST k' g' l' m') /\ (k < k' <= length rep)%nat /\
      sb_inv m' p (cs ++ cells) /\ t = map byte_of cells ++ t' /\ sbuf_step m m' p /\
      expand (skipn k' rep) rest offs = Some t' /\ refs_ptr_ok o (length line) (skipn k' rep) offs.
  Proof.
    intros Hk S0 R He Hp Hsz.
    destruct (apart_step _ _ _ _ S0 Abr) as [Er Ar]. destruct (apart_step _ _ _ _ S0 Abl) as [El Al].
    destruct (apart_step _ _ _ _ S0 Abo) as [Eo Ao].
    pose proof (cstr_in_same _ _ _ _ _ Er Hrep) as Hr.
    assert (Hl : nth_error m bl = Some (cstr_block (zb line))) by (rewrite El; exact Hline).
    assert (Hof : int_arr_at m bo offl) by (unfold int_arr_at; rewrite Eo; exact Hoffs).
    pose proof (nonul_lt256 _ Hnrep) as Hr256.
    rewrite (skipn_cons_nthb rep k Hk) in He, Hp.
    set (c := nthb rep k) in *.
    assert (Hc : (c < 256)%N) by (apply nthb_lt256; exact Hr256).
    assert (Hc0 : c <> 0%N).
    { unfold c, nthb. unfold nonul in Hnrep. rewrite Forall_forall in Hnrep. destruct (Hnrep (nth k rep 0%N)) as [X _]; [apply nth_In; exact Hk|]. lia. }
    (* the plain branch: the byte itself *)
    assert (Plain : forall t1, t = c :: t1 -> expand (skipn (S k) rep) rest offs = Some t1 -> refs_ptr_ok o (length line) (skipn (S k) rep) offs ->
              forall st1, st1 = ST k g l m ->
              exists k' m' cells t' g' l',
                match exec call fuel' (SExpr (ECall F_sbuf_chr [ELocal 0; ECast I32 (ECast U8 (ELoad (Some I8) (EPtrAdd 1 (ELocal 1) (EConst 0))))])) st1 with
                | ONormal st1 => exec call fuel' (SExpr (EIncLocal true 1 None 1)) st1
                | o => o
                end = ONormal (ST k' g' l' m') /\ (k < k' <= length rep)%nat /\
                sb_inv m' p (cs ++ cells) /\ t = map byte_of cells ++ t' /\ sbuf_step m m' p /\
                expand (skipn k' rep) rest offs = Some t' /\ refs_ptr_ok o (length line) (skipn k' rep) offs).
    { intros t1 -> He1 Hp1 st1 ->. cbn [length] in Hsz.
      destruct (rp_chr k 0 0%nat m cs g l fuel' eq_refl ltac:(lia) S0 R ltac:(lia)) as (m' & E & R' & S').
      rewrite E. xstep. rewrite Nat.add_0_r in R'. fold c in R'.
      exists (S k), m', [wrap I8 (Z.of_N c)], t1, g, l.
      replace (ro + Z.of_nat k + 1) with (ro + Z.of_nat (S k)) by lia.
      split; [reflexivity|]. split; [lia|]. split; [exact R'|].
      split; [cbn [map app]; rewrite byte_of_wrap, byte_of_N by exact Hc; reflexivity|]. auto. }
    unfold rp_body. cbn [fn_body cf_replace]. xstep.
    rewrite (load_cstr_in _ _ _ _ _ k Hr) by lia. xstep. fold c. rewrite (b_is92 c Hc).
    rewrite (load_cstr_in _ _ _ _ _ (S k) Hr) by lia. xstep.
    set (d1 := nthb rep (S k)) in *.
    assert (Hd1 : (d1 < 256)%N) by (apply nthb_lt256; exact Hr256).
    rewrite (b_sx0 d1 Hd1).
    cbn [expand] in He. cbn [refs refs_ptr_ok] in Hp. unfold refs_ptr_ok in Hp. cbn [refs] in Hp.
    destruct (N.eqb_spec c 92) as [E92|E92].
    2:{ cbn [truth Z.eqb negb]. destruct (expand (skipn (S k) rep) rest offs) as [t1|] eqn:E1; [|discriminate]. cbn [opt_app app] in He. injection He as <-.
        apply (Plain t1 eq_refl eq_refl Hp _ eq_refl). }
    destruct (Nat.eq_dec (S k) (length rep)) as [Elast|Elast].
    { (* the backslash is the last byte *)
      assert (d1 = 0%N) as -> by (apply nthb_end; lia). cbn [N.eqb negb b2z bind truth as_int Z.eqb].
      rewrite (skipn_end rep (S k)) in * by lia. injection He as <-.
      apply (Plain [] eq_refl eq_refl ltac:(constructor) _ eq_refl). }
    rewrite (skipn_cons_nthb rep (S k)) in He, Hp by lia. fold d1 in He, Hp.
    assert (Hd0 : d1 <> 0%N).
    { unfold d1, nthb. unfold nonul in Hnrep. rewrite Forall_forall in Hnrep. destruct (Hnrep (nth (S k) rep 0%N)) as [X _]; [apply nth_In; lia|]. lia. }
    destruct (N.eqb_spec d1 0); [contradiction|]. cbn [negb b2z]. xstep.
    rewrite (load_cstr_in _ _ _ _ _ (S k) Hr) by lia. xstep. fold d1.
    rewrite (load_cstr_in _ _ _ _ _ (S k) Hr) by lia. xstep. fold d1.
    pose proof (b_digit d1 Hd1) as Bd. set (x := wrap I32 (wrap I8 (Z.of_N d1))) in *.
    assert (Hx : (if 48 <=? x then @Ok (val * state) (VInt (b2z (x <=? 57)), ST k g l m) else Ok (VInt 0, ST k g l m)) = Ok (VInt (b2z (is_digit d1)), ST k g l m))
      by (rewrite <- Bd; destruct (48 <=? x), (x <=? 57); reflexivity).
    rewrite Hx, truth_b2z. clear Hx.
    destruct (is_digit d1) eqn:Ed.
    2:{ (* \c: the byte c *)
      destruct (expand (skipn (S (S k)) rep) rest offs) as [t1|] eqn:E1; [|discriminate]. cbn [opt_app app] in He. injection He as <-.
      cbn [length] in Hsz.
      destruct (rp_chr k 1 1%nat m cs g l fuel' eq_refl ltac:(lia) S0 R ltac:(lia)) as (m' & E & R' & S').
      rewrite E. xstep. replace (k + 1)%nat with (S k) in R' by lia. fold d1 in R'.
      exists (S (S k)), m', [wrap I8 (Z.of_N d1)], t1, g, l.
      replace (ro + Z.of_nat k + 1 + 1) with (ro + Z.of_nat (S (S k))) by lia.
      split; [reflexivity|]. split; [lia|]. split; [exact R'|].
      split; [cbn [map app]; rewrite byte_of_wrap, byte_of_N by exact Hd1; reflexivity|]. auto. }
    (* \N: the text of group N *)
    pose proof (b_digit_sx d1 Hd1) as Bx. rewrite Ed in Bx. fold x in Bx.
    assert (Hdr : (48 <= d1 <= 57)%N) by (unfold is_digit in Ed; lia).
    set (gi := N.to_nat (d1 - 48)) in *.
    assert (Hgi : Z.of_N d1 - 48 = Z.of_nat gi) by (unfold gi; lia).
    assert (Hgr : (gi <= 9)%nat) by (unfold gi; lia).
    inversion Hp as [|? ? Hp1 Hp2]; subst. 
    unfold offs in He, Hp1. rewrite (nth_pairs offl gi) in He, Hp1 by lia. fold offs in He.
    set (so := nthz offl (Z.of_nat (2 * gi))) in *. set (eo := nthz offl (Z.of_nat (2 * gi + 1))) in *.
    destruct (grp_text rest (so, eo)) as [t0|] eqn:Eg; [|discriminate].
    destruct (expand (skipn (S (S k)) rep) rest offs) as [t1|] eqn:E1; [|discriminate]. cbn [opt_app] in He. injection He as <-.
    destruct (grp_text_src line o so eo t0 Ho Eg Hp1) as (G1 & G2 & G3 & G4).
    assert (Lc : length (cstr_block (zb line)) = S (length line)) by (unfold cstr_block, zb; rewrite app_length, !map_length; cbn; lia).
    pose proof (nthz_ok offl (Z.of_nat (2 * gi)) Hints) as Iso. pose proof (nthz_ok offl (Z.of_nat (2 * gi + 1)) Hints) as Ieo. fold so in Iso. fold eo in Ieo.
    xstep. rewrite (load_cstr_in _ _ _ _ _ (S k) Hr) by lia. xstep. fold d1. fold x. rewrite Bx, Hgi.
    rewrite chk_I32 by lia. xstep. rewrite chk_I32 by lia. xstep. rewrite chk_I32 by lia. xstep.
    rewrite (load_int_arr m bo offl _ Hof) by lia. xstep.
    rewrite (load_int_arr m bo offl _ Hof) by lia. xstep.
    replace (0 + 1 * (Z.of_nat gi * 2 + 1)) with (Z.of_nat (2 * gi + 1)) by lia.
    replace (0 + 1 * (Z.of_nat gi * 2)) with (Z.of_nat (2 * gi)) by lia. fold so. fold eo.
    rewrite !wrap_I32_id by lia. rewrite chk_I32 by lia. xstep.
    rewrite (load_int_arr m bo offl _ Hof) by lia. xstep.
    replace (0 + 1 * (Z.of_nat gi * 2)) with (Z.of_nat (2 * gi)) by lia. fold so. rewrite wrap_I32_id by lia.
    assert (Hlz : length (zb t0) = length t0) by (unfold zb; apply map_length).
    replace (eo - so) with (Z.of_nat (length (zb t0))) by lia.
    replace (Z.of_nat o + 1 * so) with (Z.of_nat o + so) by lia.
    rewrite app_length, Nat2Z.inj_add in Hsz.
    destruct Al as (Al1 & Al2 & Al3).
    destruct (sb_mem m p cs bl (Z.of_nat o + so) _ (zb t0) d fuel R Al2 Al3 Hl G2) as (m' & E & R' & S'); [lia|exact G4|lia|].
    unfold call. rewrite E. xstep.
    exists (S (S k)), m', (zb t0), t1, (VInt (Z.of_nat gi * 2)), (VInt (Z.of_nat (length (zb t0)))).
    replace (ro + Z.of_nat k + 1 + 1) with (ro + Z.of_nat (S (S k))) by lia.
    split; [reflexivity|]. split; [lia|]. split; [exact R'|].
    split; [rewrite byte_of_zb; [reflexivity|]|auto].
    (* the copied bytes are bytes of the line *)
    unfold grp_text in Eg. destruct (eo - so <? 0); [discriminate|]. destruct (eo - so =? 0); [injection Eg as <-; constructor|].
    destruct ((so <? 0) || (Z.of_nat (length rest) <? eo)); [discriminate|]. injection Eg as <-.
    apply Forall_firstn'. apply Forall_skipn'. apply Forall_skipn'. exact H256.
  Qed.

  Lemma replace_loop : forall n k m cs t g l fuel',
    (length rep - k <= n)%nat -> (k <= length rep)%nat -> sbuf_step m0 m p -> sb_inv m p cs ->
    expand (skipn k rep) rest offs = Some t -> refs_ptr_ok o (length line) (skipn k rep) offs ->
    Z.of_nat (length cs) + Z.of_nat (length t) <= 500000000 -> (n < fuel')%nat ->
    exists m' cells g' l',
      exec call fuel' (fn_body cf_replace) (ST k g l m) = ONormal (ST (length rep) g' l' m') /\
      sb_inv m' p (cs ++ cells) /\ map byte_of cells = t /\ sbuf_step m m' p.
  Proof.
    induction n as [|n IH]; intros k m cs t g l fuel' Hn Hk S0 R He Hp Hsz Hf;
      (destruct fuel' as [|f]; [lia|]); rewrite rp_shape, exec_while, (rp_cond_eval k m g l Hk S0);
      pose proof (nthb_lt256 rep k (nonul_lt256 _ Hnrep)) as Hc; cbn [truth]; rewrite (b_zero _ Hc).
    - assert (k = length rep) by lia. subst k. rewrite nthb_end by lia. cbn [N.eqb negb].
      rewrite skipn_end in He by lia. injection He as <-.
      exists m, [], g, l. rewrite app_nil_r. split; [reflexivity|]. split; [exact R|]. split; [reflexivity|apply sbuf_step_refl].
    - destruct (Nat.eq_dec k (length rep)) as [->|Hne].
      + rewrite nthb_end by lia. cbn [N.eqb negb]. rewrite skipn_end in He by lia. injection He as <-.
        exists m, [], g, l. rewrite app_nil_r. split; [reflexivity|]. split; [exact R|]. split; [reflexivity|apply sbuf_step_refl].
      + assert (Hk' : (k < length rep)%nat) by lia.
        assert (Hc0 : nthb rep k <> 0%N).
        { unfold nthb. unfold nonul in Hnrep. rewrite Forall_forall in Hnrep. destruct (Hnrep (nth k rep 0%N)) as [X _]; [apply nth_In; exact Hk'|]. lia. }
        destruct (N.eqb_spec (nthb rep k) 0); [contradiction|]. cbn [negb].
        destruct (rp_body_ok k m cs t g l (S f) Hk' S0 R He Hp Hsz) as (k' & m1 & cells1 & t1 & g1 & l1 & E1 & Hk1 & R1 & Et & S1 & He1 & Hp1).
        rewrite E1. subst t. rewrite app_length, map_length in Hsz.
        destruct (IH k' m1 (cs ++ cells1) t1 g1 l1 f ltac:(lia) ltac:(lia) (sbuf_step_trans _ _ _ _ S0 S1) R1 He1 Hp1) as (m' & cells & g' & l' & E' & R' & Ec & S');
          [rewrite app_length; lia|lia|].
        rewrite rp_shape in E'. rewrite E'. exists m', (cells1 ++ cells), g', l'. split; [reflexivity|]. rewrite app_assoc. split; [exact R'|].
        split; [rewrite map_app, Ec; reflexivity|apply (sbuf_step_trans _ m1); assumption].
  Qed.
End Replace.

(* THE THEOREM about replace(dst, rep, ln, offs).  Memory m: the struct sbuf in block p holds the cells cs (sb_inv: with the
   capacity rule of sbuf.c); rep = the NUL-free string at cell ro of block br (e.g. the array xrep); ln points to offset o of
   the line in block bl; offs = the 32 ints of block bo; the three blocks are neither the struct nor its data block.
   Model: expand rep (skipn o line) (pairs offl) = Some t -- every group the replacement refers to has a length
   offs[2g+1] - offs[2g] >= 0 and, when it is not empty, lies inside the rest of the line.  (The garbage pairs of the defect
   repaired by f74e779 -- a NEGATIVE length handed to memcpy -- make the model answer None: they are outside the theorem, and
   C14_tr_replace_negative_length RUNS that case: the translated replace ends in Err EOob.)  refs_ptr_ok: for an empty or
   unset group the pointer ln + offs[2g] handed to memcpy (with length 0) must still point into the block of the line.
   Then the call returns, dst holds cs ++ cells with the bytes of cells = t, and nothing but the buffer changed. *)
Theorem tr_replace m p cs br ro rep bl line o bo offl t d fuel :
  sb_inv m p cs -> cstr_in m br ro rep -> nonul rep -> str_at m bl line -> bytes_lt256 line -> (o <= length line)%nat ->
  Z.of_nat (length line) < 2147483647 ->
  int_arr_at m bo offl -> length offl = 32%nat -> ints_ok offl ->
  apart m p br -> apart m p bl -> apart m p bo ->
  expand rep (skipn o line) (pairs offl) = Some t -> refs_ptr_ok o (length line) rep (pairs offl) ->
  Z.of_nat (length cs) + Z.of_nat (length t) <= 500000000 -> (length rep < fuel)%nat ->
  exists m' cells,
    callf cprog fuel (S (S (S d))) F_replace [VPtr p 0; VPtr br ro; VPtr bl (Z.of_nat o); VPtr bo 0] m = Ok (VUndef, m') /\
    sb_inv m' p (cs ++ cells) /\ map byte_of cells = t /\ sbuf_step m m' p.
Proof.
  intros R Hrep Hn Hl H256 Ho Hlen Hof Hol Hints A1 A2 A3 He Hp Hsz Hf.
  destruct (replace_loop m p br bl bo ro rep line o offl d fuel Hrep Hn Hl H256 Ho Hlen Hof Hol Hints A1 A2 A3
              (length rep) 0%nat m cs t VUndef VUndef fuel ltac:(lia) ltac:(lia) (sbuf_step_refl m p) R He Hp Hsz Hf)
    as (m' & cells & g' & l' & E & R' & Ec & S').
  rewrite callf_S. change (nth_error cprog F_replace) with (Some cf_replace). cbv iota beta.
  change (fn_nparams cf_replace) with 4%nat. change (fn_nlocals cf_replace) with 6%nat.
  cbn [length Nat.eqb Nat.sub repeat app]. rewrite Z.add_0_r in E. rewrite E.
  exists m', cells. auto.
Qed.
Print Assumptions tr_replace.

(* running the translated replace on top of the translated sbuf.c: memory = [rep; line; offs], then sbuf_make, replace,
   sbuf_buf; the result is the string handed back (its cells up to the terminator) *)
Fixpoint cells_to_nul (blk : list val) : list Z :=
  match blk with VInt 0 :: _ => [] | VInt z :: r => z :: cells_to_nul r | _ => [] end.
Definition rp_run (rep line : bytes) (o : Z) (offl : list Z) (fuel : nat) : res (list N) :=
  let m := [cstr_block (zb rep); cstr_block (zb line); map VInt offl] in
  match callf cprog fuel 8 F_sbuf_make [] m with
  | Ok (VPtr p 0, m1) =>
      match callf cprog fuel 8 F_replace [VPtr p 0; VPtr 0 0; VPtr 1 o; VPtr 2 0] m1 with
      | Ok (_, m2) =>
          match callf cprog fuel 8 F_sbuf_buf [VPtr p 0] m2 with
          | Ok (VPtr b 0, m3) => match nth_error m3 b with Some blk => Ok (map byte_of (cells_to_nul blk)) | None => Err EShape end
          | Ok _ => Err EShape
          | Err e => Err e
          end
      | Err e => Err e
      end
  | Ok _ => Err EShape
  | Err e => Err e
  end.

(* ================================================================== (B) the per-line loop of ec_substitute *)
Fixpoint first_for (s : stmt) : option stmt :=
  match s with
  | SFor _ _ _ => Some s
  | SSeq a b | SIf _ a b => match first_for a with Some x => Some x | None => first_for b end
  | SWhile _ b | SDoWhile b _ => first_for b
  | _ => None
  end.
(* the body of  for (i = beg; i < end; i++)  in the translated ec_substitute *)
Definition es_line : stmt := match first_for (fn_body cf_ec_substitute) with Some (SFor _ _ b) => b | _ => SSkip end.

(* locals: 4 re, 5 offs, 10 &s, 11 i, 12 ln, 13 r, 14 l *)
Definition es_cond : expr :=      (* rstr_find(re, ln, LEN(offs) / 2, offs, r ? RE_NOTBOL : 0) >= 0 *)
  EBin OGe I32 (ECall X_rstr_find [ELocal 4; ELocal 12; ECast I32 (EBin ODiv U64 (EBin ODiv U64 (EConst 128) (EConst 4)) (ECast U64 (EConst 2)));
                                   ELocal 5; ECond (ELocal 13) (EConst 2) (EConst 0)]) (EConst 0).
Definition es_make : stmt := SIf (ELNot (ELocal 13)) (SExpr (ESetLocal 13 (ECall F_sbuf_make []))) SSkip.
Definition es_gap : stmt := SExpr (ECall F_sbuf_mem [ELocal 13; ELocal 12; ELoad (Some I32) (EPtrAdd 1 (ELocal 5) (EConst 0))]).
Definition es_rep : stmt := SExpr (ECall F_replace [ELocal 13; EGlob G_xrep; ELocal 12; ELocal 5]).
Definition es_adv : stmt := SExpr (ESetLocal 12 (EPtrAdd 1 (ELocal 12) (ELoad (Some I32) (EPtrAdd 1 (ELocal 5) (EConst 1))))).
Definition es_step : stmt :=      (* if (offs[1] <= offs[0]) { int l = MAX(1, uc_len(ln)); sbuf_mem(r, ln, l); ln += l; } *)
  SIf (EBin OLe I32 (ELoad (Some I32) (EPtrAdd 1 (ELocal 5) (EConst 1))) (ELoad (Some I32) (EPtrAdd 1 (ELocal 5) (EConst 0))))
      (SSeq (SExpr (ESetLocal 14 (ECond (EBin OLt I32 (EConst 1) (ECall F_uc_len [ELocal 12])) (ECall F_uc_len [ELocal 12]) (EConst 1))))
            (SSeq (SExpr (ECall F_sbuf_mem [ELocal 13; ELocal 12; ELocal 14])) (SExpr (ESetLocal 12 (EPtrAdd 1 (ELocal 12) (ELocal 14))))))
      SSkip.
Definition es_stop : stmt :=      (* if (!*ln || *ln == '\n' || !strchr(s, 'g')) break; *)
  SIf (EOrElse (EOrElse (ELNot (ELoad (Some I8) (ELocal 12))) (EBin OEq I32 (ECast I32 (ELoad (Some I8) (ELocal 12))) (EConst 10)))
               (ELNot (EBuiltin BStrchr [ELoad None (ELocal 10); EConst 103]))) SBreak SSkip.
Definition es_body : stmt := SSeq es_make (SSeq es_gap (SSeq es_rep (SSeq es_adv (SSeq es_step es_stop)))).
Definition es_while : stmt := SWhile es_cond es_body.
Definition es_str : stmt := SExpr (ECall F_sbuf_str [ELocal 13; ELocal 12]).
Definition es_edit : stmt :=
  SExpr (ECall X_lbuf_edit [ECall F_ex_lbuf []; ECall F_sbuf_buf [ELocal 13]; ELocal 11; EBin OAdd I32 (ELocal 11) (EConst 1)]).
(* THE C TEXT of the loop body is these pieces (a change of ec_substitute's loop breaks this line) *)
Lemma es_shape : es_line =
  SSeq (SExpr (ESetLocal 12 (ECall F_lbuf_get [ECall F_ex_lbuf []; ELocal 11])))
       (SSeq (SExpr (ESetLocal 13 (EConst 0)))
             (SSeq es_while (SIf (ELocal 13) (SSeq es_str (SSeq es_edit (SExpr (ECall F_sbuf_free [ELocal 13])))) SSkip))).
Proof. reflexivity. Qed.

Lemma x_rstr_find_none : nth_error cprog X_rstr_find = None.
Proof. vm_compute. reflexivity. Qed.

(* strchr on a terminated string followed by anything *)
Lemma scanc_cstr_tail (t : bytes) tail c n : nonul t -> (c < 256)%N -> c <> 0%N ->
  scanc (map VInt (zb t) ++ VInt 0 :: tail) (wrap I8 (Z.of_N c)) n = Ok (match find_byte c t with Some k => Some (n + k)%nat | None => None end).
Proof.
  intros Ht Hc Hc0. revert n; induction t as [|x t IH]; intro n.
  - cbn [zb map app scanc find_byte]. change (wrap I8 0) with (wrap I8 (Z.of_N 0)).
    rewrite wrap_I8_inj by lia. destruct (N.eqb_spec 0 c); [congruence|]. reflexivity.
  - inversion Ht as [|? ? Hx Ht']; subst. unfold zb in *. cbn [map app scanc find_byte].
    destruct Hx as [Hx0 Hx]. rewrite wrap_I8_inj by lia. destruct (N.eqb_spec x c); [do 2 f_equal; lia|].
    destruct (Z.eqb_spec (Z.of_N x) 0); [lia|]. rewrite (IH Ht'). destruct (find_byte c t); [do 2 f_equal; lia|reflexivity].
Qed.
Lemma strchr_cstr_in m b o s c : cstr_in m b o s -> nonul s -> (c < 256)%N -> c <> 0%N ->
  do_builtin_m BStrchr [VPtr b o; VInt (Z.of_N c)] m
  = Ok (match find_byte c s with Some k => VPtr b (o + Z.of_nat k) | None => VInt 0 end, m).
Proof.
  intros (blk & tail & H & Ho & E) Hn Hc Hc0. cbn [do_builtin_m do_builtin bind]. unfold blk_from. rewrite H.
  assert (L : (Z.to_nat o < length blk)%nat).
  { destruct (Nat.lt_ge_cases (Z.to_nat o) (length blk)) as [L|L]; [exact L|]. rewrite skipn_all2 in E by exact L. destruct (zb s); discriminate. }
  destruct (Z.ltb_spec o 0); [lia|]. destruct (Z.ltb_spec (Z.of_nat (length blk)) o); [lia|]. cbn [orb bind].
  rewrite E, scanc_cstr_tail by assumption. cbn [bind]. destruct (find_byte c s); reflexivity.
Qed.
Lemma has_g_find flags : has_g flags = match find_byte 103 flags with Some _ => true | None => false end.
Proof.
  unfold has_g. induction flags as [|x r IH]; [reflexivity|]. cbn [existsb find_byte].
  rewrite N.eqb_sym. destruct (x =? 103)%N; [reflexivity|]. cbn [orb]. rewrite IH. destruct (find_byte 103 r); reflexivity.
Qed.
Lemma hd0_skipn (s : bytes) o : hd0 (skipn o s) = nthb s o.
Proof. rewrite <- (Nat.add_0_r o) at 2. rewrite <- nthb_skipn. destruct (skipn o s); reflexivity. Qed.

Section Scan.
  (* the oracle for rstr_find, the model's matcher; memory m0 at the entry of the loop *)
  Variable ext : nat -> list val -> mem -> res (val * mem).
  Variable find : bytes -> bool -> option (list grp).
  Variables (m0 : mem) (bl bo bsp bs rb : nat) (rz fo : Z) (line rep flags : bytes) (d fuel : nat).
  Variables (a0 a1 a2 a3 a6 a7 a8 a9 a11 : val).
  Hypothesis Hline : str_at m0 bl line.
  Hypothesis Hnline : nonul line.
  Hypothesis Hlen5 : Z.of_nat (length line) <= 500000000.
  Hypothesis Hrep : cstr_in m0 G_xrep 0 rep.
  Hypothesis Hnrep : nonul rep.
  Hypothesis Hsp : nth_error m0 bsp = Some [VPtr bs fo].
  Hypothesis Hflags : cstr_in m0 bs fo flags.
  Hypothesis Hnflags : nonul flags.
  Hypothesis Hbo : (bo < length m0)%nat.
  Hypothesis Hob : exists blk0, nth_error m0 bo = Some blk0 /\ length blk0 = 32%nat.       (* int offs[32], contents arbitrary *)
  Hypothesis Hne : bl <> bo /\ G_xrep <> bo /\ bsp <> bo /\ bs <> bo.
  Let gflag := has_g flags.
  Let call := callx ext cprog fuel (S (S (S d))).
  Let Hlen : Z.of_nat (length line) < 2147483647.
  Proof. lia. Qed.
  Local Notation ST o rv lv m :=
    (mkst [a0; a1; a2; a3; VPtr rb rz; VPtr bo 0; a6; a7; a8; a9; VPtr bsp 0; a11; VPtr bl (Z.of_nat o); rv; lv] m).

  (* what rstr_find does, as far as the loop can see: it answers like the model's matcher on the rest of the line and
     writes the 32 ints of offs (nothing else); the flag word is RE_NOTBOL = 2 or 0 *)
  Definition find_oracle : Prop :=
    forall (m : mem) (o : nat) (nb : bool) (blk : block),
      str_at m bl line -> (o <= length line)%nat -> nth_error m bo = Some blk -> length blk = 32%nat ->
      exists r blk', ext X_rstr_find [VPtr rb rz; VPtr bl (Z.of_nat o); VInt 16; VPtr bo 0; VInt (if nb then 2 else 0)] m
                     = Ok (VInt r, upd m bo blk') /\ length blk' = 32%nat /\
        match find (skipn o line) nb with
        | None => r < 0
        | Some offs => 0 <= r /\ exists offl, blk' = map VInt offl /\ ints_ok offl /\ offs = pairs offl
        end.
  (* the groups the replacement refers to point into the block of the line (a condition for empty / unset groups only) *)
  Definition find_ptr_ok : Prop :=
    forall o nb offs, (o <= length line)%nat -> find (skipn o line) nb = Some offs -> refs_ptr_ok o (length line) rep offs.
  Hypothesis Horacle : find_oracle.
  Hypothesis Hptr : find_ptr_ok.

  (* the memory during the loop: it only grew, the blocks of the entry other than offs are as they were *)
  Definition Ctx (mk : mem) : Prop :=
    (length m0 <= length mk)%nat /\ (forall b, (b < length m0)%nat -> b <> bo -> nth_error mk b = nth_error m0 b) /\
    exists blk, nth_error mk bo = Some blk /\ length blk = 32%nat.
  (* the buffer r: allocated after the entry *)
  Definition Rinv (mk : mem) (p : nat) (cs : list Z) : Prop :=
    sb_inv mk p cs /\ (length m0 <= p)%nat /\ forall bd, sbuf_datab mk p = Some bd -> (length m0 <= bd)%nat.

  Lemma ctx_line mk : Ctx mk -> str_at mk bl line.
  Proof. intros (_ & F & _). unfold str_at. rewrite F; [exact Hline| |tauto]. apply nth_error_Some. unfold str_at in Hline. congruence. Qed.
  Lemma ctx_rep mk : Ctx mk -> cstr_in mk G_xrep 0 rep.
  Proof. intros (_ & F & _). apply (cstr_in_same m0); [|exact Hrep]. apply F; [apply (cstr_in_lt _ _ _ _ Hrep)|tauto]. Qed.
  Lemma ctx_sp mk : Ctx mk -> nth_error mk bsp = Some [VPtr bs fo].
  Proof. intros (_ & F & _). rewrite F; [exact Hsp| |tauto]. apply nth_error_Some. congruence. Qed.
  Lemma ctx_flags mk : Ctx mk -> cstr_in mk bs fo flags.
  Proof. intros (_ & F & _). apply (cstr_in_same m0); [|exact Hflags]. apply F; [apply (cstr_in_lt _ _ _ _ Hflags)|tauto]. Qed.
  Lemma ctx_apart mk p cs b : Ctx mk -> Rinv mk p cs -> (b < length m0)%nat -> apart mk p b.
  Proof.
    intros (L & _) (_ & Hp & Hd) Hb. split; [lia|]. split; [lia|]. intro E. specialize (Hd _ E). lia.
  Qed.
  (* a step of the buffer keeps the context *)
  Lemma ctx_step mk mk' p cs cs' : Ctx mk -> Rinv mk p cs -> sbuf_step mk mk' p -> sb_inv mk' p cs' ->
    Ctx mk' /\ Rinv mk' p cs' /\ nth_error mk' bo = nth_error mk bo.
  Proof.
    intros C R S R'. pose proof C as (L & F & B). pose proof R as (_ & Hp & Hd). pose proof S as (L' & D' & F').
    assert (Old : forall b, (b < length m0)%nat -> nth_error mk' b = nth_error mk b).
    { intros b Hb. destruct (ctx_apart mk p cs b C R Hb) as (X1 & X2 & X3). apply F'; assumption. }
    split; [|split].
    - split; [lia|]. split; [intros b Hb Hn; rewrite Old by exact Hb; apply F; assumption|]. rewrite Old by exact Hbo. exact B.
    - split; [exact R'|]. split; [exact Hp|]. intros bd E. destruct D' as [D'|(b & D' & Hb)]; [rewrite D' in E; apply Hd; exact E|].
      rewrite D' in E. injection E as <-. lia.
    - apply Old. exact Hbo.
  Qed.
  (* the oracle's store into offs keeps the context *)
  Lemma ctx_upd_bo mk blk' : Ctx mk -> length blk' = 32%nat -> Ctx (upd mk bo blk').
  Proof.
    intros (L & F & B) Hl. assert (Hb : (bo < length mk)%nat) by lia.
    split; [rewrite mlen_upd by exact Hb; exact L|]. split; [intros b Hb' Hn; rewrite mem_upd_other by assumption; apply F; assumption|].
    exists blk'. split; [apply mem_upd_same; exact Hb|exact Hl].
  Qed.
  Lemma rinv_upd_bo mk p cs blk' : Ctx mk -> Rinv mk p cs -> Rinv (upd mk bo blk') p cs.
  Proof.
    intros C R. pose proof C as (L & _). pose proof R as ((sz & Rp & Hs) & Hp & Hd).
    destruct (ctx_apart mk p cs bo C R Hbo) as (X1 & X2 & X3).
    destruct (rep_upd_other mk p cs sz bo blk' Rp X2 X3 X1) as (R' & D').
    split; [exists sz; split; assumption|]. split; [exact Hp|]. rewrite D'. exact Hd.
  Qed.

  (* ---- the pieces of one round *)
  Lemma es_cond_eval mk o (nb : bool) p lv : Ctx mk -> (o <= length line)%nat ->
    let rv := if nb then VPtr p 0 else VInt 0 in
    exists r blk', eval call es_cond (ST o rv lv mk) = Ok (VInt (b2z (0 <=? r)), ST o rv lv (upd mk bo blk')) /\ length blk' = 32%nat /\
      match find (skipn o line) nb with
      | None => r < 0
      | Some offs => 0 <= r /\ exists offl, blk' = map VInt offl /\ ints_ok offl /\ offs = pairs offl
      end.
  Proof.
    intros C Ho rv. pose proof C as (_ & _ & blk & Hb & Hbl).
    destruct (Horacle mk o nb blk (ctx_line _ C) Ho Hb Hbl) as (r & blk' & E & Hl' & Hm).
    exists r, blk'. split; [|split; assumption].
    unfold es_cond, rv. destruct nb; xs; change (wrap I32 16) with 16; unfold call; rewrite callx_S, x_rstr_find_none, E; reflexivity.
  Qed.

  (* if (!r) r = sbuf_make(); *)
  Lemma es_make_new mk o lv fuel' : Ctx mk ->
    exec call fuel' es_make (ST o (VInt 0) lv mk) = ONormal (ST o (VPtr (length mk) 0) lv (mk ++ [[VInt 0; VInt 0; VInt 0]])) /\
    Ctx (mk ++ [[VInt 0; VInt 0; VInt 0]]) /\ Rinv (mk ++ [[VInt 0; VInt 0; VInt 0]]) (length mk) [] /\
    nth_error (mk ++ [[VInt 0; VInt 0; VInt 0]]) bo = nth_error mk bo.
  Proof.
    intros C. pose proof C as (L & F & B). split; [|split; [|split]].
    - unfold es_make. xstep. unfold call. rewrite (callx_mono ext _ _ _ _ _ _ _ (tr_sbuf_make mk (S (S d)) fuel)). xstep. reflexivity.
    - split; [rewrite app_length; lia|]. split; [intros b Hb Hn; rewrite nth_error_app_old by lia; apply F; assumption|].
      rewrite nth_error_app_old by lia. exact B.
    - split; [apply sb_inv_make|]. split; [exact L|]. intros bd E.
      rewrite (datab_null _ _ (VInt 0) (VInt 0)) in E by apply nth_error_app_new. discriminate.
    - apply nth_error_app_old. lia.
  Qed.
  Lemma es_make_old mk o p lv fuel' : exec call fuel' es_make (ST o (VPtr p 0) lv mk) = ONormal (ST o (VPtr p 0) lv mk).
  Proof. unfold es_make. xstep. reflexivity. Qed.

  (* sbuf_mem(r, ln, n) for n bytes of the rest of the line *)
  Lemma ctx_mem mk p cs o (n : nat) : Ctx mk -> Rinv mk p cs -> (o + n <= length line)%nat ->
    Z.of_nat (length cs) + Z.of_nat n <= 500000000 ->
    exists mk', callx ext cprog fuel (S (S (S d))) F_sbuf_mem [VPtr p 0; VPtr bl (Z.of_nat o); VInt (Z.of_nat n)] mk = Ok (VUndef, mk') /\
      Ctx mk' /\ Rinv mk' p (cs ++ zb (firstn n (skipn o line))) /\ nth_error mk' bo = nth_error mk bo.
  Proof.
    intros C R Hn Hsz. pose proof R as (Rs & _).
    assert (Hbl : (bl < length m0)%nat) by (apply nth_error_Some; unfold str_at in Hline; congruence).
    destruct (ctx_apart mk p cs bl C R Hbl) as (X1 & X2 & X3).
    set (src := zb (firstn n (skipn o line))).
    assert (Ls : length src = n) by (unfold src, zb; rewrite map_length, firstn_length, skipn_length; lia).
    destruct (sb_mem mk p cs bl (Z.of_nat o) (cstr_block (zb line)) src (S d) fuel Rs X2 X3 (ctx_line _ C) ltac:(lia)) as (mk' & E & R' & S').
    - unfold cstr_block, zb. rewrite app_length, !map_length. cbn [length]. lia.
    - rewrite Ls, Nat2Z.id. apply firstn_cstr_sub. exact Hn.
    - lia.
    - exists mk'. rewrite Ls in E. split; [apply (callx_mono ext); exact E|]. apply (ctx_step mk mk' p cs); assumption.
  Qed.

  (* if (!*ln || *ln == '\n' || !strchr(s, 'g')) break; *)
  Lemma es_stop_ok mk o rv lv fuel' : Ctx mk -> (o <= length line)%nat ->
    exec call fuel' es_stop (ST o rv lv mk) = if stops gflag (skipn o line) then OBreak (ST o rv lv mk) else ONormal (ST o rv lv mk).
  Proof.
    intros C Ho. pose proof (ctx_line _ C) as Hl. pose proof (nonul_lt256 _ Hnline) as H256.
    pose proof (nthb_lt256 line o H256) as Hc.
    unfold es_stop. xstep. rewrite (load_str mk bl line _ o Hl) by lia. xstep. rewrite (b_zero _ Hc).
    destruct (Nat.eq_dec o (length line)) as [->|Hno].
    - rewrite nthb_end, skipn_end by lia. cbn [N.eqb negb b2z stops]. xstep. reflexivity.
    - rewrite (skipn_cons_nthb line o) by lia. cbn [stops]. set (c := nthb line o) in *.
      assert (Hc0 : c <> 0%N).
      { unfold c, nthb. unfold nonul in Hnline. rewrite Forall_forall in Hnline. destruct (Hnline (nth o line 0%N)) as [X _]; [apply nth_In; lia|]. lia. }
      destruct (N.eqb_spec c 0); [contradiction|]. cbn [negb b2z]. xstep.
      rewrite (load_str mk bl line _ o Hl) by lia. xstep. fold c. rewrite (b_is10 c Hc).
      destruct (c =? 10)%N; cbn [b2z orb]; xstep; [reflexivity|].
      unfold load. rewrite (ctx_sp _ C). cbn [Z.ltb Z.compare Z.to_nat nth_error]. xstep.
      change 103 with (Z.of_N 103). rewrite (strchr_cstr_in mk bs fo flags 103 (ctx_flags _ C) Hnflags) by (try discriminate; reflexivity).
      unfold gflag. rewrite has_g_find. destruct (find_byte 103 flags); xstep; reflexivity.
  Qed.

  (* if (offs[1] <= offs[0]) { int l = MAX(1, uc_len(ln)); sbuf_mem(r, ln, l); ln += l; } *)
  Lemma es_step_ok mk o1 p cs lv offl c ln2 fuel' : Ctx mk -> Rinv mk p cs -> int_arr_at mk bo offl -> length offl = 32%nat -> ints_ok offl ->
    (o1 <= length line)%nat ->
    (if nthz offl 1 <=? nthz offl 0 then step_char (skipn o1 line) = Some (c, ln2) else (c = [] /\ ln2 = skipn o1 line)) ->
    Z.of_nat (length cs) + Z.of_nat (length c) <= 500000000 ->
    exists o2 lv' mk', exec call fuel' es_step (ST o1 (VPtr p 0) lv mk) = ONormal (ST o2 (VPtr p 0) lv' mk') /\
      Ctx mk' /\ Rinv mk' p (cs ++ zb c) /\ skipn o2 line = ln2 /\ (o2 <= length line)%nat /\ nth_error mk' bo = nth_error mk bo.
  Proof.
    intros C R Hof Hol Hints Ho1 Hm Hsz. pose proof (ctx_line _ C) as Hl. pose proof (nonul_lt256 _ Hnline) as H256.
    pose proof (nthz_ok offl 0 Hints) as I0. pose proof (nthz_ok offl 1 Hints) as I1.
    unfold es_step. xstep.
    rewrite (load_int_arr mk bo offl _ Hof) by lia. xstep. rewrite (load_int_arr mk bo offl _ Hof) by lia. xstep.
    change (0 + 1 * 1) with 1. change (0 + 1 * 0) with 0. rewrite !wrap_I32_id by lia.
    destruct (nthz offl 1 <=? nthz offl 0).
    2:{ destruct Hm as [-> ->]. cbn [b2z]. xstep. exists o1, lv, mk. cbn [zb map]. rewrite app_nil_r. auto 10. }
    cbn [b2z]. xstep.
    unfold step_char in Hm. unfold uc_len in Hm. rewrite hd0_skipn, skipn_length in Hm.
    set (ul := uc_len_b (nthb line o1)) in *.
    destruct (Nat.ltb_spec (length line - o1) (Nat.max 1 ul)) as [Hlt|Hge]; [discriminate|].
    assert (Ec : c = firstn (Nat.max 1 ul) (skipn o1 line) /\ ln2 = skipn (Nat.max 1 ul) (skipn o1 line)) by (injection Hm; auto).
    clear Hm. destruct Ec as [-> ->].
    pose proof (callx_mono ext _ _ _ _ _ _ _ (tr_uc_len mk bl line o1 (S (S d)) fuel Hl H256 Ho1)) as U. fold ul in U.
    unfold call. rewrite U. xstep.
    assert (Hul : (ul <= 4)%nat) by (unfold ul, uc_len_b; repeat match goal with |- context [if ?b then _ else _] => destruct b end; lia).
    set (lz := Z.of_nat (Nat.max 1 ul)).
    assert (El : (if 1 <? Z.of_nat ul then (do (v, m') <- callx ext cprog fuel (S (S (S d))) F_uc_len [VPtr bl (Z.of_nat o1)] mk;
                                             Ok (v, ST o1 (VPtr p 0) lv m')) else Ok (VInt 1, ST o1 (VPtr p 0) lv mk))
                 = Ok (VInt lz, ST o1 (VPtr p 0) lv mk)).
    { unfold lz. destruct (Z.ltb_spec 1 (Z.of_nat ul)); [rewrite U; cbn [bind]; do 3 f_equal; lia|do 3 f_equal; lia]. }
    rewrite El. clear El. xstep.
    rewrite firstn_length, skipn_length, Nat.min_l in Hsz by lia.
    destruct (ctx_mem mk p cs o1 (Nat.max 1 ul) C R ltac:(lia) Hsz) as (mk' & E & C' & R' & B').
    fold lz in E. rewrite E. xstep.
    exists (o1 + Nat.max 1 ul)%nat, (VInt lz), mk'.
    replace (Z.of_nat o1 + 1 * lz) with (Z.of_nat (o1 + Nat.max 1 ul)) by (unfold lz; lia).
    split; [reflexivity|]. split; [exact C'|]. split; [exact R'|]. split; [rewrite skipn_skipn; reflexivity|]. split; [lia|exact B'].
  Qed.

  (* one round after `if (!r) r = sbuf_make()`: gap, replace, advance, step over a character after an empty match, stop test
     = SubstDefs.one_match + SubstDefs.stops *)
  Lemma es_round mk o p cs lv offl out1 ln2 fuel' : Ctx mk -> Rinv mk p cs -> int_arr_at mk bo offl -> length offl = 32%nat -> ints_ok offl ->
    (o <= length line)%nat -> (length rep < fuel)%nat ->
    one_match rep (skipn o line) (pairs offl) = Some (out1, ln2) -> refs_ptr_ok o (length line) rep (pairs offl) ->
    Z.of_nat (length cs) + Z.of_nat (length out1) <= 500000000 ->
    exists o2 cells lv' mk',
      exec call fuel' (SSeq es_gap (SSeq es_rep (SSeq es_adv (SSeq es_step es_stop)))) (ST o (VPtr p 0) lv mk)
      = (if stops gflag ln2 then OBreak (ST o2 (VPtr p 0) lv' mk') else ONormal (ST o2 (VPtr p 0) lv' mk')) /\
      Ctx mk' /\ Rinv mk' p (cs ++ cells) /\ map byte_of cells = out1 /\ skipn o2 line = ln2 /\ (o2 <= length line)%nat.
  Proof.
    intros C R Hof Hol Hints Ho Hfr Hm Hp Hsz. pose proof (nonul_lt256 _ Hnline) as H256.
    pose proof (nthz_ok offl 0 Hints) as I0. pose proof (nthz_ok offl 1 Hints) as I1.
    unfold one_match in Hm. rewrite (nth_pairs offl 0) in Hm by lia. change (Z.of_nat (2 * 0)) with 0 in Hm. change (Z.of_nat (2 * 0 + 1)) with 1 in Hm.
    set (so := nthz offl 0) in *. set (eo := nthz offl 1) in *. rewrite skipn_length in Hm.
    destruct (Z.ltb_spec so 0); [discriminate|]. destruct (Z.ltb_spec eo so); [discriminate|].
    destruct (Z.ltb_spec (Z.of_nat (length line - o)) eo); [discriminate|]. cbn [orb] in Hm.
    destruct (expand rep (skipn o line) (pairs offl)) as [t|] eqn:Et; [|discriminate].
    set (pre := firstn (Z.to_nat so) (skipn o line)) in *.
    assert (Lpre : length pre = Z.to_nat so) by (unfold pre; rewrite firstn_length, skipn_length; lia).
    (* the text appended after the replacement: the character stepped over, or nothing *)
    assert (Hc : exists c, out1 = pre ++ t ++ c /\
               (if eo <=? so then step_char (skipn (o + Z.to_nat eo) line) = Some (c, ln2) else (c = [] /\ ln2 = skipn (o + Z.to_nat eo) line))).
    { rewrite skipn_skipn in Hm. destruct (eo <=? so).
      - destruct (step_char (skipn (o + Z.to_nat eo) line)) as [[c l2]|]; [|discriminate]. injection Hm as <- <-. exists c. auto.
      - injection Hm as <- <-. exists []. rewrite app_nil_r. auto. }
    destruct Hc as (c & -> & Hstep). clear Hm. rewrite !app_length in Hsz.
    (* sbuf_mem(r, ln, offs[0]) *)
    rewrite exec_seq. unfold es_gap at 1. xstep. rewrite (load_int_arr mk bo offl _ Hof) by lia. xstep.
    change (0 + 1 * 0) with 0. fold so. rewrite wrap_I32_id by lia.
    destruct (ctx_mem mk p cs o (Z.to_nat so) C R ltac:(lia) ltac:(lia)) as (mk1 & E1 & C1 & R1 & B1).
    rewrite Z2Nat.id in E1 by lia. unfold call. rewrite E1. fold pre in R1. xstep.
    (* replace(r, xrep, ln, offs) *)
    assert (Hof1 : int_arr_at mk1 bo offl) by (unfold int_arr_at; rewrite B1; exact Hof).
    assert (Hbl : (bl < length m0)%nat) by (apply nth_error_Some; unfold str_at in Hline; congruence).
    destruct R1 as (Rs1 & Rp1 & Rd1).
    destruct (tr_replace mk1 p (cs ++ zb pre) G_xrep 0 rep bl line o bo offl t d fuel Rs1 (ctx_rep _ C1) Hnrep (ctx_line _ C1) H256 Ho Hlen Hof1 Hol Hints)
      as (mk2 & cells2 & E2 & R2 & Ec2 & S2); try assumption.
    { apply (ctx_apart mk1 p (cs ++ zb pre)); [exact C1|repeat split; assumption|apply (cstr_in_lt _ _ _ _ Hrep)]. }
    { apply (ctx_apart mk1 p (cs ++ zb pre)); [exact C1|repeat split; assumption|exact Hbl]. }
    { apply (ctx_apart mk1 p (cs ++ zb pre)); [exact C1|repeat split; assumption|exact Hbo]. }
    { rewrite app_length. unfold zb. rewrite map_length. lia. }
    destruct (ctx_step mk1 mk2 p (cs ++ zb pre) ((cs ++ zb pre) ++ cells2) C1 ltac:(repeat split; assumption) S2 R2) as (C2 & R2' & B2).
    unfold es_rep at 1. xstep. rewrite (callx_mono ext _ _ _ _ _ _ _ E2). xstep.
    (* ln += offs[1] *)
    assert (Hof2 : int_arr_at mk2 bo offl) by (unfold int_arr_at; rewrite B2; exact Hof1).
    unfold es_adv at 1. xstep. rewrite (load_int_arr mk2 bo offl _ Hof2) by lia. xstep.
    change (0 + 1 * 1) with 1. fold eo. rewrite wrap_I32_id by lia.
    replace (Z.of_nat o + 1 * eo) with (Z.of_nat (o + Z.to_nat eo)) by lia.
    (* the step after an empty match *)
    destruct (es_step_ok mk2 (o + Z.to_nat eo) p ((cs ++ zb pre) ++ cells2) lv offl c ln2 fuel' C2 R2' Hof2 Hol Hints ltac:(lia) Hstep)
      as (o2 & lv' & mk3 & E3 & C3 & R3 & Hln2 & Ho2 & B3).
    { rewrite !app_length. unfold zb. rewrite map_length. rewrite <- Ec2, map_length in Hsz. lia. }
    fold call. rewrite E3.
    (* the stop test *)
    rewrite (es_stop_ok mk3 o2 (VPtr p 0) lv' fuel' C3 Ho2), Hln2.
    exists o2, (zb pre ++ cells2 ++ zb c), lv', mk3.
    split; [destruct (stops gflag ln2); reflexivity|]. split; [exact C3|]. split; [rewrite !app_assoc in *; exact R3|].
    split; [|split; assumption].
    assert (Bz : forall u : bytes, bytes_lt256 u -> map byte_of (zb u) = u) by (intros u Hu; apply byte_of_zb; exact Hu).
    rewrite !map_app, Ec2, !Bz; [reflexivity| |].
    - destruct (eo <=? so).
      + unfold step_char in Hstep. destruct (_ <? _)%nat; [discriminate|]. injection Hstep as <- _. apply Forall_firstn'. apply Forall_skipn'. exact H256.
      + destruct Hstep as [-> _]. constructor.
    - unfold pre. apply Forall_firstn'. apply Forall_skipn'. exact H256.
  Qed.

  (* the while loop = SubstDefs.scan: r is NULL exactly while no match was found (notbol = false) *)
  Lemma es_loop : forall f o (nb : bool) p cs lv mk out k fuel',
    (f <= fuel')%nat -> (length rep < fuel)%nat -> Ctx mk -> (if nb then Rinv mk p cs else cs = []) -> (o <= length line)%nat ->
    scan find rep gflag f nb (skipn o line) = Some (Some (out, k)) ->
    Z.of_nat (length cs) + Z.of_nat (length out) <= 500000000 ->
    exists o' rv' lv' mk' cells,
      exec call fuel' es_while (ST o (if nb then VPtr p 0 else VInt 0) lv mk) = ONormal (ST o' rv' lv' mk') /\ Ctx mk' /\
      (o' <= length line)%nat /\ out = map byte_of cells ++ skipn o' line /\
      match k with
      | O => rv' = (if nb then VPtr p 0 else VInt 0) /\ cells = [] /\ (nb = true -> Rinv mk' p cs)
      | S _ => exists p', rv' = VPtr p' 0 /\ Rinv mk' p' (cs ++ cells) /\ (nb = true -> p' = p)
      end.
  Proof.
    induction f as [|f IH]; intros o nb p cs lv mk out k fuel' Hf Hfr C Rn Ho Hs Hsz; [discriminate|].
    destruct fuel' as [|f']; [lia|]. unfold es_while. rewrite exec_while.
    destruct (es_cond_eval mk o nb p lv C Ho) as (r & blk' & E & Hl' & Hm). cbv zeta in E. rewrite E, truth_b2z.
    cbn [scan] in Hs. destruct (find (skipn o line) nb) as [offs|] eqn:Ef.
    2:{ destruct (Z.leb_spec 0 r); [lia|]. injection Hs as <- <-.
        exists o, (if nb then VPtr p 0 else VInt 0), lv, (upd mk bo blk'), []. split; [reflexivity|]. split; [apply ctx_upd_bo; assumption|].
        split; [exact Ho|]. split; [reflexivity|]. split; [reflexivity|]. split; [reflexivity|].
        intros ->. apply rinv_upd_bo; assumption. }
    destruct Hm as (Hr & offl & -> & Hints & ->). rewrite map_length in Hl'.
    destruct (Z.leb_spec 0 r); [|lia].
    destruct (one_match rep (skipn o line) (pairs offl)) as [[out1 ln2]|] eqn:Em; [|discriminate].
    set (mk1 := upd mk bo (map VInt offl)) in *.
    assert (C1 : Ctx mk1) by (apply ctx_upd_bo; [exact C|rewrite map_length; exact Hl']).
    assert (Hof1 : int_arr_at mk1 bo offl) by (apply mem_upd_same; destruct C as (L & _); lia).
    pose proof (Hptr o nb (pairs offl) Ho Ef) as Hp.
    (* r after `if (!r) r = sbuf_make()` *)
    assert (Mk : exists p1 mk2, exec call (S f') es_make (ST o (if nb then VPtr p 0 else VInt 0) lv mk1) = ONormal (ST o (VPtr p1 0) lv mk2) /\
                   Ctx mk2 /\ Rinv mk2 p1 cs /\ int_arr_at mk2 bo offl /\ (nb = true -> p1 = p)).
    { destruct nb.
      - exists p, mk1. split; [apply es_make_old|]. split; [exact C1|]. split; [apply rinv_upd_bo; assumption|]. auto.
      - subst cs. destruct (es_make_new mk1 o lv (S f') C1) as (E1 & C2 & R2 & B2).
        exists (length mk1), (mk1 ++ [[VInt 0; VInt 0; VInt 0]]). split; [exact E1|]. split; [exact C2|]. split; [exact R2|].
        split; [unfold int_arr_at; rewrite B2; exact Hof1|discriminate]. }
    destruct Mk as (p1 & mk2 & E1 & C2 & R2 & Hof2 & Hp1).
    assert (Hsz1 : Z.of_nat (length cs) + Z.of_nat (length out1) <= 500000000).
    { destruct (stops gflag ln2); [injection Hs as <- _; rewrite app_length in Hsz; lia|].
      destruct (scan find rep gflag f true ln2) as [[[out2 k2]|]|]; try discriminate. injection Hs as <- _. rewrite app_length in Hsz. lia. }
    destruct (es_round mk2 o p1 cs lv offl out1 ln2 (S f') C2 R2 Hof2 Hl' Hints Ho Hfr Em Hp Hsz1)
      as (o2 & cells & lv2 & mk3 & E3 & C3 & R3 & Ec & Hln2 & Ho2).
    unfold es_body at 1. rewrite exec_seq, E1. fold es_body. rewrite E3.
    destruct (stops gflag ln2).
    - injection Hs as <- <-. exists o2, (VPtr p1 0), lv2, mk3, cells. split; [reflexivity|]. split; [exact C3|]. split; [exact Ho2|].
      split; [rewrite Ec, Hln2; reflexivity|]. exists p1. auto.
    - destruct (scan find rep gflag f true ln2) as [[[out2 k2]|]|] eqn:Es2; try discriminate. injection Hs as <- <-.
      rewrite <- Hln2 in Es2. fold es_while.
      destruct (IH o2 true p1 (cs ++ cells) lv2 mk3 out2 k2 f' ltac:(lia) Hfr C3 R3 Ho2 Es2) as (o' & rv' & lv' & mk' & cells2 & E' & C' & Ho' & Eo & Hk).
      { rewrite app_length in *. rewrite <- Ec, map_length in Hsz. lia. }
      rewrite E'. destruct k2 as [|k2].
      + destruct Hk as (-> & -> & Rk). exists o', (VPtr p1 0), lv', mk', cells. split; [reflexivity|]. split; [exact C'|]. split; [exact Ho'|].
        split; [rewrite Ec, Eo; reflexivity|]. exists p1. split; [reflexivity|]. split; [apply Rk; reflexivity|exact Hp1].
      + destruct Hk as (p' & -> & Rk & Pk). specialize (Pk eq_refl). subst p'.
        exists o', (VPtr p1 0), lv', mk', (cells ++ cells2). split; [reflexivity|]. split; [exact C'|]. split; [exact Ho'|].
        split; [rewrite map_app, Ec, Eo, app_assoc; reflexivity|]. exists p1. rewrite app_assoc. auto.
  Qed.

  Lemma ctx_m0 : Ctx m0.
  Proof. split; [lia|]. split; [reflexivity|exact Hob]. Qed.

  (* THE THEOREM about the loop of one line.  At the entry ln points to the start of the line, r is NULL.
     - the model leaves the line alone (no match): the C loop ends with r == NULL (the if (r) block is skipped: no edit);
     - the model rewrites the line to `new`: after the loop and sbuf_str(r, ln) the buffer r -- a struct sbuf allocated after
       the entry -- holds exactly the bytes of `new`.
     In both cases the only block of the entry memory that changed is offs; every load, store and memcpy was inside its
     block, no signed operation overflowed, the loop ended within |line| + 1 rounds. *)
  Theorem subst_line_ok lv : (S (length line) <= fuel)%nat -> (length rep < fuel)%nat ->
    match subst_line find rep gflag line with
    | Unchanged =>
        exists lv' mk', exec call fuel es_while (ST 0 (VInt 0) lv m0) = ONormal (ST 0 (VInt 0) lv' mk') /\ Ctx mk'
    | Changed new =>
        Z.of_nat (length new) <= 500000000 ->
        exists o' p lv' mk' cells,
          exec call fuel (SSeq es_while es_str) (ST 0 (VInt 0) lv m0) = ONormal (ST o' (VPtr p 0) lv' mk') /\ Ctx mk' /\
          Rinv mk' p cells /\ map byte_of cells = new
    | SOOB | SFuel => True
    end.
  Proof.
    intros Hf Hfr. unfold subst_line.
    destruct (scan find rep gflag (S (length line)) false line) as [[[out k]|]|] eqn:Es; try exact I.
    pose proof (es_loop (S (length line)) 0%nat false 0%nat [] lv m0 out k fuel Hf Hfr ctx_m0 eq_refl ltac:(lia) Es) as L.
    destruct k as [|k].
    - assert (out = line).
      { cbn [scan] in Es. destruct (find line false); [|injection Es as <-; reflexivity].
        destruct (one_match rep line l) as [[o1 l2]|]; [|discriminate]. destruct (stops gflag l2); [discriminate|].
        destruct (scan find rep gflag (length line) true l2) as [[[o2 k2]|]|]; discriminate. }
      subst out. destruct L as (o' & rv' & lv' & mk' & cells & E & C' & Ho' & Eo & -> & -> & _); [cbn [length]; lia|].
      cbn [map app] in Eo.
      assert (o' = 0%nat).
      { apply (f_equal (@length N)) in Eo. rewrite skipn_length in Eo. lia. }
      subst o'. exists lv', mk'. split; [exact E|exact C'].
    - intro Hsz. destruct L as (o' & rv' & lv' & mk' & cells & E & C' & Ho' & Eo & p' & -> & R' & _); [cbn [length]; lia|].
      cbn [app] in R'. pose proof R' as (Rs & _).
      assert (Hbl : (bl < length m0)%nat) by (apply nth_error_Some; unfold str_at in Hline; congruence).
      destruct (ctx_apart mk' p' cells bl C' R' Hbl) as (X1 & X2 & X3).
      destruct (sb_str mk' p' cells bl line o' d fuel Rs X2 X3 (ctx_line _ C') Hnline Ho' ltac:(lia)) as (mk2 & E2 & R2 & S2).
      { subst out. rewrite app_length, map_length in Hsz. lia. }
      destruct (ctx_step mk' mk2 p' cells _ C' R' S2 R2) as (C2 & R2' & _).
      exists o', p', lv', mk2, (cells ++ zb (skipn o' line)).
      split; [|split; [exact C2|split; [exact R2'|]]].
      + rewrite exec_seq, E. unfold es_str. xstep. unfold call. rewrite (callx_mono ext _ _ _ _ _ _ _ E2). xstep. reflexivity.
      + rewrite map_app, byte_of_zb; [symmetry; exact Eo|]. apply Forall_skipn'. apply nonul_lt256. exact Hnline.
  Qed.
End Scan.
Print Assumptions subst_line_ok.

(* ------------------------------------------------------------------ the hypothesis find_oracle is satisfiable for every matcher *)
(* an oracle made from a model matcher: it decodes the rest of the line from the memory, asks the matcher, and writes the
   32 ints into offs (on failure offs is left as it is) *)
Definition unpairs (offs : list grp) : list Z := flat_map (fun g => [fst g; snd g]) offs.
Definition ext_find (find : bytes -> bool -> option (list grp)) : nat -> list val -> mem -> res (val * mem) :=
  fun f args m =>
    if Nat.eqb f X_rstr_find then
      match args with
      | [_; VPtr b o; _; VPtr bo _; VInt flg] =>
          match nth_error m b, nth_error m bo with
          | Some blk, Some oblk =>
              match find (map byte_of (cells_to_nul (skipn (Z.to_nat o) blk))) (flg =? 2) with
              | Some offs => Ok (VInt 0, upd m bo (map VInt (unpairs offs)))
              | None => Ok (VInt (-1), upd m bo oblk)
              end
          | _, _ => Err EOob
          end
      | _ => Err EShape
      end
    else Err EShape.
Lemma cells_to_nul_cstr (t : bytes) : nonul t -> cells_to_nul (cstr_block (zb t)) = zb t.
Proof.
  unfold cstr_block, zb. induction 1 as [|x t Hx Ht IH]; [reflexivity|]. cbn [map app cells_to_nul].
  destruct Hx as [Hx0 _]. destruct x; [lia|]. cbn [Z.of_N]. f_equal. exact IH.
Qed.
Lemma pairs_unpairs offs : pairs (unpairs offs) = offs.
Proof. induction offs as [|[a b] r IH]; [reflexivity|]. cbn [unpairs flat_map app pairs fst snd]. f_equal. exact IH. Qed.
(* a matcher that answers with sixteen pairs of ints *)
Definition find_wf16 (find : bytes -> bool -> option (list grp)) : Prop :=
  forall ln nb offs, find ln nb = Some offs -> length offs = 16%nat /\ ints_ok (unpairs offs).
Lemma ext_find_oracle find bl bo rb rz line : nonul line -> find_wf16 find -> find_oracle (ext_find find) find bl bo rb rz line.
Proof.
  intros Hn Hw m o nb blk Hs Ho Hb Hl. unfold ext_find. rewrite Nat.eqb_refl, Hs, Hb, Nat2Z.id, skipn_cstr_block by exact Ho.
  rewrite cells_to_nul_cstr by (apply Forall_skipn'; exact Hn).
  rewrite byte_of_zb by (apply nonul_lt256; apply Forall_skipn'; exact Hn).
  replace ((if nb then 2 else 0) =? 2) with nb by (destruct nb; reflexivity).
  destruct (find (skipn o line) nb) as [offs|] eqn:Ef.
  - destruct (Hw _ _ _ Ef) as [L I]. exists 0, (map VInt (unpairs offs)). split; [reflexivity|]. split.
    + rewrite map_length. unfold unpairs. clear -L. do 17 (destruct offs as [|[? ?] offs]; [try discriminate; try reflexivity|]). discriminate.
    + split; [lia|]. exists (unpairs offs). split; [reflexivity|]. split; [exact I|symmetry; apply pairs_unpairs].
  - exists (-1), blk. split; [reflexivity|]. split; [exact Hl|lia].
Qed.

(* running the translated loop (and sbuf_str, sbuf_buf) under the oracle made from a matcher: the memory is the program's
   globals with xrep := rep, then the line, offs[32] (indeterminate), the cell of `s`, the flags *)
Definition sl_run (find : bytes -> bool -> option (list grp)) (rep flags line : bytes) (fuel : nat) : res (option (list N)) :=
  let n := length cglobals in
  let m := upd cglobals G_xrep (cstr_block (zb rep)) ++ [cstr_block (zb line); repeat VUndef 32; [VPtr (n + 3) 0]; cstr_block (zb flags)] in
  let st := mkst [VInt 0; VInt 0; VInt 0; VInt 0; VPtr n 0; VPtr (n + 1) 0; VInt 0; VInt 0; VInt 0; VInt 0; VPtr (n + 2) 0; VInt 0;
                  VPtr n 0; VInt 0; VUndef] m in
  let call := callx (ext_find find) cprog fuel 8 in
  match exec call fuel (SSeq es_while (SIf (ELocal 13) es_str SSkip)) st with
  | ONormal st' =>
      match nth_error (locals st') 13 with
      | Some (VPtr p 0) =>
          match call F_sbuf_buf [VPtr p 0] (memm st') with
          | Ok (VPtr b 0, m3) => match nth_error m3 b with Some blk => Ok (Some (map byte_of (cells_to_nul blk))) | None => Err EShape end
          | Ok _ => Err EShape
          | Err e => Err e
          end
      | Some (VInt 0) => Ok None
      | _ => Err EShape
      end
  | OErr e => Err e
  | _ => Err EShape
  end.
(* the literal matcher for one byte: the first occurrence in the rest (below 1 GB, so that the offsets are ints), sixteen pairs *)
Definition find_byte1 (c : N) (ln : bytes) (nb : bool) : option (list grp) :=
  match find_byte c ln with
  | Some i => if Z.of_nat i <? 1000000000 then Some ((Z.of_nat i, Z.of_nat i + 1) :: repeat unset 15) else None
  | None => None
  end.
(* the empty match in front of the first occurrence of one byte *)
Definition find_before (c : N) (ln : bytes) (nb : bool) : option (list grp) :=
  match find_byte c ln with
  | Some i => if Z.of_nat i <? 1000000000 then Some ((Z.of_nat i, Z.of_nat i) :: repeat unset 15) else None
  | None => None
  end.
Lemma find_byte1_wf16 c : find_wf16 (find_byte1 c).
Proof.
  intros ln nb offs H. unfold find_byte1 in H. destruct (find_byte c ln) as [i|]; [|discriminate].
  destruct (Z.ltb_spec (Z.of_nat i) 1000000000); [|discriminate]. injection H as <-.
  split; [reflexivity|]. unfold unpairs. cbn [flat_map repeat app fst snd unset]. repeat constructor; lia.
Qed.

(* what lbuf_edit is handed: sbuf_buf(r) terminates the text inside the allocation and returns the start of the data block *)
Lemma sb_buf m p cs d fuel : sb_inv m p cs ->
  exists b m' rest, callf cprog fuel (S (S d)) F_sbuf_buf [VPtr p 0] m = Ok (VPtr b 0, m') /\
    nth_error m' b = Some (map VInt cs ++ VInt 0 :: rest) /\ sbuf_step m m' p.
Proof.
  intros (sz & R & _). destruct (tr_sbuf_buf m p cs sz d fuel R) as (b & m' & rest & E & _ & _ & Hb & _ & _ & S' & _).
  exists b, m', rest. auto.
Qed.
