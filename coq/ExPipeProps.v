(* ExPipeProps.v -- C06: proofs about the commands that exchange text with an external command (ExPipeDefs.v, ExDefs.ec_exec / ec_read):
   their effect as a function of the OUTPUT BYTES (any byte string: terminated, last line unterminated, one unterminated line,
   empty), the INPUT handed to the command, and the feeding loop of cmd_pipe(). *)
From Coq Require Import List NArith ZArith Bool Lia.
From NV Require Import Bytes ExDefs ExSpec ExProps ExRefine ExRegDefs ExRegProps ExStrDefs ExStrProps ExPipeDefs.
Import ListNotations.
Local Open Scope Z_scope.

(* ------------------------------------------------------------------------------------------ *)
(* A. what split_lines makes of a byte string, stated on LINES: every byte string is join_lines l ++ t for newline-free lines l and a
   newline-free rest t (bytes_decomp); its lines are l, and t as one more line when it is not empty: the missing newline is supplied *)

Lemma split_aux_nonl : forall t rest cur, nonl t = true ->
  split_lines_aux (t ++ rest) cur = split_lines_aux rest (rev t ++ cur).
Proof.
  induction t as [|c t IH]; intros rest cur H; [reflexivity|].
  unfold nonl in H. cbn [mem existsb] in H. apply negb_true_iff in H. apply orb_false_iff in H. destruct H as [Hc Hp].
  cbn [app split_lines_aux]. rewrite Hc. rewrite IH by (unfold nonl, mem; rewrite Hp; reflexivity).
  cbn [rev]. rewrite <- app_assoc. reflexivity.
Qed.

Lemma split_aux_join : forall l rest, forallb nonl l = true ->
  split_lines_aux (join_lines l ++ rest) [] = l ++ split_lines_aux rest [].
Proof.
  induction l as [|x l IH]; intros rest H; [reflexivity|].
  cbn [forallb] in H. apply andb_true_iff in H. destruct H as [Hx Hl].
  rewrite join_cons. rewrite <- app_assoc. rewrite split_aux_nonl by exact Hx.
  cbn [app split_lines_aux]. change (nl =? nl)%N with true. cbv iota. rewrite app_nil_r, rev_involutive.
  cbn [app]. f_equal. apply IH. exact Hl.
Qed.

Theorem split_terminated l : forallb nonl l = true -> split_lines (join_lines l) = l.
Proof.
  intro H. unfold split_lines. rewrite <- (app_nil_r (join_lines l)). rewrite split_aux_join by exact H.
  cbn [split_lines_aux]. apply app_nil_r.
Qed.

Theorem split_unterminated l t : forallb nonl l = true -> nonl t = true -> t <> [] ->
  split_lines (join_lines l ++ t) = l ++ [t].
Proof.
  intros Hl Ht Hn. unfold split_lines. rewrite split_aux_join by exact Hl. f_equal.
  rewrite <- (app_nil_r t) at 1. rewrite split_aux_nonl by exact Ht. cbn [split_lines_aux]. rewrite app_nil_r.
  destruct (rev t) as [|y r] eqn:R.
  - exfalso. apply Hn. rewrite <- (rev_involutive t), R. reflexivity.
  - rewrite <- R, rev_involutive. reflexivity.
Qed.

(* the lines of a text given as terminated lines l plus an unterminated rest t *)
Definition text_lines (l : list bytes) (t : bytes) : list bytes := l ++ match t with [] => [] | _ => [t] end.

Theorem split_text l t : forallb nonl l = true -> nonl t = true -> split_lines (join_lines l ++ t) = text_lines l t.
Proof.
  intros Hl Ht. unfold text_lines. destruct t as [|c t].
  - rewrite !app_nil_r. apply split_terminated. exact Hl.
  - apply split_unterminated; [exact Hl | exact Ht | discriminate].
Qed.

Lemma nonl_cons c x : (c =? nl)%N = false -> nonl x = true -> nonl (c :: x) = true.
Proof. intros Hc Hx. unfold nonl in *. cbn [mem existsb]. rewrite Hc. exact Hx. Qed.

Theorem bytes_decomp : forall s, exists l t, forallb nonl l = true /\ nonl t = true /\ s = join_lines l ++ t.
Proof.
  induction s as [|c s (l & t & Hl & Ht & E)].
  - exists [], []. repeat split; reflexivity.
  - destruct (c =? nl)%N eqn:C.
    + apply N.eqb_eq in C. subst c. exists ([] :: l), t. split; [|split].
      * cbn [forallb]. rewrite Hl. reflexivity.
      * exact Ht.
      * rewrite join_cons. cbn [app]. rewrite E. reflexivity.
    + destruct l as [|x l].
      * exists [], (c :: t). split; [reflexivity|]. split; [apply nonl_cons; assumption|]. rewrite E. reflexivity.
      * cbn [forallb] in Hl. apply andb_true_iff in Hl. destruct Hl as [Hx Hl].
        exists ((c :: x) :: l), t. split; [|split].
        -- cbn [forallb]. rewrite Hl, (nonl_cons c x C Hx). reflexivity.
        -- exact Ht.
        -- rewrite E, !join_cons. reflexivity.
Qed.

(* ------------------------------------------------------------------------------------------ *)
(* F. the feeding loop of cmd_pipe *)

Lemma skipn_all' {A} (n : nat) (l : list A) : (length l <= n)%nat -> skipn n l = [].
Proof. intro H. apply length_zero_iff_nil. rewrite skipn_length. lia. Qed.

(* every schedule without a failing / empty write that has more events than bytes are left delivers exactly the rest of the text,
   whatever the sizes of the individual writes, and closes the descriptor with nw = slen *)
Theorem feed_rest : forall sched ibuf nw, sched_ok sched = true -> (nw <= length ibuf)%nat -> (length ibuf - nw < length sched)%nat ->
  pipe_feed ibuf nw sched = (skipn nw ibuf, length ibuf, true).
Proof.
  induction sched as [|w sched IH]; intros ibuf nw Hok Hnw Hlen; [cbn in Hlen; lia|].
  destruct w as [|k]; [discriminate|]. cbn [sched_ok] in Hok. apply andb_true_iff in Hok. destruct Hok as [Hk Hok].
  apply negb_true_iff in Hk. apply Nat.eqb_neq in Hk.
  cbn [pipe_feed]. rewrite skipn_length.
  destruct (Nat.min k (length ibuf - nw) =? 0)%nat eqn:R0.
  - apply Nat.eqb_eq in R0. assert (nw = length ibuf) by lia. subst nw. rewrite skipn_all' by lia. reflexivity.
  - apply Nat.eqb_neq in R0. set (ret := Nat.min k (length ibuf - nw)) in *.
    destruct (nw + ret =? length ibuf)%nat eqn:Q.
    + apply Nat.eqb_eq in Q. rewrite Q. f_equal. f_equal. apply firstn_all2. rewrite skipn_length. lia.
    + apply Nat.eqb_neq in Q. cbn [length] in Hlen.
      rewrite IH by (try exact Hok; lia). f_equal. f_equal.
      rewrite <- (firstn_skipn ret (skipn nw ibuf)) at 2. rewrite skipn_skipn. reflexivity.
Qed.

Theorem feed_all sched ibuf : sched_ok sched = true -> (length ibuf < length sched)%nat ->
  pipe_feed ibuf 0 sched = (ibuf, length ibuf, true).
Proof. intros H L. rewrite feed_rest by (try exact H; lia). reflexivity. Qed.

(* whatever the schedule (failures, short writes, too few events): what reached the pipe is a prefix of the text -- nothing is sent
   twice, nothing is skipped -- and nw counts it *)
Theorem feed_prefix : forall sched ibuf nw d n2 c, (nw <= length ibuf)%nat -> pipe_feed ibuf nw sched = (d, n2, c) ->
  d = firstn (n2 - nw) (skipn nw ibuf) /\ (nw <= n2 <= length ibuf)%nat.
Proof.
  induction sched as [|w sched IH]; intros ibuf nw d n2 c Hnw E.
  - cbn in E. inversion E; subst. rewrite Nat.sub_diag. split; [reflexivity | lia].
  - destruct w as [|k]; [cbn in E; inversion E; subst; rewrite Nat.sub_diag; split; [reflexivity | lia]|].
    cbn [pipe_feed] in E. rewrite skipn_length in E.
    destruct (Nat.min k (length ibuf - nw) =? 0)%nat eqn:R0.
    + inversion E; subst. rewrite Nat.sub_diag. split; [reflexivity | lia].
    + apply Nat.eqb_neq in R0. set (ret := Nat.min k (length ibuf - nw)) in *.
      destruct (nw + ret =? length ibuf)%nat eqn:Q.
      * inversion E; subst. replace (nw + ret - nw)%nat with ret by lia. split; [reflexivity | lia].
      * destruct (pipe_feed ibuf (nw + ret) sched) as [[d' n'] c'] eqn:F. inversion E; subst.
        apply IH in F; [|lia]. destruct F as [Fd Fn]. split; [|lia].
        rewrite Fd. rewrite <- skipn_skipn.
        replace (n2 - nw)%nat with (ret + (n2 - (nw + ret)))%nat by lia.
        generalize (n2 - (nw + ret))%nat as m. intro m.
        set (o := skipn nw ibuf). assert (Ho : (ret <= length o)%nat) by (unfold o; rewrite skipn_length; lia).
        clearbody o. clear - Ho. revert o Ho. induction ret as [|r IHr]; intros o Ho; [reflexivity|].
        destruct o as [|x o]; [cbn in Ho; lia|]. cbn [firstn skipn app plus]. f_equal. apply IHr. cbn in Ho. lia.
Qed.

(* ------------------------------------------------------------------------------------------ *)
Section PipeR.
Variable rvalid : bytes -> bool.
Variable rfind : bytes -> bytes -> bool -> option (nat * nat).

(* B. the filter as a function of its output bytes: for EVERY output -- given as terminated lines l and an unterminated rest t -- the
   addressed lines are replaced by exactly text_lines l t; the current line number, the registers, the printed output stay; the mark
   rows are the reference's ref_marks_edit *)
Theorem filter_output (filter : bytes -> bytes -> option bytes) loc arg s b e s1 l t :
  xwa s = true -> plain_arg arg = true -> loc <> [] ->
  ex_region rvalid rfind loc s = (false, b, e, s1) -> ex_zero loc b e = false ->
  forallb nonl l = true -> nonl t = true ->
  filter arg (ref_range (texts s) b e) = Some (join_lines l ++ t) ->
  let s' := fst (ec_exec rvalid rfind filter loc arg s) in
  texts s' = splice (Z.to_nat b) (Z.to_nat e) (text_lines l t) (texts s) /\
  xrow s' = xrow s1 /\ regs s' = regs s1 /\ out s' = out s1 /\
  map fst (marks (lb s')) = ref_marks_edit (Some (join_lines l ++ t)) b e (map fst (marks (lb s))) /\
  snd (ec_exec rvalid rfind filter loc arg s) = 0.
Proof.
  intros Hw Hp Hl E Hz Hls Ht Hf.
  pose proof (filter_refines rvalid rfind filter loc arg s b e s1 _ Hw Hp Hl E Hz Hf) as [T X].
  pose proof (region_bounds _ _ _ _ _ _ _ E) as (B1 & B2 & B3). pose proof (region_texts _ _ _ _ _ _ _ _ E) as TT.
  pose proof (region_slen _ _ _ _ _ _ _ _ E) as L.
  cbv zeta in *. rewrite split_text in T by assumption. split; [exact T|]. split; [exact X|].
  unfold ec_exec in *. rewrite Hw, Hp in *. cbn [negb] in *. destruct loc as [|c loc]; [congruence|]. rewrite E, Hz in *. cbn [orb] in *.
  rewrite cp_range in * by lia. fold (texts s1) in *. rewrite TT, Hf in *. cbn [fst snd].
  split; [reflexivity|]. split; [reflexivity|]. split; [|reflexivity].
  unfold edit. cbn [lb set_lb]. rewrite L.
  rewrite marks_edit_abs; [rewrite !Z2Nat.id by lia; reflexivity | lia | unfold slen, llen in B2; rewrite L in B2; lia].
Qed.

(* C. the INPUT: the result of the filter command depends on the external command only through what it answers to ONE input, the
   concatenation of the addressed lines (each with its newline), whatever its size *)
Theorem filter_input_only (f1 f2 : bytes -> bytes -> option bytes) loc arg s :
  xwa s = true ->
  (forall b e s1, ex_region rvalid rfind loc s = (false, b, e, s1) ->
     f1 arg (ref_range (texts s) b e) = f2 arg (ref_range (texts s) b e)) ->
  ec_exec rvalid rfind f1 loc arg s = ec_exec rvalid rfind f2 loc arg s.
Proof.
  intros Hw H. unfold ec_exec. rewrite Hw. destruct (negb (plain_arg arg)); [reflexivity|].
  destruct loc as [|c loc]; [reflexivity|].
  destruct (ex_region rvalid rfind (c :: loc) s) as [[[bad b] e] s1] eqn:E.
  destruct bad; [reflexivity|]. cbn [orb]. destruct (ex_zero (c :: loc) b e); [reflexivity|].
  pose proof (region_bounds _ _ _ _ _ _ _ E) as (B1 & B2 & B3). pose proof (region_texts _ _ _ _ _ _ _ _ E) as TT.
  rewrite cp_range by lia. fold (texts s1). rewrite TT. rewrite (H b e s1 eq_refl). reflexivity.
Qed.

(* D. rx: the register's text is the input, the output bytes are the register's new text (a line-wise store through reg_put: C06_numbered_push
   says what that does to the numbered registers); lines, marks, current line, printed output are untouched *)
Theorem rx_effect (filter : bytes -> bytes -> option bytes) arg s reg cmd text rep :
  ex_reg arg = (reg, cmd) -> reg <> 0%N -> plain_arg cmd = true -> reg_special reg = false ->
  reg_get s reg = Some text -> filter cmd text = Some rep ->
  ec_rx filter arg s = (set_regs s (reg_put (regs s) reg rep), 0).
Proof.
  intros Er Hr Hp Hs Hg Hf. unfold ec_rx. rewrite Er. apply N.eqb_neq in Hr. rewrite Hr, Hp, Hs, Hg, Hf. reflexivity.
Qed.

Theorem rx_input_only (f1 f2 : bytes -> bytes -> option bytes) arg s :
  (forall text, reg_get s (fst (ex_reg arg)) = Some text -> f1 (snd (ex_reg arg)) text = f2 (snd (ex_reg arg)) text) ->
  ec_rx f1 arg s = ec_rx f2 arg s.
Proof.
  intro H. unfold ec_rx. destruct (ex_reg arg) as [reg cmd]. cbn [fst snd] in H.
  destruct (reg =? 0)%N; [reflexivity|]. destruct (negb (plain_arg cmd) || reg_special reg); [reflexivity|].
  destruct (reg_get s reg) as [text|]; [|reflexivity]. rewrite (H text eq_refl). reflexivity.
Qed.

(* ... and a put from that (lower-case) register afterwards adds exactly the lines of the output bytes *)
Theorem rx_then_put (filter : bytes -> bytes -> option bytes) arg s c cmd text l t loc b e s1 :
  ex_reg arg = (c, cmd) -> islower c = true -> plain_arg cmd = true ->
  reg_get s c = Some text -> forallb nonl l = true -> nonl t = true -> filter cmd text = Some (join_lines l ++ t) ->
  let sx := fst (ec_rx filter arg s) in
  ex_region rvalid rfind loc sx = (false, b, e, s1) ->
  let s' := fst (ec_put rvalid rfind loc [c] sx) in
  lb sx = lb s /\ xrow sx = xrow s /\ out sx = out s /\
  (texts s', xrow s') = ref_put (texts s) b e (text_lines l t).
Proof.
  intros Er Hc Hp Hg Hl Ht Hf sx E s'.
  assert (L1 : (97 <=? c)%N = true /\ (c <=? 122)%N = true) by (unfold islower in Hc; apply andb_true_iff in Hc; exact Hc).
  destruct L1 as [La Lz]. apply N.leb_le in La. apply N.leb_le in Lz.
  assert (Hn0 : c <> 0%N) by lia.
  assert (Hsp : reg_special c = false).
  { unfold reg_special. repeat (apply orb_false_iff; split); apply N.eqb_neq; lia. }
  assert (X : ec_rx filter arg s = (set_regs s (reg_put (regs s) c (join_lines l ++ t)), 0)) by (eapply rx_effect; eassumption).
  assert (Sx : sx = set_regs s (reg_put (regs s) c (join_lines l ++ t))) by (unfold sx; rewrite X; reflexivity).
  split; [rewrite Sx; reflexivity|]. split; [rewrite Sx; reflexivity|]. split; [rewrite Sx; reflexivity|].
  assert (Hup : isupper c = false) by (unfold isupper; apply andb_false_iff; right; apply N.leb_gt; lia).
  assert (RG : REG [c] = c).
  { unfold REG. destruct (N.eq_dec c 92) as [->|N92]; [lia|]. destruct c as [|p]; [lia|].
    repeat (destruct p as [p|p|]; try reflexivity; try lia). }
  assert (G : reg_get sx (REG [c]) = Some (join_lines l ++ t)).
  { rewrite RG. unfold reg_get. assert (C34 : (c =? 34)%N = false) by (apply N.eqb_neq; lia). rewrite C34.
    rewrite Sx. cbn [regs set_regs]. pose proof (put_named (regs s) c (join_lines l ++ t)) as P.
    unfold tolower in P. rewrite Hup in P. cbn [app] in P. exact P. }
  pose proof (put_refines rvalid rfind loc [c] sx b e s1 (join_lines l ++ t) E) as P. rewrite RG in P. rewrite RG in G.
  specialize (P Hsp G). cbv zeta in P. fold s' in P. rewrite split_text in P by assumption.
  replace (texts sx) with (texts s) in P by (rewrite Sx; reflexivity). exact P.
Qed.

(* E. r !cmd: the lines of the command's output bytes are added after the addressed line (at the top of an empty buffer), the current
   line becomes the last of them *)
Theorem read_pipe_refines (cmdout : bytes -> option bytes) loc arg s b e s1 c cmd l t :
  ex_region rvalid rfind loc s = (false, b, e, s1) -> tl arg = c :: cmd ->
  forallb nonl l = true -> nonl t = true -> cmdout (c :: cmd) = Some (join_lines l ++ t) ->
  let s' := fst (ec_read_pipe rvalid rfind cmdout loc arg s) in
  (texts s', xrow s') = ref_read (texts s) b e (text_lines l t) /\ out s' = OMsg M_READ :: out s1 /\ regs s' = regs s1 /\
  map fst (marks (lb s')) =
    ref_marks_edit (Some (join_lines l ++ t)) (if slen s =? 0 then 0 else e) (if slen s =? 0 then 0 else e) (map fst (marks (lb s))).
Proof.
  intros E Ha Hl Ht Hr. pose proof (region_bounds _ _ _ _ _ _ _ E) as (B1 & B2 & B3). pose proof (region_texts _ _ _ _ _ _ _ _ E) as T.
  pose proof (region_slen _ _ _ _ _ _ _ _ E) as LB.
  assert (L : slen s1 = slen s) by (unfold slen; rewrite LB; reflexivity).
  unfold ec_read_pipe. rewrite E, Ha, Hr. cbn [andb fst xrow set_xrow emit out regs].
  change (texts (emit ?x ?o)) with (texts x). change (texts (set_xrow ?x ?r)) with (texts x).
  change (lb (emit ?x ?o)) with (lb x). change (lb (set_xrow ?x ?r)) with (lb x).
  rewrite L. set (pos := if slen s =? 0 then 0 else e).
  assert (Hpos : 0 <= pos <= slen s1) by (unfold pos; rewrite L; destruct (slen s =? 0) eqn:Z0; lia).
  assert (TE : texts (edit s1 (@Some bytes (join_lines l ++ t)) pos pos) = splice (Z.to_nat pos) (Z.to_nat pos) (text_lines l t) (texts s)).
  { rewrite texts_edit by lia. rewrite T, split_text by assumption. reflexivity. }
  split; [|split; [reflexivity|split; [reflexivity|]]].
  - rewrite TE. unfold ref_read. rewrite <- slen_texts. fold pos. f_equal.
    assert (Hlen : pos <= Z.of_nat (length (texts s))) by (rewrite <- slen_texts; lia).
    rewrite !slen_texts, TE. rewrite splice_length by lia. lia.
  - unfold edit. cbn [lb set_lb]. rewrite LB.
    rewrite marks_edit_abs; [rewrite !Z2Nat.id by lia; reflexivity | lia | unfold slen, llen in Hpos; rewrite LB in Hpos; lia].
Qed.

(* r file: the same for the bytes of a file (ExProps.read_refines with the lines spelled out) *)
Theorem read_file_lines (readfile : bytes -> option bytes) (curpath : bytes) loc arg s b e s1 l t :
  ex_region rvalid rfind loc s = (false, b, e, s1) ->
  negb (plain_arg arg) || (hd0 arg =? 33)%N = false ->
  forallb nonl l = true -> nonl t = true ->
  readfile (match arg with [] => curpath | _ => arg end) = Some (join_lines l ++ t) ->
  let s' := fst (ec_read rvalid rfind readfile curpath loc arg s) in
  (texts s', xrow s') = ref_read (texts s) b e (text_lines l t) /\ out s' = OMsg M_READ :: out s1.
Proof.
  intros E Hp Hl Ht Hr. pose proof (read_refines rvalid rfind readfile curpath loc arg s b e s1 _ E Hp Hr) as P.
  cbv zeta in *. rewrite split_text in P by assumption. exact P.
Qed.

(* the extended line executor is ExDefs' on every line whose first command is neither rx nor read *)
Theorem command_x_other filter cmdout readfile curpath fuel ln s :
  bytes_eqb (snd (ex_cmd (fst (ex_loc ln)))) RX = false ->
  bytes_eqb (snd (ex_cmd (fst (ex_loc ln)))) RD = false -> bytes_eqb (snd (ex_cmd (fst (ex_loc ln)))) READ = false ->
  ex_command_x rvalid rfind filter cmdout readfile curpath fuel ln s = ex_command rvalid rfind filter readfile curpath fuel ln s.
Proof.
  intros H1 H2 H3. unfold ex_command_x. destruct (ex_loc ln) as [ln1 loc]. cbn [fst] in *.
  destruct (ex_cmd ln1) as [ln2 cmd]. cbn [snd] in *. rewrite H1, H2, H3. reflexivity.
Qed.

End PipeR.

(* non-vacuity (stated in Properties_C06.v) *)
Lemma pipe_nonvacuous :
  split_lines [97; 10; 98; 10; 108; 97; 115; 116]%N = [[97]; [98]; [108; 97; 115; 116]]%N /\
  split_lines [111; 110; 108; 121]%N = [[111; 110; 108; 121]]%N /\ split_lines [] = [] /\ split_lines [97; 10]%N = [[97]]%N /\
  pipe_feed [1; 2; 3; 4; 5]%N 0 [WAcc 3; WAcc 9] = ([1; 2; 3; 4; 5]%N, 5%nat, true) /\
  pipe_feed_noadv [1; 2; 3; 4; 5]%N 0 [WAcc 3; WAcc 9] = ([1; 2; 3; 1; 2]%N, 5%nat, true) /\
  (let s := ex_main_x (fun _ => false) (fun _ _ _ => None) (fun _ _ => Some [88; 43; 89]%N) (fun _ => Some [120; 10; 121]%N)
              (fun _ => None) [102]%N 100 100
              (init_st [76; 49; 10; 76; 50; 10; 76; 51; 10; 76; 52; 10]%N
                 [[50; 44; 51; 121; 32; 97]; [114; 120; 32; 97; 32; 106]; [36; 112; 117; 32; 97]; [49; 114; 32; 33; 99]; [50; 44; 51; 33; 106]]%N true) in
   texts s = [[76; 49]; [88; 43; 89]; [76; 50]; [76; 51]; [76; 52]; [88; 43; 89]]%N /\ flags s = F_EOF /\ xrow s = 2).
Proof. vm_compute. repeat split; reflexivity. Qed.
