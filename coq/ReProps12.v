(* ReProps12.v -- no out-of-bounds result anywhere in matching: the machine keeps the position inside
   the line, so every atom is matched at a position <= |line| (ratom_match_ok), hence neither re_rec
   nor regexec return OOB; with C11_regexec_terminates: regexec always returns a proper answer. *)
From Coq Require Import List Arith Lia Bool ZArith NArith ZifyN ZifyBool ZifyNat.
From NV Require Import Bytes GenConsts ReSyntax ReParse ReEmit ReVM ReSem RsetDefs ReProps ReProps2 ReProps3 ReProps5 ReProps6 ReProps7 ReProps8 ReProps10 ReProps11.
Import ListNotations.

Section NoOob.
Variable flg : Z.
Variable line : bytes.
Variable P : list instr.
Notation loopF := (ReVM.loopF st (atom_step flg line) mark_step P).
Notation rec := (ReVM.rec st (atom_step flg line) mark_step P).

Definition inb (s : st) : Prop := fst s <= length line.
Definition okout (o : out st) : Prop := match o with OobO _ => False | Found _ r => inb r | _ => True end.

Lemma atom_step_inb a s : inb s -> match atom_step flg line a s with Ok (Some s') => inb s' | Ok None => True | _ => False end.
Proof.
  intro H. unfold atom_step. destruct (ratom_match_ok flg line a (fst s) H) as [v E]. rewrite E. cbn [bind].
  destruct v as [q|]; [|exact I]. unfold inb. cbn [fst]. apply (ratom_match_range _ _ _ _ _ H E).
Qed.
Lemma mark_step_inb m s : inb s -> inb (mark_step m s).
Proof. unfold inb, mark_step. destruct (Z.of_nat m <? NGRPS)%Z; auto. Qed.

Lemma loop_okout (call : nat -> st -> out st * N) (Hc : forall pc s, inb s -> okout (fst (call pc s))) :
  forall k pc s, inb s -> okout (fst (loopF call k pc s)).
Proof.
  induction k as [|k IH]; intros pc s Hs; cbn [ReVM.loopF]; [exact I|].
  destruct (ReVM.fetch P pc).
  - pose proof (atom_step_inb a s Hs) as A. destruct (atom_step flg line a s) as [[s1|]| |]; try contradiction; [apply IH; exact A | exact I].
  - apply IH. apply mark_step_inb. exact Hs.
  - apply IH. exact Hs.
  - pose proof (Hc a1 s Hs) as H1. destruct (call a1 s) as [[cs r| | |w] c]; cbn [fst] in *; try exact H1.
    pose proof (IH a2 s Hs) as H2. destruct (loopF call k a2 s) as [[cs r| | |w] c']; cbn [fst] in *; exact H2.
  - exact Hs.
Qed.

Lemma rec_okout : forall d pc s, inb s -> okout (fst (rec d pc s)).
Proof. induction d as [|d IH]; intros pc s Hs; cbn [ReVM.rec]; [exact I|]. apply loop_okout; assumption. Qed.

Lemma re_loop_no_oob d : forall k o s, o <= length line -> s <= length line -> forall w, fst (re_loop d P flg line k o s) <> OOB w.
Proof.
  induction k as [|k IH]; intros o s Ho Hs w; cbn [re_loop]; [cbn; discriminate|].
  destruct (rdk_in SUcLen line o Ho) as [co Ro]. rewrite Ro. destruct (co =? 0)%N; [cbn; discriminate|].
  destruct (rdk_in SUcLen line s Hs) as [cs Rs]. rewrite Rs. unfold re_recmatch.
  pose proof (rec_okout d 0 (s, repeat (-1)%Z nmarks) Hs) as K.
  destruct (ReVM.rec st (atom_step flg line) mark_step P d 0 (s, repeat (-1)%Z nmarks)) as [[cs1 r1| | |w1] c1]; cbn [fst okout] in *; try (cbn; discriminate); try contradiction.
  assert (Hs' : s + re_uclen_at line s <= length line) by (pose proof (uclen_at_le line s); lia).
  specialize (IH s (s + re_uclen_at line s) Hs Hs' w).
  destruct (re_loop d P flg line k s (s + re_uclen_at line s)) as [x c']. cbn [fst] in *. exact IH.
Qed.
End NoOob.

(* regexec on any accepted pattern and any NUL-free line returns a proper answer: a match with its
   offsets or "no match" -- never the out-of-bounds result, never out of fuel *)
Theorem regexec_total pat p cflg line nsub eflg d : regcomp pat = Ok (Some p) -> nz line ->
  exists x, fst (regexec_d d p cflg line nsub eflg) = Ok x.
Proof.
  intros Hc Hz. pose proof (regexec_terminates pat p cflg line nsub eflg d Hc Hz) as T.
  unfold regexec_d in *.
  pose proof (re_loop_no_oob (Z.lor cflg eflg) line (code p) d (length line + 2) 0 0 ltac:(lia) ltac:(lia)) as O.
  destruct (re_loop d (code p) (Z.lor cflg eflg) line (length line + 2) 0 0) as [[[r|]| |] c]; cbn [fst] in *; eauto.
  - exfalso. eapply O; reflexivity.
  - congruence.
Qed.
