(* InputQueue.v -- C09: the input side of the editor as term.c / vi.c implement it (definitions only).
   Keys are of an arbitrary type K (bytes for the theorems' reading, command tokens in the
   correspondence driver).  term.c: ibuf (pushed-back keys, read first), the terminal input, icmd (keys
   read since the last term_cmd()); vi.c: rep_cmd, the tail of vi(), vc_repeat, vc_execute.
   term_push mirrors /repo after the fix: commits d3797a0 and 098bcee: the pushed keys are placed in
   FRONT of the unread ones; the already-read part of ibuf (`used` = ibuf_pos) is reclaimed only when
   the queue has drained and term_read reads from the terminal again.  The old behaviour (append at
   the end) is kept as term_push_append for the refutation theorem. *)
From Coq Require Import List NArith ZArith Bool Arith.
From NV Require Import GenConsts.
Import ListNotations.
Local Open Scope nat_scope.

Definition IBUF : nat := Z.to_nat IBUFSZ.      (* sizeof(ibuf) *)
Definition ICMD : nat := Z.to_nat ICMDSZ.      (* sizeof(icmd) *)
Definition REPSZ : nat := Z.to_nat REPCMDSZ.   (* sizeof(rep_cmd), vi.c *)

Section Queue.
Variable K : Type.

(* ibuf = the unread part ibuf[ibuf_pos .. ibuf_cnt); tin = what the terminal will still deliver *)
Record tq := { used : nat; ibuf : list K; tin : list K; icmd : list K }.   (* used = ibuf_pos *)

Definition stream (q : tq) : list K := ibuf q ++ tin q.

(* term_read: from ibuf if it holds unread keys, else one key from the terminal; None = end of input *)
Definition term_read (q : tq) : option (K * tq) :=
  let rec_ (c : K) := if length (icmd q) <? ICMD then icmd q ++ [c] else icmd q in
  match ibuf q with
  | c :: r => Some (c, {| used := S (used q); ibuf := r; tin := tin q; icmd := rec_ c |})
  | [] => match tin q with
          | c :: r => Some (c, {| used := 1; ibuf := []; tin := r; icmd := rec_ c |})   (* ibuf_cnt = 1, ibuf_pos = 1 *)
          | [] => None
          end
  end.

(* term_cmd: hand out the record and start a new one *)
Definition term_cmd (q : tq) : list K * tq := (icmd q, {| used := used q; ibuf := ibuf q; tin := tin q; icmd := [] |}).

(* ibuf_cnt *)
Definition filled (q : tq) : nat := used q + length (ibuf q).
(* term_push (repaired): clipped to sizeof(ibuf) - ibuf_cnt, placed before the unread keys *)
Definition term_push (q : tq) (s : list K) : tq :=
  let n := Nat.min (length s) (IBUF - filled q) in
  {| used := used q; ibuf := firstn n s ++ ibuf q; tin := tin q; icmd := icmd q |}.
(* term_push before the repair: appended behind the unread keys *)
Definition term_push_append (q : tq) (s : list K) : tq :=
  let n := Nat.min (length s) (IBUF - filled q) in
  {| used := used q; ibuf := ibuf q ++ firstn n s; tin := tin q; icmd := icmd q |}.

Fixpoint push_n (n : nat) (q : tq) (s : list K) : tq :=
  match n with O => q | S m => push_n m (term_push q s) s end.

(* k reads in a row *)
Fixpoint read_n (k : nat) (q : tq) : tq :=
  match k with
  | O => q
  | S m => match term_read q with Some (_, q1) => read_n m q1 | None => q end
  end.

(* what a command asks of the input side when it returns *)
Inductive act := ANone | AChange | ADot (n : nat) | APush (buf : list K) (n : nat).

Section Vi.
Variable E : Type.                                        (* everything else: buffers, cursor, registers *)
(* the command interpreter: obtains keys only by reading a prefix of the stream; returns the new
   editor state, how many keys it read (prefix + command + arguments) and its request *)
Variable exec : E -> list K -> E * nat * act.

Record st := { q : tq; rep : list K; ed : E }.

(* one iteration of the loop of vi(): term_cmd; prefix, command and arguments are read; then the tail *)
Definition step (s : st) : st :=
  let '(e1, k, a) := exec (ed s) (stream (q s)) in
  let q1 := read_n k (snd (term_cmd (q s))) in
  match a with
  | ANone => {| q := q1; rep := rep s; ed := e1 |}
  | AChange =>
      let cmd := icmd q1 in                               (* cmd = term_cmd(&n) after the command *)
      {| q := q1; rep := if S (length cmd) <? REPSZ then cmd else rep s; ed := e1 |}
  | ADot n => {| q := push_n (Nat.max 1 n) q1 (rep s); rep := rep s; ed := e1 |}
  | APush b n => {| q := push_n (Nat.max 1 n) q1 b; rep := rep s; ed := e1 |}
  end.

(* no push of this step is clipped *)
Definition fits (s : st) : bool :=
  let '(_, k, a) := exec (ed s) (stream (q s)) in
  let room := IBUF - filled (read_n k (snd (term_cmd (q s)))) in
  match a with
  | ADot n => Nat.max 1 n * length (rep s) <=? room
  | APush b n => Nat.max 1 n * length b <=? room
  | _ => true
  end.

(* run until the input is used up; None = a push was clipped (outside the property's quantifier)
   or out of fuel *)
Fixpoint run (fuel : nat) (s : st) : option E :=
  match stream (q s) with
  | [] => Some (ed s)
  | _ => match fuel with
         | O => None
         | S f => if fits s then run f (step s) else None
         end
  end.
End Vi.
End Queue.

Arguments used {K}. Arguments filled {K}. Arguments ibuf {K}. Arguments tin {K}. Arguments icmd {K}. Arguments stream {K}. Arguments term_read {K}.
Arguments term_cmd {K}. Arguments term_push {K}. Arguments term_push_append {K}. Arguments push_n {K}.
Arguments read_n {K}. Arguments ANone {K}. Arguments AChange {K}. Arguments ADot {K}. Arguments APush {K}.
Arguments q {K E}. Arguments rep {K E}. Arguments ed {K E}. Arguments step {K E}. Arguments fits {K E}. Arguments run {K E}.
Arguments Build_tq {K}. Arguments Build_st {K E}.

(* ---------------------------------------------------------------------------------------------- *)
(* the instance of the correspondence driver: keys are command tokens as the generator of
   tools/props/c09.py emits them; the "editor state" collects the commands that reach the interpreter *)
Inductive tok :=
| TChange (keys : list N)            (* a change command with prefix and arguments *)
| TKeys (keys : list N)              (* motions, ex commands, anything not repeatable *)
| TDot (n : nat)                     (* N. *)
| TExec (n : nat) (r : N).           (* N@r ; r = 64 is @@ *)

Record ted := { seen : list N; lastreg : option N }.

Definition tok_exec (macros : N -> option (list tok)) (e : ted) (s : list tok) : ted * nat * act tok :=
  match s with
  | [] => (e, 0, ANone)
  | TChange k :: _ => ({| seen := seen e ++ k; lastreg := lastreg e |}, 1, AChange)
  | TKeys k :: _ => ({| seen := seen e ++ k; lastreg := lastreg e |}, 1, ANone)
  | TDot n :: _ => (e, 1, ADot n)
  | TExec n r :: _ =>
      let r' := if (r =? 64)%N then lastreg e else Some r in
      match r' with
      | None => (e, 1, ANone)
      | Some x => match macros x with
                  | Some b => ({| seen := seen e; lastreg := Some x |}, 1, APush b n)
                  | None => (e, 1, ANone)
                  end
      end
  end.

Definition tok_run (fuel : nat) (macros : N -> option (list tok)) (prog : list tok) : option (list N) :=
  match run (tok_exec macros) fuel
            {| q := {| used := 0; ibuf := []; tin := prog; icmd := [] |}; rep := []; ed := {| seen := []; lastreg := None |} |} with
  | Some e => Some (seen e)
  | None => None
  end.

(* capacity instance on bytes: how many of n pushes of a one-key command fit after the keys `N.` were
   read from the terminal (the last terminal read leaves ibuf_cnt = ibuf_pos = 1) *)
Definition capacity_pushes (n : nat) : nat :=
  length (ibuf (push_n n {| used := 1; ibuf := []; tin := []; icmd := [] |} [120%N])).
