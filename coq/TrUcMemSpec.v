(* TrUcMemSpec.v -- the "edits keep text valid UTF-8" half of C16 stated about the C TEXT: the translation theorems of
   TrUcMem.v composed with the code-point theorems of UcSegProps.v.  vi's operators cut lines with uc_sub and join the
   pieces with uc_cat (vi.c lbuf_region, vi_delete, vi_change, vc_put, vc_replace ...): for a line that is the UTF-8
   encoding of ANY list of scalar values, the translated uc_sub returns a fresh block that holds exactly the encodings of
   the characters beg .. end-1 (a negative offset = the end of the line, as the callers write -1), the translated uc_cat
   the encoding of the concatenated lists; uc_trim (fix a04410e) applied to what snprintf left of such a line in a fixed
   array leaves the encoding of a prefix of the list. *)
From Coq Require Import List ZArith NArith Bool Lia.
From NV Require Import Bytes UcDefs UcSpec UcProps UcSegProps CLite CLiteProps GenCFuncs CLiteTac TrUcCode TrUc TrUcMem.
Import ListNotations.
Local Open Scope Z_scope.

(* the character index an int offset stands for in a line of n characters: negative = the end (uc_chr returns the terminator) *)
Definition eff (n : nat) (z : Z) : nat := if z <? 0 then n else Z.to_nat z.

Lemma off_of_all cs : off_of cs (length cs) = length (chars cs).
Proof. unfold off_of. rewrite firstn_all. reflexivity. Qed.
Lemma uc_chr_eff cs z : Forall scalar cs -> (eff (length cs) z <= length cs)%nat ->
  uc_chr (chars cs) z = Some (off_of cs (eff (length cs) z)).
Proof.
  intros H Hk. unfold eff in *. destruct (Z.ltb_spec z 0).
  - rewrite uc_chr_neg by (try apply chars_nonul; assumption). rewrite off_of_all. reflexivity.
  - rewrite <- (Z2Nat.id z) at 1 by lia. apply uc_chr_chars; assumption.
Qed.
Lemma off_of_diff cs a b : (a <= b)%nat -> (off_of cs b - off_of cs a)%nat = off_of (skipn a cs) (b - a).
Proof.
  intro H. unfold off_of. rewrite <- (firstn_skipn a (firstn b cs)). rewrite firstn_firstn.
  replace (Nat.min a b) with a by lia. rewrite chars_app, app_length. rewrite skipn_firstn_comm. lia.
Qed.

(* the model: for every pair of int offsets that resolve (negative, or at most the number of characters) *)
Theorem uc_sub_chars_eff cs beg en : Forall scalar cs ->
  let kb := eff (length cs) beg in let ke := eff (length cs) en in
  (kb <= length cs)%nat -> (ke <= length cs)%nat ->
  UcDefs.uc_sub (chars cs) beg en = Some (chars (firstn (ke - kb) (skipn kb cs))).
Proof.
  intros H kb ke Hb He. unfold UcDefs.uc_sub. rewrite !uc_chr_eff by assumption. fold kb ke. f_equal.
  destruct (Nat.leb_spec (off_of cs kb) (off_of cs ke)) as [L|L].
  - destruct (Nat.le_gt_cases kb ke) as [Hle|Hgt].
    + rewrite skipn_off_of, off_of_diff by exact Hle. apply firstn_off_of.
    + pose proof (off_of_mono cs ke kb ltac:(lia)). replace (off_of cs ke - off_of cs kb)%nat with 0%nat by lia.
      replace (ke - kb)%nat with 0%nat by lia. reflexivity.
  - destruct (Nat.le_gt_cases kb ke) as [Hle|Hgt]; [pose proof (off_of_mono cs kb ke Hle); lia|].
    replace (ke - kb)%nat with 0%nat by lia. reflexivity.
Qed.

(* uc_sub on the C text, valid input *)
Theorem ctext_uc_sub m b cs beg en d fuel :
  Forall scalar cs -> str_at m b (chars cs) -> (length (chars cs) < fuel)%nat -> Z.of_nat (length (chars cs)) < 2147483647 ->
  let kb := eff (length cs) beg in let ke := eff (length cs) en in
  (kb <= length cs)%nat -> (ke <= length cs)%nat ->
  let r := firstn (ke - kb) (skipn kb cs) in
  callf cprog fuel (S (S (S (S d)))) F_uc_sub [VPtr b 0; VInt beg; VInt en] m
  = Ok (VPtr (length m) 0, m ++ [cstr_block (zb (chars r))])
  /\ Forall scalar r /\ valid (chars r) /\ uc_slen (chars r) = (ke - kb)%nat.
Proof.
  intros Hcs Hs Hf Hmax kb ke Hb He r.
  assert (Hr : Forall scalar r) by (apply Forall_firstn', Forall_skipn'; exact Hcs).
  split; [|split; [exact Hr|split; [exists r; split; [exact Hr|reflexivity]|]]].
  - change (VPtr b 0) with (VPtr b (Z.of_nat 0)).
    apply (tr_uc_sub m b (chars cs) 0 beg en (chars r) d fuel Hs (chars_nonul cs Hcs)); try lia.
    cbn [skipn]. apply uc_sub_chars_eff; assumption.
  - rewrite (uc_slen_chars r Hr). unfold r. rewrite firstn_length, skipn_length. lia.
Qed.

(* an offset beyond the last character does NOT clamp: with the other one inside the line the C text compares pointers to
   two different objects (the line and the static "") -- undefined; the checked semantics stops *)
Theorem ctext_uc_sub_beyond m b cs beg en d fuel :
  Forall scalar cs -> str_at m b (chars cs) -> (length (chars cs) < fuel)%nat -> Z.of_nat (length (chars cs)) < 2147483647 ->
  b <> G_lit__0 ->
  (Z.of_nat (length cs) < beg <-> en <= Z.of_nat (length cs)) ->
  callf cprog fuel (S (S (S (S d)))) F_uc_sub [VPtr b 0; VInt beg; VInt en] m = Err EType.
Proof.
  intros Hcs Hs Hf Hmax Hb Hx. change (VPtr b 0) with (VPtr b (Z.of_nat 0)).
  apply (tr_uc_sub_undef m b (chars cs) 0 beg en d fuel Hs (chars_nonul cs Hcs)); try lia; try exact Hb.
  cbn [skipn]. pose proof (chars_nonul cs Hcs) as Hn.
  rewrite (uc_chr_none _ beg Hn). rewrite (uc_slen_chars cs Hcs).
  split.
  - intros L E. apply (uc_chr_none _ en Hn) in E. rewrite (uc_slen_chars cs Hcs) in E. lia.
  - intro E. destruct (Z_lt_ge_dec (Z.of_nat (length cs)) beg) as [L|L]; [exact L|].
    exfalso. apply E. apply (uc_chr_none _ en Hn). rewrite (uc_slen_chars cs Hcs). lia.
Qed.

(* uc_cat on the C text, valid input: the encoding of the concatenated character lists *)
Theorem ctext_uc_cat m b1 cs1 b2 cs2 d fuel :
  Forall scalar cs1 -> Forall scalar cs2 -> str_at m b1 (chars cs1) -> str_at m b2 (chars cs2) ->
  Z.of_nat (length (chars cs1)) + Z.of_nat (length (chars cs2)) + 1 <= 2147483647 ->
  callf cprog fuel (S d) F_uc_cat [VPtr b1 0; VPtr b2 0] m
  = Ok (VPtr (length m) 0, m ++ [cstr_block (zb (chars (cs1 ++ cs2)))])
  /\ valid (chars (cs1 ++ cs2)) /\ uc_slen (chars (cs1 ++ cs2)) = (length cs1 + length cs2)%nat.
Proof.
  intros H1 H2 S1 S2 Hmax.
  assert (H12 : Forall scalar (cs1 ++ cs2)) by (apply Forall_app; split; assumption).
  split; [|split; [exists (cs1 ++ cs2); split; [exact H12|reflexivity]|rewrite (uc_slen_chars _ H12); apply app_length]].
  change (VPtr b1 0) with (VPtr b1 (Z.of_nat 0)). change (VPtr b2 0) with (VPtr b2 (Z.of_nat 0)).
  rewrite (tr_uc_cat m b1 (chars cs1) 0 b2 (chars cs2) 0 d fuel S1 (chars_nonul _ H1) ltac:(lia) S2 (chars_nonul _ H2) ltac:(lia))
    by (rewrite !Nat.sub_0_r; lia).
  cbn [skipn]. rewrite chars_app. reflexivity.
Qed.

(* ---- uc_trim *)
Lemma whole_chars cs : Forall scalar cs -> whole (chars cs).
Proof.
  induction 1 as [|c cs Hc Hcs IH]; [constructor|].
  rewrite chars_cons. destruct (uc_len_code_encode c (chars cs) Hc) as [El _].
  pose proof (encode_nonempty c Hc) as Hne.
  apply whole_cons.
  - intro E. apply (f_equal (@length N)) in E. rewrite app_length in E. cbn [length] in E. lia.
  - rewrite El, app_length. lia.
  - rewrite El, skipn_app_exact. exact IH.
Qed.

(* a valid line in a fixed array is left alone *)
Theorem ctext_uc_trim_valid (m : mem) b cs rest d fuel :
  Forall scalar cs -> nth_error m b = Some (cstr_block (zb (chars cs)) ++ rest) -> (length (chars cs) < fuel)%nat ->
  Z.of_nat (length (chars cs)) + 4 <= 2147483647 ->
  callf cprog fuel (S (S d)) F_uc_trim [VPtr b 0] m = Ok (VUndef, m).
Proof.
  intros Hcs Hb Hf Hmax. exact (tr_uc_trim_whole m b (chars cs) rest d fuel Hb (chars_nonul cs Hcs) (whole_chars cs Hcs) Hf Hmax).
Qed.

(* what snprintf(buf, k + 1, "%s", line) leaves of a valid line is its first k bytes; uc_trim cuts that back to the encoding
   of the first j characters, j the largest number of whole characters that fit into k bytes *)
Lemma firstn_app_le {A} (a b : list A) k : (k <= length a)%nat -> firstn k (a ++ b) = firstn k a.
Proof. intro H. rewrite firstn_app. replace (k - length a)%nat with 0%nat by lia. cbn [firstn]. apply app_nil_r. Qed.
Lemma firstn_app_ge {A} (a b : list A) k : (length a <= k)%nat -> firstn k (a ++ b) = a ++ firstn (k - length a) b.
Proof. intro H. rewrite firstn_app. rewrite firstn_all2 by exact H. reflexivity. Qed.

Lemma trim_cut cs : Forall scalar cs -> forall k fuel i, (length (firstn k (chars cs)) <= fuel)%nat ->
  exists j, (j <= length cs)%nat /\ (off_of cs j <= k)%nat /\
            trim_idx_f fuel (firstn k (chars cs)) i = (i + off_of cs j)%nat /\
            (j = length cs \/ (k < off_of cs (S j))%nat).
Proof.
  induction 1 as [|c cs Hc Hcs IH]; intros k fuel i Hfu.
  { exists 0%nat. rewrite firstn_nil. destruct fuel; cbn; repeat split; try lia; left; reflexivity. }
  pose proof (encode_nonempty c Hc) as Hne.
  destruct (uc_len_code_encode c (chars cs) Hc) as [El _].
  rewrite chars_cons in *.
  destruct (Nat.le_gt_cases (length (encode c)) k) as [Hfit|Hcut].
  - rewrite firstn_app_ge in * by exact Hfit. rewrite app_length in Hfu.
    destruct fuel as [|fuel]; [lia|].
    assert (Hnn : encode c ++ firstn (k - length (encode c)) (chars cs) <> []).
    { intro E. apply (f_equal (@length N)) in E. rewrite app_length in E. cbn [length] in E. lia. }
    rewrite trim_idx_f_step by exact Hnn.
    assert (Hul : uc_len (encode c ++ firstn (k - length (encode c)) (chars cs)) = length (encode c)).
    { rewrite <- El. unfold uc_len. destruct (encode c); [cbn in Hne; lia|reflexivity]. }
    rewrite Hul, app_length. destruct (Nat.leb_spec (length (encode c)) (length (encode c) + length (firstn (k - length (encode c)) (chars cs)))); [|lia].
    rewrite skipn_app_exact.
    destruct (IH (k - length (encode c))%nat fuel (i + length (encode c))%nat ltac:(lia)) as (j & Hj & Ho & E & Stop).
    exists (S j). rewrite !off_of_S. cbn [length]. repeat split; try lia.
  - exists 0%nat. rewrite off_of_0. cbn [length]. split; [lia|]. split; [lia|]. split.
    + rewrite firstn_app_le by lia. rewrite Nat.add_0_r.
      destruct fuel as [|fuel]; [reflexivity|].
      destruct (firstn k (encode c)) as [|x r] eqn:Ef; [reflexivity|].
      rewrite trim_idx_f_step by discriminate.
      assert (Hul : uc_len (x :: r) = length (encode c)).
      { rewrite <- El. unfold uc_len. destruct (encode c) as [|y e]; [cbn in Hne; lia|].
        destruct k; [discriminate|]. cbn [firstn] in Ef. injection Ef as <- _. reflexivity. }
      rewrite Hul. rewrite <- Ef, firstn_length.
      destruct (Nat.leb_spec (length (encode c)) (Nat.min k (length (encode c)))); [lia|reflexivity].
    + right. rewrite off_of_S, off_of_0. lia.
Qed.

Theorem uc_trim_cut cs k : Forall scalar cs ->
  exists j, (j <= length cs)%nat /\ (off_of cs j <= k)%nat /\ (j = length cs \/ (k < off_of cs (S j))%nat) /\
            uc_trim (firstn k (chars cs)) = chars (firstn j cs).
Proof.
  intro Hcs. unfold uc_trim, trim_idx.
  destruct (trim_cut cs Hcs k (length (firstn k (chars cs))) 0 (le_n _)) as (j & Hj & Ho & E & Stop).
  exists j. repeat split; try assumption. rewrite E. cbn [Nat.add].
  rewrite firstn_firstn. replace (Nat.min (off_of cs j) k) with (off_of cs j) by lia. apply firstn_off_of.
Qed.

(* the C text on the cut line: the array then holds a valid string, the encoding of the first j characters *)
Theorem ctext_uc_trim_cut (m : mem) b cs k rest d fuel :
  Forall scalar cs -> nth_error m b = Some (cstr_block (zb (firstn k (chars cs))) ++ rest) -> (k < fuel)%nat ->
  Z.of_nat k + 4 <= 2147483647 ->
  exists j rest', (j <= length cs)%nat /\ (off_of cs j <= k)%nat /\ (j = length cs \/ (k < off_of cs (S j))%nat) /\
    callf cprog fuel (S (S d)) F_uc_trim [VPtr b 0] m
    = Ok (VUndef, upd m b (cstr_block (zb (chars (firstn j cs))) ++ rest'))
    /\ length (cstr_block (zb (chars (firstn j cs))) ++ rest') = length (cstr_block (zb (firstn k (chars cs))) ++ rest)
    /\ valid (chars (firstn j cs)).
Proof.
  intros Hcs Hb Hf Hmax. destruct (uc_trim_cut cs k Hcs) as (j & Hj & Ho & Stop & E).
  set (s := firstn k (chars cs)) in *.
  assert (Ls : (length s <= k)%nat) by (unfold s; rewrite firstn_length; lia).
  assert (Hn : nonul s) by (apply Forall_firstn', chars_nonul; exact Hcs).
  exists j, (skipn (S (trim_idx s)) (cstr_block (zb s) ++ rest)). repeat split; try assumption.
  - rewrite (tr_uc_trim m b s rest d fuel Hb Hn) by lia. rewrite E. reflexivity.
  - pose proof (trim_idx_le s) as Hi. rewrite <- E. unfold uc_trim.
    rewrite !app_length, !cstr_block_len, skipn_length, app_length, cstr_block_len, firstn_length. lia.
  - exists (firstn j cs). split; [apply Forall_firstn'; exact Hcs|reflexivity].
Qed.
