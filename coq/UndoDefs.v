(* UndoDefs.v -- executable model of the edit log of /repo/lbuf.c (lbuf_opt, lbuf_replace, lbuf_edit,
   lbuf_undo, lbuf_redo, lbuf_seq, lbuf_modified, lbuf_saved, lbuf_unsaved) and the executable
   specifications of C04: the undo stack keyed by command number (UndoSpec) and the
   one-entry-per-command stack (CmdSpec).  No proofs here (UndoProps.v).

   Conventions: a C string is a list of bytes (N), NULL is None; the line table `ln[]` is a list
   of lines, each line a byte list ending in '\n'; C ints that count lines are nat (the callers
   never pass negative values; beg <= end is the callers' duty, the model truncates end - beg at
   0); sequence numbers are Z (lbuf_unsaved stores -1).  Marks, the global-command marks and the
   cursor offsets saved in a log entry are not modelled (no property of C04/C02 reads them). *)
From Coq Require Import List Arith NArith ZArith Bool.
From NV Require Import GenConsts.
Import ListNotations.

Definition line := list N.
Definition text := list line.
Definition NL : N := 10%N.

(* what the insertion loop of lbuf_replace stores for the string s: one entry per line of s, each
   terminated by '\n' (a missing final newline is supplied) *)
Fixpoint lines_of (s : list N) : text :=
  match s with
  | [] => []
  | c :: s' =>
      if N.eqb c NL then [NL] :: lines_of s'
      else match lines_of s' with
           | [] => [[c; NL]]
           | l :: r => (c :: l) :: r
           end
  end.
Definition lines_opt (s : option (list N)) : text :=
  match s with None => [] | Some b => lines_of b end.
(* linecount() *)
Definition linecount (s : option (list N)) : nat := length (lines_opt s).

Fixpoint line_wfb (l : line) : bool :=
  match l with
  | [] => false
  | c :: l' => match l' with [] => N.eqb c NL | _ => negb (N.eqb c NL) && line_wfb l' end
  end.
Definition line_wf (l : line) : Prop := line_wfb l = true.

Definition slice {A} (t : list A) (p n : nat) : list A := firstn n (skipn p t).
Definition replace {A} (new : list A) (p nd : nat) (t : list A) : list A :=
  firstn p t ++ new ++ skipn (p + nd) t.

(* struct lopt / struct lbuf *)
Record lopt := { pos : nat; n_ins : nat; n_del : nat; del : option (list N); ins : option (list N); seq : Z }.
Record lbuf := { ln : text; hist : list lopt; hist_u : nat; hist_sz : nat;
                 useq : Z; useq_zero : Z; useq_last : Z }.
(* hist_n = length (hist lb) *)

Definition dflt : lopt := {| pos := 0; n_ins := 0; n_del := 0; del := None; ins := None; seq := 0 |}.
Definition seq_at (h : list lopt) (i : nat) : Z := seq (nth i h dflt).

(* lbuf_make *)
Definition lbuf_make : lbuf :=
  {| ln := []; hist := []; hist_u := 0; hist_sz := 0; useq := 1; useq_zero := 0; useq_last := 0 |}.
(* a buffer right after a file was read into it and lbuf_saved(lb, 1) ran with counter u0 - 1 *)
Definition lbuf_loaded (t0 : text) (u0 : Z) : lbuf :=
  {| ln := t0; hist := []; hist_u := 0; hist_sz := 0; useq := u0; useq_zero := u0 - 1; useq_last := u0 - 1 |}.

(* lbuf_cp: lines beg..end-1 concatenated (the `i < ln_n` guard is the truncation of firstn) *)
Definition lbuf_cp (lb : lbuf) (b e : nat) : list N := concat (slice (ln lb) b (e - b)).

Definition set_ln (lb : lbuf) (t : text) : lbuf :=
  {| ln := t; hist := hist lb; hist_u := hist_u lb; hist_sz := hist_sz lb;
     useq := useq lb; useq_zero := useq_zero lb; useq_last := useq_last lb |}.

(* lbuf_replace: the line table only (capacities of ln[] belong to C05) *)
Definition lbuf_replace (lb : lbuf) (s : option (list N)) (p nd : nat) : lbuf :=
  set_ln lb (replace (lines_opt s) p nd (ln lb)).

(* lbuf_opt: drop the entries above the undo cursor, grow, append *)
Definition lbuf_opt (lb : lbuf) (buf : option (list N)) (p nd : nat) : lbuf :=
  let h1 := firstn (hist_u lb) (hist lb) in              (* hist_n = hist_u *)
  let sz := if Nat.eqb (hist_u lb) (hist_sz lb)
            then hist_sz lb + (if Nat.eqb (hist_sz lb) 0 then Z.to_nat HIST_INIT else hist_sz lb)
            else hist_sz lb in
  let lo := {| pos := p; n_del := nd;
               del := if Nat.eqb nd 0 then None else Some (lbuf_cp lb p (p + nd));
               n_ins := linecount buf; ins := buf; seq := useq lb |} in
  {| ln := ln lb; hist := h1 ++ [lo]; hist_u := S (hist_u lb); hist_sz := sz;
     useq := useq lb; useq_zero := useq_zero lb; useq_last := useq_last lb |}.

Definition is_none {A} (o : option A) : bool := match o with None => true | Some _ => false end.

(* lbuf_edit: clamp, return early for an empty change, log, splice *)
Definition lbuf_edit (lb : lbuf) (buf : option (list N)) (b e : nat) : lbuf :=
  let b' := Nat.min b (length (ln lb)) in
  let e' := Nat.min e (length (ln lb)) in
  if Nat.eqb b' e' && is_none buf then lb
  else lbuf_replace (lbuf_opt lb buf b' (e' - b')) buf b' (e' - b').

Definition set_hu (lb : lbuf) (u : nat) : lbuf :=
  {| ln := ln lb; hist := hist lb; hist_u := u; hist_sz := hist_sz lb;
     useq := useq lb; useq_zero := useq_zero lb; useq_last := useq_last lb |}.

(* one iteration of the loop of lbuf_undo / lbuf_redo *)
Definition undo1 (lb : lbuf) : lbuf :=
  let lo := nth (hist_u lb - 1) (hist lb) dflt in
  lbuf_replace (set_hu lb (hist_u lb - 1)) (del lo) (pos lo) (n_ins lo).
Definition redo1 (lb : lbuf) : lbuf :=
  let lo := nth (hist_u lb) (hist lb) dflt in
  lbuf_replace (set_hu lb (S (hist_u lb))) (ins lo) (pos lo) (n_del lo).

(* the loops; the fuel is the distance to the end of the log in the direction of travel, which
   every iteration decreases by one, so running out of fuel coincides with the loop condition
   being false (undo_loop_spec / redo_loop_spec characterise the result without fuel) *)
Fixpoint undo_loop (fuel : nat) (q : Z) (lb : lbuf) : lbuf :=
  match fuel with
  | O => lb
  | S f => if Nat.ltb 0 (hist_u lb) && Z.eqb (seq_at (hist lb) (hist_u lb - 1)) q
           then undo_loop f q (undo1 lb) else lb
  end.
Definition lbuf_undo (lb : lbuf) : option lbuf :=
  if Nat.eqb (hist_u lb) 0 then None
  else Some (undo_loop (hist_u lb) (seq_at (hist lb) (hist_u lb - 1)) lb).

Fixpoint redo_loop (fuel : nat) (q : Z) (lb : lbuf) : lbuf :=
  match fuel with
  | O => lb
  | S f => if Nat.ltb (hist_u lb) (length (hist lb)) && Z.eqb (seq_at (hist lb) (hist_u lb)) q
           then redo_loop f q (redo1 lb) else lb
  end.
Definition lbuf_redo (lb : lbuf) : option lbuf :=
  if Nat.eqb (hist_u lb) (length (hist lb)) then None
  else Some (redo_loop (length (hist lb) - hist_u lb) (seq_at (hist lb) (hist_u lb)) lb).

(* lbuf_seq, lbuf_modified (bumps the counter, then tests), lbuf_saved, lbuf_unsaved *)
Definition lbuf_seq (lb : lbuf) : Z :=
  match hist_u lb with O => useq_last lb | S u => seq_at (hist lb) u end.
Definition bump (lb : lbuf) : lbuf :=
  {| ln := ln lb; hist := hist lb; hist_u := hist_u lb; hist_sz := hist_sz lb;
     useq := useq lb + 1; useq_zero := useq_zero lb; useq_last := useq_last lb |}.
Definition modified_flag (lb : lbuf) : bool := negb (Z.eqb (lbuf_seq lb) (useq_zero lb)).
Definition lbuf_modified (lb : lbuf) : lbuf * bool := (bump lb, modified_flag lb).
Definition set_zero (lb : lbuf) (z : Z) : lbuf :=
  {| ln := ln lb; hist := hist lb; hist_u := hist_u lb; hist_sz := hist_sz lb;
     useq := useq lb; useq_zero := z; useq_last := useq_last lb |}.
Definition clear_hist (lb : lbuf) : lbuf :=
  {| ln := ln lb; hist := []; hist_u := 0; hist_sz := hist_sz lb;
     useq := useq lb; useq_zero := useq_zero lb; useq_last := useq lb |}.
(* lbuf_saved(lb, clear) with xb == lb (every caller passes xb) *)
Definition lbuf_saved (lb : lbuf) (clear : bool) : lbuf :=
  let lb1 := if clear then clear_hist lb else lb in
  bump (set_zero lb1 (lbuf_seq lb1)).
Definition lbuf_unsaved (lb : lbuf) : lbuf := set_zero lb (-1).

(* ------------------------------------------------------------------------------------------ *)
(* operations at the line-buffer interface and their traces *)
Inductive op :=
| Edit (buf : option (list N)) (b e : nat)
| Bump            (* lbuf_modified at a command boundary (ex_command, the vi() loop) *)
| Undo
| Redo.

Definition run_op (lb : lbuf) (o : op) : lbuf * bool :=      (* bool: the C function returned 0 *)
  match o with
  | Edit buf b e => (lbuf_edit lb buf b e, true)
  | Bump => (fst (lbuf_modified lb), true)
  | Undo => match lbuf_undo lb with None => (lb, false) | Some lb' => (lb', true) end
  | Redo => match lbuf_redo lb with None => (lb, false) | Some lb' => (lb', true) end
  end.

Fixpoint run_trace (lb : lbuf) (ops : list op) : list (text * bool) :=
  match ops with
  | [] => []
  | o :: r => let (lb', ok) := run_op lb o in (ln lb', ok) :: run_trace lb' r
  end.
Fixpoint run_ops (lb : lbuf) (ops : list op) : lbuf :=
  match ops with [] => lb | o :: r => run_ops (fst (run_op lb o)) r end.

(* ------------------------------------------------------------------------------------------ *)
(* UndoSpec: a stack machine keyed by command number *)
Record ustack := { past : list (Z * text); cur : text; future : list (Z * text); cmdno : Z }.

Definition ustack_init (t0 : text) (u0 : Z) : ustack :=
  {| past := []; cur := t0; future := []; cmdno := u0 |}.

Definition push_past (s : ustack) : list (Z * text) :=
  match past s with
  | (q, _) :: _ => if Z.eqb q (cmdno s) then past s else (cmdno s, cur s) :: past s
  | [] => (cmdno s, cur s) :: past s
  end.

(* the text an edit call produces (the splice itself is the subject of C06, not of C04) and
   whether the call is a change at all (NULL text and an empty range: lbuf_edit returns at once) *)
Definition edit_noop (t : text) (buf : option (list N)) (b e : nat) : bool :=
  Nat.eqb (Nat.min b (length t)) (Nat.min e (length t)) && is_none buf.
Definition edit_text (t : text) (buf : option (list N)) (b e : nat) : text :=
  let b' := Nat.min b (length t) in
  let e' := Nat.min e (length t) in
  replace (lines_opt buf) b' (e' - b') t.

Definition spec_op (s : ustack) (o : op) : ustack * bool :=
  match o with
  | Edit buf b e =>
      if edit_noop (cur s) buf b e then (s, true)
      else ({| past := push_past s; cur := edit_text (cur s) buf b e; future := []; cmdno := cmdno s |}, true)
  | Bump => ({| past := past s; cur := cur s; future := future s; cmdno := cmdno s + 1 |}, true)
  | Undo => match past s with
            | [] => (s, false)
            | (q, t) :: p => ({| past := p; cur := t; future := (q, cur s) :: future s; cmdno := cmdno s |}, true)
            end
  | Redo => match future s with
            | [] => (s, false)
            | (q, t) :: f => ({| past := (q, cur s) :: past s; cur := t; future := f; cmdno := cmdno s |}, true)
            end
  end.

Fixpoint spec_trace (s : ustack) (ops : list op) : list (text * bool) :=
  match ops with
  | [] => []
  | o :: r => let (s', ok) := spec_op s o in (cur s', ok) :: spec_trace s' r
  end.
Fixpoint spec_ops (s : ustack) (ops : list op) : ustack :=
  match ops with [] => s | o :: r => spec_ops (fst (spec_op s o)) r end.

(* ------------------------------------------------------------------------------------------ *)
(* CmdSpec: histories in which every command ends with Bump (ex_command, the vi() loop tail).
   One stack entry per modifying command, however many edit calls it made. *)
Inductive cmd :=
| CEdits (l : list (option (list N) * nat * nat))      (* a command making these edit calls *)
| CUndo
| CRedo.

Definition ops_of_cmd (c : cmd) : list op :=
  match c with
  | CEdits l => map (fun x => match x with (buf, b, e) => Edit buf b e end) l
  | CUndo => [Undo]
  | CRedo => [Redo]
  end ++ [Bump].

Record cstack := { cpast : list text; ccur : text; cfuture : list text }.
Definition cstack_init (t0 : text) : cstack := {| cpast := []; ccur := t0; cfuture := [] |}.

(* (did any call change the log, text after all calls) *)
Fixpoint apply_edits (l : list (option (list N) * nat * nat)) (t : text) : bool * text :=
  match l with
  | [] => (false, t)
  | (buf, b, e) :: r =>
      if edit_noop t buf b e then apply_edits r t
      else (true, snd (apply_edits r (edit_text t buf b e)))
  end.

Definition cspec_cmd (s : cstack) (c : cmd) : cstack * bool :=
  match c with
  | CEdits l =>
      let (ch, t') := apply_edits l (ccur s) in
      if ch then ({| cpast := ccur s :: cpast s; ccur := t'; cfuture := [] |}, true) else (s, true)
  | CUndo => match cpast s with
             | [] => (s, false)
             | t :: p => ({| cpast := p; ccur := t; cfuture := ccur s :: cfuture s |}, true)
             end
  | CRedo => match cfuture s with
             | [] => (s, false)
             | t :: f => ({| cpast := ccur s :: cpast s; ccur := t; cfuture := f |}, true)
             end
  end.

Fixpoint cspec_trace (s : cstack) (cs : list cmd) : list (text * bool) :=
  match cs with
  | [] => []
  | c :: r => let (s', ok) := cspec_cmd s c in (ccur s', ok) :: cspec_trace s' r
  end.

(* the concrete side, command by command: text after the command and the result of its undo/redo *)
Fixpoint last_ok (lb : lbuf) (ops : list op) (ok : bool) : lbuf * bool :=
  match ops with
  | [] => (lb, ok)
  | o :: r => let (lb', k) := run_op lb o in last_ok lb' r (ok && k)
  end.
Fixpoint run_cmds (lb : lbuf) (cs : list cmd) : list (text * bool) :=
  match cs with
  | [] => []
  | c :: r => let (lb', ok) := last_ok lb (ops_of_cmd c) true in (ln lb', ok) :: run_cmds lb' r
  end.
