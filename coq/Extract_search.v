(* Extract_search.v -- extraction of the C13 search model and its reference matcher (ExtrOcamlBasic only). *)
From Coq Require Import List NArith ZArith Extraction ExtrOcamlBasic.
From NV Require Import Bytes UcDefs SearchDefs Search4Defs.
Definition all_types : nat * N * Z := (0%nat, 0%N, 0%Z).
Extraction "search_model.ml" all_types sstate0 search_cmd fm_suffix ref_run ref_spec_run lbuf_search_g occ ref_rfind ref_wfind ref_rcomp ref_find
  no_word_atoms re_read uc_off uc_chr uc_slen code_rcomp ex_kwdset_fwd.
