(* TrUcMem.v -- the allocating / string-level helpers of uc.c on the translated C text (tools/c2clite.d/99zzzzz_ucmem.list;
   uc_dup is translated by 56_undo.list): uc_cat, uc_dup, uc_lastline, uc_sub, uc_trim.  The models are in UcMemDefs.v (and
   UcDefs.uc_sub).  malloc appends a fresh block: a result `Ok (VPtr (length m) 0, m ++ [blk])` says that the returned
   pointer is fresh, that the new block holds exactly blk, and that no other block changed. *)
From Coq Require Import List ZArith NArith Bool Lia.
From NV Require Import Bytes UcDefs CLite CLiteProps GenCFuncs CLiteTac TrUcCode TrUc.
From NV Require Export UcMemDefs.
Import ListNotations.
Local Open Scope Z_scope.

Lemma str_at_app (m : mem) x b s : str_at m b s -> str_at (m ++ [x]) b s.
Proof. unfold str_at. intro H. rewrite nth_error_app_old by (apply nth_error_Some; congruence). exact H. Qed.
Lemma cstr_block_len (t : bytes) : length (cstr_block (zb t)) = S (length t).
Proof. unfold cstr_block, zb. rewrite app_length, !map_length. cbn. lia. Qed.

Lemma firstn_cstr (t : bytes) : firstn (length t) (cstr_block (zb t)) = map VInt (zb t).
Proof.
  unfold cstr_block, zb. rewrite firstn_app, !map_length, Nat.sub_diag. cbn [firstn]. rewrite app_nil_r.
  apply firstn_all2. rewrite !map_length. lia.
Qed.
Lemma skipn_repeat {A} (x : A) n k : skipn k (repeat x n) = repeat x (n - k).
Proof. revert k; induction n as [|n IH]; intros [|k]; cbn; try reflexivity. apply IH. Qed.
Lemma vlen (t : bytes) : length (map VInt (zb t)) = length t.
Proof. unfold zb. rewrite !map_length. reflexivity. Qed.

Theorem tr_uc_cat m b1 s1 o1 b2 s2 o2 d fuel :
  str_at m b1 s1 -> nonul s1 -> (o1 <= length s1)%nat -> str_at m b2 s2 -> nonul s2 -> (o2 <= length s2)%nat ->
  Z.of_nat (length s1 - o1) + Z.of_nat (length s2 - o2) + 1 <= 2147483647 ->
  callf cprog fuel (S d) F_uc_cat [VPtr b1 (Z.of_nat o1); VPtr b2 (Z.of_nat o2)] m
  = Ok (VPtr (length m) 0, m ++ [cstr_block (zb (skipn o1 s1 ++ skipn o2 s2))]).
Proof.
  intros H1 N1 O1 H2 N2 O2 Hmax. enter F_uc_cat cf_uc_cat. xstep.
  rewrite (builtin_strlen m b1 s1 o1 H1 N1 O1). xstep.
  rewrite (builtin_strlen m b2 s2 o2 H2 N2 O2). xstep.
  set (n1 := (length s1 - o1)%nat) in *. set (n2 := (length s2 - o2)%nat) in *.
  rewrite !wrap_I32_id by lia. repeat (rewrite chk_I32 by lia; xstep). rewrite wrap_U64_id by lia.
  rewrite malloc_ok by lia. xstep.
  set (U := repeat VUndef (Z.to_nat (Z.of_nat n1 + Z.of_nat n2 + 1))).
  assert (LU : length U = S (n1 + n2)) by (unfold U; rewrite repeat_length; lia).
  rewrite wrap_U64_id by lia.
  rewrite (memcpy_ok (m ++ [U]) (length m) 0 b1 (Z.of_nat o1) (Z.of_nat n1) U (cstr_block (zb s1)));
    [|apply nth_error_app_new|apply str_at_app; exact H1|lia|lia|lia|rewrite cstr_block_len; lia|lia].
  xstep. rewrite !Nat2Z.id. change (Z.to_nat 0) with 0%nat.
  set (t1 := skipn o1 s1). set (t2 := skipn o2 s2).
  assert (L1 : length t1 = n1) by (apply skipn_length). assert (L2 : length t2 = n2) by (apply skipn_length).
  rewrite skipn_cstr_block by exact O1. fold t1.
  replace (firstn n1 (cstr_block (zb t1))) with (map VInt (zb t1)) by (rewrite <- L1; symmetry; apply firstn_cstr).
  rewrite put_cells_0, vlen, upd_app_new.
  replace (skipn (length t1) U) with (repeat VUndef (S n2)) by (unfold U; rewrite skipn_repeat; f_equal; lia).
  set (B1 := map VInt (zb t1) ++ repeat VUndef (S n2)).
  rewrite wrap_U64_id by lia.
  rewrite (memcpy_ok (m ++ [B1]) _ _ _ _ _ B1 (cstr_block (zb s2)));
    [|apply nth_error_app_new|apply str_at_app; exact H2|lia|lia|lia|rewrite cstr_block_len; lia
     |unfold B1; rewrite app_length, vlen, repeat_length; lia].
  xstep. rewrite !Nat2Z.id. rewrite skipn_cstr_block by exact O2. fold t2.
  replace (firstn n2 (cstr_block (zb t2))) with (map VInt (zb t2)) by (rewrite <- L2; symmetry; apply firstn_cstr).
  replace (Z.to_nat (0 + 1 * Z.of_nat n1)) with (length (map VInt (zb t1))) by (rewrite vlen; lia).
  unfold B1. rewrite put_cells_app by (rewrite vlen, repeat_length; lia). rewrite vlen, skipn_repeat, upd_app_new.
  replace (S n2 - length t2)%nat with 1%nat by lia. cbn [repeat].
  rewrite chk_I32 by lia. xstep.
  set (B2 := (map VInt (zb t1) ++ map VInt (zb t2)) ++ [VUndef]).
  rewrite (store_ok (m ++ [B2]) (length m) B2); [|apply nth_error_app_new|unfold B2; rewrite !app_length, !vlen; cbn [length]; lia].
  xstep. rewrite upd_app_new. do 3 f_equal.
  unfold B2, cstr_block, zb. rewrite !map_app.
  f_equal.
  match goal with |- upd _ (Z.to_nat ?z) _ = _ =>
    replace (Z.to_nat z) with (length (map VInt (map Z.of_N t1) ++ map VInt (map Z.of_N t2))) by (rewrite app_length, !map_length; lia)
  end.
  apply upd_app_new.
Qed.

(* ------------------------------------------------------------------ uc_dup: malloc(strlen(s) + 1), strcpy *)
Theorem tr_uc_dup (m : mem) b s o d fuel : str_at m b s -> nonul s -> (o <= length s)%nat -> Z.of_nat (length s) <= 2147483647 ->
  callf cprog fuel (S d) F_uc_dup [VPtr b (Z.of_nat o)] m = Ok (VPtr (length m) 0, m ++ [cstr_block (zb (skipn o s))]).
Proof.
  intros Hs Hn Ho Hmax. enter F_uc_dup cf_uc_dup. xstep.
  rewrite (builtin_strlen m b s o Hs Hn Ho). xstep. change (wrap U64 1) with 1.
  rewrite chk_U64 by lia. xstep. rewrite malloc_ok by lia. xstep.
  set (U := repeat VUndef (Z.to_nat (Z.of_nat (length s - o) + 1))).
  cbn [do_builtin_m]. rewrite (blk_from_str (m ++ [U]) b s o (str_at_app m U b s Hs) Ho). cbn [bind].
  rewrite scan0_cstr by (apply Forall_skipn'; exact Hn). cbn [bind Nat.add].
  set (t := skipn o s). assert (Lt : length t = (length s - o)%nat) by (apply skipn_length).
  rewrite firstn_all2 by (rewrite cstr_block_len; lia).
  rewrite (write_cells_ok (m ++ [U]) (length m) U 0 (cstr_block (zb t))); try lia.
  - cbn [bind]. xstep. rewrite upd_app_new. change (Z.to_nat 0) with 0%nat. rewrite put_cells_0.
    rewrite skipn_all2 by (unfold U; rewrite repeat_length, cstr_block_len; lia). rewrite app_nil_r. reflexivity.
  - apply nth_error_app_new.
  - unfold U. rewrite repeat_length, cstr_block_len. lia.
Qed.

(* ------------------------------------------------------------------ uc_lastline: strrchr(s, '\n') *)
Lemma scanlast_cstr (t : bytes) c : nonul t -> (c < 256)%N -> c <> 0%N -> forall n last,
  scanlast (cstr_block (zb t)) (wrap I8 (Z.of_N c)) n last = Ok (find_last c t n last).
Proof.
  intros Ht Hc Hc0. induction t as [|x t IH]; intros n last.
  - unfold cstr_block, zb. cbn [map app scanlast find_last]. change (wrap I8 0) with (wrap I8 (Z.of_N 0)).
    rewrite wrap_I8_inj by lia. destruct (N.eqb_spec 0 c); [congruence|]. reflexivity.
  - inversion Ht as [|? ? Hx Ht']; subst. unfold cstr_block, zb in *. cbn [map app scanlast find_last].
    destruct Hx as [Hx0 Hx]. rewrite wrap_I8_inj by lia.
    destruct (Z.eqb_spec (Z.of_N x) 0); [lia|]. apply (IH Ht').
Qed.

Theorem tr_uc_lastline m b s o d fuel : str_at m b s -> nonul s -> (o <= length s)%nat ->
  callf cprog fuel (S d) F_uc_lastline [VPtr b (Z.of_nat o)] m = Ok (VPtr b (Z.of_nat (o + uc_lastline (skipn o s))), m).
Proof.
  intros Hs Hn Ho. enter F_uc_lastline cf_uc_lastline. xstep.
  cbn [do_builtin_m do_builtin]. rewrite (blk_from_str m b s o Hs Ho). cbn [bind].
  change (wrap I8 10) with (wrap I8 (Z.of_N 10)).
  rewrite scanlast_cstr by (try (apply Forall_skipn'; exact Hn); lia). cbn [bind].
  unfold uc_lastline. destruct (find_last 10 (skipn o s) 0 None) as [k|]; xstep; do 3 f_equal; lia.
Qed.

(* what the result is: behind it there is no newline, before it (if it moved) a newline *)
Lemma find_last_spec c : forall s n last r, find_last c s n last = r ->
  (r = last /\ ~ In c s) \/ (exists k, r = Some (n + k)%nat /\ (k < length s)%nat /\ nthb s k = c /\ ~ In c (skipn (S k) s)).
Proof.
  induction s as [|x s IH]; intros n last r H; cbn [find_last] in H.
  - left. split; [congruence|intros []].
  - destruct (IH _ _ _ H) as [[E Hn]|[k [E [Hk [Hc Hn]]]]].
    + destruct (N.eqb_spec x c) as [->|Hne].
      * right. exists 0%nat. cbn [length nthb nth skipn]. repeat split; [rewrite E; f_equal; lia|lia|exact Hn].
      * left. split; [exact E|]. intros [F|F]; [congruence|exact (Hn F)].
    + right. exists (S k). cbn [length skipn]. unfold nthb in *. cbn [nth]. repeat split; [rewrite E; f_equal; lia|lia|exact Hc|exact Hn].
Qed.
Theorem uc_lastline_spec s : let r := uc_lastline s in
  (r <= length s)%nat /\ ~ In 10%N (skipn r s) /\ (r = 0%nat \/ nthb s (r - 1) = 10%N).
Proof.
  cbv zeta. unfold uc_lastline. destruct (find_last_spec 10 s 0 None _ eq_refl) as [[E Hn]|[k [E [Hk [Hc Hn]]]]]; rewrite E.
  - cbn [skipn]. repeat split; [lia|exact Hn|left; reflexivity].
  - cbn [Nat.add]. repeat split; [lia|exact Hn|right; rewrite Nat.sub_succ, Nat.sub_0_r; exact Hc].
Qed.

(* ------------------------------------------------------------------ uc_sub *)
Lemma uc_next_le t : (uc_next t <= length t)%nat.
Proof.
  unfold uc_next. pose proof (uc_end_in t) as H. destruct (Nat.eq_dec (uc_end t) (length t)) as [E|E].
  - rewrite E, nthb_end by lia. cbn. lia.
  - destruct (nthb t (uc_end t) =? 0)%N; lia.
Qed.
Lemma uc_chr_f_le : forall k t i off base q, uc_chr_f k t i off base = Some q -> (base <= q <= base + length t)%nat.
Proof.
  induction k as [|k IH]; intros t i off base q H; destruct t as [|x t].
  - cbn [uc_chr_f] in H. destruct ((off <? 0) || (i =? off)); [injection H as <-; cbn; lia|discriminate].
  - cbn [uc_chr_f] in H. destruct (i =? off); [injection H as <-; lia|discriminate].
  - cbn [uc_chr_f] in H. destruct ((off <? 0) || (i =? off)); [injection H as <-; cbn; lia|discriminate].
  - cbn [uc_chr_f] in H. destruct (i =? off); [injection H as <-; lia|].
    apply IH in H. rewrite skipn_length in H. pose proof (uc_next_le (x :: t)). lia.
Qed.
Lemma uc_chr_le s off q : uc_chr s off = Some q -> (q <= length s)%nat.
Proof. intro H. apply uc_chr_f_le in H. lia. Qed.

(* malloc(len + 1); memcpy(r, sbeg, len); r[len] = 0; return r -- for a source pointer into any live block *)
Definition uc_sub_tail : stmt := match fn_body cf_uc_sub with SSeq _ (SSeq _ (SSeq _ t)) => t | _ => SSkip end.
Lemma uc_sub_tail_ok call fuel (m : mem) a0 a1 a2 bs os v4 len (sblk : block) x5 :
  nth_error m bs = Some sblk -> (os + len <= length sblk)%nat -> Z.of_nat len < 2147483647 ->
  exec call fuel uc_sub_tail (mkst [a0; a1; a2; VPtr bs (Z.of_nat os); v4; VInt (Z.of_nat len); x5] m)
  = OReturn (VPtr (length m) 0)
      (mkst [a0; a1; a2; VPtr bs (Z.of_nat os); v4; VInt (Z.of_nat len); VPtr (length m) 0]
            (m ++ [firstn len (skipn os sblk) ++ [VInt 0]])).
Proof.
  intros Hb Hl Hmax. unfold uc_sub_tail. cbn [fn_body cf_uc_sub]. xstep.
  rewrite chk_I32 by lia. xstep. rewrite wrap_U64_id by lia. rewrite malloc_ok by lia. xstep.
  set (U := repeat VUndef (Z.to_nat (Z.of_nat len + 1))).
  assert (LU : length U = S len) by (unfold U; rewrite repeat_length; lia).
  rewrite wrap_U64_id by lia.
  assert (bs < length m)%nat as Hbs by (apply nth_error_Some; congruence).
  rewrite (memcpy_ok (m ++ [U]) _ _ _ _ _ U sblk);
    [|apply nth_error_app_new|rewrite nth_error_app_old by exact Hbs; exact Hb|lia|lia|lia|lia|lia].
  xstep. rewrite !Nat2Z.id. change (Z.to_nat 0) with 0%nat. rewrite put_cells_0, upd_app_new.
  assert (LF : length (firstn len (skipn os sblk)) = len) by (rewrite firstn_length, skipn_length; lia).
  rewrite LF. replace (skipn len U) with [VUndef] by (unfold U; rewrite skipn_repeat; replace (Z.to_nat (Z.of_nat len + 1) - len)%nat with 1%nat by lia; reflexivity).
  set (B := firstn len (skipn os sblk) ++ [VUndef]).
  rewrite (store_ok (m ++ [B]) (length m) B); [|apply nth_error_app_new|unfold B; rewrite app_length, LF; cbn [length]; lia].
  xstep. rewrite upd_app_new. do 4 f_equal.
  unfold B. replace (Z.to_nat (0 + 1 * Z.of_nat len)) with (length (firstn len (skipn os sblk))) by lia.
  apply upd_app_new.
Qed.

Lemma firstn_skipn_cstr (s : bytes) p n : (p + n <= length s)%nat ->
  firstn n (skipn p (cstr_block (zb s))) ++ [VInt 0] = cstr_block (zb (firstn n (skipn p s))).
Proof.
  intro H. rewrite skipn_cstr_block by lia. unfold cstr_block, zb. f_equal.
  rewrite firstn_app, !map_length, skipn_length. replace (n - (length s - p))%nat with 0%nat by lia.
  cbn [firstn]. rewrite app_nil_r, !firstn_map. reflexivity.
Qed.

Theorem tr_uc_sub m b s o beg en t d fuel :
  str_at m b s -> nonul s -> (o <= length s)%nat -> (length s < fuel)%nat -> Z.of_nat (length s) < 2147483647 ->
  UcDefs.uc_sub (skipn o s) beg en = Some t ->
  callf cprog fuel (S (S (S (S d)))) F_uc_sub [VPtr b (Z.of_nat o); VInt beg; VInt en] m
  = Ok (VPtr (length m) 0, m ++ [cstr_block (zb t)]).
Proof.
  intros Hs Hn Ho Hf Hmax Hsub. enter F_uc_sub cf_uc_sub. xstep.
  rewrite (tr_uc_chr m b s o beg d fuel Hs Hn Ho Hf) by lia. xstep.
  rewrite (tr_uc_chr m b s o en d fuel Hs Hn Ho Hf) by lia. xstep.
  unfold UcDefs.uc_sub in Hsub.
  destruct (uc_chr (skipn o s) beg) as [pb|] eqn:Eb; [|discriminate].
  destruct (uc_chr (skipn o s) en) as [pe|] eqn:Ee; [|discriminate]. injection Hsub as <-.
  pose proof (uc_chr_le _ _ _ Eb) as Lb. pose proof (uc_chr_le _ _ _ Ee) as Le. rewrite skipn_length in Lb, Le.
  cbn [option_map chr_val]. xstep. cbn [ptr_cmp]. rewrite Nat.eqb_refl. cbn [arith bind]. xstep.
  set (len := if (pb <=? pe)%nat then (pe - pb)%nat else 0%nat).
  assert (Hlen : (o + pb + len <= length s)%nat) by (unfold len; destruct (Nat.leb_spec pb pe); lia).
  match goal with |- context [exec ?c ?f ?tl _] => change tl with uc_sub_tail end.
  assert (E : forall (st : state) , True) by auto. clear E.
  destruct (Z.leb_spec (Z.of_nat (o + pb)) (Z.of_nat (o + pe))) as [L|L]; xstep.
  - rewrite Nat.eqb_refl. xstep. rewrite Z.quot_1_r, wrap_I32_id by lia. xstep.
    replace (Z.of_nat (o + pe) - Z.of_nat (o + pb)) with (Z.of_nat len) by (unfold len; destruct (Nat.leb_spec pb pe); lia).
    rewrite (uc_sub_tail_ok _ _ m _ _ _ b (o + pb) _ len (cstr_block (zb s)) _ Hs) by (try rewrite cstr_block_len; lia).
    xstep. rewrite firstn_skipn_cstr by lia. do 5 f_equal.
    unfold len. destruct (Nat.leb_spec pb pe); [rewrite skipn_skipn; do 2 f_equal; lia|reflexivity].
  - change (wrap I32 (wrap I64 0)) with (Z.of_nat 0).
    assert (len = 0%nat) as E0 by (unfold len; destruct (Nat.leb_spec pb pe); lia).
    rewrite <- E0.
    rewrite (uc_sub_tail_ok _ _ m _ _ _ b (o + pb) _ len (cstr_block (zb s)) _ Hs) by (try rewrite cstr_block_len; lia).
    xstep. rewrite firstn_skipn_cstr by lia. do 5 f_equal.
    unfold len. destruct (Nat.leb_spec pb pe); [lia|reflexivity].
Qed.

(* both offsets beyond the last character: uc_chr returns the static "" twice, the result is a fresh empty string *)
Theorem tr_uc_sub_out m b s o beg en d fuel :
  str_at m b s -> nonul s -> (o <= length s)%nat -> (length s < fuel)%nat -> Z.of_nat (length s) < 2147483647 ->
  (G_lit__0 < length m)%nat ->
  uc_chr (skipn o s) beg = None -> uc_chr (skipn o s) en = None ->
  callf cprog fuel (S (S (S (S d)))) F_uc_sub [VPtr b (Z.of_nat o); VInt beg; VInt en] m
  = Ok (VPtr (length m) 0, m ++ [cstr_block (zb [])]).
Proof.
  intros Hs Hn Ho Hf Hmax Hg Eb Ee. enter F_uc_sub cf_uc_sub. xstep.
  rewrite (tr_uc_chr m b s o beg d fuel Hs Hn Ho Hf) by lia. xstep.
  rewrite (tr_uc_chr m b s o en d fuel Hs Hn Ho Hf) by lia. xstep.
  rewrite Eb, Ee. cbn [option_map chr_val]. xstep. cbn [ptr_cmp]. rewrite Nat.eqb_refl. cbn [arith bind]. xstep.
  match goal with |- context [exec ?c ?f ?tl _] => change tl with uc_sub_tail end.
  change (0 <=? 0) with true. xstep. rewrite Nat.eqb_refl. xstep.
  change (wrap I32 ((0 - 0) ÷ 1)) with (Z.of_nat 0). change (VPtr G_lit__0 0) with (VPtr G_lit__0 (Z.of_nat 0)).
  destruct (nth_error m G_lit__0) as [lb|] eqn:El; [|apply nth_error_None in El; lia].
  rewrite (uc_sub_tail_ok _ _ m _ _ _ G_lit__0 0 _ 0 lb _ El) by (cbn; lia).
  xstep. reflexivity.
Qed.

(* s == NULL (lbuf_get on an empty buffer; vi.c calls uc_sub with it): uc_chr returns the static "" for every offset, the
   result is a fresh empty string *)
Lemma tr_uc_chr_null m off d fuel : (0 < fuel)%nat ->
  callf cprog fuel (S d) F_uc_chr [VInt 0; VInt off] m = Ok (VPtr G_lit__0 0, m).
Proof.
  intro Hf. destruct fuel as [|fuel]; [lia|]. enter F_uc_chr cf_uc_chr. rewrite exec_seq. xstep. rewrite exec_while. xstep. reflexivity.
Qed.
Theorem tr_uc_sub_null m beg en d fuel : (0 < fuel)%nat -> (G_lit__0 < length m)%nat ->
  callf cprog fuel (S (S d)) F_uc_sub [VInt 0; VInt beg; VInt en] m = Ok (VPtr (length m) 0, m ++ [cstr_block (zb [])]).
Proof.
  intros Hf Hg. enter F_uc_sub cf_uc_sub. xstep. rewrite tr_uc_chr_null by exact Hf. xstep. rewrite tr_uc_chr_null by exact Hf. xstep.
  cbn [ptr_cmp]. rewrite ?Nat.eqb_refl. cbn [arith bind]. xstep.
  match goal with |- context [exec ?c ?f ?tl _] => change tl with uc_sub_tail end.
  change (0 <=? 0) with true. xstep. rewrite Nat.eqb_refl. xstep.
  change (wrap I32 ((0 - 0) ÷ 1)) with (Z.of_nat 0). change (VPtr G_lit__0 0) with (VPtr G_lit__0 (Z.of_nat 0)).
  destruct (nth_error m G_lit__0) as [lb|] eqn:El; [|apply nth_error_None in El; lia].
  rewrite (uc_sub_tail_ok _ _ m _ _ _ G_lit__0 0 _ 0 lb _ El) by (cbn; lia).
  xstep. reflexivity.
Qed.

(* exactly one offset beyond the last character: the C text compares (and subtracts) a pointer into the string and the
   static "" -- pointers to different objects, undefined (C11 6.5.8p5); the checked semantics stops with EType *)
Theorem tr_uc_sub_undef m b s o beg en d fuel :
  str_at m b s -> nonul s -> (o <= length s)%nat -> (length s < fuel)%nat -> Z.of_nat (length s) < 2147483647 ->
  b <> G_lit__0 ->
  (uc_chr (skipn o s) beg = None <-> uc_chr (skipn o s) en <> None) ->
  callf cprog fuel (S (S (S (S d)))) F_uc_sub [VPtr b (Z.of_nat o); VInt beg; VInt en] m = Err EType.
Proof.
  intros Hs Hn Ho Hf Hmax Hb Hx. enter F_uc_sub cf_uc_sub. xstep.
  rewrite (tr_uc_chr m b s o beg d fuel Hs Hn Ho Hf) by lia. xstep.
  rewrite (tr_uc_chr m b s o en d fuel Hs Hn Ho Hf) by lia. xstep.
  destruct (uc_chr (skipn o s) beg) as [pb|]; destruct (uc_chr (skipn o s) en) as [pe|].
  - exfalso. assert (@Some nat pb = None) by (apply Hx; discriminate). discriminate.
  - cbn [option_map chr_val]. xstep. cbn [ptr_cmp]. destruct (Nat.eqb_spec b G_lit__0); [contradiction|]. reflexivity.
  - cbn [option_map chr_val]. xstep. cbn [ptr_cmp]. destruct (Nat.eqb_spec G_lit__0 b); [congruence|]. reflexivity.
  - exfalso. apply (proj1 Hx eq_refl). reflexivity.
Qed.

(* the two defined cases in one statement (UcMemDefs.uc_sub_t) *)
Theorem tr_uc_sub_total m b s o beg en t d fuel :
  str_at m b s -> nonul s -> (o <= length s)%nat -> (length s < fuel)%nat -> Z.of_nat (length s) < 2147483647 ->
  (G_lit__0 < length m)%nat ->
  uc_sub_t (skipn o s) beg en = Some t ->
  callf cprog fuel (S (S (S (S d)))) F_uc_sub [VPtr b (Z.of_nat o); VInt beg; VInt en] m
  = Ok (VPtr (length m) 0, m ++ [cstr_block (zb t)]).
Proof.
  intros Hs Hn Ho Hf Hmax Hg Ht. unfold uc_sub_t in Ht.
  destruct (uc_chr (skipn o s) beg) as [pb|] eqn:Eb; destruct (uc_chr (skipn o s) en) as [pe|] eqn:Ee; try discriminate.
  - apply (tr_uc_sub m b s o beg en t d fuel); try assumption. unfold UcDefs.uc_sub. rewrite Eb, Ee. exact Ht.
  - injection Ht as <-. apply (tr_uc_sub_out m b s o beg en d fuel); assumption.
Qed.

(* ---- which offsets uc_chr resolves: negative ones (the terminator) and 0 .. uc_slen(s) *)
Lemma uc_slen_f_fuel : forall k1 k2 t, (length t <= k1)%nat -> (length t <= k2)%nat -> uc_slen_f k1 t = uc_slen_f k2 t.
Proof.
  induction k1 as [|k1 IH]; intros k2 t H1 H2.
  - destruct t; [|cbn in H1; lia]. destruct k2; reflexivity.
  - destruct k2 as [|k2]; [destruct t; [reflexivity|cbn in H2; lia]|].
    destruct t as [|x t]; [reflexivity|]. cbn [uc_slen_f]. f_equal.
    apply IH; rewrite skipn_length; cbn [length] in *; lia.
Qed.
Lemma uc_slen_cons t : t <> [] -> uc_slen t = S (uc_slen (skipn (S (uc_end t)) t)).
Proof.
  intro H. unfold uc_slen. destruct t as [|x t]; [congruence|]. cbn [length uc_slen_f]. f_equal.
  apply uc_slen_f_fuel; rewrite skipn_length; cbn [length]; lia.
Qed.
Lemma uc_chr_f_neg : forall k t i off base, nonul t -> (length t <= k)%nat -> off < 0 -> 0 <= i ->
  uc_chr_f k t i off base = Some (base + length t)%nat.
Proof.
  induction k as [|k IH]; intros t i off base Hn Hk Ho Hi.
  - destruct t; [|cbn in Hk; lia]. cbn [uc_chr_f]. destruct (Z.ltb_spec off 0); [|lia]. cbn. f_equal. lia.
  - destruct t as [|x t]; [cbn [uc_chr_f]; destruct (Z.ltb_spec off 0); [|lia]; cbn; f_equal; lia|].
    rewrite uc_chr_f_step by discriminate. destruct (Z.eqb_spec i off); [lia|].
    pose proof (uc_next_nonul (x :: t) Hn ltac:(discriminate)) as Hnx.
    pose proof (uc_next_le (x :: t)) as Hle.
    rewrite IH; [|apply nonul_skipn; exact Hn|rewrite skipn_length; cbn [length] in *; lia|lia|lia].
    rewrite skipn_length. f_equal. lia.
Qed.
Lemma uc_chr_f_dom : forall k t i off base, nonul t -> (length t <= k)%nat -> 0 <= i <= off ->
  (uc_chr_f k t i off base = None <-> i + Z.of_nat (uc_slen t) < off).
Proof.
  induction k as [|k IH]; intros t i off base Hn Hk Hi.
  - destruct t; [|cbn in Hk; lia]. cbn [uc_chr_f]. change (uc_slen []) with 0%nat.
    destruct (Z.ltb_spec off 0); [lia|]. cbn [orb]. destruct (Z.eqb_spec i off); split; intro; try discriminate; try reflexivity; lia.
  - destruct t as [|x t].
    + cbn [uc_chr_f]. change (uc_slen []) with 0%nat.
      destruct (Z.ltb_spec off 0); [lia|]. cbn [orb]. destruct (Z.eqb_spec i off); split; intro; try discriminate; try reflexivity; lia.
    + rewrite uc_chr_f_step by discriminate. rewrite uc_slen_cons by discriminate.
      pose proof (uc_next_nonul (x :: t) Hn ltac:(discriminate)) as Hnx. rewrite <- Hnx.
      destruct (Z.eqb_spec i off); [split; intro; [discriminate|lia]|].
      pose proof (uc_next_le (x :: t)) as Hle.
      rewrite IH; [|apply nonul_skipn; exact Hn|rewrite skipn_length; cbn [length] in *; lia|lia]. lia.
Qed.
Theorem uc_chr_neg s off : nonul s -> off < 0 -> uc_chr s off = Some (length s).
Proof. intros Hn Ho. unfold uc_chr. rewrite uc_chr_f_neg by (auto; lia). reflexivity. Qed.
Theorem uc_chr_none s off : nonul s -> (uc_chr s off = None <-> Z.of_nat (uc_slen s) < off).
Proof.
  intro Hn. destruct (Z_lt_ge_dec off 0) as [L|L].
  - rewrite uc_chr_neg by assumption. split; [discriminate|lia].
  - unfold uc_chr. rewrite uc_chr_f_dom by (auto; lia). lia.
Qed.

(* ------------------------------------------------------------------ uc_trim (fix a04410e) *)
(* uc_len reads one cell: stated for any memory in which that load succeeds (the string may sit in a larger array) *)
Lemma uc_len_load m b z c d fuel : load m b z = Ok (VInt (Z.of_N c)) -> (c < 256)%N ->
  callf cprog fuel (S d) F_uc_len [VPtr b z] m = Ok (VInt (Z.of_nat (uc_len_b c)), m).
Proof.
  intros Hl Hc. enter F_uc_len cf_uc_len. xstep. replace (z + 1 * 0) with z by lia. rewrite Hl. xstep. rewrite wrap_byte_chain by exact Hc.
  clear Hl. sweep_byte c Hc.
Qed.
Lemma uc_len_b_pos c : (0 < c < 256)%N -> (1 <= uc_len_b c <= 4)%nat.
Proof.
  intros [H0 H1]. unfold uc_len_b. destruct (negb (bit c 128 && bit c 64)).
  - destruct (N.ltb_spec 0 c); lia.
  - destruct (negb (bit c 32)); [lia|]. destruct (negb (bit c 16)); [lia|]. destruct (negb (bit c 8)); lia.
Qed.
Lemma scan0_cstr_app (t : bytes) rest n : nonul t -> scan0 (cstr_block (zb t) ++ rest) n = Ok (n + length t)%nat.
Proof.
  intro Ht. revert n; induction t as [|x t IH]; intro n.
  - cbn. f_equal. lia.
  - inversion Ht as [|? ? Hx Ht']; subst. unfold cstr_block, zb in *. cbn [map app scan0]. destruct Hx as [Hx0 Hx].
    destruct (Z.of_N x) eqn:E; try lia. rewrite (IH Ht'). cbn [length]. f_equal. lia.
Qed.
Lemma load_pblk (m : mem) b s rest (i : nat) : nth_error m b = Some (cstr_block (zb s) ++ rest) -> (i <= length s)%nat ->
  load m b (Z.of_nat i) = Ok (VInt (Z.of_N (nthb s i))).
Proof.
  intros H Hi. pose proof (load_str [cstr_block (zb s)] 0 s (Z.of_nat i) i eq_refl eq_refl Hi) as E.
  unfold load in *. rewrite H. cbn [nth_error] in E.
  destruct (Z.of_nat i <? 0); [exact E|]. rewrite nth_error_app1 by (rewrite cstr_block_len; lia). exact E.
Qed.

Lemma strlen_pblk (m : mem) b s rest : nth_error m b = Some (cstr_block (zb s) ++ rest) -> nonul s ->
  do_builtin_m BStrlen [VPtr b 0] m = Ok (VInt (Z.of_nat (length s)), m).
Proof.
  intros Hb Hn. cbn [do_builtin_m do_builtin]. unfold blk_from. rewrite Hb. cbn [Z.ltb Z.compare orb].
  destruct (Z.ltb_spec (Z.of_nat (length (cstr_block (zb s) ++ rest))) 0); [lia|]. cbn [Z.to_nat skipn bind].
  rewrite scan0_cstr_app by exact Hn. reflexivity.
Qed.
Lemma trim_idx_f_step k t i : t <> [] ->
  trim_idx_f (S k) t i = if (uc_len t <=? length t)%nat then trim_idx_f k (skipn (uc_len t) t) (i + uc_len t) else i.
Proof. destruct t; [congruence|reflexivity]. Qed.
Lemma hd0_skipn' s o : hd0 (skipn o s) = nthb s o.
Proof. rewrite <- (Nat.add_0_r o) at 2. rewrite <- nthb_skipn. destruct (skipn o s); reflexivity. Qed.

Definition uc_trim_loop : stmt := match fn_body cf_uc_trim with SSeq _ (SSeq _ (SSeq w _)) => w | _ => SSkip end.
Lemma uc_trim_loop_ok F d (m : mem) b s rest : nth_error m b = Some (cstr_block (zb s) ++ rest) -> nonul s ->
  Z.of_nat (length s) + 4 <= 2147483647 ->
  forall k i fuel, (length s - i <= k)%nat -> (i <= length s)%nat -> (k < fuel)%nat ->
  exec (callf cprog F (S d)) fuel uc_trim_loop (mkst [VPtr b 0; VInt (Z.of_nat (length s)); VInt (Z.of_nat i)] m)
  = ONormal (mkst [VPtr b 0; VInt (Z.of_nat (length s)); VInt (Z.of_nat (trim_idx_f k (skipn i s) i))] m).
Proof.
  intros Hb Hn Hmax. pose proof (nonul_lt256 s Hn) as H256.
  induction k as [|k IH]; intros i fuel Hk Hi Hf; (destruct fuel as [|fuel]; [lia|]);
    unfold uc_trim_loop; cbn [fn_body cf_uc_trim]; rewrite exec_while; xstep.
  - assert (i = length s) as -> by lia. rewrite Z.ltb_irrefl. xstep. reflexivity.
  - destruct (Nat.eq_dec i (length s)) as [->|Hne].
    + rewrite Z.ltb_irrefl. xstep. rewrite skipn_end by lia. reflexivity.
    + destruct (Z.ltb_spec (Z.of_nat i) (Z.of_nat (length s))); [|lia]. xstep.
      replace (0 + 1 * Z.of_nat i) with (Z.of_nat i) by lia.
      pose proof (nthb_lt256 s i H256) as Hc.
      rewrite (uc_len_load m b _ _ d F (load_pblk m b s rest i Hb ltac:(lia)) Hc). xstep.
      assert (Hc0 : (0 < nthb s i < 256)%N).
      { unfold nonul in Hn. rewrite Forall_forall in Hn. apply Hn. unfold nthb. apply nth_In. lia. }
      pose proof (uc_len_b_pos _ Hc0) as Hl.
      rewrite chk_I32 by lia. xstep.
      rewrite trim_idx_f_step by (apply skipn_ne; lia).
      assert (Hul : uc_len (skipn i s) = uc_len_b (nthb s i)) by (unfold uc_len; rewrite hd0_skipn'; reflexivity).
      rewrite Hul, skipn_length.
      set (l := uc_len_b (nthb s i)) in *.
      destruct (Z.leb_spec (Z.of_nat i + Z.of_nat l) (Z.of_nat (length s))) as [L|L]; xstep.
      * destruct (Nat.leb_spec l (length s - i)); [|lia].
        replace (0 + 1 * Z.of_nat i) with (Z.of_nat i) by lia.
        rewrite (uc_len_load m b _ _ d F (load_pblk m b s rest i Hb ltac:(lia)) Hc). xstep. fold l.
        rewrite chk_I32 by lia. xstep.
        replace (Z.of_nat i + Z.of_nat l) with (Z.of_nat (i + l)) by lia.
        change (SWhile _ _) with uc_trim_loop. rewrite (IH (i + l)%nat fuel) by lia.
        rewrite skipn_skipn. replace (l + i)%nat with (i + l)%nat by lia. reflexivity.
      * destruct (Nat.leb_spec l (length s - i)); [lia|]. reflexivity.
Qed.

Lemma trim_idx_f_le : forall k t i, (i <= trim_idx_f k t i <= i + length t)%nat.
Proof.
  induction k as [|k IH]; intros t i; cbn [trim_idx_f]; [lia|]. destruct t as [|x t]; [cbn; lia|].
  destruct (Nat.leb_spec (uc_len (x :: t)) (length (x :: t))); [|lia].
  specialize (IH (skipn (uc_len (x :: t)) (x :: t)) (i + uc_len (x :: t))%nat). rewrite skipn_length in IH. lia.
Qed.
Lemma trim_idx_le s : (trim_idx s <= length s)%nat.
Proof. unfold trim_idx. pose proof (trim_idx_f_le (length s) s 0). lia. Qed.

Theorem tr_uc_trim (m : mem) b s rest d fuel :
  nth_error m b = Some (cstr_block (zb s) ++ rest) -> nonul s -> (length s < fuel)%nat ->
  Z.of_nat (length s) + 4 <= 2147483647 ->
  callf cprog fuel (S (S d)) F_uc_trim [VPtr b 0] m
  = Ok (VUndef, upd m b (cstr_block (zb (uc_trim s)) ++ skipn (S (trim_idx s)) (cstr_block (zb s) ++ rest))).
Proof.
  intros Hb Hn Hf Hmax. enter F_uc_trim cf_uc_trim. xstep.
  rewrite (strlen_pblk m b s rest Hb Hn). xstep. rewrite wrap_I32_id by lia. xstep.
  change (SWhile _ _) with uc_trim_loop. change (VInt 0) with (VInt (Z.of_nat 0)) at 1.
  rewrite (uc_trim_loop_ok fuel d m b s rest Hb Hn Hmax (length s) 0 fuel) by lia. xstep.
  cbn [skipn]. fold (trim_idx s). pose proof (trim_idx_le s) as Hi.
  rewrite (store_ok m b (cstr_block (zb s) ++ rest)); [|exact Hb|rewrite app_length, cstr_block_len; lia].
  xstep. do 3 f_equal. replace (Z.to_nat (0 + 1 * Z.of_nat (trim_idx s))) with (trim_idx s) by lia.
  set (i := trim_idx s) in *. unfold upd, uc_trim. fold i.
  change (wrap I8 (wrap I8 0)) with 0.
  replace (firstn i (cstr_block (zb s) ++ rest)) with (map VInt (zb (firstn i s))).
  - unfold cstr_block at 2. rewrite <- app_assoc. reflexivity.
  - unfold cstr_block, zb. rewrite <- app_assoc. rewrite firstn_app, !map_length.
    replace (i - length s)%nat with 0%nat by lia. cbn [firstn]. rewrite app_nil_r, !firstn_map. reflexivity.
Qed.

(* ---- what uc_trim keeps: the longest prefix made of whole characters (as uc_len counts them) *)
Inductive whole : bytes -> Prop :=
| whole_nil : whole []
| whole_cons : forall t, t <> [] -> (1 <= uc_len t <= length t)%nat -> whole (skipn (uc_len t) t) -> whole t.

Lemma uc_len_firstn t j : (0 < j)%nat -> uc_len (firstn j t) = uc_len t.
Proof. destruct t; destruct j; try reflexivity; lia. Qed.
Lemma uc_len_pos t : nonul t -> t <> [] -> (1 <= uc_len t)%nat.
Proof.
  intros F Hne. destruct t as [|c r]; [congruence|]. inversion F as [|? ? Hb _]; subst.
  unfold uc_len. cbn [hd0]. apply uc_len_b_pos. exact Hb.
Qed.

Lemma trim_idx_f_spec : forall k t i, nonul t -> (length t <= k)%nat ->
  exists j, trim_idx_f k t i = (i + j)%nat /\ (j <= length t)%nat /\ whole (firstn j t) /\
            (j = length t \/ (length t < j + uc_len (skipn j t))%nat).
Proof.
  induction k as [|k IH]; intros t i F L.
  { destruct t; [|cbn in L; lia]. exists 0%nat. cbn. repeat split; try lia; constructor. }
  destruct t as [|c r].
  { exists 0%nat. cbn. repeat split; try lia; constructor. }
  rewrite trim_idx_f_step by discriminate. set (t := c :: r) in *.
  assert (Hne : t <> []) by (subst t; discriminate).
  pose proof (uc_len_pos t F Hne) as LP.
  destruct (Nat.leb_spec (uc_len t) (length t)) as [Hfit|Hno].
  - destruct (IH (skipn (uc_len t) t) (i + uc_len t)%nat) as (j & E & Hj & W & Stop).
    + apply nonul_skipn. exact F.
    + rewrite skipn_length. subst t. cbn [length] in *. lia.
    + rewrite skipn_length in Hj.
      exists (uc_len t + j)%nat. split; [rewrite E; lia|]. split; [lia|]. split.
      * assert (HL : length (firstn (uc_len t + j) t) = (uc_len t + j)%nat) by (rewrite firstn_length; lia).
        assert (HU : uc_len (firstn (uc_len t + j) t) = uc_len t) by (apply uc_len_firstn; lia).
        apply whole_cons.
        -- intro C. apply (f_equal (@length N)) in C. rewrite HL in C. cbn [length] in C. lia.
        -- rewrite HU, HL. lia.
        -- rewrite HU. rewrite <- firstn_skipn_comm. exact W.
      * rewrite skipn_length in Stop. rewrite skipn_skipn in Stop.
        replace (j + uc_len t)%nat with (uc_len t + j)%nat in Stop by lia.
        destruct Stop as [S1|S1]; [left; lia|right; lia].
  - exists 0%nat. split; [lia|]. split; [lia|]. split; [constructor|]. right. cbn [skipn]. lia.
Qed.

(* the prefix kept consists of whole characters; either nothing was cut, or what follows the cut is ONE character that
   announces more bytes than the string has left (so the cut removes fewer than 4 bytes) *)
Theorem uc_trim_spec s : nonul s ->
  let i := trim_idx s in
  uc_trim s = firstn i s /\ (i <= length s)%nat /\ whole (uc_trim s) /\
  (i = length s \/ (length s < i + uc_len (skipn i s))%nat) /\ (length s - i < 4)%nat.
Proof.
  intro F. cbv zeta. unfold uc_trim, trim_idx.
  destruct (trim_idx_f_spec (length s) s 0 F (le_n _)) as (j & E & Hj & W & Stop).
  rewrite E. cbn [Nat.add]. repeat split; try assumption.
  destruct Stop as [->|S1]; [lia|].
  destruct (Nat.eq_dec j (length s)) as [->|Hjn]; [lia|].
  assert (Hne : skipn j s <> []) by (apply skipn_ne; lia).
  destruct (skipn j s) as [|c r] eqn:Es; [congruence|].
  assert (Hc : (0 < c < 256)%N).
  { pose proof (nonul_skipn s j F) as F'. rewrite Es in F'. inversion F'; assumption. }
  pose proof (uc_len_b_pos c Hc). unfold uc_len in S1. cbn [hd0] in S1. lia.
Qed.

(* on a string of whole characters uc_trim is the identity *)
Lemma trim_idx_f_whole : forall k t i, whole t -> (length t <= k)%nat -> trim_idx_f k t i = (i + length t)%nat.
Proof.
  induction k as [|k IH]; intros t i W L.
  { destruct t; [cbn; lia|cbn in L; lia]. }
  destruct W as [|t Hne HL W]; [cbn; lia|].
  rewrite trim_idx_f_step by exact Hne.
  destruct (Nat.leb_spec (uc_len t) (length t)); [|lia].
  rewrite IH; [|exact W|rewrite skipn_length; lia]. rewrite skipn_length. lia.
Qed.
Theorem uc_trim_whole s : whole s -> trim_idx s = length s /\ uc_trim s = s.
Proof.
  intro W. unfold uc_trim, trim_idx. rewrite trim_idx_f_whole by (auto; lia). cbn [Nat.add].
  split; [reflexivity|apply firstn_all].
Qed.
Theorem uc_trim_idem s : nonul s -> uc_trim (uc_trim s) = uc_trim s.
Proof. intro F. apply uc_trim_whole. apply uc_trim_spec. exact F. Qed.

(* a block that already holds whole characters is left as it is *)
Theorem tr_uc_trim_whole (m : mem) b s rest d fuel :
  nth_error m b = Some (cstr_block (zb s) ++ rest) -> nonul s -> whole s -> (length s < fuel)%nat ->
  Z.of_nat (length s) + 4 <= 2147483647 ->
  callf cprog fuel (S (S d)) F_uc_trim [VPtr b 0] m = Ok (VUndef, m).
Proof.
  intros Hb Hn W Hf Hmax. rewrite (tr_uc_trim m b s rest d fuel Hb Hn Hf Hmax).
  destruct (uc_trim_whole s W) as [E1 E2]. rewrite E1, E2. do 2 f_equal.
  rewrite skipn_app, cstr_block_len, Nat.sub_diag. rewrite skipn_all2 by (rewrite cstr_block_len; lia).
  cbn [skipn app]. apply upd_self. exact Hb.
Qed.
