(* TrRen2.v -- functions of ren.c built on the uc.c helpers and on the column array: ren_noeol (whole
   function), and the part of ren_off after `pos = ren_position(s)` (factored: for EVERY int array the
   pointer may point to).  Imports TrUc (ren_noeol calls uc_slen and uc_chr). *)
From Coq Require Import List ZArith NArith Bool Lia.
From NV Require Import Bytes UcDefs RenDefs CLite CLiteProps GenCFuncs CLiteTac TrUc TrRen.
Import ListNotations.
Local Open Scope Z_scope.

(* ------------------------------------------------------------------ ren_noeol *)
Lemma uc_next_le t : (uc_next t <= length t)%nat.
Proof.
  unfold uc_next. pose proof (uc_end_in t) as H.
  destruct (N.eqb_spec (nthb t (uc_end t)) 0) as [E|E]; [exact H|].
  destruct (Nat.eq_dec (uc_end t) (length t)) as [E2|E2]; [|lia].
  rewrite E2, nthb_end in E by lia. congruence.
Qed.
Lemma uc_chr_f_le fuel : forall t i off base k, uc_chr_f fuel t i off base = Some k -> (k <= base + length t)%nat.
Proof.
  induction fuel as [|fuel IH]; intros t i off base k H; destruct t as [|x t]; cbn [uc_chr_f] in H.
  - destruct ((off <? 0) || (i =? off)); [injection H as <-; lia|discriminate].
  - destruct (i =? off); [injection H as <-; lia|discriminate].
  - destruct ((off <? 0) || (i =? off)); [injection H as <-; lia|discriminate].
  - destruct (i =? off); [injection H as <-; lia|].
    apply IH in H. rewrite skipn_length in H. pose proof (uc_next_le (x :: t)). lia.
Qed.
Lemma cc_nl : forall c, (c < 256)%N -> (wrap I32 (wrap I8 (Z.of_N c)) =? 10) = (c =? 10)%N.
Proof. byte_fact. Qed.
Lemma hd0_skipn' s o : hd0 (skipn o s) = nthb s o.
Proof. rewrite <- (Nat.add_0_r o) at 2. rewrite <- nthb_skipn. destruct (skipn o s); reflexivity. Qed.

Lemma uc_slen_f_le fuel : forall t, (uc_slen_f fuel t <= fuel)%nat.
Proof. induction fuel as [|f IH]; intro t; cbn [uc_slen_f]; [lia|]. destruct t; [lia|]. specialize (IH (skipn (S (uc_end (n :: t))) (n :: t))). lia. Qed.
Lemma uc_slen_le t : (uc_slen t <= length t)%nat.
Proof. apply uc_slen_f_le. Qed.

Ltac xc := repeat (progress (xcbn; cbn [b2z]; rewrite ?nb2z; try change (0 =? 0) with true; try change (1 =? 0) with false)).
(* s is a non-null string; the model has no null case *)
Theorem tr_ren_noeol m b s off d fuel : globals_at m ->
  str_at m b s -> nonul s -> (length s < fuel)%nat -> Z.of_nat (length s) <= 2147483647 -> off <= 2147483647 ->
  callf cprog fuel (S (S (S (S d)))) F_ren_noeol [VPtr b 0; VInt off] m = Ok (VInt (ren_noeol s off), m).
Proof.
  intros Hg Hs Hnn Hf Hmax Hoff. pose proof (nonul_lt256 s Hnn) as H256.
  enter F_ren_noeol cf_ren_noeol. xstep.
  pose proof (tr_uc_slen m b s 0 (S d) fuel Hs Hnn ltac:(lia) Hf Hmax) as E. change (Z.of_nat 0) with 0 in E.
  rewrite E; clear E. xstep. cbn [skipn].
  unfold ren_noeol. set (n := Z.of_nat (uc_slen s)).
  assert (Hn : 0 <= n <= 2147483647) by (unfold n; pose proof (uc_slen_le s); lia).
  assert (Htail : forall o1, o1 <= 2147483647 ->
    exec (callf cprog fuel (S (S (S d)))) fuel
      (SReturn (Some (ECond (EAndAlso (EBin OGt I32 (ELocal 1) (EConst 0))
                (EBin OEq I32 (ECast I32 (ELoad (Some I8) (EPtrAdd 1 (ECall F_uc_chr [ELocal 0; ELocal 1]) (EConst 0)))) (EConst 10)))
                (EBin OSub I32 (ELocal 1) (EConst 1)) (ELocal 1))))
      (mkst [VPtr b 0; VInt o1; VInt n] m)
    = OReturn (VInt (if (0 <? o1) && (hd0 (chr_suffix s (Z.to_nat o1)) =? 10)%N then o1 - 1 else o1))
              (mkst [VPtr b 0; VInt o1; VInt n] m)).
  { intros o1 Ho1. xstep. destruct (Z.ltb_spec 0 o1) as [Hp|Hp]; xstep; [|reflexivity].
    pose proof (tr_uc_chr m b s 0 o1 d fuel Hs Hnn ltac:(lia) Hf Hmax) as E. change (Z.of_nat 0) with 0 in E.
    rewrite E; clear E. cbn [skipn]. unfold chr_suffix. rewrite Z2Nat.id by lia.
    destruct (uc_chr s o1) as [q|] eqn:Eq; cbn [option_map chr_val]; xstep.
    - assert (q <= length s)%nat by (apply uc_chr_f_le in Eq; lia).
      replace (Z.of_nat (0 + q) + 1 * 0) with (Z.of_nat q) by lia.
      rewrite (load_str m b s _ q Hs) by lia. xstep.
      rewrite (cc_nl _ (nthb_lt256 s q H256)), hd0_skipn'.
      destruct (nthb s q =? 10)%N; xstep; [rewrite chk_I32 by lia|]; reflexivity.
    - unfold load. rewrite (Hg G_lit__0 gb_lit__0 eq_refl). reflexivity. }
  destruct (Z.leb_spec n off) as [Hge|Hlt].
  - rewrite chk_I32 by lia. xc. destruct (Z.ltb_spec 0 (n - 1)) as [H1|H1]; xc.
    + rewrite chk_I32 by lia. xc. rewrite Htail by lia. rewrite Z.max_r by lia. reflexivity.
    + rewrite Htail by lia. rewrite Z.max_l by lia. reflexivity.
  - rewrite Htail by lia. reflexivity.
Qed.

(* ------------------------------------------------------------------ ren_off, after `pos = ren_position(s)` *)
(* ren_off is `off = -1; n = uc_slen(s); pos = ren_position(s);` followed by ro_tail: the inclusive pos_prev, the
   search for the last index holding that column, free(pos), the return.  ro_tail is proved for EVERY int array
   pos may point to (n + 1 entries or more), so what is left untied of ren_off is ren_position alone. *)
Definition ro_tail : stmt := match fn_body cf_ren_off with SSeq _ (SSeq _ (SSeq _ t)) => t | _ => SSkip end.
Definition ro_loop : stmt := match ro_tail with SSeq _ (SSeq (SSeq _ w) _) => w | _ => SSkip end.
Definition oidx (z : Z) : option nat := if z <? 0 then None else Some (Z.to_nat z).

Lemma ro_loop_ok call m g l n sv v : int_arr_at m g l -> ints_ok l -> (n <= length l)%nat -> Z.of_nat n <= 2147483647 ->
  forall k i off fuel, (i + k = n)%nat -> -1 <= off < Z.of_nat i -> (k < fuel)%nat ->
  exists off', exec call fuel ro_loop (mkst [sv; VInt v; VInt off; VInt (Z.of_nat n); VPtr g 0; VInt (Z.of_nat i)] m)
               = ONormal (mkst [sv; VInt v; VInt off'; VInt (Z.of_nat n); VPtr g 0; VInt (Z.of_nat n)] m)
    /\ -1 <= off' < Z.of_nat n
    /\ oidx off' = last_idx (skipn i (firstn n l)) v i (oidx off).
Proof.
  intros Hm Hok Hn Hmax. induction k as [|k IH]; intros i off fuel Hik Hoff Hf; (destruct fuel as [|fuel]; [lia|]);
    unfold ro_loop, ro_tail; cbn [fn_body cf_ren_off]; rewrite exec_for; xstep.
  - assert (i = n) by lia. subst i. destruct (Z.ltb_spec (Z.of_nat n) (Z.of_nat n)); [lia|]. xstep.
    exists off. split; [reflexivity|]. split; [lia|]. rewrite skipn_all2 by (rewrite firstn_length; lia). reflexivity.
  - destruct (Z.ltb_spec (Z.of_nat i) (Z.of_nat n)); [|lia]. xstep. xld Hm Hok.
    rewrite (skipn_cons_nthz (firstn n l) i) by (rewrite firstn_length; lia).
    rewrite nthz_firstn by lia. cbn [last_idx].
    destruct (nthz l (Z.of_nat i) =? v); xstep; rewrite chk_I32 by lia; xstep;
      replace (Z.of_nat i + 1) with (Z.of_nat (S i)) by lia.
    + destruct (IH (S i) (Z.of_nat i) fuel ltac:(lia) ltac:(lia) ltac:(lia)) as [off' [X Y]].
      exists off'. unfold ro_loop, ro_tail in X; cbn [fn_body cf_ren_off] in X. split; [exact X|].
      replace (oidx (Z.of_nat i)) with (Some i) in Y; [exact Y|].
      unfold oidx. destruct (Z.ltb_spec (Z.of_nat i) 0); [lia|]. rewrite Nat2Z.id. reflexivity.
    + destruct (IH (S i) off fuel ltac:(lia) ltac:(lia) ltac:(lia)) as [off' [X Y]].
      exists off'. unfold ro_loop, ro_tail in X; cbn [fn_body cf_ren_off] in X. split; [exact X|exact Y].
Qed.

Theorem tr_ren_off_tail m g l n sv p d fuel : int_arr_at m g l -> ints_ok l -> (n < length l)%nat ->
  Z.of_nat n <= 2147483647 -> (n < fuel)%nat ->
  exists loc', exec (callf cprog fuel (S d)) fuel ro_tail
                 (mkst [sv; VInt p; VInt (-1); VInt (Z.of_nat n); VPtr g 0; VUndef] m)
               = OReturn (VInt (Z.of_nat (ren_off_pos l n p))) (mkst loc' (upd m g [])).
Proof.
  intros Hm Hok Hn Hmax Hf. unfold ro_tail; cbn [fn_body cf_ren_off]. xstep.
  assert (Hpo : prev_ok (firstn n l) (negb (1 =? 0))).
  { unfold prev_ok. apply Forall_firstn'. unfold ints_ok in Hok. eapply Forall_impl; [|exact Hok]. cbn. intros; lia. }
  rewrite (tr_pos_prev m g l n p 1 d fuel Hm Hok ltac:(lia) Hmax Hpo Hf). xstep.
  change (negb (1 =? 0)) with true. set (v := pos_prev l n p true).
  destruct (ro_loop_ok (callf cprog fuel (S d)) m g l n sv v Hm Hok ltac:(lia) Hmax n 0%nat (-1) fuel ltac:(lia) ltac:(lia) Hf)
    as [off' [X [Y W]]].
  unfold ro_loop, ro_tail in X; cbn [fn_body cf_ren_off] in X. change (Z.of_nat 0) with 0 in X. rewrite X. xstep.
  cbn [do_builtin_m]. unfold int_arr_at in Hm. rewrite Hm.
  destruct l as [|x0 l0]; [cbn in Hn; lia|]. cbn [map].
  rewrite set_nth_upd by (apply nth_error_Some; congruence). xstep.
  unfold ren_off_pos. fold v. cbn [skipn] in W. change (oidx (-1)) with (@None nat) in W. rewrite <- W. unfold oidx.
  destruct (Z.leb_spec 0 off'); destruct (Z.ltb_spec off' 0); try lia; xstep; eexists.
  - rewrite Z2Nat.id by lia. reflexivity.
  - reflexivity.
Qed.

(* ------------------------------------------------------------------ ren_off and ren_pos as whole functions, RELATIVE to ren_position:
   Hpos says that the translated ren_position, called on this memory, returns a pointer to a block that holds
   the int array l (whatever else it did to the memory: m1).  Everything else the functions do is proved. *)
Lemma free_int_arr m g l : int_arr_at m g l -> (0 < length l)%nat -> do_builtin_m BFree [VPtr g 0] m = Ok (VUndef, upd m g []).
Proof.
  intros Hm Hl. cbn [do_builtin_m]. unfold int_arr_at in Hm. rewrite Hm.
  destruct l as [|x0 l0]; [cbn in Hl; lia|]. cbn [map].
  rewrite set_nth_upd by (apply nth_error_Some; congruence). reflexivity.
Qed.

Theorem tr_ren_off_rel m m1 b s g l p d fuel :
  str_at m b s -> nonul s -> (length s < fuel)%nat -> Z.of_nat (length s) <= 2147483647 ->
  callf cprog fuel (S (S d)) F_ren_position [VPtr b 0] m = Ok (VPtr g 0, m1) ->
  int_arr_at m1 g l -> ints_ok l -> (uc_slen s < length l)%nat ->
  callf cprog fuel (S (S (S d))) F_ren_off [VPtr b 0; VInt p] m
  = Ok (VInt (Z.of_nat (ren_off_pos l (uc_slen s) p)), upd m1 g []).
Proof.
  intros Hs Hnn Hf Hmax Hpos Hm1 Hok Hl. enter F_ren_off cf_ren_off.
  rewrite exec_seq, exec_expr. xc. change (chk I32 (- (1))) with (@Ok Z (-1)). xc.
  rewrite exec_seq, exec_expr. xc.
  pose proof (tr_uc_slen m b s 0 d fuel Hs Hnn ltac:(lia) Hf Hmax) as E. change (Z.of_nat 0) with 0 in E.
  rewrite E; clear E. xc. cbn [skipn].
  rewrite exec_seq, exec_expr. xc. rewrite Hpos. xc.
  pose proof (uc_slen_le s) as Hn.
  destruct (tr_ren_off_tail m1 g l (uc_slen s) (VPtr b 0) p (S d) fuel Hm1 Hok Hl ltac:(lia) ltac:(lia)) as [loc' X].
  unfold ro_tail in X; cbn [fn_body cf_ren_off] in X. rewrite X. reflexivity.
Qed.

Theorem tr_ren_pos_rel m m1 b s g l off d fuel :
  str_at m b s -> nonul s -> (length s < fuel)%nat -> Z.of_nat (length s) <= 2147483647 ->
  callf cprog fuel (S (S d)) F_ren_position [VPtr b 0] m = Ok (VPtr g 0, m1) ->
  int_arr_at m1 g l -> ints_ok l -> (uc_slen s < length l)%nat -> 0 <= off ->
  callf cprog fuel (S (S (S d))) F_ren_pos [VPtr b 0; VInt off] m
  = Ok (VInt (if off <? Z.of_nat (uc_slen s) then nthz l off else 0), upd m1 g []).
Proof.
  intros Hs Hnn Hf Hmax Hpos Hm1 Hok Hl Hoff. enter F_ren_pos cf_ren_pos. xstep.
  pose proof (tr_uc_slen m b s 0 d fuel Hs Hnn ltac:(lia) Hf Hmax) as E. change (Z.of_nat 0) with 0 in E.
  rewrite E; clear E. xstep. cbn [skipn]. rewrite Hpos. xstep.
  destruct (Z.ltb_spec off (Z.of_nat (uc_slen s))); xstep.
  - xld Hm1 Hok. rewrite (free_int_arr m1 g l Hm1) by lia. xstep. reflexivity.
  - rewrite (free_int_arr m1 g l Hm1) by lia. xstep. reflexivity.
Qed.

(* with the model's column array in the block, these are the model's ren_off and ren_pos *)
Lemma ren_off_model dr o s p : Z.of_nat (ren_off_pos (RenDefs.ren_position dr o s) (uc_slen s) p) = Z.of_nat (RenDefs.ren_off dr o s p).
Proof. reflexivity. Qed.
Lemma ren_pos_model dr o s off : 0 <= off ->
  (if off <? Z.of_nat (uc_slen s) then nthz (RenDefs.ren_position dr o s) off else 0) = RenDefs.ren_pos dr o s off.
Proof. reflexivity. Qed.

(* ------------------------------------------------------------------ ren_next and ren_cursor, RELATIVE to ren_position *)
(* what is assumed of one call of the translated ren_position: it returns a pointer to a block holding l and
   leaves the string and the static "" of uc_chr where they are *)
Definition pos_call (fuel D : nat) (m : mem) (b : nat) (s : bytes) (l : list Z) (g : nat) (m1 : mem) : Prop :=
  callf cprog fuel D F_ren_position [VPtr b 0] m = Ok (VPtr g 0, m1) /\ int_arr_at m1 g l /\ str_at m1 b s /\ g <> b /\
  nth_error m1 G_lit__0 = Some gb_lit__0 /\ g <> G_lit__0.

Definition ren_next_l (l : list Z) (s : bytes) (p dir : Z) : Z :=
  let n := uc_slen s in
  let p1 := pos_prev l n p true in
  let p2 := if 0 <=? dir then pos_next l n p1 false else pos_prev l n p1 false in
  if negb (hd0 (chr_suffix s (ren_off_pos l n p2)) =? 10)%N then p2 else -1.
Lemma ren_next_model dr o s p dir : ren_next_l (RenDefs.ren_position dr o s) s p dir = RenDefs.ren_next dr o s p dir.
Proof. reflexivity. Qed.

Lemma ok_firstn_next l n (cur : bool) : next_ok l cur -> next_ok (firstn n l) cur.
Proof. apply Forall_firstn'. Qed.
Lemma ok_firstn_prev l n (cur : bool) : prev_ok l cur -> prev_ok (firstn n l) cur.
Proof. apply Forall_firstn'. Qed.
Lemma prev_ok_true l : ints_ok l -> prev_ok l true.
Proof. unfold prev_ok, ints_ok. apply Forall_impl. intros; lia. Qed.
Lemma lt_length_of_arr (m : mem) g l : int_arr_at m g l -> (g < length m)%nat.
Proof. intro H. apply nth_error_Some. unfold int_arr_at in H. congruence. Qed.
Lemma cc_nl_ne : forall c, (c < 256)%N -> negb (wrap I32 (wrap I8 (Z.of_N c)) =? 10) = negb (c =? 10)%N.
Proof. intros c Hc. rewrite cc_nl by exact Hc. reflexivity. Qed.

(* the first byte of uc_chr(s, off) in a memory that holds s and the static "" *)
Lemma load_chr_val m b s r : str_at m b s -> nth_error m G_lit__0 = Some gb_lit__0 ->
  (match r with Some q => (q <= length s)%nat | None => True end) ->
  match chr_val b r with
  | VPtr b' o' => load m b' (o' + 1 * 0)
  | _ => Err EType
  end = Ok (VInt (Z.of_N (hd0 (match r with Some q => skipn q s | None => [] end)))).
Proof.
  intros Hs Hl Hq. destruct r as [q|]; cbn [chr_val].
  - replace (Z.of_nat q + 1 * 0) with (Z.of_nat q) by lia. rewrite (load_str m b s _ q Hs) by lia.
    rewrite hd0_skipn'. reflexivity.
  - unfold load. rewrite Hl. reflexivity.
Qed.

Ltac fin_chr s l n p2 H256 Hm4 Hl4 :=
  unfold chr_suffix;
  let q := fresh "q" in let Eq := fresh "Eq" in
  destruct (uc_chr s (Z.of_nat (ren_off_pos l n p2))) as [q|] eqn:Eq; cbn [option_map chr_val]; xstep;
  [ assert (q <= length s)%nat by (apply uc_chr_f_le in Eq; lia);
    replace (Z.of_nat (0 + q) + 1 * 0) with (Z.of_nat q) by lia; rewrite (load_str _ _ s _ q Hm4) by lia; xstep;
    rewrite (cc_nl _ (nthb_lt256 s q H256)), hd0_skipn'; destruct (nthb s q =? 10)%N; xstep; reflexivity
  | unfold load; rewrite Hl4; reflexivity ].

Theorem tr_ren_next_rel m m1 m3 b s g g' l p dir d fuel :
  str_at m b s -> nonul s -> (length s < fuel)%nat -> Z.of_nat (length s) <= 2147483647 ->
  pos_call fuel (S (S (S d))) m b s l g m1 ->
  pos_call fuel (S (S d)) (upd m1 g []) b s l g' m3 ->
  ints_ok l -> (uc_slen s < length l)%nat -> next_ok l false -> prev_ok l false ->
  callf cprog fuel (S (S (S (S d)))) F_ren_next [VPtr b 0; VInt p; VInt dir] m
  = Ok (VInt (ren_next_l l s p dir), upd m3 g' []).
Proof.
  intros Hs Hnn Hf Hmax [P1 [A1 [S1 [N1 [L1 NG1]]]]] [P2 [A3 [S3 [N3 [L3 NG3]]]]] Hok Hl Hnx Hpv.
  pose proof (nonul_lt256 s Hnn) as H256. pose proof (uc_slen_le s) as Hn.
  enter F_ren_next cf_ren_next. xstep.
  pose proof (tr_uc_slen m b s 0 (S d) fuel Hs Hnn ltac:(lia) Hf Hmax) as E. change (Z.of_nat 0) with 0 in E.
  rewrite E; clear E. xstep. cbn [skipn]. rewrite P1. xstep.
  set (n := uc_slen s) in *.
  rewrite (tr_pos_prev m1 g l n p 1 (S (S d)) fuel A1 Hok ltac:(lia) ltac:(lia) (ok_firstn_prev _ _ _ (prev_ok_true l Hok)) ltac:(lia)).
  xstep. change (negb (1 =? 0)) with true. set (p1 := pos_prev l n p true).
  unfold ren_next_l. fold n. fold p1.
  assert (Hm2 : str_at (upd m1 g []) b s) by (apply str_at_upd_other; [exact (lt_length_of_arr _ _ _ A1)|congruence|exact S1]).
  assert (Hm4 : str_at (upd m3 g' []) b s) by (apply str_at_upd_other; [exact (lt_length_of_arr _ _ _ A3)|congruence|exact S3]).
  assert (Hl4 : nth_error (upd m3 g' []) G_lit__0 = Some gb_lit__0)
    by (rewrite mem_upd_other; [exact L3|exact (lt_length_of_arr _ _ _ A3)|congruence]).
  destruct (Z.leb_spec 0 dir) as [Hd|Hd]; xstep.
  - rewrite (tr_pos_next m1 g l n p1 0 (S (S d)) fuel A1 Hok ltac:(lia) ltac:(lia) (ok_firstn_next _ _ _ Hnx) ltac:(lia)).
    xstep. change (negb (0 =? 0)) with false. set (p2 := pos_next l n p1 false).
    rewrite (free_int_arr m1 g l A1) by lia. xstep.
    rewrite (tr_ren_off_rel (upd m1 g []) m3 b s g' l p2 d fuel Hm2 Hnn Hf Hmax P2 A3 Hok Hl). fold n. xstep.
    rewrite (tr_uc_chr (upd m3 g' []) b s 0 _ d fuel Hm4 Hnn ltac:(lia) Hf Hmax). cbn [skipn]. xstep.
    fin_chr s l n p2 H256 Hm4 Hl4.
  - rewrite (tr_pos_prev m1 g l n p1 0 (S (S d)) fuel A1 Hok ltac:(lia) ltac:(lia) (ok_firstn_prev _ _ _ Hpv) ltac:(lia)).
    xstep. change (negb (0 =? 0)) with false. set (p2 := pos_prev l n p1 false).
    rewrite (free_int_arr m1 g l A1) by lia. xstep.
    rewrite (tr_ren_off_rel (upd m1 g []) m3 b s g' l p2 d fuel Hm2 Hnn Hf Hmax P2 A3 Hok Hl). fold n. xstep.
    rewrite (tr_uc_chr (upd m3 g' []) b s 0 _ d fuel Hm4 Hnn ltac:(lia) Hf Hmax). cbn [skipn]. xstep.
    fin_chr s l n p2 H256 Hm4 Hl4.
Qed.

Definition ren_cursor_l (l : list Z) (s : bytes) (p : Z) : Z :=
  let n := uc_slen s in
  let p1 := pos_prev l n p true in
  let p2 := if (uc_code (chr_suffix s (ren_off_pos l n p1)) =? 10)%N then pos_prev l n p1 false else p1 in
  let next := pos_next l n p2 false in
  let p3 := (if 0 <=? next then next else nth n l 0) - 1 in
  if 0 <=? p3 then p3 else 0.
Lemma ren_cursor_model dr o s p : ren_cursor_l (RenDefs.ren_position dr o s) s p = RenDefs.ren_cursor dr o s p.
Proof. reflexivity. Qed.

Lemma pos_next_f_in (P : Z -> Prop) pos p cur : Forall P pos -> forall ret,
  match ret with Some y => P y | None => True end ->
  match pos_next_f pos p cur ret with Some y => P y | None => True end.
Proof.
  induction 1 as [|x pos Hx _ IH]; intros ret Hr; cbn [pos_next_f]; [exact Hr|]. apply IH.
  destruct ((p <=? x - (if cur then 0 else 1)) && match ret with Some y => x <? y | None => true end); assumption.
Qed.
Lemma pos_next_int l n p cur : ints_ok l -> -2147483648 <= pos_next l n p cur <= 2147483647.
Proof.
  intro H. unfold pos_next.
  pose proof (pos_next_f_in (fun z => -2147483648 <= z <= 2147483647) (firstn n l) p cur (Forall_firstn' _ n l H) None I) as K.
  destruct (pos_next_f (firstn n l) p cur None); cbn [optz]; lia.
Qed.
Lemma of_N_eqb10 c : (Z.of_N c =? 10) = (c =? 10)%N.
Proof. destruct (Z.eqb_spec (Z.of_N c) 10); destruct (N.eqb_spec c 10); try reflexivity; lia. Qed.

Ltac fin_cur m4 g l n d fuel A4 Hok Hnx Hl :=
  match goal with |- context [callf cprog fuel _ F_pos_next [VPtr g 0; VInt (Z.of_nat n); VInt ?p2; VInt 0] m4] =>
    rewrite (tr_pos_next m4 g l n p2 0 (S (S d)) fuel A4 Hok) by first [lia | exact (ok_firstn_next _ _ _ Hnx)];
    xstep; change (negb (0 =? 0)) with false; cbv zeta;
    let Hni := fresh "Hni" in pose proof (pos_next_int l n p2 false Hok) as Hni;
    let next := fresh "next" in set (next := pos_next l n p2 false) in *;
    let H0 := fresh "H0" in
    destruct (Z.leb_spec 0 next) as [H0|H0]; xstep;
    [ rewrite chk_I32 by lia; xstep; rewrite (free_int_arr m4 g l A4) by lia; xstep;
      destruct (0 <=? next - 1); xstep; reflexivity
    | xld A4 Hok; unfold nthz; rewrite Nat2Z.id;
      let Hx := fresh "Hx" in
      assert (Hx : -2147483648 <= nth n l 0 - 1 /\ nth n l 0 <= 2147483647) by
        (split; [ unfold next_ok in Hnx; rewrite Forall_forall in Hnx; apply (Hnx (nth n l 0)); apply nth_In; lia
                | let K := fresh "K" in pose proof (nthz_ok l (Z.of_nat n) Hok) as K; unfold nthz in K; rewrite Nat2Z.id in K; lia ]);
      rewrite chk_I32 by lia; xstep; rewrite (free_int_arr m4 g l A4) by lia; xstep;
      destruct (0 <=? nth n l 0 - 1); xstep; reflexivity ]
  end.

Theorem tr_ren_cursor_rel m m1 m3 b s g g' l p d fuel :
  str_at m b s -> nonul s -> (length s < fuel)%nat -> Z.of_nat (length s) <= 2147483647 ->
  (forall q, (q <= length s)%nat -> (q + uc_len_b (nthb s q) - 1 <= length s)%nat) ->   (* no truncated sequence: uc_code reads uc_len bytes *)
  pos_call fuel (S (S (S d))) m b s l g m1 ->
  pos_call fuel (S (S d)) m1 b s l g' m3 -> int_arr_at m3 g l -> g <> g' ->
  ints_ok l -> (uc_slen s < length l)%nat -> next_ok l false -> prev_ok l false ->
  callf cprog fuel (S (S (S (S d)))) F_ren_cursor [VPtr b 0; VInt p] m
  = Ok (VInt (ren_cursor_l l s p), upd (upd m3 g' []) g []).
Proof.
  intros Hs Hnn Hf Hmax Hcomp [P1 [A1 [S1 [N1 [L1 NG1]]]]] [P2 [A3 [S3 [N3 [L3 NG3]]]]] A3g Hgg Hok Hl Hnx Hpv.
  pose proof (nonul_lt256 s Hnn) as H256. pose proof (uc_slen_le s) as Hn.
  enter F_ren_cursor cf_ren_cursor. xstep.
  pose proof (tr_uc_slen m b s 0 (S d) fuel Hs Hnn ltac:(lia) Hf Hmax) as E. change (Z.of_nat 0) with 0 in E.
  rewrite E; clear E. xstep. cbn [skipn]. rewrite P1. xstep.
  set (n := uc_slen s) in *.
  rewrite (tr_pos_prev m1 g l n p 1 (S (S d)) fuel A1 Hok ltac:(lia) ltac:(lia) (ok_firstn_prev _ _ _ (prev_ok_true l Hok)) ltac:(lia)).
  xstep. change (negb (1 =? 0)) with true. set (p1 := pos_prev l n p true).
  unfold ren_cursor_l. fold n. fold p1.
  set (m4 := upd m3 g' []).
  assert (Hm4 : str_at m4 b s) by (apply str_at_upd_other; [exact (lt_length_of_arr _ _ _ A3)|congruence|exact S3]).
  assert (Hl4 : nth_error m4 G_lit__0 = Some gb_lit__0)
    by (unfold m4; rewrite mem_upd_other; [exact L3|exact (lt_length_of_arr _ _ _ A3)|congruence]).
  assert (A4 : int_arr_at m4 g l)
    by (unfold int_arr_at, m4; rewrite mem_upd_other; [exact A3g|exact (lt_length_of_arr _ _ _ A3)|exact Hgg]).
  rewrite (tr_ren_off_rel m1 m3 b s g' l p1 d fuel S1 Hnn Hf Hmax P2 A3 Hok Hl). fold n. fold m4. xstep.
  rewrite (tr_uc_chr m4 b s 0 _ d fuel Hm4 Hnn ltac:(lia) Hf Hmax). cbn [skipn]. xstep.
  unfold chr_suffix.
  destruct (uc_chr s (Z.of_nat (ren_off_pos l n p1))) as [q|] eqn:Eq; cbn [option_map chr_val]; xstep.
  - assert (q <= length s)%nat by (apply uc_chr_f_le in Eq; lia).
    rewrite (tr_uc_code m4 b s (0 + q) (S (S d)) fuel Hm4 H256 ltac:(apply Hcomp; lia) ltac:(lia)). xstep.
    rewrite of_N_eqb10. cbn [plus].
    destruct (uc_code (skipn q s) =? 10)%N; xstep.
    + rewrite (tr_pos_prev m4 g l n p1 0 (S (S d)) fuel A4 Hok ltac:(lia) ltac:(lia) (ok_firstn_prev _ _ _ Hpv) ltac:(lia)).
      xstep. change (negb (0 =? 0)) with false. fin_cur m4 g l n d fuel A4 Hok Hnx Hl.
    + fin_cur m4 g l n d fuel A4 Hok Hnx Hl.
  - change 0 with (Z.of_nat 0) at 1.
    rewrite (tr_uc_code m4 G_lit__0 [] 0 (S (S d)) fuel Hl4 (Forall_nil _) ltac:(cbn; lia) ltac:(cbn; lia)). xstep.
    cbn [skipn]. change (Z.of_N (uc_code []) =? 10) with false. change (uc_code [] =? 10)%N with false. xstep.
    fin_cur m4 g l n d fuel A4 Hok Hnx Hl.
Qed.

(* for the Examples: name the results of a call without writing the (large) memory down *)
Definition getg (r : res (val * mem)) : nat := match r with Ok (VPtr g _, _) => g | _ => O end.
Definition getm (r : res (val * mem)) : mem := match r with Ok (_, m) => m | Err _ => [] end.
Definition retv (r : res (val * mem)) : res val := match r with Ok (v, _) => Ok v | Err e => Err e end.
Definition is_okptr (r : res (val * mem)) : bool := match r with Ok (VPtr _ 0, _) => true | _ => false end.
Lemma okptr_eq r : is_okptr r = true -> r = Ok (VPtr (getg r) 0, getm r).
Proof. destruct r as [[[| |g o] m]|e]; cbn; try discriminate. destruct o; try discriminate. reflexivity. Qed.
