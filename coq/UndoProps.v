(* UndoProps.v -- proofs about the edit-log model of UndoDefs.v (C04; basis of C02).
   Started from the design-round prototype (DESIGN.md Appendix E.3). *)
From Coq Require Import List Arith NArith ZArith Lia Bool.
From NV Require Import Bytes GenConsts UndoDefs.
Import ListNotations.

(* ------------------------------------------------------------------------------------------ *)
(* splices *)
Section Splice.
Context {A : Type}.
Implicit Types t new : list A.

Lemma replace_length new p nd t : p + nd <= length t -> length (replace new p nd t) = length t + length new - nd.
Proof. intro H. unfold replace. rewrite !app_length, firstn_length, skipn_length. lia. Qed.

Lemma slice_replace new p nd t : p <= length t -> slice (replace new p nd t) p (length new) = new.
Proof.
  intro H. unfold slice, replace.
  rewrite skipn_app, skipn_all2 by (rewrite firstn_length; lia). rewrite firstn_length.
  replace (p - Nat.min p (length t)) with 0 by lia. cbn [skipn app].
  rewrite firstn_app, Nat.sub_diag, firstn_all. cbn [firstn]. apply app_nil_r.
Qed.

(* lbuf_undo's splice is the exact inverse of lbuf_edit's *)
Lemma replace_inverse new p nd t : p + nd <= length t ->
  replace (slice t p nd) p (length new) (replace new p nd t) = t.
Proof.
  intro H. unfold replace at 1. unfold slice.
  assert (F : firstn p (replace new p nd t) = firstn p t).
  { unfold replace. rewrite firstn_app, firstn_firstn, firstn_length.
    replace (Nat.min p p) with p by lia. replace (p - Nat.min p (length t)) with 0 by lia. cbn [firstn]. apply app_nil_r. }
  assert (K : skipn (p + length new) (replace new p nd t) = skipn (p + nd) t).
  { unfold replace. rewrite skipn_app, firstn_length.
    rewrite skipn_all2 by (rewrite firstn_length; lia).
    replace (p + length new - Nat.min p (length t)) with (length new) by lia. cbn [app].
    rewrite skipn_app, skipn_all, Nat.sub_diag. reflexivity. }
  rewrite F, K.
  rewrite <- (firstn_skipn p t) at 4. f_equal.
  rewrite <- (firstn_skipn nd (skipn p t)) at 2. f_equal.
  rewrite skipn_skipn. reflexivity.
Qed.

Lemma slice_length t p n : p + n <= length t -> length (slice t p n) = n.
Proof. intro H. unfold slice. rewrite firstn_length, skipn_length. lia. Qed.

Lemma Forall_replace (P : A -> Prop) new p nd t : Forall P new -> Forall P t -> Forall P (replace new p nd t).
Proof.
  intros Hn Ht. unfold replace. apply Forall_app; split; [apply Forall_firstn'; exact Ht|].
  apply Forall_app; split; [exact Hn | apply Forall_skipn'; exact Ht].
Qed.
End Splice.

(* ------------------------------------------------------------------------------------------ *)
(* lines: what lbuf_replace stores for a string, and that lbuf_cp followed by re-splitting gives
   the same lines back *)
Lemma lines_of_nonempty c s : lines_of (c :: s) <> [].
Proof. cbn [lines_of]. destruct (N.eqb c NL); [discriminate|]. destruct (lines_of s); discriminate. Qed.

Lemma lines_of_wf s : Forall line_wf (lines_of s).
Proof.
  induction s as [|c s IH]; cbn [lines_of]; [constructor|].
  destruct (N.eqb c NL) eqn:E.
  - constructor; [|exact IH]. unfold line_wf. cbn. reflexivity.
  - destruct (lines_of s) as [|l r] eqn:L.
    + constructor; [|constructor]. unfold line_wf. cbn [line_wfb]. rewrite E. reflexivity.
    + inversion IH as [|? ? Hl Hr]; subst. constructor; [|exact Hr].
      unfold line_wf in *. destruct l as [|d l']; [discriminate Hl|].
      cbn [line_wfb]. cbn [line_wfb] in Hl. rewrite E. cbn [negb andb]. exact Hl.
Qed.

Lemma lines_opt_wf s : Forall line_wf (lines_opt s).
Proof. destruct s; cbn [lines_opt]; [apply lines_of_wf | constructor]. Qed.

Lemma lines_of_line l rest : line_wf l -> lines_of (l ++ rest) = l :: lines_of rest.
Proof.
  unfold line_wf. induction l as [|c l IH]; intro W; [discriminate W|].
  cbn [line_wfb] in W. destruct l as [|d l'].
  - cbn [app lines_of]. rewrite W. apply N.eqb_eq in W. subst c. reflexivity.
  - apply andb_prop in W. destruct W as [W1 W2]. apply negb_true_iff in W1.
    change ((c :: d :: l') ++ rest) with (c :: ((d :: l') ++ rest)).
    cbn [lines_of]. rewrite W1.
    change (match lines_of ((d :: l') ++ rest) with [] => [[c; NL]] | l :: r => (c :: l) :: r end = (c :: d :: l') :: lines_of rest).
    rewrite (IH W2). reflexivity.
Qed.

Lemma lines_of_concat ls : Forall line_wf ls -> lines_of (concat ls) = ls.
Proof.
  induction ls as [|l ls IH]; intro W; [reflexivity|]. inversion W; subst.
  cbn [concat]. rewrite lines_of_line by assumption. f_equal. apply IH. assumption.
Qed.

(* ------------------------------------------------------------------------------------------ *)
(* log entries as text transformers; the ghost chain *)
Definition ins_t (o : lopt) : text := lines_opt (ins o).
Definition del_t (o : lopt) : text := lines_opt (del o).
Definition fwd (o : lopt) (t : text) : text := replace (ins_t o) (pos o) (n_del o) t.   (* lbuf_redo's splice *)
Definition bwd (o : lopt) (t : text) : text := replace (del_t o) (pos o) (n_ins o) t.   (* lbuf_undo's splice *)
Definition applies (o : lopt) (t : text) : Prop :=
  pos o + n_del o <= length t /\ slice t (pos o) (n_del o) = del_t o /\ n_ins o = length (ins_t o).

Lemma bwd_fwd o t : applies o t -> bwd o (fwd o t) = t.
Proof. intros (H1 & H2 & H3). unfold bwd, fwd. rewrite <- H2, H3. apply replace_inverse. exact H1. Qed.

Fixpoint chain (g0 : text) (h : list lopt) : list text :=
  match h with
  | [] => [g0]
  | o :: h' => g0 :: chain (fwd o g0) h'
  end.
Fixpoint chain_ok (g0 : text) (h : list lopt) : Prop :=
  match h with
  | [] => True
  | o :: h' => applies o g0 /\ chain_ok (fwd o g0) h'
  end.
Definition Inv (lb : lbuf) (g0 : text) : Prop :=
  chain_ok g0 (hist lb) /\ hist_u lb <= length (hist lb) /\
  nth (hist_u lb) (chain g0 (hist lb)) [] = ln lb /\ Forall line_wf (ln lb).

Lemma chain_length g0 h : length (chain g0 h) = S (length h).
Proof. revert g0; induction h; intro g0; cbn; auto. Qed.

Lemma chain_step g0 h i d : chain_ok g0 h -> i < length h ->
  applies (nth i h d) (nth i (chain g0 h) []) /\ nth (S i) (chain g0 h) [] = fwd (nth i h d) (nth i (chain g0 h) []).
Proof.
  revert g0 i. induction h as [|o h IH]; intros g0 i C Hi; cbn in Hi; [lia|]. destruct C as [A K].
  destruct i as [|i]; cbn [nth chain].
  - split; [exact A|]. destruct h; reflexivity.
  - apply IH; [exact K | lia].
Qed.

Lemma undo1_ln lb : ln (undo1 lb) = bwd (nth (hist_u lb - 1) (hist lb) dflt) (ln lb).
Proof. reflexivity. Qed.
Lemma redo1_ln lb : ln (redo1 lb) = fwd (nth (hist_u lb) (hist lb) dflt) (ln lb).
Proof. reflexivity. Qed.

Lemma fwd_wf o t : Forall line_wf t -> Forall line_wf (fwd o t).
Proof. intro W. apply Forall_replace; [apply lines_opt_wf | exact W]. Qed.
Lemma bwd_wf o t : Forall line_wf t -> Forall line_wf (bwd o t).
Proof. intro W. apply Forall_replace; [apply lines_opt_wf | exact W]. Qed.

Theorem redo1_inv lb g0 : Inv lb g0 -> hist_u lb < length (hist lb) ->
  Inv (redo1 lb) g0 /\ ln (redo1 lb) = nth (S (hist_u lb)) (chain g0 (hist lb)) [].
Proof.
  intros (C & Hu & T & W) H.
  destruct (chain_step g0 (hist lb) (hist_u lb) dflt C H) as [A E].
  assert (X : ln (redo1 lb) = nth (S (hist_u lb)) (chain g0 (hist lb)) []) by (rewrite redo1_ln, E, T; reflexivity).
  split; [|exact X]. unfold Inv. rewrite X. cbn [redo1 lbuf_replace set_ln set_hu hist hist_u].
  split; [exact C|]. split; [lia|]. split; [reflexivity|]. rewrite <- X, redo1_ln. apply fwd_wf, W.
Qed.

Theorem undo1_inv lb g0 : Inv lb g0 -> 0 < hist_u lb ->
  Inv (undo1 lb) g0 /\ ln (undo1 lb) = nth (hist_u lb - 1) (chain g0 (hist lb)) [].
Proof.
  intros (C & Hu & T & W) H.
  destruct (chain_step g0 (hist lb) (hist_u lb - 1) dflt C ltac:(lia)) as [A E].
  replace (S (hist_u lb - 1)) with (hist_u lb) in E by lia.
  assert (X : ln (undo1 lb) = nth (hist_u lb - 1) (chain g0 (hist lb)) []).
  { rewrite undo1_ln, <- T, E. apply bwd_fwd. exact A. }
  split; [|exact X]. unfold Inv. rewrite X. cbn [undo1 lbuf_replace set_ln set_hu hist hist_u].
  split; [exact C|]. split; [lia|]. split; [reflexivity|]. rewrite <- X, undo1_ln. apply bwd_wf, W.
Qed.

(* --- logging a new edit: lbuf_opt truncates above hist_u, appends; lbuf_replace splices --- *)
Definition edit_core (lb : lbuf) (buf : option (list N)) (p nd : nat) : lbuf :=
  lbuf_replace (lbuf_opt lb buf p nd) buf p nd.
Definition new_entry (lb : lbuf) (buf : option (list N)) (p nd : nat) : lopt :=
  {| pos := p; n_del := nd; del := if Nat.eqb nd 0 then None else Some (lbuf_cp lb p (p + nd));
     n_ins := linecount buf; ins := buf; seq := useq lb |}.

Lemma edit_core_hist lb buf p nd : hist (edit_core lb buf p nd) = firstn (hist_u lb) (hist lb) ++ [new_entry lb buf p nd].
Proof. reflexivity. Qed.
Lemma edit_core_hu lb buf p nd : hist_u (edit_core lb buf p nd) = S (hist_u lb).
Proof. reflexivity. Qed.
Lemma edit_core_ln lb buf p nd : ln (edit_core lb buf p nd) = replace (lines_opt buf) p nd (ln lb).
Proof. reflexivity. Qed.
Lemma edit_core_useq lb buf p nd : useq (edit_core lb buf p nd) = useq lb.
Proof. reflexivity. Qed.

Lemma chain_ok_firstn g0 h n : chain_ok g0 h -> chain_ok g0 (firstn n h).
Proof. revert g0 n; induction h as [|o h IH]; intros g0 n C; destruct n; cbn in *; auto. destruct C; split; auto. Qed.
Lemma chain_firstn g0 h n i : i <= n -> n <= length h -> nth i (chain g0 (firstn n h)) [] = nth i (chain g0 h) [].
Proof.
  revert g0 n i; induction h as [|o h IH]; intros g0 n i Hi Hn; cbn in Hn.
  - assert (n = 0) by lia. subst. reflexivity.
  - destruct n; [assert (i = 0) by lia; subst; cbn; destruct h; reflexivity|].
    cbn [firstn chain]. destruct i; [reflexivity|]. cbn [nth]. apply IH; lia.
Qed.
Lemma chain_ok_snoc g0 h o : chain_ok g0 h -> applies o (nth (length h) (chain g0 h) []) -> chain_ok g0 (h ++ [o]).
Proof. revert g0; induction h as [|x h IH]; intros g0 C A; cbn in *; auto. destruct C; split; auto. Qed.
Lemma chain_snoc g0 h o i : i <= length h -> nth i (chain g0 (h ++ [o])) [] = nth i (chain g0 h) [].
Proof.
  revert g0 i; induction h as [|x h IH]; intros g0 i Hi; cbn in Hi.
  - assert (i = 0) by lia. subst. reflexivity.
  - cbn [app chain]. destruct i; [reflexivity|]. cbn [nth]. apply IH. lia.
Qed.
Lemma chain_snoc_last g0 h o : nth (S (length h)) (chain g0 (h ++ [o])) [] = fwd o (nth (length h) (chain g0 h) []).
Proof. revert g0; induction h as [|x h IH]; intro g0; cbn [app chain length nth]; auto. Qed.

Lemma new_entry_applies lb buf p nd : Forall line_wf (ln lb) -> p + nd <= length (ln lb) ->
  applies (new_entry lb buf p nd) (ln lb).
Proof.
  intros W H. unfold applies, new_entry, del_t, ins_t; cbn [pos n_del del n_ins ins]. split; [exact H|]. split; [|reflexivity].
  destruct (Nat.eqb nd 0) eqn:E.
  - apply Nat.eqb_eq in E. subst nd. reflexivity.
  - cbn [lines_opt]. unfold lbuf_cp. replace (p + nd - p) with nd by lia.
    symmetry. apply lines_of_concat. unfold slice. apply Forall_firstn', Forall_skipn', W.
Qed.

Theorem edit_inv lb g0 buf p nd : Inv lb g0 -> p + nd <= length (ln lb) ->
  Inv (edit_core lb buf p nd) g0 /\ length (hist (edit_core lb buf p nd)) = hist_u (edit_core lb buf p nd).
Proof.
  intros (C & Hu & T & W) H. set (o := new_entry lb buf p nd).
  assert (L : length (firstn (hist_u lb) (hist lb)) = hist_u lb) by (rewrite firstn_length; lia).
  assert (Tn : nth (hist_u lb) (chain g0 (firstn (hist_u lb) (hist lb))) [] = ln lb) by (rewrite chain_firstn by lia; exact T).
  assert (A : applies o (ln lb)) by (apply new_entry_applies; assumption).
  split.
  - unfold Inv. rewrite edit_core_hist, edit_core_hu, edit_core_ln. fold o. repeat split.
    + apply chain_ok_snoc; [apply chain_ok_firstn; exact C|]. rewrite L, Tn. exact A.
    + rewrite app_length, L. cbn. lia.
    + rewrite <- L at 1. rewrite chain_snoc_last, L, Tn. reflexivity.
    + apply Forall_replace; [apply lines_opt_wf | exact W].
  - rewrite edit_core_hist, edit_core_hu, app_length, L. cbn. lia.
Qed.

(* ------------------------------------------------------------------------------------------ *)
(* The loops of lbuf_undo / lbuf_redo: all entries with the sequence number of the first one,  *)
(* and where they stop.                                                                        *)
Fixpoint back (h : list lopt) (q : Z) (i : nat) : nat :=
  match i with O => O | S i' => if Z.eqb (seq_at h i') q then back h q i' else S i' end.
Fixpoint forth (h : list lopt) (q : Z) (fuel i : nat) : nat :=
  match fuel with O => i | S f => if Nat.ltb i (length h) && Z.eqb (seq_at h i) q then forth h q f (S i) else i end.

Lemma back_le h q i : back h q i <= i.
Proof. induction i; cbn [back]; [lia|]. destruct (Z.eqb (seq_at h i) q); lia. Qed.

Lemma undo1_fields lb : hist (undo1 lb) = hist lb /\ hist_u (undo1 lb) = hist_u lb - 1 /\ useq (undo1 lb) = useq lb /\
  useq_zero (undo1 lb) = useq_zero lb /\ useq_last (undo1 lb) = useq_last lb /\ hist_sz (undo1 lb) = hist_sz lb.
Proof. repeat split. Qed.
Lemma redo1_fields lb : hist (redo1 lb) = hist lb /\ hist_u (redo1 lb) = S (hist_u lb) /\ useq (redo1 lb) = useq lb /\
  useq_zero (redo1 lb) = useq_zero lb /\ useq_last (redo1 lb) = useq_last lb /\ hist_sz (redo1 lb) = hist_sz lb.
Proof. repeat split. Qed.

Definition same_ctrs (a b : lbuf) : Prop :=
  hist a = hist b /\ useq a = useq b /\ useq_zero a = useq_zero b /\ useq_last a = useq_last b /\ hist_sz a = hist_sz b.

Lemma undo_loop_spec g0 q : forall fuel lb, Inv lb g0 -> hist_u lb <= fuel ->
  let lb' := undo_loop fuel q lb in
  Inv lb' g0 /\ same_ctrs lb' lb /\ hist_u lb' = back (hist lb) q (hist_u lb).
Proof.
  induction fuel as [|f IH]; intros lb I Hf; cbn [undo_loop].
  - assert (hist_u lb = 0) by lia. rewrite H. cbn [back]. unfold same_ctrs. auto 10.
  - destruct (hist_u lb) as [|u] eqn:E.
    + cbn [Nat.ltb Nat.leb andb back]. unfold same_ctrs. auto 10.
    + replace (Nat.ltb 0 (S u)) with true by (symmetry; apply Nat.ltb_lt; lia). cbn [andb].
      replace (S u - 1) with u by lia. cbn [back].
      destruct (Z.eqb (seq_at (hist lb) u) q) eqn:Q; [|rewrite E; unfold same_ctrs; auto 10].
      destruct (undo1_inv lb g0 I ltac:(lia)) as [I1 _].
      specialize (IH (undo1 lb) I1).
      destruct (undo1_fields lb) as (F1 & F2 & F3 & F4 & F5 & F6).
      rewrite F2, E in IH. replace (S u - 1) with u in IH by lia.
      destruct (IH ltac:(lia)) as (J1 & J2 & J3). cbv zeta.
      split; [exact J1|]. split; [|rewrite J3, F1; reflexivity].
      unfold same_ctrs in *. rewrite F1, F3, F4, F5, F6 in J2. exact J2.
Qed.

Theorem undo_spec lb g0 : Inv lb g0 ->
  match lbuf_undo lb with
  | None => hist_u lb = 0                                        (* "undo failed", nothing touched *)
  | Some lb' => Inv lb' g0 /\ same_ctrs lb' lb /\
                hist_u lb' = back (hist lb) (seq_at (hist lb) (hist_u lb - 1)) (hist_u lb) /\ hist_u lb' < hist_u lb /\
                ln lb' = nth (hist_u lb') (chain g0 (hist lb)) []
  end.
Proof.
  intro I. unfold lbuf_undo. destruct (Nat.eqb (hist_u lb) 0) eqn:E; [apply Nat.eqb_eq in E; exact E|].
  apply Nat.eqb_neq in E.
  destruct (undo_loop_spec g0 (seq_at (hist lb) (hist_u lb - 1)) (hist_u lb) lb I ltac:(lia)) as (I' & H1 & H3).
  cbv zeta in *.
  split; [exact I'|]. split; [exact H1|]. split; [exact H3|]. split.
  - rewrite H3. destruct (hist_u lb) as [|u]; [lia|]. cbn [back]. replace (S u - 1) with u by lia.
    rewrite Z.eqb_refl. pose proof (back_le (hist lb) (seq_at (hist lb) u) u). lia.
  - destruct I' as (_ & _ & T & _). destruct H1 as (H1 & _). rewrite H1 in T. symmetry. exact T.
Qed.

Lemma redo_loop_spec g0 q : forall fuel lb, Inv lb g0 ->
  let lb' := redo_loop fuel q lb in
  Inv lb' g0 /\ same_ctrs lb' lb /\ hist_u lb' = forth (hist lb) q fuel (hist_u lb).
Proof.
  induction fuel as [|f IH]; intros lb I; cbn [redo_loop forth]; [unfold same_ctrs; auto 10|].
  destruct (Nat.ltb (hist_u lb) (length (hist lb)) && Z.eqb (seq_at (hist lb) (hist_u lb)) q) eqn:Q; [|unfold same_ctrs; auto 10].
  apply andb_prop in Q. destruct Q as [Q1 Q2]. apply Nat.ltb_lt in Q1.
  destruct (redo1_inv lb g0 I Q1) as [I1 _].
  specialize (IH (redo1 lb) I1).
  destruct (redo1_fields lb) as (F1 & F2 & F3 & F4 & F5 & F6).
  rewrite F1, F2 in IH. destruct IH as (J1 & J2 & J3). cbv zeta.
  split; [exact J1|]. split; [|exact J3].
  unfold same_ctrs in *. rewrite F1, F3, F4, F5, F6 in J2. exact J2.
Qed.

Lemma forth_ge h q : forall f i, i <= forth h q f i.
Proof. induction f; intro i; cbn [forth]; [lia|]. destruct (_ && _); [specialize (IHf (S i)); lia | lia]. Qed.

Theorem redo_spec lb g0 : Inv lb g0 ->
  match lbuf_redo lb with
  | None => hist_u lb = length (hist lb)
  | Some lb' => Inv lb' g0 /\ same_ctrs lb' lb /\
                hist_u lb' = forth (hist lb) (seq_at (hist lb) (hist_u lb)) (length (hist lb) - hist_u lb) (hist_u lb) /\
                hist_u lb < hist_u lb' /\
                ln lb' = nth (hist_u lb') (chain g0 (hist lb)) []
  end.
Proof.
  intro I. unfold lbuf_redo. destruct (Nat.eqb (hist_u lb) (length (hist lb))) eqn:E; [apply Nat.eqb_eq in E; exact E|].
  apply Nat.eqb_neq in E. pose proof I as (C & Hu & T & W).
  destruct (redo_loop_spec g0 (seq_at (hist lb) (hist_u lb)) (length (hist lb) - hist_u lb) lb I) as (I' & H1 & H3).
  cbv zeta in *.
  split; [exact I'|]. split; [exact H1|]. split; [exact H3|]. split.
  - rewrite H3. destruct (length (hist lb) - hist_u lb) as [|f] eqn:F; [lia|]. cbn [forth].
    replace (Nat.ltb (hist_u lb) (length (hist lb))) with true by (symmetry; apply Nat.ltb_lt; lia).
    rewrite Z.eqb_refl. cbn [andb].
    pose proof (forth_ge (hist lb) (seq_at (hist lb) (hist_u lb)) f (S (hist_u lb))). lia.
  - destruct I' as (_ & _ & T' & _). destruct H1 as (H1 & _). rewrite H1 in T'. symmetry. exact T'.
Qed.

(* where the loops stop *)
Lemma back_stop h q : forall i, let p := back h q i in
  p <= i /\ (p = 0 \/ seq_at h (p - 1) <> q) /\ (forall k, p <= k -> k < i -> seq_at h k = q).
Proof.
  induction i as [|i IH]; cbn [back]; cbv zeta.
  - split; [lia|]. split; [left; reflexivity|]. intros; lia.
  - destruct (Z.eqb (seq_at h i) q) eqn:E.
    + destruct IH as (I1 & I2 & I3). split; [lia|]. split; [exact I2|].
      intros k Hk1 Hk2. destruct (Nat.eq_dec k i) as [->|]; [apply Z.eqb_eq; exact E|]. apply I3; lia.
    + split; [lia|]. split; [right; replace (S i - 1) with i by lia; apply Z.eqb_neq; exact E|]. intros; lia.
Qed.

Lemma forth_stop h q : forall f i, length h - i <= f -> let p := forth h q f i in
  i <= p /\ (length h <= p \/ seq_at h p <> q) /\ (forall k, i <= k -> k < p -> seq_at h k = q).
Proof.
  induction f as [|f IH]; intros i Hf; cbn [forth]; cbv zeta.
  - split; [lia|]. split; [left; lia|]. intros; lia.
  - destruct (Nat.ltb i (length h)) eqn:L; cbn [andb].
    + apply Nat.ltb_lt in L. destruct (Z.eqb (seq_at h i) q) eqn:E.
      * destruct (IH (S i) ltac:(lia)) as (I1 & I2 & I3). split; [lia|]. split; [exact I2|].
        intros k Hk1 Hk2. destruct (Nat.eq_dec k i) as [->|]; [apply Z.eqb_eq; exact E|]. apply I3; lia.
      * split; [lia|]. split; [right; apply Z.eqb_neq; exact E|]. intros; lia.
    + apply Nat.ltb_ge in L. split; [lia|]. split; [left; lia|]. intros; lia.
Qed.

(* ------------------------------------------------------------------------------------------ *)
(* Refinement to the stack machine of UndoSpec (C04_refines).                                  *)
(* The abstraction: one stack entry per maximal run of equal sequence numbers; below the       *)
(* cursor the entry carries the text before the run, above the cursor the text after it.       *)
Definition is_start (h : list lopt) (i : nat) : bool := Nat.eqb i 0 || negb (Z.eqb (seq_at h (i - 1)) (seq_at h i)).
Definition is_end (h : list lopt) (j : nat) : bool := Nat.eqb j (length h) || negb (Z.eqb (seq_at h (j - 1)) (seq_at h j)).
Fixpoint pastl (h : list lopt) (g0 : text) (i : nat) : list (Z * text) :=
  match i with
  | O => []
  | S i' => if is_start h i' then (seq_at h i', nth i' (chain g0 h) []) :: pastl h g0 i' else pastl h g0 i'
  end.
Fixpoint futl (h : list lopt) (g0 : text) (fuel i : nat) : list (Z * text) :=
  match fuel with
  | O => []
  | S f => if is_end h (S i) then (seq_at h i, nth (S i) (chain g0 h) []) :: futl h g0 f (S i) else futl h g0 f (S i)
  end.
Definition bnd (h : list lopt) (i : nat) : Prop := i = 0 \/ i = length h \/ seq_at h (i - 1) <> seq_at h i.

Definition R (lb : lbuf) (sp : ustack) : Prop :=
  exists g0, Inv lb g0 /\ bnd (hist lb) (hist_u lb) /\ cmdno sp = useq lb /\ cur sp = ln lb /\
             past sp = pastl (hist lb) g0 (hist_u lb) /\
             future sp = futl (hist lb) g0 (length (hist lb) - hist_u lb) (hist_u lb).

Lemma pastl_run h g0 q p : is_start h p = true -> forall i, p <= i -> (forall k, p <= k -> k <= i -> seq_at h k = q) ->
  pastl h g0 (S i) = (q, nth p (chain g0 h) []) :: pastl h g0 p.
Proof.
  intros Sp. induction i as [|i IH]; intros Hi Hq.
  - assert (p = 0) by lia. subst p. cbn [pastl]. rewrite Sp. rewrite (Hq 0) by lia. reflexivity.
  - destruct (Nat.eq_dec p (S i)) as [->|Ne].
    + cbn [pastl]. rewrite Sp. rewrite (Hq (S i)) by lia. reflexivity.
    + assert (F : is_start h (S i) = false).
      { unfold is_start. cbn [Nat.eqb orb]. replace (S i - 1) with i by lia.
        rewrite (Hq i), (Hq (S i)) by lia. rewrite Z.eqb_refl. reflexivity. }
      change (pastl h g0 (S (S i))) with (if is_start h (S i) then (seq_at h (S i), nth (S i) (chain g0 h) []) :: pastl h g0 (S i) else pastl h g0 (S i)).
      rewrite F. apply IH; [lia|]. intros k K1 K2. apply Hq; lia.
Qed.

Lemma futl_run h g0 q : forall d i, let j := i + S d in j <= length h -> is_end h j = true ->
  (forall k, i <= k -> k < j -> seq_at h k = q) ->
  futl h g0 (length h - i) i = (q, nth j (chain g0 h) []) :: futl h g0 (length h - j) j.
Proof.
  induction d as [|d IH]; intros i j Hj Ej Hq.
  - assert (J : j = S i) by (unfold j; lia). destruct (length h - i) as [|f] eqn:F; [lia|].
    cbn [futl]. rewrite <- J, Ej. rewrite (Hq i) by lia. replace (length h - j) with f by lia. reflexivity.
  - destruct (length h - i) as [|f] eqn:F; [unfold j in Hj; lia|].
    assert (Fl : is_end h (S i) = false).
    { unfold is_end. replace (Nat.eqb (S i) (length h)) with false by (symmetry; apply Nat.eqb_neq; unfold j in Hj; lia).
      replace (S i - 1) with i by lia. rewrite (Hq i), (Hq (S i)) by (unfold j; lia). rewrite Z.eqb_refl. reflexivity. }
    cbn [futl]. rewrite Fl. replace f with (length h - S i) by lia.
    assert (JJ : j = S i + S d) by (unfold j; lia). rewrite JJ.
    apply (IH (S i)); [lia | rewrite <- JJ; exact Ej |]. intros k K1 K2. apply Hq; lia.
Qed.

Lemma pastl_top h g0 i : 0 < i -> exists t rest, pastl h g0 i = (seq_at h (i - 1), t) :: rest.
Proof.
  induction i as [|i IH]; intro H; [lia|]. cbn [pastl]. replace (S i - 1) with i by lia.
  destruct (is_start h i) eqn:E; [eauto|].
  unfold is_start in E. apply orb_false_iff in E. destruct E as [E1 E2].
  apply Nat.eqb_neq in E1. apply negb_false_iff, Z.eqb_eq in E2.
  destruct (IH ltac:(lia)) as (t & rest & P). rewrite P, E2. eauto.
Qed.

Lemma pastl_ext h h' g0 i : (forall k, k < i -> seq_at h' k = seq_at h k /\ nth k (chain g0 h') [] = nth k (chain g0 h) []) ->
  pastl h' g0 i = pastl h g0 i.
Proof.
  induction i as [|i IH]; intro H; [reflexivity|]. cbn [pastl].
  assert (S1 : is_start h' i = is_start h i).
  { unfold is_start. destruct i as [|i']; [reflexivity|]. cbn [Nat.eqb orb]. replace (S i' - 1) with i' by lia.
    destruct (H i' ltac:(lia)) as [-> _]. destruct (H (S i') ltac:(lia)) as [-> _]. reflexivity. }
  rewrite S1. destruct (H i ltac:(lia)) as [-> ->]. rewrite IH; [reflexivity|]. intros k K. apply H. lia.
Qed.

Lemma seq_at_firstn h n i : i < n -> seq_at (firstn n h) i = seq_at h i.
Proof. unfold seq_at. revert n i; induction h as [|o h IH]; intros n i H; destruct n; try lia; [destruct i; reflexivity|].
  cbn [firstn]. destruct i; [reflexivity|]. cbn [nth]. apply IH. lia. Qed.
Lemma seq_at_app1 h o i : i < length h -> seq_at (h ++ [o]) i = seq_at h i.
Proof. intro H. unfold seq_at. rewrite app_nth1 by lia. reflexivity. Qed.
Lemma seq_at_app2 h o : seq_at (h ++ [o]) (length h) = seq o.
Proof. unfold seq_at. rewrite app_nth2 by lia. rewrite Nat.sub_diag. reflexivity. Qed.

Lemma R_edit lb sp buf b e : R lb sp ->
  R (fst (run_op lb (Edit buf b e))) (fst (spec_op sp (Edit buf b e))).
Proof.
  intros (g0 & I & B & Cq & Cc & Cp & Cf). cbn [run_op spec_op fst]. unfold lbuf_edit, edit_noop. rewrite Cc.
  destruct (Nat.eqb (Nat.min b (length (ln lb))) (Nat.min e (length (ln lb))) && is_none buf) eqn:NO; cbn [fst].
  { exists g0. auto 10. }
  set (p := Nat.min b (length (ln lb))). set (nd := Nat.min e (length (ln lb)) - p).
  change (lbuf_replace (lbuf_opt lb buf p nd) buf p nd) with (edit_core lb buf p nd).
  assert (Hp : p + nd <= length (ln lb)) by (unfold p, nd; lia).
  destruct (edit_inv lb g0 buf p nd I Hp) as (I' & L').
  pose proof I as (C & Hu & T & W).
  set (u := hist_u lb) in *. set (h := hist lb) in *. set (o := new_entry lb buf p nd).
  assert (Lf : length (firstn u h) = u) by (rewrite firstn_length; lia).
  assert (SA : forall i, i < u -> seq_at (firstn u h ++ [o]) i = seq_at h i).
  { intros i Hi. rewrite seq_at_app1 by lia. apply seq_at_firstn. exact Hi. }
  assert (SL : seq_at (firstn u h ++ [o]) u = useq lb).
  { rewrite <- Lf at 2. rewrite seq_at_app2. reflexivity. }
  assert (CH : forall i, i <= u -> nth i (chain g0 (firstn u h ++ [o])) [] = nth i (chain g0 h) []).
  { intros i Hi. rewrite chain_snoc by lia. apply chain_firstn; lia. }
  exists g0. split; [exact I'|]. rewrite edit_core_hist, edit_core_hu, edit_core_ln, edit_core_useq. fold o u h.
  assert (Ln : length (firstn u h ++ [o]) = S u) by (rewrite app_length, Lf; cbn; lia).
  split; [right; left; symmetry; exact Ln|]. cbn [cmdno cur past future].
  split; [exact Cq|]. split; [reflexivity|]. split.
  - (* past *)
    cbn [pastl]. rewrite SL, (CH u) by lia. fold u h in T. rewrite T.
    rewrite (pastl_ext h (firstn u h ++ [o]) g0 u) by (intros k K; split; [apply SA; exact K | apply CH; lia]).
    unfold push_past. rewrite Cp, Cq, Cc. fold u h.
    unfold is_start. destruct u as [|u'] eqn:EU.
    + cbn [Nat.eqb orb pastl]. reflexivity.
    + cbn [Nat.eqb orb]. replace (S u' - 1) with u' by lia. rewrite SA by lia.
      destruct (pastl_top h g0 (S u') ltac:(lia)) as (t & rest & P). rewrite P.
      replace (S u' - 1) with u' by lia. rewrite SL.
      destruct (Z.eqb (seq_at h u') (useq lb)); reflexivity.
  - rewrite Ln, Nat.sub_diag. reflexivity.
Qed.

Lemma R_bump lb sp : R lb sp -> R (fst (run_op lb Bump)) (fst (spec_op sp Bump)).
Proof.
  intros (g0 & I & B & Cq & Cc & Cp & Cf). exists g0. cbn [run_op spec_op fst lbuf_modified bump].
  unfold Inv in *. cbn [hist hist_u ln useq cmdno cur past future]. rewrite Cq. auto 10.
Qed.

Lemma R_undo lb sp : R lb sp ->
  R (fst (run_op lb Undo)) (fst (spec_op sp Undo)) /\ snd (run_op lb Undo) = snd (spec_op sp Undo).
Proof.
  intros (g0 & I & B & Cq & Cc & Cp & Cf). cbn [run_op spec_op].
  pose proof (undo_spec lb g0 I) as U. destruct (lbuf_undo lb) as [lb'|].
  - destruct U as (I' & (H1 & H2 & _) & H3 & H4 & H5).
    destruct (hist_u lb) as [|u] eqn:E; [lia|]. replace (S u - 1) with u in * by lia.
    set (q := seq_at (hist lb) u) in *. set (h := hist lb) in *.
    destruct (back_stop h q (S u)) as (B1 & B2 & B3). rewrite <- H3 in B1, B2, B3.
    set (p := hist_u lb') in *.
    assert (Pu : p <= u) by lia.
    assert (Sp : is_start h p = true).
    { unfold is_start. destruct B2 as [->|B2]; [reflexivity|]. apply orb_true_iff. right.
      apply negb_true_iff, Z.eqb_neq. rewrite (B3 p) by lia. exact B2. }
    assert (PL : pastl h g0 (S u) = (q, nth p (chain g0 h) []) :: pastl h g0 p).
    { apply pastl_run; [exact Sp | lia |]. intros k K1 K2. apply B3; lia. }
    pose proof I as (_ & Hu & T & _). rewrite E in Hu, T. fold h in Hu, T.
    assert (Eu : is_end h (S u) = true).
    { unfold is_end. destruct B as [B|[B|B]]; [lia | rewrite B, Nat.eqb_refl; reflexivity |].
      apply orb_true_iff. right. apply negb_true_iff, Z.eqb_neq. exact B. }
    assert (FL : futl h g0 (length h - p) p = (q, nth (S u) (chain g0 h) []) :: futl h g0 (length h - S u) (S u)).
    { replace (S u) with (p + S (u - p)) by lia. apply futl_run.
      - lia.
      - replace (p + S (u - p)) with (S u) by lia. exact Eu.
      - intros k K1 K2. apply B3; lia. }
    rewrite Cp, PL. cbn [fst snd]. split; [|reflexivity].
    exists g0. split; [exact I'|]. rewrite H1. fold h p. cbn [cmdno cur past future].
    split.
    { destruct B2 as [B2|B2]; [left; exact B2|]. right. right. rewrite (B3 p) by lia. exact B2. }
    split; [rewrite H2; exact Cq|]. split; [symmetry; exact H5|]. split; [reflexivity|].
    rewrite FL, Cc, Cf, T. reflexivity.
  - rewrite Cp, U. cbn [pastl fst snd]. split; [|reflexivity]. exists g0. auto 10.
Qed.

Lemma R_redo lb sp : R lb sp ->
  R (fst (run_op lb Redo)) (fst (spec_op sp Redo)) /\ snd (run_op lb Redo) = snd (spec_op sp Redo).
Proof.
  intros (g0 & I & B & Cq & Cc & Cp & Cf). cbn [run_op spec_op].
  pose proof (redo_spec lb g0 I) as U. destruct (lbuf_redo lb) as [lb'|].
  - destruct U as (I' & (H1 & H2 & _) & H3 & H4 & H5).
    set (u := hist_u lb) in *. set (h := hist lb) in *. set (q := seq_at h u) in *.
    pose proof I as (_ & Hu & T & _). fold u h in Hu, T.
    destruct (forth_stop h q (length h - u) u ltac:(lia)) as (B1 & B2 & B3). rewrite <- H3 in B1, B2, B3.
    set (p := hist_u lb') in *.
    assert (Pn : p <= length h).
    { destruct I' as (_ & Hu' & _). rewrite H1 in Hu'. exact Hu'. }
    assert (Un : u < length h) by lia.
    assert (Ep : is_end h p = true).
    { unfold is_end. destruct B2 as [B2|B2]; [replace p with (length h) by lia; rewrite Nat.eqb_refl; reflexivity|].
      apply orb_true_iff. right. apply negb_true_iff, Z.eqb_neq. rewrite (B3 (p - 1)) by lia. auto. }
    assert (FL : futl h g0 (length h - u) u = (q, nth p (chain g0 h) []) :: futl h g0 (length h - p) p).
    { replace p with (u + S (p - u - 1)) by lia. apply futl_run.
      - lia.
      - replace (u + S (p - u - 1)) with p by lia. exact Ep.
      - intros k K1 K2. apply B3; lia. }
    assert (Su : is_start h u = true).
    { unfold is_start. destruct B as [B|[B|B]]; [rewrite B; reflexivity | lia |].
      apply orb_true_iff. right. apply negb_true_iff, Z.eqb_neq. exact B. }
    assert (PL : pastl h g0 p = (q, nth u (chain g0 h) []) :: pastl h g0 u).
    { replace p with (S (p - 1)) by lia. apply pastl_run; [exact Su | lia |]. intros k K1 K2. apply B3; lia. }
    rewrite Cf, FL. cbn [fst snd]. split; [|reflexivity].
    exists g0. split; [exact I'|]. rewrite H1. fold h p. cbn [cmdno cur past future].
    split.
    { destruct B2 as [B2|B2]; [right; left; lia|]. right. right. rewrite (B3 (p - 1)) by lia. auto. }
    split; [rewrite H2; exact Cq|]. split; [symmetry; exact H5|]. split; [|reflexivity].
    rewrite PL, Cc, Cp, T. reflexivity.
  - rewrite Cf, U, Nat.sub_diag. cbn [futl fst snd]. split; [|reflexivity]. exists g0. auto 10.
Qed.

Lemma R_step lb sp o : R lb sp ->
  R (fst (run_op lb o)) (fst (spec_op sp o)) /\ snd (run_op lb o) = snd (spec_op sp o).
Proof.
  intro H. destruct o.
  - split; [apply R_edit; exact H|]. cbn [run_op spec_op]. destruct (edit_noop _ _ _ _); reflexivity.
  - split; [apply R_bump; exact H | reflexivity].
  - apply R_undo; exact H.
  - apply R_redo; exact H.
Qed.

Lemma R_init t0 u0 : Forall line_wf t0 -> R (lbuf_loaded t0 u0) (ustack_init t0 u0).
Proof.
  intro W. exists t0. unfold Inv, bnd. cbn. auto 10.
Qed.

Lemma R_cur lb sp : R lb sp -> cur sp = ln lb.
Proof. intros (g0 & _ & _ & _ & C & _). exact C. Qed.

Lemma R_traces lb sp ops : R lb sp -> run_trace lb ops = spec_trace sp ops.
Proof.
  revert lb sp. induction ops as [|o ops IH]; intros lb sp H; [reflexivity|].
  cbn [run_trace spec_trace]. destruct (R_step lb sp o H) as [H1 H2].
  destruct (run_op lb o) as [lb' k]. destruct (spec_op sp o) as [sp' k']. cbn [fst snd] in *.
  subst k'. rewrite (R_cur _ _ H1). f_equal. apply IH. exact H1.
Qed.

Lemma R_ops lb sp ops : R lb sp -> R (run_ops lb ops) (spec_ops sp ops).
Proof.
  revert lb sp. induction ops as [|o ops IH]; intros lb sp H; [exact H|].
  cbn [run_ops spec_ops]. apply IH. apply R_step. exact H.
Qed.

Theorem undo_refines t0 u0 ops : Forall line_wf t0 ->
  run_trace (lbuf_loaded t0 u0) ops = spec_trace (ustack_init t0 u0) ops.
Proof. intro W. apply R_traces, R_init, W. Qed.

(* ------------------------------------------------------------------------------------------ *)
(* C04_capacity: the log never outgrows its allocation (growth from HIST_INIT by doubling)     *)
Definition cap_ok (lb : lbuf) : Prop := hist_u lb <= length (hist lb) /\ length (hist lb) <= hist_sz lb.

Lemma HIST_INIT_pos : 0 < Z.to_nat HIST_INIT.
Proof. apply Nat.ltb_lt. vm_compute. reflexivity. Qed.

Lemma cap_edit_core lb buf p nd : cap_ok lb -> cap_ok (edit_core lb buf p nd).
Proof.
  intros [H1 H2]. unfold cap_ok. rewrite edit_core_hist, edit_core_hu.
  rewrite app_length, firstn_length. cbn [length]. split; [lia|].
  cbn [edit_core lbuf_replace set_ln lbuf_opt hist_sz]. pose proof HIST_INIT_pos.
  destruct (Nat.eqb (hist_u lb) (hist_sz lb)) eqn:E.
  - apply Nat.eqb_eq in E. destruct (Nat.eqb (hist_sz lb) 0) eqn:Z; [apply Nat.eqb_eq in Z|apply Nat.eqb_neq in Z]; lia.
  - apply Nat.eqb_neq in E. lia.
Qed.

Lemma cap_undo_loop q : forall fuel lb, cap_ok lb -> cap_ok (undo_loop fuel q lb).
Proof.
  induction fuel as [|f IH]; intros lb H; cbn [undo_loop]; [exact H|].
  destruct (_ && _); [|exact H]. apply IH. destruct H as [H1 H2].
  destruct (undo1_fields lb) as (F1 & F2 & _ & _ & _ & F6). unfold cap_ok. rewrite F1, F2, F6. lia.
Qed.
Lemma cap_redo_loop q : forall fuel lb, cap_ok lb -> cap_ok (redo_loop fuel q lb).
Proof.
  induction fuel as [|f IH]; intros lb H; cbn [redo_loop]; [exact H|].
  destruct (Nat.ltb (hist_u lb) (length (hist lb))) eqn:L; cbn [andb]; [|exact H].
  destruct (Z.eqb _ _); [|exact H]. apply Nat.ltb_lt in L. apply IH. destruct H as [H1 H2].
  destruct (redo1_fields lb) as (F1 & F2 & _ & _ & _ & F6). unfold cap_ok. rewrite F1, F2, F6. lia.
Qed.

Lemma cap_step lb o : cap_ok lb -> cap_ok (fst (run_op lb o)).
Proof.
  intro H. destruct o; cbn [run_op fst].
  - unfold lbuf_edit. destruct (_ && _); [exact H|]. apply cap_edit_core. exact H.
  - exact H.
  - unfold lbuf_undo. destruct (Nat.eqb _ _); [exact H|]. cbn [fst]. apply cap_undo_loop. exact H.
  - unfold lbuf_redo. destruct (Nat.eqb _ _); [exact H|]. cbn [fst]. apply cap_redo_loop. exact H.
Qed.

Theorem undo_capacity t0 u0 ops :
  length (hist (run_ops (lbuf_loaded t0 u0) ops)) <= hist_sz (run_ops (lbuf_loaded t0 u0) ops).
Proof.
  assert (G : forall ops lb, cap_ok lb -> cap_ok (run_ops lb ops)).
  { clear. induction ops as [|o ops IH]; intros lb H; [exact H|]. cbn [run_ops]. apply IH, cap_step, H. }
  apply (G ops (lbuf_loaded t0 u0)). unfold cap_ok. cbn. lia.
Qed.

(* ------------------------------------------------------------------------------------------ *)
(* C04_disciplined: when every command ends with Bump the keyed stack has exactly one entry    *)
(* per modifying command                                                                       *)
Fixpoint slast_ok (sp : ustack) (ops : list op) (ok : bool) : ustack * bool :=
  match ops with
  | [] => (sp, ok)
  | o :: r => let (sp', k) := spec_op sp o in slast_ok sp' r (ok && k)
  end.

Lemma R_last_ok ops : forall lb sp ok, R lb sp ->
  R (fst (last_ok lb ops ok)) (fst (slast_ok sp ops ok)) /\ snd (last_ok lb ops ok) = snd (slast_ok sp ops ok).
Proof.
  induction ops as [|o ops IH]; intros lb sp ok H; [split; [exact H | reflexivity]|].
  cbn [last_ok slast_ok]. destruct (R_step lb sp o H) as [H1 H2].
  destruct (run_op lb o) as [lb' k]. destruct (spec_op sp o) as [sp' k']. cbn [fst snd] in *. subst k'.
  apply IH. exact H1.
Qed.

Definition mk_edit (x : option (list N) * nat * nat) : op := match x with (buf, b, e) => Edit buf b e end.
Definition sbump (sp : ustack) : ustack := {| past := past sp; cur := cur sp; future := future sp; cmdno := cmdno sp + 1 |}.

Lemma apply_edits_false l : forall t, fst (apply_edits l t) = false -> snd (apply_edits l t) = t.
Proof.
  induction l as [|[[buf b] e] l IH]; intros t H; [reflexivity|]. cbn [apply_edits] in *.
  destruct (edit_noop t buf b e); [apply IH; exact H | discriminate H].
Qed.

Lemma push_past_idem sp t : push_past {| past := push_past sp; cur := t; future := []; cmdno := cmdno sp |} = push_past sp.
Proof.
  unfold push_past at 1. cbn [past cmdno cur]. unfold push_past.
  destruct (past sp) as [|[q x] r] eqn:P.
  - rewrite Z.eqb_refl. reflexivity.
  - destruct (Z.eqb q (cmdno sp)) eqn:E; [rewrite E; reflexivity | rewrite Z.eqb_refl; reflexivity].
Qed.

Lemma spec_edits l : forall sp ok,
  slast_ok sp (map mk_edit l ++ [Bump]) ok =
  (if fst (apply_edits l (cur sp))
   then {| past := push_past sp; cur := snd (apply_edits l (cur sp)); future := []; cmdno := cmdno sp + 1 |}
   else sbump sp, ok).
Proof.
  induction l as [|[[buf b] e] l IH]; intros sp ok.
  - cbn. rewrite andb_true_r. reflexivity.
  - cbn [map app mk_edit slast_ok spec_op apply_edits].
    destruct (edit_noop (cur sp) buf b e) eqn:NO.
    + rewrite andb_true_r. apply IH.
    + rewrite andb_true_r, IH. cbn [cur fst snd cmdno]. rewrite push_past_idem.
      destruct (fst (apply_edits l (edit_text (cur sp) buf b e))) eqn:F; [reflexivity|].
      rewrite (apply_edits_false _ _ F). reflexivity.
Qed.

Definition Qrel (sp : ustack) (cs : cstack) : Prop :=
  cur sp = ccur cs /\ map snd (past sp) = cpast cs /\ map snd (future sp) = cfuture cs /\
  Forall (fun x => (fst x < cmdno sp)%Z) (past sp) /\ Forall (fun x => (fst x < cmdno sp)%Z) (future sp).

Lemma Forall_lt_mono (l : list (Z * text)) (a b : Z) : (a <= b)%Z -> Forall (fun x => (fst x < a)%Z) l -> Forall (fun x => (fst x < b)%Z) l.
Proof. intros H F. eapply Forall_impl; [|exact F]. cbn. intros. lia. Qed.

Lemma Q_cmd sp cs c : Qrel sp cs ->
  Qrel (fst (slast_ok sp (ops_of_cmd c) true)) (fst (cspec_cmd cs c)) /\
  snd (slast_ok sp (ops_of_cmd c) true) = snd (cspec_cmd cs c).
Proof.
  intros (Q1 & Q2 & Q3 & Q4 & Q5). destruct c as [l| |]; unfold ops_of_cmd.
  - change (map (fun x => match x with (buf, b, e) => Edit buf b e end) l) with (map mk_edit l).
    rewrite spec_edits. cbn [cspec_cmd fst snd]. rewrite <- Q1.
    destruct (apply_edits l (cur sp)) as [ch t'] eqn:A. cbn [fst snd]. destruct ch; cbn [fst snd].
    + split; [|reflexivity]. unfold Qrel. cbn [cur past future cmdno ccur cpast cfuture map].
      assert (P : push_past sp = (cmdno sp, cur sp) :: past sp).
      { unfold push_past. destruct (past sp) as [|[q x] r]; [reflexivity|]. inversion Q4; subst. cbn [fst] in *.
        replace (Z.eqb q (cmdno sp)) with false by (symmetry; apply Z.eqb_neq; lia). reflexivity. }
      rewrite P. cbn [map snd fst]. rewrite Q2. repeat split; auto.
      constructor; [cbn; lia|]. apply (Forall_lt_mono _ (cmdno sp)); [lia | exact Q4].
    + split; [|reflexivity]. unfold Qrel, sbump. cbn [cur past future cmdno].
      repeat split; auto; apply (Forall_lt_mono _ (cmdno sp)); auto; lia.
  - cbn [app slast_ok spec_op cspec_cmd].
    destruct (past sp) as [|[q t] p] eqn:P; cbn [map] in Q2; rewrite <- Q2.
    + cbn [slast_ok spec_op fst snd andb]. split; [|reflexivity]. unfold Qrel. cbn [cur past future cmdno]. rewrite P.
      repeat split; auto; apply (Forall_lt_mono _ (cmdno sp)); auto; lia.
    + cbn [slast_ok spec_op fst snd andb]. split; [|reflexivity]. unfold Qrel. cbn [cur past future cmdno ccur cpast cfuture map snd].
      inversion Q4; subst. cbn [fst] in *. rewrite Q1, Q3. repeat split; auto.
      * apply (Forall_lt_mono _ (cmdno sp)); auto; lia.
      * constructor; [cbn; lia|]. apply (Forall_lt_mono _ (cmdno sp)); auto; lia.
  - cbn [app slast_ok spec_op cspec_cmd].
    destruct (future sp) as [|[q t] p] eqn:P; cbn [map] in Q3; rewrite <- Q3.
    + cbn [slast_ok spec_op fst snd andb]. split; [|reflexivity]. unfold Qrel. cbn [cur past future cmdno]. rewrite P.
      repeat split; auto; apply (Forall_lt_mono _ (cmdno sp)); auto; lia.
    + cbn [slast_ok spec_op fst snd andb]. split; [|reflexivity]. unfold Qrel. cbn [cur past future cmdno ccur cpast cfuture map snd].
      inversion Q5; subst. cbn [fst] in *. rewrite Q1, Q2. repeat split; auto.
      * constructor; [cbn; lia|]. apply (Forall_lt_mono _ (cmdno sp)); auto; lia.
      * apply (Forall_lt_mono _ (cmdno sp)); auto; lia.
Qed.

Theorem undo_disciplined t0 u0 cs : Forall line_wf t0 ->
  run_cmds (lbuf_loaded t0 u0) cs = cspec_trace (cstack_init t0) cs.
Proof.
  intro W.
  assert (G : forall cs lb sp cst, R lb sp -> Qrel sp cst -> run_cmds lb cs = cspec_trace cst cs).
  { clear. induction cs as [|c cs IH]; intros lb sp cst HR HQ; [reflexivity|].
    cbn [run_cmds cspec_trace].
    destruct (R_last_ok (ops_of_cmd c) lb sp true HR) as [R1 R2].
    destruct (Q_cmd sp cst c HQ) as [Q1 Q2].
    destruct (last_ok lb (ops_of_cmd c) true) as [lb' k]. destruct (slast_ok sp (ops_of_cmd c) true) as [sp' k'].
    destruct (cspec_cmd cst c) as [cst' k'']. cbn [fst snd] in *. subst.
    rewrite <- (R_cur _ _ R1). pose proof Q1 as (E & _). rewrite E. f_equal. apply (IH lb' sp' cst'); [exact R1 | exact Q1]. }
  apply (G cs _ (ustack_init t0 u0)); [apply R_init, W|]. unfold Qrel. cbn. auto.
Qed.
