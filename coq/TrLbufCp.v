(* TrLbufCp.v -- /repo/lbuf.c lbuf_cp(lb, beg, end) on the translated C text (coq/GenCFuncs.v cf_lbuf_cp, whitelist
   tools/c2clite.d/99zzzzz_lbufcp.list): sbuf_make, one sbuf_str(sb, lb->ln[i]) per row beg <= i < end that is inside the table
   (i < lb->ln_n), sbuf_done.  The string builder is the translated sbuf.c (coq/TrSbuf.v), no oracle is left.

   cp_view: what the function READS of a line buffer -- the struct (cells ln = 64 and ln_n = 66), the pointer array, one block per line
   that holds the line as a C string.  It is implied by every picture of a line buffer the other developments use
   (TrSpliceAll.lbuf_at, TrUndoBase.urep with TrCmp4.Tc, TrVimot.lbuf_at, TrExCmds' views): the adapters are in coq/TrLbufCpUse.v.

   tr_lbuf_cp: for EVERY such memory, every beg >= 0 and every end (also end < beg: the empty copy; also end > ln_n: the rows outside the
   table are skipped) the call returns a pointer to the START of a block that did not exist before, which begins with exactly the bytes
   of rows beg..end-1 one after the other followed by the terminator (the block is LONGER than the string: it is the buffer sbuf_done
   hands out, of the capacity sbuf.c's growth rule reached); every block that existed before is unchanged; the struct sbuf -- the first
   new block -- has been freed.  Side conditions: the copy is at most 500 MB (then no size computation of sbuf.c leaves int: TrSbuf
   fits_small), end - beg iterations of fuel. *)
From Coq Require Import List ZArith NArith Bool Lia.
From NV Require Import Bytes GenConsts IoDefs IoProps CLite CLiteProps GenCFuncs CLiteTac TrSbuf.
Import ListNotations.
Local Open Scope Z_scope.

(* ------------------------------------------------------------------ the model *)
Definition cp_rows (lines : list bytes) (b e : Z) : list bytes := firstn (Z.to_nat (e - b)) (skipn (Z.to_nat b) lines).
Definition cp_bytes (lines : list bytes) (b e : Z) : bytes := concat (cp_rows lines b e).

(* ------------------------------------------------------------------ what lbuf_cp reads *)
Record cp_view (m : mem) (bl : nat) (lines : list bytes) : Prop := mk_cp_view {
  cv_tbl : exists (blk : block) bln (lnblk : block) (lbs : list nat),
    nth_error m bl = Some blk /\ nth_error blk 64 = Some (VPtr bln 0) /\ nth_error blk 66 = Some (VInt (Z.of_nat (length lines))) /\
    nth_error m bln = Some lnblk /\
    (forall i, (i < length lines)%nat -> nth_error lnblk i = Some (VPtr (nth i lbs O) 0) /\ str_at m (nth i lbs O) (nth i lines []));
  cv_nonul : Forall nonul lines;
  cv_n : Z.of_nat (length lines) <= 2147483647 }.

Lemma cp_view_same m m' bl lines : cp_view m bl lines -> (forall k, (k < length m)%nat -> nth_error m' k = nth_error m k) -> cp_view m' bl lines.
Proof.
  intros [(blk & bln & lnblk & lbs & H1 & H2 & H3 & H4 & H5) Hn Hl] K. constructor; [|exact Hn|exact Hl].
  exists blk, bln, lnblk, lbs. split; [rewrite K by (apply nth_error_Some; congruence); exact H1|]. split; [exact H2|]. split; [exact H3|].
  split; [rewrite K by (apply nth_error_Some; congruence); exact H4|].
  intros i Hi. destruct (H5 i Hi) as [A B]. split; [exact A|]. unfold str_at in *. rewrite K by (apply nth_error_Some; congruence). exact B.
Qed.

(* ------------------------------------------------------------------ lists *)
Definition total (l : list bytes) : Z := Z.of_nat (length (concat l)).
Lemma total_cons x l : total (x :: l) = Z.of_nat (length x) + total l.
Proof. unfold total. cbn [concat]. rewrite app_length. lia. Qed.
Lemma total_nonneg l : 0 <= total l.
Proof. unfold total. lia. Qed.
Lemma firstn_S_skipn {A} (l : list A) i k d : (i < length l)%nat -> firstn (S k) (skipn i l) = nth i l d :: firstn k (skipn (S i) l).
Proof.
  revert i. induction l as [|a l IH]; intros i H; cbn [length] in H; [lia|].
  destruct i as [|i]; [reflexivity|]. cbn [skipn nth]. apply IH. lia.
Qed.
Lemma zb_app (a b : bytes) : zb (a ++ b) = zb a ++ zb b.
Proof. unfold zb. apply map_app. Qed.
Lemma zb_len (a : bytes) : length (zb a) = length a.
Proof. unfold zb. apply map_length. Qed.

(* ------------------------------------------------------------------ the loop *)
Definition cp_loop : stmt := match fn_body cf_lbuf_cp with SSeq _ (SSeq (SSeq _ l) _) => l | _ => SSkip end.
Definition cp_tail : stmt := match fn_body cf_lbuf_cp with SSeq _ (SSeq _ t) => t | _ => SSkip end.

Lemma fld_loadz (m : mem) b (blk : block) i v z : nth_error m b = Some blk -> nth_error blk i = Some v -> z = Z.of_nat i -> load m b z = Ok v.
Proof. intros Hm Hi ->. unfold load. rewrite Hm. destruct (Z.ltb_spec (Z.of_nat i) 0); [lia|]. rewrite Nat2Z.id, Hi. reflexivity. Qed.

Section Loop.
  Variables (m : mem) (bl : nat) (lines : list bytes) (vb : val) (e : Z) (d fuel : nat).
  Hypothesis V : cp_view m bl lines.
  Hypothesis He : e <= 2147483647.
  Let p := length m.
  Let m0 : mem := m ++ [[VInt 0; VInt 0; VInt 0]].

  Lemma cp_keep mcur k : (k < length m)%nat -> sbuf_step m0 mcur p -> nth_error mcur k = nth_error m k /\ sbuf_datab mcur p <> Some k.
  Proof.
    intros Hk S0. assert (D0 : sbuf_datab m0 p = None) by (eapply datab_null; unfold m0, p; apply nth_error_app_new).
    destruct (step_src m0 mcur p k S0) as [A B]; [unfold m0; rewrite app_length; cbn [length]; lia|unfold p; lia|rewrite D0; discriminate|].
    split; [|exact B]. rewrite A. unfold m0. apply nth_error_app1. exact Hk.
  Qed.

  Lemma cp_loop_ok : forall k i mcur cs sz lf,
    k = Z.to_nat (e - Z.of_nat i) -> sbuf_step m0 mcur p -> sbuf_rep mcur p cs sz -> sz_small (Z.of_nat (length cs)) sz ->
    Z.of_nat (length cs) + total (firstn k (skipn i lines)) <= 500000000 -> (k < lf)%nat ->
    exists m' sz' vi,
      exec (callf cprog fuel (S (S (S d)))) lf cp_loop (mkst [VPtr bl 0; vb; VInt e; VPtr p 0; VInt (Z.of_nat i)] mcur)
      = ONormal (mkst [VPtr bl 0; vb; VInt e; VPtr p 0; vi] m') /\
      sbuf_rep m' p (cs ++ zb (concat (firstn k (skipn i lines)))) sz' /\ sbuf_step m0 m' p.
  Proof.
    destruct V as [(blk & bln & lnblk & lbs & H1 & H2 & H3 & H4 & H5) Hnn Hl].
    assert (Kbl : (bl < length m)%nat) by (apply nth_error_Some; congruence).
    assert (Kbln : (bln < length m)%nat) by (apply nth_error_Some; congruence).
    induction k as [|k IH]; intros i mcur cs sz lf Hk S0 R Hsm Htot Hlf; (destruct lf as [|lf]; [lia|]);
      unfold cp_loop; cbn [fn_body cf_lbuf_cp]; rewrite exec_for; xstep.
    - (* no row left: i >= end *)
      destruct (Z.ltb_spec (Z.of_nat i) e) as [X|X]; [lia|].
      exists mcur, sz, (VInt (Z.of_nat i)). cbn [firstn concat zb map]. rewrite app_nil_r.
      split; [reflexivity|]. split; [exact R|exact S0].
    - destruct (Z.ltb_spec (Z.of_nat i) e) as [X|X]; [|lia].
      destruct (cp_keep mcur bl Kbl S0) as [Ebl Dbl]. destruct (cp_keep mcur bln Kbln S0) as [Ebln Dbln].
      rewrite (fld_loadz mcur bl blk 66 _ (0 + 1 * 66) (eq_trans Ebl H1) H3 eq_refl). xstep. rewrite wrap_I32_id by lia. xstep.
      assert (Hk' : k = Z.to_nat (e - Z.of_nat (S i))) by lia.
      destruct (Z.ltb_spec (Z.of_nat i) (Z.of_nat (length lines))) as [Y|Y]; xstep.
      + (* a row of the table: sbuf_str(sb, lb->ln[i]) *)
        assert (Hi : (i < length lines)%nat) by lia. destruct (H5 i Hi) as [Hc Hs].
        set (bs := nth i lbs O) in *. set (s := nth i lines []) in *.
        assert (Kbs : (bs < length m)%nat) by (apply nth_error_Some; unfold str_at in Hs; congruence).
        destruct (cp_keep mcur bs Kbs S0) as [Ebs Dbs].
        rewrite (fld_loadz mcur bl blk 64 _ (0 + 1 * 64) (eq_trans Ebl H1) H2 eq_refl). xstep.
        rewrite (fld_loadz mcur bln lnblk i _ (0 + 1 * Z.of_nat i) (eq_trans Ebln H4) Hc) by lia. xstep.
        rewrite (firstn_S_skipn lines i k []) in Htot |- * by exact Hi. fold s in Htot |- *. rewrite total_cons in Htot.
        pose proof (total_nonneg (firstn k (skipn (S i) lines))) as Tn.
        assert (Ns : nonul s) by (unfold s; rewrite Forall_forall in Hnn; apply Hnn, nth_In; exact Hi).
        destruct (tr_sbuf_str mcur p cs sz bs s 0 d fuel R) as (m1 & E1 & R1 & M1 & S1).
        { unfold p. lia. }
        { exact Dbs. }
        { unfold str_at. rewrite Ebs. exact Hs. }
        { exact Ns. }
        { lia. }
        { lia. }
        { cbn [skipn]. apply (fits_small (Z.of_nat (length cs))); [exact Hsm|lia|lia]. }
        cbn [skipn] in E1, R1, M1. change (Z.of_nat 0) with 0 in E1. rewrite E1. xstep.
        rewrite chk_I32 by lia. xstep.
        destruct (op_model_small (sb_model cs sz) (OpStr bs 0 s) Hsm) as [Hsm1 _]. cbn [op_model skipn] in Hsm1. rewrite M1 in Hsm1. cbn [sb_model sb_n sb_sz] in Hsm1.
        replace (Z.of_nat i + 1) with (Z.of_nat (S i)) by lia.
        destruct (IH (S i) m1 (cs ++ zb s) _ lf Hk' (sbuf_step_trans _ _ _ _ S0 S1) R1 Hsm1) as (m' & sz' & vi & E' & R' & S'); [rewrite app_length, zb_len; lia|lia|].
        unfold cp_loop in E'; cbn [fn_body cf_lbuf_cp] in E'. rewrite E'.
        exists m', sz', vi. split; [reflexivity|]. cbn [concat]. rewrite zb_app, app_assoc. split; [exact R'|exact S'].
      + (* a row outside the table is skipped *)
        rewrite chk_I32 by lia. xstep. replace (Z.of_nat i + 1) with (Z.of_nat (S i)) by lia.
        assert (Enil : forall j, firstn j (skipn i lines) = []) by (intro j; rewrite skipn_all2 by lia; apply firstn_nil).
        assert (Enil' : forall j, firstn j (skipn (S i) lines) = []) by (intro j; rewrite skipn_all2 by lia; apply firstn_nil).
        rewrite Enil in Htot |- *.
        destruct (IH (S i) mcur cs sz lf Hk' S0 R Hsm) as (m' & sz' & vi & E' & R' & S'); [rewrite Enil'; exact Htot|lia|].
        unfold cp_loop in E'; cbn [fn_body cf_lbuf_cp] in E'. rewrite E', Enil' in *.
        exists m', sz', vi. split; [reflexivity|]. split; [exact R'|exact S'].
  Qed.
End Loop.

(* ------------------------------------------------------------------ the whole function *)
Theorem tr_lbuf_cp m bl lines b e d fuel :
  cp_view m bl lines -> 0 <= b -> -2147483648 <= e <= 2147483647 ->
  total (cp_rows lines b e) <= 500000000 -> (Z.to_nat (e - b) < fuel)%nat ->
  exists pb m' rest,
    callf cprog fuel (S (S (S (S d)))) F_lbuf_cp [VPtr bl 0; VInt b; VInt e] m = Ok (VPtr pb 0, m') /\
    nth_error m' pb = Some (cstr_block (zb (cp_bytes lines b e)) ++ rest) /\
    (length m < pb < length m')%nat /\ nth_error m' (length m) = Some [] /\
    (forall k, (k < length m)%nat -> nth_error m' k = nth_error m k).
Proof.
  intros V Hb He Htot Hf. set (p := length m). set (m0 := m ++ [[VInt 0; VInt 0; VInt 0]]).
  assert (Eb : b = Z.of_nat (Z.to_nat b)) by lia.
  destruct (cp_loop_ok m bl lines (VInt b) e d fuel V ltac:(lia) (Z.to_nat (e - b)) (Z.to_nat b) m0 [] 0 fuel) as (m1 & sz1 & vi & E1 & R1 & S1).
  { lia. }
  { apply sbuf_step_refl. }
  { apply rep_make. }
  { apply make_small. }
  { cbn [length]. unfold cp_rows in Htot. lia. }
  { exact Hf. }
  cbn [app] in R1. fold (cp_rows lines b e) in R1. fold (cp_bytes lines b e) in R1. rewrite <- Eb in E1.
  destruct (tr_sbuf_done m1 p _ _ d fuel R1) as (pb & m' & rest & E2 & Hd & Hpf & Hne & Hnew & Hlen & Hfr).
  exists pb, m', rest. split.
  { enter F_lbuf_cp cf_lbuf_cp. xstep. rewrite (tr_sbuf_make m (S (S d)) fuel). xstep.
    unfold cp_loop in E1. cbn [fn_body cf_lbuf_cp] in E1. unfold p, m0 in *. rewrite E1. xstep. rewrite E2. reflexivity. }
  assert (D0 : sbuf_datab m0 p = None) by (eapply datab_null; unfold m0, p; apply nth_error_app_new).
  destruct S1 as [L1 [D1 F1]].
  assert (L0 : (S (length m) <= length m1)%nat) by (unfold m0 in L1; rewrite app_length in L1; cbn [length] in L1; lia).
  split.
  { rewrite Hd. unfold cstr_block. rewrite <- app_assoc. reflexivity. }
  split.
  { split; [|apply nth_error_Some; rewrite Hd; discriminate]. unfold p, m0 in *.
    destruct Hnew as [X|X]; [|lia]. rewrite D0 in D1. destruct D1 as [D1|(b' & D1 & Hb')]; [congruence|]. rewrite D1 in X. injection X as <-.
    rewrite app_length in Hb'. cbn [length] in Hb'. lia. }
  split; [exact Hpf|].
  intros k Hk. destruct (cp_keep m m1 k Hk (conj L1 (conj D1 F1))) as [A B].
  rewrite Hfr; [exact A|lia|unfold p; lia|exact B].
Qed.
