(* RenDefs.v -- model of ren.c and of the width classes of uc.c (C17).
   Columns are Z (C int), character indices nat.  The tables dwchars/zwchars/bchars/acomb_ranges,
   placeholders and the tab stop are the GENERATED ones.  The reordering function of dir.c enters
   ren_position as the argument `dr` (s, identity array -> ord).  Only definitions here. *)
From Coq Require Import List NArith ZArith Bool Arith.
From NV Require Import Bytes UcDefs GenUcTables GenConf GenConsts DirDefs.
Import ListNotations.
Local Open Scope Z_scope.

(* ---- uc.c: find(): bisection over a range table ------------------------------------------- *)
Definition nthp (tab : list (Z * Z)) (i : Z) : Z * Z := nth (Z.to_nat i) tab (0, 0).

Fixpoint bis (fuel : nat) (tab : list (Z * Z)) (c l h : Z) : option bool :=
  match fuel with
  | O => None
  | S f =>
    if h <? l then Some false else
    let m := (h + l) / 2 in
    let '(a, b) := nthp tab m in
    if (a <=? c) && (c <=? b) then Some true
    else if c <? a then bis f tab c l (m - 1) else bis f tab c (m + 1) h
  end.

(* None = out of fuel (proved unreachable for every table) *)
Definition tfind (c : Z) (tab : list (Z * Z)) : option bool :=
  if c <? fst (nthp tab 0) then Some false
  else bis (S (length tab)) tab c 0 (Z.of_nat (length tab) - 1).

Definition find_b (c : Z) (tab : list (Z * Z)) : bool :=
  match tfind c tab with Some b => b | None => false end.

(* the spec: membership in the table *)
Definition mem (tab : list (Z * Z)) (c : Z) : bool := existsb (fun '(a, b) => (a <=? c) && (c <=? b)) tab.

Definition uc_isdw (c : Z) : bool := (dw_min <=? c) && find_b c dwchars.
Definition uc_iszw (c : Z) : bool := (zw_min <=? c) && find_b c zwchars.

Definition uc_wid (s : bytes) : Z :=
  let c := Z.of_N (uc_code s) in
  if uc_iszw c then 0 else if uc_isdw c then 2 else 1.

Definition plain_ascii (c : N) : bool :=           (* c == ' ' || c == '\t' || c == '\n' || (c >= 0x20 && c < 0x7f) *)
  ((c =? 32) || (c =? 9) || (c =? 10) || ((32 <=? c) && (c <? 127)))%N.

Definition uc_isbell (s : bytes) : bool :=
  if plain_ascii (hd0 s) then false
  else let c := Z.of_N (uc_code s) in uc_iszw c || find_b c bchars.

Definition uc_acomb (c : Z) : bool := mem acomb_ranges c.

Definition uc_iscomb (s : bytes) : bool :=
  let c := hd0 s in
  if ((c =? 32) || (c =? 9) || (c =? 10) || ((c <=? 127) && c_isprint c))%N then false
  else uc_acomb (Z.of_N (uc_code s)).

(* the code points at which membership in a range table can change: a and b + 1 of every row; between two
   consecutive ones the width class of the model is constant (RenProps.width_class_const) -- the driver
   evaluates the model there when it prints the width classes as runs *)
Definition bounds_of (tab : list (Z * Z)) : list Z := flat_map (fun r : Z * Z => [fst r; snd r + 1]) tab.
Definition class_bounds : list Z := bounds_of dwchars ++ bounds_of zwchars ++ bounds_of bchars ++ bounds_of acomb_ranges.

(* ---- ren.c: placeholders and cell widths ---------------------------------------------------- *)
Definition ph_bits : N :=
  fold_left (fun b (p : bytes * bytes * Z) => N.land b (hd0 (fst (fst p)))) placeholders 65535%N.

Fixpoint ph_lookup (ps : list (bytes * bytes * Z)) (s : bytes) : option (bytes * Z) :=
  match ps with
  | [] => None
  | (src, dst, w) :: r =>
    if ((hd0 src =? hd0 s) && (uc_code src =? uc_code s))%N then Some (dst, w) else ph_lookup r s
  end.

Definition bell_glyph : bytes := [239; 191; 189]%N.     (* U+FFFD *)

Definition ren_placeholder (s : bytes) : option bytes * Z :=
  match (if (N.land (hd0 s) ph_bits =? ph_bits)%N then ph_lookup placeholders s else None) with
  | Some (d, w) => (Some d, w)
  | None => (if uc_isbell s then Some bell_glyph else None, 1)
  end.

Definition ren_cwid (s : bytes) (pos : Z) : Z :=
  if (hd0 s =? 9)%N then TABSTOP - Z.land pos TABMASK
  else match ren_placeholder s with
       | (Some _, w) => w
       | (None, _) => uc_wid s
       end.

(* ---- ren.c: ren_position --------------------------------------------------------------------- *)
Record ropts := { xorder : Z; xlim : Z }.

(* fast version: n characters, stepping by uc_len; returns pos[0..n] *)
Fixpoint ren_fast (n : nat) (s : bytes) (cpos : Z) : list Z :=
  match n with
  | O => [cpos]
  | S k => cpos :: ren_fast k (skipn (uc_len s) s) (cpos + ren_cwid s cpos)
  end.

(* for (k...) acc[idx[k]] = vals[k] *)
Fixpoint scatter {A} (idx : list nat) (vals : list A) (acc : list A) : list A :=
  match idx, vals with
  | i :: ir, v :: vr => scatter ir vr (upd acc i v)
  | _, _ => acc
  end.

(* start columns of the characters taken in the order vis, from column c; and the final column *)
Fixpoint vcols (cw : nat -> Z -> Z) (vis : list nat) (c : Z) : list Z * Z :=
  match vis with
  | [] => ([], c)
  | j :: r => let '(l, t) := vcols cw r (c + cw j c) in (c :: l, t)
  end.

Definition chr_at (s : bytes) (chrs : list nat) (j : nat) : bytes := skipn (nth j chrs 0%nat) s.

Section Ren.
Variable dr : bytes -> list nat -> list nat.       (* dir_reorder(s, ord) *)
Variable o : ropts.

Definition ren_position_reorder (s : bytes) : list Z :=
  let n := uc_slen s in
  let chrs := uc_chop s in
  let ord0 := seq 0 n in
  let ord := if xorder o =? 0 then ord0 else dr s ord0 in
  let off := scatter ord (seq 0 n) (repeat 0%nat n) in
  let '(cols, total) := vcols (fun j c => ren_cwid (chr_at s chrs j) c) off 0 in
  upd (scatter off cols (repeat 0 (S n))) n total.

Definition use_reorder (s : bytes) : bool :=
  let n := Z.of_nat (uc_slen s) in
  (n <=? xlim o) && ((xorder o =? 2) || ((xorder o =? 1) && (n <? Z.of_nat (length s)))).

Definition ren_position (s : bytes) : list Z :=
  if use_reorder s then ren_position_reorder s else ren_fast (uc_slen s) s 0.

Definition ren_wid (s : bytes) : Z := nth (uc_slen s) (ren_position s) 0.

(* pos_next / pos_prev over pos[0..n); the C variable ret is tracked by the value pos[ret] *)
Fixpoint pos_next_f (pos : list Z) (p : Z) (cur : bool) (ret : option Z) : option Z :=
  match pos with
  | [] => ret
  | x :: r =>
    pos_next_f r p cur
      (if (p <=? x - (if cur then 0 else 1)) && (match ret with None => true | Some y => x <? y end)
       then Some x else ret)
  end.
Fixpoint pos_prev_f (pos : list Z) (p : Z) (cur : bool) (ret : option Z) : option Z :=
  match pos with
  | [] => ret
  | x :: r =>
    pos_prev_f r p cur
      (if (x + (if cur then 0 else 1) <=? p) && (match ret with None => true | Some y => y <? x end)
       then Some x else ret)
  end.
Definition optz (r : option Z) : Z := match r with Some v => v | None => -1 end.
Definition pos_next (pos : list Z) (n : nat) (p : Z) (cur : bool) : Z := optz (pos_next_f (firstn n pos) p cur None).
Definition pos_prev (pos : list Z) (n : nat) (p : Z) (cur : bool) : Z := optz (pos_prev_f (firstn n pos) p cur None).

(* the last index i < n with pos[i] = v *)
Fixpoint last_idx (pos : list Z) (v : Z) (i : nat) (off : option nat) : option nat :=
  match pos with
  | [] => off
  | x :: r => last_idx r v (S i) (if x =? v then Some i else off)
  end.

Definition ren_pos (s : bytes) (off : Z) : Z :=
  let n := uc_slen s in
  if off <? Z.of_nat n then nth (Z.to_nat off) (ren_position s) 0 else 0.
(* a negative off reads pos[off] in C (heap underflow); the model returns pos[0]; callers pass off >= 0 *)

Definition ren_off_pos (pos : list Z) (n : nat) (p : Z) : nat :=
  let p' := pos_prev pos n p true in
  match last_idx (firstn n pos) p' 0 None with Some i => i | None => 0%nat end.

Definition ren_off (s : bytes) (p : Z) : nat := ren_off_pos (ren_position s) (uc_slen s) p.

(* first byte / code of uc_chr(s, off) *)
Definition chr_suffix (s : bytes) (off : nat) : bytes :=
  match uc_chr s (Z.of_nat off) with Some k => skipn k s | None => [] end.

Definition ren_cursor (s : bytes) (p : Z) : Z :=
  let n := uc_slen s in
  let pos := ren_position s in
  let p1 := pos_prev pos n p true in
  let p2 := if (uc_code (chr_suffix s (ren_off s p1)) =? 10)%N then pos_prev pos n p1 false else p1 in
  let next := pos_next pos n p2 false in
  let p3 := (if 0 <=? next then next else nth n pos 0) - 1 in
  if 0 <=? p3 then p3 else 0.

Definition ren_noeol (s : bytes) (off : Z) : Z :=
  let n := Z.of_nat (uc_slen s) in
  let o1 := if n <=? off then Z.max 0 (n - 1) else off in
  if (0 <? o1) && (hd0 (chr_suffix s (Z.to_nat o1)) =? 10)%N then o1 - 1 else o1.

Definition ren_next (s : bytes) (p : Z) (dir : Z) : Z :=
  let n := uc_slen s in
  let pos := ren_position s in
  let p1 := pos_prev pos n p true in
  let p2 := if 0 <=? dir then pos_next pos n p1 false else pos_prev pos n p1 false in
  if negb (hd0 (chr_suffix s (ren_off s p2)) =? 10)%N then p2 else -1.
End Ren.
