(* TrReadCmd.v -- ex.c ec_read (`:r file`) as C TEXT: where the text lands and the open / lbuf_rd / close protocol (property C01).
   tools/c2clite.py (tools/c2clite.d/99zzzzz_read.list) turns ec_read into cf_ec_read.  open, close, lbuf_rd (`@extern ex.c lbuf_rd`;
   lbuf_rd itself: coq/TrRead.v), ex_pathexpand, ex_show, snprintf are oracle indices (CLiteExt.callx); ex_region is the translated
   function (its run is a hypothesis here, as in coq/TrExCmds.v; coq/TrExAddr.v proves it); ex_lbuf / lbuf_len are translated. *)
From Coq Require Import List ZArith NArith Bool Lia.
From NV Require Import Bytes CLite CLiteProps GenCFuncs CLiteTac CLiteExt TrLbufBase.
Import ListNotations.
Local Open Scope Z_scope.

Definition BUFS_LB : nat := 33.     (* bufs[0].lb: xb is the macro ex_lbuf() *)
Definition G_rdfail : nat := G_lit_72656164206661696c6564_11.             (* "read failed" *)
Definition G_rdfmt : nat := G_lit_2225732220205b3d25645d20205b725d_16.   (* "\"%s\"  [=%d]  [r]" *)

Lemma nth_lt {A} (l : list A) k x : nth_error l k = Some x -> (k < length l)%nat.
Proof. intro H. apply nth_error_Some. rewrite H. discriminate. Qed.
Lemma x_open_none : nth_error cprog X_open = None. Proof. vm_compute. reflexivity. Qed.
Lemma x_close_none : nth_error cprog X_close = None. Proof. vm_compute. reflexivity. Qed.
Lemma x_lbuf_rd_none : nth_error cprog X_lbuf_rd = None. Proof. vm_compute. reflexivity. Qed.
Lemma x_ex_show_none : nth_error cprog X_ex_show = None. Proof. vm_compute. reflexivity. Qed.
Lemma x_snprintf_none : nth_error cprog X_snprintf = None. Proof. vm_compute. reflexivity. Qed.
Lemma x_ex_pathexpand_none : nth_error cprog X_ex_pathexpand = None. Proof. vm_compute. reflexivity. Qed.

(* the pieces of ec_read *)
Definition er_rest1 : stmt := match fn_body cf_ec_read with SSeq _ (SSeq _ r) => r | _ => SSkip end.      (* behind the three mallocs *)
Definition er_guard : stmt := match er_rest1 with SSeq _ (SSeq _ (SSeq g _)) => g | _ => SSkip end.
Definition er_setpos : stmt := match er_rest1 with SSeq _ (SSeq _ (SSeq _ (SSeq p _))) => p | _ => SSkip end.
Definition er_branch : stmt := match er_rest1 with SSeq _ (SSeq _ (SSeq _ (SSeq _ (SSeq b _)))) => b | _ => SSkip end.
Definition er_file : stmt := match er_branch with SIf _ _ f => f | _ => SSkip end.
Definition er_tail : stmt := match er_rest1 with SSeq _ (SSeq _ (SSeq _ (SSeq _ (SSeq _ t)))) => t | _ => SSkip end.

Section EcRead.
  Variable ext : nat -> list val -> mem -> res (val * mem).
  Variables d fuel : nat.
  Variables loc cmd arg txt : val.
  Variables pm pb pe pp bl : nat.       (* msg[128], &beg, &end, the path string, the struct lbuf of xb *)
  Variable n : Z.                        (* lbuf_len(xb) at entry *)
  Let call := callx ext cprog fuel (S (S d)).
  Definition er_st (pos obuf fd : val) (M : mem) : state :=
    mkst [loc; cmd; arg; txt; VPtr pm 0; VPtr pb 0; VPtr pe 0; pos; VPtr pp 0; obuf; VInt n; fd] M.

  (* xb = ex_lbuf() *)
  Definition xb_at (M : mem) : Prop := exists gbufs, nth_error M G_bufs = Some gbufs /\ nth_error gbufs BUFS_LB = Some (VPtr bl 0).
  Lemma call_xb (M : mem) D : xb_at M -> callx ext cprog fuel (S D) F_ex_lbuf [] M = Ok (VPtr bl 0, M).
  Proof.
    intros (gbufs & H1 & H2). apply callx_mono. enter F_ex_lbuf cf_ex_lbuf. xstep.
    rewrite (fld_load M G_bufs gbufs BUFS_LB (VPtr bl 0) _ H1 H2) by reflexivity. xstep. reflexivity.
  Qed.
  (* lbuf_len(xb) *)
  Definition len_at (M : mem) (len : Z) : Prop := exists lblk, nth_error M bl = Some lblk /\ nth_error lblk L_ln_n = Some (VInt len) /\ i32 len.
  Lemma call_len (M : mem) len D : len_at M len -> callx ext cprog fuel (S D) F_lbuf_len [VPtr bl 0] M = Ok (VInt len, M).
  Proof.
    intros (lblk & H1 & H2 & H3). apply callx_mono. enter F_lbuf_len cf_lbuf_len. xstep.
    rewrite (fld_load M bl lblk L_ln_n (VInt len) _ H1 H2) by reflexivity. xstep. rewrite wrap_I32_id by exact H3. reflexivity.
  Qed.

  (* ---- int fd = open(path, O_RDONLY); if (fd < 0) { ex_show("read failed"); return 1; } *)
  Lemma er_file_noopen (M : mem) pos obuf fd0 fd mD u mE f : fd < 0 ->
    ext X_open [VPtr pp 0; VInt 0] M = Ok (VInt fd, mD) -> ext X_ex_show [VPtr G_rdfail 0] mD = Ok (u, mE) ->
    exec call f er_file (er_st pos obuf fd0 M) = OReturn (VInt 1) (er_st pos obuf (VInt fd) mE).
  Proof.
    intros Hfd Ho Hs. unfold er_file, er_branch, er_rest1, er_st; cbn [fn_body cf_ec_read]. xstep.
    unfold call. rewrite callx_S, x_open_none, Ho. xstep. destruct (Z.ltb_spec fd 0); [|lia]. xstep.
    rewrite callx_S, x_ex_show_none. fold G_rdfail. rewrite Hs. xstep. reflexivity.
  Qed.

  (* ---- if (lbuf_rd(xb, fd, pos, pos)) { ex_show("read failed"); close(fd); return 1; } *)
  Lemma er_file_rdfail (M : mem) pos obuf fd0 fd mD r mE u mF u' mG f : 0 <= fd -> r <> 0 -> xb_at mD ->
    ext X_open [VPtr pp 0; VInt 0] M = Ok (VInt fd, mD) ->
    ext X_lbuf_rd [VPtr bl 0; VInt fd; pos; pos] mD = Ok (VInt r, mE) ->
    ext X_ex_show [VPtr G_rdfail 0] mE = Ok (u, mF) -> ext X_close [VInt fd] mF = Ok (u', mG) ->
    pos <> VUndef ->
    exec call f er_file (er_st pos obuf fd0 M) = OReturn (VInt 1) (er_st pos obuf (VInt fd) mG).
  Proof.
    intros Hfd Hr Hxb Ho Hrd Hs Hc Hpos. unfold er_file, er_branch, er_rest1, er_st; cbn [fn_body cf_ec_read]. xstep.
    unfold call. rewrite callx_S, x_open_none, Ho. xstep. destruct (Z.ltb_spec fd 0); [lia|]. xstep.
    rewrite (call_xb mD _ Hxb). xstep. destruct pos as [|pz|pb' po]; [congruence| |]; xstep;
      rewrite callx_S, x_lbuf_rd_none, Hrd; xstep; (destruct (Z.eqb_spec r 0); [contradiction|]); xstep;
      rewrite callx_S, x_ex_show_none; fold G_rdfail; rewrite Hs; xstep; rewrite callx_S, x_close_none, Hc; xstep; reflexivity.
  Qed.

  (* ---- ... close(fd); *)
  Lemma er_file_ok (M : mem) pos obuf fd0 fd mD mE u' mF f : 0 <= fd -> xb_at mD ->
    ext X_open [VPtr pp 0; VInt 0] M = Ok (VInt fd, mD) ->
    ext X_lbuf_rd [VPtr bl 0; VInt fd; pos; pos] mD = Ok (VInt 0, mE) ->
    ext X_close [VInt fd] mE = Ok (u', mF) ->
    pos <> VUndef ->
    exec call f er_file (er_st pos obuf fd0 M) = ONormal (er_st pos obuf (VInt fd) mF).
  Proof.
    intros Hfd Hxb Ho Hrd Hc Hpos. unfold er_file, er_branch, er_rest1, er_st; cbn [fn_body cf_ec_read]. xstep.
    unfold call. rewrite callx_S, x_open_none, Ho. xstep. destruct (Z.ltb_spec fd 0); [lia|]. xstep.
    rewrite (call_xb mD _ Hxb). xstep. destruct pos as [|pz|pb' po]; [congruence| |]; xstep;
      rewrite callx_S, x_lbuf_rd_none, Hrd; xstep; rewrite callx_S, x_close_none, Hc; xstep; reflexivity.
  Qed.

  (* ---- xrow = MAX(0, end + lbuf_len(xb) - n - 1); snprintf(msg, sizeof(msg), "\"%s\"  [=%d]  [r]", path, lbuf_len(xb) - n);
          ex_show(msg); return 0; *)
  Lemma er_tail_ok (M : mem) pos obuf fdv en len1 xr0 u mH u' mI f :
    nth_error M pe = Some [VInt en] -> xb_at M -> len_at M len1 -> cell_at M G_xrow xr0 -> bl <> G_xrow ->
    i32 en -> i32 n -> i32 (en + len1) -> i32 (en + len1 - n) -> i32 (en + len1 - n - 1) -> i32 (len1 - n) ->
    let xr := Z.max 0 (en + len1 - n - 1) in
    let M1 := upd M G_xrow [VInt xr] in
    ext X_snprintf [VPtr pm 0; VInt 128; VPtr G_rdfmt 0; VPtr pp 0; VInt (len1 - n)] M1 = Ok (u, mH) ->
    ext X_ex_show [VPtr pm 0] mH = Ok (u', mI) ->
    exec call f er_tail (er_st pos obuf fdv M) = OReturn (VInt 0) (er_st pos obuf fdv mI).
  Proof.
    intros Hpe Hxb Hlen Hx Hne Ien In I1 I2 I3 I4 xr M1 Hsn Hsh.
    assert (Lx : (G_xrow < length M)%nat) by exact (nth_lt _ _ _ Hx).
    assert (Hxb1 : xb_at M1).
    { destruct Hxb as (g & A & B). exists g. split; [|exact B]. unfold M1. rewrite mem_upd_other; [exact A|exact Lx|discriminate]. }
    assert (Hlen1 : len_at M1 len1).
    { destruct Hlen as (lblk & A & B & C). exists lblk. split; [|split; assumption]. unfold M1. rewrite mem_upd_other; [exact A|exact Lx|exact Hne]. }
    unfold er_tail, er_rest1, er_st; cbn [fn_body cf_ec_read]. unfold i32 in *. unfold call.
    repeat (first [rewrite chk_I32 by lia | rewrite wrap_I32_id by lia | rewrite (load_cell M pe en Hpe)
                  | rewrite (call_xb M _ Hxb) | rewrite (call_len M len1 _ Hlen) | progress xstep]).
    destruct (Z.ltb_spec 0 (en + len1 - n - 1)) as [Hp|Hp];
    repeat (first [rewrite chk_I32 by lia | rewrite wrap_I32_id by lia | rewrite (load_cell M pe en Hpe)
                  | rewrite (call_xb M _ Hxb) | rewrite (call_len M len1 _ Hlen) | progress xstep]);
    rewrite (store_cell M G_xrow xr0 _ Hx);
    [replace (upd M G_xrow [VInt (en + len1 - n - 1)]) with M1 by (unfold M1, xr; rewrite Z.max_r by lia; reflexivity)
    |replace (upd M G_xrow [VInt 0]) with M1 by (unfold M1, xr; rewrite Z.max_l by lia; reflexivity)];
    repeat (first [rewrite chk_I32 by lia | rewrite wrap_I32_id by lia
                  | rewrite (call_xb M1 _ Hxb1) | rewrite (call_len M1 len1 _ Hlen1) | progress xstep]);
    rewrite callx_S, x_snprintf_none; fold G_rdfmt; rewrite Hsn; xstep; rewrite callx_S, x_ex_show_none, Hsh; xstep; reflexivity.
  Qed.

  (* ---- if ((ex_region(loc, &beg, &end) && (beg != 0 || end != 0)) || path == NULL) return 1;   (path is a pointer here) *)
  Definition rejected (bad beg en : Z) : bool := negb (bad =? 0) && (negb (beg =? 0) || negb (en =? 0)).
  Lemma er_guard_ok (M : mem) pos obuf fdv bad mC beg en lb lo f : loc = VPtr lb lo ->
    callx ext cprog fuel (S (S d)) F_ex_region [loc; VPtr pb 0; VPtr pe 0] M = Ok (VInt bad, mC) ->
    nth_error mC pb = Some [VInt beg] -> nth_error mC pe = Some [VInt en] -> i32 beg -> i32 en ->
    exec call f er_guard (er_st pos obuf fdv M)
    = if rejected bad beg en then OReturn (VInt 1) (er_st pos obuf fdv mC) else ONormal (er_st pos obuf fdv mC).
  Proof.
    intros Hloc Hr Hb He Ib Ie. rewrite Hloc in Hr. unfold er_guard, er_rest1, er_st, rejected; cbn [fn_body cf_ec_read]. rewrite Hloc. unfold i32 in *. xstep.
    assert (PC : ptr_cmp OEq (VPtr pp 0) (VInt 0) = Ok 0) by reflexivity.
    unfold call. rewrite Hr. xstep. destruct (Z.eqb_spec bad 0) as [->|Hbad]; xstep.
    - rewrite PC. xstep. reflexivity.
    - rewrite (load_cell mC pb beg Hb). xstep. rewrite wrap_I32_id by lia. destruct (Z.eqb_spec beg 0) as [->|Hbeg]; xstep; [|reflexivity].
      rewrite (load_cell mC pe en He). xstep. rewrite wrap_I32_id by lia. destruct (Z.eqb_spec en 0) as [->|Hen]; xstep; [|reflexivity].
      rewrite PC. xstep. reflexivity.
  Qed.

  (* ---- pos = lbuf_len(xb) ? end : 0; *)
  Lemma er_setpos_ok (M : mem) pos obuf fdv len en f : xb_at M -> len_at M len -> nth_error M pe = Some [VInt en] -> i32 en ->
    exec call f er_setpos (er_st pos obuf fdv M) = ONormal (er_st (VInt (if len =? 0 then 0 else en)) obuf fdv M).
  Proof.
    intros Hxb Hlen He Ie. unfold er_setpos, er_rest1, er_st; cbn [fn_body cf_ec_read]. unfold i32 in *. xstep.
    unfold call. rewrite (call_xb M _ Hxb). xstep. rewrite (call_len M len _ Hlen). xstep.
    destruct (Z.eqb_spec len 0) as [->|Hl]; xstep; [reflexivity|].
    rewrite (load_cell M pe en He). xstep. rewrite wrap_I32_id by lia. reflexivity.
  Qed.

  (* ---- if (path[0] == '!') ... else <the file branch> *)
  Lemma er_branch_file (M : mem) pos obuf fdv pblk c f : nth_error M pp = Some pblk -> nth_error pblk 0 = Some (VInt c) -> wrap I8 c <> 33 ->
    exec call f er_branch (er_st pos obuf fdv M) = exec call f er_file (er_st pos obuf fdv M).
  Proof.
    intros Hp Hc Hne. unfold er_file. unfold er_branch, er_rest1, er_st; cbn [fn_body cf_ec_read]. xstep.
    rewrite (fld_load M pp pblk 0 (VInt c) _ Hp Hc) by reflexivity. xstep.
    destruct (Z.eqb_spec (wrap I32 (wrap I8 c)) 33) as [E|E]; xstep; [|reflexivity].
    exfalso. apply Hne. rewrite wrap_I32_id in E; [exact E|]. unfold wrap. cbn [ity_bits ity_signed andb]. change (2 ^ 8) with 256. change (2 ^ (8 - 1)) with 128.
    pose proof (Z.mod_pos_bound c 256 ltac:(lia)). destruct (128 <=? c mod 256); lia.
  Qed.
End EcRead.

(* what a call makes of the outcome of a function body *)
Definition out_res (o : outcome) : res (val * mem) :=
  match o with ONormal st => Ok (VUndef, memm st) | OReturn v st => Ok (v, memm st) | OErr x => Err x | _ => Err EShape end.

Section EcReadAll.
  Variable ext : nat -> list val -> mem -> res (val * mem).
  Variables d fuel : nat.
  Variable m : mem.
  Variables lb ab pp bl : nat.
  Variables lo ao : Z.
  Variables cmd txt : val.
  Variable n : Z.
  Let loc : val := VPtr lb lo.
  Let arg : val := VPtr ab ao.
  Let pm : nat := length m.
  Let pb : nat := S (length m).
  Let pe : nat := S (S (length m)).
  (* the memory behind the three local arrays: msg[128], beg, end (indeterminate) *)
  Definition er_mem : mem := ((m ++ [repeat VUndef 128]) ++ [[VUndef]]) ++ [[VUndef]].
  Let mA := er_mem.
  Let ST := er_st (VPtr lb lo) cmd (VPtr ab ao) txt (length m) (S (length m)) (S (S (length m))) pp n.

  (* ec_read(loc, cmd, arg, txt) with a file name in arg: msg, beg, end allocated, n = lbuf_len(xb), path = ex_pathexpand(arg, 1);
     the rest of the function runs from there *)
  Lemma er_entry (ablk : block) c mB : xb_at bl m -> len_at bl m n ->
    nth_error m ab = Some ablk -> nth_error ablk (Z.to_nat ao) = Some (VInt c) -> 0 <= ao -> wrap I32 (wrap I8 c) <> 0 ->
    ext X_ex_pathexpand [VPtr ab ao; VInt 1] mA = Ok (VPtr pp 0, mB) ->
    callx ext cprog fuel (S (S (S d))) F_ec_read [VPtr lb lo; cmd; VPtr ab ao; txt] m
    = out_res (exec (callx ext cprog fuel (S (S d))) fuel (SSeq (er_guard) (SSeq er_setpos (SSeq er_branch er_tail)))
                    (ST VUndef VUndef VUndef mB)).
  Proof.
    intros Hxb Hlen Ha Hc Hao Hcn Hpe.
    assert (Old : forall k, (k < length m)%nat -> nth_error mA k = nth_error m k).
    { intros k K. unfold mA, er_mem. rewrite !nth_error_app_old; rewrite ?app_length; cbn [length]; try lia. reflexivity. }
    assert (HxbA : xb_at bl mA).
    { destruct Hxb as (g & A & B). exists g. split; [|exact B]. rewrite Old; [exact A|exact (nth_lt _ _ _ A)]. }
    assert (HlenA : len_at bl mA n).
    { destruct Hlen as (lblk & A & B & C). exists lblk. split; [|split; assumption]. rewrite Old; [exact A|exact (nth_lt _ _ _ A)]. }
    assert (HaA : nth_error mA ab = Some ablk) by (rewrite Old; [exact Ha|exact (nth_lt _ _ _ Ha)]).
    rewrite callx_S. cbn [nth_error cprog F_ec_read]. change (fn_nparams cf_ec_read) with 4%nat. change (fn_nlocals cf_ec_read) with 12%nat.
    cbn [length Nat.eqb Nat.sub repeat app].
    change (fn_body cf_ec_read) with
      (SSeq (SExpr (ESetLocal 4 (EBuiltin BMalloc [EConst 128])))
         (SSeq (SSeq (SExpr (ESetLocal 5 (EBuiltin BMalloc [EConst 1]))) (SExpr (ESetLocal 6 (EBuiltin BMalloc [EConst 1]))))
            (SSeq (SExpr (ESetLocal 10 (ECall F_lbuf_len [ECall F_ex_lbuf []])))
               (SSeq (SExpr (ESetLocal 8 (ECond (ECast I32 (ELoad (Some I8) (EPtrAdd 1 (ELocal 2) (EConst 0))))
                                               (ECall X_ex_pathexpand [ELocal 2; EConst 1]) (ECall F_ex_path []))))
                  (SSeq er_guard (SSeq er_setpos (SSeq er_branch er_tail))))))).
    remember (SSeq er_guard (SSeq er_setpos (SSeq er_branch er_tail))) as REST eqn:ER.
    xstep. rewrite malloc_ok by lia. xstep. rewrite malloc_ok by lia. xstep. rewrite malloc_ok by lia. xstep.
    change (Z.to_nat 128) with 128%nat. change (Z.to_nat 1) with 1%nat. cbn [repeat].
    rewrite !app_length. cbn [length]. rewrite !Nat.add_1_r.
    fold er_mem. fold mA.
    rewrite (call_xb ext fuel bl mA _ HxbA). xstep. rewrite (call_len ext fuel bl mA n _ HlenA). xstep.
    rewrite (fld_load mA ab ablk (Z.to_nat ao) (VInt c) _ HaA Hc) by lia. xstep.
    destruct (Z.eqb_spec (wrap I32 (wrap I8 c)) 0) as [E|E]; [contradiction|]. xstep.
    rewrite callx_S, x_ex_pathexpand_none, Hpe. xstep. reflexivity.
  Qed.

  (* ================================================================ ec_read, outcome by outcome *)
  Section Outcomes.
    Variables (ablk : block) (c : Z) (mB mC : mem) (bad beg en : Z).
    Hypothesis Hxb : xb_at bl m.
    Hypothesis Hlen : len_at bl m n.
    Hypothesis Ha : nth_error m ab = Some ablk.
    Hypothesis Hc : nth_error ablk (Z.to_nat ao) = Some (VInt c).
    Hypothesis Hao : 0 <= ao.
    Hypothesis Hcn : wrap I32 (wrap I8 c) <> 0.                        (* arg[0] != 0: a file name was given *)
    Hypothesis Hpe : ext X_ex_pathexpand [VPtr ab ao; VInt 1] mA = Ok (VPtr pp 0, mB).
    (* the run of the translated ex_region (coq/TrExAddr.v), which has stored beg and end *)
    Hypothesis Hreg : callx ext cprog fuel (S (S d)) F_ex_region [VPtr lb lo; VPtr pb 0; VPtr pe 0] mB = Ok (VInt bad, mC).
    Hypothesis Hbeg : nth_error mC pb = Some [VInt beg].
    Hypothesis Hend : nth_error mC pe = Some [VInt en].
    Hypothesis Ibeg : i32 beg.
    Hypothesis Iend : i32 en.

    Let CALL := callx ext cprog fuel (S (S (S d))) F_ec_read [VPtr lb lo; cmd; VPtr ab ao; txt] m.

    (* a rejected address other than 0: 1, nothing opened *)
    Theorem tr_ec_read_rejected : rejected bad beg en = true -> CALL = Ok (VInt 1, mC).
    Proof.
      intro Hrej. unfold CALL. rewrite (er_entry ablk c mB Hxb Hlen Ha Hc Hao Hcn Hpe). rewrite exec_seq.
      unfold ST. rewrite (er_guard_ok ext d fuel _ cmd _ txt _ _ _ pp n mB VUndef VUndef VUndef bad mC beg en lb lo fuel eq_refl Hreg Hbeg Hend Ibeg Iend).
      rewrite Hrej. reflexivity.
    Qed.

    Section Accepted.
      Variables (len : Z) (pblk : block) (c' fd : Z) (mD : mem).
      Hypothesis Hacc : rejected bad beg en = false.
      Hypothesis HxbC : xb_at bl mC.
      Hypothesis HlenC : len_at bl mC len.
      Hypothesis Hpath : nth_error mC pp = Some pblk.
      Hypothesis Hp0 : nth_error pblk 0 = Some (VInt c').
      Hypothesis Hnobang : wrap I8 c' <> 33.                            (* path[0] != '!' *)
      (* where the text lands: after the last line of the address, at 0 in an empty buffer *)
      Definition rd_pos : Z := if len =? 0 then 0 else en.
      Hypothesis Hopen : ext X_open [VPtr pp 0; VInt 0] mC = Ok (VInt fd, mD).

      Lemma er_to_file : CALL = out_res (match exec (callx ext cprog fuel (S (S d))) fuel er_file (ST (VInt rd_pos) VUndef VUndef mC) with
                                         | ONormal st1 => exec (callx ext cprog fuel (S (S d))) fuel er_tail st1 | o => o end).
      Proof.
        unfold CALL. rewrite (er_entry ablk c mB Hxb Hlen Ha Hc Hao Hcn Hpe). rewrite exec_seq.
        unfold ST. rewrite (er_guard_ok ext d fuel _ cmd _ txt _ _ _ pp n mB VUndef VUndef VUndef bad mC beg en lb lo fuel eq_refl Hreg Hbeg Hend Ibeg Iend).
        rewrite Hacc. rewrite exec_seq.
        rewrite (er_setpos_ok ext d fuel _ cmd _ txt _ _ _ pp bl n mC VUndef VUndef VUndef len en fuel HxbC HlenC Hend Iend).
        rewrite exec_seq. rewrite (er_branch_file ext d fuel _ cmd _ txt _ _ _ pp n mC _ VUndef VUndef pblk c' fuel Hpath Hp0 Hnobang).
        reflexivity.
      Qed.

      (* open fails: "read failed", 1; no lbuf_rd, no close *)
      Theorem tr_ec_read_noopen u mE : fd < 0 -> ext X_ex_show [VPtr G_rdfail 0] mD = Ok (u, mE) -> CALL = Ok (VInt 1, mE).
      Proof.
        intros Hfd Hs. rewrite er_to_file. unfold ST.
        rewrite (er_file_noopen ext d fuel _ cmd _ txt _ _ _ pp n mC (VInt rd_pos) VUndef VUndef fd mD u mE fuel Hfd Hopen Hs). reflexivity.
      Qed.

      (* lbuf_rd(xb, fd, pos, pos) fails: "read failed", close(fd), 1 *)
      Theorem tr_ec_read_rdfail r mE u mF u' mG : 0 <= fd -> xb_at bl mD -> r <> 0 ->
        ext X_lbuf_rd [VPtr bl 0; VInt fd; VInt rd_pos; VInt rd_pos] mD = Ok (VInt r, mE) ->
        ext X_ex_show [VPtr G_rdfail 0] mE = Ok (u, mF) -> ext X_close [VInt fd] mF = Ok (u', mG) -> CALL = Ok (VInt 1, mG).
      Proof.
        intros Hfd HxbD Hr Hrd Hs Hcl. rewrite er_to_file. unfold ST.
        rewrite (er_file_rdfail ext d fuel _ cmd _ txt _ _ _ pp bl n mC (VInt rd_pos) VUndef VUndef fd mD r mE u mF u' mG fuel Hfd Hr HxbD Hopen Hrd Hs Hcl ltac:(discriminate)).
        reflexivity.
      Qed.

      (* the read works: close(fd), xrow = MAX(0, end + lbuf_len(xb) - n - 1), the message, 0 *)
      Theorem tr_ec_read_ok mE u' mF len1 xr0 u3 mH u4 mI : 0 <= fd -> xb_at bl mD ->
        ext X_lbuf_rd [VPtr bl 0; VInt fd; VInt rd_pos; VInt rd_pos] mD = Ok (VInt 0, mE) ->
        ext X_close [VInt fd] mE = Ok (u', mF) ->
        nth_error mF pe = Some [VInt en] -> xb_at bl mF -> len_at bl mF len1 -> cell_at mF G_xrow xr0 -> bl <> G_xrow ->
        i32 n -> i32 (en + len1) -> i32 (en + len1 - n) -> i32 (en + len1 - n - 1) -> i32 (len1 - n) ->
        ext X_snprintf [VPtr pm 0; VInt 128; VPtr G_rdfmt 0; VPtr pp 0; VInt (len1 - n)] (upd mF G_xrow [VInt (Z.max 0 (en + len1 - n - 1))]) = Ok (u3, mH) ->
        ext X_ex_show [VPtr pm 0] mH = Ok (u4, mI) ->
        CALL = Ok (VInt 0, mI).
      Proof.
        intros Hfd HxbD Hrd Hcl HeF HxbF HlenF HxF Hne In I1 I2 I3 I4 Hsn Hsh. rewrite er_to_file. unfold ST.
        rewrite (er_file_ok ext d fuel _ cmd _ txt _ _ _ pp bl n mC (VInt rd_pos) VUndef VUndef fd mD mE u' mF fuel Hfd HxbD Hopen Hrd Hcl ltac:(discriminate)).
        rewrite (er_tail_ok ext d fuel _ cmd _ txt _ _ _ pp bl n mF (VInt rd_pos) VUndef (VInt fd) en len1 xr0 u3 mH u4 mI fuel HeF HxbF HlenF HxF Hne Iend In I1 I2 I3 I4 Hsn Hsh).
        reflexivity.
      Qed.
    End Accepted.
  End Outcomes.
End EcReadAll.

(* ------------------------------------------------------------------ helpers for examples: `:r f` run on a concrete memory *)
From NV Require IoReadDefs TrRead.
(* the oracle: ex_pathexpand copies its argument into a fresh block; open gives fd 3; close, snprintf do nothing; ex_show logs 8 and the block
   of the message in the edit log el; lbuf_rd IS the translated lbuf_rd (coq/TrRead.v) run under the read kernel (rs, rl) and the logging
   lbuf_edit (el) *)
Definition exsys (rs rl el : nat) : nat -> list val -> mem -> res (val * mem) :=
  fun f args m =>
    if Nat.eqb f X_ex_pathexpand then
      match args with
      | [VPtr ab ao; _] => match nth_error m ab with Some blk => Ok (VPtr (length m) 0, m ++ [skipn (Z.to_nat ao) blk]) | None => Err EOob end
      | _ => Err EShape
      end
    else if Nat.eqb f X_open then Ok (VInt 3, m)
    else if Nat.eqb f X_close then Ok (VInt 0, m)
    else if Nat.eqb f X_snprintf then Ok (VInt 0, m)
    else if Nat.eqb f X_ex_show then
      match args, nth_error m el with
      | [VPtr b _], Some lblk => Ok (VUndef, upd m el (lblk ++ [VInt 8; VInt (Z.of_nat b)]))
      | _, _ => Err EShape
      end
    else if Nat.eqb f X_lbuf_rd then callx (TrRead.rsys rs rl el) cprog 10 5 F_lbuf_rd args m
    else Err EShape.
(* the globals with xb = bufs[0].lb pointing to a struct lbuf of 2 lines; behind them: the struct lbuf, "" (loc, cmd, txt), "f" (arg),
   the read schedule, the read log, the edit log *)
Definition ex_L : nat := length cglobals.
Definition ex_m0 (s : list IoReadDefs.rout) : mem :=
  upd cglobals G_bufs (upd gb_bufs BUFS_LB (VPtr ex_L 0))
  ++ [upd (repeat (VInt 0) LBUF_CELLS) L_ln_n (VInt 2); [VInt 0]; [VInt 102; VInt 0]; TrRead.enc_rs s; []; []].
(* `:r f`: the value returned, xrow, the schedule left, the read log, the edit log *)
Definition ex_ecread (s : list IoReadDefs.rout) : option (val * block * block * block * block) :=
  match callx (exsys (ex_L + 3) (ex_L + 4) (ex_L + 5)) cprog 20 8 F_ec_read
              [VPtr (ex_L + 1) 0; VPtr (ex_L + 1) 0; VPtr (ex_L + 2) 0; VPtr (ex_L + 1) 0] (ex_m0 s) with
  | Ok (v, m') => Some (v, nth G_xrow m' [], nth (ex_L + 3) m' [], nth (ex_L + 4) m' [], nth (ex_L + 5) m' [])
  | Err _ => None
  end.
