(* TrReadWrite.v -- READ-THEN-WRITE on the C text (property C01): lbuf_rd (coq/TrRead.v) followed by lbuf_wr (coq/TrWrite.v), both
   translated from /repo/lbuf.c, under ONE oracle that answers read(2) as the read kernel (blocks rs, rl), write(2) / ftruncate(2)
   as the write kernel (blocks ks, kl) and lbuf_edit as a function that installs the lines of the model's split (`installs`: after
   the call the struct lbuf lb points to a line table whose rows are the lines IoDefs.split_lines of the text, each in its own
   NUL-terminated block, all of them older than the call of lbuf_rd or made by lbuf_edit; the kernel blocks are not touched).
   lbuf_edit itself is tied to the C text in coq/TrUndoEdit.v, the splice under it in coq/TrSplice*.v (C01_tr_lbuf_replace:
   lines' = firstn pos lines ++ split_lines s ++ skipn (pos + n_del) lines).

     tr_read_then_write   for EVERY read schedule that reaches end of file (short reads of any sizes) and EVERY write schedule
                          without an error (short writes of any sizes): lbuf_rd returns 0, then lbuf_wr over all lines returns 0,
                          the bytes that reached the file are norm f for f = the concatenation of the chunks read (f itself when
                          it ends in a newline or is empty, f plus one newline otherwise), the log ends with
                          ftruncate(fd, |norm f|); this is the model's IoReadDefs.read_then_write_sched. *)
From Coq Require Import List ZArith NArith Bool Lia.
From NV Require Import Bytes GenConsts IoDefs IoProps IoFaultProps CLite CLiteProps GenCFuncs CLiteTac CLiteExt TrLbufBase IoReadDefs TrRead TrWrite.
Import ListNotations.
Local Open Scope Z_scope.

(* ------------------------------------------------------------------ the model *)
Lemma norm_length (f : bytes) : (length (norm f) <= length f + 1)%nat.
Proof. unfold norm. destruct (rev f) as [|c r]; [cbn; lia|]. destruct (is_nl c); [lia|]. rewrite app_length. cbn [length]. lia. Qed.
Lemma lines_le_bytes (ls : list bytes) : Forall (fun l => l <> []) ls -> (length ls <= length (concat ls))%nat.
Proof.
  induction 1 as [|l ls Hl _ IH]; [cbn; lia|]. cbn [length concat]. rewrite app_length.
  destruct l as [|c l]; [congruence|]. cbn [length]. lia.
Qed.
Lemma split_count (f : bytes) : (length (split_lines f) <= length f + 1)%nat.
Proof.
  pose proof (lines_le_bytes (split_lines f) (line_wf_all_nonempty _ (split_wf f))) as H.
  rewrite split_concat in H. pose proof (norm_length f). lia.
Qed.
Lemma norm_nil_ends (f : bytes) : norm f = f \/ norm f = f ++ [NL].
Proof. unfold norm. destruct (rev f) as [|c r] eqn:E.
  - left. apply (f_equal (@rev N)) in E. rewrite rev_involutive in E. subst f. reflexivity.
  - destruct (is_nl c); [left|right]; reflexivity.
Qed.
(* the model's round trip under a read schedule that reaches end of file *)
Lemma read_then_write_sched_ok s old : rd_ok s = true ->
  read_then_write_sched s old = Some (norm (concat (rd_chunks s))).
Proof.
  intro Hok. unfold read_then_write_sched, lbuf_rd_sched. rewrite Hok.
  destruct (lbuf_rd_empty (rd_chunks s) 0 0) as [lb [A [B _]]]. rewrite A.
  rewrite save_file_want by lia. rewrite want_all, B, split_concat. reflexivity.
Qed.
Lemma read_then_write_sched_fail s old : rd_ok s = false -> read_then_write_sched s old = None.
Proof. intro H. unfold read_then_write_sched, lbuf_rd_sched. rewrite H. reflexivity. Qed.

(* ------------------------------------------------------------------ lines_at and unrelated blocks *)
Lemma lines_at_upd ks kl (m : mem) lb bln lbs lines k (blk' : block) :
  lines_at ks kl m lb bln lbs lines -> ~ In k (lb :: bln :: lbs) -> (k < length m)%nat ->
  lines_at ks kl (upd m k blk') lb bln lbs lines.
Proof.
  intros [(blk & H1 & H1') (lnblk & H2 & H2') H3 H4 H5 H6] Hk Hl.
  assert (Q : forall j, In j (lb :: bln :: lbs) -> nth_error (upd m k blk') j = nth_error m j).
  { intros j Hj. apply mem_upd_other; [exact Hl|]. intros ->. exact (Hk Hj). }
  constructor.
  - exists blk. split; [rewrite Q by (left; reflexivity); exact H1|exact H1'].
  - exists lnblk. split; [rewrite Q by (right; left; reflexivity); exact H2|exact H2'].
  - exact H3.
  - intros i Hi. unfold str_at. rewrite Q; [apply H4; exact Hi|]. right; right. apply nth_In. lia.
  - exact H5.
  - exact H6.
Qed.

(* what the lbuf_edit oracle of the round trip does with the text t: the lines of the model's split are installed in blocks that
   are older than n0 or younger than m1; the four kernel blocks are not touched *)
Definition installs (ks kl rs rl lb n0 : nat) (t : bytes) (m1 m2 : mem) : Prop :=
  (exists bln lbs, lines_at ks kl m2 lb bln lbs (split_lines t) /\
                   Forall (fun k => (k < n0)%nat \/ (length m1 <= k)%nat) (lb :: bln :: lbs)) /\
  (forall k, In k [ks; kl; rs; rl] -> nth_error m2 k = nth_error m1 k).

Lemma wm_kl ks kl (m : mem) b s lg : (ks < length m)%nat -> (kl < length m)%nat ->
  nth_error (wm ks kl m b s lg) kl = Some (enc_log lg).
Proof.
  intros H1 H2. unfold wm, set_world. apply mem_upd_same. rewrite upd_length; rewrite app_length; cbn [length]; lia.
Qed.
Lemma wm_other ks kl (m : mem) b s lg k : (ks < length m)%nat -> (kl < length m)%nat -> (k < length m)%nat -> k <> ks -> k <> kl ->
  nth_error (wm ks kl m b s lg) k = nth_error m k.
Proof.
  intros H1 H2 H3 N1 N2. unfold wm, set_world.
  rewrite mem_upd_other; [|rewrite upd_length; rewrite app_length; cbn [length]; lia|exact N2].
  rewrite mem_upd_other; [|rewrite app_length; cbn [length]; lia|exact N1]. apply nth_error_app_old. exact H3.
Qed.

Theorem tr_read_then_write ext ks kl rs rl m0 lb rfd wfd s lgr ws lgw d fuel :
  read_oracle ext rs rl -> kernel_oracle ext ks kl -> ks <> rs -> ks <> rl -> kl <> rs -> kl <> rl ->
  rworld_at rs rl m0 s lgr -> world_at ks kl m0 ws lgw ->
  Forall (rout_ok 1024) s -> rd_ok s = true -> ~ In IoDefs.OErr ws ->
  let f := concat (rd_chunks s) in
  Z.of_nat (length f) <= 500000000 ->
  (length s + 2 <= fuel)%nat -> (length ws + 2 <= fuel)%nat -> (length (split_lines f) + 2 <= fuel)%nat ->
  edit_oracle ext lb 0 0 0 (length m0) f (installs ks kl rs rl lb (length m0) f) ->
  exists m3 m4 ev,
    callx ext cprog fuel (S (S (S d))) F_lbuf_rd [VPtr lb 0; VInt rfd; VInt 0; VInt 0] m0 = Ok (VInt 0, m3) /\
    callx ext cprog fuel (S (S (S d))) F_lbuf_wr [VPtr lb 0; VInt wfd; VInt 0; VInt (Z.of_nat (length (split_lines f)))] m3 = Ok (VInt 0, m4) /\
    nth_error m4 kl = Some (enc_log (lgw ++ ev ++ [EvTrunc wfd (Z.of_nat (length (norm f)))])) /\
    reached ev = norm f /\ (norm f = f \/ norm f = f ++ [NL]) /\
    (forall old, read_then_write_sched s old = Some (reached ev)) /\
    rworld_at rs rl m4 (rd_rest s) (lgr ++ rd_log rfd s).
Proof.
  intros HR HK N1 N2 N3 N4 Hrw Hww Hok Hgood Hnoerr f Hsz Hf1 Hf2 Hf3 HE.
  pose proof (tr_lbuf_rd ext rs rl m0 lb 0 rfd 0 0 s lgr d fuel _ HR Hrw Hok Hsz Hf1 (fun _ => HE)) as X. cbv zeta in X. rewrite Hgood in X.
  destruct X as (m1 & m2 & tb & rest & C1 & Ht & Htb & Hlen1 & Wr1 & Old1 & ((bln & lbs & HL & Hfresh) & Keep4) & KeepY).
  fold f in Ht, HL.
  set (p := S (length m0)) in *. set (lines := split_lines f) in *.
  destruct Hww as [Wk Wl]. destruct Hrw as [Rk Rl].
  assert (Lks : (ks < length m0)%nat) by exact (nth_some_lt _ _ _ Wk).
  assert (Lkl : (kl < length m0)%nat) by exact (nth_some_lt _ _ _ Wl).
  assert (Lrs : (rs < length m0)%nat) by exact (nth_some_lt _ _ _ Rk).
  assert (Lrl : (rl < length m0)%nat) by exact (nth_some_lt _ _ _ Rl).
  assert (Ltb1 : (tb < length m1)%nat) by exact (nth_some_lt _ _ _ Ht).
  assert (Lp1 : (p < length m1)%nat) by (unfold p; lia).
  assert (Ltb2 : (tb < length m2)%nat).
  { apply nth_error_Some. rewrite KeepY by lia. apply nth_error_Some. exact Ltb1. }
  assert (Lp2 : (p < length m2)%nat).
  { apply nth_error_Some. rewrite KeepY by (unfold p; lia). apply nth_error_Some. exact Lp1. }
  set (m3 := upd (upd m2 tb []) p []) in *.
  assert (L3 : length m3 = length m2) by (unfold m3; rewrite upd_length by (rewrite upd_length; assumption); apply upd_length; exact Ltb2).
  assert (Q3 : forall k, k <> tb -> k <> p -> nth_error m3 k = nth_error m2 k).
  { intros k K1 K2. unfold m3. rewrite mem_upd_other by (rewrite ?upd_length; assumption). apply mem_upd_other; assumption. }
  assert (Qold : forall k, (k < length m0)%nat -> nth_error m3 k = nth_error m2 k) by (intros k K; apply Q3; unfold p; lia).
  assert (Nlines : ~ In tb (lb :: bln :: lbs) /\ ~ In p (lb :: bln :: lbs)).
  { rewrite Forall_forall in Hfresh. split; intro X; apply Hfresh in X; destruct X as [X|X].
    - lia.
    - exact (Nat.lt_irrefl _ (Nat.lt_le_trans _ _ _ Ltb1 X)).
    - unfold p in X. lia.
    - exact (Nat.lt_irrefl _ (Nat.lt_le_trans _ _ _ Lp1 X)). }
  assert (HL3 : lines_at ks kl m3 lb bln lbs lines).
  { unfold m3. apply lines_at_upd; [apply lines_at_upd; [exact HL|exact (proj1 Nlines)|exact Ltb2]|exact (proj2 Nlines)|].
    rewrite upd_length; assumption. }
  assert (Hw3 : world_at ks kl m3 ws lgw).
  { split; rewrite Qold by assumption; (rewrite Keep4 by (cbn; tauto)); (rewrite Old1 by (first [assumption|congruence])); assumption. }
  pose proof (split_count f) as Hcnt. fold lines in Hcnt.
  assert (Ecat : concat lines = norm f) by apply split_concat.
  pose proof (norm_length f) as Hnl.
  pose proof (tr_lbuf_wr_faults ext ks kl m3 lb bln lbs lines wfd 0 (length lines) ws lgw d fuel HK Hw3 HL3 (le_n _)
                ltac:(lia) ltac:(rewrite Ecat; lia) Hf2 ltac:(lia)) as Y.
  cbv zeta in Y.
  destruct (lbuf_wr_bytes IoDefs.BATCH lines 0 (length lines)) as [B1 B2]. fold IoDefs.lbuf_wr in B1, B2.
  rewrite want_all, Ecat in B1, B2. rewrite B2 in Y.
  destruct (write_all (outp (IoDefs.lbuf_wr lines 0 (length lines))) ws) as [[dd ok] r] eqn:EW.
  destruct Y as (ev & bufblk' & used & C2 & Hreach & Hused & Hokiff).
  destruct (write_all_spec _ _ _ _ _ EW) as (used' & _ & Aok & _).
  assert (ok = true).
  { destruct ok; [reflexivity|]. exfalso. apply Hnoerr. rewrite Hused. apply in_or_app. left. apply Hokiff. reflexivity. }
  subst ok. destruct (Aok eq_refl) as [-> _]. rewrite B1 in Hreach.
  exists m3, (wm ks kl m3 bufblk' r (lgw ++ ev ++ [EvTrunc wfd (Z.of_nat (length (norm f)))])), ev.
  assert (Lk3 : (ks < length m3)%nat /\ (kl < length m3)%nat /\ (rs < length m3)%nat /\ (rl < length m3)%nat).
  { rewrite L3. pose proof (nth_some_lt _ _ _ (proj1 Wr1)). pose proof (nth_some_lt _ _ _ (proj2 Wr1)).
    assert (length m1 <= length m2)%nat; [|lia]. destruct (Nat.le_gt_cases (length m1) (length m2)) as [|G]; [assumption|].
    exfalso. assert (X : nth_error m2 (length m2) = nth_error m1 (length m2)) by (apply KeepY; lia).
    rewrite (proj2 (nth_error_None m2 (length m2)) (le_n _)) in X. symmetry in X. apply nth_error_None in X. lia. }
  split; [exact C1|]. split; [exact C2|]. split; [apply wm_kl; tauto|]. split; [exact Hreach|]. split; [apply norm_nil_ends|].
  split; [intro old; rewrite Hreach; apply read_then_write_sched_ok; exact Hgood|].
  destruct Wr1 as [W1 W2].
  split; (rewrite wm_other by (first [tauto|congruence])); rewrite Qold by assumption; (rewrite Keep4 by (cbn; tauto)); assumption.
Qed.

(* ------------------------------------------------------------------ helpers for examples: an lbuf_edit that installs lines *)
(* the line blocks are appended, then the line table; the struct at lb gets a pointer to the table *)
Definition install (lb : nat) (blks : list block) (m : mem) : mem :=
  let n := length m in
  upd ((m ++ blks) ++ [map (fun i => VPtr (n + i) 0) (seq 0 (length blks))]) lb (lbuf_block (n + length blks)).
(* the lines of the C string in cells, each with its newline and terminator *)
Fixpoint cells_lines (cur cells : list val) : list block :=
  let fin := match cur with [] => [] | _ => [rev cur ++ [VInt 10; VInt 0]] end in
  match cells with
  | VInt z :: r => if z =? 0 then fin else if z =? 10 then (rev cur ++ [VInt 10; VInt 0]) :: cells_lines [] r
                   else cells_lines (VInt z :: cur) r
  | _ => fin
  end.
(* lbuf_edit(lb, text, _, _) on an empty buffer: splits the C string at text *)
Definition edit_split (args : list val) (m : mem) : res (val * mem) :=
  match args with
  | [VPtr lb _; VPtr tb o; _; _] =>
      match nth_error m tb with
      | Some blk => Ok (VUndef, install lb (cells_lines [] (skipn (Z.to_nat o) blk)) m)
      | None => Err EOob
      end
  | _ => Err EShape
  end.
(* ... and one that installs given lines whatever it is handed *)
Definition edit_fixed (lb : nat) (ls : list bytes) (m : mem) : mem := install lb (map (fun l => cstr_block (zb l)) ls) m.

(* read(2), write(2), ftruncate(2) as the two kernels, lbuf_edit as given *)
Definition rwsys (rs rl ks kl : nat) (edit : list val -> mem -> res (val * mem)) : nat -> list val -> mem -> res (val * mem) :=
  fun f args m => if Nat.eqb f X_read then sys_read rs rl args m
                  else if Nat.eqb f X_lbuf_edit then edit args m else sys ks kl f args m.
Lemma rwsys_read rs rl ks kl edit : rs <> rl -> read_oracle (rwsys rs rl ks kl edit) rs rl.
Proof. intro H. split; [exact H|]. intros args m. unfold rwsys. rewrite Nat.eqb_refl. reflexivity. Qed.
Lemma rwsys_kernel rs rl ks kl edit : ks <> kl -> kernel_oracle (rwsys rs rl ks kl edit) ks kl.
Proof.
  intro H. split; [exact H|]. split; intros args m; unfold rwsys.
  - replace (Nat.eqb X_write X_read) with false by (vm_compute; reflexivity).
    replace (Nat.eqb X_write X_lbuf_edit) with false by (vm_compute; reflexivity). apply sys_is_write.
  - replace (Nat.eqb X_ftruncate X_read) with false by (vm_compute; reflexivity).
    replace (Nat.eqb X_ftruncate X_lbuf_edit) with false by (vm_compute; reflexivity). apply sys_is_trunc.
Qed.

Lemma nonul_norm (f : bytes) : nonul f -> nonul (norm f).
Proof.
  intro H. destruct (norm_nil_ends f) as [->| ->]; [exact H|]. apply Forall_app. split; [exact H|].
  constructor; [split; reflexivity|constructor].
Qed.
Lemma Forall_concat_inv {A} (P : A -> Prop) (ls : list (list A)) : Forall P (concat ls) -> Forall (Forall P) ls.
Proof.
  induction ls as [|l ls IH]; intro H; [constructor|]. cbn [concat] in H. apply Forall_app in H. destruct H as [H1 H2].
  constructor; [exact H1|apply IH; exact H2].
Qed.
Lemma split_nonul (f : bytes) : nonul f -> Forall nonul (split_lines f).
Proof. intro H. apply Forall_concat_inv. rewrite split_concat. apply nonul_norm. exact H. Qed.

Lemma nth_map_seq n k i : (i < k)%nat -> nth i (map (fun i => (n + i)%nat) (seq 0 k)) O = (n + i)%nat.
Proof.
  intro H. rewrite (nth_indep _ O (n + 0)%nat) by (rewrite map_length, seq_length; exact H).
  rewrite (map_nth (fun i => (n + i)%nat)), seq_nth by exact H. reflexivity.
Qed.
(* the fixed lbuf_edit satisfies the hypothesis of tr_read_then_write *)
Lemma fixed_edit_oracle rs rl ks kl lb n0 (f : bytes) : nonul f -> (lb < n0)%nat ->
  (ks < n0)%nat -> (kl < n0)%nat -> (rs < n0)%nat -> (rl < n0)%nat -> ~ In lb [ks; kl; rs; rl] ->
  edit_oracle (rwsys rs rl ks kl (fun _ m => Ok (VUndef, edit_fixed lb (split_lines f) m))) lb 0 0 0 n0 f
              (installs ks kl rs rl lb n0 f).
Proof.
  intros Hnn Hlb Lks Lkl Lrs Lrl Hsep m1 tb rest Htb Hblk.
  assert (Ln : (n0 + 2 < length m1)%nat) by (pose proof (nth_some_lt _ _ _ Hblk); lia).
  unfold rwsys. replace (Nat.eqb X_lbuf_edit X_read) with false by (vm_compute; reflexivity). rewrite Nat.eqb_refl.
  eexists; eexists. split; [reflexivity|].
  set (ls := split_lines f). set (n := length m1).
  set (blks := map (fun l => cstr_block (zb l)) ls).
  assert (Lb : length blks = length ls) by (unfold blks; apply map_length).
  set (tbl := map (fun i => VPtr (n + i) 0) (seq 0 (length blks))).
  set (m' := (m1 ++ blks) ++ [tbl]).
  assert (Lm' : length m' = S (n + length ls)) by (unfold m'; rewrite !app_length, Lb; cbn [length]; unfold n; lia).
  assert (Em2 : edit_fixed lb ls m1 = upd m' lb (lbuf_block (n + length blks))) by reflexivity.
  rewrite Em2.
  assert (Q : forall k, k <> lb -> nth_error (upd m' lb (lbuf_block (n + length blks))) k = nth_error m' k).
  { intros k K. apply mem_upd_other; [rewrite Lm'; unfold n; lia|exact K]. }
  assert (Qold : forall k, (k < n)%nat -> nth_error m' k = nth_error m1 k).
  { intros k K. unfold m'. rewrite nth_error_app1 by (rewrite app_length; unfold n in *; lia). apply nth_error_app1. exact K. }
  assert (Qline : forall i, (i < length ls)%nat -> nth_error m' (n + i) = Some (cstr_block (zb (nth i ls [])))).
  { intros i Hi. unfold m'. rewrite nth_error_app1 by (rewrite app_length, Lb; unfold n; lia).
    rewrite nth_error_app2 by (unfold n; lia). replace (n + i - length m1)%nat with i by (unfold n; lia).
    unfold blks. rewrite nth_error_map. rewrite (nth_error_nth' ls [] Hi). reflexivity. }
  assert (Qtbl : nth_error m' (n + length ls) = Some tbl).
  { unfold m'. rewrite nth_error_app2 by (rewrite app_length, Lb; unfold n; lia).
    rewrite app_length, Lb. replace (n + length ls - (length m1 + length ls))%nat with 0%nat by (unfold n; lia). reflexivity. }
  split; [split|].
  - exists (n + length ls)%nat, (map (fun i => (n + i)%nat) (seq 0 (length ls))). split.
    + constructor.
      * exists (lbuf_block (n + length blks)). split; [apply mem_upd_same; rewrite Lm'; unfold n; lia|]. rewrite Lb. reflexivity.
      * exists tbl. split; [rewrite Q by (unfold n; lia); exact Qtbl|]. intros i Hi. fold ls in Hi.
        unfold tbl. rewrite Lb, nth_error_map, (nth_error_nth' (seq 0 (length ls)) 0%nat) by (rewrite seq_length; exact Hi).
        rewrite seq_nth by exact Hi. cbn [option_map]. rewrite nth_map_seq by exact Hi. reflexivity.
      * rewrite map_length, seq_length. reflexivity.
      * intros i Hi. fold ls in Hi. unfold str_at, nthl. fold ls.
        rewrite nth_map_seq by exact Hi.
        rewrite Q by (unfold n; lia). apply Qline. exact Hi.
      * apply split_nonul. exact Hnn.
      * assert (X : forall k, In k (map (fun i => (n + i)%nat) (seq 0 (length ls))) -> (n <= k)%nat).
        { intros k Hk. apply in_map_iff in Hk. destruct Hk as (i & <- & _). lia. }
        split; intros [Y|[Y|Y]]; try (apply X in Y; unfold n in *; lia); try (unfold n in *; lia);
          apply Hsep; cbn [In]; rewrite Y; tauto.
    + constructor; [left; exact Hlb|]. constructor; [right; unfold n; lia|].
      apply Forall_forall. intros k Hk. apply in_map_iff in Hk. destruct Hk as (i & <- & _). right. unfold n. lia.
  - intros k Hk. assert (k <> lb) by (intros ->; exact (Hsep Hk)).
    assert (k < n)%nat by (cbn [In] in Hk; unfold n; destruct Hk as [<-|[<-|[<-|[<-|[]]]]]; lia).
    rewrite Q by assumption. apply Qold. assumption.
  - intros k Hk. rewrite Q by lia. apply Qold. unfold n. lia.
Qed.

(* lbuf_rd(block 0, 7, 0, 0) under the read schedule s, then lbuf_wr(block 0, 8, 0, n) under the write schedule ws, with the
   splitting lbuf_edit; block 0 the struct lbuf, 1 / 2 the read kernel, 3 / 4 the write kernel: the two values returned and the write log *)
Definition ex_rw (s : rsched) (ws : sched) (n : Z) : option (val * val * block) :=
  let ext := rwsys 1 2 3 4 edit_split in
  match callx ext cprog 10 5 F_lbuf_rd [VPtr 0 0; VInt 7; VInt 0; VInt 0] [lbuf_block 0; enc_rs s; []; enc_sch ws; []] with
  | Ok (v1, m3) =>
      match callx ext cprog 10 5 F_lbuf_wr [VPtr 0 0; VInt 8; VInt 0; VInt n] m3 with
      | Ok (v2, m4) => Some (v1, v2, log_of m4 4)
      | Err _ => None
      end
  | Err _ => None
  end.
