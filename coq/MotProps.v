(* MotProps.v -- C07: proofs about the motion model of MotDefs.v. *)
From Coq Require Import List NArith ZArith Lia Bool ZifyN ZifyBool ZifyNat.
From NV Require Import Bytes UcDefs MotDefs.
Import ListNotations.
Local Open Scope Z_scope.

(* motions never change the text: a program returns the buffer it was given *)
Lemma run_prog_text b rows cs b' s : run_prog b rows cs = Some (b', s) -> b' = b.
Proof. unfold run_prog. destruct (run b rows cs init_vst); intro H; inversion H; reflexivity. Qed.

(* ---------- ren_noeol puts any non-negative offset on a real character ---------- *)
Definition off_ok (l : line) (o : Z) : Prop := 0 <= o /\ (o < slen l - 1 \/ (slen l = 1 /\ o = 0)).

Lemma wf_slen (l : line) (body : list chr) : l = body ++ [[10%N]] -> slen l = Z.of_nat (length body) + 1.
Proof. intros ->. unfold slen. rewrite app_length. cbn. lia. Qed.

Lemma wf_chr_body (body : list chr) o : Forall (fun c => b0 c <> 10%N) body -> 0 <= o < Z.of_nat (length body) ->
  b0 (chr_at (body ++ [[10%N]]) o) <> 10%N.
Proof.
  intros HF Ho. unfold chr_at. destruct (Z.ltb_spec o 0); [lia|].
  rewrite app_nth1 by lia. rewrite Forall_forall in HF. apply HF. apply nth_In. lia.
Qed.
Lemma wf_chr_last (body : list chr) : b0 (chr_at (body ++ [[10%N]]) (Z.of_nat (length body))) = 10%N.
Proof.
  unfold chr_at. destruct (Z.ltb_spec (Z.of_nat (length body)) 0); [lia|].
  rewrite Nat2Z.id, app_nth2, Nat.sub_diag by lia. reflexivity.
Qed.

Lemma ren_noeol_ok l o : line_wf l -> 0 <= o -> off_ok l (ren_noeol (Some l) o).
Proof.
  intros (body & E & HF) Ho. pose proof (wf_slen l body E) as Hn. unfold off_ok, ren_noeol.
  set (n := slen l) in *. clearbody n.
  set (o1 := if o >=? n then Z.max 0 (n - 1) else o).
  assert (H1 : 0 <= o1 <= n - 1) by (unfold o1; destruct (Z.geb_spec o n); lia).
  clearbody o1.
  destruct (Z.eq_dec o1 (n - 1)) as [He|Hne].
  - assert (Hb : b0 (chr_at l o1) = 10%N).
    { rewrite He, E. replace (n - 1) with (Z.of_nat (length body)) by lia. apply wf_chr_last. }
    rewrite Hb. cbn [N.eqb Pos.eqb]. destruct (Z.ltb_spec 0 o1); cbn [andb]; lia.
  - assert (Hb : b0 (chr_at l o1) <> 10%N) by (rewrite E; apply wf_chr_body; [exact HF|lia]).
    apply N.eqb_neq in Hb. rewrite Hb, andb_false_r. lia.
Qed.

Lemma ren_noeol_none o : 0 <= o -> ren_noeol None o = 0.
Proof. intro H. unfold ren_noeol. destruct (Z.geb_spec o 0); [|lia]. cbn. reflexivity. Qed.

Lemma ren_noeol_nonneg ol o : 0 <= o -> 0 <= ren_noeol ol o.
Proof.
  intro H. unfold ren_noeol.
  set (n := match ol with Some l => slen l | None => 0 end).
  set (o1 := if o >=? n then Z.max 0 (n - 1) else o).
  assert (0 <= o1) by (unfold o1; destruct (Z.geb_spec o n); lia). clearbody o1.
  destruct (0 <? o1) eqn:E; cbn [andb]; [|lia].
  destruct (N.eqb _ 10); lia.
Qed.

(* on a valid cursor ren_noeol is the identity *)
Lemma ren_noeol_id l o : line_wf l -> off_ok l o -> ren_noeol (Some l) o = o.
Proof.
  intros (body & E & HF) (H0 & H1). pose proof (wf_slen l body E) as Hn. unfold ren_noeol.
  destruct (Z.geb_spec o (slen l)).
  - destruct H1 as [H1|[H1 H2]]; [lia|]. subst o. rewrite H1. cbn. reflexivity.
  - destruct H1 as [H1|[H1 H2]].
    + assert (Hb : b0 (chr_at l o) <> 10%N) by (rewrite E; apply wf_chr_body; [exact HF|lia]).
      apply N.eqb_neq in Hb. rewrite Hb, andb_false_r. reflexivity.
    + subst o. reflexivity.
Qed.

(* ---------- getl ---------- *)
Lemma getl_some b r l : getl b r = Some l -> 0 <= r < blen b /\ In l b.
Proof.
  unfold getl, blen. destruct (Z.ltb_spec r 0); [discriminate|]. intro E.
  split; [|eapply nth_error_In; eauto].
  assert (Z.to_nat r < length b)%nat by (apply nth_error_Some; congruence). lia.
Qed.
Lemma getl_none b r : getl b r = None -> r < 0 \/ blen b <= r.
Proof.
  unfold getl, blen. destruct (Z.ltb_spec r 0); [lia|]. intro E. apply nth_error_None in E. lia.
Qed.
Lemma getl_wf b r l : buf_wf b -> getl b r = Some l -> line_wf l.
Proof. intros HW E. apply getl_some in E. unfold buf_wf in HW. rewrite Forall_forall in HW. apply HW, E. Qed.

(* ---------- vi_wfix yields a valid cursor from any non-negative offset ---------- *)
Lemma wfix_row_ok b r : let len := blen b in
  let row := if (r <? 0) || (r >=? len) then (if len =? 0 then 0 else len - 1) else r in
  (b = [] /\ row = 0) \/ (0 <= row < len).
Proof.
  cbv zeta. unfold blen. destruct b as [|x b]; [left|right].
  - split; [reflexivity|]. cbn. destruct (Z.ltb_spec r 0); cbn; [reflexivity|]. destruct (Z.geb_spec r 0); [reflexivity|lia].
  - cbn [length]. destruct (Z.ltb_spec r 0); cbn [orb].
    + destruct (Z.eqb_spec (Z.of_nat (S (length b))) 0); lia.
    + destruct (Z.geb_spec r (Z.of_nat (S (length b)))).
      * destruct (Z.eqb_spec (Z.of_nat (S (length b))) 0); lia.
      * lia.
Qed.

Lemma getl_in_range b r : 0 <= r < blen b -> exists l, getl b r = Some l.
Proof.
  intro H. unfold getl, blen in *. destruct (Z.ltb_spec r 0); [lia|].
  destruct (nth_error b (Z.to_nat r)) eqn:E; [eauto|]. apply nth_error_None in E. lia.
Qed.

Lemma vi_wfix_ok b rows s : buf_wf b -> 0 <= v_off s ->
  cursor_ok b (v_row (vi_wfix b rows s)) (v_off (vi_wfix b rows s)).
Proof.
  intros HW Ho. unfold vi_wfix. cbn [v_row v_off].
  set (row := if (v_row s <? 0) || (v_row s >=? blen b) then (if blen b =? 0 then 0 else blen b - 1) else v_row s).
  destruct (wfix_row_ok b (v_row s)) as [[Hb Hr]|Hr]; fold row in Hr.
  - subst b. unfold cursor_ok. rewrite Hr. cbn [getl]. cbn. rewrite ren_noeol_none by lia. auto.
  - destruct (getl_in_range b row Hr) as (l & El). unfold cursor_ok. rewrite El.
    apply ren_noeol_ok; [eapply getl_wf; eauto|lia].
Qed.

(* a valid cursor is a fixed point of vi_wfix (row and offset) *)
Lemma vi_wfix_id b rows s : buf_wf b -> cursor_ok b (v_row s) (v_off s) ->
  v_row (vi_wfix b rows s) = v_row s /\ v_off (vi_wfix b rows s) = v_off s.
Proof.
  intros HW HC. unfold vi_wfix, cursor_ok in *. cbn [v_row v_off].
  destruct (getl b (v_row s)) as [l|] eqn:El.
  - pose proof (getl_some _ _ _ El) as [Hr _].
    destruct (Z.ltb_spec (v_row s) 0); [lia|]. destruct (Z.geb_spec (v_row s) (blen b)); [lia|]. cbn [orb].
    rewrite El. split; [reflexivity|]. apply ren_noeol_id; [eapply getl_wf; eauto|exact HC].
  - destruct HC as (Hb & Hr & Ho). subst b. rewrite Hr, Ho. cbn. auto.
Qed.

(* ---------- every motion returns a non-negative offset, or -1 for a line motion ---------- *)
Lemma lbuf_eol_nonneg b r : 0 <= lbuf_eol b r.
Proof. unfold lbuf_eol. destruct (getl b r) as [l|]; [destruct (Z.eqb_spec (slen l) 0); unfold slen in *; lia|cbn; lia]. Qed.

Lemma lbuf_next_nonneg b dir r o : 0 <= o -> 0 <= snd (lbuf_next b dir r o).
Proof.
  intro H. unfold lbuf_next.
  set (r1 := if (dir <? 0) && (r >=? blen b) then Z.max 0 (blen b - 1) else r).
  unfold lbuf_lnnext. destruct (getl b r1) as [l|].
  - destruct ((o + dir <? 0) || (o + dir >=? slen l)) eqn:E.
    + destruct (getl b (r1 + dir)); cbn [snd]; [|lia]. destruct (0 <? dir); [lia|apply lbuf_eol_nonneg].
    + cbn [snd]. apply orb_false_iff in E. lia.
  - destruct (getl b (r1 + dir)); cbn [snd]; [|lia]. destruct (0 <? dir); [lia|apply lbuf_eol_nonneg].
Qed.

Definition nn3 (x : option st3) : Prop := match x with Some (_, _, o) => 0 <= o | None => True end.

Lemma wordlast_loop_nn fuel : forall b kind dir r o, 0 <= o -> nn3 (wordlast_loop fuel b kind dir r o).
Proof.
  induction fuel as [|f IH]; intros; cbn [wordlast_loop]; [exact I|].
  destruct (kmatch b kind r o).
  - pose proof (lbuf_next_nonneg b dir r o H). destruct (lbuf_next b dir r o) as [[[] r'] o']; cbn [snd] in *.
    + exact H0.
    + apply IH, H0.
  - pose proof (lbuf_next_nonneg b (- dir) r o H). destruct (lbuf_next b (- dir) r o) as [[s r'] o']. exact H0.
Qed.
Lemma wordlast_nn fuel b kind dir r o : 0 <= o -> nn3 (lbuf_wordlast fuel b kind dir r o).
Proof.
  intro H. unfold lbuf_wordlast. destruct (_ || _); [exact H|]. apply wordlast_loop_nn, H.
Qed.
Lemma wordbeg_loop_nn fuel : forall b dir nl r o, 0 <= o -> nn3 (wordbeg_loop fuel b dir nl r o).
Proof.
  induction fuel as [|f IH]; intros; cbn [wordbeg_loop]; [exact I|].
  destruct (uc_isspace _); [|exact H].
  destruct (_ =? 2); [exact H|].
  pose proof (lbuf_next_nonneg b dir r o H). destruct (lbuf_next b dir r o) as [[[] r'] o']; cbn [snd] in *.
  - exact H0.
  - apply IH, H0.
Qed.
Lemma wordbeg_nn fuel b big dir r o : 0 <= o -> nn3 (lbuf_wordbeg fuel b big dir r o).
Proof.
  intro H. unfold lbuf_wordbeg.
  pose proof (wordlast_nn fuel b (if big then 3%N else kindof b r o) dir r o H) as H1.
  destruct (lbuf_wordlast _ _ _ _ _ _) as [[[s r1] o1]|]; [|exact I]. cbn in H1.
  pose proof (lbuf_next_nonneg b dir r1 o1 H1). destruct (lbuf_next b dir r1 o1) as [[[] r'] o']; cbn [snd] in *.
  - exact H0.
  - apply wordbeg_loop_nn, H0.
Qed.
Definition nn4 (x : option (bool * st3)) : Prop := match x with Some (_, (_, _, o)) => 0 <= o | None => True end.
Lemma wordend_loop_nn fuel : forall b dir nl r o, 0 <= o -> nn4 (wordend_loop fuel b dir nl r o).
Proof.
  induction fuel as [|f IH]; intros; cbn [wordend_loop]; [exact I|].
  destruct (uc_isspace _); [|exact H].
  pose proof (lbuf_next_nonneg b dir r o H). destruct (lbuf_next b dir r o) as [[[] r'] o']; cbn [snd] in *.
  - exact H0.
  - destruct (_ =? 2).
    + destruct (dir <? 0); [|exact H0].
      pose proof (lbuf_next_nonneg b (- dir) r' o' H0). destruct (lbuf_next b (- dir) r' o') as [[s2 r2] o2]. exact H1.
    + apply IH, H0.
Qed.
Lemma wordend_nn fuel b big dir r o : 0 <= o -> nn3 (lbuf_wordend fuel b big dir r o).
Proof.
  intro H. unfold lbuf_wordend.
  pose proof (lbuf_next_nonneg b dir r o H) as Hn.
  assert (HS : forall nl r o, 0 <= o ->
    nn3 (match wordend_loop fuel b dir nl r o with
         | None => None
         | Some (true, res) => Some res
         | Some (false, (_, r, o)) =>
             match lbuf_wordlast fuel b (if big then 3%N else kindof b r o) dir r o with
             | None => None
             | Some (true, r', o') => Some (true, r', o')
             | Some (false, r', o') => Some (false, r', o')
             end
         end)).
  { intros nl r0 o0 H0. pose proof (wordend_loop_nn fuel b dir nl r0 o0 H0) as HL.
    destruct (wordend_loop fuel b dir nl r0 o0) as [[[] [[s1 r1] o1]]|]; cbn in HL; [exact HL| |exact I].
    pose proof (wordlast_nn fuel b (if big then 3%N else kindof b r1 o1) dir r1 o1 HL) as HW.
    destruct (lbuf_wordlast _ _ _ _ _ _) as [[[[] r2] o2]|]; exact HW. }
  destruct (negb (uc_isspace (lchr b r o))).
  - destruct (lbuf_next b dir r o) as [[[] r'] o'] eqn:E; cbn [snd] in Hn.
    + exact Hn.
    + apply HS, Hn.
  - apply HS, H.
Qed.

Lemma pair_loop_nn fuel : forall b dir opn cls dep r o r' o', 0 <= o ->
  pair_loop fuel b dir opn cls dep r o = Some (Some (r', o')) -> 0 <= o'.
Proof.
  induction fuel as [|f IH]; intros until o'; intros H E; cbn [pair_loop] in E; [discriminate|].
  pose proof (lbuf_next_nonneg b dir r o H). destruct (lbuf_next b dir r o) as [[[] r1] o1]; cbn [snd] in *; [discriminate|].
  destruct (_ =? 0) in E.
  - inversion E; subst; assumption.
  - eapply IH; [|exact E]. assumption.
Qed.
Lemma pair_scan_nn fuel : forall b r o o' c, 0 <= o -> pair_scan fuel b r o = Some (o', c) -> 0 <= o'.
Proof.
  induction fuel as [|f IH]; intros until c; intros H E; cbn [pair_scan] in E; [discriminate|].
  destruct (N.eqb _ 0); [discriminate|]. destruct (index_of _ pairs 0).
  - inversion E; subst; assumption.
  - eapply IH; [|exact E]. lia.
Qed.

Lemma find_nth_bounds cs : forall l n i j, find_nth cs n l i = Some j -> i <= j < i + Z.of_nat (length l).
Proof.
  induction l as [|c l IH]; intros n i j E; cbn [find_nth] in E; [discriminate|]. cbn [length].
  destruct (N.eqb (code c) (code cs)).
  - destruct n as [|[|n']].
    + inversion E; lia.
    + inversion E; lia.
    + apply IH in E. lia.
  - apply IH in E. lia.
Qed.

Lemma findchar_nn b cs cmd n r o o' : 0 <= o -> lbuf_findchar b cs cmd n r o = Some o' -> 0 <= o'.
Proof.
  intros H E. unfold lbuf_findchar in E. destruct (getl b r) as [l|]; [|discriminate].
  destruct (Z.abs n =? 0); [inversion E; lia|].
  destruct (0 <? _).
  - destruct (find_nth _ _ _ _) eqn:F; [|discriminate]. apply find_nth_bounds in F. inversion E. destruct (is_tT cmd); lia.
  - destruct (find_nth _ _ _ _) eqn:F; [|discriminate]. apply find_nth_bounds in F.
    rewrite rev_length, firstn_length in F. inversion E. destruct (is_tT cmd); lia.
Qed.

Lemma iter_break_inv {A} (P : A -> Prop) (step : A -> option (bool * A)) :
  (forall x s y, P x -> step x = Some (s, y) -> P y) ->
  forall n x y, P x -> iter_break n step x = Some y -> P y.
Proof.
  intros HS. induction n as [|n IH]; intros x y HP E; cbn [iter_break] in E.
  - inversion E; subst; exact HP.
  - destruct (step x) as [[[] z]|] eqn:Es; [| |discriminate].
    + inversion E; subst. eapply HS; eauto.
    + eapply IH; [|exact E]. eapply HS; eauto.
Qed.

Lemma wstep_nn (f : Z -> Z -> option st3) : (forall r o, 0 <= o -> nn3 (f r o)) ->
  forall x s y, 0 <= snd x -> wstep f x = Some (s, y) -> 0 <= snd y.
Proof.
  intros Hf x s y Hx E. unfold wstep in E. specialize (Hf (fst x) (snd x) Hx).
  destruct (f (fst x) (snd x)) as [[[s1 r1] o1]|]; [|discriminate]. inversion E; subst. exact Hf.
Qed.

Lemma ren_off_nonneg l p : 0 <= ren_off l p.
Proof. unfold ren_off. destruct (Z.leb_spec 0 (last_index (positions l) (pos_prev (positions l) p true) 0 (-1))); lia. Qed.

Lemma count_space_nonneg l : 0 <= count_space l.
Proof. induction l as [|c l IH]; cbn [count_space]; [lia|]. destruct (uc_isspace c); lia. Qed.

Lemma vi_motion_off b rows top cl cc pc has cnt k row off r o cl' cc' pc' :
  0 <= off -> vi_motion b rows top cl cc pc has cnt k row off = MvOk r o cl' cc' pc' -> 0 <= o \/ o = -1.
Proof.
  intros H E. unfold vi_motion in E.
  destruct (vi_motionln b rows top has cnt k row) as [[r1|]|]; [inversion E; lia|discriminate|].
  assert (OK : forall p : option (Z * Z), (forall y, p = Some y -> 0 <= snd y) ->
     match p with Some (r0, o0) => MvOk r0 o0 cl cc pc | None => MvFuel end = MvOk r o cl' cc' pc' -> 0 <= o \/ o = -1).
  { intros p Hp E1. destruct p as [[r0 o0]|]; [|discriminate]. inversion E1; subst. left. apply (Hp (r, o) eq_refl). }
  assert (FC : forall cs cmd n, match lbuf_findchar b cs cmd n row off with Some o0 => MvOk row o0 cs cmd pc | None => MvFail cs cmd end
                 = MvOk r o cl' cc' pc' -> 0 <= o \/ o = -1).
  { intros cs cmd n E1. destruct (lbuf_findchar b cs cmd n row off) eqn:F; [|discriminate]. inversion E1; subst.
    left. eapply findchar_nn; eauto. }
  assert (W : forall f : Z -> Z -> option st3, (forall r o, 0 <= o -> nn3 (f r o)) ->
            forall y, iter_break (Z.to_nat cnt) (wstep f) (row, off) = Some y -> 0 <= snd y).
  { intros f Hf y Ey. eapply (iter_break_inv (fun x => 0 <= snd x)); [apply wstep_nn, Hf| |exact Ey]. exact H. }
  destruct k; try discriminate; try (eapply FC; exact E);
    try (eapply OK; [|exact E]; intros y Ey; eapply W; [|exact Ey]; intros; first [apply wordend_nn|apply wordbeg_nn]; assumption).
  - (* h *) eapply OK; [|exact E]. intros y Ey. eapply (iter_break_inv (fun x => 0 <= snd x)); [| |exact Ey]; [|exact H].
    intros [r0 o0] s y0 Hx Es. unfold vi_nextcol in Es. destruct (getl b r0); [|inversion Es; subst; exact Hx].
    destruct (_ <? 0); inversion Es; subst; [exact Hx|]. cbn. apply ren_off_nonneg.
  - (* l *) eapply OK; [|exact E]. intros y Ey. eapply (iter_break_inv (fun x => 0 <= snd x)); [| |exact Ey]; [|exact H].
    intros [r0 o0] s y0 Hx Es. unfold vi_nextcol in Es. destruct (getl b r0); [|inversion Es; subst; exact Hx].
    destruct (_ <? 0); inversion Es; subst; [exact Hx|]. cbn. apply ren_off_nonneg.
  - (* 0 *) inversion E; lia.
  - (* ^ *) inversion E; subst. left. pose proof (lbuf_eol_nonneg b r). assert (0 <= lbuf_indents b r) by (unfold lbuf_indents; destruct (getl b _); [apply count_space_nonneg|lia]). lia.
  - (* $ *) inversion E. left. apply lbuf_eol_nonneg.
  - (* | *) inversion E; subst. left. unfold vi_col2off. destruct (getl b _); [apply ren_off_nonneg|lia].
  - (* ; *) destruct cl; [discriminate|]. eapply FC; exact E.
  - (* , *) destruct cl; [discriminate|]. eapply FC; exact E.
  - (* % *) destruct (lbuf_pair (mfuel b) b row off) as [[[r0 o0]|]|] eqn:P; try discriminate. inversion E; subst. left.
    unfold lbuf_pair in P. destruct (pair_scan _ b row off) as [[o1 c]|] eqn:S1; [|discriminate].
    apply pair_scan_nn in S1; [|exact H]. destruct (index_of c pairs 0); [|discriminate].
    eapply pair_loop_nn; [|exact P]. exact S1.
  - (* { *) eapply OK; [|exact E]. intros y Ey. eapply (iter_break_inv (fun x => 0 <= snd x)); [| |exact Ey]; [|exact H].
    intros x s y0 _ Es. inversion Es. cbn. lia.
  - (* } *) eapply OK; [|exact E]. intros y Ey. eapply (iter_break_inv (fun x => 0 <= snd x)); [| |exact Ey]; [|exact H].
    intros x s y0 _ Es. inversion Es. cbn. lia.
  - (* space *) eapply OK; [|exact E]. intros y Ey. eapply (iter_break_inv (fun x => 0 <= snd x)); [| |exact Ey]; [|exact H].
    intros [r0 o0] s y0 Hx Es. unfold vi_nextoff, lbuf_lnnext in Es. destruct (getl b r0); [|inversion Es; subst; exact Hx].
    destruct ((_ <? 0) || _) eqn:B; inversion Es; subst; [exact Hx|]. cbn. apply orb_false_iff in B. lia.
  - (* ^H *) eapply OK; [|exact E]. intros y Ey. eapply (iter_break_inv (fun x => 0 <= snd x)); [| |exact Ey]; [|exact H].
    intros [r0 o0] s y0 Hx Es. unfold vi_nextoff, lbuf_lnnext in Es. destruct (getl b r0); [|inversion Es; subst; exact Hx].
    destruct ((_ <? 0) || _) eqn:B; inversion Es; subst; [exact Hx|]. cbn. apply orb_false_iff in B. lia.
Qed.

(* ---------- C07_cursor_valid ---------- *)
Lemma cursor_ok_off b r o : cursor_ok b r o -> 0 <= o.
Proof. unfold cursor_ok. destruct (getl b r); intros; lia. Qed.

Lemma vi_col2off_nonneg b r c : 0 <= vi_col2off b r c.
Proof. unfold vi_col2off. destruct (getl b r); [apply ren_off_nonneg|lia]. Qed.
Lemma lbuf_indents_nonneg b r : 0 <= lbuf_indents b r.
Proof. unfold lbuf_indents. destruct (getl b r); [apply count_space_nonneg|lia]. Qed.

Lemma do_motion_ok b rows a1 a2 k s s' : buf_wf b -> 0 <= v_off s ->
  do_motion b rows a1 a2 k s = Some s' -> cursor_ok b (v_row s') (v_off s').
Proof.
  intros HW Ho E. unfold do_motion in E.
  pose proof (ren_noeol_nonneg (getl b (v_row s)) (v_off s) Ho) as Hn.
  destruct (vi_motion _ _ _ _ _ _ _ _ _ _ _) as [cl cc|r o cl cc pc|] eqn:M; [| |discriminate].
  - inversion E; subst. apply vi_wfix_ok; [exact HW|exact Ho].
  - inversion E; subst. apply vi_wfix_ok; [exact HW|]. cbn [v_off]. apply ren_noeol_nonneg.
    apply vi_motion_off in M; [|exact Hn].
    destruct (is_jk k); [apply vi_col2off_nonneg|].
    rewrite andb_true_r. destruct (Z.ltb_spec o 0); [apply lbuf_indents_nonneg|lia].
Qed.

Lemma do_goto_ok b rows n s : buf_wf b -> cursor_ok b (v_row s) (v_off s) ->
  cursor_ok b (v_row (do_goto b rows n s)) (v_off (do_goto b rows n s)).
Proof.
  intros HW HC. unfold do_goto. destruct (_ && _); [|exact HC]. cbn [v_row v_off].
  apply vi_wfix_ok; [exact HW|cbn; lia].
Qed.

Lemma step_ok b rows c s s' : buf_wf b -> cursor_ok b (v_row s) (v_off s) -> step b rows c s = Some s' ->
  cursor_ok b (v_row s') (v_off s').
Proof.
  intros HW HC E. destruct c as [cnt k|n]; cbn [step] in E.
  - eapply do_motion_ok; eauto. eapply cursor_ok_off; eauto.
  - inversion E; subst. apply do_goto_ok; assumption.
Qed.

Lemma wf_slen_pos l : line_wf l -> 1 <= slen l.
Proof. intros (body & E & _). rewrite (wf_slen l body E). lia. Qed.

Lemma init_ok b : buf_wf b -> cursor_ok b (v_row init_vst) (v_off init_vst).
Proof.
  intro HW. cbn. unfold cursor_ok. destruct (getl b 0) as [l|] eqn:E.
  - pose proof (wf_slen_pos l (getl_wf _ _ _ HW E)). lia.
  - destruct b; [auto|]. cbn in E. discriminate.
Qed.

Lemma run_ok b rows : buf_wf b -> forall cs s s', cursor_ok b (v_row s) (v_off s) -> run b rows cs s = Some s' ->
  cursor_ok b (v_row s') (v_off s').
Proof.
  intro HW. induction cs as [|c cs IH]; intros s s' HC E; cbn [run] in E.
  - inversion E; subst; exact HC.
  - destruct (step b rows c s) as [s1|] eqn:S1; [|discriminate]. eapply IH; [|exact E]. eapply step_ok; eauto.
Qed.

(* after every program of motions (each followed by the vi_wfix clamp) the cursor is on an existing
   character of an existing line, never on the terminator of a non-empty line *)
Lemma cursor_valid b rows cs b' s : buf_wf b -> run_prog b rows cs = Some (b', s) -> cursor_ok b (v_row s) (v_off s).
Proof.
  intros HW E. unfold run_prog in E. destruct (run b rows cs init_vst) as [s1|] eqn:R; [|discriminate].
  inversion E; subst. eapply run_ok; [exact HW|apply init_ok, HW|exact R].
Qed.

(* cursor_ok unfolded: what it says about the character under the cursor *)
Lemma cursor_ok_char b r o : buf_wf b -> cursor_ok b r o ->
  match getl b r with
  | Some l => 0 <= o < slen l /\ (b0 (chr_at l o) = 10%N -> l = [[10%N]])
  | None => b = [] /\ r = 0 /\ o = 0
  end.
Proof.
  intros HW HC. unfold cursor_ok in HC. destruct (getl b r) as [l|] eqn:E; [|exact HC].
  destruct (getl_wf _ _ _ HW E) as (body & El & HF). pose proof (wf_slen l body El) as Hn.
  destruct HC as (H0 & [H1|[H1 H2]]).
  - split; [lia|]. intro Hb. exfalso. revert Hb. rewrite El. apply wf_chr_body; [exact HF|lia].
  - split; [lia|]. intros _. destruct body; [exact El|]. cbn [length] in Hn. lia.
Qed.

(* ---------- C07_fail_in_place ---------- *)
Definition m_cnt (a1 a2 : Z) : Z := (if a1 =? 0 then 1 else a1) * (if a2 =? 0 then 1 else a2).
Definition m_has (a1 a2 : Z) : bool := negb (a1 =? 0) || negb (a2 =? 0).

Lemma do_motion_fail b rows a1 a2 k s cl cc : buf_wf b -> cursor_ok b (v_row s) (v_off s) ->
  vi_motion b rows (v_top s) (v_cl s) (v_cc s) (v_pcol s) (m_has a1 a2) (m_cnt a1 a2) k (v_row s)
            (ren_noeol (getl b (v_row s)) (v_off s)) = MvFail cl cc ->
  exists s', do_motion b rows a1 a2 k s = Some s' /\ v_row s' = v_row s /\ v_off s' = v_off s /\ v_col s' = v_col s.
Proof.
  intros HW HC M. unfold do_motion. fold (m_cnt a1 a2). fold (m_has a1 a2). rewrite M.
  eexists. split; [reflexivity|].
  pose proof (vi_wfix_id b rows (mk_vst (v_row s) (v_off s) (v_col s) (v_top s) cl cc (v_pcol s)) HW HC) as [H1 H2].
  cbn [v_row v_off] in H1, H2. auto.
Qed.

(* when does the model report failure: exactly for f F t T ; , without target, ; , without a previous
   find, % without a bracket / match, and a percentage above 100 *)
Lemma vi_motion_fail_cases b rows top cl cc pc has cnt k row off cl' cc' :
  vi_motion b rows top cl cc pc has cnt k row off = MvFail cl' cc' ->
  match k with
  | Kf c => lbuf_findchar b c 102%N cnt row off = None
  | KF c => lbuf_findchar b c 70%N cnt row off = None
  | Kt c => lbuf_findchar b c 116%N cnt row off = None
  | KT c => lbuf_findchar b c 84%N cnt row off = None
  | Ksemi => cl = [] \/ lbuf_findchar b cl cc cnt row off = None
  | Kcomma => cl = [] \/ lbuf_findchar b cl cc (- cnt) row off = None
  | Kpct => (has = true /\ 100 < cnt) \/ (has = false /\ lbuf_pair (mfuel b) b row off = Some None)
  | _ => False
  end.
Proof.
  intro E. unfold vi_motion in E.
  destruct k; cbn [vi_motionln] in E; try discriminate;
    try (destruct (iter_break _ _ _) as [[? ?]|]; discriminate);
    try (destruct (lbuf_findchar _ _ _ _ _ _); [discriminate|reflexivity]).
  - destruct cl; [left; reflexivity|right]. destruct (lbuf_findchar _ _ _ _ _ _); [discriminate|reflexivity].
  - destruct cl; [left; reflexivity|right]. destruct (lbuf_findchar _ _ _ _ _ _); [discriminate|reflexivity].
  - destruct has.
    + left. destruct (Z.ltb_spec 100 cnt); [auto|discriminate].
    + right. split; [reflexivity|]. destruct (lbuf_pair _ _ _ _) as [[[? ?]|]|]; try discriminate. reflexivity.
Qed.

(* ---------- f F t T ; , : the n-th occurrence ---------- *)
Definition count_m (cs : chr) (l : list chr) : nat := length (filter (fun c => N.eqb (code c) (code cs)) l).

Lemma find_nth_some cs : forall l n i j, (1 <= n)%nat -> find_nth cs n l i = Some j ->
  exists k, j = i + Z.of_nat k /\ (k < length l)%nat /\ code (nth k l []) = code cs /\ count_m cs (firstn k l) = (n - 1)%nat.
Proof.
  induction l as [|c l IH]; intros n i j Hn E; cbn [find_nth] in E; [discriminate|].
  destruct (N.eqb (code c) (code cs)) eqn:Ec.
  - destruct n as [|[|n']]; [lia| |].
    + inversion E; subst. exists 0%nat. cbn. repeat split; try lia; try (apply N.eqb_eq, Ec).
    + apply IH in E; [|lia]. destruct E as (k & -> & Hk & Hc & Hm). exists (S k). cbn [length nth firstn].
      repeat split; try lia; try exact Hc. unfold count_m in *. cbn [filter]. rewrite Ec. cbn [length]. lia.
  - apply IH in E; [|lia]. destruct E as (k & -> & Hk & Hc & Hm). exists (S k). cbn [length nth firstn].
    repeat split; try lia; try exact Hc. unfold count_m in *. cbn [filter]. rewrite Ec. exact Hm.
Qed.
Lemma find_nth_none cs : forall l n i, (1 <= n)%nat -> find_nth cs n l i = None -> (count_m cs l < n)%nat.
Proof.
  induction l as [|c l IH]; intros n i Hn E; cbn [find_nth] in E; [cbn; lia|].
  unfold count_m in *. cbn [filter]. destruct (N.eqb (code c) (code cs)) eqn:Ec.
  - destruct n as [|[|n']]; [lia|discriminate|]. apply IH in E; [|lia]. cbn [length]. lia.
  - apply IH in E; [|lia]. exact E.
Qed.

(* forward search (f, t, and , after F/T): the target is the n-th character with the wanted code
   point strictly after the cursor on this line; t stops one short; failure iff fewer than n *)
Lemma findchar_forward b cs cmd n r o l : getl b r = Some l -> 0 <= o -> n <> 0 ->
  (if n <? 0 then negb (is_ft cmd) else is_ft cmd) = true ->
  let rest := skipn (Z.to_nat (o + 1)) l in
  let m := Z.to_nat (Z.abs n) in
  match lbuf_findchar b cs cmd n r o with
  | Some o' => exists k, (k < length rest)%nat /\ code (nth k rest []) = code cs /\ count_m cs (firstn k rest) = (m - 1)%nat /\
                         o' = o + 1 + Z.of_nat k - (if is_tT cmd then 1 else 0)
  | None => (count_m cs rest < m)%nat
  end.
Proof.
  intros El Ho Hn Hd rest m. unfold lbuf_findchar. rewrite El.
  assert (Hdir : (0 <? (if n <? 0 then - (if is_ft cmd then 1 else -1) else (if is_ft cmd then 1 else -1))) = true).
  { destruct (n <? 0); destruct (is_ft cmd); cbn in *; congruence. }
  rewrite Hdir. destruct (Z.eqb_spec (Z.abs n) 0); [lia|].
  fold rest. fold m. destruct (find_nth cs m rest 0) as [j|] eqn:F.
  - apply find_nth_some in F; [|lia]. destruct F as (k & -> & Hk & Hc & Hm). exists k. repeat split; auto.
    destruct (is_tT cmd); lia.
  - eapply find_nth_none; [|exact F]. lia.
Qed.
(* backward search (F, T, and , after f/t) *)
Lemma findchar_backward b cs cmd n r o l : getl b r = Some l -> 0 <= o -> n <> 0 ->
  (if n <? 0 then negb (is_ft cmd) else is_ft cmd) = false ->
  let rest := rev (firstn (Z.to_nat o) l) in
  let m := Z.to_nat (Z.abs n) in
  match lbuf_findchar b cs cmd n r o with
  | Some o' => exists k, (k < length rest)%nat /\ code (nth k rest []) = code cs /\ count_m cs (firstn k rest) = (m - 1)%nat /\
                         o' = o - 1 - Z.of_nat k + (if is_tT cmd then 1 else 0)
  | None => (count_m cs rest < m)%nat
  end.
Proof.
  intros El Ho Hn Hd rest m. unfold lbuf_findchar. rewrite El.
  assert (Hdir : (0 <? (if n <? 0 then - (if is_ft cmd then 1 else -1) else (if is_ft cmd then 1 else -1))) = false).
  { destruct (n <? 0); destruct (is_ft cmd); cbn in *; congruence. }
  rewrite Hdir. destruct (Z.eqb_spec (Z.abs n) 0); [lia|].
  fold rest. fold m. destruct (find_nth cs m rest 0) as [j|] eqn:F.
  - apply find_nth_some in F; [|lia]. destruct F as (k & -> & Hk & Hc & Hm). exists k. repeat split; auto.
    destruct (is_tT cmd); lia.
  - eapply find_nth_none; [|exact F]. lia.
Qed.

(* ---------- where a successful motion lands (the mv > 0 branch of vi() followed by vi_wfix) ---------- *)
Lemma ren_noeol_idem l x : line_wf l -> 0 <= x -> ren_noeol (Some l) (ren_noeol (Some l) x) = ren_noeol (Some l) x.
Proof. intros HW Hx. apply ren_noeol_id; [exact HW|]. apply ren_noeol_ok; assumption. Qed.

Lemma do_motion_land b rows a1 a2 k s r o cl cc pc l : buf_wf b -> 0 <= v_off s ->
  vi_motion b rows (v_top s) (v_cl s) (v_cc s) (v_pcol s) (m_has a1 a2) (m_cnt a1 a2) k (v_row s)
            (ren_noeol (getl b (v_row s)) (v_off s)) = MvOk r o cl cc pc ->
  getl b r = Some l ->
  exists s', do_motion b rows a1 a2 k s = Some s' /\ v_row s' = r /\
    v_off s' = ren_noeol (Some l) (if is_jk k then ren_off l (v_col s) else if o <? 0 then count_space l else o) /\
    v_col s' = (if is_bar k then pc else if is_jk k then v_col s else ren_pos l (v_off s')) /\
    v_cl s' = cl /\ v_cc s' = cc.
Proof.
  intros HW Ho M El. unfold do_motion. fold (m_cnt a1 a2). fold (m_has a1 a2). rewrite M.
  eexists. split; [reflexivity|]. unfold vi_wfix. cbn [v_row v_off v_col v_cl v_cc].
  pose proof (getl_some _ _ _ El) as [Hr _].
  destruct (Z.ltb_spec r 0); [lia|]. destruct (Z.geb_spec r (blen b)); [lia|]. cbn [orb].
  rewrite El. unfold vi_col2off, vi_off2col, lbuf_indents. rewrite El.
  pose proof (getl_wf _ _ _ HW El) as Hl.
  apply vi_motion_off in M; [|apply ren_noeol_nonneg, Ho].
  set (x := if is_jk k then ren_off l (v_col s) else if (o <? 0) && negb (is_jk k) then count_space l else o).
  assert (Hx : 0 <= x).
  { unfold x. destruct (is_jk k); [apply ren_off_nonneg|]. rewrite andb_true_r.
    destruct (Z.ltb_spec o 0); [apply count_space_nonneg|lia]. }
  assert (Ex : x = (if is_jk k then ren_off l (v_col s) else if o <? 0 then count_space l else o)).
  { unfold x. destruct (is_jk k); [reflexivity|]. rewrite andb_true_r. reflexivity. }
  rewrite <- Ex. rewrite ren_noeol_idem by assumption. repeat split; reflexivity.
Qed.

(* ---------- line motions: G + - _ H M L (and the row of j k) ---------- *)
Definition line_target (b : buf) (rows top : Z) (has : bool) (cnt : Z) (k : mkey) (row : Z) : Z :=
  let len := blen b in
  Z.max 0 (match k with
           | Kplus | Kj => Z.min (row + cnt) (len - 1)
           | Kminus | Kk => Z.max (row - cnt) 0
           | Kunder => Z.min (row + cnt - 1) (len - 1)
           | KG => if has then Z.min (cnt - 1) (len - 1) else len - 1
           | KH => Z.min (top + cnt - 1) (len - 1)
           | KL => Z.min (top + rows - cnt) (len - 1)
           | KM => Z.min (top + rows / 2) (len - 1)
           | _ => row
           end).
Definition is_linekey (k : mkey) : bool :=
  match k with Kplus | Kminus | Kunder | KG | KH | KL | KM | Kj | Kk => true | _ => false end.

Lemma vi_motionln_target b rows top has cnt k row : is_linekey k = true ->
  vi_motionln b rows top has cnt k row = Some (Some (line_target b rows top has cnt k row)).
Proof.
  intro H. unfold vi_motionln, line_target. destruct k; try discriminate; cbv zeta; f_equal; f_equal;
    match goal with |- (if ?x <? 0 then 0 else _) = _ => destruct (Z.ltb_spec x 0); try lia end.
  all: try (replace (top + rows - 1 - cnt + 1) with (top + rows - cnt) in * by lia); lia.
Qed.

Lemma vi_motion_line b rows top cl cc pc has cnt k row off : is_linekey k = true ->
  vi_motion b rows top cl cc pc has cnt k row off = MvOk (line_target b rows top has cnt k row) (-1) cl cc pc.
Proof. intro H. unfold vi_motion. rewrite vi_motionln_target by exact H. reflexivity. Qed.

(* first non-blank: what count_space computes *)
Lemma count_space_spec l : let k := count_space l in
  0 <= k <= slen l /\ (forall i, 0 <= i < k -> uc_isspace (chr_at l i) = true) /\
  (k < slen l -> uc_isspace (chr_at l k) = false).
Proof.
  induction l as [|c l IH]; cbn [count_space]; cbv zeta.
  - unfold slen. cbn. repeat split; try lia; intros; lia.
  - destruct (uc_isspace c) eqn:Ec.
    + cbv zeta in IH. destruct IH as (H1 & H2 & H3). unfold slen in *. cbn [length]. repeat split; try lia.
      * intros i Hi. unfold chr_at. destruct (Z.ltb_spec i 0); [lia|].
        destruct (Z.eq_dec i 0) as [->|Hn]; [exact Ec|].
        replace (Z.to_nat i) with (S (Z.to_nat (i - 1))) by lia. cbn [nth].
        specialize (H2 (i - 1) ltac:(lia)). unfold chr_at in H2. destruct (Z.ltb_spec (i - 1) 0); [lia|]. exact H2.
      * intro Hk. specialize (H3 ltac:(lia)). unfold chr_at in *.
        destruct (Z.ltb_spec (1 + count_space l) 0); [lia|]. destruct (Z.ltb_spec (count_space l) 0); [lia|].
        replace (Z.to_nat (1 + count_space l)) with (S (Z.to_nat (count_space l))) by lia. exact H3.
    + unfold slen. cbn [length]. repeat split; try lia. intros _. unfold chr_at. cbn. exact Ec.
Qed.

(* G + - _ H M L land on the first non-blank of the clamped row (when that row exists) *)
Lemma line_motion_lands b rows a1 a2 k s l : buf_wf b -> 0 <= v_off s ->
  is_linekey k = true -> is_jk k = false ->
  let t := line_target b rows (v_top s) (m_has a1 a2) (m_cnt a1 a2) k (v_row s) in
  getl b t = Some l ->
  exists s', do_motion b rows a1 a2 k s = Some s' /\ v_row s' = t /\
             v_off s' = ren_noeol (Some l) (count_space l) /\ v_col s' = ren_pos l (v_off s').
Proof.
  intros HW Ho Hk Hj t El.
  destruct (do_motion_land b rows a1 a2 k s t (-1) (v_cl s) (v_cc s) (v_pcol s) l HW Ho) as (s' & E & H1 & H2 & H3 & _).
  { apply vi_motion_line, Hk. } { exact El. }
  exists s'. rewrite Hj in *. cbn in H2. assert (Hb : is_bar k = false) by (destruct k; try reflexivity; discriminate).
  rewrite Hb in H3. auto.
Qed.

(* j k: the clamped row, the character covering the remembered column (else the last one), and
   the remembered column survives *)
Lemma jk_lands b rows a1 a2 k s l : buf_wf b -> 0 <= v_off s -> is_jk k = true ->
  let t := line_target b rows (v_top s) (m_has a1 a2) (m_cnt a1 a2) k (v_row s) in
  getl b t = Some l ->
  exists s', do_motion b rows a1 a2 k s = Some s' /\ v_row s' = t /\
             v_off s' = ren_noeol (Some l) (ren_off l (v_col s)) /\ v_col s' = v_col s.
Proof.
  intros HW Ho Hj t El.
  assert (Hk : is_linekey k = true) by (destruct k; try reflexivity; discriminate).
  destruct (do_motion_land b rows a1 a2 k s t (-1) (v_cl s) (v_cc s) (v_pcol s) l HW Ho) as (s' & E & H1 & H2 & H3 & _).
  { apply vi_motion_line, Hk. } { exact El. }
  exists s'. rewrite Hj in *. assert (Hb : is_bar k = false) by (destruct k; try reflexivity; discriminate).
  rewrite Hb in H3. auto.
Qed.

(* ---------- 0 ^ $ | ---------- *)
Lemma ren_noeol_zero l : line_wf l -> ren_noeol (Some l) 0 = 0.
Proof. intro H. pose proof (wf_slen_pos l H). unfold ren_noeol. destruct (Z.geb_spec 0 (slen l)); [lia|]. reflexivity. Qed.
Lemma ren_noeol_eol l : line_wf l -> ren_noeol (Some l) (slen l - 1) = Z.max 0 (slen l - 2).
Proof.
  intros (body & E & HF). pose proof (wf_slen l body E) as Hn. unfold ren_noeol.
  destruct (Z.geb_spec (slen l - 1) (slen l)); [lia|].
  assert (Hb : b0 (chr_at l (slen l - 1)) = 10%N).
  { rewrite E at 1. replace (slen l - 1) with (Z.of_nat (length body)) by lia. apply wf_chr_last. }
  rewrite Hb. cbn [N.eqb Pos.eqb]. destruct (Z.ltb_spec 0 (slen l - 1)); cbn [andb]; lia.
Qed.

Lemma ren_noeol_min l o : 1 <= slen l -> ren_noeol (Some l) (Z.min o (slen l - 1)) = ren_noeol (Some l) o.
Proof.
  intro H. destruct (Z.le_gt_cases o (slen l - 1)); [rewrite Z.min_l by lia; reflexivity|]. rewrite Z.min_r by lia.
  unfold ren_noeol. destruct (Z.geb_spec (slen l - 1) (slen l)); [lia|]. destruct (Z.geb_spec o (slen l)); [|lia].
  rewrite Z.max_r by lia. reflexivity.
Qed.

Lemma col_motions_land b rows a1 a2 k s l : buf_wf b -> cursor_ok b (v_row s) (v_off s) ->
  getl b (v_row s) = Some l ->
  match k with K0 | Kcaret | Kdollar | Kbar => True | _ => False end ->
  exists s', do_motion b rows a1 a2 k s = Some s' /\ v_row s' = v_row s /\
    v_off s' = match k with
               | K0 => 0
               | Kcaret => ren_noeol (Some l) (count_space l)       (* first non-blank, else the last character *)
               | Kdollar => Z.max 0 (slen l - 2)                     (* the last character before the terminator *)
               | _ => ren_noeol (Some l) (ren_off l (m_cnt a1 a2 - 1))   (* the character covering column count-1 *)
               end /\
    v_col s' = match k with Kbar => m_cnt a1 a2 - 1 | _ => ren_pos l (v_off s') end.
Proof.
  intros HW HC El Hk. pose proof (cursor_ok_off _ _ _ HC) as Ho. pose proof (getl_wf _ _ _ HW El) as Hl.
  assert (M : exists o pc, vi_motion b rows (v_top s) (v_cl s) (v_cc s) (v_pcol s) (m_has a1 a2) (m_cnt a1 a2) k (v_row s)
            (ren_noeol (getl b (v_row s)) (v_off s)) = MvOk (v_row s) o (v_cl s) (v_cc s) pc /\ 0 <= o /\
            o = match k with K0 => 0 | Kcaret => Z.min (count_space l) (slen l - 1) | Kdollar => slen l - 1 | _ => ren_off l (m_cnt a1 a2 - 1) end /\
            pc = match k with Kbar => m_cnt a1 a2 - 1 | _ => v_pcol s end).
  { destruct k; try contradiction; unfold vi_motion; cbn [vi_motionln].
    - do 2 eexists. split; [reflexivity|]. repeat split; lia.
    - do 2 eexists. split; [reflexivity|]. unfold lbuf_indents, lbuf_eol. rewrite El. pose proof (wf_slen_pos l Hl). pose proof (count_space_nonneg l).
      destruct (Z.eqb_spec (slen l) 0); [lia|]. repeat split; lia.
    - do 2 eexists. split; [reflexivity|]. unfold lbuf_eol. rewrite El. pose proof (wf_slen_pos l Hl).
      destruct (Z.eqb_spec (slen l) 0); [lia|]. repeat split; lia.
    - do 2 eexists. split; [reflexivity|]. unfold vi_col2off. rewrite El. repeat split. apply ren_off_nonneg. }
  destruct M as (o & pc & M & Ho' & Eo & Epc).
  destruct (do_motion_land b rows a1 a2 k s (v_row s) o (v_cl s) (v_cc s) pc l HW Ho M El) as (s' & E & H1 & H2 & H3 & _).
  exists s'. split; [exact E|]. split; [exact H1|].
  assert (Hj : is_jk k = false) by (destruct k; try reflexivity; contradiction).
  rewrite Hj in *. destruct (Z.ltb_spec o 0); [lia|].
  destruct k; try contradiction; cbn [is_bar] in H3; subst o; split; auto.
  - rewrite H2. apply ren_noeol_zero, Hl.
  - rewrite H2. apply ren_noeol_min, wf_slen_pos, Hl.
  - rewrite H2. apply ren_noeol_eol, Hl.
  - rewrite H3. exact Epc.
Qed.

(* the target row of a line motion always exists in a non-empty buffer (counts that overrun are
   clamped, also for G since the repair of vi_motionln) *)
Lemma line_target_range b rows top has cnt k row : is_linekey k = true -> 0 <= row < blen b -> 1 <= cnt ->
  0 <= line_target b rows top has cnt k row < blen b.
Proof.
  intros Hk Hr Hc. unfold line_target. destruct k; try discriminate; cbv zeta; try (destruct has); lia.
Qed.
Lemma line_target_exists b rows top has cnt k row : is_linekey k = true -> 0 <= row < blen b -> 1 <= cnt ->
  exists l, getl b (line_target b rows top has cnt k row) = Some l.
Proof. intros Hk Hr Hc. apply getl_in_range, line_target_range; assumption. Qed.

Definition g_witness : buf := buf_of_bytes [32; 32; 97; 98; 10]%N.       (* "  ab\n" *)
Lemma g_overrun_fixed :
  match run g_witness 23 [Mot 9 KG] init_vst, run g_witness 23 [Mot 1 KG] init_vst with
  | Some s9, Some s1 => v_row s9 = 0 /\ v_row s1 = 0 /\ v_off s1 = 2 /\ v_off s9 = 2
  | _, _ => False
  end.
Proof. vm_compute. repeat split; reflexivity. Qed.
