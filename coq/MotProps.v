(* MotProps.v -- C07: proofs about the motion model of MotDefs.v. *)
From Coq Require Import List NArith ZArith Lia Bool ZifyN ZifyBool ZifyNat.
From NV Require Import Bytes UcDefs MotDefs.
Import ListNotations.
Local Open Scope Z_scope.

(* motions never change the text: a program returns the buffer it was given *)
Lemma run_prog_text b rows cs b' s : run_prog b rows cs = Some (b', s) -> b' = b.
Proof. unfold run_prog. destruct (run b rows cs init_vst); intro H; inversion H; reflexivity. Qed.
