(* TrRegEx.v -- C06: the register model of the ex interpreter (ExDefs.reg_put / reg_shift / reg_getraw over an association
   list; in ex mode every put is line-wise) read off the memory that the translated reg.c works on (TrReg.v).
   ex_abs r R: the association list r and the register file R (RegDefs, C08) hold the same texts under every name 0..255.
   ex_abs_put: ExDefs.reg_put r c v and RegDefs.reg_put R c v true keep that relation (the two hand-written models of
   reg.c agree on the texts); tr_reg_put_ex: so the memory the C text of reg_put leaves, called with a flag != 0,
   represents ExDefs.reg_put r c v. *)
From Coq Require Import List ZArith NArith Bool Lia.
From NV Require Import Bytes UcDefs CLite CLiteProps GenCFuncs CLiteTac TrReg.
From NV Require RegDefs ExDefs.
Import ListNotations.
Local Open Scope N_scope.

Definition ex_abs (r : list (N * bytes)) (R : RegDefs.regs) : Prop :=
  forall k, k < 256 -> option_map fst (R k) = ExDefs.reg_getraw r k.

Lemma ex_isupper c : ExDefs.isupper c = c_isupper c.
Proof. reflexivity. Qed.
Lemma ex_tolower c : ExDefs.tolower c = c_tolower c.
Proof. reflexivity. Qed.
Lemma ex_isalpha c : ExDefs.isalpha c = c_isalpha c.
Proof. reflexivity. Qed.
Lemma tolower_small c : c < 256 -> c_tolower c < 256.
Proof.
  intro H. unfold c_tolower, c_isupper. destruct ((65 <=? c) && (c <=? 90)) eqn:E; [|exact H].
  apply andb_prop in E. destruct E as [_ E]. apply N.leb_le in E. lia.
Qed.

Lemma ex_abs_putraw r R c v l : ex_abs r R -> c < 256 -> ex_abs (ExDefs.reg_putraw r c v) (RegDefs.reg_putraw R c v l).
Proof.
  intros H Hc k Hk. unfold ExDefs.reg_putraw, RegDefs.reg_putraw, RegDefs.upd. change ExDefs.isupper with c_isupper. change ExDefs.tolower with c_tolower.
  cbn [ExDefs.reg_getraw]. rewrite (N.eqb_sym (c_tolower c) k).
  destruct (N.eqb_spec k (c_tolower c)) as [->|Hne]; [|apply H; exact Hk].
  cbn [option_map fst]. f_equal. f_equal. destruct (c_isupper c); [|reflexivity].
  rewrite <- (H (c_tolower c) (tolower_small c Hc)). destruct (R (c_tolower c)) as [[b f]|]; reflexivity.
Qed.
Lemma ex_abs_shift i : (i <= 8)%nat -> forall r R, ex_abs r R -> ex_abs (ExDefs.reg_shift i r) (rot_n i R).
Proof.
  induction i as [|j IH]; intros Hi r R H; [exact H|]. cbn [ExDefs.reg_shift rot_n]. apply IH; [lia|].
  replace (N.of_nat (48 + S j)) with (48 + N.of_nat (S j)) by lia. set (dg := 48 + N.of_nat (S j)).
  assert (Hd : dg < 256) by (unfold dg; lia).
  unfold RegDefs.rot_step, RegDefs.reg_get. destruct (N.eqb_spec dg 34) as [E|_]; [unfold dg in E; lia|].
  rewrite <- (H dg Hd). destruct (R dg) as [[s l]|]; cbn [option_map fst]; [|exact H].
  apply ex_abs_putraw; [exact H|unfold dg; lia].
Qed.
Lemma ex_abs_put r R c v : ex_abs r R -> c < 256 -> ex_abs (ExDefs.reg_put r c v) (RegDefs.reg_put R c v true).
Proof.
  intros H Hc. unfold ExDefs.reg_put, RegDefs.reg_put. change ExDefs.isalpha with c_isalpha. cbn [orb andb].
  apply ex_abs_putraw; [|exact Hc]. destruct ((c =? 0) || c_isalpha c); [|exact H].
  apply ex_abs_putraw; [|lia]. rewrite rotate_rot_n. apply ex_abs_shift; [lia|exact H].
Qed.

(* the C text, called as ex calls it (a flag that is not zero) *)
Theorem tr_reg_put_ex m pb lb R r c bs (t : bytes) (o : nat) ln d fuel :
  regs_at m pb lb R -> ex_abs r R -> (0 <= c < 256)%Z -> str_at m bs t -> nonul t -> (o <= length t)%nat ->
  bs <> G_reg__bufs -> bs <> G_lnmode -> (forall k o', (k < 256)%nat -> cellp pb k <> VPtr bs o') ->
  int_ok ln -> ln <> 0%Z -> str_fits (pre_of R c ++ skipn o t) -> (9 <= fuel)%nat ->
  exists m' pb' lb' R',
    callf cprog fuel (S (S (S d))) F_reg_put [VInt c; VPtr bs (Z.of_nat o); VInt ln] m = Ok (VUndef, m') /\
    regs_at m' pb' lb' R' /\ ex_abs (ExDefs.reg_put r (Z.to_N c) (skipn o t)) R' /\
    fr (length m) m pb m' pb' /\ (exists v, nth_error m' (length m) = Some [v]).
Proof.
  intros H Ha Hc Hs Hn Ho Nb1 Nb2 Hun Hln Hl0 Hfit Hfuel.
  destruct (tr_reg_put m pb lb R c bs t o ln d fuel H Hc Hs Hn Ho Nb1 Nb2 Hun Hln Hfit Hfuel) as (m' & pb' & lb' & E & Hr & Hf & Hk).
  exists m', pb', lb', (RegDefs.reg_put R (Z.to_N c) (skipn o t) (negb (ln =? 0)%Z)).
  split; [exact E|]. split; [exact Hr|]. split; [|split; assumption].
  destruct (Z.eqb_spec ln 0) as [X|_]; [contradiction|]. cbn [negb]. apply ex_abs_put; [exact Ha|lia].
Qed.

(* composed with the loop-free reading of the numbered registers (ExRegDefs / ExRegProps.put_num_push) *)
From NV Require ExRegDefs ExRegProps.
Theorem tr_numbered_push m pb lb R r c bs (t : bytes) (o : nat) ln d fuel :
  regs_at m pb lb R -> ex_abs r R -> (0 <= c < 256)%Z -> ExRegDefs.pushes (Z.to_N c) = true ->
  str_at m bs t -> nonul t -> (o <= length t)%nat ->
  bs <> G_reg__bufs -> bs <> G_lnmode -> (forall k o', (k < 256)%nat -> cellp pb k <> VPtr bs o') ->
  int_ok ln -> ln <> 0%Z -> str_fits (pre_of R c ++ skipn o t) -> (9 <= fuel)%nat ->
  exists m' pb' lb' R',
    callf cprog fuel (S (S (S d))) F_reg_put [VInt c; VPtr bs (Z.of_nat o); VInt ln] m = Ok (VUndef, m') /\
    regs_at m' pb' lb' R' /\
    forall i, (1 <= i <= 9)%nat -> option_map fst (R' (ExRegDefs.numkey i)) = ExRegDefs.num_after_push (ExRegDefs.nreg r) (skipn o t) i.
Proof.
  intros H Ha Hc Hp Hs Hn Ho Nb1 Nb2 Hun Hln Hl0 Hfit Hfuel.
  destruct (tr_reg_put_ex m pb lb R r c bs t o ln d fuel H Ha Hc Hs Hn Ho Nb1 Nb2 Hun Hln Hl0 Hfit Hfuel)
    as (m' & pb' & lb' & R' & E & Hr & Ha' & _).
  exists m', pb', lb', R'. split; [exact E|]. split; [exact Hr|].
  intros i Hi. rewrite (Ha' (ExRegDefs.numkey i)) by (unfold ExRegDefs.numkey; lia).
  exact (ExRegProps.put_num_push r (Z.to_N c) (skipn o t) Hp i Hi).
Qed.
