(* TrShape.v -- the Arabic shaping model of C18 (ShapeDefs.v) is the translated C text of uc.c:
   find_achar (bisection over the struct array achars[]), can_join, uc_cshape, and uc_cput (the
   UTF-8 encoder that uc_shape writes the shaped character with).  For ALL inputs, running the CLite
   term that tools/c2clite.py generated from /repo's uc.c (GenCFuncs.v) gives the value of the
   model; no checked load or store leaves its block, no signed operation overflows, no fuel runs out. *)
From Coq Require Import List ZArith NArith Bool Lia.
From NV Require Import Bytes UcDefs GenUcTables RenDefs ShapeDefs ShapeProps CLite CLiteProps GenCFuncs CLiteTac.
(* no other Tr file is imported: find_achar, can_join, uc_cshape and uc_cput call no other function of uc.c *)
Import ListNotations.
Local Open Scope Z_scope.
Local Notation nthz := ShapeProps.nthz.     (* CLiteProps has an nthz for int arrays *)

(* ------------------------------------------------------------------ the table in memory *)
(* struct achar { unsigned c, s, i, m, f; }: five consecutive cells per row *)
Definition arow_cells (r : arow) : list val := [VInt (a_c r); VInt (a_s r); VInt (a_i r); VInt (a_m r); VInt (a_f r)].
Definition achars_block (tab : list arow) : block := flat_map arow_cells tab.

(* the block c2clite.py read from the initializer of achars[] in uc.c is the table translate.py dumped *)
Lemma gb_achars_eq : gb_achars = achars_block achars.
Proof. vm_compute. reflexivity. Qed.

(* every field of every row is a value that unsigned and int hold alike *)
Definition fld_ok (z : Z) : Prop := 0 <= z <= 2147483647.
Definition arow_ok (r : arow) : Prop := fld_ok (a_c r) /\ fld_ok (a_s r) /\ fld_ok (a_i r) /\ fld_ok (a_m r) /\ fld_ok (a_f r).
Definition atab_ok (tab : list arow) : Prop := Forall arow_ok tab.
Definition fld_okb (z : Z) : bool := (0 <=? z) && (z <=? 2147483647).
Definition atab_okb (tab : list arow) : bool :=
  forallb (fun r => fld_okb (a_c r) && fld_okb (a_s r) && fld_okb (a_i r) && fld_okb (a_m r) && fld_okb (a_f r)) tab.
Lemma atab_okb_sound tab : atab_okb tab = true -> atab_ok tab.
Proof.
  unfold atab_okb, atab_ok. rewrite forallb_forall, Forall_forall. intros H r Hin. specialize (H r Hin).
  unfold arow_ok, fld_ok. unfold fld_okb in H. lia.
Qed.
Lemma achars_ok : atab_ok achars.
Proof. apply atab_okb_sound. vm_compute. reflexivity. Qed.

Lemma arow_nthz_ok tab i : atab_ok tab -> arow_ok (nthz tab i).
Proof.
  intro H. unfold nthz. destruct (Nat.lt_ge_cases (Z.to_nat i) (length tab)) as [L|L].
  - unfold atab_ok in H. rewrite Forall_forall in H. apply H. apply nth_In. exact L.
  - rewrite nth_overflow by exact L. unfold arow_ok, fld_ok. cbn. lia.
Qed.

Lemma wrap_U32_fld z : fld_ok z -> wrap U32 z = z.
Proof. intro H. unfold fld_ok in H. unfold wrap. cbn [ity_bits ity_signed andb]. change (2 ^ 32) with 4294967296. apply Z.mod_small. lia. Qed.
Lemma wrap_I32_fld z : fld_ok z -> wrap I32 z = z.
Proof. intro H. apply wrap_int_ok. unfold fld_ok in H. unfold int_ok. lia. Qed.

Lemma nth_error_achars_block tab : forall i, (i < length tab)%nat ->
  let r := nth i tab arow0 in
  nth_error (achars_block tab) (5 * i) = Some (VInt (a_c r)) /\
  nth_error (achars_block tab) (5 * i + 1) = Some (VInt (a_s r)) /\
  nth_error (achars_block tab) (5 * i + 2) = Some (VInt (a_i r)) /\
  nth_error (achars_block tab) (5 * i + 3) = Some (VInt (a_m r)) /\
  nth_error (achars_block tab) (5 * i + 4) = Some (VInt (a_f r)).
Proof.
  induction tab as [|a tab IH]; intros i Hi; cbn [length] in Hi; [lia|].
  destruct i as [|i]; [cbn; repeat split; reflexivity|].
  replace (5 * S i)%nat with (S (S (S (S (S (5 * i)))))) by lia.
  cbn [achars_block flat_map arow_cells app nth_error nth plus]. apply IH. lia.
Qed.

(* field k of row i is cell 5 * i + k *)
Lemma load_arow m g tab i : nth_error m g = Some (achars_block tab) -> 0 <= i < Z.of_nat (length tab) ->
  load m g (5 * i) = Ok (VInt (a_c (nthz tab i))) /\
  load m g (5 * i + 1) = Ok (VInt (a_s (nthz tab i))) /\
  load m g (5 * i + 2) = Ok (VInt (a_i (nthz tab i))) /\
  load m g (5 * i + 3) = Ok (VInt (a_m (nthz tab i))) /\
  load m g (5 * i + 4) = Ok (VInt (a_f (nthz tab i))).
Proof.
  intros Hm Hi. unfold load. rewrite Hm.
  destruct (nth_error_achars_block tab (Z.to_nat i) ltac:(lia)) as [A [B [C [D E]]]]. cbv zeta in *.
  destruct (Z.ltb_spec (5 * i) 0); [lia|]. destruct (Z.ltb_spec (5 * i + 1) 0); [lia|].
  destruct (Z.ltb_spec (5 * i + 2) 0); [lia|]. destruct (Z.ltb_spec (5 * i + 3) 0); [lia|].
  destruct (Z.ltb_spec (5 * i + 4) 0); [lia|].
  replace (Z.to_nat (5 * i)) with (5 * Z.to_nat i)%nat by lia.
  replace (Z.to_nat (5 * i + 1)) with (5 * Z.to_nat i + 1)%nat by lia.
  replace (Z.to_nat (5 * i + 2)) with (5 * Z.to_nat i + 2)%nat by lia.
  replace (Z.to_nat (5 * i + 3)) with (5 * Z.to_nat i + 3)%nat by lia.
  replace (Z.to_nat (5 * i + 4)) with (5 * Z.to_nat i + 4)%nat by lia.
  unfold nthz. rewrite A, B, C, D, E. repeat split; reflexivity.
Qed.

(* ------------------------------------------------------------------ find_achar *)
(* the bisection of ShapeDefs.fa_bis, returning the INDEX of the row (the C function returns &achars[m]) *)
Fixpoint fa_bis_i (fuel : nat) (tab : list arow) (c l h : Z) : option (option Z) :=
  match fuel with
  | O => None
  | S f =>
    if l <? h then
      let m := Z.shiftr (h + l) 1 in
      let r := nthz tab m in
      if a_c r =? c then Some (Some m)
      else if c <? a_c r then fa_bis_i f tab c l m else fa_bis_i f tab c (m + 1) h
    else Some None
  end.

Lemma fa_bis_i_rows tab c : forall fuel l h,
  fa_bis fuel tab c l h = option_map (option_map (nthz tab)) (fa_bis_i fuel tab c l h).
Proof.
  induction fuel as [|f IH]; intros l h; [reflexivity|]. cbn [fa_bis fa_bis_i].
  destruct (l <? h); [|reflexivity]. cbv zeta. change (nth (Z.to_nat (Z.shiftr (h + l) 1)) tab arow0) with (nthz tab (Z.shiftr (h + l) 1)).
  destruct (a_c (nthz tab (Z.shiftr (h + l) 1)) =? c); [reflexivity|].
  destruct (c <? a_c (nthz tab (Z.shiftr (h + l) 1))); apply IH.
Qed.

Lemma fa_bis_i_hit tab c : forall fuel l h i, 0 <= l -> fa_bis_i fuel tab c l h = Some (Some i) ->
  l <= i < h /\ a_c (nthz tab i) = c.
Proof.
  induction fuel as [|f IH]; intros l h i Hl H; [discriminate|]. cbn [fa_bis_i] in H.
  destruct (Z.ltb_spec l h) as [Hlh|Hlh]; [|discriminate]. cbv zeta in H. rewrite shiftr1_div2 in H.
  assert (Hm : l <= (h + l) / 2 < h).
  { pose proof (Z.div_mod (h + l) 2 ltac:(lia)). pose proof (Z.mod_pos_bound (h + l) 2 ltac:(lia)). lia. }
  set (mid := (h + l) / 2) in *.
  destruct (Z.eqb_spec (a_c (nthz tab mid)) c) as [E|E].
  - injection H as <-. split; [lia|exact E].
  - destruct (c <? a_c (nthz tab mid)).
    + destruct (IH l mid i Hl H) as [A B]. split; [lia|exact B].
    + destruct (IH (mid + 1) h i ltac:(lia) H) as [A B]. split; [lia|exact B].
Qed.

(* the first index of a list whose element satisfies p *)
Fixpoint find_index {A} (p : A -> bool) (l : list A) : option nat :=
  match l with
  | [] => None
  | a :: t => if p a then Some O else option_map S (find_index p t)
  end.
Lemma find_index_find {A} (p : A -> bool) d l : option_map (fun i => nth i l d) (find_index p l) = find p l.
Proof.
  induction l as [|a t IH]; [reflexivity|]. cbn [find_index find]. destruct (p a); [reflexivity|].
  rewrite <- IH. destruct (find_index p t); reflexivity.
Qed.
Lemma find_index_some {A} (p : A -> bool) d l : forall i, find_index p l = Some i ->
  (i < length l)%nat /\ p (nth i l d) = true.
Proof.
  induction l as [|a t IH]; intros i H; [discriminate|]. cbn [find_index] in H.
  destruct (p a) eqn:E.
  - injection H as <-. cbn. split; [lia|exact E].
  - destruct (find_index p t) as [j|]; [|discriminate]. injection H as <-.
    destruct (IH j eq_refl) as [A1 A2]. cbn [length nth]. split; [lia|exact A2].
Qed.
Lemma find_index_none {A} (p : A -> bool) d l : find_index p l = None ->
  forall i, (i < length l)%nat -> p (nth i l d) = false.
Proof.
  induction l as [|a t IH]; intros H i Hi; cbn [length] in Hi; [lia|]. cbn [find_index] in H.
  destruct (p a) eqn:E; [discriminate|]. destruct (find_index p t) eqn:F; [discriminate|].
  destruct i as [|i]; [exact E|]. cbn [nth]. apply IH; [reflexivity|lia].
Qed.
Lemma find_index_ext {A} (p q : A -> bool) l : Forall (fun a => p a = q a) l -> find_index p l = find_index q l.
Proof.
  induction 1 as [|a t H _ IH]; [reflexivity|]. cbn [find_index]. rewrite H, IH. reflexivity.
Qed.

(* the row of c: its index in the generated table (None: no row has c) *)
Definition row_idx (tab : list arow) (c : Z) : option nat := find_index (fun r => a_c r =? c) tab.
Definition row_index (c : Z) : option nat := row_idx achars c.

Lemma row_idx_sorted tab c i : asorted tab -> 0 <= i < Z.of_nat (length tab) -> a_c (nthz tab i) = c ->
  row_idx tab c = Some (Z.to_nat i).
Proof.
  intros S Hi E. unfold row_idx. destruct (find_index (fun r => a_c r =? c) tab) as [j|] eqn:F.
  - destruct (find_index_some _ arow0 _ _ F) as [Hj Hp]. apply Z.eqb_eq in Hp. f_equal.
    destruct (Z.lt_trichotomy (Z.of_nat j) i) as [L|[L|L]].
    + pose proof (S (Z.of_nat j) i ltac:(lia) ltac:(lia)) as K. unfold nthz at 1 in K. rewrite Nat2Z.id, Hp in K. lia.
    + lia.
    + pose proof (S i (Z.of_nat j) ltac:(lia) ltac:(lia)) as K. unfold nthz at 2 in K. rewrite Nat2Z.id, Hp in K. lia.
  - pose proof (find_index_none _ arow0 _ F (Z.to_nat i) ltac:(lia)) as K. cbv beta in K.
    unfold nthz in E. rewrite E, Z.eqb_refl in K. discriminate.
Qed.

(* the result of the bisection is the index of the row *)
Lemma fa_bis_i_index tab c fuel : asorted tab -> (length tab < fuel)%nat ->
  fa_bis_i fuel tab c 0 (Z.of_nat (length tab)) = Some (option_map Z.of_nat (row_idx tab c)).
Proof.
  intros S Hf. pose proof (fa_bis_is_find tab c fuel S Hf) as K. rewrite fa_bis_i_rows in K.
  destruct (fa_bis_i fuel tab c 0 (Z.of_nat (length tab))) as [[i|]|] eqn:E; [| |discriminate].
  - destruct (fa_bis_i_hit tab c fuel 0 _ i ltac:(lia) E) as [Hi Hc].
    rewrite (row_idx_sorted tab c i S Hi Hc). cbn [option_map]. rewrite Z2Nat.id by lia. reflexivity.
  - cbn [option_map] in K. injection K as K. unfold row_idx.
    rewrite <- (find_index_find _ arow0) in K. destruct (find_index (fun r => a_c r =? c) tab); [discriminate|reflexivity].
Qed.

(* `achars[m].c == c` and `c < achars[m].c` are computed in unsigned: for an int c the row found is the same *)
Lemma row_idx_unsigned tab c : atab_ok tab -> int_ok c -> row_idx tab (wrap U32 c) = row_idx tab c.
Proof.
  intros Hok Hc. unfold row_idx. apply find_index_ext. unfold atab_ok in Hok.
  eapply Forall_impl; [|exact Hok]. intros r [Hr _]. unfold fld_ok in Hr. unfold int_ok in Hc. cbv beta.
  unfold wrap. cbn [ity_bits ity_signed andb]. change (2 ^ 32) with 4294967296.
  destruct (Z.lt_ge_cases c 0) as [N|N].
  - rewrite <- (Z.mod_add c 1 4294967296) by lia. rewrite Z.mod_small by lia.
    destruct (Z.eqb_spec (a_c r) (c + 1 * 4294967296)); [lia|]. destruct (Z.eqb_spec (a_c r) c); [lia|]. reflexivity.
  - rewrite Z.mod_small by lia. reflexivity.
Qed.

(* the model's find_achar (ShapeDefs.v) is the row at that index *)
Lemma row_index_model c : option_map (fun i => nth i achars arow0) (row_index c) = find_achar c.
Proof. rewrite find_achar_eq. unfold row_index, row_idx, lookup_achar. apply find_index_find. Qed.
Lemma row_index_lt c i : row_index c = Some i -> (i < length achars)%nat /\ a_c (nth i achars arow0) = c.
Proof.
  intro H. destruct (find_index_some _ arow0 _ _ H) as [A B]. apply Z.eqb_eq in B. split; assumption.
Qed.

(* what the C function returns: &achars[i] or NULL *)
Definition row_ptr (r : option nat) : val :=
  match r with Some i => VPtr G_achars (5 * Z.of_nat i) | None => VInt 0 end.

Definition fa_loop : stmt := match fn_body cf_find_achar with SSeq _ (SSeq _ (SSeq w _)) => w | _ => SSkip end.
Definition fa_ret : stmt := match fn_body cf_find_achar with SSeq _ (SSeq _ (SSeq _ r)) => r | _ => SSkip end.

Lemma fa_loop_ok call m tab c uc fuel2 : nth_error m G_achars = Some (achars_block tab) -> atab_ok tab ->
  uc = wrap U32 c -> Z.of_nat (length tab) <= 1073741823 ->
  forall f l h r fuel mm, fa_bis_i f tab uc l h = Some r -> 0 <= l -> h <= Z.of_nat (length tab) -> (f <= fuel)%nat ->
  exists st',
  match exec call fuel fa_loop (mkst [VInt c; VInt h; mm; VInt l] m) with
  | ONormal st1 => exec call fuel2 fa_ret st1
  | o => o
  end = OReturn (match r with Some i => VPtr G_achars (5 * i) | None => VInt 0 end) st' /\ memm st' = m.
Proof.
  intros Hm Hok Huc Hmax. induction f as [|f IH]; intros l h r fuel mm Hb Hl Hh Hf; [discriminate|].
  destruct fuel as [|fuel]; [lia|]. cbn [fa_bis_i] in Hb.
  unfold fa_loop, fa_ret; cbn [fn_body cf_find_achar]; rewrite exec_while; xstep.
  destruct (Z.ltb_spec l h) as [Hlh|Hlh].
  - xstep. rewrite (chk_I32 (h + l)) by lia. xstep. cbv zeta in Hb. rewrite shiftr1_div2 in *.
    assert (Hmid : l <= (h + l) / 2 < h).
    { pose proof (Z.div_mod (h + l) 2 ltac:(lia)). pose proof (Z.mod_pos_bound (h + l) 2 ltac:(lia)). lia. }
    set (mid := (h + l) / 2) in *.
    destruct (load_arow m G_achars tab mid Hm ltac:(lia)) as [LA _].
    destruct (arow_nthz_ok tab mid Hok) as [OA _].
    rewrite !Z.add_0_l. rewrite LA. xstep. rewrite (wrap_U32_fld _ OA). rewrite <- Huc.
    destruct (a_c (nthz tab mid) =? uc); xstep.
    + injection Hb as <-. eexists; split; reflexivity.
    + rewrite !Z.add_0_l, LA. xstep. rewrite (wrap_U32_fld _ OA). rewrite <- Huc.
      destruct (uc <? a_c (nthz tab mid)); xstep.
      * destruct (IH l mid r fuel (VInt mid) Hb ltac:(lia) ltac:(lia) ltac:(lia)) as [st' [X Y]].
        exists st'. split; [|exact Y]. rewrite <- X. reflexivity.
      * rewrite (chk_I32 (mid + 1)) by lia. xstep.
        destruct (IH (mid + 1) h r fuel (VInt mid) Hb ltac:(lia) ltac:(lia) ltac:(lia)) as [st' [X Y]].
        exists st'. split; [|exact Y]. rewrite <- X. reflexivity.
  - injection Hb as <-. xstep. eexists; split; reflexivity.
Qed.

(* all these functions need of the memory: the table is where the program put it (they write nothing, so this is kept) *)
Definition achars_in (m : mem) : Prop := nth_error m G_achars = Some gb_achars.
Lemma achars_in_globals m : globals_at m -> achars_in m.
Proof. intro Hg. apply Hg. reflexivity. Qed.
Lemma achars_at m : achars_in m -> nth_error m G_achars = Some (achars_block achars).
Proof. intro Hg. rewrite <- gb_achars_eq. exact Hg. Qed.

(* find_achar(c), for every int c: a pointer to the row of c in achars[], or NULL when no row has c *)
Theorem tr_find_achar_in m c d fuel : achars_in m -> int_ok c -> (length achars < fuel)%nat ->
  callf cprog fuel (S d) F_find_achar [VInt c] m = Ok (row_ptr (row_index c), m).
Proof.
  intros Hg Hc Hf. enter F_find_achar cf_find_achar. xstep. eval_len achars.
  pose proof (fa_bis_i_index achars (wrap U32 c) (S (length achars)) (asorted_b_sound _ achars_sorted) (Nat.lt_succ_diag_r _)) as Hb.
  rewrite (row_idx_unsigned achars c achars_ok Hc) in Hb. fold (row_index c) in Hb.
  destruct (fa_loop_ok (callf cprog fuel d) m achars c (wrap U32 c) fuel (achars_at m Hg) achars_ok eq_refl
              ltac:(vm_compute; discriminate) (S (length achars)) 0 (Z.of_nat (length achars)) _ fuel VUndef Hb
              (Z.le_refl 0) (Z.le_refl _) Hf) as [st' [X Y]].
  unfold fa_loop, fa_ret in X; cbn [fn_body cf_find_achar] in X. rewrite X, Y.
  destruct (row_index c); reflexivity.
Qed.

(* ------------------------------------------------------------------ can_join, uc_cshape *)
Lemma load_achars m i : achars_in m -> (i < length achars)%nat ->
  load m G_achars (5 * Z.of_nat i) = Ok (VInt (a_c (nth i achars arow0))) /\
  load m G_achars (5 * Z.of_nat i + 2) = Ok (VInt (a_i (nth i achars arow0))) /\
  load m G_achars (5 * Z.of_nat i + 3) = Ok (VInt (a_m (nth i achars arow0))) /\
  load m G_achars (5 * Z.of_nat i + 4) = Ok (VInt (a_f (nth i achars arow0))) /\
  arow_ok (nth i achars arow0).
Proof.
  intros Hg Hi.
  destruct (load_arow m G_achars achars (Z.of_nat i) (achars_at m Hg)) as [A [_ [C [D E]]]].
  { split; [apply Nat2Z.is_nonneg|apply Nat2Z.inj_lt; exact Hi]. }
  unfold nthz in *. rewrite Nat2Z.id in *. repeat split; try assumption.
  all: pose proof (arow_nthz_ok achars (Z.of_nat i) achars_ok) as K; unfold nthz in K; rewrite Nat2Z.id in K; apply K.
Qed.

Ltac fld_off := change (1 * 2) with 2; change (1 * 3) with 3; change (1 * 4) with 4.

(* can_join(c1, c2), for all ints: the model's answer; the memory is not written *)
Theorem tr_can_join_in m c1 c2 d fuel : achars_in m -> int_ok c1 -> int_ok c2 -> (length achars < fuel)%nat ->
  callf cprog fuel (S (S d)) F_can_join [VInt c1; VInt c2] m = Ok (VInt (b2z (can_join c1 c2)), m).
Proof.
  intros Hg H1 H2 Hf. enter F_can_join cf_can_join. xstep.
  rewrite (tr_find_achar_in m c1 d fuel Hg H1 Hf). xstep.
  rewrite (tr_find_achar_in m c2 d fuel Hg H2 Hf). xstep.
  unfold can_join. rewrite <- !row_index_model.
  destruct (row_index c1) as [i1|] eqn:E1; cbn [row_ptr option_map]; xstep; [|reflexivity].
  destruct (row_index c2) as [i2|] eqn:E2; cbn [row_ptr option_map]; xstep; [|reflexivity].
  destruct (row_index_lt _ _ E1) as [L1 _]. destruct (row_index_lt _ _ E2) as [L2 _].
  destruct (load_achars m i1 Hg L1) as [_ [LI1 [LM1 [_ [_ [_ [OI1 [OM1 _]]]]]]]].
  destruct (load_achars m i2 Hg L2) as [_ [_ [LM2 [LF2 [_ [_ [_ [OM2 OF2]]]]]]]].
  unfold nz. fld_off.
  rewrite LI1. xstep. rewrite (wrap_U32_fld _ OI1).
  destruct (a_i (nth i1 achars arow0) =? 0); cbn [negb orb andb]; xstep.
  - rewrite LM1. xstep. rewrite (wrap_U32_fld _ OM1).
    destruct (a_m (nth i1 achars arow0) =? 0); cbn [negb orb andb]; xstep; [reflexivity|].
    rewrite LF2. xstep. rewrite (wrap_U32_fld _ OF2).
    destruct (a_f (nth i2 achars arow0) =? 0); cbn [negb orb andb]; xstep; [|reflexivity].
    rewrite LM2. xstep. rewrite (wrap_U32_fld _ OM2).
    destruct (a_m (nth i2 achars arow0) =? 0); reflexivity.
  - rewrite LF2. xstep. rewrite (wrap_U32_fld _ OF2).
    destruct (a_f (nth i2 achars arow0) =? 0); cbn [negb orb andb]; xstep; [|reflexivity].
    rewrite LM2. xstep. rewrite (wrap_U32_fld _ OM2).
    destruct (a_m (nth i2 achars arow0) =? 0); reflexivity.
Qed.

(* uc_cshape(cur, prev, next), for all ints: the model's shaped code point; the memory is not written *)
Theorem tr_uc_cshape_in m cur prev next d fuel :
  achars_in m -> int_ok cur -> int_ok prev -> int_ok next -> (length achars < fuel)%nat ->
  callf cprog fuel (S (S (S d))) F_uc_cshape [VInt cur; VInt prev; VInt next] m
  = Ok (VInt (uc_cshape cur prev next), m).
Proof.
  intros Hg Hc Hp Hn Hf. enter F_uc_cshape cf_uc_cshape. xstep.
  rewrite (tr_find_achar_in m cur (S d) fuel Hg Hc Hf). xstep.
  unfold uc_cshape. rewrite <- row_index_model.
  destruct (row_index cur) as [i|] eqn:E; cbn [row_ptr option_map]; xstep; [|reflexivity].
  rewrite (tr_can_join_in m prev cur d fuel Hg Hp Hc Hf). xstep.
  rewrite (tr_can_join_in m cur next d fuel Hg Hc Hn Hf). xstep.
  destruct (row_index_lt _ _ E) as [L _].
  destruct (load_achars m i Hg L) as [LC [LI [LM [LF [OC [_ [OI [OM OF]]]]]]]].
  cbv zeta. unfold nz. fld_off.
  destruct (can_join prev cur), (can_join cur next); cbn [b2z andb negb];
    repeat (progress (xstep; fld_off; rewrite ?LC, ?LI, ?LM, ?LF;
      rewrite ?(wrap_U32_fld _ OC), ?(wrap_U32_fld _ OI), ?(wrap_U32_fld _ OM), ?(wrap_U32_fld _ OF);
      rewrite ?(wrap_I32_fld _ OC), ?(wrap_I32_fld _ OI), ?(wrap_I32_fld _ OM), ?(wrap_I32_fld _ OF)));
    match goal with |- context [negb (?x =? 0)] => destruct (x =? 0) end; xstep; reflexivity.
Qed.

(* the same for a memory that holds all the program's globals *)
Theorem tr_find_achar m c d fuel : globals_at m -> int_ok c -> (length achars < fuel)%nat ->
  callf cprog fuel (S d) F_find_achar [VInt c] m = Ok (row_ptr (row_index c), m).
Proof. intro Hg. apply tr_find_achar_in, achars_in_globals, Hg. Qed.
Theorem tr_can_join m c1 c2 d fuel : globals_at m -> int_ok c1 -> int_ok c2 -> (length achars < fuel)%nat ->
  callf cprog fuel (S (S d)) F_can_join [VInt c1; VInt c2] m = Ok (VInt (b2z (can_join c1 c2)), m).
Proof. intro Hg. apply tr_can_join_in, achars_in_globals, Hg. Qed.
Theorem tr_uc_cshape m cur prev next d fuel :
  globals_at m -> int_ok cur -> int_ok prev -> int_ok next -> (length achars < fuel)%nat ->
  callf cprog fuel (S (S (S d))) F_uc_cshape [VInt cur; VInt prev; VInt next] m
  = Ok (VInt (uc_cshape cur prev next), m).
Proof. intro Hg. apply tr_uc_cshape_in, achars_in_globals, Hg. Qed.

(* ------------------------------------------------------------------ uc_cput *)
(* CLiteProps.put_cells blk o vs: the cells o .. o + |vs| - 1 of a block replaced by vs, every other cell kept *)
Lemma put_cells_snoc (blk : block) o vs v : (o + length vs < length blk)%nat ->
  upd (put_cells blk o vs) (o + length vs) v = put_cells blk o (vs ++ [v]).
Proof.
  intro H. unfold put_cells. rewrite app_assoc.
  assert (L : length (firstn o blk ++ vs) = (o + length vs)%nat) by (rewrite app_length, firstn_length; lia).
  rewrite <- L. rewrite upd_prefix by lia. rewrite L, <- !app_assoc. do 3 f_equal. f_equal. rewrite app_length. cbn [length]. lia.
Qed.
(* what a cell of the new block holds *)
Lemma put_cells_inside (blk : block) o vs k : (o <= length blk)%nat -> (k < length vs)%nat ->
  nth_error (put_cells blk o vs) (o + k) = nth_error vs k.
Proof.
  intros Ho Hk. unfold put_cells. rewrite nth_error_app2 by (rewrite firstn_length; lia).
  rewrite firstn_length, Nat.min_l by lia. replace (o + k - o)%nat with k by lia. apply nth_error_app1. exact Hk.
Qed.
Lemma put_cells_outside (blk : block) o vs k : (o + length vs <= length blk)%nat -> (k < o \/ o + length vs <= k)%nat ->
  nth_error (put_cells blk o vs) k = nth_error blk k.
Proof.
  intros Ho Hk. unfold put_cells. destruct Hk as [Hk|Hk].
  - rewrite nth_error_app1 by (rewrite firstn_length; lia). apply nth_error_firstn_lt. exact Hk.
  - rewrite nth_error_app2 by (rewrite firstn_length; lia). rewrite firstn_length, Nat.min_l by lia.
    rewrite nth_error_app2 by lia. rewrite nth_error_skipn_add. f_equal. lia.
Qed.

(* a store just behind the cells written so far *)
Lemma store_put (mm : mem) b blk o vs v p : nth_error mm b = Some (put_cells blk o vs) ->
  (o + length vs < length blk)%nat -> p = Z.of_nat (o + length vs) ->
  store mm b p v = Ok (upd mm b (put_cells blk o (vs ++ [v]))).
Proof.
  intros Hm Hl ->. rewrite (store_ok mm b _ _ v Hm) by (rewrite put_cells_length; lia).
  rewrite Nat2Z.id, put_cells_snoc by exact Hl. reflexivity.
Qed.
Lemma upd_mem_same (mm : mem) b (x : block) y : nth_error mm b = Some y -> nth_error (upd mm b x) b = Some x.
Proof. intro H. apply mem_upd_same. apply nth_error_Some. congruence. Qed.
Lemma upd_mem_upd (mm : mem) b (x y z : block) : nth_error mm b = Some z -> upd (upd mm b x) b y = upd mm b y.
Proof. intro H. apply upd_upd. apply nth_error_Some. congruence. Qed.

Lemma wrap_I8_idem x : wrap I8 (wrap I8 x) = wrap I8 x.
Proof.
  unfold wrap. cbn [ity_bits ity_signed andb]. change (2 ^ 8) with 256. change (2 ^ (8 - 1)) with 128.
  pose proof (Z.mod_pos_bound x 256 ltac:(lia)) as B. destruct (Z.leb_spec 128 (x mod 256)) as [L|L].
  - replace ((x mod 256 - 256) mod 256) with (x mod 256).
    + destruct (Z.leb_spec 128 (x mod 256)); [reflexivity|lia].
    + rewrite <- (Z.mod_add (x mod 256 - 256) 1 256) by lia.
      replace (x mod 256 - 256 + 1 * 256) with (x mod 256) by lia. rewrite Z.mod_mod by lia. reflexivity.
  - rewrite Z.mod_mod by lia. destruct (Z.leb_spec 128 (x mod 256)); [lia|reflexivity].
Qed.

(* the continuation bytes the loop `while (l--) *d++ = 0x80 | ((c >> (l * 6)) & 0x3f)` writes, as char cells *)
Fixpoint conts (c : Z) (l : nat) : list val :=
  match l with
  | O => []
  | S k => VInt (wrap I8 (Z.lor 128 (Z.land (Z.shiftr c (Z.of_nat k * 6)) 63))) :: conts c k
  end.
Lemma conts_length c l : length (conts c l) = l.
Proof. induction l as [|l IH]; cbn [conts length]; [reflexivity|]. rewrite IH. reflexivity. Qed.

Definition cput_loop : stmt := match fn_body cf_uc_cput with SSeq _ (SSeq _ (SSeq w _)) => w | _ => SSkip end.

Lemma cput_loop_ok call b blk o c :
  forall l fuel vs mm p, (l <= 3)%nat -> (l < fuel)%nat -> nth_error mm b = Some (put_cells blk o vs) ->
  (o + length vs + l <= length blk)%nat -> p = Z.of_nat (o + length vs) ->
  exec call fuel cput_loop (mkst [VPtr b p; VInt c; VInt (Z.of_nat l)] mm)
  = ONormal (mkst [VPtr b (p + Z.of_nat l); VInt c; VInt (-1)] (upd mm b (put_cells blk o (vs ++ conts c l)))).
Proof.
  induction l as [|l IH]; intros fuel vs mm p Hl Hf Hm Hroom Hp; (destruct fuel as [|fuel]; [lia|]);
    unfold cput_loop; cbn [fn_body cf_uc_cput]; rewrite exec_while; xstep.
  - change (chk I32 (Z.of_nat 0 + -1)) with (@Ok Z (-1)). xstep. change (Z.of_nat 0 =? 0) with true. xstep.
    cbn [conts]. rewrite app_nil_r, Z.add_0_r. rewrite (upd_self mm b _ Hm). reflexivity.
  - rewrite (chk_I32 (Z.of_nat (S l) + -1)) by lia. xstep.
    destruct (Z.eqb_spec (Z.of_nat (S l)) 0) as [E|_]; [lia|]. xstep.
    replace (Z.of_nat (S l) + -1) with (Z.of_nat l) by lia.
    rewrite (chk_I32 (Z.of_nat l * 6)) by lia. xstep.
    destruct (Z.leb_spec 0 (Z.of_nat l * 6)); [|lia]. destruct (Z.ltb_spec (Z.of_nat l * 6) 32); [|lia]. xstep.
    rewrite wrap_I8_idem.
    rewrite (store_put mm b blk o vs _ p Hm) by lia. xstep.
    change (SWhile _ _) with cput_loop.
    rewrite (IH fuel (vs ++ [VInt (wrap I8 (Z.lor 128 (Z.land (Z.shiftr c (Z.of_nat l * 6)) 63)))]) _ (p + 1));
      try lia.
    + rewrite (upd_mem_upd mm b _ _ _ Hm). cbn [conts]. rewrite <- app_assoc. cbn [app].
      do 4 f_equal. lia.
    + apply (upd_mem_same mm b _ _ Hm).
    + rewrite app_length. cbn [length]. lia.
    + rewrite app_length. cbn [length]. lia.
Qed.

(* a byte of the model as the char cell the C text stores *)
Definition schar (x : N) : val := VInt (wrap I8 (Z.of_N x)).

Lemma lead_cell k0 sh c : Z.lor (Z.of_N k0) (Z.shiftr (Z.of_N c) (Z.of_N sh)) = Z.of_N (N.lor k0 (N.shiftr c sh)).
Proof. rewrite of_N_shiftr, of_N_lor. reflexivity. Qed.
Lemma cont_cell sh c :
  Z.lor 128 (Z.land (Z.shiftr (Z.of_N c) (Z.of_N sh)) 63) = Z.of_N (N.lor 128 (N.land (N.shiftr c sh) 63)).
Proof. rewrite of_N_shiftr. change 63 with (Z.of_N 63). rewrite of_N_land. change 128 with (Z.of_N 128). rewrite of_N_lor. reflexivity. Qed.

Lemma lead_cell4 c : Z.lor 240 (Z.shiftr (Z.of_N c) 18) = Z.of_N (N.lor 240 (N.shiftr c 18)).
Proof. exact (lead_cell 240 18 c). Qed.
Lemma lead_cell3 c : Z.lor 224 (Z.shiftr (Z.of_N c) 12) = Z.of_N (N.lor 224 (N.shiftr c 12)).
Proof. exact (lead_cell 224 12 c). Qed.
Lemma lead_cell2 c : Z.lor 192 (Z.shiftr (Z.of_N c) 6) = Z.of_N (N.lor 192 (N.shiftr c 6)).
Proof. exact (lead_cell 192 6 c). Qed.
Lemma cont_cell2 c : Z.lor 128 (Z.land (Z.shiftr (Z.of_N c) (Z.of_nat 2 * 6)) 63) = Z.of_N (N.lor 128 (N.land (N.shiftr c 12) 63)).
Proof. exact (cont_cell 12 c). Qed.
Lemma cont_cell1 c : Z.lor 128 (Z.land (Z.shiftr (Z.of_N c) (Z.of_nat 1 * 6)) 63) = Z.of_N (N.lor 128 (N.land (N.shiftr c 6) 63)).
Proof. exact (cont_cell 6 c). Qed.
Lemma cont_cell0 c : Z.lor 128 (Z.land (Z.shiftr (Z.of_N c) (Z.of_nat 0 * 6)) 63) = Z.of_N (N.lor 128 (N.land c 63)).
Proof. exact (cont_cell 0 c). Qed.

(* after the lead byte: run the loop on l continuation bytes, store the terminator, collect the memory *)
Ltac cput_tail Hm Hm0 l lz :=
  rewrite wrap_I8_idem;
  match goal with |- context [store ?mm ?b (Z.of_nat ?o) ?v] =>
    rewrite (store_put mm b _ o [] v _ Hm0) by (cbn [length]; lia); cbn [app]; xstep;
    change (VInt lz) with (VInt (Z.of_nat l));
    change (SWhile _ _) with cput_loop;
    match goal with |- context [exec ?call ?fuel cput_loop (mkst [VPtr _ ?p; VInt ?c; _] ?m1)] =>
      assert (Hm1 : nth_error m1 b = Some (put_cells _ o [v])) by (apply (upd_mem_same _ b _ _ Hm));
      rewrite (cput_loop_ok call b _ o c l fuel [v] m1 p) by (cbn [length]; first [exact Hm1 | lia]);
      xstep; change (wrap I8 (wrap I8 0)) with 0;
      match goal with |- context [store ?m2 b ?q (VInt 0)] =>
        assert (Hm2 : nth_error m2 b = Some (put_cells _ o ([v] ++ conts c l))) by (apply (upd_mem_same _ b _ _ Hm1));
        rewrite (store_put m2 b _ o ([v] ++ conts c l) (VInt 0) q Hm2)
          by (rewrite ?app_length, ?conts_length; cbn [length]; lia);
        xstep; rewrite (upd_mem_upd _ b _ _ _ Hm1), (upd_mem_upd _ b _ _ _ Hm)
      end
    end
  end.

(* uc_cput(d, c) for every non-negative int c: the cells d[0..n] receive the n bytes of the model's
   encoding (UcDefs.uc_cput) as chars, then the terminator; nothing else in memory changes.  The
   range is what the C text needs for this equality: c >> k and the conversions to char are defined
   for every int, a negative c would store (char) c where the model (on N) has no argument *)
Theorem tr_uc_cput m b blk o c d fuel : nth_error m b = Some blk -> (c <= 2147483647)%N ->
  (o + length (uc_cput c) + 1 <= length blk)%nat -> (4 <= fuel)%nat ->
  callf cprog fuel (S d) F_uc_cput [VPtr b (Z.of_nat o); VInt (Z.of_N c)] m
  = Ok (VUndef, upd m b (put_cells blk o (map schar (uc_cput c) ++ [VInt 0]))).
Proof.
  intros Hm Hc Hroom Hf. enter F_uc_cput cf_uc_cput. xstep.
  assert (Hm0 : nth_error m b = Some (put_cells blk o [])) by (rewrite put_cells_nil; exact Hm).
  unfold uc_cput in *.
  destruct (N.ltb_spec 65535 c) as [C4|C4].
  { destruct (Z.ltb_spec 65535 (Z.of_N c)); [|lia]. xstep. cbn [length] in Hroom.
    cput_tail Hm Hm0 3%nat 3. cbn [conts map app]. unfold schar.
    rewrite lead_cell4, cont_cell2, cont_cell1, cont_cell0. reflexivity. }
  destruct (Z.ltb_spec 65535 (Z.of_N c)); [lia|]. xstep.
  destruct (N.ltb_spec 2047 c) as [C3|C3].
  { destruct (Z.ltb_spec 2047 (Z.of_N c)); [|lia]. xstep. cbn [length] in Hroom.
    cput_tail Hm Hm0 2%nat 2. cbn [conts map app]. unfold schar.
    rewrite lead_cell3, cont_cell1, cont_cell0. reflexivity. }
  destruct (Z.ltb_spec 2047 (Z.of_N c)); [lia|]. xstep.
  destruct (N.ltb_spec 127 c) as [C2|C2].
  { destruct (Z.ltb_spec 127 (Z.of_N c)); [|lia]. xstep. cbn [length] in Hroom.
    cput_tail Hm Hm0 1%nat 1. cbn [conts map app]. unfold schar.
    rewrite lead_cell2, cont_cell0. reflexivity. }
  destruct (Z.ltb_spec 127 (Z.of_N c)); [lia|]. xstep. cbn [length] in Hroom.
  cput_tail Hm Hm0 0%nat 0. cbn [conts map app]. unfold schar. reflexivity.
Qed.

(* ---- the same, cell by cell *)
Lemma wrap_I8_mod256 y : wrap I8 y mod 256 = y mod 256.
Proof.
  unfold wrap. cbn [ity_bits ity_signed andb]. change (2 ^ 8) with 256. change (2 ^ (8 - 1)) with 128.
  destruct (128 <=? y mod 256).
  - rewrite <- (Z.mod_add (y mod 256 - 256) 1 256) by lia.
    replace (y mod 256 - 256 + 1 * 256) with (y mod 256) by lia. apply Z.mod_mod. lia.
  - apply Z.mod_mod. lia.
Qed.

Lemma load_put_inside (m : mem) b blk o vs k v : nth_error m b = Some blk -> (o + length vs <= length blk)%nat ->
  nth_error vs k = Some v -> load (upd m b (put_cells blk o vs)) b (Z.of_nat (o + k)) = Ok v.
Proof.
  intros Hm Hl Hk. unfold load. rewrite (upd_mem_same m b _ _ Hm).
  destruct (Z.ltb_spec (Z.of_nat (o + k)) 0); [lia|]. rewrite Nat2Z.id.
  rewrite put_cells_inside by (try lia; apply nth_error_Some; congruence). rewrite Hk. reflexivity.
Qed.
Lemma load_put_outside (m : mem) b blk o vs k : nth_error m b = Some blk -> (o + length vs <= length blk)%nat ->
  (k < o \/ o + length vs <= k)%nat -> load (upd m b (put_cells blk o vs)) b (Z.of_nat k) = load m b (Z.of_nat k).
Proof.
  intros Hm Hl Hk. unfold load. rewrite (upd_mem_same m b _ _ Hm), Hm.
  destruct (Z.ltb_spec (Z.of_nat k) 0); [lia|]. rewrite Nat2Z.id. rewrite put_cells_outside by assumption. reflexivity.
Qed.

(* the bytes of the model's encoding are bytes for c < 2^26 (in particular for every code point <= 0x10ffff) *)
Lemma N_lor_lt_pow2 a b k : (0 < k)%N -> (a < 2 ^ k)%N -> (b < 2 ^ k)%N -> (N.lor a b < 2 ^ k)%N.
Proof.
  intros Hk Ha Hb. destruct (N.eq_dec (N.lor a b) 0) as [E|E]; [rewrite E; apply N.neq_0_lt_0, N.pow_nonzero; lia|].
  apply N.log2_lt_pow2; [lia|]. rewrite N.log2_lor. apply N.max_lub_lt.
  - destruct (N.eq_dec a 0) as [->|Na]; [cbn; lia|apply N.log2_lt_pow2; lia].
  - destruct (N.eq_dec b 0) as [->|Nb]; [cbn; lia|apply N.log2_lt_pow2; lia].
Qed.
Lemma N_land_mask_lt a k : (N.land a (N.ones k) < 2 ^ k)%N.
Proof. rewrite N.land_ones. apply N.mod_lt. apply N.pow_nonzero. lia. Qed.
Lemma uc_cput_lt256 c : (c < 67108864)%N -> bytes_lt256 (uc_cput c).
Proof.
  intro Hc. unfold uc_cput, bytes_lt256.
  assert (K : forall x, (N.lor 128 (N.land x 63) < 256)%N).
  { intro x. apply (N_lor_lt_pow2 128 _ 8); [lia|reflexivity|].
    eapply N.lt_trans; [apply (N_land_mask_lt x 6)|reflexivity]. }
  assert (S : forall k0 sh, (k0 < 256)%N -> (c < 2 ^ sh * 256)%N -> (N.lor k0 (N.shiftr c sh) < 256)%N).
  { intros k0 sh H0 H1. apply (N_lor_lt_pow2 k0 _ 8); [lia|exact H0|].
    rewrite N.shiftr_div_pow2. apply N.div_lt_upper_bound; [apply N.pow_nonzero; lia|exact H1]. }
  destruct (N.ltb_spec 65535 c); [repeat constructor; try apply K; apply S; [reflexivity|exact Hc]|].
  destruct (N.ltb_spec 2047 c); [repeat constructor; try apply K; apply S; [reflexivity|change (2 ^ 12 * 256)%N with 1048576%N; lia]|].
  destruct (N.ltb_spec 127 c); [repeat constructor; try apply K; apply S; [reflexivity|change (2 ^ 6 * 256)%N with 16384%N; lia]|].
  repeat constructor. lia.
Qed.

Theorem tr_uc_cput_cells m b blk o c d fuel : nth_error m b = Some blk -> (c <= 2147483647)%N ->
  (o + length (uc_cput c) + 1 <= length blk)%nat -> (4 <= fuel)%nat ->
  exists m', callf cprog fuel (S d) F_uc_cput [VPtr b (Z.of_nat o); VInt (Z.of_N c)] m = Ok (VUndef, m') /\
    (forall k, (k < length (uc_cput c))%nat ->
       exists z, load m' b (Z.of_nat (o + k)) = Ok (VInt z) /\ z mod 256 = Z.of_N (nthb (uc_cput c) k) mod 256) /\
    load m' b (Z.of_nat (o + length (uc_cput c))) = Ok (VInt 0) /\
    (forall k, (k < o \/ o + length (uc_cput c) < k)%nat -> load m' b (Z.of_nat k) = load m b (Z.of_nat k)) /\
    (forall b' p, b' <> b -> load m' b' p = load m b' p).
Proof.
  intros Hm Hc Hroom Hf. eexists. split; [apply (tr_uc_cput m b blk o c d fuel Hm Hc Hroom Hf)|].
  set (n := length (uc_cput c)) in *.
  assert (L : length (map schar (uc_cput c) ++ [VInt 0]) = (n + 1)%nat) by (rewrite app_length, map_length; reflexivity).
  repeat split.
  - intros k Hk. exists (wrap I8 (Z.of_N (nthb (uc_cput c) k))). split; [|apply wrap_I8_mod256].
    apply (load_put_inside m b blk o _ k _ Hm); [lia|].
    rewrite nth_error_app1 by (rewrite map_length; exact Hk). rewrite nth_error_map.
    unfold nthb. rewrite (nth_error_nth' (uc_cput c) 0%N Hk). reflexivity.
  - apply (load_put_inside m b blk o _ n _ Hm); [lia|].
    rewrite nth_error_app2 by (rewrite map_length; fold n; lia). rewrite map_length. fold n. rewrite Nat.sub_diag. reflexivity.
  - intros k Hk. apply (load_put_outside m b blk o _ k Hm); lia.
  - intros b' p Hb. apply load_upd_other_block; [|exact Hb]. apply nth_error_Some. intro X. pose proof (eq_trans (eq_sym X) Hm) as Y. discriminate Y.
Qed.

(* ---- packaged statement cited by Properties_C18.v: the call, and what the index means in the model *)
Theorem tr_find_achar_spec m c d fuel : globals_at m -> int_ok c -> (length achars < fuel)%nat ->
  callf cprog fuel (S d) F_find_achar [VInt c] m
  = Ok (match row_index c with Some i => VPtr G_achars (5 * Z.of_nat i) | None => VInt 0 end, m) /\
  option_map (fun i => nth i achars arow0) (row_index c) = find_achar c /\
  find_achar c = lookup_achar c /\
  (forall i, row_index c = Some i -> (i < length achars)%nat /\ a_c (nth i achars arow0) = c).
Proof.
  intros Hg Hc Hf. split; [apply (tr_find_achar m c d fuel Hg Hc Hf)|].
  split; [apply row_index_model|]. split; [apply find_achar_eq|]. intros i H. apply row_index_lt. exact H.
Qed.

Print Assumptions gb_achars_eq.
Print Assumptions tr_find_achar_spec.
Print Assumptions tr_can_join.
Print Assumptions tr_uc_cshape.
Print Assumptions tr_uc_cput.
Print Assumptions tr_uc_cput_cells.
