(* ExCapParse.v -- the two hand-written models of the command-line parser of ex.c agree on NUL-free strings: the
   position-based checked model of C05 (CapDefs.ex_loc / ex_cmd / ex_arg / ex_txt_src / ex_idx / parse_one / exec_loop:
   positions in the string, reads through rd, writes into a buffer with a capacity) and the list-based model of C06
   (ExDefs.ex_loc / ex_cmd / ex_arg / ex_txt / ex_idx: the rest of the string, reversed accumulators).
   Direction: whenever the checked model returns Ok, the list-based function applied to the rest of the string returns the
   corresponding rest and the same bytes.  Pure model reasoning (no C text here). *)
From Coq Require Import List NArith ZArith Bool Lia.
From NV Require Import Bytes ExCapAddr.
From NV Require CapDefs CapProps ExDefs.
From NV Require GenConsts GenExCmds.
Import ListNotations.
Local Open Scope N_scope.

Lemma bind_Ok {A B} (e : CapDefs.res A) (f : A -> CapDefs.res B) r :
  CapDefs.bind e f = CapDefs.Ok r -> exists a, e = CapDefs.Ok a /\ f a = CapDefs.Ok r.
Proof. destruct e; cbn; try discriminate. eauto. Qed.

Lemma wr_Ok w b w' : CapDefs.wr w b = CapDefs.Ok w' -> fst w' = b :: fst w.
Proof. unfold CapDefs.wr. destruct (snd w); [discriminate|]. intro H; injection H as <-. reflexivity. Qed.

Lemma wstr_wr w w' : CapDefs.wr w 0 = CapDefs.Ok w' -> CapDefs.wstr w' = rev (fst w).
Proof. intro H. apply wr_Ok in H. unfold CapDefs.wstr. rewrite H. reflexivity. Qed.

Lemma skipn_len (s : bytes) i : (i <= length s)%nat -> length (skipn i s) = (length s - i)%nat.
Proof. intros _. apply skipn_length. Qed.

(* the step "optional backslash, then one byte" on the list side *)
Definition estep (c : N) (t acc : bytes) : bytes * bytes :=
  if c =? 92 then match t with c2 :: t2 => (t2, c2 :: c :: acc) | [] => (t, c :: acc) end else (t, c :: acc).

Section Str.
Variable s : bytes.
Hypothesis Hn : nonul s.

Lemma rd_sk i : (i <= length s)%nat -> CapDefs.rd s i = CapDefs.Ok (hd0 (skipn i s)).
Proof. intro Hi. exact (rd_at s i _ eq_refl Hi). Qed.

Lemma hd_nz i c t : skipn i s = c :: t -> (c =? 0) = false.
Proof.
  intro H. pose proof (nonul_skipn s i Hn) as Hn'. rewrite H in Hn'. inversion Hn' as [|? ? [Hc0 _] _]; subst.
  destruct (N.eqb_spec c 0); [lia|reflexivity].
Qed.

Lemma copy1_Ok i w r c t : skipn i s = c :: t -> (i <= length s)%nat -> CapDefs.copy1 s i w = CapDefs.Ok r ->
  fst r = S i /\ fst (snd r) = c :: fst w.
Proof.
  intros H Hi E. unfold CapDefs.copy1 in E. rewrite (rd_at s i _ H Hi) in E. cbn [CapDefs.bind hd0] in E.
  apply bind_Ok in E as (w1 & E1 & E). injection E as <-. cbn [fst snd]. split; [reflexivity|]. apply wr_Ok; assumption.
Qed.

Lemma esc_copy i w iw iw' c t : skipn i s = c :: t -> (i <= length s)%nat ->
  CapDefs.esc s i w = CapDefs.Ok iw -> CapDefs.copy1 s (fst iw) (snd iw) = CapDefs.Ok iw' ->
  estep c t (fst w) = (skipn (fst iw') s, fst (snd iw')) /\ (S i <= fst iw')%nat /\ (fst iw' <= length s)%nat.
Proof.
  intros H Hi E1 E2. unfold CapDefs.esc in E1. rewrite (rd_at s i _ H Hi) in E1. cbn [CapDefs.bind hd0] in E1. unfold estep.
  destruct (skipn_step s i c t H) as [H' L].
  destruct (c =? 92) eqn:E92.
  - rewrite (rd_at s (S i) _ H' ltac:(lia)) in E1. cbn [CapDefs.bind] in E1. destruct t as [|c2 t2]; cbn [hd0] in E1.
    + cbn in E1. injection E1 as <-. cbn [fst snd] in E2. destruct (copy1_Ok _ _ _ _ _ H Hi E2) as [A B]. rewrite A, B, H'.
      split; [reflexivity|lia].
    + rewrite (hd_nz _ _ _ H') in E1. destruct (copy1_Ok _ _ _ _ _ H Hi E1) as [A B]. rewrite A in E2.
      destruct (copy1_Ok _ _ _ _ _ H' ltac:(lia) E2) as [A2 B2]. destruct (skipn_step s (S i) c2 t2 H') as [H'' L'].
      rewrite A2, B2, B, H''. split; [reflexivity|lia].
  - injection E1 as <-. cbn [fst snd] in E2. destruct (copy1_Ok _ _ _ _ _ H Hi E2) as [A B]. rewrite A, B, H'.
    split; [reflexivity|lia].
Qed.

(* ---- skipping loops: any list function G with the equations of "skip while p" *)
Lemma skip_bridge (G : bytes -> bytes) (p pre : N -> bool) :
  G [] = [] -> (forall c t, G (c :: t) = if p c then G t else c :: t) ->
  (forall c, c <> 0 -> pre c = p c) -> pre 0 = false ->
  forall fuel i j, (i <= length s)%nat -> CapDefs.skip_while fuel pre s i = CapDefs.Ok j ->
    skipn j s = G (skipn i s) /\ (i <= j)%nat /\ (j <= length s)%nat.
Proof.
  intros G0 G1 Hp H0. induction fuel as [|fuel IH]; intros i j Hi E; [discriminate|].
  cbn [CapDefs.skip_while] in E. rewrite (rd_sk i Hi) in E. cbn [CapDefs.bind] in E.
  destruct (skipn i s) as [|c t] eqn:H; cbn [hd0] in E.
  - rewrite H0 in E. injection E as <-. rewrite H, G0. split; [reflexivity|lia].
  - rewrite G1. rewrite Hp in E by (intros ->; pose proof (hd_nz _ _ _ H) as X; discriminate).
    destruct (p c).
    + destruct (skipn_step s i c t H) as [H' L]. destruct (IH (S i) j ltac:(lia) E) as (A & B & C).
      rewrite <- H'. split; [exact A|lia].
    + injection E as <-. split; [exact H|lia].
Qed.

Lemma skip_set_bridge set pre : (forall c, c <> 0 -> pre c = ExDefs.mem c set) -> pre 0 = false ->
  forall fuel i j, (i <= length s)%nat -> CapDefs.skip_while fuel pre s i = CapDefs.Ok j ->
    skipn j s = ExDefs.skip_set set (skipn i s) /\ (i <= j)%nat /\ (j <= length s)%nat.
Proof.
  intros Hp H0. apply (skip_bridge (ExDefs.skip_set set) (fun c => ExDefs.mem c set) pre); try assumption; reflexivity.
Qed.

(* ---- copying loops: any list function F with the equations of "copy until p, a backslash takes the next byte along" *)
Lemma cu_bridge (F : bytes -> bytes -> bytes * bytes) (p stop : N -> bool) :
  (forall acc, F [] acc = ([], acc)) ->
  (forall c t acc, F (c :: t) acc = if p c then (c :: t, acc) else F (fst (estep c t acc)) (snd (estep c t acc))) ->
  (forall c, c <> 0 -> stop c = p c) ->
  forall fuel i w r, (i <= length s)%nat -> CapDefs.copy_until fuel stop s i w = CapDefs.Ok r ->
    F (skipn i s) (fst w) = (skipn (fst r) s, fst (snd r)) /\ (i <= fst r)%nat /\ (fst r <= length s)%nat.
Proof.
  intros F0 F1 Hp. induction fuel as [|fuel IH]; intros i w r Hi E; [discriminate|].
  cbn [CapDefs.copy_until] in E. rewrite (rd_sk i Hi) in E. cbn [CapDefs.bind] in E.
  destruct (skipn i s) as [|c t] eqn:H; cbn [hd0] in E.
  - cbn [N.eqb orb] in E. injection E as <-. cbn [fst snd]. rewrite H, F0. split; [reflexivity|lia].
  - rewrite F1. rewrite (hd_nz _ _ _ H) in E. cbn [orb] in E.
    rewrite Hp in E by (intros ->; pose proof (hd_nz _ _ _ H) as X; discriminate).
    destruct (p c).
    + injection E as <-. cbn [fst snd]. rewrite H. split; [reflexivity|lia].
    + apply bind_Ok in E as (iw & E1 & E). apply bind_Ok in E as (iw' & E2 & E).
      destruct (esc_copy _ _ _ _ _ _ H Hi E1 E2) as (A & B & C). rewrite A. cbn [fst snd].
      destruct (IH _ _ _ C E) as (A2 & B2 & C2). rewrite A2. split; [reflexivity|lia].
Qed.

Lemma mem_cap_ex c set : CapDefs.mem c set = ExDefs.mem c set.
Proof. unfold CapDefs.mem, ExDefs.mem. induction set as [|x set IH]; [reflexivity|]. cbn [existsb]. rewrite IH, (N.eqb_sym c x). reflexivity. Qed.

Lemma loc_pat_0 d acc : ExDefs.loc_pat [] d acc = ([], acc). Proof. reflexivity. Qed.
Lemma loc_pat_step d c t acc : ExDefs.loc_pat (c :: t) d acc =
  if c =? d then (c :: t, acc) else ExDefs.loc_pat (fst (estep c t acc)) d (snd (estep c t acc)).
Proof. cbn [ExDefs.loc_pat]. unfold estep. destruct (c =? d); [reflexivity|]. destruct (c =? 92); [destruct t|]; reflexivity. Qed.

Lemma loc_pat_bridge d fuel i w r : (i <= length s)%nat -> CapDefs.copy_until fuel (N.eqb d) s i w = CapDefs.Ok r ->
  ExDefs.loc_pat (skipn i s) d (fst w) = (skipn (fst r) s, fst (snd r)) /\ (i <= fst r)%nat /\ (fst r <= length s)%nat.
Proof.
  apply (cu_bridge (fun src acc => ExDefs.loc_pat src d acc) (fun c => c =? d) (N.eqb d)).
  - intro acc; reflexivity.
  - intros; apply loc_pat_step.
  - intros c _. apply N.eqb_sym.
Qed.

Lemma copy_until_0 stop acc : ExDefs.copy_until stop [] acc = ([], acc). Proof. reflexivity. Qed.
Lemma copy_until_step stop c t acc : ExDefs.copy_until stop (c :: t) acc =
  if ExDefs.mem c stop then (c :: t, acc) else ExDefs.copy_until stop (fst (estep c t acc)) (snd (estep c t acc)).
Proof. cbn [ExDefs.copy_until]. unfold estep. destruct (ExDefs.mem c stop); [reflexivity|]. destruct (c =? 92); [destruct t|]; reflexivity. Qed.

Lemma copy_until_bridge stop stopl : (forall c, c <> 0 -> stop c = ExDefs.mem c stopl) ->
  forall fuel i w r, (i <= length s)%nat -> CapDefs.copy_until fuel stop s i w = CapDefs.Ok r ->
  ExDefs.copy_until stopl (skipn i s) (fst w) = (skipn (fst r) s, fst (snd r)) /\ (i <= fst r)%nat /\ (fst r <= length s)%nat.
Proof.
  intro Hp. apply (cu_bridge (ExDefs.copy_until stopl) (fun c => ExDefs.mem c stopl) stop).
  - intro acc; reflexivity.
  - intros; apply copy_until_step.
  - exact Hp.
Qed.

(* ---- ex_loc *)
Lemma locset_same : GenConsts.exloc_set = ExDefs.LOCSET. Proof. reflexivity. Qed.

Definition loc_q (c : N) (t acc : bytes) : bytes * bytes := if c =? 39 then (t, c :: acc) else (c :: t, acc).
Definition loc_p (src1 acc1 : bytes) : bytes * bytes :=
  match src1 with
  | d :: rest => if (d =? 47) || (d =? 63) then ExDefs.loc_pat rest d (d :: acc1) else (src1, acc1)
  | [] => (src1, acc1)
  end.
Lemma ex_loc_loop_step f c t acc : ExDefs.ex_loc_loop (S f) (c :: t) acc =
  if negb (ExDefs.mem c ExDefs.LOCSET) then (c :: t, acc) else
  let q := loc_q c t acc in let p := loc_p (fst q) (snd q) in
  match fst p with x :: src3 => ExDefs.ex_loc_loop f src3 (x :: snd p) | [] => ExDefs.ex_loc_loop f [] (snd p) end.
Proof.
  cbn [ExDefs.ex_loc_loop]. destruct (negb (ExDefs.mem c ExDefs.LOCSET)); [reflexivity|].
  unfold loc_q. destruct (c =? 39); cbn [fst snd]; unfold loc_p.
  - destruct t as [|d rest]; [reflexivity|]. destruct ((d =? 47) || (d =? 63)); [|reflexivity].
    destruct (ExDefs.loc_pat rest d (d :: c :: acc)) as [a b]; reflexivity.
  - destruct ((c =? 47) || (c =? 63)); [|reflexivity].
    destruct (ExDefs.loc_pat t c (c :: acc)) as [a b]; reflexivity.
Qed.

Lemma loc_main_bridge : forall fuel f2 i w r, (i <= length s)%nat -> (length s - i < f2)%nat ->
  CapDefs.loc_main fuel s i w = CapDefs.Ok r ->
  ExDefs.ex_loc_loop f2 (skipn i s) (fst w) = (skipn (fst r) s, fst (snd r)) /\ (i <= fst r)%nat /\ (fst r <= length s)%nat.
Proof.
  induction fuel as [|fuel IH]; intros f2 i w r Hi Hf E; [discriminate|].
  destruct f2 as [|f2]; [lia|].
  cbn [CapDefs.loc_main] in E. rewrite (rd_sk i Hi) in E. cbn [CapDefs.bind] in E.
  destruct (skipn i s) as [|c t] eqn:H; cbn [hd0] in E.
  { cbn [N.eqb orb] in E. injection E as <-. cbn [fst snd]. rewrite H. split; [reflexivity|lia]. }
  rewrite ex_loc_loop_step.
  rewrite (hd_nz _ _ _ H) in E. cbn [orb] in E. rewrite locset_same, mem_cap_ex in E.
  destruct (negb (ExDefs.mem c ExDefs.LOCSET)).
  { injection E as <-. cbn [fst snd]. rewrite H. split; [reflexivity|lia]. }
  destruct (skipn_step s i c t H) as [H' L].
  apply bind_Ok in E as (iw1 & E1 & E).
  (* after the optional quote *)
  assert (X1 : loc_q c t (fst w) = (skipn (fst iw1) s, fst (snd iw1)) /\ (i <= fst iw1)%nat /\ (fst iw1 <= length s)%nat).
  { unfold loc_q. destruct (c =? 39).
    - destruct (copy1_Ok _ _ _ _ _ H Hi E1) as [A B]. rewrite A, B, H'. split; [reflexivity|lia].
    - injection E1 as <-. cbn [fst snd]. rewrite H. split; [reflexivity|lia]. }
  destruct X1 as (X1 & L1 & L1'). cbv zeta. rewrite X1. clear E1 X1.
  destruct iw1 as [i1 w1]. cbn [fst snd] in *.
  rewrite (rd_sk i1 L1') in E. cbn [CapDefs.bind] in E.
  apply bind_Ok in E as (iw2 & E2 & E).
  assert (X2 : loc_p (skipn i1 s) (fst w1) = (skipn (fst iw2) s, fst (snd iw2)) /\ (i1 <= fst iw2)%nat /\ (fst iw2 <= length s)%nat).
  { unfold loc_p. destruct (skipn i1 s) as [|d rest] eqn:H1; cbn [hd0] in E2.
    - cbn [N.eqb orb] in E2. injection E2 as <-. cbn [fst snd]. rewrite H1. split; [reflexivity|lia].
    - destruct ((d =? 47) || (d =? 63)).
      + apply bind_Ok in E2 as (iw & E2a & E2). destruct (copy1_Ok _ _ _ _ _ H1 L1' E2a) as [A B].
        destruct (skipn_step s i1 d rest H1) as [H1' L1s]. rewrite A in E2.
        destruct (loc_pat_bridge d _ (S i1) _ _ ltac:(lia) E2) as (P & Q & R). rewrite H1', B in P. rewrite P. split; [reflexivity|lia].
      + injection E2 as <-. cbn [fst snd]. rewrite H1. split; [reflexivity|lia]. }
  destruct X2 as (X2 & L2 & L2'). rewrite X2. clear E2 X2.
  destruct iw2 as [i2 w2]. cbn [fst snd] in *.
  rewrite (rd_sk i2 L2') in E. cbn [CapDefs.bind] in E.
  apply bind_Ok in E as (iw3 & E3 & E).
  destruct (skipn i2 s) as [|x src3] eqn:H2; cbn [hd0] in E3.
  - cbn [N.eqb] in E3. injection E3 as <-. cbn [fst snd] in E.
    destruct (IH f2 i2 w2 r L2' ltac:(apply (f_equal (@length N)) in H2; rewrite skipn_length in H2; cbn in H2; lia) E) as (A & B & C).
    rewrite H2 in A. split; [exact A|lia].
  - rewrite (hd_nz _ _ _ H2) in E3. destruct (copy1_Ok _ _ _ _ _ H2 L2' E3) as [A B].
    destruct (skipn_step s i2 x src3 H2) as [H2' L2s].
    rewrite A in E. destruct (IH f2 (S i2) (snd iw3) r ltac:(lia) ltac:(lia) E) as (P & Q & R).
    rewrite H2', B in P. split; [exact P|lia].
Qed.

Lemma colon_blank_mem c : CapDefs.is_colon_blank c = ExDefs.mem c (ExDefs.str [58;32;9]).
Proof. unfold CapDefs.is_colon_blank, ExDefs.mem, ExDefs.str. cbn [existsb]. rewrite !(N.eqb_sym c), orb_false_r, orb_assoc. reflexivity. Qed.
Lemma blank_mem c : CapDefs.is_blank c = ExDefs.mem c (ExDefs.str [32;9]).
Proof. unfold CapDefs.is_blank, ExDefs.mem, ExDefs.str. cbn [existsb]. rewrite !(N.eqb_sym c), orb_false_r. reflexivity. Qed.

Theorem ex_loc_bridge_s cap i i' w : (i <= length s)%nat ->
  CapDefs.ex_loc s i (CapDefs.newbuf cap) = CapDefs.Ok (i', w) ->
  ExDefs.ex_loc (skipn i s) = (skipn i' s, CapDefs.wstr w) /\ (i <= i')%nat /\ (i' <= length s)%nat.
Proof.
  intros Hi E. unfold CapDefs.ex_loc in E.
  apply bind_Ok in E as (i1 & E1 & E). apply bind_Ok in E as (iw & E2 & E). apply bind_Ok in E as (w' & E3 & E).
  injection E as <- <-.
  destruct (skip_set_bridge _ _ (fun c _ => colon_blank_mem c) eq_refl _ _ _ Hi E1) as (A1 & B1 & C1).
  unfold ExDefs.ex_loc. rewrite <- A1.
  destruct (loc_main_bridge _ (S (length (skipn i1 s))) _ _ _ C1 ltac:(rewrite skipn_length; lia) E2) as (A2 & B2 & C2).
  cbn [CapDefs.newbuf fst] in A2. rewrite A2. rewrite (wstr_wr _ _ E3). split; [reflexivity|lia].
Qed.

(* ---- ex_cmd *)
Lemma ex_cmd_alpha_step n c t acc : ExDefs.ex_cmd_alpha (S n) (c :: t) acc =
  if CapDefs.c_isalpha c then
    (if (c =? 107) && (match acc with [] => true | _ => false end) then (t, c :: acc) else ExDefs.ex_cmd_alpha n t (c :: acc))
  else (c :: t, acc).
Proof. reflexivity. Qed.
Lemma ex_cmd_alpha_nil n acc : ExDefs.ex_cmd_alpha n [] acc = ([], acc).
Proof. destruct n; reflexivity. Qed.
Lemma ex_cmd_alpha_stop n c t acc : CapDefs.c_isalpha c = false -> ExDefs.ex_cmd_alpha n (c :: t) acc = (c :: t, acc).
Proof. intro H. destruct n; [reflexivity|]. rewrite ex_cmd_alpha_step, H. reflexivity. Qed.

Lemma cmd_loop_bridge : forall fuel i w n r, (i <= length s)%nat -> n = length (fst w) -> (n <= 16)%nat ->
  CapDefs.cmd_loop fuel s i w n = CapDefs.Ok r ->
  ExDefs.ex_cmd_alpha (16 - n) (skipn i s) (fst w) = (skipn (fst r) s, fst (snd r)) /\ (i <= fst r)%nat /\ (fst r <= length s)%nat.
Proof.
  induction fuel as [|fuel IH]; intros i w n r Hi Hlen Hn16 E; [discriminate|].
  cbn [CapDefs.cmd_loop] in E. rewrite (rd_sk i Hi) in E. cbn [CapDefs.bind] in E.
  destruct (skipn i s) as [|c t] eqn:H; cbn [hd0] in E.
  { change (CapDefs.c_isalpha 0) with false in E. cbn [andb] in E. injection E as <-. cbn [fst snd].
    rewrite H, ex_cmd_alpha_nil. split; [reflexivity|lia]. }
  destruct (CapDefs.c_isalpha c) eqn:Ea; cbn [andb] in E.
  2:{ injection E as <-. cbn [fst snd]. rewrite H, ex_cmd_alpha_stop by assumption. split; [reflexivity|lia]. }
  destruct (Nat.ltb_spec n 16) as [Hlt|Hge].
  2:{ injection E as <-. cbn [fst snd]. replace (16 - n)%nat with O by lia. rewrite H. split; [reflexivity|lia]. }
  replace (16 - n)%nat with (S (16 - S n)) by lia. rewrite ex_cmd_alpha_step, Ea.
  apply bind_Ok in E as (w' & Ew & E). pose proof (wr_Ok _ _ _ Ew) as Hw'.
  destruct (skipn_step s i c t H) as [H' L].
  assert (Hk : Nat.eqb (S n) 1 = match fst w with [] => true | _ => false end).
  { rewrite Hlen. destruct (fst w); reflexivity. }
  rewrite Hk in E. destruct ((c =? 107) && match fst w with [] => true | _ => false end).
  - injection E as <-. cbn [fst snd]. rewrite Hw', H'. split; [reflexivity|lia].
  - destruct (IH (S i) w' (S n) r ltac:(lia) ltac:(rewrite Hw'; cbn [length]; lia) ltac:(lia) E) as (A & B & C).
    rewrite H', Hw' in A. split; [exact A|lia].
Qed.

Theorem ex_cmd_bridge_s cap i i' w : (i <= length s)%nat ->
  CapDefs.ex_cmd s i (CapDefs.newbuf cap) = CapDefs.Ok (i', w) ->
  ExDefs.ex_cmd (skipn i s) = (skipn i' s, CapDefs.wstr w) /\ (i <= i')%nat /\ (i' <= length s)%nat.
Proof.
  intros Hi E. unfold CapDefs.ex_cmd in E.
  apply bind_Ok in E as (i1 & E1 & E). apply bind_Ok in E as (iw & E2 & E).
  destruct (skip_set_bridge _ _ (fun c _ => blank_mem c) eq_refl _ _ _ Hi E1) as (A1 & B1 & C1).
  destruct (cmd_loop_bridge _ i1 (CapDefs.newbuf cap) 0%nat _ C1 eq_refl ltac:(lia) E2) as (A2 & B2 & C2).
  change (16 - 0)%nat with 16%nat in A2. cbn [CapDefs.newbuf fst] in A2.
  destruct iw as [i2 w2]. cbn [fst snd] in *.
  rewrite (rd_sk i2 C2) in E. cbn [CapDefs.bind] in E.
  apply bind_Ok in E as (iw2 & E3 & E). apply bind_Ok in E as (w' & E4 & E). injection E as <- <-.
  unfold ExDefs.ex_cmd. rewrite <- A1, A2. rewrite (wstr_wr _ _ E4).
  destruct (skipn i2 s) as [|c src2] eqn:H2; cbn [hd0] in E3.
  - cbn in E3. injection E3 as <-. cbn [fst snd]. rewrite H2. split; [reflexivity|lia].
  - destruct ((c =? 33) || (c =? 61) || (c =? 64)).
    + destruct (copy1_Ok _ _ _ _ _ H2 C2 E3) as [A B]. destruct (skipn_step s i2 c src2 H2) as [H2' L2].
      rewrite A, B, H2'. split; [reflexivity|lia].
    + injection E3 as <-. cbn [fst snd]. rewrite H2. split; [reflexivity|lia].
Qed.

(* where the two kinds of loops stop (needed for progress: every command of the line consumes at least one byte) *)
Lemma skip_while_end pre : pre 0 = false -> forall fuel i j, (i <= length s)%nat ->
  CapDefs.skip_while fuel pre s i = CapDefs.Ok j -> pre (hd0 (skipn j s)) = false.
Proof.
  intro H0. induction fuel as [|fuel IH]; intros i j Hi E; [discriminate|].
  cbn [CapDefs.skip_while] in E. rewrite (rd_sk i Hi) in E. cbn [CapDefs.bind] in E.
  destruct (pre (hd0 (skipn i s))) eqn:Ep.
  - destruct (skipn i s) as [|c t] eqn:H; cbn [hd0] in Ep; [congruence|].
    destruct (skipn_step s i c t H) as [H' L]. apply (IH (S i) j ltac:(lia) E).
  - injection E as <-. exact Ep.
Qed.
Lemma copy_until_end stop : forall fuel i w r, (i <= length s)%nat ->
  CapDefs.copy_until fuel stop s i w = CapDefs.Ok r ->
  (hd0 (skipn (fst r) s) =? 0) || stop (hd0 (skipn (fst r) s)) = true.
Proof.
  induction fuel as [|fuel IH]; intros i w r Hi E; [discriminate|].
  cbn [CapDefs.copy_until] in E. rewrite (rd_sk i Hi) in E. cbn [CapDefs.bind] in E.
  destruct ((hd0 (skipn i s) =? 0) || stop (hd0 (skipn i s))) eqn:Ep.
  - injection E as <-. exact Ep.
  - destruct (skipn i s) as [|c t] eqn:H; [discriminate Ep|].
    apply bind_Ok in E as (iw & E1 & E). apply bind_Ok in E as (iw' & E2 & E).
    destruct (esc_copy _ _ _ _ _ _ H Hi E1 E2) as (A & B & C). apply (IH _ _ _ C E).
Qed.

(* ---- ex_arg *)
Lemma copy_delims_0 acc d cnt : ExDefs.copy_delims [] acc d cnt = ([], acc). Proof. reflexivity. Qed.
Lemma copy_delims_step c t acc d cnt : ExDefs.copy_delims (c :: t) acc d cnt =
  if (cnt =? 0)%nat || (c =? 10) then (c :: t, acc) else
  ExDefs.copy_delims (fst (estep c t acc)) (snd (estep c t acc)) d (if c =? d then pred cnt else cnt).
Proof.
  cbn [ExDefs.copy_delims]. unfold estep, ExDefs.nl. destruct ((cnt =? 0)%nat || (c =? 10)); [reflexivity|].
  rewrite Nat.sub_1_r. destruct (c =? 92); [destruct t|]; reflexivity.
Qed.

Lemma arg_sub_bridge : forall fuel d i w cnt r, (i <= length s)%nat -> CapDefs.arg_sub fuel s d i w cnt = CapDefs.Ok r ->
  ExDefs.copy_delims (skipn i s) (fst w) d cnt = (skipn (fst r) s, fst (snd r)) /\ (i <= fst r)%nat /\ (fst r <= length s)%nat.
Proof.
  induction fuel as [|fuel IH]; intros d i w cnt r Hi E; [discriminate|].
  cbn [CapDefs.arg_sub] in E. rewrite (rd_sk i Hi) in E. cbn [CapDefs.bind] in E.
  destruct (skipn i s) as [|c t] eqn:H; cbn [hd0] in E.
  - cbn [N.eqb orb] in E. injection E as <-. cbn [fst snd]. rewrite H. split; [reflexivity|lia].
  - rewrite copy_delims_step. rewrite (hd_nz _ _ _ H) in E. cbn [orb] in E. rewrite orb_comm in E.
    destruct ((cnt =? 0)%nat || (c =? 10)).
    + injection E as <-. cbn [fst snd]. rewrite H. split; [reflexivity|lia].
    + apply bind_Ok in E as (iw & E1 & E). apply bind_Ok in E as (iw' & E2 & E).
      destruct (esc_copy _ _ _ _ _ _ H Hi E1 E2) as (A & B & C). rewrite A. cbn [fst snd].
      destruct (IH _ _ _ _ _ C E) as (A2 & B2 & C2). rewrite A2. split; [reflexivity|lia].
Qed.

Lemma skip_to_nl_bridge fuel i j : (i <= length s)%nat -> CapDefs.skip_while fuel CapDefs.not_nl s i = CapDefs.Ok j ->
  skipn j s = ExDefs.skip_to_nl (skipn i s) /\ (i <= j)%nat /\ (j <= length s)%nat.
Proof.
  apply (skip_bridge ExDefs.skip_to_nl (fun c => negb (c =? 10)) CapDefs.not_nl).
  - reflexivity.
  - intros c t. cbn [ExDefs.skip_to_nl]. unfold ExDefs.nl. destruct (c =? 10); reflexivity.
  - intros c Hc. unfold CapDefs.not_nl. destruct (N.eqb_spec c 0); [contradiction|reflexivity].
  - reflexivity.
Qed.

Lemma stop_nl_mem c : CapDefs.stop_nl c = ExDefs.mem c [ExDefs.nl].
Proof. unfold CapDefs.stop_nl, ExDefs.mem, ExDefs.nl. cbn [existsb]. rewrite (N.eqb_sym c), orb_false_r. reflexivity. Qed.
Lemma stop_tail_mem c : CapDefs.stop_tail c = ExDefs.mem c (ExDefs.str [10;124;34]).
Proof. unfold CapDefs.stop_tail, ExDefs.mem, ExDefs.str. cbn [existsb]. rewrite !(N.eqb_sym c), orb_false_r, orb_assoc. reflexivity. Qed.
Lemma delim_ok c : negb (c =? 0) && negb (c =? 10) && negb (c =? 124) && negb (c =? 92) && negb (c =? 34)
  = negb (c =? 0) && negb (ExDefs.mem c (ExDefs.str [10;124;92;34])).
Proof.
  unfold ExDefs.mem, ExDefs.str. cbn [existsb]. rewrite !(N.eqb_sym c).
  destruct (0 =? c), (10 =? c), (124 =? c), (92 =? c), (34 =? c); reflexivity.
Qed.

Lemma ch0_hd e : CapDefs.ch0 e = hd0 e.
Proof. destruct e; reflexivity. Qed.
Lemma ch1_hd e : nonul e -> CapDefs.ch1 e = hd0 (tl e).
Proof.
  intro He. unfold CapDefs.ch1. rewrite ch0_hd. destruct e as [|x e]; [reflexivity|]. cbn [hd0 tl].
  inversion He as [|? ? [Hx _] _]; subst. destruct (N.eqb_spec x 0); [lia|]. destruct e; reflexivity.
Qed.

Lemma ex_arg_bridge_prog cap i i' w e : nonul e -> (i <= length s)%nat ->
  CapDefs.ex_arg s i (CapDefs.newbuf cap) (CapDefs.ch0 e) (CapDefs.ch1 e) = CapDefs.Ok (i', w) ->
  ExDefs.ex_arg (skipn i s) e = (skipn i' s, CapDefs.wstr w) /\ (i <= i')%nat /\ (i' <= length s)%nat /\
  ((i < length s)%nat -> (i < i')%nat).
Proof.
  intros He Hi E. rewrite ch0_hd, (ch1_hd e He) in E. unfold CapDefs.ex_arg in E. cbv zeta in E.
  apply bind_Ok in E as (i1 & E1 & E).
  destruct (skip_set_bridge _ _ (fun c _ => blank_mem c) eq_refl _ _ _ Hi E1) as (A1 & B1 & C1).
  rewrite (rd_sk i1 C1) in E. cbn [CapDefs.bind] in E.
  apply bind_Ok in E as (iw & E2 & E).
  unfold ExDefs.ex_arg. rewrite <- A1.
  set (c0 := hd0 e) in *. set (c1 := hd0 (tl e)) in *.
  (* the first part *)
  assert (X : (if (c0 =? 33) || (c0 =? 103) || (c0 =? 118) || ((c0 =? 114) || (c0 =? 119)) && (c1 =? 0) && (hd0 (skipn i1 s) =? 33)
               then ExDefs.copy_until [ExDefs.nl] (skipn i1 s) []
               else if (c0 =? 115) && negb (c1 =? 101) || (c0 =? 38) || (c0 =? 126)
               then if negb (hd0 (skipn i1 s) =? 0) && negb (ExDefs.mem (hd0 (skipn i1 s)) (ExDefs.str [10;124;92;34]))
                    then ExDefs.copy_delims (tl (skipn i1 s)) [hd0 (skipn i1 s)] (hd0 (skipn i1 s)) 2
                    else (skipn i1 s, [])
               else (skipn i1 s, [])) = (skipn (fst iw) s, fst (snd iw)) /\ (i1 <= fst iw)%nat /\ (fst iw <= length s)%nat).
  { destruct ((c0 =? 33) || (c0 =? 103) || (c0 =? 118) || ((c0 =? 114) || (c0 =? 119)) && (c1 =? 0) && (hd0 (skipn i1 s) =? 33)).
    - apply (copy_until_bridge CapDefs.stop_nl [ExDefs.nl] (fun c _ => stop_nl_mem c) _ _ _ _ C1 E2).
    - destruct ((c0 =? 115) && negb (c1 =? 101) || (c0 =? 38) || (c0 =? 126)).
      + rewrite delim_ok in E2.
        destruct (negb (hd0 (skipn i1 s) =? 0) && negb (ExDefs.mem (hd0 (skipn i1 s)) (ExDefs.str [10;124;92;34]))) eqn:Ed.
        * destruct (skipn i1 s) as [|c t] eqn:H1; [discriminate Ed|]. cbn [hd0 tl] in *.
          apply bind_Ok in E2 as (iw0 & E2a & E2). destruct (copy1_Ok _ _ _ _ _ H1 C1 E2a) as [A B].
          destruct (skipn_step s i1 c t H1) as [H1' L1]. rewrite A in E2.
          destruct (arg_sub_bridge _ _ (S i1) _ _ _ ltac:(lia) E2) as (P & Q & R).
          rewrite H1', B in P. cbn [CapDefs.newbuf fst] in P. rewrite P. split; [reflexivity|lia].
        * injection E2 as <-. cbn [fst snd CapDefs.newbuf]. split; [reflexivity|lia].
      + injection E2 as <-. cbn [fst snd CapDefs.newbuf]. split; [reflexivity|lia]. }
  destruct X as (X & L1 & L1').
  destruct iw as [i2 w2]. cbn [fst snd] in *.
  apply bind_Ok in E as (iw2 & E3 & E).
  destruct (copy_until_bridge CapDefs.stop_tail (ExDefs.str [10;124;34]) (fun c _ => stop_tail_mem c) _ _ _ _ L1' E3) as (A3 & B3 & C3).
  destruct iw2 as [i3 w3]. cbn [fst snd] in *.
  match goal with |- (let '(src1, acc1) := ?X0 in _) = _ /\ _ => change X0 with
     (if (c0 =? 33) || (c0 =? 103) || (c0 =? 118) || ((c0 =? 114) || (c0 =? 119)) && (c1 =? 0) && (hd0 (skipn i1 s) =? 33)
               then ExDefs.copy_until [ExDefs.nl] (skipn i1 s) []
               else if (c0 =? 115) && negb (c1 =? 101) || (c0 =? 38) || (c0 =? 126)
               then if negb (hd0 (skipn i1 s) =? 0) && negb (ExDefs.mem (hd0 (skipn i1 s)) (ExDefs.str [10;124;92;34]))
                    then ExDefs.copy_delims (tl (skipn i1 s)) [hd0 (skipn i1 s)] (hd0 (skipn i1 s)) 2
                    else (skipn i1 s, [])
               else (skipn i1 s, [])) end.
  rewrite X, A3. clear X.
  rewrite (rd_sk i3 C3) in E. cbn [CapDefs.bind] in E.
  apply bind_Ok in E as (i4 & E4 & E).
  assert (X4 : exists src3, (if hd0 (skipn i3 s) =? 34 then ExDefs.skip_to_nl (skipn i3 s) else skipn i3 s) = src3 /\
               skipn i4 s = src3 /\ (i3 <= i4)%nat /\ (i4 <= length s)%nat).
  { destruct (hd0 (skipn i3 s) =? 34).
    - eexists; split; [reflexivity|]. apply (skip_to_nl_bridge _ _ _ C3 E4).
    - injection E4 as <-. eexists; split; [reflexivity|]. split; [reflexivity|lia]. }
  destruct X4 as (src3 & -> & A4 & B4 & C4). rewrite <- A4.
  rewrite (rd_sk i4 C4) in E. cbn [CapDefs.bind] in E.
  apply bind_Ok in E as (w' & E5 & E). injection E as <- <-.
  rewrite (wstr_wr _ _ E5).
  destruct (skipn i4 s) as [|c r] eqn:H4; cbn [hd0].
  - cbn [N.eqb orb]. rewrite H4. split; [reflexivity|]. pose proof (skipn_nil_len s i4 H4 C4). lia.
  - destruct (skipn_step s i4 c r H4) as [H4' L4]. unfold ExDefs.nl.
    destruct ((c =? 10) || (c =? 124)) eqn:Eor; [rewrite H4'; split; [reflexivity|lia]|].
    rewrite H4. split; [reflexivity|]. split; [lia|]. split; [lia|]. intro Hlt.
    destruct (Nat.eq_dec i4 i) as [Heq|Hne]; [exfalso|lia].
    assert (Hi3 : i3 = i4) by lia. subst i3.
    pose proof (copy_until_end _ _ _ _ _ L1' E3) as Hend. cbn [fst] in Hend. rewrite H4 in Hend. cbn [hd0] in Hend.
    rewrite (hd_nz _ _ _ H4) in Hend. unfold CapDefs.stop_tail in Hend. rewrite Eor in Hend. cbn [orb] in Hend.
    apply N.eqb_eq in Hend. subst c. rewrite H4 in E4. cbn [hd0] in E4. change (34 =? 34) with true in E4. cbn iota in E4.
    pose proof (skip_while_end CapDefs.not_nl eq_refl _ _ _ C3 E4) as Hx. rewrite H4 in Hx. discriminate Hx.
Qed.

Theorem ex_arg_bridge_s cap i i' w e : nonul e -> (i <= length s)%nat ->
  CapDefs.ex_arg s i (CapDefs.newbuf cap) (CapDefs.ch0 e) (CapDefs.ch1 e) = CapDefs.Ok (i', w) ->
  ExDefs.ex_arg (skipn i s) e = (skipn i' s, CapDefs.wstr w) /\ (i <= i')%nat /\ (i' <= length s)%nat.
Proof. intros He Hi E. destruct (ex_arg_bridge_prog cap i i' w e He Hi E) as (A & B & C & _). auto. Qed.

(* ---- ex_txt: the inline text of rs *)
Lemma inline_block_step c t acc : ExDefs.inline_block (c :: t) acc =
  if (c =? 10) && (hd0 t =? 46) && (hd0 (tl t) =? 10) then (rev acc, tl (tl t)) else ExDefs.inline_block t (c :: acc).
Proof.
  destruct (N.eqb_spec c 10) as [->|Hc]; cbn [andb].
  - destruct t as [|d t]; [reflexivity|]. cbn [hd0 tl].
    destruct (N.eqb_spec d 46) as [->|Hd]; cbn [andb].
    + destruct t as [|e t]; [reflexivity|]. cbn [hd0 tl].
      destruct (N.eqb_spec e 10) as [->|He]; [reflexivity|].
      cbn [ExDefs.inline_block].
      repeat match goal with |- context [match ?x with _ => _ end] => is_var x; destruct x end; try reflexivity; congruence.
    + cbn [ExDefs.inline_block].
      repeat match goal with |- context [match ?x with _ => _ end] => is_var x; destruct x end; try reflexivity; congruence.
  - cbn [ExDefs.inline_block].
    repeat match goal with |- context [match ?x with _ => _ end] => is_var x; destruct x end; try reflexivity; congruence.
Qed.

Lemma txt_rs_bridge : forall fuel i j acc, (i <= length s)%nat -> CapDefs.txt_rs fuel s i = CapDefs.Ok j ->
  (i <= j)%nat /\ (j <= length s)%nat /\
  ((skipn j s = [] /\ snd (ExDefs.inline_block (skipn i s) acc) = []) \/
   (exists rest, skipn j s = 10 :: 46 :: 10 :: rest /\ snd (ExDefs.inline_block (skipn i s) acc) = rest)).
Proof.
  induction fuel as [|fuel IH]; intros i j acc Hi E; [discriminate|].
  cbn [CapDefs.txt_rs] in E. rewrite (rd_sk i Hi) in E. cbn [CapDefs.bind] in E.
  destruct (skipn i s) as [|c t] eqn:H; cbn [hd0] in E.
  { cbn [N.eqb] in E. injection E as <-. split; [lia|]. split; [lia|]. left. split; [exact H|reflexivity]. }
  rewrite (hd_nz _ _ _ H) in E. destruct (skipn_step s i c t H) as [H' L].
  rewrite inline_block_step.
  assert (Loop : CapDefs.txt_rs fuel s (S i) = CapDefs.Ok j ->
    (i <= j)%nat /\ (j <= length s)%nat /\
    ((skipn j s = [] /\ snd (ExDefs.inline_block t (c :: acc)) = []) \/
     (exists rest, skipn j s = 10 :: 46 :: 10 :: rest /\ snd (ExDefs.inline_block t (c :: acc)) = rest))).
  { intro E'. destruct (IH (S i) j (c :: acc) ltac:(lia) E') as (A & B & C). rewrite H' in C. split; [lia|]. split; assumption. }
  destruct (N.eqb_spec c 10) as [Ec|Ec]; cbn [andb]; [|exact (Loop E)].
  rewrite (rd_sk (S i) ltac:(lia)), H' in E. cbn [CapDefs.bind] in E.
  destruct (N.eqb_spec (hd0 t) 46) as [Ed|Ed]; cbn [andb]; [|exact (Loop E)].
  destruct t as [|d t2]; [discriminate Ed|]. cbn [hd0 tl] in *.
  destruct (skipn_step s (S i) d t2 H') as [H'' L'].
  rewrite (rd_sk (S (S i)) ltac:(lia)), H'' in E. cbn [CapDefs.bind] in E.
  destruct (N.eqb_spec (hd0 t2) 10) as [Ee|Ee]; [|exact (Loop E)].
  injection E as <-. split; [lia|]. split; [lia|]. right. exists (tl t2). split; [|reflexivity].
  destruct t2 as [|e2 t3]; [discriminate Ee|]. cbn [hd0 tl] in *. rewrite H. congruence.
Qed.

Theorem ex_txt_bridge_s i j e (st : ExDefs.st) : nonul e -> (i <= length s)%nat ->
  CapDefs.ex_txt_src s i (CapDefs.ch0 e) (CapDefs.ch1 e) = CapDefs.Ok j ->
  fst (fst (ExDefs.ex_txt (skipn i s) e st)) = skipn j s /\ (i <= j)%nat /\ (j <= length s)%nat.
Proof.
  intros He Hi E. rewrite ch0_hd, (ch1_hd e He) in E. unfold CapDefs.ex_txt_src in E. unfold ExDefs.ex_txt. cbv zeta.
  destruct ((hd0 e =? 114) && (hd0 (tl e) =? 115)).
  - rewrite (rd_sk i Hi) in E. cbn [CapDefs.bind] in E.
    destruct (skipn i s) as [|c t] eqn:H; cbn [hd0] in E.
    + cbn [N.eqb] in E. injection E as <-. cbn [orb]. destruct (ExDefs.read_block (ExDefs.inp st) []) as [tt i'].
      cbn [fst]. rewrite H. split; [reflexivity|lia].
    + rewrite (hd_nz _ _ _ H) in E. apply bind_Ok in E as (j0 & E1 & E).
      destruct (txt_rs_bridge _ _ _ [] Hi E1) as (A & B & C). rewrite H in C.
      rewrite (rd_sk j0 B) in E. cbn [CapDefs.bind] in E.
      destruct (ExDefs.inline_block (c :: t) []) as [tt rest] eqn:Eib. cbn [fst snd] in *.
      destruct C as [[C1 C2]|(rest' & C1 & C2)]; rewrite C1 in E; cbn [hd0 N.eqb] in E; injection E as <-.
      * subst rest. rewrite C1. split; [reflexivity|lia].
      * subst rest'. destruct (skipn_step s j0 _ _ C1) as [D1 M1]. destruct (skipn_step s (S j0) _ _ D1) as [D2 M2].
        destruct (skipn_step s (S (S j0)) _ _ D2) as [D3 M3]. replace (j0 + 3)%nat with (S (S (S j0))) by lia.
        rewrite D3. split; [reflexivity|lia].
  - injection E as <-. cbn [orb].
    destruct ((hd0 (tl e) =? 0) && ((hd0 e =? 105) || (hd0 e =? 97) || (hd0 e =? 99))).
    + destruct (ExDefs.read_block (ExDefs.inp st) []) as [tt i']. cbn [fst]. split; [reflexivity|lia].
    + cbn [fst]. split; [reflexivity|lia].
Qed.

End Str.

Theorem ex_loc_bridge cap s i i' w : nonul s -> (i <= length s)%nat ->
  CapDefs.ex_loc s i (CapDefs.newbuf cap) = CapDefs.Ok (i', w) ->
  ExDefs.ex_loc (skipn i s) = (skipn i' s, CapDefs.wstr w) /\ (i <= i')%nat /\ (i' <= length s)%nat.
Proof. intros Hn. apply ex_loc_bridge_s; assumption. Qed.


Theorem ex_cmd_bridge cap s i i' w : nonul s -> (i <= length s)%nat ->
  CapDefs.ex_cmd s i (CapDefs.newbuf cap) = CapDefs.Ok (i', w) ->
  ExDefs.ex_cmd (skipn i s) = (skipn i' s, CapDefs.wstr w) /\ (i <= i')%nat /\ (i' <= length s)%nat.
Proof. intros Hn. apply ex_cmd_bridge_s; assumption. Qed.

Theorem ex_arg_bridge cap s i i' w e : nonul s -> nonul e -> (i <= length s)%nat ->
  CapDefs.ex_arg s i (CapDefs.newbuf cap) (CapDefs.ch0 e) (CapDefs.ch1 e) = CapDefs.Ok (i', w) ->
  ExDefs.ex_arg (skipn i s) e = (skipn i' s, CapDefs.wstr w) /\ (i <= i')%nat /\ (i' <= length s)%nat.
Proof. intros Hn. apply ex_arg_bridge_s; assumption. Qed.


Theorem ex_txt_bridge s i j e (st : ExDefs.st) : nonul s -> nonul e -> (i <= length s)%nat ->
  CapDefs.ex_txt_src s i (CapDefs.ch0 e) (CapDefs.ch1 e) = CapDefs.Ok j ->
  fst (fst (ExDefs.ex_txt (skipn i s) e st)) = skipn j s /\ (i <= j)%nat /\ (j <= length s)%nat.
Proof. intros Hn. apply ex_txt_bridge_s; assumption. Qed.

(* ---- ex_idx: the generated command table against the hand-written lists CMDS / OTHER *)
Lemma bytes_eqb_eq a b : CapDefs.bytes_eqb a b = true <-> a = b.
Proof.
  revert b; induction a as [|x a IH]; intros [|y b]; cbn [CapDefs.bytes_eqb]; split; try discriminate; try reflexivity.
  - intro H. apply andb_true_iff in H as [H1 H2]. apply N.eqb_eq in H1. apply IH in H2. congruence.
  - intro H. injection H as -> ->. rewrite N.eqb_refl. cbn [andb]. apply IH. reflexivity.
Qed.

Definition pairnames (l : list (bytes * bytes)) : list bytes := flat_map (fun p => [fst p; snd p]) l.

Lemma idx_from_none tab cmd : ~ In cmd (pairnames tab) -> forall k, CapDefs.idx_from tab cmd k = None.
Proof.
  induction tab as [|[ab nm] tab IH]; intros Hnin k; [reflexivity|]. cbn [CapDefs.idx_from].
  simpl in Hnin.
  destruct (CapDefs.bytes_eqb ab cmd) eqn:E1. { apply bytes_eqb_eq in E1. tauto. }
  destruct (CapDefs.bytes_eqb nm cmd) eqn:E2. { apply bytes_eqb_eq in E2. tauto. }
  cbn [orb]. apply IH. tauto.
Qed.
Lemma ex_idx_in_none tab cmd : ~ In cmd (pairnames tab) -> ExDefs.ex_idx_in tab cmd = None.
Proof.
  induction tab as [|[ab nm] tab IH]; intros Hnin; [reflexivity|]. cbn [ExDefs.ex_idx_in]. change (ExDefs.bytes_eqb ab cmd) with (CapDefs.bytes_eqb ab cmd). change (ExDefs.bytes_eqb nm cmd) with (CapDefs.bytes_eqb nm cmd).
  simpl in Hnin.
  destruct (CapDefs.bytes_eqb ab cmd) eqn:E1. { apply bytes_eqb_eq in E1. tauto. }
  destruct (CapDefs.bytes_eqb nm cmd) eqn:E2. { apply bytes_eqb_eq in E2. tauto. }
  cbn [orb]. apply IH. tauto.
Qed.
Lemma existsb_eqb_none l cmd : ~ In cmd l -> existsb (ExDefs.bytes_eqb cmd) l = false.
Proof.
  induction l as [|x l IH]; intro Hnin; [reflexivity|]. cbn [existsb]. change (ExDefs.bytes_eqb cmd x) with (CapDefs.bytes_eqb cmd x). simpl in Hnin.
  destruct (CapDefs.bytes_eqb cmd x) eqn:E1. { apply bytes_eqb_eq in E1. symmetry in E1. tauto. }
  cbn [orb]. apply IH. tauto.
Qed.
(* a first-match scan answers with the abbreviation of an entry of the table *)
Lemma idx_from_in tab cmd : forall k k' ab, CapDefs.idx_from tab cmd k = Some (k', ab) ->
  exists nm, In (ab, nm) tab /\ (ab = cmd \/ nm = cmd).
Proof.
  induction tab as [|[ab0 nm0] tab IH]; intros k k' ab E; [discriminate|]. cbn [CapDefs.idx_from] in E.
  destruct (CapDefs.bytes_eqb ab0 cmd || CapDefs.bytes_eqb nm0 cmd) eqn:E1.
  - injection E as _ <-. exists nm0. split; [left; reflexivity|].
    apply orb_true_iff in E1 as [E1|E1]; apply bytes_eqb_eq in E1; tauto.
  - destruct (IH _ _ _ E) as (nm & A & B). exists nm. split; [right; exact A|exact B].
Qed.

Definition idx_check (cmd : bytes) : bool :=
  match CapDefs.ex_idx cmd, ExDefs.ex_idx cmd with
  | Some (_, ab), Some ab' => CapDefs.bytes_eqb ab ab' && negb (ExDefs.is_other cmd)
  | Some _, None => ExDefs.is_other cmd
  | None, None => negb (ExDefs.is_other cmd)
  | None, Some _ => false
  end.
Definition allnames : list bytes := pairnames GenExCmds.excmds_tab ++ pairnames ExDefs.CMDS ++ ExDefs.OTHER.
Lemma idx_check_names : forallb idx_check allnames = true.
Proof. vm_compute. reflexivity. Qed.
Lemma idx_check_all cmd : idx_check cmd = true.
Proof.
  destruct (in_dec (list_eq_dec N.eq_dec) cmd allnames) as [Hin|Hnin].
  - pose proof idx_check_names as H. rewrite forallb_forall in H. apply H. exact Hin.
  - unfold allnames in Hnin. rewrite !in_app_iff in Hnin.
    unfold idx_check, CapDefs.ex_idx, ExDefs.ex_idx, ExDefs.is_other.
    rewrite idx_from_none, ex_idx_in_none, existsb_eqb_none by tauto. reflexivity.
Qed.

Theorem ex_idx_bridge cmd :
  match CapDefs.ex_idx cmd with
  | Some (k, ab) => (ExDefs.ex_idx cmd = Some ab /\ ExDefs.is_other cmd = false) \/ (ExDefs.ex_idx cmd = None /\ ExDefs.is_other cmd = true)
  | None => ExDefs.ex_idx cmd = None /\ ExDefs.is_other cmd = false
  end.
Proof.
  pose proof (idx_check_all cmd) as H. unfold idx_check in H.
  destruct (CapDefs.ex_idx cmd) as [[k ab]|]; destruct (ExDefs.ex_idx cmd) as [ab'|].
  - apply andb_true_iff in H as [H1 H2]. apply bytes_eqb_eq in H1. subst ab'. apply negb_true_iff in H2. left. split; [reflexivity|exact H2].
  - right. split; [reflexivity|exact H].
  - discriminate.
  - apply negb_true_iff in H. split; [reflexivity|exact H].
Qed.

Definition supported (cmd : bytes) : bool := negb (ExDefs.is_other cmd).

Lemma excmd_of_supported cmd : supported cmd = true ->
  CapDefs.excmd_of cmd = match ExDefs.ex_idx cmd with Some a => a | None => [117;110;107;110;111;119;110]%N end.
Proof.
  unfold supported. intro H. apply negb_true_iff in H. pose proof (ex_idx_bridge cmd) as B. unfold CapDefs.excmd_of.
  destruct (CapDefs.ex_idx cmd) as [[k ab]|].
  - destruct B as [[B1 _]|[_ B2]]; [rewrite B1; reflexivity|congruence].
  - destruct B as [B1 _]. rewrite B1. reflexivity.
Qed.

Definition nonul_b (l : bytes) : bool := forallb (fun b => (0 <? b) && (b <? 256)) l.
Lemma nonul_b_ok l : nonul_b l = true -> nonul l.
Proof.
  unfold nonul_b, nonul. rewrite forallb_forall, Forall_forall. intros H b Hb. specialize (H b Hb).
  apply andb_true_iff in H as [H1 H2]. apply N.ltb_lt in H1. apply N.ltb_lt in H2. split; assumption.
Qed.
Lemma tab_nonul : forallb (fun p => nonul_b (fst p)) GenExCmds.excmds_tab = true.
Proof. vm_compute. reflexivity. Qed.
Lemma excmd_of_nonul cmd : nonul (CapDefs.excmd_of cmd).
Proof.
  unfold CapDefs.excmd_of, CapDefs.ex_idx. destruct (CapDefs.idx_from GenExCmds.excmds_tab cmd 0) as [[k ab]|] eqn:E.
  - destruct (idx_from_in _ _ _ _ _ E) as (nm & A & _). pose proof tab_nonul as H. rewrite forallb_forall in H.
    apply nonul_b_ok. apply (H (ab, nm) A).
  - apply nonul_b_ok. vm_compute. reflexivity.
Qed.

(* ---- one command of the line: ex_loc, ex_cmd, ex_idx, ex_arg, ex_txt in a row *)
Definition parse_step (st : ExDefs.st) (ln : bytes) : bytes * bytes * bytes * bytes :=
  let '(ln1, loc) := ExDefs.ex_loc ln in
  let '(ln2, cmd) := ExDefs.ex_cmd ln1 in
  let abbr := match ExDefs.ex_idx cmd with Some a => a | None => ExDefs.str [117;110;107;110;111;119;110]%N end in
  let '(ln3, arg) := ExDefs.ex_arg ln2 abbr in
  let ln4 := fst (fst (ExDefs.ex_txt ln3 abbr st)) in
  (loc, cmd, arg, ln4).

Lemma parse_step_bridge s i p (st : ExDefs.st) : nonul s -> (i <= length s)%nat ->
  CapDefs.parse_one s i = CapDefs.Ok p -> supported (CapDefs.p_cmd p) = true ->
  parse_step st (skipn i s) = (CapDefs.p_loc p, CapDefs.p_cmd p, CapDefs.p_arg p, skipn (CapDefs.p_next p) s) /\
  (i <= CapDefs.p_next p)%nat /\ (CapDefs.p_next p <= length s)%nat.
Proof.
  intros Hn Hi E Hs. unfold CapDefs.parse_one in E. cbv zeta in E.
  apply bind_Ok in E as ([i1 wl] & El & E). apply bind_Ok in E as ([i2 wc] & Ec & E). cbn [fst snd] in *.
  apply bind_Ok in E as ([i3 wa] & Ea & E). apply bind_Ok in E as (j & Et & E). cbn [fst snd] in *.
  injection E as <-. cbn [CapDefs.p_loc CapDefs.p_cmd CapDefs.p_arg CapDefs.p_next] in *.
  destruct (ex_loc_bridge _ _ _ _ _ Hn Hi El) as (A1 & B1 & C1).
  destruct (ex_cmd_bridge _ _ _ _ _ Hn C1 Ec) as (A2 & B2 & C2).
  pose proof (excmd_of_nonul (CapDefs.wstr wc)) as Hne.
  destruct (ex_arg_bridge _ _ _ _ _ _ Hn Hne C2 Ea) as (A3 & B3 & C3).
  destruct (ex_txt_bridge _ _ _ _ st Hn Hne C3 Et) as (A4 & B4 & C4).
  unfold parse_step. rewrite A1, A2. rewrite (excmd_of_supported _ Hs) in A3, A4. unfold ExDefs.str. rewrite A3. cbv zeta. rewrite A4.
  split; [reflexivity|lia].
Qed.

Theorem parse_one_bridge s i p (st : ExDefs.st) : nonul s -> (i <= length s)%nat ->
  CapDefs.parse_one s i = CapDefs.Ok p -> supported (CapDefs.p_cmd p) = true ->
  let '(ln1, loc) := ExDefs.ex_loc (skipn i s) in
  let '(ln2, cmd) := ExDefs.ex_cmd ln1 in
  let abbr := match ExDefs.ex_idx cmd with Some a => a | None => [117;110;107;110;111;119;110]%N end in
  let '(ln3, arg) := ExDefs.ex_arg ln2 abbr in
  let ln4 := fst (fst (ExDefs.ex_txt ln3 abbr st)) in
  loc = CapDefs.p_loc p /\ cmd = CapDefs.p_cmd p /\ arg = CapDefs.p_arg p /\ ln4 = skipn (CapDefs.p_next p) s /\
  (i <= CapDefs.p_next p <= length s)%nat.
Proof.
  intros Hn Hi E Hs. destruct (parse_step_bridge s i p st Hn Hi E Hs) as (A & B & C). revert A. unfold parse_step, ExDefs.str.
  destruct (ExDefs.ex_loc (skipn i s)) as [ln1 loc]. destruct (ExDefs.ex_cmd ln1) as [ln2 cmd].
  cbv zeta. destruct (ExDefs.ex_arg ln2 _) as [ln3 arg]. intro A. injection A as -> -> -> ->.
  repeat split; try reflexivity; lia.
Qed.

(* ---- the whole line *)
Lemma ex_txt_rest_indep src e (st st' : ExDefs.st) :
  fst (fst (ExDefs.ex_txt src e st)) = fst (fst (ExDefs.ex_txt src e st')).
Proof.
  unfold ExDefs.ex_txt. cbv zeta. destruct ((hd0 e =? 114) && (hd0 (tl e) =? 115)).
  - destruct src as [|c t].
    + cbn [orb]. destruct (ExDefs.read_block (ExDefs.inp st) []), (ExDefs.read_block (ExDefs.inp st') []). reflexivity.
    + destruct (ExDefs.inline_block (c :: t) []). reflexivity.
  - cbn [orb]. destruct ((hd0 (tl e) =? 0) && ((hd0 e =? 105) || (hd0 e =? 97) || (hd0 e =? 99))); [|reflexivity].
    destruct (ExDefs.read_block (ExDefs.inp st) []), (ExDefs.read_block (ExDefs.inp st') []). reflexivity.
Qed.
Lemma parse_step_indep st st' ln : parse_step st ln = parse_step st' ln.
Proof.
  unfold parse_step. destruct (ExDefs.ex_loc ln) as [ln1 loc]. destruct (ExDefs.ex_cmd ln1) as [ln2 cmd]. cbv zeta.
  destruct (ExDefs.ex_arg ln2 _) as [ln3 arg]. rewrite (ex_txt_rest_indep ln3 _ st st'). reflexivity.
Qed.

Definition st0 : ExDefs.st := ExDefs.init_st [] [] false.
(* the loop of ExDefs.ex_exec without the execution: (loc, cmd, arg) of every command of the line *)
Fixpoint parse_line (fuel : nat) (ln : bytes) : list (bytes * bytes * bytes) :=
  match fuel with
  | O => []
  | S f =>
    match ln with
    | [] => []
    | _ => let '(loc, cmd, arg, ln4) := parse_step st0 ln in (loc, cmd, arg) :: parse_line f ln4
    end
  end.

Lemma exec_loop_bridge_len s : nonul s -> forall fuel fuel2 i ps, (i <= length s)%nat ->
  CapDefs.exec_loop fuel s i = CapDefs.Ok ps -> Forall (fun p => supported (CapDefs.p_cmd p) = true) ps ->
  (length ps <= fuel2)%nat ->
  parse_line fuel2 (skipn i s) = map (fun p => (CapDefs.p_loc p, CapDefs.p_cmd p, CapDefs.p_arg p)) ps.
Proof.
  intros Hn. induction fuel as [|fuel IH]; intros fuel2 i ps Hi E Hs Hl; [discriminate|].
  cbn [CapDefs.exec_loop] in E. rewrite (rd_sk s i Hi) in E. cbn [CapDefs.bind] in E.
  destruct (skipn i s) as [|c t] eqn:H; cbn [hd0] in E.
  { cbn [N.eqb] in E. injection E as <-. destruct fuel2; reflexivity. }
  rewrite (hd_nz s Hn _ _ _ H) in E.
  apply bind_Ok in E as (p & Ep & E). apply bind_Ok in E as (r & Er & E). injection E as <-.
  inversion Hs as [|? ? Hs1 Hs2]; subst. cbn [length] in Hl. destruct fuel2 as [|fuel2]; [lia|].
  destruct (parse_step_bridge s i p st0 Hn Hi Ep Hs1) as (A & B & C). rewrite H in A.
  cbn [parse_line map]. rewrite A. f_equal. apply (IH fuel2 _ r C Er Hs2). lia.
Qed.

Lemma parse_one_progress s i p : nonul s -> (i < length s)%nat -> CapDefs.parse_one s i = CapDefs.Ok p ->
  (i < CapDefs.p_next p)%nat /\ (CapDefs.p_next p <= length s)%nat.
Proof.
  intros Hn Hi E. unfold CapDefs.parse_one in E. cbv zeta in E.
  apply bind_Ok in E as ([i1 wl] & El & E). apply bind_Ok in E as ([i2 wc] & Ec & E). cbn [fst snd] in *.
  apply bind_Ok in E as ([i3 wa] & Ea & E). apply bind_Ok in E as (j & Et & E). cbn [fst snd] in *.
  injection E as <-. cbn [CapDefs.p_next].
  destruct (ex_loc_bridge _ _ _ _ _ Hn (Nat.lt_le_incl _ _ Hi) El) as (A1 & B1 & C1).
  destruct (ex_cmd_bridge _ _ _ _ _ Hn C1 Ec) as (A2 & B2 & C2).
  pose proof (excmd_of_nonul (CapDefs.wstr wc)) as Hne.
  destruct (ex_arg_bridge_prog s Hn _ _ _ _ _ Hne C2 Ea) as (A3 & B3 & C3 & D3).
  destruct (ex_txt_bridge _ _ _ _ st0 Hn Hne C3 Et) as (A4 & B4 & C4).
  split; [|exact C4]. destruct (Nat.eq_dec i2 (length s)); lia.
Qed.

Lemma exec_loop_len s : nonul s -> forall fuel i ps, (i <= length s)%nat ->
  CapDefs.exec_loop fuel s i = CapDefs.Ok ps -> (length ps <= length s - i)%nat.
Proof.
  intros Hn. induction fuel as [|fuel IH]; intros i ps Hi E; [discriminate|].
  cbn [CapDefs.exec_loop] in E. rewrite (rd_sk s i Hi) in E. cbn [CapDefs.bind] in E.
  destruct (skipn i s) as [|c t] eqn:H; cbn [hd0] in E.
  { cbn [N.eqb] in E. injection E as <-. cbn [length]. lia. }
  rewrite (hd_nz s Hn _ _ _ H) in E. destruct (skipn_step s i c t H) as [_ L].
  apply bind_Ok in E as (p & Ep & E). apply bind_Ok in E as (r & Er & E). injection E as <-.
  destruct (parse_one_progress s i p Hn L Ep) as [P1 P2].
  pose proof (IH _ _ P2 Er). cbn [length]. lia.
Qed.

Theorem exec_loop_bridge s fuel fuel2 i ps : nonul s -> (i <= length s)%nat ->
  CapDefs.exec_loop fuel s i = CapDefs.Ok ps -> Forall (fun p => supported (CapDefs.p_cmd p) = true) ps ->
  (length s - i < fuel2)%nat ->
  parse_line fuel2 (skipn i s) = map (fun p => (CapDefs.p_loc p, CapDefs.p_cmd p, CapDefs.p_arg p)) ps.
Proof.
  intros Hn Hi E Hs Hf. apply (exec_loop_bridge_len s Hn fuel fuel2 i ps Hi E Hs).
  pose proof (exec_loop_len s Hn fuel i ps Hi E). lia.
Qed.

Print Assumptions ex_loc_bridge.
Print Assumptions ex_cmd_bridge.
Print Assumptions ex_arg_bridge.
Print Assumptions ex_txt_bridge.
Print Assumptions ex_idx_bridge.
Print Assumptions parse_one_bridge.
Print Assumptions exec_loop_bridge.
