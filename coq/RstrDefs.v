(* RstrDefs.v -- C12: executable model of rstr.c (rstr_simple, rstr_make, isword, match_case,
   rstr_find) and the executable declarative spec of what a simple pattern
   [^][\<]literal[\>][$] means on a newline-terminated line.  No proofs in this file. *)
From Coq Require Import List NArith ZArith Bool.
From NV Require Import Bytes GenConsts.
Import ListNotations.
Local Open Scope N_scope.

(* ------------------------------------------------------------------------------------------ *)
(* byte classes of <ctype.h> in the C locale, as rstr.c uses them *)
Definition isalnum (c : N) : bool :=
  ((48 <=? c) && (c <=? 57)) || ((65 <=? c) && (c <=? 90)) || ((97 <=? c) && (c <=? 122)).
(* static int isword(char *s): isalnum(c) || c == '_' || c > 127 *)
Definition isword (c : N) : bool := isalnum c || (c =? 95) || (127 <? c).
Definition tolower (c : N) : N := if (65 <=? c) && (c <=? 90) then c + 32 else c.

Definition in_set (c : N) (set : list N) : bool := existsb (N.eqb c) set.

(* ------------------------------------------------------------------------------------------ *)
(* struct rstr, the simple-pattern half (rs->rs == NULL) *)
Record rstr := mk_rstr {
  r_str : bytes;          (* str *)
  r_icase : bool;         (* icase *)
  r_lbeg : bool; r_lend : bool;   (* match line beg/end *)
  r_wbeg : bool; r_wend : bool    (* match word beg/end *)
}.

(* while (re[0] && !strchr(META, re[0])) re++;   -- the pattern is a list of non-NUL bytes, its
   end is the terminator *)
Fixpoint span_lit (re : bytes) : bytes * bytes :=
  match re with
  | [] => ([], [])
  | c :: re' => if in_set c rstr_meta then ([], re)
                else let (l, r) := span_lit re' in (c :: l, r)
  end.

(* re[0] == pre[0] && re[1] == pre[1] ... (the && chain stops at the terminator) *)
Fixpoint starts (pre re : bytes) : bool :=
  match pre with
  | [] => true
  | x :: pre' => match re with [] => false | y :: re' => (x =? y) && starts pre' re' end
  end.

(* flag = <prefix test>; if (flag) re += strlen(pre); *)
Definition strip (pre re : bytes) : bool * bytes :=
  if starts pre re then (true, skipn (length pre) re) else (false, re).

(* static int rstr_simple(struct rstr *rs, char *re): Some = returns 0 (simple), None = returns 1 *)
Definition rstr_simple (icase : bool) (re : bytes) : option rstr :=
  let (lbeg, re1) := strip [94] re in                  (* re[0] == '^' *)
  let (wbeg, re2) := strip [92; 60] re1 in             (* re[0] == '\\' && re[1] == '<' *)
  let (lit, re3) := span_lit re2 in
  let (wend, re4) := strip [92; 62] re3 in             (* re[0] == '\\' && re[1] == '>' *)
  let (lend, re5) := strip [36] re4 in                 (* re[0] == '$' *)
  match re5 with
  | [] => Some (mk_rstr lit icase lbeg lend wbeg wend)   (* !re[0] *)
  | _ => None
  end.

(* struct rstr *rstr_make(char *re, int flg): which path a pattern takes *)
Inductive rkind := Simple (r : rstr) | General.
Definition rstr_make (re : bytes) (icase : bool) : rkind :=
  match rstr_simple icase re with Some r => Simple r | None => General end.

(* ------------------------------------------------------------------------------------------ *)
(* checked reads: s[i] for 0 <= i <= strlen(s) (the terminator reads as 0), anything else is
   out of bounds *)
Definition rd (s : bytes) (i : Z) : option N :=
  if ((i <? 0) || (Z.of_nat (length s) <? i))%Z then None else Some (nth (Z.to_nat i) s 0).

(* static int match_case(char *s, char *r, int icase); true = returns 0 (r is a prefix of s) *)
Fixpoint match_case (s r : bytes) (icase : bool) {struct r} : bool :=
  match r with
  | [] => true                                   (* *r == 0: return *r *)
  | rc :: r' =>
    match s with
    | [] => false                                (* *s == 0: return *r, non-zero *)
    | sc :: s' =>
      if (if icase then negb (tolower sc =? tolower rc) else negb (sc =? rc)) then false
      else match_case s' r' icase
    end
  end.

Inductive res := Found (so eo : Z) | NotFound | OOB.

(* rs->wbeg && ((r > s && isword(r - 1)) || !isword(r))    -- Some true = continue *)
Definition wbeg_skip (s : bytes) (r : Z) : option bool :=
  let cur := match rd s r with None => None | Some c => Some (negb (isword c)) end in
  if (0 <? r)%Z then
    match rd s (r - 1) with
    | None => None
    | Some p => if isword p then Some true else cur
    end
  else cur.

(* rs->wend && r[len] && (r + len == s || !isword(r + len - 1) || isword(r + len)) *)
Definition wend_skip (s : bytes) (r len : Z) : option bool :=
  match rd s (r + len) with
  | None => None
  | Some c =>
    if c =? 0 then Some false
    else if (r + len =? 0)%Z then Some true
    else match rd s (r + len - 1) with
         | None => None
         | Some p => if negb (isword p) then Some true else Some (isword c)
         end
  end.

(* one iteration of  for (r = beg; r <= end; r++)  : None = continue *)
Definition find_at (rs : rstr) (s : bytes) (r : Z) : option res :=
  let len := Z.of_nat (length (r_str rs)) in
  match (if r_wbeg rs then wbeg_skip s r else Some false) with
  | None => Some OOB
  | Some true => None
  | Some false =>
    match (if r_wend rs then wend_skip s r len else Some false) with
    | None => Some OOB
    | Some true => None
    | Some false =>
      match rd s r with
      | None => Some OOB
      | Some _ => if match_case (skipn (Z.to_nat r) s) (r_str rs) (r_icase rs)
                  then Some (Found r (r + len)) else None
      end
    end
  end.

Fixpoint scan (rs : rstr) (s : bytes) (r : Z) (k : nat) : res :=
  match k with
  | O => NotFound
  | S k' => match find_at rs s r with Some x => x | None => scan rs s (r + 1) k' end
  end.

(* int rstr_find(struct rstr *rs, char *s, int n, int *grps, int flg), simple path *)
Definition rstr_find (rs : rstr) (s : bytes) (notbol noteol : bool) : res :=
  if r_lbeg rs && notbol then NotFound else                 (* noteol is not consulted: $ is the position before the newline *)
  let len := Z.of_nat (length (r_str rs)) in
  let e := (Z.of_nat (length s) - len - 1)%Z in        (* end = s + strlen(s) - len - 1 *)
  if (e <? 0)%Z then NotFound else                      (* if (end < beg) return -1 *)
  let b := if r_lend rs then e else 0%Z in              (* if (rs->lend) beg = end *)
  let e' := if r_lbeg rs then 0%Z else e in             (* if (rs->lbeg) end = s *)
  scan rs s b (Z.to_nat (e' - b + 1)).

(* grps[] as written for n groups: group 0 = the match, groups 1..n-1 = -1 *)
Definition rstr_groups (n : nat) (so eo : Z) : list (Z * Z) :=
  match n with O => [] | S m => (so, eo) :: repeat ((-1)%Z, (-1)%Z) m end.

(* ------------------------------------------------------------------------------------------ *)
(* Spec.  A simple pattern is  [^][\<]literal[\>][$] ; on the line  content ++ "\n"  it matches at
   byte position i (0 <= i <= |content|) iff the literal occurs there (ASCII letters folded under
   ignore-case), ^ holds only at the real line start and not under NOTBOL, \< and \> look at
   the real neighbouring bytes (word bytes as rstr.c's isword), $ holds right before the
   newline.  The answer is the leftmost such position. *)
Record spat := mk_spat { p_lbeg : bool; p_wbeg : bool; p_lit : bytes; p_wend : bool; p_lend : bool }.

Definition spat_string (p : spat) : bytes :=
  (if p_lbeg p then [94] else []) ++ (if p_wbeg p then [92; 60] else []) ++ p_lit p ++
  (if p_wend p then [92; 62] else []) ++ (if p_lend p then [36] else []).

Definition spat_of (r : rstr) : spat := mk_spat (r_lbeg r) (r_wbeg r) (r_str r) (r_wend r) (r_lend r).

Definition fold_case (icase : bool) (c : N) : N := if icase then tolower c else c.
Fixpoint eqb_bytes (a b : bytes) : bool :=
  match a, b with
  | [], [] => true
  | x :: a', y :: b' => (x =? y) && eqb_bytes a' b'
  | _, _ => false
  end.
Definition lit_at (icase : bool) (lit L : bytes) (i : nat) : bool :=
  eqb_bytes (map (fold_case icase) (firstn (length lit) (skipn i L))) (map (fold_case icase) lit).

Definition sat_b (p : spat) (icase notbol : bool) (L : bytes) (i : nat) : bool :=
  let j := (i + length (p_lit p))%nat in
  lit_at icase (p_lit p) L i
  && implb (p_lbeg p) ((i =? 0)%nat && negb notbol)
  && implb (p_wbeg p) (((i =? 0)%nat || negb (isword (nth (i - 1) L 0))) && isword (nth i L 0))
  && implb (p_wend p) (negb (j =? 0)%nat && isword (nth (j - 1) L 0) && negb (isword (nth j L 0)))
  && implb (p_lend p) (nth j L 0 =? 10).

Definition spec_find (p : spat) (icase notbol : bool) (content : bytes) : option nat :=
  find (sat_b p icase notbol (content ++ [10])) (seq 0 (S (length content))).

Definition spec_res (p : spat) (icase notbol : bool) (content : bytes) : res :=
  match spec_find p icase notbol content with
  | Some i => Found (Z.of_nat i) (Z.of_nat (i + length (p_lit p)))
  | None => NotFound
  end.
