(* TrLbufBase.v -- a `struct lbuf` of /repo/lbuf.c as a block of cells (the layout tools/c2clite.py uses: fields in
   declaration order, one cell per scalar, arrays inline): mark[32] 0..31, mark_off[32] 32..63, ln 64, ln_glob 65, ln_n 66,
   ln_sz 67, useq 68, hist 69, hist_sz 70, hist_n 71, hist_u 72, useq_zero 73, useq_last 74; struct lopt is 9 cells.
   Loads and stores of one field.  No theorem about any function here: TrLbuf.v (C02), TrLbufGlob.v (C15),
   TrLbufLines.v (C01), TrLbufMarks.v (C06) import this file and not each other. *)
From Coq Require Import List ZArith NArith Bool Lia.
From NV Require Import Bytes CLite CLiteProps GenCFuncs CLiteTac.
Import ListNotations.
Local Open Scope Z_scope.

Definition i32 (z : Z) : Prop := -2147483648 <= z <= 2147483647.

(* ------------------------------------------------------------------ a struct in memory *)
Lemma fld_load m b (blk : block) i v z : nth_error m b = Some blk -> nth_error blk i = Some v -> z = Z.of_nat i ->
  load m b z = Ok v.
Proof.
  intros Hm Hi ->. unfold load. rewrite Hm. destruct (Z.ltb_spec (Z.of_nat i) 0); [lia|]. rewrite Nat2Z.id, Hi. reflexivity.
Qed.
Lemma fld_store m b (blk : block) i v z : nth_error m b = Some blk -> (i < length blk)%nat -> z = Z.of_nat i ->
  store m b z v = Ok (upd m b (upd blk i v)).
Proof. intros Hm Hi ->. rewrite (store_ok m b blk) by (try assumption; lia). rewrite Nat2Z.id. reflexivity. Qed.

(* struct lbuf (lbuf.c) and struct lopt as cells *)
Definition LBUF_CELLS : nat := 75.
Definition LOPT_CELLS : nat := 9.
Definition L_ln : nat := 64.       Definition L_ln_glob : nat := 65.  Definition L_ln_n : nat := 66.
Definition L_ln_sz : nat := 67.    Definition L_useq : nat := 68.     Definition L_hist : nat := 69.
Definition L_hist_sz : nat := 70.  Definition L_hist_n : nat := 71.   Definition L_hist_u : nat := 72.
Definition L_useq_zero : nat := 73. Definition L_useq_last : nat := 74.
Definition O_seq : nat := 6.       (* struct lopt: ins 0, del 1, pos 2, n_ins 3, n_del 4, pos_off 5, seq 6, mark 7, mark_off 8 *)

Ltac xfld Hb H := match goal with |- context [load ?m ?b ?z] => rewrite (fld_load m b _ _ _ z Hb H eq_refl) end; xstep.
Ltac fld_len := match goal with Hl : length ?b = LBUF_CELLS |- context [length ?b] => rewrite Hl end;
  unfold LBUF_CELLS, L_ln, L_ln_glob, L_ln_n, L_ln_sz, L_useq, L_hist, L_hist_sz, L_hist_n, L_hist_u, L_useq_zero, L_useq_last; lia.
Ltac fld_ne := unfold L_ln, L_ln_glob, L_ln_n, L_ln_sz, L_useq, L_hist, L_hist_sz, L_hist_n, L_hist_u, L_useq_zero, L_useq_last; lia.
Ltac fld_after :=
  first [ rewrite nth_error_upd_same by fld_len; reflexivity
        | rewrite nth_error_upd_other by (first [fld_len | fld_ne]); assumption ].

Lemma fld_store_same m b (blk : block) i v z : nth_error m b = Some blk -> nth_error blk i = Some v -> z = Z.of_nat i -> store m b z v = Ok m.
Proof.
  intros Hm Hi Hz. rewrite (fld_store m b blk i v z Hm) by (try assumption; apply nth_error_Some; congruence).
  f_equal. rewrite (upd_self blk i v Hi). apply upd_self. exact Hm.
Qed.
Ltac xpos := match goal with |- context [0 + 1 * Z.of_nat ?p] => replace (0 + 1 * Z.of_nat p) with (Z.of_nat p) by lia end.
