(* Extract_ren.v -- extraction of the ren.c / dir.c / shaping models to OCaml (ExtrOcamlBasic only). *)
From Coq Require Import List NArith ZArith Extraction ExtrOcamlBasic.
From NV Require Import Bytes UcDefs GenUcTables GenConf GenConsts DirDefs RenDefs RenOrdDefs ShapeDefs.
Definition all_types : nat * N * Z := (0%nat, 0%N, 0%Z).
Extraction "ren_model.ml" all_types uc_chop uc_slen uc_code uc_cput
  tfind find_b mem uc_isdw uc_iszw uc_wid uc_isbell uc_iscomb uc_acomb ren_placeholder ren_cwid
  ren_position ren_order ren_wid pos_next pos_prev ren_pos ren_off ren_cursor ren_noeol ren_next chr_at
  dir_reverse dir_fix dir_match dir_context dir_reorder dr_of raw_of matcher_ok
  find_achar_o find_achar lookup_achar can_join uc_cshape uc_r2l uc_shape ren_translate
  dwchars zwchars bchars achars dirmarks pat_nullable class_bounds.
