(* TrViCol.v -- the column / offset helpers of vi.c (vi_col2off, vi_off2col, vi_nextoff, vi_nextcol: the machinery of h l | j k)
   on the translated C text (tools/c2clite.d/89_vimot.list), against the column functions of MotDefs.v (property C07).
   They call lbuf_get (TrMot.tr_lbuf_get) and ren_off / ren_pos / ren_next of ren.c, which TrRenPos2.v proves equal to the
   model RenDefs.v (property C17) on every line that takes the plain loop of ren_position (RenDefs.use_reorder = false).
   Part A ties the two hand-written models together: on a valid UTF-8 line s = chars cs that is not reordered, the columns
   MotDefs computes on the character view chop s are the columns RenDefs computes on the bytes (`positions_fast`, `ren_off_bridge`,
   `ren_pos_bridge`, `ren_next_bridge`).  Part B runs the C text. *)
From Coq Require Import List ZArith NArith Bool Lia.
From NV Require Import Bytes UcDefs UcSpec UcProps UcSegProps GenUcTables GenConf GenConsts RenDefs RenProps.
From NV Require MotDefs.
Import ListNotations.
Local Open Scope Z_scope.

(* ------------------------------------------------------------------ A. MotDefs' columns = RenDefs' columns *)
Lemma in_tab_mem c t : MotDefs.in_tab c t = mem t c.
Proof. unfold MotDefs.in_tab, mem. induction t as [|[a b] t IH]; [reflexivity|]. cbn [existsb fst snd]. rewrite IH. reflexivity. Qed.
Lemma mot_iszw c : MotDefs.uc_iszw c = uc_iszw c.
Proof.
  unfold MotDefs.uc_iszw. rewrite in_tab_mem, uc_iszw_table. destruct (zw_min <=? c) eqn:E; [reflexivity|]. cbn [andb]. symmetry.
  apply below_first; [apply sorted_b_sound, zwchars_sorted|]. pose proof zw_min_first. lia.
Qed.
Lemma mot_isdw c : MotDefs.uc_isdw c = uc_isdw c.
Proof.
  unfold MotDefs.uc_isdw. rewrite in_tab_mem, uc_isdw_table. destruct (dw_min <=? c) eqn:E; [reflexivity|]. cbn [andb]. symmetry.
  apply below_first; [apply sorted_b_sound, dwchars_sorted|]. pose proof dw_min_first. lia.
Qed.
Lemma zN_eqb a b : (Z.of_N a =? Z.of_N b) = (a =? b)%N.
Proof. destruct (N.eqb_spec a b) as [->|E]; [apply Z.eqb_refl|]. apply Z.eqb_neq. lia. Qed.
Lemma zN_leb a b : (Z.of_N a <=? Z.of_N b) = (a <=? b)%N.
Proof. destruct (N.leb_spec a b); [apply Z.leb_le|apply Z.leb_gt]; lia. Qed.
Lemma zN_ltb a b : (Z.of_N a <? Z.of_N b) = (a <? b)%N.
Proof. destruct (N.ltb_spec a b); [apply Z.ltb_lt|apply Z.ltb_ge]; lia. Qed.
(* a character c of the model and the byte suffix s the C pointer sees: same first byte, same code point *)
Definition same_chr (c : MotDefs.chr) (s : bytes) : Prop := hd0 c = hd0 s /\ uc_code c = uc_code s.
Lemma mot_wid c s : same_chr c s -> MotDefs.uc_wid c = uc_wid s.
Proof. intros [_ H]. unfold MotDefs.uc_wid, uc_wid, MotDefs.code. rewrite H, mot_iszw, mot_isdw. reflexivity. Qed.
Lemma mot_isbell c s : same_chr c s -> MotDefs.uc_isbell c = uc_isbell s.
Proof.
  intros [H0 H]. unfold MotDefs.uc_isbell, uc_isbell, MotDefs.b0, MotDefs.code, plain_ascii. rewrite H0, H.
  rewrite mot_iszw, in_tab_mem. rewrite (find_b_is_membership bchars) by (apply sorted_b_sound, bchars_sorted).
  change 32 with (Z.of_N 32). change 9 with (Z.of_N 9). change 10 with (Z.of_N 10). change 127 with (Z.of_N 127).
  rewrite zN_eqb, zN_eqb, zN_eqb, zN_leb, zN_ltb.
  reflexivity.
Qed.
Lemma ph_bits_same : MotDefs.ph_bits = ph_bits.
Proof. reflexivity. Qed.
Lemma mot_phw c s : same_chr c s ->
  MotDefs.ren_placeholder_wid c = match ren_placeholder s with (Some _, w) => Some w | (None, _) => None end.
Proof.
  intro H. pose proof H as [H0 H1]. unfold MotDefs.ren_placeholder_wid, ren_placeholder, MotDefs.b0, MotDefs.code.
  rewrite ph_bits_same, H0, H1, (mot_isbell c s H).
  destruct (N.land (hd0 s) ph_bits =? ph_bits)%N; [|destruct (uc_isbell s); reflexivity].
  generalize placeholders. intro ps. induction ps as [|[[src d] w] ps IH]; [cbn [find ph_lookup]; destruct (uc_isbell s); reflexivity|].
  cbn [find ph_lookup fst snd]. destruct ((hd0 src =? hd0 s)%N && (uc_code src =? uc_code s)%N); [reflexivity|exact IH].
Qed.
Lemma mot_cwid c s pos : same_chr c s -> MotDefs.ren_cwid c pos = ren_cwid s pos.
Proof.
  intro H. pose proof H as [H0 H1]. unfold MotDefs.ren_cwid, ren_cwid, MotDefs.b0. rewrite H0.
  destruct (hd0 s =? 9)%N; [destruct tab_consts as [-> ->]; reflexivity|].
  rewrite (mot_phw c s H). destruct (ren_placeholder s) as [[dd|] w]; [reflexivity|apply mot_wid; exact H].
Qed.

Lemma same_chr_encode c rest : scalar c -> same_chr (encode c) (encode c ++ rest).
Proof.
  intro Hc. split.
  - pose proof (encode_nonempty c Hc). destruct (encode c); [cbn in *; lia|reflexivity].
  - destruct (uc_len_code_encode c rest Hc) as [_ E]. destruct (uc_len_code_encode c [] Hc) as [_ E0]. rewrite app_nil_r in E0. congruence.
Qed.
(* the plain loop of ren_position on the bytes = the column list of the model on the characters *)
Lemma positions_fast cs : Forall scalar cs -> forall cpos,
  MotDefs.ren_position (map encode cs) cpos = ren_fast (length cs) (chars cs) cpos.
Proof.
  induction 1 as [|c cs Hc Hcs IH]; intro cpos; [reflexivity|].
  cbn [map MotDefs.ren_position length ren_fast]. rewrite chars_cons.
  rewrite (mot_cwid (encode c) (encode c ++ chars cs) cpos (same_chr_encode c _ Hc)).
  destruct (uc_len_code_encode c (chars cs) Hc) as [E _]. rewrite E, skipn_app_exact. f_equal. apply IH.
Qed.

Lemma fold_prev (l : list Z) p (cur : bool) : forall ret,
  fold_left (fun (ret : option Z) (x : Z) => if (x + (if cur then 0 else 1) <=? p) && (match ret with None => true | Some y => y <? x end) then Some x else ret) l ret
  = pos_prev_f l p cur ret.
Proof. induction l as [|x l IH]; intro ret; [reflexivity|]. cbn [fold_left pos_prev_f]. apply IH. Qed.
Lemma fold_next (l : list Z) p (cur : bool) : forall ret,
  fold_left (fun (ret : option Z) (x : Z) => if (x - (if cur then 0 else 1) >=? p) && (match ret with None => true | Some y => x <? y end) then Some x else ret) l ret
  = pos_next_f l p cur ret.
Proof. induction l as [|x l IH]; intro ret; [reflexivity|]. cbn [fold_left pos_next_f]. rewrite Z.geb_leb. apply IH. Qed.
Lemma mot_pos_prev pos n p cur : MotDefs.pos_prev (firstn n pos) p cur = pos_prev pos n p cur.
Proof. unfold MotDefs.pos_prev, pos_prev, optz. rewrite fold_prev. reflexivity. Qed.
Lemma mot_pos_next pos n p cur : MotDefs.pos_next (firstn n pos) p cur = pos_next pos n p cur.
Proof. unfold MotDefs.pos_next, pos_next, optz. rewrite fold_next. reflexivity. Qed.
Definition oz (o : option nat) : Z := match o with Some k => Z.of_nat k | None => -1 end.
Lemma mot_last_index v : forall l i off, MotDefs.last_index l v (Z.of_nat i) (oz off) = oz (last_idx l v i off).
Proof.
  induction l as [|x l IH]; intros i off; [reflexivity|]. cbn [MotDefs.last_index last_idx].
  replace (Z.of_nat i + 1) with (Z.of_nat (S i)) by lia.
  replace (if x =? v then Z.of_nat i else oz off) with (oz (if x =? v then Some i else off)) by (destruct (x =? v); reflexivity).
  apply IH.
Qed.

From NV Require TrMot TrViMot.
Section Bridge.
  Variables (dr : bytes -> list nat -> list nat) (o : ropts) (cs : list N).
  Hypothesis Hcs : Forall scalar cs.
  Let s := chars cs.
  Let l : MotDefs.line := map encode cs.
  Hypothesis Hfast : use_reorder o s = false.
  Let n := length cs.
  Let pos := ren_position dr o s.

  Lemma bridge_slen : uc_slen s = n.
  Proof. apply uc_slen_chars. exact Hcs. Qed.
  Lemma bridge_pos : pos = ren_fast n s 0.
  Proof. unfold pos, ren_position. rewrite Hfast, bridge_slen. reflexivity. Qed.
  Lemma bridge_positions : MotDefs.positions l = firstn n pos.
  Proof. unfold MotDefs.positions, l. rewrite map_length, (positions_fast cs Hcs 0), bridge_pos. reflexivity. Qed.
  Lemma bridge_chop : MotDefs.chop s = l.
  Proof. apply TrViMot.chop_chars. exact Hcs. Qed.

  Lemma ren_off_bridge p : MotDefs.ren_off l p = Z.of_nat (ren_off dr o s p).
  Proof.
    unfold MotDefs.ren_off, ren_off, ren_off_pos. fold pos. rewrite bridge_slen, bridge_positions, mot_pos_prev. fold n.
    set (X := pos_prev pos n p true).
    replace (MotDefs.last_index (firstn n pos) X 0 (-1)) with (oz (last_idx (firstn n pos) X 0 None))
      by (symmetry; apply (mot_last_index X (firstn n pos) 0%nat None)).
    destruct (last_idx (firstn n pos) X 0 None) as [k|]; cbn [oz].
    - destruct (Z.leb_spec 0 (Z.of_nat k)); [reflexivity|lia].
    - reflexivity.
  Qed.
  Lemma nth_firstn_lt' (x : list Z) k j : (k < j)%nat -> nth k (firstn j x) 0 = nth k x 0.
  Proof.
    revert x j; induction k as [|k IH]; intros x j H; (destruct j as [|j]; [lia|]); destruct x as [|a x]; try reflexivity. cbn [firstn nth]. apply IH. lia.
  Qed.
  Lemma ren_pos_bridge off : 0 <= off -> MotDefs.ren_pos l off = ren_pos dr o s off.
  Proof.
    intro H. unfold MotDefs.ren_pos, ren_pos. fold pos. rewrite bridge_slen, bridge_positions. unfold MotDefs.slen, l. rewrite map_length. fold n.
    destruct (Z.leb_spec 0 off); [|lia]. cbn [andb]. destruct (Z.ltb_spec off (Z.of_nat n)); [|reflexivity].
    apply nth_firstn_lt'. lia.
  Qed.
  Lemma suffix_b0 k : hd0 (chr_suffix s k) = MotDefs.b0 (MotDefs.chr_at l (Z.of_nat k)).
  Proof.
    unfold chr_suffix, MotDefs.b0. pose proof (TrMot.uc_chr_chop s (Z.of_nat k) (chars_nonul cs Hcs)) as H. rewrite bridge_chop in H.
    destruct (uc_chr s (Z.of_nat k)) as [q|]; [|rewrite H; reflexivity].
    destruct H as [_ H]. rewrite <- H. rewrite TrMot.hd0_hd_chr. reflexivity.
  Qed.
  Lemma ren_next_bridge p dir : MotDefs.ren_next l p dir = ren_next dr o s p dir.
  Proof.
    unfold MotDefs.ren_next, ren_next. fold pos. rewrite bridge_slen. fold n.
    rewrite bridge_positions, !mot_pos_prev, mot_pos_next.
    set (p2 := if 0 <=? dir then pos_next pos n (pos_prev pos n p true) false else pos_prev pos n (pos_prev pos n p true) false).
    rewrite ren_off_bridge, <- suffix_b0. reflexivity.
  Qed.
End Bridge.

(* ------------------------------------------------------------------ B. the C text *)
From NV Require Import CLite CLiteProps GenCFuncs CLiteTac TrLbufBase TrUc TrUcTab TrRen TrRen2 TrRenPos TrRenPos2.
Import TrMot.

(* valid UTF-8 has no truncated sequence *)
Lemma no_trunc_chars cs : Forall scalar cs -> no_trunc (chars cs).
Proof.
  induction 1 as [|c cs Hc Hcs IH]; intros q Hq; [cbn in Hq; lia|].
  rewrite chars_cons in *. rewrite app_length in *.
  destruct (encode_decomp c Hc) as (l & t & E & Hl & Ht & Hl0 & _ & _ & Ht256).
  destruct (Nat.lt_ge_cases q (length (encode c))) as [L|L].
  - destruct q as [|q].
    + destruct (uc_len_code_encode c (chars cs) Hc) as [E1 _]. unfold uc_len in E1.
      replace (nthb (encode c ++ chars cs) 0) with (hd0 (encode c ++ chars cs)) by (destruct (encode c ++ chars cs); reflexivity).
      rewrite E1. lia.
    + rewrite nthb_app_l by exact L. rewrite E in *. cbn [length] in L. unfold nthb. cbn [nth].
      assert (Hin : In (nth q t 0%N) t) by (apply nth_In; lia).
      unfold all_cont in Ht. rewrite Forall_forall in Ht, Ht256. specialize (Ht _ Hin). specialize (Ht256 _ Hin).
      pose proof (cont_lt192 (nth q t 0%N) ltac:(lia)) as Hx. rewrite Ht in Hx. cbn in Hx.
      pose proof (nolead_len (nth q t 0%N) ltac:(lia)) as Hy. rewrite Hx in Hy. cbn [andb] in Hy. apply Nat.leb_gt in Hy. cbn [length]. lia.
  - specialize (IH (q - length (encode c))%nat ltac:(lia)).
    rewrite nthb_app_r by exact L. lia.
Qed.

(* what the column code needs of the memory: the read-only tables of ren.c / uc.c, the static of ren_placeholder, the options *)
Definition col_mem (o : ropts) (m : mem) : Prop :=
  ro_at m /\ bits_ok m /\ cell_at m G_xlim (xlim o) /\ cell_at m G_xorder (xorder o) /\ int_ok (xlim o) /\ int_ok (xorder o).
(* every line: valid UTF-8, laid out by the plain loop of ren_position (not reordered), 8 columns per character fit an int *)
Definition col_line (o : ropts) (s : bytes) : Prop := valid s /\ Z.of_nat (length s) <= 268435454 /\ use_reorder o s = false.
Definition col_lines (o : ropts) (lines : list bytes) : Prop := Forall (col_line o) lines.
Lemma nthl_col o lines i : col_lines o lines -> (i < length lines)%nat -> col_line o (nthl lines i).
Proof. intros H Hi. unfold col_lines in H. rewrite Forall_forall in H. apply H. apply nth_In. exact Hi. Qed.
Lemma col_mem_frame o m M : col_mem o m -> ren_frame m M -> col_mem o M.
Proof.
  intros (A & B & C & D & E & F) H. split; [apply (ren_frame_ro m); assumption|]. split; [apply (ren_frame_bits m); exact H|].
  split; [apply (ren_frame_cell m); try assumption; apply xlim_ne|]. split; [apply (ren_frame_cell m); try assumption; apply xorder_ne|]. split; assumption.
Qed.
Lemma col_fast o m b s : col_mem o m -> col_line o s -> str_at m b s -> fast_mem o m b s /\ fast_line o s.
Proof.
  intros (A & B & C & D & E & F) ((cs & Hcs & ->) & L & U) Hs. split; [exact (conj A (conj B (conj Hs (conj C D))))|].
  split; [apply chars_nonul; exact Hcs|]. split; [apply no_trunc_chars; exact Hcs|]. exact (conj L (conj E (conj F U))).
Qed.
(* the buffer survives a call of the column code *)
Lemma lbuf_at_frame m M lb bln lbs lines : lbuf_at m lb bln lbs lines -> ren_frame m M -> ~ In G_bits (lb :: bln :: lbs) ->
  lbuf_at M lb bln lbs lines.
Proof.
  intros R [_ [O _]] N. apply (lbuf_at_other m); [exact R|]. intros k Hk. apply O; [apply (TrViMot.lbuf_at_lt _ _ _ _ _ _ R Hk)|].
  intro E. subst k. contradiction.
Qed.

Section ColC.
  Variables (o : ropts) (lb bln : nat) (lbs : list nat) (lines : list bytes).
  Let b := map MotDefs.chop lines.
  Hypothesis Hsm : lines_small lines.
  Hypothesis Hcl : col_lines o lines.
  Let dr0 : bytes -> list nat -> list nat := fun _ ord => ord.

  (* ren_off / ren_pos / ren_next on line i of the buffer return the model's value on the character view *)
  Lemma line_off m i p d fuel : lbuf_at m lb bln lbs lines -> col_mem o m -> (i < length lines)%nat ->
    (maxlen lines < fuel)%nat -> (nph < fuel)%nat -> (fuel_tabs <= fuel)%nat ->
    exists M, callf cprog fuel (S (S (S (S (S (S (S d))))))) F_ren_off [VPtr (nth i lbs O) 0; VInt p] m
              = Ok (VInt (MotDefs.ren_off (MotDefs.chop (nthl lines i)) p), M) /\ ren_frame m M /\
              0 <= MotDefs.ren_off (MotDefs.chop (nthl lines i)) p <= 2147483647.
  Proof.
    intros R Hm Hi Hf HF1 HF2. pose proof (nthl_col o lines i Hcl Hi) as Hline. pose proof (la_str _ _ _ _ _ R i Hi) as Hs.
    destruct (col_fast o m _ _ Hm Hline Hs) as [Fm Fl]. pose proof (maxlen_ge lines i).
    destruct (tr_ren_off_fast dr0 o m _ _ p d fuel Fm Fl ltac:(lia) HF1 HF2) as [M [E Fr]].
    destruct Hline as ((cs & Hcs & Es) & L & U). rewrite Es in *.
    exists M. rewrite (TrViMot.chop_chars cs Hcs), (ren_off_bridge dr0 o cs Hcs U p). split; [exact E|]. split; [exact Fr|].
    split; [lia|]. unfold ren_off, ren_off_pos.
    assert (Hb : forall l v i0 off k, last_idx l v i0 off = Some k -> (k < i0 + length l)%nat \/ off = Some k).
    { clear. induction l as [|x l IH]; intros v i0 off k H; [right; exact H|]. cbn [last_idx length] in *.
      destruct (IH _ _ _ _ H) as [A|A]; [left; lia|]. destruct (x =? v); [injection A as <-; left; lia|right; exact A]. }
    destruct (last_idx _ _ 0 None) as [k|] eqn:El; [|lia]. destruct (Hb _ _ _ _ _ El) as [A|A]; [|discriminate].
    rewrite firstn_length in A. pose proof (uc_slen_le (chars cs)). lia.
  Qed.
  Lemma line_pos m i off d fuel : lbuf_at m lb bln lbs lines -> col_mem o m -> (i < length lines)%nat -> 0 <= off ->
    (maxlen lines < fuel)%nat -> (nph < fuel)%nat -> (fuel_tabs <= fuel)%nat ->
    exists M, callf cprog fuel (S (S (S (S (S (S (S d))))))) F_ren_pos [VPtr (nth i lbs O) 0; VInt off] m
              = Ok (VInt (MotDefs.ren_pos (MotDefs.chop (nthl lines i)) off), M) /\ ren_frame m M.
  Proof.
    intros R Hm Hi Hoff Hf HF1 HF2. pose proof (nthl_col o lines i Hcl Hi) as Hline. pose proof (la_str _ _ _ _ _ R i Hi) as Hs.
    destruct (col_fast o m _ _ Hm Hline Hs) as [Fm Fl]. pose proof (maxlen_ge lines i).
    destruct (tr_ren_pos_fast dr0 o m _ _ off d fuel Fm Fl Hoff ltac:(lia) HF1 HF2) as [M [E Fr]].
    destruct Hline as ((cs & Hcs & Es) & L & U). rewrite Es in *.
    exists M. rewrite (TrViMot.chop_chars cs Hcs), (ren_pos_bridge dr0 o cs Hcs U off Hoff). split; [exact E|exact Fr].
  Qed.
  Lemma line_next m i p dir d fuel : lbuf_at m lb bln lbs lines -> col_mem o m -> (i < length lines)%nat ->
    (maxlen lines < fuel)%nat -> (nph < fuel)%nat -> (fuel_tabs <= fuel)%nat ->
    exists M, callf cprog fuel (S (S (S (S (S (S (S (S d)))))))) F_ren_next [VPtr (nth i lbs O) 0; VInt p; VInt dir] m
              = Ok (VInt (MotDefs.ren_next (MotDefs.chop (nthl lines i)) p dir), M) /\ ren_frame m M.
  Proof.
    intros R Hm Hi Hf HF1 HF2. pose proof (nthl_col o lines i Hcl Hi) as Hline. pose proof (la_str _ _ _ _ _ R i Hi) as Hs.
    destruct (col_fast o m _ _ Hm Hline Hs) as [Fm Fl]. pose proof (maxlen_ge lines i).
    destruct (tr_ren_next_fast dr0 o m _ _ p dir d fuel Fm Fl ltac:(lia) HF1 HF2) as [M [E Fr]].
    destruct Hline as ((cs & Hcs & Es) & L & U). rewrite Es in *.
    exists M. rewrite (TrViMot.chop_chars cs Hcs), (ren_next_bridge dr0 o cs Hcs U p dir). split; [exact E|exact Fr].
  Qed.

  (* vi_col2off(lb, row, col): the character covering column col of line row (0 for a row outside the buffer) *)
  Theorem tr_vi_col2off m row col d fuel : lbuf_at m lb bln lbs lines -> col_mem o m ->
    (maxlen lines < fuel)%nat -> (nph < fuel)%nat -> (fuel_tabs <= fuel)%nat ->
    exists M, callf cprog fuel (S (S (S (S (S (S (S (S d)))))))) F_vi_col2off [VPtr lb 0; VInt row; VInt col] m
              = Ok (VInt (MotDefs.vi_col2off b row col), M) /\ ren_frame m M.
  Proof.
    intros R Hm Hf HF1 HF2. unfold MotDefs.vi_col2off, b. rewrite getl_rowidx.
    enter F_vi_col2off cf_vi_col2off. xstep.
    rewrite (tr_lbuf_get m lb bln lbs lines row _ fuel R Hsm). xstep. unfold line_ptr.
    destruct (rowidx lines row) as [i|] eqn:Ei; cbn [option_map]; xstep.
    2:{ exists m. split; [reflexivity|]. apply ren_frame_refl. apply Hm. }
    destruct (rowidx_lt _ _ _ Ei) as [Hi _].
    destruct (line_off m i col d fuel R Hm Hi Hf HF1 HF2) as [M [E [Fr _]]]. rewrite E. xstep. exists M. split; [reflexivity|exact Fr].
  Qed.
  (* vi_off2col(lb, row, off): the column of character off of line row *)
  Theorem tr_vi_off2col m row off d fuel : lbuf_at m lb bln lbs lines -> col_mem o m -> 0 <= off ->
    (maxlen lines < fuel)%nat -> (nph < fuel)%nat -> (fuel_tabs <= fuel)%nat ->
    exists M, callf cprog fuel (S (S (S (S (S (S (S (S d)))))))) F_vi_off2col [VPtr lb 0; VInt row; VInt off] m
              = Ok (VInt (MotDefs.vi_off2col b row off), M) /\ ren_frame m M.
  Proof.
    intros R Hm Hoff Hf HF1 HF2. unfold MotDefs.vi_off2col, b. rewrite getl_rowidx.
    enter F_vi_off2col cf_vi_off2col. xstep.
    rewrite (tr_lbuf_get m lb bln lbs lines row _ fuel R Hsm). xstep. unfold line_ptr.
    destruct (rowidx lines row) as [i|] eqn:Ei; cbn [option_map]; xstep.
    2:{ exists m. split; [reflexivity|]. apply ren_frame_refl. apply Hm. }
    destruct (rowidx_lt _ _ _ Ei) as [Hi _].
    destruct (line_pos m i off d fuel R Hm Hi Hoff Hf HF1 HF2) as [M [E Fr]]. rewrite E. xstep. exists M. split; [reflexivity|exact Fr].
  Qed.
End ColC.

Section NextCol.
  Variables (o : ropts) (lb bln : nat) (lbs : list nat) (lines : list bytes).
  Let b := map MotDefs.chop lines.
  Hypothesis Hsm : lines_small lines.
  Hypothesis Hcl : col_lines o lines.

  (* vi_nextcol(lb, dir, row, off): one column step (h / l).  0 and the new offset in *off, or -1 and nothing stored (the row is
     outside the buffer, or there is no character in that direction before the line break) *)
  Theorem tr_vi_nextcol m br bo r off dir d fuel : lbuf_at m lb bln lbs lines -> col_mem o m ->
    cell_at m br r -> cell_at m bo off -> i32 r -> i32 off -> 0 <= off ->
    ~ In G_bits (lb :: bln :: lbs) -> bo <> G_bits ->
    (maxlen lines < fuel)%nat -> (nph < fuel)%nat -> (fuel_tabs <= fuel)%nat ->
    exists M, ren_frame m M /\
      callf cprog fuel (S (S (S (S (S (S (S (S (S d))))))))) F_vi_nextcol [VPtr lb 0; VInt dir; VPtr br 0; VPtr bo 0] m
      = match MotDefs.vi_nextcol b dir (r, off) with
        | Some (false, (_, o')) => Ok (VInt 0, upd M bo [VInt o'])
        | _ => Ok (VInt (-1), M)
        end.
  Proof.
    intros R Hm Hr Ho Ir Io Hoff Nb Nbo Hf HF1 HF2. unfold MotDefs.vi_nextcol, b. rewrite getl_rowidx.
    enter F_vi_nextcol cf_vi_nextcol. xstep.
    rewrite (load_cell m br r Hr). xstep. rewrite wrap_I32_id by exact Ir.
    rewrite (tr_lbuf_get m lb bln lbs lines r _ fuel R Hsm). xstep. unfold line_ptr.
    destruct (rowidx lines r) as [i|] eqn:Ei; cbn [option_map]; xstep.
    2:{ rewrite chk_I32 by lia. xstep. rewrite chk_I32 by lia. xstep. exists m. split; [apply ren_frame_refl; apply Hm|reflexivity]. }
    destruct (rowidx_lt _ _ _ Ei) as [Hi _].
    rewrite (load_cell m bo off Ho). xstep. rewrite wrap_I32_id by exact Io.
    set (l := MotDefs.chop (nthl lines i)).
    destruct (line_pos o lb bln lbs lines Hcl m i off (S d) fuel R Hm Hi Hoff Hf HF1 HF2) as [M1 [E1 F1]]. fold l in E1. rewrite E1. xstep.
    pose proof (lbuf_at_frame _ _ _ _ _ _ R F1 Nb) as R1. pose proof (col_mem_frame o m M1 Hm F1) as Hm1.
    destruct (line_next o lb bln lbs lines Hcl M1 i (MotDefs.ren_pos l off) dir d fuel R1 Hm1 Hi Hf HF1 HF2) as [M2 [E2 F2]]. fold l in E2. rewrite E2. xstep.
    pose proof (lbuf_at_frame _ _ _ _ _ _ R1 F2 Nb) as R2. pose proof (col_mem_frame o M1 M2 Hm1 F2) as Hm2.
    set (c := MotDefs.ren_next l (MotDefs.ren_pos l off) dir).
    destruct (Z.ltb_spec c 0) as [Lc|Lc]; xstep.
    { rewrite chk_I32 by lia. xstep. exists M2. split; [apply (ren_frame_trans m M1 M2); assumption|reflexivity]. }
    destruct (line_off o lb bln lbs lines Hcl M2 i c (S d) fuel R2 Hm2 Hi Hf HF1 HF2) as [M3 [E3 [F3 B3]]]. fold l in E3, B3. rewrite E3. xstep.
    rewrite wrap_I32_id by lia.
    assert (F13 : ren_frame m M3) by (apply (ren_frame_trans m M1 M3); [assumption|apply (ren_frame_trans M1 M2 M3); assumption]).
    rewrite (store_cell M3 bo off _ (ren_frame_cell m M3 bo off F13 Ho Nbo)). xstep.
    exists M3. split; [exact F13|reflexivity].
  Qed.
End NextCol.
