(* ViExecProps.v -- C08: proofs about the interpreter of key programs (ViDefs.exec): the region handed to
   the operators, delete / yank / put at the level of exec, preservation of valid UTF-8. *)
From Coq Require Import List NArith ZArith Lia Bool ZifyN ZifyBool ZifyNat.
From NV Require Import Bytes UcDefs UcSpec UcSegProps MotDefs MotProps RegDefs RegProps ViDefs ViProps.
Import ListNotations.
Local Open Scope Z_scope.

(* ====================================================================================== *)
(* C08_region                                                                               *)
(* ====================================================================================== *)

Lemma vc_region_char b k r1 o1 r2 o2 : 0 <= o2 ->
  let '(ra, oa, rb, ob) := ends r1 o1 r2 o2 in
  vc_region b k r1 o1 r2 o2 =
  mk_region ra (ren_noeol (getl b ra) oa) rb
            (if incl_key k && (ob <? lbuf_eol b rb) then ren_noeol (getl b rb) ob + 1 else ob) false.
Proof.
  intro H2. unfold ends, lex_leb, vc_region.
  destruct (Z.ltb_spec o2 0); [lia|]. cbn [negb andb].
  destruct (Z.ltb_spec r2 r1) as [A|A].
  - destruct (Z.ltb_spec r1 r2); [lia|]. destruct (Z.eqb_spec r1 r2); [lia|]. cbn [orb andb].
    destruct (Z.eqb_spec r2 r1); [lia|]. cbn [andb]. reflexivity.
  - destruct (Z.eqb_spec r1 r2) as [E|E].
    + subst r2. destruct (Z.ltb_spec r1 r1); [lia|]. cbn [orb andb].
      destruct (Z.ltb_spec o2 o1); destruct (Z.leb_spec o1 o2); try lia; reflexivity.
    + destruct (Z.ltb_spec r1 r2); [|lia]. cbn [orb andb]. reflexivity.
Qed.

Lemma vc_region_line b k r1 o1 r2 o2 : o2 < 0 ->
  let g := vc_region b k r1 o1 r2 o2 in g_ln g = true /\ g_r1 g = Z.min r1 r2 /\ g_r2 g = Z.max r1 r2.
Proof.
  intro H. cbv zeta. destruct (vc_region_rows b k r1 o1 r2 o2) as (A & B & C). rewrite A, B, C.
  destruct (Z.ltb_spec o2 0); [auto|lia].
Qed.

Lemma ren_noeol_le ol o : 0 <= o -> ren_noeol ol o <= o.
Proof.
  intro H. unfold ren_noeol.
  set (n := match ol with Some l => slen l | None => 0 end).
  set (o1 := if o >=? n then Z.max 0 (n - 1) else o).
  assert (o1 <= o) by (unfold o1; destruct (Z.geb_spec o n); lia). clearbody o1.
  destruct (0 <? o1); cbn [andb]; [|lia]. destruct (N.eqb _ 10); lia.
Qed.

Lemma noeol_below_eol b r o : buf_wf b -> 0 <= o < lbuf_eol b r -> ren_noeol (getl b r) o = o.
Proof.
  intros HW H. unfold lbuf_eol in H. destruct (getl b r) as [l|] eqn:E; [|cbn in H; lia].
  pose proof (getl_wf _ _ _ HW E) as Hl. apply ren_noeol_id; [exact Hl|].
  unfold off_ok. destruct (Z.eqb_spec (slen l) 0); lia.
Qed.

(* the region is ordered: (r1, o1) <= (r2, o2) *)
Lemma vc_region_ordered b k r1 o1 r2 o2 : buf_wf b -> 0 <= o1 -> 0 <= o2 ->
  let g := vc_region b k r1 o1 r2 o2 in lex_le (g_r1 g) (g_o1 g) (g_r2 g) (g_o2 g).
Proof.
  intros HW H1 H2. cbv zeta. pose proof (vc_region_char b k r1 o1 r2 o2 H2) as E.
  unfold ends, lex_leb in E.
  assert (G : forall ra oa rb ob, 0 <= oa -> lex_le ra oa rb ob ->
     lex_le ra (ren_noeol (getl b ra) oa) rb (if incl_key k && (ob <? lbuf_eol b rb) then ren_noeol (getl b rb) ob + 1 else ob)).
  { intros ra oa rb ob Ha L. pose proof (ren_noeol_le (getl b ra) oa Ha) as Le.
    destruct L as [L|[L1 L2]]; [left; exact L|right; split; [exact L1|]].
    destruct (incl_key k); cbn [andb]; [|lia]. destruct (Z.ltb_spec ob (lbuf_eol b rb)); [|lia].
    rewrite (noeol_below_eol b rb ob HW) by lia. lia. }
  destruct (Z.ltb_spec r1 r2); cbn [orb] in E.
  - rewrite E. cbn [g_r1 g_r2 g_o1 g_o2]. apply G; [exact H1|left; assumption].
  - destruct (Z.eqb_spec r1 r2); cbn [andb] in E.
    + destruct (Z.leb_spec o1 o2); rewrite E; cbn [g_r1 g_r2 g_o1 g_o2]; apply G; try assumption; right; split; lia.
    + rewrite E. cbn [g_r1 g_r2 g_o1 g_o2]. apply G; [exact H2|left; lia].
Qed.

(* the full statement: what vc_motion hands to the operator, for every state and every target *)

Lemma vc_region_spec b k r1 o1 r2 o2 : buf_wf b -> 0 <= o1 -> region_spec b k r1 o1 r2 o2 (vc_region b k r1 o1 r2 o2).
Proof.
  intros HW H1. split; [apply vc_region_line|]. intro H2.
  pose proof (vc_region_ordered b k r1 o1 r2 o2 HW H1 H2) as Ord. cbv zeta in Ord.
  pose proof (vc_region_char b k r1 o1 r2 o2 H2) as E.
  assert (P : 0 <= snd (ends r1 o1 r2 o2)) by (unfold ends; destruct (lex_leb _ _ _ _); cbn; lia).
  destruct (ends r1 o1 r2 o2) as [[[ra oa] rb] ob]. cbn [snd] in P. rewrite E in *. cbn [g_ln g_r1 g_r2 g_o1 g_o2] in *.
  repeat split; try assumption.
  - destruct (incl_key k); cbn [andb]; [|reflexivity]. destruct (Z.ltb_spec ob (lbuf_eol b rb)); [|reflexivity].
    rewrite (noeol_below_eol b rb ob HW) by lia. reflexivity.
Qed.

(* at the level of the interpreter: whenever the motion of an operator command succeeds, the region
   passed on is the one of the specification, for the cursor (row, ren_noeol off) and the target *)
Lemma op_target_off b rows s a1 a2 t o1 k r2 o2 cl cc pc : 0 <= o1 ->
  op_target b rows s a1 a2 t o1 = TOk k r2 o2 cl cc pc -> 0 <= o2 \/ o2 = -1.
Proof.
  intros H E. unfold op_target in E. destruct t as [k0|].
  - destruct (vi_motion _ _ _ _ _ _ _ _ _ _ _) eqn:M; try discriminate. inversion E; subst.
    eapply vi_motion_off; [exact H|exact M].
  - inversion E. right. reflexivity.
Qed.

Lemma exec_region b rows s a1 a2 t k r2 o2 cl cc pc : buf_wf b -> 0 <= v_off s ->
  let o1 := ren_noeol (getl b (v_row s)) (v_off s) in
  op_target b rows s a1 a2 t o1 = TOk k r2 o2 cl cc pc ->
  (0 <= o2 \/ o2 = -1) /\ region_spec b k (v_row s) o1 r2 o2 (vc_region b k (v_row s) o1 r2 o2).
Proof.
  intros HW Ho o1 E. assert (H1 : 0 <= o1) by (apply ren_noeol_nonneg, Ho).
  split; [eapply op_target_off; [exact H1|exact E]|apply vc_region_spec; assumption].
Qed.

(* ====================================================================================== *)
(* chop after flat, decomposition of the buffer around a range of rows                      *)
(* ====================================================================================== *)
Lemma chop_f_chars ks : Forall scalar ks -> forall fuel, (length (chars ks) <= fuel)%nat -> chop_f fuel (chars ks) = map encode ks.
Proof.
  induction 1 as [|k ks Hk Hks IH]; intros fuel Hf.
  - cbn. destruct fuel; reflexivity.
  - rewrite chars_cons in *. pose proof (encode_nonempty k Hk) as Hn. rewrite app_length in Hf.
    destruct fuel as [|f]; [lia|]. cbn [chop_f map].
    destruct (encode k ++ chars ks) as [|x xs] eqn:E.
    { apply (f_equal (@length N)) in E. rewrite app_length in E. cbn in E. lia. }
    rewrite <- E. rewrite uc_next_encode by (auto; apply chars_hd_noncont; assumption).
    rewrite Nat.max_r by lia. rewrite firstn_app_exact, skipn_app_exact. f_equal. apply IH. lia.
Qed.
Lemma chop_chars ks : Forall scalar ks -> chop (chars ks) = map encode ks.
Proof. intro H. apply chop_f_chars; [exact H|lia]. Qed.
Lemma line_valid_enc cs : line_valid cs -> exists ks, Forall scalar ks /\ cs = map encode ks.
Proof.
  unfold line_valid. induction 1 as [|c cs (k & Hk & ->) _ (ks & Hks & ->)].
  - exists []. split; [constructor|reflexivity].
  - exists (k :: ks). split; [constructor; assumption|reflexivity].
Qed.
Lemma flat_enc ks : flat (map encode ks) = chars ks.
Proof. unfold flat, chars. symmetry. apply flat_map_concat_map. Qed.
Lemma chop_flat cs : line_valid cs -> chop (flat cs) = cs.
Proof. intro H. destruct (line_valid_enc cs H) as (ks & Hks & ->). rewrite flat_enc. apply chop_chars, Hks. Qed.
Lemma chop_valid s : valid s -> line_valid (chop s).
Proof.
  intros (ks & Hks & ->). rewrite chop_chars by exact Hks. unfold line_valid.
  induction Hks as [|k ks Hk _ IH]; cbn [map]; constructor; [exists k; auto|exact IH].
Qed.

Lemma getl_split b r l : getl b r = Some l -> exists pre post, b = pre ++ l :: post /\ Z.of_nat (length pre) = r.
Proof.
  intro E. destruct (getl_nth _ _ _ E) as [Hr En]. apply nth_error_split in En. destruct En as (pre & post & Eb & El).
  exists pre, post. split; [exact Eb|lia].
Qed.
Lemma getl_app_r (pre : buf) x r : Z.of_nat (length pre) <= r -> getl (pre ++ x) r = getl x (r - Z.of_nat (length pre)).
Proof.
  intro H. unfold getl. destruct (Z.ltb_spec r 0); [lia|]. destruct (Z.ltb_spec (r - Z.of_nat (length pre)) 0); [lia|].
  rewrite nth_error_app2 by lia. f_equal. lia.
Qed.
Lemma getl_cons_S (l : line) x r : 0 < r -> getl (l :: x) r = getl x (r - 1).
Proof.
  intro H. unfold getl. destruct (Z.ltb_spec r 0); [lia|]. destruct (Z.ltb_spec (r - 1) 0); [lia|].
  replace (Z.to_nat r) with (S (Z.to_nat (r - 1))) by lia. reflexivity.
Qed.
Lemma getl_split2 b r1 r2 l1 l2 : getl b r1 = Some l1 -> getl b r2 = Some l2 -> r1 < r2 ->
  exists pre mid post, b = pre ++ l1 :: mid ++ l2 :: post /\ Z.of_nat (length pre) = r1 /\ r2 = r1 + 1 + Z.of_nat (length mid).
Proof.
  intros E1 E2 H. destruct (getl_split _ _ _ E1) as (pre & rest & Eb & Ep). subst b.
  rewrite getl_app_r in E2 by lia. rewrite getl_cons_S in E2 by lia.
  destruct (getl_split _ _ _ E2) as (mid & post & Er & Em). subst rest.
  exists pre, mid, post. repeat split; [exact Ep|lia].
Qed.
Lemma set_row_decomp (pre x post : buf) ls : set_row (pre ++ x ++ post) (Z.of_nat (length pre)) ls (Z.of_nat (length x)) = pre ++ ls ++ post.
Proof.
  unfold set_row. rewrite Nat2Z.id, firstn_app_exact. f_equal. f_equal.
  replace (Z.to_nat (Z.of_nat (length pre) + Z.of_nat (length x))) with (length (pre ++ x)) by (rewrite app_length; lia).
  rewrite app_assoc. apply skipn_app_exact.
Qed.
Lemma rows_between_decomp (pre x post : buf) : rows_between (pre ++ x ++ post) (Z.of_nat (length pre)) (Z.of_nat (length pre) + Z.of_nat (length x)) = x.
Proof.
  unfold rows_between. rewrite Nat2Z.id, skipn_app_exact.
  replace (Z.to_nat (Z.of_nat (length pre) + Z.of_nat (length x) - Z.of_nat (length pre))) with (length x) by lia.
  apply firstn_app_exact.
Qed.
Lemma blen_app (x y : buf) : blen (x ++ y) = blen x + blen y.
Proof. unfold blen. rewrite app_length. lia. Qed.
Lemma sub_l_all (l : line) : sub_l l 0 (-1) = l.
Proof. rewrite sub_l_skipn by (unfold slen; lia). reflexivity. Qed.

(* line-wise region text = the lines themselves *)
Lemma region_lines (pre x post : buf) : x <> [] ->
  lbuf_region (pre ++ x ++ post) (Z.of_nat (length pre)) 0 (Z.of_nat (length pre) + Z.of_nat (length x) - 1) (-1) = concat x.
Proof.
  intro Hx. destruct x as [|l1 x]; [contradiction|]. clear Hx. unfold lbuf_region.
  assert (G1 : getl (pre ++ (l1 :: x) ++ post) (Z.of_nat (length pre)) = Some l1).
  { rewrite getl_app_r by lia. rewrite Z.sub_diag. reflexivity. }
  rewrite G1. destruct x as [|l2 x] using rev_ind.
  - cbn [length]. replace (Z.of_nat (length pre) + Z.of_nat 1 - 1) with (Z.of_nat (length pre)) by lia.
    rewrite G1, Z.eqb_refl, sub_l_all. cbn. rewrite app_nil_r. reflexivity.
  - clear IHx. cbn [length]. rewrite app_length. cbn [length].
    set (r2 := Z.of_nat (length pre) + Z.of_nat (S (length x + 1)) - 1).
    assert (G2 : getl (pre ++ (l1 :: x ++ [l2]) ++ post) r2 = Some l2).
    { rewrite getl_app_r by (unfold r2; lia). cbn [app]. rewrite getl_cons_S by (unfold r2; lia).
      rewrite <- app_assoc. rewrite getl_app_r by (unfold r2; lia).
      replace (r2 - Z.of_nat (length pre) - 1 - Z.of_nat (length x)) with 0 by (unfold r2; lia). reflexivity. }
    rewrite G2. destruct (Z.eqb_spec (Z.of_nat (length pre)) r2); [unfold r2 in *; lia|].
    rewrite !sub_l_all.
    replace (pre ++ (l1 :: x ++ [l2]) ++ post) with ((pre ++ [l1]) ++ x ++ (l2 :: post)) by (rewrite <- !app_assoc; cbn [app]; rewrite <- ?app_assoc; reflexivity).
    replace (Z.of_nat (length pre) + 1) with (Z.of_nat (length (pre ++ [l1]))) by (rewrite app_length; cbn; lia).
    replace r2 with (Z.of_nat (length (pre ++ [l1])) + Z.of_nat (length x)) by (unfold r2; rewrite app_length; cbn; lia).
    rewrite rows_between_decomp. cbn [concat]. rewrite concat_app. cbn [concat]. rewrite app_nil_r. reflexivity.
Qed.

(* ====================================================================================== *)
(* C08_delete_yank_put at the level of the interpreter                                      *)
(* ====================================================================================== *)
Lemma finish_buf rows b R s md : s_buf (finish rows b R s md) = b.
Proof. reflexivity. Qed.
Lemma finish_regs rows b R s md : s_regs (finish rows b R s md) = R.
Proof. reflexivity. Qed.
Lemma finish_row rows b R s md : 0 <= v_row s < blen b -> v_row (s_vs (finish rows b R s md)) = v_row s.
Proof.
  intro H. unfold finish, vi_wfix. destruct md; cbn [s_vs vs_col v_row];
  destruct (Z.ltb_spec (v_row s) 0); destruct (Z.geb_spec (v_row s) (blen b)); try lia; reflexivity.
Qed.
Lemma finish_off rows b R s md : 0 <= v_row s < blen b ->
  v_off (s_vs (finish rows b R s md)) = ren_noeol (getl b (v_row s)) (v_off s).
Proof.
  intro H. unfold finish, vi_wfix. destruct md; cbn [s_vs vs_col v_row v_off];
  destruct (Z.ltb_spec (v_row s) 0); destruct (Z.geb_spec (v_row s) (blen b)); try lia; reflexivity.
Qed.

Lemma range_split (b : buf) r1 r2 : 0 <= r1 <= r2 -> r2 < blen b ->
  exists pre x post, b = pre ++ x ++ post /\ Z.of_nat (length pre) = r1 /\ Z.of_nat (length x) = r2 - r1 + 1.
Proof.
  intros H1 H2. unfold blen in H2.
  exists (firstn (Z.to_nat r1) b), (firstn (Z.to_nat (r2 - r1 + 1)) (skipn (Z.to_nat r1) b)),
         (skipn (Z.to_nat (r2 - r1 + 1)) (skipn (Z.to_nat r1) b)).
  rewrite !firstn_skipn. repeat split.
  - rewrite firstn_length. lia.
  - rewrite firstn_length, skipn_length. lia.
Qed.


(* what the d and y commands do once the motion has succeeded *)
Lemma exec_op_yank rows e y a1 a2 t k r2 o2 cl cc pc :
  let b := s_buf e in let s := s_vs e in
  let o1 := ren_noeol (getl b (v_row s)) (v_off s) in
  op_target b rows s a1 a2 t o1 = TOk k r2 o2 cl cc pc ->
  let g := vc_region b k (v_row s) o1 r2 o2 in
  exec_op rows e y a1 Oy a2 t [] =
  Some (finish rows b (reg_put (s_regs e) y (flat (region_text b g)) (g_ln g))
               (vs_pos (vs_mot s cl cc pc) (g_r1 g) (if g_ln g then v_off s else g_o1 g)) (negb (g_ln g && (v_row s =? g_r1 g)))).
Proof. intros b s o1 E g. unfold exec_op. fold b s o1. rewrite E. reflexivity. Qed.
Lemma exec_op_delete rows e y a1 a2 t k r2 o2 cl cc pc :
  let b := s_buf e in let s := s_vs e in
  let o1 := ren_noeol (getl b (v_row s)) (v_off s) in
  op_target b rows s a1 a2 t o1 = TOk k r2 o2 cl cc pc ->
  let g := vc_region b k (v_row s) o1 r2 o2 in
  let b' := fst (vi_delete b (s_regs e) y g) in
  exec_op rows e y a1 Od a2 t [] =
  Some (finish rows b' (reg_put (s_regs e) y (flat (region_text b g)) (g_ln g))
               (vs_pos (vs_mot s cl cc pc) (g_r1 g) (if g_ln g then lbuf_indents b' (g_r1 g) else g_o1 g)) true).
Proof.
  intros b s o1 E g b'. unfold exec_op. fold b s o1. rewrite E. change (v_row (vs_mot s cl cc pc)) with (v_row s). fold g.
  unfold b', vi_delete, region_text. destruct (g_ln g); reflexivity.
Qed.

(* yank: the buffer is unchanged and the register holds exactly the region's text *)
Lemma yank_spec rows e y a1 a2 t k r2 o2 cl cc pc e1 : plain_reg y ->
  let b := s_buf e in let s := s_vs e in
  let o1 := ren_noeol (getl b (v_row s)) (v_off s) in
  op_target b rows s a1 a2 t o1 = TOk k r2 o2 cl cc pc ->
  let g := vc_region b k (v_row s) o1 r2 o2 in
  exec_op rows e y a1 Oy a2 t [] = Some e1 ->
  s_buf e1 = b /\ reg_get (s_regs e1) y = Some (flat (region_text b g), g_ln g).
Proof.
  intros [Hy Hq] b s o1 E g X. rewrite (exec_op_yank rows e y a1 a2 t k r2 o2 cl cc pc E) in X. inversion X; subst e1.
  split; [reflexivity|]. cbn [s_regs finish]. apply put_get_plain; assumption.
Qed.

Lemma flat_app (x y : list chr) : flat (x ++ y) = flat x ++ flat y.
Proof. unfold flat. apply concat_app. Qed.
Lemma flat_wf_nonnil (l : line) (x : list chr) : line_wf l -> flat (l ++ x) <> [].
Proof.
  intros (body & -> & _) E. rewrite <- app_assoc, !flat_app in E. cbn in E.
  apply (f_equal (@length N)) in E. rewrite app_length in E. cbn in E. lia.
Qed.
Lemma buf_valid_app (x y : buf) : buf_valid (x ++ y) <-> buf_valid x /\ buf_valid y.
Proof. unfold buf_valid. apply Forall_app. Qed.
Lemma concat_valid (x : buf) : buf_valid x -> line_valid (concat x).
Proof. unfold buf_valid, line_valid. induction 1; cbn [concat]; [constructor|apply Forall_app; split; assumption]. Qed.
Lemma buf_wf_app (x y : buf) : buf_wf (x ++ y) <-> buf_wf x /\ buf_wf y.
Proof. unfold buf_wf. apply Forall_app. Qed.
Lemma repeat_app_1 {A} (x : list A) : repeat_app 1 x = x.
Proof. cbn. apply app_nil_r. Qed.

(* line-wise delete: register, buffer, cursor row; a following P of that register restores the
   buffer when a line is left below the deleted ones *)
Lemma delete_lines_spec rows e y a1 a2 t k r2 o2 cl cc pc e1 : plain_reg y ->
  let b := s_buf e in let s := s_vs e in
  let o1 := ren_noeol (getl b (v_row s)) (v_off s) in
  buf_wf b -> buf_valid b ->
  op_target b rows s a1 a2 t o1 = TOk k r2 o2 cl cc pc ->
  let g := vc_region b k (v_row s) o1 r2 o2 in
  g_ln g = true -> 0 <= g_r1 g -> g_r2 g < blen b ->
  exec_op rows e y a1 Od a2 t [] = Some e1 ->
  reg_get (s_regs e1) y = Some (flat (concat (rows_between b (g_r1 g) (g_r2 g + 1))), true) /\
  s_buf e1 = firstn (Z.to_nat (g_r1 g)) b ++ skipn (Z.to_nat (g_r2 g + 1)) b /\
  (g_r2 g + 1 < blen b -> v_row (s_vs e1) = g_r1 g /\ s_buf (exec_put rows e1 y 0 false) = b).
Proof.
  intros [Hy Hq] b s o1 HW HV E g Hln H1 H2 X.
  rewrite (exec_op_delete rows e y a1 a2 t k r2 o2 cl cc pc E) in X. fold b s o1 g in X.
  assert (H12 : g_r1 g <= g_r2 g) by (destruct (vc_region_rows b k (v_row s) o1 r2 o2) as (A & B & _); fold g in A, B; lia).
  clear E. clearbody g. clearbody o1. clearbody s. clearbody b.
  destruct (range_split b (g_r1 g) (g_r2 g) ltac:(lia) H2) as (pre & x & post & Eb & Lp & Lx).
  assert (Hx : x <> []) by (intro; subst x; cbn [length] in Lx; lia).
  assert (ET : region_text b g = concat x).
  { unfold region_text. rewrite Hln, Eb, <- Lp. replace (g_r2 g) with (Z.of_nat (length pre) + Z.of_nat (length x) - 1) by lia.
    apply region_lines, Hx. }
  assert (ER : rows_between b (g_r1 g) (g_r2 g + 1) = x).
  { rewrite Eb, <- Lp. replace (g_r2 g + 1) with (Z.of_nat (length pre) + Z.of_nat (length x)) by lia. apply rows_between_decomp. }
  assert (EB : fst (vi_delete b (s_regs e) y g) = pre ++ post).
  { unfold vi_delete. rewrite Hln. cbn [fst]. replace (g_r2 g + 1) with (g_r1 g + Z.of_nat (length x)) by lia.
    rewrite lbuf_edit_none by (try lia; rewrite Eb, !blen_app; unfold blen; lia).
    rewrite Eb, <- Lp. rewrite set_row_decomp. reflexivity. }
  rewrite EB, ET, Hln in X. inversion X; subst e1. clear X.
  rewrite finish_regs, finish_buf, ER. split; [apply put_get_plain; assumption|]. split.
  { rewrite Eb, <- Lp, Nat2Z.id, firstn_app_exact. f_equal.
    replace (Z.to_nat (Z.of_nat (length pre) + Z.of_nat (length x) - 1 + 1)) with (length (pre ++ x)) by (rewrite app_length; lia).
    replace (g_r2 g + 1) with (Z.of_nat (length (pre ++ x))) by (rewrite app_length; lia).
    rewrite Nat2Z.id, app_assoc, skipn_app_exact. reflexivity. }
  intro H3.
  assert (Hpost : post <> []).
  { intro; subst post. rewrite Eb, !blen_app in H3. unfold blen in H3. cbn [length] in H3. lia. }
  set (st := vs_pos (vs_mot s cl cc pc) (g_r1 g) (lbuf_indents (pre ++ post) (g_r1 g))).
  assert (Hrow : 0 <= v_row st < blen (pre ++ post)).
  { unfold st. cbn [vs_pos v_row]. rewrite blen_app. unfold blen. destruct post; [contradiction|]. cbn [length]. lia. }
  split; [rewrite finish_row by exact Hrow; reflexivity|].
  unfold exec_put. rewrite finish_regs, finish_buf, finish_row by exact Hrow.
  rewrite put_get_plain by assumption.
  rewrite Eb in HW, HV. apply buf_wf_app in HW. destruct HW as [HWp HW]. apply buf_wf_app in HW. destruct HW as [HWx HWq].
  apply buf_valid_app in HV. destruct HV as [HVp HV]. apply buf_valid_app in HV. destruct HV as [HVx HVq].
  destruct (flat (concat x)) as [|c0 txt] eqn:Etxt.
  { exfalso. destruct x as [|l1 x]; [contradiction|]. cbn [concat] in Etxt. inversion HWx; subst. eapply flat_wf_nonnil; eassumption. }
  rewrite <- Etxt. change (Z.max 1 0) with 1. change (Z.to_nat 1) with 1%nat. rewrite repeat_app_1.
  rewrite chop_flat by (apply concat_valid, HVx).
  destruct (Z.eqb_spec (blen (pre ++ post)) 0) as [Z0|_]; [lia|].
  cbn [st vs_pos v_row]. rewrite finish_buf.
  unfold lbuf_edit. rewrite !Z.min_l by (rewrite blen_app; unfold blen; lia). rewrite Z.sub_diag.
  rewrite split_text_concat by exact HWx.
  rewrite <- Lp. change 0 with (Z.of_nat (@length line [])).
  replace (pre ++ post) with (pre ++ [] ++ post) by reflexivity. rewrite set_row_decomp. symmetry. exact Eb.
Qed.

(* ---------- character-wise regions ---------- *)
Lemma sub_l_cut (l : line) o : 0 <= o <= slen l -> sub_l l 0 o ++ sub_l l o (-1) = l.
Proof.
  intro H. rewrite sub_l_firstn, sub_l_skipn by lia. apply firstn_skipn.
Qed.
Lemma lbuf_region_valid b r1 o1 r2 o2 : buf_valid b -> line_valid (lbuf_region b r1 o1 r2 o2).
Proof.
  intro Hb. unfold lbuf_region. destruct (getl b r1) as [l1|] eqn:E1; [|constructor]. destruct (getl b r2) as [l2|] eqn:E2; [|constructor].
  pose proof (optl_valid b r1 Hb) as V1. pose proof (optl_valid b r2 Hb) as V2. rewrite E1 in V1. rewrite E2 in V2. cbn [optl] in *.
  destruct (r1 =? r2); [apply sub_l_valid, V1|].
  unfold line_valid. apply Forall_app. split; [apply sub_l_valid, V1|]. apply Forall_app. split; [|apply sub_l_valid, V2].
  apply concat_valid. unfold rows_between, buf_valid. apply Forall_firstn', Forall_skipn', Hb.
Qed.
Lemma region_cut b r1 o1 r2 o2 l1 l2 : getl b r1 = Some l1 -> getl b r2 = Some l2 -> lex_le r1 o1 r2 o2 ->
  0 <= o1 <= slen l1 -> 0 <= o2 <= slen l2 ->
  exists pre x post, b = pre ++ x ++ post /\ Z.of_nat (length pre) = r1 /\ Z.of_nat (length x) = r2 - r1 + 1 /\
    sub_l l1 0 o1 ++ lbuf_region b r1 o1 r2 o2 ++ sub_l l2 o2 (-1) = concat x.
Proof.
  intros E1 E2 L H1 H2. destruct L as [L|[L Lo]].
  - destruct (getl_split2 b r1 r2 l1 l2 E1 E2 L) as (pre & mid & post & Eb & Lp & Lm).
    exists pre, (l1 :: mid ++ [l2]), post. split; [rewrite Eb; cbn [app]; rewrite <- app_assoc; reflexivity|].
    split; [exact Lp|]. split; [cbn [length]; rewrite app_length; cbn [length]; lia|].
    unfold lbuf_region. rewrite E1, E2. destruct (Z.eqb_spec r1 r2); [lia|].
    assert (ER : rows_between b (r1 + 1) r2 = mid).
    { rewrite Eb. replace (pre ++ l1 :: mid ++ l2 :: post) with ((pre ++ [l1]) ++ mid ++ (l2 :: post)) by (rewrite <- app_assoc; reflexivity).
      replace (r1 + 1) with (Z.of_nat (length (pre ++ [l1]))) by (rewrite app_length; cbn [length]; lia).
      replace r2 with (Z.of_nat (length (pre ++ [l1])) + Z.of_nat (length mid)) by (rewrite app_length; cbn [length]; lia).
      apply rows_between_decomp. }
    rewrite ER. cbn [concat]. rewrite concat_app. cbn [concat]. rewrite app_nil_r.
    rewrite <- (sub_l_cut l1 o1 H1) at 3. rewrite <- (sub_l_cut l2 o2 H2) at 3. rewrite <- !app_assoc. reflexivity.
  - subst r2. rewrite E1 in E2. inversion E2; subst l2. destruct (getl_split b r1 l1 E1) as (pre & post & Eb & Lp).
    exists pre, [l1], post. split; [exact Eb|]. split; [exact Lp|]. split; [cbn [length]; lia|].
    unfold lbuf_region. rewrite E1, Z.eqb_refl. cbn [concat]. rewrite app_nil_r. apply sub_l_split; lia.
Qed.

Lemma region_char_facts b k r1 o1 r2 o2 l1 : buf_wf b -> 0 <= o1 -> 0 <= o2 ->
  let g := vc_region b k r1 o1 r2 o2 in getl b (g_r1 g) = Some l1 ->
  0 <= g_o1 g <= slen l1 - 1 /\ 0 <= g_o2 g /\ lex_le (g_r1 g) (g_o1 g) (g_r2 g) (g_o2 g).
Proof.
  intros HW H1 H2 g El. destruct (vc_region_spec b k r1 o1 r2 o2 HW H1) as [_ S]. specialize (S H2). fold g in S.
  assert (P : 0 <= snd (fst (fst (ends r1 o1 r2 o2))) /\ 0 <= snd (ends r1 o1 r2 o2))
    by (unfold ends; destruct (lex_leb _ _ _ _); cbn; lia).
  destruct (ends r1 o1 r2 o2) as [[[ra oa] rb] ob]. cbn [fst snd] in P. destruct S as (_ & Ea & Eb & Eo1 & Eo2 & L).
  split; [|split; [|exact L]].
  - rewrite Eo1, <- Ea, El. pose proof (getl_wf _ _ _ HW El) as Hl.
    pose proof (ren_noeol_ok l1 oa Hl ltac:(lia)) as [A B]. pose proof (wf_slen_pos l1 Hl). lia.
  - rewrite Eo2. destruct (incl_key k && (ob <? lbuf_eol b rb)); lia.
Qed.

(* character-wise delete: register, buffer (before ++ after on one line), cursor; a following P of that
   register restores the buffer when the cursor could stay at the start of the region *)
Lemma delete_chars_spec rows e y a1 a2 t k r2 o2 cl cc pc e1 l1 l2 : plain_reg y ->
  let b := s_buf e in let s := s_vs e in
  let o1 := ren_noeol (getl b (v_row s)) (v_off s) in
  buf_wf b -> buf_valid b -> 0 <= v_off s ->
  op_target b rows s a1 a2 t o1 = TOk k r2 o2 cl cc pc ->
  let g := vc_region b k (v_row s) o1 r2 o2 in
  g_ln g = false -> getl b (g_r1 g) = Some l1 -> getl b (g_r2 g) = Some l2 -> g_o2 g <= slen l2 - 1 ->
  exec_op rows e y a1 Od a2 t [] = Some e1 ->
  let nl := sub_l l1 0 (g_o1 g) ++ sub_l l2 (g_o2 g) (-1) in
  let txt := lbuf_region b (g_r1 g) (g_o1 g) (g_r2 g) (g_o2 g) in
  reg_get (s_regs e1) y = Some (flat txt, false) /\
  s_buf e1 = firstn (Z.to_nat (g_r1 g)) b ++ [nl] ++ skipn (Z.to_nat (g_r2 g + 1)) b /\
  v_row (s_vs e1) = g_r1 g /\
  (off_ok nl (g_o1 g) -> flat txt <> [] -> v_off (s_vs e1) = g_o1 g /\ s_buf (exec_put rows e1 y 0 false) = b).
Proof.
  intros [Hy Hq] b s o1 HW HV Ho E g Hln El1 El2 Hb2 X nl txt.
  rewrite (exec_op_delete rows e y a1 a2 t k r2 o2 cl cc pc E) in X. fold b s o1 g in X.
  assert (H1 : 0 <= o1) by (apply ren_noeol_nonneg, Ho).
  assert (H2 : 0 <= o2).
  { destruct (vc_region_rows b k (v_row s) o1 r2 o2) as (_ & _ & C). fold g in C. rewrite Hln in C. destruct (Z.ltb_spec o2 0); [discriminate|lia]. }
  destruct (region_char_facts b k (v_row s) o1 r2 o2 l1 HW H1 H2 El1) as (F1 & F2 & F3). fold g in F1, F2, F3.
  clear E. clearbody g. clearbody o1. clearbody s. clearbody b.
  pose proof (getl_wf _ _ _ HW El1) as W1. pose proof (getl_wf _ _ _ HW El2) as W2.
  destruct (region_cut b (g_r1 g) (g_o1 g) (g_r2 g) (g_o2 g) l1 l2 El1 El2 F3 ltac:(lia) ltac:(lia)) as (pre & x & post & Eb & Lp & Lx & Ecat).
  fold txt in Ecat.
  assert (Wnl : line_wf nl) by (apply cut_wf; try assumption; lia).
  assert (EB : fst (vi_delete b (s_regs e) y g) = pre ++ [nl] ++ post).
  { unfold vi_delete. rewrite Hln, El1, El2. cbn [fst optl]. fold nl. replace (g_r2 g + 1) with (g_r1 g + Z.of_nat (length x)) by lia.
    rewrite lbuf_edit_some by (try lia; rewrite Eb, !blen_app; unfold blen; lia).
    rewrite (split_text_line nl Wnl). rewrite Eb, <- Lp. apply set_row_decomp. }
  assert (ET : region_text b g = txt) by (unfold region_text; rewrite Hln; reflexivity).
  rewrite EB, ET, Hln in X. inversion X; subst e1. clear X.
  rewrite finish_regs, finish_buf. split; [apply put_get_plain; assumption|]. split.
  { rewrite Eb, <- Lp, Nat2Z.id, firstn_app_exact. f_equal. f_equal.
    replace (g_r2 g + 1) with (Z.of_nat (length (pre ++ x))) by (rewrite app_length; lia).
    rewrite Nat2Z.id, app_assoc, skipn_app_exact. reflexivity. }
  set (st := vs_pos (vs_mot s cl cc pc) (g_r1 g) (g_o1 g)).
  set (b' := pre ++ (@cons line nl nil) ++ post).
  set (R' := reg_put (s_regs e) y (flat txt) false).
  assert (Hrow : 0 <= v_row st < blen b').
  { unfold st, b'. cbn [vs_pos v_row]. rewrite !blen_app. unfold blen. cbn [length]. lia. }
  assert (G : getl b' (g_r1 g) = Some nl).
  { unfold b'. rewrite getl_app_r by lia. rewrite <- Lp, Z.sub_diag. reflexivity. }
  set (e1 := finish rows b' R' st true).
  assert (P1 : s_buf e1 = b') by reflexivity.
  assert (P2 : s_regs e1 = R') by reflexivity.
  assert (P3 : v_row (s_vs e1) = g_r1 g) by (unfold e1; rewrite finish_row by exact Hrow; reflexivity).
  assert (P4 : off_ok nl (g_o1 g) -> v_off (s_vs e1) = g_o1 g).
  { intro Hok. unfold e1. rewrite finish_off by exact Hrow. unfold st. cbn [vs_pos v_row v_off]. rewrite G. apply ren_noeol_id; assumption. }
  change (finish rows (pre ++ nl :: post) R' st true) with e1.
  clearbody e1. split; [exact P3|]. intros Hok Hne. specialize (P4 Hok). split; [exact P4|].
  unfold exec_put. rewrite P1, P2, P3, P4. unfold R'.
  rewrite put_get_plain by assumption.
  destruct (flat txt) as [|c0 tl] eqn:Etxt; [contradiction|]. rewrite <- Etxt.
  change (Z.max 1 0) with 1. change (Z.to_nat 1) with 1%nat. rewrite repeat_app_1.
  rewrite chop_flat by (apply lbuf_region_valid, HV).
  rewrite finish_buf.
  destruct (Z.ltb_spec (g_r1 g) (blen b')); [|unfold st in Hrow; cbn [vs_pos v_row] in Hrow; lia]. rewrite G. cbn [optl].
  rewrite andb_false_r, Z.add_0_r, (ren_noeol_id nl (g_o1 g) Wnl Hok).
  assert (E1 : sub_l nl 0 (g_o1 g) = sub_l l1 0 (g_o1 g) /\ sub_l nl (g_o1 g) (-1) = sub_l l2 (g_o2 g) (-1)).
  { pose proof (sub_l_len l1 (g_o1 g) ltac:(lia)) as L1. unfold nl.
    pose proof (sub_l_app_left (sub_l l1 0 (g_o1 g)) (sub_l l2 (g_o2 g) (-1))) as A1.
    pose proof (sub_l_app_right (sub_l l1 0 (g_o1 g)) (sub_l l2 (g_o2 g) (-1))) as A2.
    rewrite L1 in A1, A2. split; assumption. }
  destruct E1 as [E1 E2]. rewrite E1, E2, Ecat.
  replace (g_r1 g + 1) with (g_r1 g + Z.of_nat (@length line [nl])) by (cbn [length]; lia).
  rewrite lbuf_edit_some by (try lia; unfold b'; rewrite !blen_app; unfold blen; cbn [length]; lia). unfold b'.
  rewrite Eb in HW. apply buf_wf_app in HW. destruct HW as [_ HW]. apply buf_wf_app in HW. destruct HW as [HWx _].
  rewrite split_text_concat by exact HWx. rewrite <- Lp, set_row_decomp. symmetry. exact Eb.
Qed.

(* ====================================================================================== *)
(* C08_utf8: every command keeps the buffer and the registers valid UTF-8                   *)
(* ====================================================================================== *)
Lemma valid_nil : valid [].
Proof. exists []. split; [constructor|reflexivity]. Qed.
Lemma valid_app s t : valid s -> valid t -> valid (s ++ t).
Proof.
  intros (a & Ha & ->) (c & Hc & ->). exists (a ++ c). split; [apply Forall_app; split; assumption|]. symmetry. apply chars_app.
Qed.
Lemma regs0_valid : regs_valid regs0.
Proof. intros c t ln H. discriminate. Qed.
Lemma upd_valid R c t ln : regs_valid R -> valid t -> regs_valid (upd R c (Some (t, ln))).
Proof.
  intros HR Ht d t' ln' H. unfold upd in H. destruct (N.eqb d c); [inversion H; subst; exact Ht|eapply HR, H].
Qed.
Lemma reg_putraw_valid R c s ln : regs_valid R -> valid s -> regs_valid (reg_putraw R c s ln).
Proof.
  intros HR Hs. unfold reg_putraw. apply upd_valid; [exact HR|]. apply valid_app; [|exact Hs].
  destruct (c_isupper c); [|apply valid_nil]. destruct (R (c_tolower c)) as [[t l]|] eqn:E; [eapply HR, E|apply valid_nil].
Qed.
Lemma rot_step_valid R d : regs_valid R -> regs_valid (rot_step R d).
Proof.
  intro HR. unfold rot_step, reg_get. destruct (R _) as [[t l]|] eqn:E; [|exact HR]. apply reg_putraw_valid; [exact HR|eapply HR, E].
Qed.
Lemma rotate_valid R : regs_valid R -> regs_valid (rotate R).
Proof.
  unfold rotate. generalize rot_digits. intro ds. revert R. induction ds as [|d ds IH]; intros R HR; cbn [fold_left]; [exact HR|].
  apply IH, rot_step_valid, HR.
Qed.
Lemma reg_put_valid R c s ln : regs_valid R -> valid s -> regs_valid (reg_put R c s ln).
Proof.
  intros HR Hs. unfold reg_put. apply reg_putraw_valid; [|exact Hs].
  destruct (_ && _); [|exact HR]. apply reg_putraw_valid; [apply rotate_valid, HR|exact Hs].
Qed.
Lemma reg_get_valid R c t ln : regs_valid R -> reg_get R c = Some (t, ln) -> valid t.
Proof. intros HR H. unfold reg_get in H. eapply HR, H. Qed.

(* closure of line_valid *)
Lemma lv_app x y : line_valid x -> line_valid y -> line_valid (x ++ y).
Proof. intros. unfold line_valid in *. apply Forall_app. split; assumption. Qed.
Lemma lv_nil : line_valid [].
Proof. constructor. Qed.
Lemma lv_cons c x : chr_valid c -> line_valid x -> line_valid (c :: x).
Proof. intros. constructor; assumption. Qed.
Lemma lv_firstn n x : line_valid x -> line_valid (firstn n x).
Proof. apply Forall_firstn'. Qed.
Lemma lv_skipn n x : line_valid x -> line_valid (skipn n x).
Proof. apply Forall_skipn'. Qed.
Lemma lv_removelast x : line_valid x -> line_valid (removelast x).
Proof. intro H. rewrite removelast_firstn_len. apply lv_firstn, H. Qed.
Lemma ascii_valid (x : N) : (0 < x <= 127)%N -> chr_valid [x].
Proof.
  intro H. exists x. split; [unfold scalar; lia|]. unfold encode. destruct (N.ltb_spec x 128); [reflexivity|lia].
Qed.
Lemma lv_repeat (x : N) n : (0 < x <= 127)%N -> line_valid (repeat [x] n).
Proof. intro H. induction n; cbn [repeat]; [constructor|constructor; [apply ascii_valid, H|exact IHn]]. Qed.
Lemma lv_repeat_app n x : line_valid x -> line_valid (repeat_app n x).
Proof. intro H. induction n; cbn [repeat_app]; [constructor|apply lv_app; assumption]. Qed.
Lemma lv_tl c x : line_valid (c :: x) -> line_valid x.
Proof. intro H. inversion H; assumption. Qed.

Lemma case_chr_valid op c : chr_valid c -> chr_valid (case_chr op c).
Proof.
  intros (k & Hk & ->). unfold encode.
  destruct (N.ltb_spec k 128).
  - cbn [case_chr]. destruct (N.leb_spec k 127); [|lia]. apply ascii_valid. unfold scalar in Hk.
    unfold c_tolower, c_toupper, c_islower, c_isupper.
    destruct op; repeat match goal with |- context [if ?c then _ else _] => destruct c eqn:? end; lia.
  - exists k. split; [exact Hk|]. unfold encode. destruct (N.ltb_spec k 128); [lia|].
    destruct (N.ltb_spec k 2048); [|destruct (N.ltb_spec k 65536)]; cbn [case_chr];
    match goal with |- context [(?h <=? 127)%N] => destruct (N.leb_spec h 127); [lia|reflexivity] end.
Qed.
Lemma lv_map_case op x : line_valid x -> line_valid (map (case_chr op) x).
Proof. unfold line_valid. induction 1; cbn [map]; constructor; [apply case_chr_valid; assumption|assumption]. Qed.

(* insert mode *)
Lemma nl_line_valid : line_valid [nlc].
Proof. apply lv_cons; [apply nlc_valid|apply lv_nil]. Qed.
Lemma span_blank_valid x : line_valid x -> line_valid (fst (span_blank x)) /\ line_valid (snd (span_blank x)).
Proof.
  unfold line_valid. induction 1 as [|c x Hc Hx IH]; cbn [span_blank]; [split; constructor|].
  destruct (is_blankc c); [|split; [constructor|constructor; assumption]].
  destruct (span_blank x) as [a z]. cbn [fst snd] in *. destruct IH. split; [constructor; assumption|assumption].
Qed.
Lemma span_blank_n_valid n : forall x, line_valid x -> line_valid (fst (span_blank_n n x)) /\ line_valid (snd (span_blank_n n x)).
Proof.
  induction n as [|n IH]; intros x Hx; cbn [span_blank_n]; [split; [constructor|exact Hx]|].
  destruct x as [|c x]; [split; constructor|]. destruct (is_blankc c); [|split; [constructor|exact Hx]].
  inversion Hx; subst. destruct (IH x ltac:(assumption)) as [A B]. destruct (span_blank_n n x) as [a z]. cbn [fst snd] in *.
  split; [constructor; assumption|assumption].
Qed.
Lemma reg_chars_valid R c : regs_valid R -> line_valid (reg_chars R c).
Proof.
  intro HR. unfold reg_chars. destruct (reg_get R c) as [[t ln]|] eqn:E; [|apply lv_nil].
  apply chop_valid. eapply reg_get_valid; eassumption.
Qed.
Definition lst_valid (st : lstate) : Prop := line_valid (fst (fst st)) /\ line_valid (snd (fst st)).
Lemma led_key_valid R pe st k : regs_valid R -> lst_valid st -> chr_valid k -> lst_valid (led_key R pe st k).
Proof.
  destruct st as [[sb ai] pend]. unfold lst_valid. cbn [fst snd]. intros HR [Hs Ha] Hk. unfold led_key.
  pose proof (fun c => reg_chars_valid R c HR) as HRC.
  repeat match goal with |- context [if ?c then _ else _] => destruct c eqn:? end; cbn [fst snd];
    split; try assumption; try apply lv_removelast; try apply lv_firstn; try apply lv_nil; try assumption.
  all: try (apply lv_app; [assumption|]; first [apply HRC|apply lv_nil|apply lv_cons; [|apply lv_nil]; first [assumption|apply ascii_valid; lia]]).
  all: try (destruct sb as [|c0 r]; [assumption|]; destruct (is_blankc c0); [eapply lv_tl; eassumption|assumption]).
Qed.
Lemma led_line_valid R pe keys : regs_valid R -> forall st, line_valid keys -> lst_valid st -> lst_valid (fold_left (led_key R pe) keys st).
Proof.
  intro HR. induction keys as [|k keys IH]; intros st Hk H1; cbn [fold_left]; [assumption|].
  inversion Hk; subst. apply IH; [assumption|]. apply led_key_valid; assumption.
Qed.
Lemma split_typed_valid t : line_valid t -> Forall line_valid (split_typed t).
Proof.
  unfold line_valid. induction 1 as [|k t Hk Ht IH]; cbn [split_typed]; [repeat constructor|].
  destruct (is_nlb k); [constructor; [constructor|exact IH]|].
  destruct (split_typed t) as [|s0 ss]; [repeat constructor; assumption|].
  inversion IH; subst. constructor; [constructor; assumption|assumption].
Qed.
Lemma led_loop_valid R segs : regs_valid R -> forall pref post ai acc nls, Forall line_valid segs -> line_valid pref -> line_valid post -> line_valid ai -> line_valid acc ->
  line_valid (fst (fst (led_loop R segs pref post ai acc nls))) /\ line_valid (snd (fst (led_loop R segs pref post ai acc nls))).
Proof.
  intro HR. induction segs as [|seg rest IH]; intros pref post ai acc nls Hs Hp Hq Ha Hc; cbn [led_loop].
  - cbn [fst snd]. split; [apply lv_app; assumption|assumption].
  - inversion Hs; subst. unfold led_line.
    match goal with |- context [fold_left ?f seg ?st] =>
      pose proof (led_line_valid R (is_nil pref) seg HR st ltac:(assumption) (conj lv_nil Ha)) as [L1 L2];
      destruct (fold_left f seg st) as [[ln ai'] pend] eqn:EF end. cbn [fst snd] in L1, L2.
    cbn [fst]. cbv beta iota zeta. match goal with |- context [if is_nil rest then (?a ++ post, post, _) else _] => set (acc' := a) end.
    assert (Hacc : line_valid acc').
    { assert (H_ai : forall c : bool, line_valid (if c then ai' else [])) by (intros []; [exact L2|apply lv_nil]).
      assert (H_nl : forall c : bool, line_valid (if c then [] else [nlc])) by (intros []; [apply lv_nil|apply nl_line_valid]).
      unfold acc'. apply lv_app; [exact Hc|]. apply lv_app; [apply H_ai|]. apply lv_app; [exact Hp|]. apply lv_app; [exact L1|apply H_nl]. }
    clearbody acc'. destruct rest as [|s1 rest']; cbn [is_nil].
    + cbn [fst snd]. split; [apply lv_app; assumption|assumption].
    + apply IH; try assumption; [apply lv_nil|apply span_blank_valid, Hq|].
      destruct (is_nil pref); [apply lv_app; [exact L2|apply lv_firstn, L1]|exact L2].
Qed.
Lemma led_input_valid R pref post typed : regs_valid R -> line_valid pref -> line_valid post -> line_valid typed ->
  line_valid (fst (fst (led_input R pref post typed))) /\ line_valid (snd (fst (led_input R pref post typed))).
Proof.
  intros HR Hp Hq Ht. unfold led_input. destruct (span_blank_n_valid ai_max pref Hp) as [A B].
  destruct (span_blank_n ai_max pref) as [ai pref']. cbn [fst snd] in A, B.
  apply led_loop_valid; try assumption; [apply split_typed_valid, Ht|apply lv_nil].
Qed.
Lemma vi_input_valid R pref post typed : regs_valid R -> line_valid pref -> line_valid post -> line_valid typed ->
  line_valid (fst (fst (fst (vi_input R pref post typed)))).
Proof.
  intros HR Hp Hq Ht. unfold vi_input. destruct (led_input_valid R pref post typed HR Hp Hq Ht) as [A _].
  destruct (led_input R pref post typed) as [[rep post'] nls]. exact A.
Qed.
Lemma vi_indents_valid b r : buf_valid b -> line_valid (vi_indents (getl b r)).
Proof. intro H. unfold vi_indents. apply span_blank_valid, optl_valid, H. Qed.
Lemma region_text_valid b g : buf_valid b -> line_valid (region_text b g).
Proof. intro H. unfold region_text. destruct (g_ln g); apply lbuf_region_valid, H. Qed.

(* the commands *)
Lemma finish_valid rows b R s md : buf_valid b -> regs_valid R -> est_valid (finish rows b R s md).
Proof. intros. split; assumption. Qed.
Lemma vi_change_valid rows b R s y g typed : buf_valid b -> regs_valid R -> line_valid typed -> est_valid (vi_change rows b R s y g typed).
Proof.
  intros Hb HR Ht. unfold vi_change.
  set (pref := if g_ln g then _ else _). set (post := if g_ln g || _ then _ else _).
  assert (Hp : line_valid pref) by (unfold pref; destruct (g_ln g); [apply vi_indents_valid, Hb|apply sub_l_valid, optl_valid, Hb]).
  assert (Hq : line_valid post) by (unfold post; destruct (_ || _); [apply nl_line_valid|apply sub_l_valid, optl_valid, Hb]).
  assert (HR' : regs_valid (reg_put R y (flat (region_text b g)) (g_ln g))) by (apply reg_put_valid; [exact HR|apply flat_valid, region_text_valid, Hb]).
  pose proof (vi_input_valid _ pref post typed HR' Hp Hq Ht) as V.
  destruct (vi_input _ pref post typed) as [[[rep row] off] nls]. cbn [fst] in V.
  apply finish_valid; [apply lbuf_edit_valid; assumption|exact HR'].
Qed.
Lemma vi_case_valid rows b R s g op : buf_valid b -> regs_valid R -> est_valid (vi_case rows b R s g op).
Proof.
  intros Hb HR. unfold vi_case. apply finish_valid; [|exact HR].
  pose proof (lv_map_case op _ (region_text_valid b g Hb)) as V.
  destruct (g_ln g); apply lbuf_edit_valid; try exact Hb; [exact V|].
  apply lv_app; [apply sub_l_valid, optl_valid, Hb|]. apply lv_app; [exact V|apply sub_l_valid, optl_valid, Hb].
Qed.
Lemma shift_line_valid right l : line_valid l -> line_valid (shift_line right l).
Proof.
  intro H. unfold shift_line. destruct right; destruct l as [|c r]; try assumption.
  - destruct (is_nlb c); [assumption|]. apply lv_cons; [apply ascii_valid; lia|assumption].
  - destruct (is_blankc c); [eapply lv_tl; eassumption|assumption].
Qed.
Lemma shift_rows_valid right n : forall i b, buf_valid b -> buf_valid (shift_rows right n i b).
Proof.
  induction n as [|n IH]; intros i b Hb; cbn [shift_rows]; [exact Hb|]. apply IH.
  destruct (getl b i) as [l|] eqn:E; [|exact Hb]. apply lbuf_edit_valid; [exact Hb|]. apply shift_line_valid.
  pose proof (optl_valid b i Hb) as V. rewrite E in V. exact V.
Qed.
Lemma vi_shift_valid rows b R s g right : buf_valid b -> regs_valid R -> est_valid (vi_shift rows b R s g right).
Proof. intros Hb HR. unfold vi_shift. apply finish_valid; [apply shift_rows_valid, Hb|exact HR]. Qed.

Lemma exec_op_valid rows e y a1 op a2 t typed e' : est_valid e -> line_valid typed ->
  exec_op rows e y a1 op a2 t typed = Some e' -> est_valid e'.
Proof.
  intros [Hb HR] Ht X. unfold exec_op in X. destruct (op_target _ _ _ _ _ _ _) as [|cl cc|k r2 o2 cl cc pc]; [discriminate| |].
  - inversion X; subst. apply finish_valid; assumption.
  - inversion X; subst. clear X. set (g := vc_region _ _ _ _ _ _).
    destruct op; try (apply vi_shift_valid; assumption); try (apply vi_case_valid; assumption); try (apply vi_change_valid; assumption).
    + pose proof (vi_delete_valid (s_buf e) (s_regs e) y g Hb) as V. destruct (vi_delete (s_buf e) (s_regs e) y g) as [b' R'] eqn:ED.
      cbn [fst] in V. apply finish_valid; [exact V|].
      unfold vi_delete in ED. destruct (g_ln g); inversion ED; subst; apply reg_put_valid; try exact HR; apply flat_valid, lbuf_region_valid, Hb.
    + apply finish_valid; [exact Hb|]. unfold vi_yank. apply reg_put_valid; [exact HR|].
      destruct (g_ln g); apply flat_valid, lbuf_region_valid, Hb.
Qed.
Lemma exec_put_valid rows e y a1 after : est_valid e -> est_valid (exec_put rows e y a1 after).
Proof.
  intros [Hb HR]. unfold exec_put. destruct (reg_get (s_regs e) y) as [[txt ln]|] eqn:EG; [|apply finish_valid; assumption].
  destruct txt as [|c0 tl]; [apply finish_valid; assumption|].
  pose proof (chop_valid _ (reg_get_valid _ _ _ _ HR EG)) as V. set (txt := c0 :: tl) in *. clearbody txt.
  destruct ln; apply finish_valid; try exact HR.
  - apply lbuf_edit_valid; [|apply lv_repeat_app, V]. destruct (_ =? 0); [|exact Hb]. apply lbuf_edit_valid; [exact Hb|apply nl_line_valid].
  - set (ln := if _ <? _ then _ else _).
    assert (Hl : line_valid ln) by (unfold ln; destruct (_ <? _); [apply optl_valid, Hb|apply nl_line_valid]).
    apply lbuf_edit_valid; [exact Hb|]. apply lv_app; [apply sub_l_valid, Hl|]. apply lv_app; [apply lv_repeat_app, V|apply sub_l_valid, Hl].
Qed.
Lemma join_loop_valid ls : forall first sb off, buf_valid ls -> line_valid sb -> line_valid (fst (join_loop ls first sb off)).
Proof.
  induction ls as [|l r IH]; intros first sb off Hl Hs; cbn [join_loop]; [exact Hs|].
  inversion Hl; subst. apply IH; [assumption|]. apply lv_app; [exact Hs|]. apply lv_app; [apply lv_repeat; lia|].
  unfold body_of. apply lv_removelast. destruct first; [assumption|apply span_blank_valid; assumption].
Qed.
Lemma exec_join_valid rows e a1 : est_valid e -> est_valid (exec_join rows e a1).
Proof.
  intros [Hb HR]. unfold exec_join. destruct (getl _ _); [|apply finish_valid; assumption]. destruct (getl _ _); [|apply finish_valid; assumption].
  pose proof (join_loop_valid (rows_between (s_buf e) (v_row (s_vs e)) (v_row (s_vs e) + (if a1 <=? 1 then 2 else a1))) true [] 0) as V.
  destruct (join_loop _ true [] 0) as [sb off]. cbn [fst] in V.
  apply finish_valid; [|exact HR]. apply lbuf_edit_valid; [exact Hb|]. apply lv_app; [|apply nl_line_valid].
  apply V; [|apply lv_nil]. unfold rows_between, buf_valid. apply Forall_firstn', Forall_skipn', Hb.
Qed.
Lemma exec_replace_valid rows e a1 cs : est_valid e -> chr_valid cs -> est_valid (exec_replace rows e a1 cs).
Proof.
  intros [Hb HR] Hc. unfold exec_replace. destruct (getl (s_buf e) (v_row (s_vs e))) as [ln|] eqn:E; [|apply finish_valid; assumption].
  pose proof (optl_valid (s_buf e) (v_row (s_vs e)) Hb) as V. rewrite E in V. cbn [optl] in V.
  destruct (_ || _); [apply finish_valid; assumption|].
  assert (W : buf_valid (lbuf_edit (s_buf e) (Some (sub_l ln 0 (ren_noeol (Some ln) (v_off (s_vs e))) ++
      repeat_app (Z.to_nat (Z.max 1 a1)) [cs] ++ sub_l ln (ren_noeol (Some ln) (v_off (s_vs e)) + Z.max 1 a1) (-1))) (v_row (s_vs e)) (v_row (s_vs e) + 1))).
  { apply lbuf_edit_valid; [exact Hb|]. apply lv_app; [apply sub_l_valid, V|]. apply lv_app; [|apply sub_l_valid, V].
    apply lv_repeat_app, lv_cons; [exact Hc|apply lv_nil]. }
  destruct (is_nlb cs); apply finish_valid; assumption.
Qed.
Lemma exec_insert_valid rows e k typed : est_valid e -> line_valid typed -> est_valid (exec_insert rows e k typed).
Proof.
  intros [Hb HR] Ht. unfold exec_insert.
  set (oln := getl (s_buf e) (v_row (s_vs e))).
  set (line_ins := match oln with Some _ => negb (is_oO k) | None => false end).
  set (off := match oln with Some (c :: _) => if is_nlb c then 0 else _ | _ => _ end).
  set (pref := if line_ins then _ else _). set (post := if line_ins then _ else _).
  assert (Hp : line_valid pref) by (unfold pref; destruct line_ins; [apply sub_l_valid, optl_valid, Hb|apply vi_indents_valid, Hb]).
  assert (Hq : line_valid post) by (unfold post; destruct line_ins; [apply sub_l_valid, optl_valid, Hb|apply nl_line_valid]).
  pose proof (vi_input_valid (s_regs e) pref post typed HR Hp Hq Ht) as V.
  destruct (vi_input (s_regs e) pref post typed) as [[[rep row] off'] nls]. cbn [fst] in V.
  destruct (nextlines rows nls _) as [xrow top']. apply finish_valid; [|exact HR].
  apply lbuf_edit_valid; [|exact V]. destruct (_ && _); [|exact Hb]. apply lbuf_edit_valid; [exact Hb|apply nl_line_valid].
Qed.

Lemma exec1_valid rows c e e' : est_valid e -> cmd_valid c -> exec1 rows c e = Some e' -> est_valid e'.
Proof.
  intros He Hc X. destruct c; cbn [exec1 cmd_valid] in *.
  - inversion X; subst. destruct He. split; assumption.
  - destruct (do_motion _ _ _ _ _ _); inversion X; subst. destruct He. split; assumption.
  - eapply exec_op_valid; eassumption.
  - inversion X; subst. apply exec_put_valid, He.
  - inversion X; subst. apply exec_join_valid, He.
  - inversion X; subst. apply exec_replace_valid; assumption.
  - inversion X; subst. apply exec_insert_valid; assumption.
Qed.
Lemma exec_valid rows cs : forall e e', est_valid e -> Forall cmd_valid cs -> exec rows cs e = Some e' -> est_valid e'.
Proof.
  induction cs as [|c cs IH]; intros e e' He Hc X; cbn [exec] in X; [inversion X; subst; exact He|].
  inversion Hc; subst. destruct (exec1 rows c e) as [e1|] eqn:E1; [|discriminate].
  eapply IH; [eapply exec1_valid; eassumption|assumption|exact X].
Qed.
(* the bytes of every line and of every register *)
Lemma est_valid_bytes e : est_valid e ->
  Forall (fun l => valid (flat l)) (s_buf e) /\ (forall c t ln, reg_get (s_regs e) c = Some (t, ln) -> valid t).
Proof.
  intros [Hb HR]. split.
  - unfold buf_valid in Hb. eapply Forall_impl; [|exact Hb]. intros l Hl. apply flat_valid, Hl.
  - intros c t ln H. eapply reg_get_valid; eassumption.
Qed.
Lemma exec_utf8 rows cs e e' : est_valid e -> Forall cmd_valid cs -> exec rows cs e = Some e' ->
  est_valid e' /\ Forall (fun l => valid (flat l)) (s_buf e') /\ (forall c t ln, reg_get (s_regs e') c = Some (t, ln) -> valid t).
Proof.
  intros He Hc X. pose proof (exec_valid rows cs e e' He Hc X) as V. split; [exact V|]. apply est_valid_bytes, V.
Qed.
Lemma init_est_valid b : buf_valid b -> est_valid (init_est b).
Proof. intro H. split; [exact H|apply regs0_valid]. Qed.

(* ====================================================================================== *)
(* C08_refines_partial: x X D against a declarative one-line reference                      *)
(* ====================================================================================== *)
Lemma nextoff_fwd b r l : getl b r = Some l -> forall n o, 0 <= o < slen l ->
  iter_break n (vi_nextoff b 1) (r, o) = Some (r, Z.min (o + Z.of_nat n) (slen l - 1)).
Proof.
  intro E. induction n as [|n IH]; intros o Ho.
  - cbn [iter_break]. f_equal. f_equal. lia.
  - cbn [iter_break]. unfold vi_nextoff, lbuf_lnnext. rewrite E.
    destruct (Z.ltb_spec (o + 1) 0); [lia|]. destruct (Z.geb_spec (o + 1) (slen l)); cbn [orb].
    + f_equal. f_equal. lia.
    + rewrite IH by lia. f_equal. f_equal. lia.
Qed.
Lemma nextoff_bwd b r l : getl b r = Some l -> forall n o, 0 <= o < slen l ->
  iter_break n (vi_nextoff b (-1)) (r, o) = Some (r, Z.max (o - Z.of_nat n) 0).
Proof.
  intro E. induction n as [|n IH]; intros o Ho.
  - cbn [iter_break]. f_equal. f_equal. lia.
  - cbn [iter_break]. unfold vi_nextoff, lbuf_lnnext. rewrite E.
    destruct (Z.ltb_spec (o + -1) 0); cbn [orb].
    + f_equal. f_equal. lia.
    + destruct (Z.geb_spec (o + -1) (slen l)); [lia|]. rewrite IH by lia. f_equal. f_equal. lia.
Qed.

(* the first half of delete_chars_spec without the validity hypothesis, with the cursor offset *)
Lemma delete_chars_core rows e y a1 a2 t k r2 o2 cl cc pc e1 l1 l2 : plain_reg y ->
  let b := s_buf e in let s := s_vs e in
  let o1 := ren_noeol (getl b (v_row s)) (v_off s) in
  buf_wf b -> 0 <= v_off s ->
  op_target b rows s a1 a2 t o1 = TOk k r2 o2 cl cc pc ->
  let g := vc_region b k (v_row s) o1 r2 o2 in
  g_ln g = false -> getl b (g_r1 g) = Some l1 -> getl b (g_r2 g) = Some l2 -> g_o2 g <= slen l2 - 1 ->
  exec_op rows e y a1 Od a2 t [] = Some e1 ->
  let nl := sub_l l1 0 (g_o1 g) ++ sub_l l2 (g_o2 g) (-1) in
  reg_get (s_regs e1) y = Some (flat (lbuf_region b (g_r1 g) (g_o1 g) (g_r2 g) (g_o2 g)), false) /\
  s_buf e1 = firstn (Z.to_nat (g_r1 g)) b ++ [nl] ++ skipn (Z.to_nat (g_r2 g + 1)) b /\
  v_row (s_vs e1) = g_r1 g /\ v_off (s_vs e1) = ren_noeol (Some nl) (g_o1 g).
Proof.
  intros [Hy Hq] b s o1 HW Ho E g Hln El1 El2 Hb2 X nl.
  rewrite (exec_op_delete rows e y a1 a2 t k r2 o2 cl cc pc E) in X. fold b s o1 g in X.
  assert (H1 : 0 <= o1) by (apply ren_noeol_nonneg, Ho).
  assert (H2 : 0 <= o2).
  { destruct (vc_region_rows b k (v_row s) o1 r2 o2) as (_ & _ & C). fold g in C. rewrite Hln in C. destruct (Z.ltb_spec o2 0); [discriminate|lia]. }
  destruct (region_char_facts b k (v_row s) o1 r2 o2 l1 HW H1 H2 El1) as (F1 & F2 & F3). fold g in F1, F2, F3.
  clear E. clearbody g. clearbody o1. clearbody s. clearbody b.
  pose proof (getl_wf _ _ _ HW El1) as W1. pose proof (getl_wf _ _ _ HW El2) as W2.
  destruct (region_cut b (g_r1 g) (g_o1 g) (g_r2 g) (g_o2 g) l1 l2 El1 El2 F3 ltac:(lia) ltac:(lia)) as (pre & x & post & Eb & Lp & Lx & Ecat).
  assert (Wnl : line_wf nl) by (apply cut_wf; try assumption; lia).
  assert (EB : fst (vi_delete b (s_regs e) y g) = pre ++ [nl] ++ post).
  { unfold vi_delete. rewrite Hln, El1, El2. cbn [fst optl]. fold nl. replace (g_r2 g + 1) with (g_r1 g + Z.of_nat (length x)) by lia.
    rewrite lbuf_edit_some by (try lia; rewrite Eb, !blen_app; unfold blen; lia).
    rewrite (split_text_line nl Wnl). rewrite Eb, <- Lp. apply set_row_decomp. }
  assert (ET : region_text b g = lbuf_region b (g_r1 g) (g_o1 g) (g_r2 g) (g_o2 g)) by (unfold region_text; rewrite Hln; reflexivity).
  rewrite EB, ET, Hln in X. inversion X; subst e1. clear X.
  rewrite finish_regs, finish_buf. split; [apply put_get_plain; assumption|]. split.
  { rewrite Eb, <- Lp, Nat2Z.id, firstn_app_exact. f_equal. f_equal.
    replace (g_r2 g + 1) with (Z.of_nat (length (pre ++ x))) by (rewrite app_length; lia).
    rewrite Nat2Z.id, app_assoc, skipn_app_exact. reflexivity. }
  set (st := vs_pos (vs_mot s cl cc pc) (g_r1 g) (g_o1 g)).
  set (b' := pre ++ (@cons line nl nil) ++ post).
  assert (Hrow : 0 <= v_row st < blen b').
  { unfold st, b'. cbn [vs_pos v_row]. rewrite !blen_app. unfold blen. cbn [length]. lia. }
  assert (G : getl b' (g_r1 g) = Some nl).
  { unfold b'. rewrite getl_app_r by lia. rewrite <- Lp, Z.sub_diag. reflexivity. }
  split.
  - change (pre ++ nl :: post) with b'. rewrite finish_row by exact Hrow. reflexivity.
  - change (pre ++ nl :: post) with b'. rewrite finish_off by exact Hrow. unfold st. cbn [vs_pos v_row v_off]. rewrite G. reflexivity.
Qed.

Lemma firstn_body (body : list chr) x n : (n <= length body)%nat -> firstn n (body ++ x) = firstn n body.
Proof. intro H. rewrite firstn_app. replace (n - length body)%nat with 0%nat by lia. cbn [firstn]. apply app_nil_r. Qed.
Lemma skipn_body (body : list chr) x n : (n <= length body)%nat -> skipn n (body ++ x) = skipn n body ++ x.
Proof. intro H. rewrite skipn_app. replace (n - length body)%nat with 0%nat by lia. reflexivity. Qed.

(* the motion targets of x X D from a valid cursor *)
Lemma line_target rows b s cnt k l : buf_wf b -> cursor_ok b (v_row s) (v_off s) -> getl b (v_row s) = Some l -> 0 <= cnt ->
  let n := Z.max 1 cnt in let o := v_off s in
  let mk := match k with Lx => Kspace | LX => Kbs | LD => Kdollar end in
  op_target b rows s cnt 0 (TMot mk) (ren_noeol (getl b (v_row s)) o) =
  TOk mk (v_row s) (match k with Lx => Z.min (o + n) (slen l - 1) | LX => Z.max (o - n) 0 | LD => slen l - 1 end) (v_cl s) (v_cc s) (v_pcol s).
Proof.
  intros HW Hc El Hn n o mk. pose proof (getl_wf _ _ _ HW El) as Wl. pose proof (wf_slen_pos l Wl) as Hp.
  assert (Hok : off_ok l o) by (unfold cursor_ok in Hc; rewrite El in Hc; exact Hc).
  rewrite El, (ren_noeol_id l o Wl Hok). destruct Hok as [H0 H1].
  assert (Ecnt : (if cnt =? 0 then 1 else cnt) * (if 0 =? 0 then 1 else 0) = n) by (unfold n; destruct (Z.eqb_spec cnt 0); cbn; lia).
  unfold op_target. rewrite Ecnt. unfold mk. destruct k; unfold vi_motion; cbn [vi_motionln].
  - rewrite (nextoff_fwd b (v_row s) l El) by (fold o; lia). fold o. f_equal. f_equal. lia.
  - rewrite (nextoff_bwd b (v_row s) l El) by (fold o; lia). fold o. f_equal. f_equal. lia.
  - f_equal. apply lbuf_eol_some; assumption.
Qed.

Lemma refines_line_deletes rows e k y cnt e1 body : plain_reg y ->
  let b := s_buf e in let s := s_vs e in
  buf_wf b -> cursor_ok b (v_row s) (v_off s) -> getl b (v_row s) = Some (body ++ [nlc]) -> 0 <= cnt ->
  exec1 rows (lcmd k y cnt) e = Some e1 ->
  let '(a, z) := ref_span k (Z.max 1 cnt) (v_off s) (Z.of_nat (length body)) in
  let '(nb, del) := ref_line_delete body a z in
  s_buf e1 = set_row b (v_row s) [nb ++ [nlc]] 1 /\
  reg_get (s_regs e1) y = Some (flat del, false) /\
  v_row (s_vs e1) = v_row s /\ v_off (s_vs e1) = ren_noeol (Some (nb ++ [nlc])) a.
Proof.
  intros Hy b s HW Hc El Hn X.
  set (l := body ++ [nlc]) in *. pose proof (getl_wf _ _ _ HW El) as Wl.
  assert (Hs : slen l = Z.of_nat (length body) + 1) by (unfold l, slen; rewrite app_length; cbn [length]; lia).
  assert (Hok : off_ok l (v_off s)) by (unfold cursor_ok in Hc; rewrite El in Hc; exact Hc). destruct Hok as [H0 H1].
  pose proof (line_target rows b s cnt k l HW Hc El Hn) as T. cbv zeta in T.
  set (mk := match k with Lx => Kspace | LX => Kbs | LD => Kdollar end) in *.
  set (o2 := match k with Lx => _ | LX => _ | LD => _ end) in T.
  assert (Ho2 : 0 <= o2 <= slen l - 1) by (unfold o2; destruct k; lia).
  assert (EX : exec1 rows (lcmd k y cnt) e = exec_op rows e y cnt Od 0 (TMot mk) []) by (destruct k; reflexivity).
  rewrite EX in X. clear EX.
  assert (Hincl : incl_key mk = false) by (destruct k; reflexivity).
  assert (RN : ren_noeol (getl b (v_row s)) (v_off s) = v_off s) by (rewrite El; apply ren_noeol_id; [exact Wl|split; assumption]).
  assert (Hoo : off_ok l (Z.min (ren_noeol (getl b (v_row s)) (v_off s)) o2)).
  { rewrite RN. unfold off_ok. split; [lia|]. destruct H1 as [H1|[H1 H1']]; [left; lia|right; lia]. }
  destruct (vc_region_same_row b mk (v_row s) (ren_noeol (getl b (v_row s)) (v_off s)) o2 l HW El ltac:(lia) Hoo) as (G1 & G2 & G3 & G4 & G5).
  rewrite Hincl in G5. cbn [andb] in G5.
  pose proof (delete_chars_core rows e y cnt 0 (TMot mk) mk (v_row s) o2 (v_cl s) (v_cc s) (v_pcol s) e1 l l Hy HW H0 T) as D.
  cbv zeta in D. fold b s in D. rewrite G2, G3, G4, G5 in D. specialize (D G1 El El).
  rewrite RN in D.
  specialize (D ltac:(lia) X). destruct D as (D1 & D2 & D3 & D4).
  set (a := Z.min (v_off s) o2) in *. set (z := Z.max (v_off s) o2) in *.
  assert (Haz : ref_span k (Z.max 1 cnt) (v_off s) (Z.of_nat (length body)) = (a, z)).
  { unfold ref_span, a, z, o2. destruct k; f_equal; lia. }
  rewrite Haz. unfold ref_line_delete.
  assert (Ha : 0 <= a <= z /\ z <= Z.of_nat (length body)) by (unfold a, z; lia).
  assert (E1 : sub_l l 0 a = firstn (Z.to_nat a) body) by (rewrite sub_l_firstn by lia; unfold l; apply firstn_body; lia).
  assert (E2 : sub_l l z (-1) = skipn (Z.to_nat z) body ++ [nlc]) by (rewrite sub_l_skipn by lia; unfold l; apply skipn_body; lia).
  assert (E3 : lbuf_region b (v_row s) a (v_row s) z = firstn (Z.to_nat (z - a)) (skipn (Z.to_nat a) body)).
  { unfold lbuf_region. rewrite El, Z.eqb_refl. rewrite sub_l_mid by lia. unfold l. rewrite skipn_body by lia.
    apply firstn_body. rewrite skipn_length. lia. }
  rewrite E1, E2, E3 in *. rewrite <- app_assoc. repeat split; assumption.
Qed.

(* ---------- ~ and r ---------- *)
Lemma case_chr_nl op c : b0 c <> 10%N -> b0 (case_chr op c) <> 10%N.
Proof.
  destruct c as [|x r]; cbn [case_chr b0 hd0]; [auto|]. intro H.
  destruct (N.leb_spec x 127); cbn [b0 hd0]; [|exact H].
  unfold c_tolower, c_toupper, c_islower, c_isupper.
  destruct op; repeat match goal with |- context [if ?c then _ else _] => destruct c eqn:? end; lia.
Qed.
Lemma nonl_map_case op x : Forall (fun c : chr => b0 c <> 10%N) x -> Forall (fun c : chr => b0 c <> 10%N) (map (case_chr op) x).
Proof. induction 1; cbn [map]; constructor; [apply case_chr_nl; assumption|assumption]. Qed.
Lemma body_wf (body : list chr) : Forall (fun c : chr => b0 c <> 10%N) body -> line_wf (body ++ [nlc]).
Proof. intro H. exists body. split; [reflexivity|exact H]. Qed.
Lemma wf_body (body : list chr) : line_wf (body ++ [nlc]) -> Forall (fun c : chr => b0 c <> 10%N) body.
Proof. intros (b2 & E & H). apply app_inj_tail in E. destruct E as [-> _]. exact H. Qed.

Lemma refines_tilde rows e cnt e1 body :
  let b := s_buf e in let s := s_vs e in
  buf_wf b -> cursor_ok b (v_row s) (v_off s) -> getl b (v_row s) = Some (body ++ [nlc]) -> 0 <= cnt ->
  exec1 rows (c_tilde cnt) e = Some e1 ->
  let z := Z.min (v_off s + Z.max 1 cnt) (Z.of_nat (length body)) in
  let nb := ref_tilde body (v_off s) z in
  s_buf e1 = set_row b (v_row s) [nb ++ [nlc]] 1 /\ s_regs e1 = s_regs e /\
  v_row (s_vs e1) = v_row s /\ v_off (s_vs e1) = ren_noeol (Some (nb ++ [nlc])) z.
Proof.
  intros b s HW Hc El Hn X.
  set (l := body ++ [nlc]) in *. pose proof (getl_wf _ _ _ HW El) as Wl.
  assert (Hs : slen l = Z.of_nat (length body) + 1) by (unfold l, slen; rewrite app_length; cbn [length]; lia).
  assert (Hok : off_ok l (v_off s)) by (unfold cursor_ok in Hc; rewrite El in Hc; exact Hc). destruct Hok as [H0 H1].
  pose proof (line_target rows b s cnt Lx l HW Hc El Hn) as T. cbv zeta in T.
  set (o2 := Z.min (v_off s + Z.max 1 cnt) (slen l - 1)) in T.
  assert (Ho2 : v_off s <= o2 <= slen l - 1) by (unfold o2; lia).
  assert (RN : ren_noeol (getl b (v_row s)) (v_off s) = v_off s) by (rewrite El; apply ren_noeol_id; [exact Wl|split; assumption]).
  assert (Hoo : off_ok l (Z.min (ren_noeol (getl b (v_row s)) (v_off s)) o2)).
  { rewrite RN. unfold off_ok. split; [lia|]. destruct H1 as [H1|[H1 H1']]; [left; lia|right; lia]. }
  destruct (vc_region_same_row b Kspace (v_row s) (ren_noeol (getl b (v_row s)) (v_off s)) o2 l HW El ltac:(lia) Hoo) as (G1 & G2 & G3 & G4 & G5).
  cbn [incl_key andb] in G5. rewrite RN in *.
  replace (Z.min (v_off s) o2) with (v_off s) in G4 by lia. replace (Z.max (v_off s) o2) with o2 in G5 by lia.
  cbv zeta. replace (Z.min (v_off s + Z.max 1 cnt) (Z.of_nat (length body))) with o2 by (unfold o2; lia).
  unfold c_tilde, exec1, exec_op in X. fold b s in X. rewrite RN, T in X.
  change (v_row (vs_mot s (v_cl s) (v_cc s) (v_pcol s))) with (v_row s) in X.
  set (g := vc_region b Kspace (v_row s) (v_off s) (v_row s) o2) in *.
  unfold vi_case, region_text in X. rewrite G1, G2, G3, G4, G5 in X. unfold lbuf_region in X. rewrite El, Z.eqb_refl in X. cbn [optl] in X.
  assert (E1 : sub_l l 0 (v_off s) = firstn (Z.to_nat (v_off s)) body) by (rewrite sub_l_firstn by lia; unfold l; apply firstn_body; lia).
  assert (E2 : sub_l l o2 (-1) = skipn (Z.to_nat o2) body ++ [nlc]) by (rewrite sub_l_skipn by lia; unfold l; apply skipn_body; lia).
  assert (E3 : sub_l l (v_off s) o2 = firstn (Z.to_nat (o2 - v_off s)) (skipn (Z.to_nat (v_off s)) body)).
  { rewrite sub_l_mid by lia. unfold l. rewrite skipn_body by lia. apply firstn_body. rewrite skipn_length. lia. }
  rewrite E1, E2, E3 in X.
  set (nb := ref_tilde body (v_off s) o2).
  assert (EN : firstn (Z.to_nat (v_off s)) body ++ map (case_chr Otilde) (firstn (Z.to_nat (o2 - v_off s)) (skipn (Z.to_nat (v_off s)) body)) ++
               skipn (Z.to_nat o2) body ++ [nlc] = nb ++ [nlc]) by (unfold nb, ref_tilde; rewrite <- !app_assoc; reflexivity).
  rewrite EN in X.
  assert (Wn : line_wf (nb ++ [nlc])).
  { apply body_wf. pose proof (wf_body body Wl) as Hb. unfold nb, ref_tilde. apply Forall_app. split; [apply Forall_firstn', Hb|].
    apply Forall_app. split; [|apply Forall_skipn', Hb]. apply nonl_map_case, Forall_firstn', Forall_skipn', Hb. }
  assert (Hr : 0 <= v_row s < blen b) by (apply getl_some in El; lia).
  replace (v_row s + 1) with (v_row s + Z.of_nat 1) in X by lia.
  rewrite lbuf_edit_some in X by (cbn; lia). rewrite (split_text_line _ Wn) in X. change (Z.of_nat 1) with 1 in X.
  match type of X with context [finish rows ?bb _ _ _] => remember bb as b' eqn:Eb' end.
  assert (Hb' : blen b' = blen b).
  { rewrite Eb'. unfold set_row, blen in *. rewrite !app_length, firstn_length, skipn_length. cbn [length]. lia. }
  assert (G : getl b' (v_row s) = Some (nb ++ [nlc])).
  { rewrite Eb'. unfold getl, set_row. destruct (Z.ltb_spec (v_row s) 0); [lia|]. unfold blen in Hr.
    rewrite nth_error_app2 by (rewrite firstn_length; lia). rewrite firstn_length, Nat.min_l by lia. rewrite Nat.sub_diag. reflexivity. }
  inversion X; subst e1. clear X.
  set (st := vs_pos _ _ _).
  assert (Hrow : 0 <= v_row st < blen b') by (unfold st; cbn [vs_pos v_row]; lia).
  rewrite finish_buf, finish_regs, finish_row, finish_off by exact Hrow. unfold st. cbn [vs_pos v_row v_off]. rewrite G.
  repeat split; try reflexivity. exact Eb'.
Qed.


Lemma repeat_app_single {A} (c : A) n : repeat_app n [c] = repeat c n.
Proof. induction n; cbn [repeat_app repeat app]; [reflexivity|rewrite IHn; reflexivity]. Qed.
Lemma forallb_nonl (x : list chr) : Forall (fun c : chr => b0 c <> 10%N) x -> forallb (fun c => negb (is_nlb c)) x = true.
Proof.
  induction 1 as [|c x Hc _ IH]; cbn [forallb]; [reflexivity|]. rewrite IH, andb_true_r. unfold is_nlb.
  destruct (N.eqb_spec (b0 c) 10); [contradiction|reflexivity].
Qed.

Lemma refines_replace rows e cnt cs e1 body :
  let b := s_buf e in let s := s_vs e in
  buf_wf b -> cursor_ok b (v_row s) (v_off s) -> getl b (v_row s) = Some (body ++ [nlc]) -> 0 <= cnt -> b0 cs <> 10%N ->
  exec1 rows (CReplace cnt cs) e = Some e1 ->
  let n := Z.max 1 cnt in let o := v_off s in
  s_regs e1 = s_regs e /\ v_row (s_vs e1) = v_row s /\
  if o + n <=? Z.of_nat (length body)
  then s_buf e1 = set_row b (v_row s) [ref_replace body o n cs ++ [nlc]] 1 /\ v_off (s_vs e1) = o + n - 1
  else s_buf e1 = b /\ v_off (s_vs e1) = o.
Proof.
  intros b s HW Hc El Hn Hcs X n o.
  set (l := body ++ [nlc]) in *. pose proof (getl_wf _ _ _ HW El) as Wl. pose proof (wf_body body Wl) as Hb.
  assert (Hs : slen l = Z.of_nat (length body) + 1) by (unfold l, slen; rewrite app_length; cbn [length]; lia).
  assert (Hok : off_ok l o) by (unfold cursor_ok in Hc; rewrite El in Hc; exact Hc).
  assert (RN : ren_noeol (getl b (v_row s)) o = o) by (rewrite El; apply ren_noeol_id; assumption).
  destruct Hok as [H0 H1].
  assert (Hr : 0 <= v_row s < blen b) by (apply getl_some in El; lia).
  cbn [exec1] in X. unfold exec_replace in X. fold b s in X.
  assert (RN' : ren_noeol (@Some line l) (v_off s) = v_off s) by (apply ren_noeol_id; [exact Wl|split; assumption]).
  rewrite El in X. cbv zeta in X. rewrite RN' in X. fold o n in X.
  destruct (Z.leb_spec (o + n) (Z.of_nat (length body))) as [Hfit|Hfit].
  - assert (Esp : firstn (Z.to_nat n) (skipn (Z.to_nat o) l) = firstn (Z.to_nat n) (skipn (Z.to_nat o) body)).
    { unfold l. rewrite skipn_body by lia. apply firstn_body. rewrite skipn_length. lia. }
    rewrite Esp in X. rewrite forallb_nonl in X by (apply Forall_firstn', Forall_skipn', Hb). cbn [negb orb] in X.
    assert (Lsp : slen (firstn (Z.to_nat n) (skipn (Z.to_nat o) body)) = n) by (unfold slen; rewrite firstn_length, skipn_length; lia).
    rewrite Lsp in X. destruct (Z.ltb_spec n n); [lia|].
    assert (E1 : sub_l l 0 o = firstn (Z.to_nat o) body) by (rewrite sub_l_firstn by lia; unfold l; apply firstn_body; lia).
    assert (E2 : sub_l l (o + n) (-1) = skipn (Z.to_nat (o + n)) body ++ [nlc]) by (rewrite sub_l_skipn by lia; unfold l; apply skipn_body; lia).
    rewrite E1, E2, repeat_app_single in X.
    assert (EN : firstn (Z.to_nat o) body ++ repeat cs (Z.to_nat n) ++ skipn (Z.to_nat (o + n)) body ++ [nlc] = ref_replace body o n cs ++ [nlc])
      by (unfold ref_replace; rewrite <- !app_assoc; reflexivity).
    rewrite EN in X.
    assert (Wn : line_wf (ref_replace body o n cs ++ [nlc])).
    { apply body_wf. unfold ref_replace. apply Forall_app. split; [apply Forall_firstn', Hb|]. apply Forall_app. split; [|apply Forall_skipn', Hb].
      apply Forall_forall. intros c Hin. apply repeat_spec in Hin. subst c. exact Hcs. }
    replace (v_row s + 1) with (v_row s + Z.of_nat 1) in X by lia.
    rewrite lbuf_edit_some in X by (cbn; lia). rewrite (split_text_line _ Wn) in X. change (Z.of_nat 1) with 1 in X.
    unfold is_nlb in X. destruct (N.eqb_spec (b0 cs) 10); [contradiction|].
    match type of X with context [finish rows ?bb _ _ _] => remember bb as b' eqn:Eb' end.
    assert (Hb' : blen b' = blen b).
    { rewrite Eb'. unfold set_row, blen in *. rewrite !app_length, firstn_length, skipn_length. cbn [length]. lia. }
    assert (G : getl b' (v_row s) = Some (ref_replace body o n cs ++ [nlc])).
    { rewrite Eb'. unfold getl, set_row. destruct (Z.ltb_spec (v_row s) 0); [lia|]. unfold blen in Hr.
      rewrite nth_error_app2 by (rewrite firstn_length; lia). rewrite firstn_length, Nat.min_l by lia. rewrite Nat.sub_diag. reflexivity. }
    inversion X; subst e1. clear X. set (st := vs_pos _ _ _).
    assert (Hrow : 0 <= v_row st < blen b') by (unfold st; cbn [vs_pos v_row]; lia).
    rewrite finish_buf, finish_regs, finish_row, finish_off by exact Hrow. unfold st. cbn [vs_pos v_row v_off]. rewrite G.
    repeat split; try reflexivity; [exact Eb'|]. apply ren_noeol_id; [exact Wn|].
    unfold off_ok, slen. rewrite app_length. unfold ref_replace. rewrite !app_length, firstn_length, repeat_length, skipn_length. cbn [length]. lia.
  - assert (Esp : firstn (Z.to_nat n) (skipn (Z.to_nat o) l) = skipn (Z.to_nat o) body ++ [nlc]).
    { unfold l. rewrite skipn_body by lia. apply firstn_all2. rewrite app_length, skipn_length. cbn [length]. lia. }
    rewrite Esp in X. rewrite forallb_app in X. cbn [forallb] in X. unfold is_nlb at 2 in X. cbn in X. rewrite andb_false_r in X. cbn [negb orb] in X.
    inversion X; subst e1. clear X.
    assert (Hrow : 0 <= v_row s < blen b) by exact Hr.
    rewrite finish_buf, finish_regs, finish_row, finish_off by exact Hrow. fold o. rewrite RN. repeat split; reflexivity.
Qed.

(* ---------- p and P ---------- *)
Lemma flat_valid_nonnil cs : line_valid cs -> cs <> [] -> flat cs <> [].
Proof.
  intros H Hn. destruct cs as [|c cs]; [contradiction|]. inversion H as [|? ? (k & Hk & Ec) _]; subst.
  cbn. pose proof (encode_nonempty k Hk). destruct (encode k); [cbn in *; lia|discriminate].
Qed.
Lemma repeat_app_len {A} n (x : list A) : length (repeat_app n x) = (n * length x)%nat.
Proof. induction n; cbn [repeat_app]; [reflexivity|]. rewrite app_length, IHn. lia. Qed.
Lemma repeat_app_Forall {A} (P : A -> Prop) n x : Forall P x -> Forall P (repeat_app n x).
Proof. intro H. induction n; cbn [repeat_app]; [constructor|apply Forall_app; split; assumption]. Qed.
Lemma repeat_app_concat {A} n (ls : list (list A)) : repeat_app n (concat ls) = concat (repeat_app n ls).
Proof. induction n; cbn [repeat_app]; [reflexivity|]. rewrite concat_app, IHn. reflexivity. Qed.

Lemma refines_put_chars rows e y cnt after cs body :
  let b := s_buf e in let s := s_vs e in
  buf_wf b -> cursor_ok b (v_row s) (v_off s) -> getl b (v_row s) = Some (body ++ [nlc]) -> 0 <= cnt ->
  reg_get (s_regs e) y = Some (flat cs, false) -> line_valid cs -> cs <> [] -> Forall (fun c : chr => b0 c <> 10%N) cs ->
  let e1 := exec_put rows e y cnt after in
  let n := Z.to_nat (Z.max 1 cnt) in
  let off := ref_put_off body (v_off s) after in
  s_buf e1 = set_row b (v_row s) [firstn (Z.to_nat off) body ++ repeat_app n cs ++ skipn (Z.to_nat off) body ++ [nlc]] 1 /\
  s_regs e1 = s_regs e /\ v_row (s_vs e1) = v_row s /\ v_off (s_vs e1) = off + Z.of_nat (length cs) * Z.of_nat n - 1.
Proof.
  intros b s HW Hc El Hn Hreg Hv Hne Hnl e1 n off.
  set (l := body ++ [nlc]) in *. pose proof (getl_wf _ _ _ HW El) as Wl. pose proof (wf_body body Wl) as Hb.
  assert (Hs : slen l = Z.of_nat (length body) + 1) by (unfold l, slen; rewrite app_length; cbn [length]; lia).
  assert (Hok : off_ok l (v_off s)) by (unfold cursor_ok in Hc; rewrite El in Hc; exact Hc).
  assert (RN' : ren_noeol (@Some line l) (v_off s) = v_off s) by (apply ren_noeol_id; assumption).
  destruct Hok as [H0 H1].
  assert (Hr : 0 <= v_row s < blen b) by (apply getl_some in El; lia).
  assert (Hoff : v_off s <= off <= Z.of_nat (length body) /\
          off = v_off s + (if negb (is_nlb (chr_at l 0)) && after then 1 else 0)).
  { unfold off, ref_put_off, l. destruct body as [|c0 body']; cbn [is_nil negb andb app chr_at].
    - cbn. rewrite andb_false_r. cbn [length] in *. lia.
    - inversion Hb; subst. unfold is_nlb. change (chr_at (c0 :: body' ++ [nlc]) 0) with c0.
      destruct (N.eqb_spec (b0 c0) 10); [contradiction|]. cbn [negb andb]. cbn [length] in *. destruct after; cbn [andb]; lia. }
  destruct Hoff as [Hoff Eoff].
  unfold e1, exec_put. fold b s. rewrite Hreg.
  destruct (flat cs) as [|x0 tl] eqn:Efl; [exfalso; eapply flat_valid_nonnil; eassumption|]. rewrite <- Efl.
  rewrite chop_flat by exact Hv. destruct (Z.ltb_spec (v_row s) (blen b)); [|lia]. rewrite El. cbn [optl]. fold n.
  rewrite RN', <- Eoff.
  assert (E1 : sub_l l 0 off = firstn (Z.to_nat off) body) by (rewrite sub_l_firstn by lia; unfold l; apply firstn_body; lia).
  assert (E2 : sub_l l off (-1) = skipn (Z.to_nat off) body ++ [nlc]) by (rewrite sub_l_skipn by lia; unfold l; apply skipn_body; lia).
  rewrite E1, E2.
  set (nb := firstn (Z.to_nat off) body ++ repeat_app n cs ++ skipn (Z.to_nat off) body).
  assert (EN : firstn (Z.to_nat off) body ++ repeat_app n cs ++ skipn (Z.to_nat off) body ++ [nlc] = nb ++ [nlc])
    by (unfold nb; rewrite <- !app_assoc; reflexivity).
  rewrite EN.
  assert (Wn : line_wf (nb ++ [nlc])).
  { apply body_wf. unfold nb. apply Forall_app. split; [apply Forall_firstn', Hb|]. apply Forall_app. split; [|apply Forall_skipn', Hb].
    apply repeat_app_Forall, Hnl. }
  replace (v_row s + 1) with (v_row s + Z.of_nat 1) by lia.
  rewrite lbuf_edit_some by (cbn; lia). rewrite (split_text_line _ Wn). change (Z.of_nat 1) with 1.
  match goal with |- context [finish rows ?bb _ _ _] => remember bb as b' eqn:Eb' end.
  assert (Hb' : blen b' = blen b).
  { rewrite Eb'. unfold set_row, blen in *. rewrite !app_length, firstn_length, skipn_length. cbn [length]. lia. }
  assert (G : getl b' (v_row s) = Some (nb ++ [nlc])).
  { rewrite Eb'. unfold getl, set_row. destruct (Z.ltb_spec (v_row s) 0); [lia|]. unfold blen in Hr.
    rewrite nth_error_app2 by (rewrite firstn_length; lia). rewrite firstn_length, Nat.min_l by lia. rewrite Nat.sub_diag. reflexivity. }
  set (st := vs_pos _ _ _).
  assert (Hrow : 0 <= v_row st < blen b') by (unfold st; cbn [vs_pos v_row]; lia).
  rewrite finish_buf, finish_regs, finish_row, finish_off by exact Hrow. unfold st. cbn [vs_pos v_row v_off]. rewrite G.
  assert (Hlen : (1 <= length cs)%nat) by (destruct cs; [contradiction|cbn; lia]).
  assert (Hn1 : (1 <= n)%nat) by (unfold n; lia).
  repeat split; try reflexivity; [exact Eb'|].
  unfold slen. replace (Z.of_nat (length cs) * Z.of_nat (Z.to_nat (Z.max 1 cnt))) with (Z.of_nat (length cs) * Z.of_nat n) by reflexivity.
  apply ren_noeol_id; [exact Wn|]. unfold off_ok, slen. rewrite app_length. unfold nb. rewrite !app_length, firstn_length, repeat_app_len, skipn_length.
  cbn [length]. nia.
Qed.

Lemma refines_put_lines rows e y cnt after ls l0 :
  let b := s_buf e in let s := s_vs e in
  getl b (v_row s) = Some l0 ->
  reg_get (s_regs e) y = Some (flat (concat ls), true) -> buf_wf ls -> buf_valid ls -> ls <> [] ->
  let e1 := exec_put rows e y cnt after in
  let n := Z.to_nat (Z.max 1 cnt) in
  let r' := ref_put_row (v_row s) after in
  s_buf e1 = firstn (Z.to_nat r') b ++ repeat_app n ls ++ skipn (Z.to_nat r') b /\
  s_regs e1 = s_regs e /\ v_row (s_vs e1) = r' /\
  v_off (s_vs e1) = ren_noeol (getl (s_buf e1) r') (lbuf_indents (s_buf e1) r').
Proof.
  intros b s El Hreg HWl HVl Hne e1 n r'.
  assert (Hr : 0 <= v_row s < blen b) by (apply getl_some in El; lia).
  unfold e1, exec_put. fold b s. rewrite Hreg.
  destruct (flat (concat ls)) as [|x0 tl] eqn:Efl.
  { exfalso. destruct ls as [|l1 ls']; [contradiction|]. inversion HWl; subst. cbn [concat] in Efl. eapply flat_wf_nonnil; eassumption. }
  rewrite <- Efl. rewrite chop_flat by (apply concat_valid, HVl). fold n.
  destruct (Z.eqb_spec (blen b) 0); [lia|].
  replace (if after then v_row s + 1 else v_row s) with r' by reflexivity.
  assert (Hr' : 0 <= r' <= blen b) by (unfold r', ref_put_row; destruct after; lia).
  rewrite repeat_app_concat.
  assert (HWn : buf_wf (repeat_app n ls)) by (apply repeat_app_Forall, HWl).
  assert (EB : lbuf_edit b (Some (concat (repeat_app n ls))) r' r' = firstn (Z.to_nat r') b ++ repeat_app n ls ++ skipn (Z.to_nat r') b).
  { unfold lbuf_edit. rewrite !Z.min_l by lia. rewrite Z.sub_diag, split_text_concat by exact HWn. unfold set_row.
    rewrite Z.add_0_r. reflexivity. }
  rewrite EB.
  match goal with |- context [finish rows ?bb _ _ _] => remember bb as b' eqn:Eb' end.
  assert (Hn1 : (1 <= n)%nat) by (unfold n; lia).
  assert (Hb' : blen b + 1 <= blen b').
  { rewrite Eb'. unfold blen in *. rewrite !app_length, firstn_length, skipn_length, repeat_app_len.
    assert (1 <= length ls)%nat by (destruct ls; [contradiction|cbn; lia]). nia. }
  set (st := vs_pos _ _ _).
  assert (Hrow : 0 <= v_row st < blen b') by (unfold st; cbn [vs_pos v_row]; lia).
  rewrite finish_buf, finish_regs, finish_row, finish_off by exact Hrow. unfold st. cbn [vs_pos v_row v_off].
  repeat split; reflexivity.
Qed.

(* ---------- i and a with plain text ---------- *)
Lemma plain_key_spec k : plain_key k = true ->
  N.eqb (b0 k) 8 = false /\ N.eqb (b0 k) 127 = false /\ N.eqb (b0 k) 21 = false /\ N.eqb (b0 k) 23 = false /\
  N.eqb (b0 k) 20 = false /\ N.eqb (b0 k) 4 = false /\ N.eqb (b0 k) 22 = false /\ N.eqb (b0 k) 18 = false /\
  N.eqb (b0 k) 16 = false /\ N.eqb (b0 k) 10 = false.
Proof.
  unfold plain_key. cbn [existsb]. intro H. apply negb_true_iff in H.
  repeat (apply orb_false_iff in H; destruct H as [? H]). repeat split; assumption.
Qed.
Lemma led_line_plain R pe typed : forallb plain_key typed = true -> forall sb ai,
  fold_left (led_key R pe) typed (sb, ai, 0%N) = (sb ++ typed, ai, 0%N).
Proof.
  induction typed as [|k t IH]; intros H sb ai; cbn [fold_left]; [rewrite app_nil_r; reflexivity|].
  cbn [forallb] in H. apply andb_true_iff in H. destruct H as [Hk Ht].
  destruct (plain_key_spec k Hk) as (A1 & A2 & A3 & A4 & A5 & A6 & A7 & A8 & A9 & _).
  unfold led_key at 2. cbn [N.eqb]. rewrite A1, A2, A3, A4, A5, A6, A7, A8, A9. cbn [orb]. rewrite IH by exact Ht. rewrite <- app_assoc. reflexivity.
Qed.
Lemma split_typed_plain typed : forallb plain_key typed = true -> split_typed typed = [typed].
Proof.
  induction typed as [|k t IH]; intro H; cbn [split_typed]; [reflexivity|].
  cbn [forallb] in H. apply andb_true_iff in H. destruct H as [Hk Ht].
  destruct (plain_key_spec k Hk) as (_ & _ & _ & _ & _ & _ & _ & _ & _ & A7). unfold is_nlb. rewrite A7, IH by exact Ht. reflexivity.
Qed.
Lemma plain_nonl typed : forallb plain_key typed = true -> Forall (fun c : chr => b0 c <> 10%N) typed.
Proof.
  induction typed as [|k t IH]; intro H; [constructor|]. cbn [forallb] in H. apply andb_true_iff in H. destruct H as [Hk Ht].
  constructor; [|apply IH, Ht]. destruct (plain_key_spec k Hk) as (_ & _ & _ & _ & _ & _ & _ & _ & _ & A7). apply N.eqb_neq, A7.
Qed.
Lemma span_blank_n_app n : forall x, fst (span_blank_n n x) ++ snd (span_blank_n n x) = x.
Proof.
  induction n as [|n IH]; intro x; cbn [span_blank_n]; [reflexivity|]. destruct x as [|c x]; [reflexivity|].
  destruct (is_blankc c); [|reflexivity]. specialize (IH x). destruct (span_blank_n n x) as [a z]. cbn [fst snd app] in *. rewrite IH. reflexivity.
Qed.
Lemma span_blank_nonblank ln : existsb (fun c => negb (is_blankc c)) ln = true ->
  Nat.eqb (length ln) (length (fst (span_blank ln))) = false.
Proof.
  assert (G : forall l, (length (fst (span_blank l)) <= length l)%nat /\
              (existsb (fun c => negb (is_blankc c)) l = true -> (length (fst (span_blank l)) < length l)%nat)).
  { induction l as [|c r [IH1 IH2]]; cbn [span_blank existsb]; [split; [cbn; lia|discriminate]|].
    destruct (is_blankc c); cbn [negb orb].
    - destruct (span_blank r) as [a z]. cbn [fst length] in *. split; [lia|]. intro H. specialize (IH2 H). lia.
    - cbn [fst length]. split; [lia|]. intros _. lia. }
  intro H. destruct (G ln) as [_ G2]. specialize (G2 H). apply Nat.eqb_neq. lia.
Qed.
Lemma count_nl_nonl x : Forall (fun c : chr => b0 c <> 10%N) x -> filter is_nlb x = [].
Proof.
  induction 1 as [|c x Hc _ IH]; cbn [filter]; [reflexivity|].
  assert (E : is_nlb c = false) by (unfold is_nlb; apply N.eqb_neq; assumption). rewrite E. exact IH.
Qed.
Lemma led_input_plain R pref post typed : forallb plain_key typed = true -> existsb (fun c => negb (is_blankc c)) typed = true ->
  led_input R pref post typed = (pref ++ typed ++ post, post, 0%nat).
Proof.
  intros Hp Hnb. unfold led_input. pose proof (span_blank_n_app ai_max pref) as Epref.
  destruct (span_blank_n ai_max pref) as [ai pref']. cbn [fst snd] in Epref.
  rewrite (split_typed_plain typed Hp). cbn [led_loop]. unfold led_line. rewrite (led_line_plain R _ typed Hp). cbn [app is_nil fst].
  rewrite (span_blank_nonblank typed Hnb). cbn [negb orb]. rewrite app_nil_r. rewrite <- Epref, <- !app_assoc.
  rewrite (count_nl_nonl typed (plain_nonl typed Hp)). reflexivity.
Qed.
Lemma fold_count_nonl x : Forall (fun c : chr => b0 c <> 10%N) x -> forall n0,
  fold_left (fun n c => if is_nlb c then 0 else n + 1) x n0 = n0 + slen x.
Proof.
  induction 1 as [|c x Hc _ IH]; intro n0; cbn [fold_left]; [unfold slen; cbn; lia|].
  assert (E : is_nlb c = false) by (unfold is_nlb; apply N.eqb_neq; assumption). rewrite E, IH. unfold slen. cbn [length]. lia.
Qed.
Lemma vi_input_plain R pref post typed : forallb plain_key typed = true -> existsb (fun c => negb (is_blankc c)) typed = true ->
  Forall (fun c : chr => b0 c <> 10%N) pref -> line_wf post ->
  vi_input R pref post typed = (pref ++ typed ++ post, 1, Z.max 0 (slen pref + slen typed - 1), 0%nat).
Proof.
  intros Hp Hnb Hpref Hpost. unfold vi_input. rewrite (led_input_plain R _ _ _ Hp Hnb).
  pose proof (plain_nonl typed Hp) as Ht.
  assert (A : count_nl (pref ++ typed ++ post) = 1).
  { destruct Hpost as (pb & -> & Hpb). unfold count_nl.
    rewrite !filter_app, (count_nl_nonl pref Hpref), (count_nl_nonl typed Ht), (count_nl_nonl pb Hpb). reflexivity. }
  assert (B : charcount (pref ++ typed ++ post) post = slen pref + slen typed).
  { unfold charcount. unfold slen at 1 2. rewrite !app_length.
    destruct (Z.ltb_spec (Z.of_nat (length pref + (length typed + length post))) (Z.of_nat (length post))); [lia|].
    replace (length pref + (length typed + length post) - length post)%nat with (length (pref ++ typed)) by (rewrite app_length; lia).
    rewrite app_assoc, firstn_app_exact. rewrite fold_count_nonl by (apply Forall_app; split; assumption).
    unfold slen. rewrite app_length. lia. }
  rewrite A, B. reflexivity.
Qed.

Lemma refines_insert_plain rows e (append : bool) typed e1 body :
  let b := s_buf e in let s := s_vs e in
  buf_wf b -> cursor_ok b (v_row s) (v_off s) -> getl b (v_row s) = Some (body ++ [nlc]) ->
  forallb plain_key typed = true -> existsb (fun c => negb (is_blankc c)) typed = true ->
  exec1 rows (CIns (if append then Ia else Ii) typed) e = Some e1 ->
  let off := ref_ins_off body (v_off s) append in
  s_buf e1 = set_row b (v_row s) [firstn (Z.to_nat off) body ++ typed ++ skipn (Z.to_nat off) body ++ [nlc]] 1 /\
  s_regs e1 = s_regs e /\ v_row (s_vs e1) = v_row s /\ v_off (s_vs e1) = off + slen typed - 1.
Proof.
  intros b s HW Hc El Hp Hnb X off.
  set (l := body ++ [nlc]) in *. pose proof (getl_wf _ _ _ HW El) as Wl. pose proof (wf_body body Wl) as Hb.
  assert (Hs : slen l = Z.of_nat (length body) + 1) by (unfold l, slen; rewrite app_length; cbn [length]; lia).
  assert (Hok : off_ok l (v_off s)) by (unfold cursor_ok in Hc; rewrite El in Hc; exact Hc).
  assert (RN' : ren_noeol (Some l) (v_off s) = v_off s) by (apply ren_noeol_id; assumption).
  destruct Hok as [H0 H1].
  assert (Hr : 0 <= v_row s < blen b) by (apply getl_some in El; lia).
  assert (Hlt : (1 <= length typed)%nat) by (destruct typed; [discriminate|cbn; lia]).
  pose proof (plain_nonl typed Hp) as Ht.
  assert (Hoff : v_off s <= off <= Z.of_nat (length body)).
  { unfold off, ref_ins_off. destruct body as [|c0 body']; cbn [is_nil negb andb length] in *; [rewrite andb_false_r; lia|destruct append; cbn [andb]; lia]. }
  cbn [exec1] in X. unfold exec_insert in X. fold b s in X. rewrite El in X.
  assert (EO : (match (if append then Ia else Ii) with II => lbuf_indents b (v_row s) | IA => lbuf_eol b (v_row s) | _ => v_off s end) = v_off s) by (destruct append; reflexivity).
  rewrite EO, RN' in X.
  assert (EF : (let off0 := match (if append then Ia else Ii) with Ii | II => v_off s | Ia | IA => v_off s + 1 | _ => 0 end in
                match Some l with Some (c :: _) => if is_nlb c then 0 else off0 | _ => off0 end) = off).
  { unfold off, ref_ins_off, l. destruct body as [|c0 body']; cbn [app is_nil negb andb].
    - unfold is_nlb, nlc. cbn. rewrite andb_false_r. cbn [length] in *. lia.
    - inversion Hb; subst. unfold is_nlb. destruct (N.eqb_spec (b0 c0) 10); [contradiction|]. destruct append; reflexivity. }
  cbv zeta in EF. cbv zeta in X. rewrite EF in X.
  assert (EI : is_oO (if append then Ia else Ii) = false) by (destruct append; reflexivity).
  rewrite EI in X. cbn [negb andb optl] in X.
  assert (E1 : sub_l l 0 off = firstn (Z.to_nat off) body) by (rewrite sub_l_firstn by lia; unfold l; apply firstn_body; lia).
  assert (E2 : sub_l l off (-1) = skipn (Z.to_nat off) body ++ [nlc]) by (rewrite sub_l_skipn by lia; unfold l; apply skipn_body; lia).
  rewrite E1, E2 in X.
  rewrite vi_input_plain in X; try assumption; [|apply Forall_firstn', Hb|apply body_wf, Forall_skipn', Hb].
  assert (EN : (match (if append then Ia else Ii) with Io => nextlines rows 1 (v_row s, v_top s) | _ => (v_row s, v_top s) end) = (v_row s, v_top s))
    by (destruct append; reflexivity).
  rewrite EN in X. cbn [nextlines] in X.
  replace (v_row s - 1 + 1) with (v_row s) in X by lia.
  set (nb := firstn (Z.to_nat off) body ++ typed ++ skipn (Z.to_nat off) body).
  assert (ENB : firstn (Z.to_nat off) body ++ typed ++ skipn (Z.to_nat off) body ++ [nlc] = nb ++ [nlc])
    by (unfold nb; rewrite <- !app_assoc; reflexivity).
  rewrite ENB in *.
  assert (Wn : line_wf (nb ++ [nlc])).
  { apply body_wf. unfold nb. apply Forall_app. split; [apply Forall_firstn', Hb|]. apply Forall_app. split; [exact Ht|apply Forall_skipn', Hb]. }
  replace (v_row s + 1) with (v_row s + Z.of_nat 1) in X by lia.
  rewrite lbuf_edit_some in X by (cbn; lia). rewrite (split_text_line _ Wn) in X. change (Z.of_nat 1) with 1 in X.
  match type of X with context [finish rows ?bb _ _ _] => remember bb as b' eqn:Eb' end.
  assert (Hb' : blen b' = blen b).
  { rewrite Eb'. unfold set_row, blen in *. rewrite !app_length, firstn_length, skipn_length. cbn [length]. lia. }
  assert (G : getl b' (v_row s) = Some (nb ++ [nlc])).
  { rewrite Eb'. unfold getl, set_row. destruct (Z.ltb_spec (v_row s) 0); [lia|]. unfold blen in Hr.
    rewrite nth_error_app2 by (rewrite firstn_length; lia). rewrite firstn_length, Nat.min_l by lia. rewrite Nat.sub_diag. reflexivity. }
  inversion X; subst e1. clear X. set (st := vs_top _ _).
  assert (Hrow : 0 <= v_row st < blen b') by (unfold st; cbn [vs_top vs_pos v_row]; lia).
  rewrite finish_buf, finish_regs, finish_row, finish_off by exact Hrow. unfold st. cbn [vs_top vs_pos v_row v_off]. rewrite G.
  assert (Lf : slen (firstn (Z.to_nat off) body) = off) by (unfold slen; rewrite firstn_length; lia).
  rewrite Lf. replace (Z.max 0 (off + slen typed - 1)) with (off + slen typed - 1) by (unfold slen; lia).
  repeat split; try reflexivity; [exact Eb'|].
  apply ren_noeol_id; [exact Wn|]. unfold off_ok, slen. rewrite app_length. unfold nb. rewrite !app_length, firstn_length, skipn_length.
  cbn [length]. lia.
Qed.

(* ---------- the buffer read from a valid file image is valid ---------- *)
Lemma split_lines_nonl bs : Forall (fun x => x <> 10%N) bs -> forall rest cur,
  split_lines_f (bs ++ rest) cur = split_lines_f rest (rev bs ++ cur).
Proof.
  induction 1 as [|x bs Hx _ IH]; intros rest cur; cbn [app split_lines_f rev]; [reflexivity|].
  destruct (N.eqb_spec x 10); [contradiction|]. rewrite IH, <- app_assoc. reflexivity.
Qed.
Lemma encode_nonl k : k <> 10%N -> Forall (fun x => x <> 10%N) (encode k).
Proof.
  intro H. unfold encode. destruct (N.ltb_spec k 128); [repeat constructor; exact H|].
  destruct (N.ltb_spec k 2048); [|destruct (N.ltb_spec k 65536)]; repeat constructor; lia.
Qed.
Lemma valid_chars ks : Forall scalar ks -> valid (chars ks).
Proof. intro H. exists ks. split; [exact H|reflexivity]. Qed.
Lemma split_lines_valid ks : Forall scalar ks -> forall cks, Forall scalar cks ->
  Forall valid (split_lines_f (chars ks) (rev (chars cks))).
Proof.
  induction 1 as [|k ks Hk Hks IH]; intros cks Hc.
  - cbn [chars flat_map split_lines_f]. destruct (rev (chars cks)) eqn:E; [constructor|]. rewrite <- E. constructor; [|constructor].
    cbn [rev]. rewrite rev_involutive. replace (chars cks ++ [10%N]) with (chars (cks ++ [10%N])) by (rewrite chars_app; reflexivity).
    apply valid_chars. apply Forall_app. split; [exact Hc|]. repeat constructor; unfold scalar; lia.
  - rewrite chars_cons. destruct (N.eq_dec k 10) as [->|Hne].
    + change (encode 10) with [10%N]. cbn [app split_lines_f N.eqb Pos.eqb]. constructor.
      * cbn [rev]. rewrite rev_involutive. replace (chars cks ++ [10%N]) with (chars (cks ++ [10%N])) by (rewrite chars_app; reflexivity).
        apply valid_chars. apply Forall_app. split; [exact Hc|]. repeat constructor; unfold scalar; lia.
      * apply (IH []). constructor.
    + rewrite split_lines_nonl by (apply encode_nonl, Hne). rewrite <- rev_app_distr.
      replace (chars cks ++ encode k) with (chars (cks ++ [k])) by (rewrite chars_app; cbn [chars flat_map]; rewrite app_nil_r; reflexivity).
      apply IH. apply Forall_app. split; [exact Hc|]. apply Forall_cons; [exact Hk|apply Forall_nil].
Qed.
Lemma buf_of_bytes_valid s : valid s -> buf_valid (buf_of_bytes s).
Proof.
  intros (ks & Hks & ->). unfold buf_of_bytes, buf_valid. pose proof (split_lines_valid ks Hks [] ltac:(constructor)) as V. cbn [chars flat_map rev] in V.
  induction V as [|x xs Hx _ IH]; cbn [map]; constructor; [apply chop_valid, Hx|exact IH].
Qed.
Lemma init_file_valid s : valid s -> est_valid (init_est (buf_of_bytes s)).
Proof. intro H. apply init_est_valid, buf_of_bytes_valid, H. Qed.

(* ---------- Y ---------- *)
Lemma refines_Y rows e y cnt e1 l0 : plain_reg y ->
  let b := s_buf e in let s := s_vs e in
  buf_wf b -> cursor_ok b (v_row s) (v_off s) -> getl b (v_row s) = Some l0 -> 0 <= cnt ->
  exec1 rows (c_Y y cnt) e = Some e1 ->
  let r2 := Z.min (v_row s + Z.max 1 cnt - 1) (blen b - 1) in
  s_buf e1 = b /\ reg_get (s_regs e1) y = Some (flat (concat (rows_between b (v_row s) (r2 + 1))), true) /\
  v_row (s_vs e1) = v_row s /\ v_off (s_vs e1) = v_off s.
Proof.
  intros Hy b s HW Hc El Hn X r2.
  assert (Hr : 0 <= v_row s < blen b) by (apply getl_some in El; lia).
  pose proof (getl_wf _ _ _ HW El) as Wl.
  assert (Hok : off_ok l0 (v_off s)) by (unfold cursor_ok in Hc; rewrite El in Hc; exact Hc).
  assert (RN : ren_noeol (getl b (v_row s)) (v_off s) = v_off s) by (rewrite El; apply ren_noeol_id; assumption).
  assert (Ecnt : (if cnt =? 0 then 1 else cnt) * (if 0 =? 0 then 1 else 0) = Z.max 1 cnt) by (destruct (Z.eqb_spec cnt 0); cbn; lia).
  assert (T : op_target b rows s cnt 0 TDbl (ren_noeol (getl b (v_row s)) (v_off s)) = TOk Kunder r2 (-1) (v_cl s) (v_cc s) (v_pcol s)).
  { unfold op_target. rewrite Ecnt. fold r2. destruct (Z.ltb_spec r2 0); [unfold r2 in *; lia|]. reflexivity. }
  change (exec1 rows (c_Y y cnt) e) with (exec_op rows e y cnt Oy 0 TDbl []) in X.
  pose proof (yank_spec rows e y cnt 0 TDbl Kunder r2 (-1) (v_cl s) (v_cc s) (v_pcol s) e1 Hy T X) as [Y1 Y2]. fold b s in Y1, Y2.
  rewrite (exec_op_yank rows e y cnt 0 TDbl Kunder r2 (-1) (v_cl s) (v_cc s) (v_pcol s) T) in X. fold b s in X.
  destruct (vc_region_line b Kunder (v_row s) (ren_noeol (getl b (v_row s)) (v_off s)) r2 (-1) ltac:(lia)) as (G1 & G2 & G3).
  set (g := vc_region b Kunder (v_row s) (ren_noeol (getl b (v_row s)) (v_off s)) r2 (-1)) in *.
  assert (Hr2 : v_row s <= r2 < blen b) by (unfold r2; lia).
  rewrite Z.min_l in G2 by lia. rewrite Z.max_r in G3 by lia. rewrite G1, G2 in X.
  split; [exact Y1|]. split.
  - fold b in Y2. rewrite Y2. unfold region_text. rewrite G1, G2, G3. f_equal. f_equal. f_equal.
    destruct (range_split b (v_row s) r2 ltac:(lia) ltac:(lia)) as (pre & x & post & Eb & Lp & Lx).
    assert (Hx : x <> []) by (intro; subst x; cbn [length] in Lx; lia).
    rewrite Eb, <- Lp. replace r2 with (Z.of_nat (length pre) + Z.of_nat (length x) - 1) at 1 by lia.
    rewrite (region_lines pre x post Hx). replace (r2 + 1) with (Z.of_nat (length pre) + Z.of_nat (length x)) by lia.
    rewrite rows_between_decomp. reflexivity.
  - inversion X; subst e1. clear X. set (st := vs_pos _ _ _).
    assert (Hrow : 0 <= v_row st < blen b) by (unfold st; cbn [vs_pos v_row]; lia).
    rewrite finish_row, finish_off by exact Hrow. unfold st. cbn [vs_pos v_row v_off]. split; [reflexivity|exact RN].
Qed.

(* ---------- s and C with plain text ---------- *)
Lemma refines_change_plain rows e (toend : bool) y cnt typed e1 body : plain_reg y ->
  let b := s_buf e in let s := s_vs e in
  buf_wf b -> cursor_ok b (v_row s) (v_off s) -> getl b (v_row s) = Some (body ++ [nlc]) -> 0 <= cnt ->
  forallb plain_key typed = true -> existsb (fun c => negb (is_blankc c)) typed = true ->
  exec1 rows (if toend then c_C y cnt typed else c_s y cnt typed) e = Some e1 ->
  let o := v_off s in
  let z := if toend then Z.of_nat (length body) else Z.min (o + Z.max 1 cnt) (Z.of_nat (length body)) in
  s_buf e1 = set_row b (v_row s) [firstn (Z.to_nat o) body ++ typed ++ skipn (Z.to_nat z) body ++ [nlc]] 1 /\
  reg_get (s_regs e1) y = Some (flat (firstn (Z.to_nat (z - o)) (skipn (Z.to_nat o) body)), false) /\
  v_row (s_vs e1) = v_row s /\ v_off (s_vs e1) = o + slen typed - 1.
Proof.
  intros [Hy Hq] b s HW Hc El Hn Hp Hnb X o z.
  set (l := body ++ [nlc]) in *. pose proof (getl_wf _ _ _ HW El) as Wl. pose proof (wf_body body Wl) as Hb.
  assert (Hs : slen l = Z.of_nat (length body) + 1) by (unfold l, slen; rewrite app_length; cbn [length]; lia).
  assert (Hok : off_ok l o) by (unfold cursor_ok in Hc; rewrite El in Hc; exact Hc). destruct Hok as [H0 H1].
  assert (Hr : 0 <= v_row s < blen b) by (apply getl_some in El; lia).
  assert (Hlt : (1 <= length typed)%nat) by (destruct typed; [discriminate|cbn; lia]).
  pose proof (plain_nonl typed Hp) as Ht.
  set (k := if toend then LD else Lx).
  pose proof (line_target rows b s cnt k l HW Hc El Hn) as T. cbv zeta in T.
  set (mk := match k with Lx => Kspace | LX => Kbs | LD => Kdollar end) in *.
  assert (Eo2 : match k with Lx => Z.min (v_off s + Z.max 1 cnt) (slen l - 1) | LX => Z.max (v_off s - Z.max 1 cnt) 0 | LD => slen l - 1 end = z)
    by (unfold k, z, o; destruct toend; lia).
  rewrite Eo2 in T.
  assert (Hz : o <= z <= Z.of_nat (length body)) by (unfold z; destruct toend; fold o in H1; lia).
  assert (EX : exec1 rows (if toend then c_C y cnt typed else c_s y cnt typed) e = exec_op rows e y cnt Oc 0 (TMot mk) typed)
    by (unfold mk, k; destruct toend; reflexivity).
  rewrite EX in X. clear EX.
  assert (Hincl : incl_key mk = false) by (unfold mk, k; destruct toend; reflexivity).
  assert (RN : ren_noeol (getl b (v_row s)) (v_off s) = o) by (rewrite El; apply ren_noeol_id; [exact Wl|split; assumption]).
  assert (Hoo : off_ok l (Z.min (ren_noeol (getl b (v_row s)) (v_off s)) z)).
  { rewrite RN. unfold off_ok. split; [lia|]. destruct H1 as [H1|[H1 H1']]; [left; lia|right; lia]. }
  destruct (vc_region_same_row b mk (v_row s) (ren_noeol (getl b (v_row s)) (v_off s)) z l HW El ltac:(lia) Hoo) as (G1 & G2 & G3 & G4 & G5).
  rewrite Hincl in G5. cbn [andb] in G5. rewrite RN in *.
  replace (Z.min o z) with o in G4 by lia. replace (Z.max o z) with z in G5 by lia.
  unfold exec_op in X. fold b s in X. rewrite RN, T in X.
  change (v_row (vs_mot s (v_cl s) (v_cc s) (v_pcol s))) with (v_row s) in X.
  set (g := vc_region b mk (v_row s) o (v_row s) z) in *.
  unfold vi_change, region_text in X. rewrite G1, G2, G3, G4, G5 in X. unfold lbuf_region in X. rewrite El, Z.eqb_refl in X. cbn [optl orb] in X.
  destruct (Z.eqb_spec (blen b) 0); [lia|].
  assert (E1 : sub_l l 0 o = firstn (Z.to_nat o) body) by (rewrite sub_l_firstn by lia; unfold l; apply firstn_body; lia).
  assert (E2 : sub_l l z (-1) = skipn (Z.to_nat z) body ++ [nlc]) by (rewrite sub_l_skipn by lia; unfold l; apply skipn_body; lia).
  assert (E3 : sub_l l o z = firstn (Z.to_nat (z - o)) (skipn (Z.to_nat o) body)).
  { rewrite sub_l_mid by lia. unfold l. rewrite skipn_body by lia. apply firstn_body. rewrite skipn_length. lia. }
  rewrite E1, E2, E3 in X.
  rewrite vi_input_plain in X; try assumption; [|apply Forall_firstn', Hb|apply body_wf, Forall_skipn', Hb].
  cbn [nextlines snd] in X. replace (v_row s + 1 - 1) with (v_row s) in X by lia.
  set (nb := firstn (Z.to_nat o) body ++ typed ++ skipn (Z.to_nat z) body).
  assert (ENB : firstn (Z.to_nat o) body ++ typed ++ skipn (Z.to_nat z) body ++ [nlc] = nb ++ [nlc])
    by (unfold nb; rewrite <- !app_assoc; reflexivity).
  rewrite ENB in *.
  assert (Wn : line_wf (nb ++ [nlc])).
  { apply body_wf. unfold nb. apply Forall_app. split; [apply Forall_firstn', Hb|]. apply Forall_app. split; [exact Ht|apply Forall_skipn', Hb]. }
  replace (v_row s + 1) with (v_row s + Z.of_nat 1) in X by lia.
  rewrite lbuf_edit_some in X by (cbn; lia). rewrite (split_text_line _ Wn) in X. change (Z.of_nat 1) with 1 in X.
  match type of X with context [finish rows ?bb _ _ _] => remember bb as b' eqn:Eb' end.
  assert (Hb' : blen b' = blen b).
  { rewrite Eb'. unfold set_row, blen in *. rewrite !app_length, firstn_length, skipn_length. cbn [length]. lia. }
  assert (G : getl b' (v_row s) = Some (nb ++ [nlc])).
  { rewrite Eb'. unfold getl, set_row. destruct (Z.ltb_spec (v_row s) 0); [lia|]. unfold blen in Hr.
    rewrite nth_error_app2 by (rewrite firstn_length; lia). rewrite firstn_length, Nat.min_l by lia. rewrite Nat.sub_diag. reflexivity. }
  inversion X; subst e1. clear X. set (st := vs_top _ _).
  assert (Hrow : 0 <= v_row st < blen b') by (unfold st; cbn [vs_top vs_pos v_row]; lia).
  rewrite finish_buf, finish_regs, finish_row, finish_off by exact Hrow. unfold st. cbn [vs_top vs_pos v_row v_off]. rewrite G.
  assert (Lf : slen (firstn (Z.to_nat o) body) = o) by (unfold slen; rewrite firstn_length; lia).
  rewrite Lf. replace (Z.max 0 (o + slen typed - 1)) with (o + slen typed - 1) by (unfold slen; lia).
  repeat split; try reflexivity; [exact Eb'|apply put_get_plain; assumption|].
  apply ren_noeol_id; [exact Wn|]. unfold off_ok, slen. rewrite app_length. unfold nb. rewrite !app_length, firstn_length, skipn_length.
  cbn [length]. lia.
Qed.

(* ====================================================================================== *)
(* the state invariant: valid UTF-8, well-formed lines, cursor on an existing character     *)
(* ====================================================================================== *)
(* a line that ends with its only newline character (whatever the bytes after the 0x0A of that character) *)
Fixpoint termd (l : line) : bool :=
  match l with
  | [] => false
  | c :: r => match r with [] => is_nlb c | _ => negb (is_nlb c) && termd r end
  end.
Definition buf_termd (b : buf) : Prop := Forall (fun l => termd l = true) b.

Lemma valid_nl_exact c : chr_valid c -> b0 c = 10%N -> c = [10%N].
Proof.
  intros (k & Hk & ->) H. unfold encode in *. destruct (N.ltb_spec k 128); [unfold b0, hd0 in H; subst; reflexivity|].
  destruct (N.ltb_spec k 2048); [|destruct (N.ltb_spec k 65536)]; unfold b0, hd0 in H; lia.
Qed.
Lemma termd_wf l : termd l = true -> line_valid l -> line_wf l.
Proof.
  induction l as [|c r IH]; intros T V; [discriminate|]. cbn [termd] in T. inversion V; subst.
  destruct r as [|c2 r'].
  - unfold is_nlb in T. apply N.eqb_eq in T. rewrite (valid_nl_exact c ltac:(assumption) T). exists []. split; [reflexivity|constructor].
  - apply andb_true_iff in T. destruct T as [T1 T2]. destruct (IH T2 ltac:(assumption)) as (body & E & Hb).
    exists (c :: body). split; [rewrite E; reflexivity|]. constructor; [|exact Hb].
    unfold is_nlb in T1. apply negb_true_iff, N.eqb_neq in T1. exact T1.
Qed.
Lemma termd_cons c r : r <> [] -> termd (c :: r) = negb (is_nlb c) && termd r.
Proof. destruct r; [contradiction|reflexivity]. Qed.
Lemma wf_termd l : line_wf l -> termd l = true.
Proof.
  intros (body & -> & Hb). induction Hb as [|c body Hc _ IH]; [reflexivity|].
  cbn [app]. rewrite termd_cons by (destruct body; discriminate). rewrite IH.
  unfold is_nlb. apply N.eqb_neq in Hc. rewrite Hc. reflexivity.
Qed.
Lemma split_text_termd t : buf_termd (split_text t).
Proof.
  unfold buf_termd. induction t as [|c r IH]; cbn [split_text]; [constructor|].
  destruct (is_nlb c) eqn:Ec.
  - constructor; [cbn [termd]; exact Ec|exact IH].
  - destruct (split_text r) as [|l ls]; [repeat constructor; cbn [termd]; rewrite Ec; reflexivity|].
    inversion IH; subst. constructor; [|assumption]. cbn [termd]. destruct l; [discriminate|]. rewrite Ec. cbn [negb andb]. assumption.
Qed.
Lemma set_row_termd b r ls n : buf_termd b -> buf_termd ls -> buf_termd (set_row b r ls n).
Proof.
  intros Hb Hl. unfold set_row, buf_termd in *. apply Forall_app. split; [apply Forall_firstn', Hb|].
  apply Forall_app. split; [exact Hl|apply Forall_skipn', Hb].
Qed.
Lemma lbuf_edit_termd b t beg en : buf_termd b -> buf_termd (lbuf_edit b t beg en).
Proof.
  intro Hb. unfold lbuf_edit. destruct t as [t|].
  - apply set_row_termd; [exact Hb|apply split_text_termd].
  - destruct (_ =? _); [exact Hb|apply set_row_termd; [exact Hb|constructor]].
Qed.
Lemma shift_rows_termd right n : forall i b, buf_termd b -> buf_termd (shift_rows right n i b).
Proof.
  induction n as [|n IH]; intros i b Hb; cbn [shift_rows]; [exact Hb|]. apply IH.
  destruct (getl b i); [apply lbuf_edit_termd, Hb|exact Hb].
Qed.
Lemma termd_valid_wf b : buf_termd b -> buf_valid b -> buf_wf b.
Proof.
  unfold buf_termd, buf_valid, buf_wf. intros T V. induction T as [|l b Hl _ IH]; [constructor|].
  inversion V; subst. constructor; [apply termd_wf; assumption|apply IH; assumption].
Qed.
Lemma wf_buf_termd b : buf_wf b -> buf_termd b.
Proof. unfold buf_wf, buf_termd. intro H. eapply Forall_impl; [|exact H]. intros l Hl. apply wf_termd, Hl. Qed.

(* every command ends with finish; its buffer and the offset handed to vi_wfix *)
Lemma finish_cursor rows b R s md : buf_wf b -> 0 <= v_off s ->
  cursor_ok (s_buf (finish rows b R s md)) (v_row (s_vs (finish rows b R s md))) (v_off (s_vs (finish rows b R s md))).
Proof.
  intros HW Ho. unfold finish. destruct md; cbn [s_buf s_vs vs_col v_row v_off]; apply vi_wfix_ok; assumption.
Qed.


(* the offsets of a region are not negative *)
Lemma region_offs_nonneg b k r1 o1 r2 o2 : 0 <= o1 -> (0 <= o2 \/ o2 = -1) ->
  0 <= g_o1 (vc_region b k r1 o1 r2 o2) /\ 0 <= g_o2 (vc_region b k r1 o1 r2 o2).
Proof.
  intros H1 H2. unfold vc_region. cbn [g_o1 g_o2].
  pose proof (lbuf_eol_nonneg b r2) as He.
  set (ln := o2 <? 0). set (a := if ln then 0 else o1). set (z := if ln then lbuf_eol b r2 else o2).
  assert (Ha : 0 <= a) by (unfold a; destruct ln; lia).
  assert (Hz : 0 <= z) by (unfold z, ln; destruct (Z.ltb_spec o2 0); lia).
  split.
  - apply ren_noeol_nonneg. repeat match goal with |- context [if ?c then _ else _] => destruct c end; assumption.
  - assert (G : forall x, 0 <= x -> forall ol, 0 <= ren_noeol ol x + 1) by (intros x Hx ol; pose proof (ren_noeol_nonneg ol x Hx); lia).
    repeat match goal with |- context [if ?c then _ else _] => destruct c end; try assumption; apply G; assumption.
Qed.

Definition fin_shape (rows : Z) (e' : est) : Prop :=
  exists b' R' st md, e' = finish rows b' R' st md /\ buf_termd b' /\ 0 <= v_off st.
Lemma fin_intro rows b' R' st md : buf_termd b' -> 0 <= v_off st -> fin_shape rows (finish rows b' R' st md).
Proof. intros. exists b', R', st, md. auto. Qed.

Lemma vi_input_off R pref post typed : 0 <= snd (fst (vi_input R pref post typed)).
Proof. unfold vi_input. destruct (led_input R pref post typed) as [[rep post'] nls]. cbn [fst snd]. lia. Qed.
Lemma chop_nonnil s : s <> [] -> chop s <> [].
Proof. destruct s as [|x s]; [contradiction|]. intros _. unfold chop. cbn [length chop_f]. discriminate. Qed.
Lemma join_loop_off ls : forall first sb off, 0 <= off -> 0 <= snd (join_loop ls first sb off).
Proof.
  induction ls as [|l r IH]; intros first sb off H; cbn [join_loop snd]; [exact H|]. apply IH. unfold slen. lia.
Qed.

Lemma exec_op_shape rows e y a1 op a2 t typed e' : buf_termd (s_buf e) -> 0 <= v_off (s_vs e) ->
  exec_op rows e y a1 op a2 t typed = Some e' -> fin_shape rows e'.
Proof.
  intros HT H0 X. unfold exec_op in X.
  set (o1 := ren_noeol (getl (s_buf e) (v_row (s_vs e))) (v_off (s_vs e))) in *.
  assert (Ho1 : 0 <= o1) by (apply ren_noeol_nonneg, H0).
  destruct (op_target _ _ _ _ _ _ _) as [|cl cc|k r2 o2 cl cc pc] eqn:ET; [discriminate| |].
  - inversion X; subst. apply fin_intro; [exact HT|exact H0].
  - pose proof (op_target_off _ _ _ _ _ _ _ _ _ _ _ _ _ Ho1 ET) as Ho2.
    change (v_row (vs_mot (s_vs e) cl cc pc)) with (v_row (s_vs e)) in X.
    destruct (region_offs_nonneg (s_buf e) k (v_row (s_vs e)) o1 r2 o2 Ho1 Ho2) as [G1 G2].
    set (g := vc_region (s_buf e) k (v_row (s_vs e)) o1 r2 o2) in *. clearbody g.
    inversion X; subst e'. clear X. destruct op.
    + (* d *) unfold vi_delete. destruct (g_ln g); apply fin_intro; try (apply lbuf_edit_termd, HT); cbn [vs_pos v_off];
        [apply lbuf_indents_nonneg|exact G1].
    + (* y *) apply fin_intro; [exact HT|]. cbn [vs_pos v_off vs_mot]. destruct (g_ln g); assumption.
    + (* c *) unfold vi_change.
      match goal with |- context [vi_input ?R ?p ?q typed] => pose proof (vi_input_off R p q typed) as V; destruct (vi_input R p q typed) as [[[rep row] off] nls] end.
      cbn [fst snd] in V. apply fin_intro; [apply lbuf_edit_termd, HT|exact V].
    + (* < *) unfold vi_shift. apply fin_intro; [apply shift_rows_termd, HT|apply lbuf_indents_nonneg].
    + (* > *) unfold vi_shift. apply fin_intro; [apply shift_rows_termd, HT|apply lbuf_indents_nonneg].
    + unfold vi_case. apply fin_intro; [destruct (g_ln g); apply lbuf_edit_termd, HT|]. cbn [vs_pos v_off]. destruct (g_ln g); [apply lbuf_indents_nonneg|exact G2].
    + unfold vi_case. apply fin_intro; [destruct (g_ln g); apply lbuf_edit_termd, HT|]. cbn [vs_pos v_off]. destruct (g_ln g); [apply lbuf_indents_nonneg|exact G2].
    + unfold vi_case. apply fin_intro; [destruct (g_ln g); apply lbuf_edit_termd, HT|]. cbn [vs_pos v_off]. destruct (g_ln g); [apply lbuf_indents_nonneg|exact G2].
Qed.
Lemma exec_put_shape rows e y a1 after : buf_termd (s_buf e) -> 0 <= v_off (s_vs e) -> fin_shape rows (exec_put rows e y a1 after).
Proof.
  intros HT H0. unfold exec_put. destruct (reg_get (s_regs e) y) as [[txt ln]|]; [|apply fin_intro; assumption].
  destruct txt as [|c0 tl]; [apply fin_intro; assumption|]. set (txt := c0 :: tl).
  assert (Hc : chop txt <> []) by (apply chop_nonnil; discriminate).
  destruct ln; apply fin_intro.
  - apply lbuf_edit_termd. destruct (_ =? 0); [apply lbuf_edit_termd, HT|exact HT].
  - cbn [vs_pos v_off]. apply lbuf_indents_nonneg.
  - apply lbuf_edit_termd, HT.
  - cbn [vs_pos v_off].
    match goal with |- context [ren_noeol ?ol ?x] => pose proof (ren_noeol_nonneg ol x H0) end.
    assert (1 <= slen (chop txt)) by (unfold slen; destruct (chop txt); [contradiction|cbn [length]; lia]).
    destruct (_ && after); nia.
Qed.
Lemma exec_join_shape rows e a1 : buf_termd (s_buf e) -> 0 <= v_off (s_vs e) -> fin_shape rows (exec_join rows e a1).
Proof.
  intros HT H0. unfold exec_join. destruct (getl _ _); [|apply fin_intro; assumption]. destruct (getl _ _); [|apply fin_intro; assumption].
  match goal with |- context [join_loop ?ls true [] 0] => pose proof (join_loop_off ls true [] 0 ltac:(lia)) as J; destruct (join_loop ls true [] 0) as [sb off] end.
  cbn [snd] in J. apply fin_intro; [apply lbuf_edit_termd, HT|exact J].
Qed.
Lemma exec_replace_shape rows e a1 cs : buf_termd (s_buf e) -> 0 <= v_off (s_vs e) -> fin_shape rows (exec_replace rows e a1 cs).
Proof.
  intros HT H0. unfold exec_replace. destruct (getl _ _) as [ln|]; [|apply fin_intro; assumption].
  destruct (_ || _); [apply fin_intro; assumption|].
  pose proof (ren_noeol_nonneg (Some ln) (v_off (s_vs e)) H0).
  destruct (is_nlb cs); apply fin_intro; try (apply lbuf_edit_termd, HT); cbn [vs_pos v_off]; lia.
Qed.
Lemma exec_insert_shape rows e k typed : buf_termd (s_buf e) -> fin_shape rows (exec_insert rows e k typed).
Proof.
  intros HT. unfold exec_insert.
  match goal with |- context [vi_input ?R ?p ?q typed] => pose proof (vi_input_off R p q typed) as V; destruct (vi_input R p q typed) as [[[rep row] off] nls] end.
  cbn [fst snd] in V. destruct (nextlines rows nls _) as [xrow top']. apply fin_intro; [|exact V].
  apply lbuf_edit_termd. destruct (_ && _); [apply lbuf_edit_termd, HT|exact HT].
Qed.

Lemma exec1_inv rows c e e' : est_inv e -> cmd_valid c -> exec1 rows c e = Some e' -> est_inv e'.
Proof.
  intros (HV & HW & HC) Hc X.
  pose proof (exec1_valid rows c e e' HV Hc X) as HV'.
  pose proof (cursor_ok_off _ _ _ HC) as H0. pose proof (wf_buf_termd _ HW) as HT.
  assert (F : fin_shape rows e' -> est_inv e').
  { intros (b' & R' & st & md & -> & T' & O'). split; [exact HV'|].
    assert (W' : buf_wf b') by (apply termd_valid_wf; [exact T'|destruct HV' as [V' _]; exact V']).
    split; [exact W'|apply finish_cursor; assumption]. }
  destruct c; cbn [exec1] in X.
  - inversion X; subst. split; [exact HV'|]. cbn [s_buf s_vs]. split; [exact HW|apply do_goto_ok; assumption].
  - destruct (do_motion _ _ _ _ _ _) as [s'|] eqn:M; inversion X; subst. split; [exact HV'|]. cbn [s_buf s_vs]. split; [exact HW|].
    eapply do_motion_ok; eassumption.
  - apply F. eapply exec_op_shape; eassumption.
  - inversion X; subst. apply F, exec_put_shape; assumption.
  - inversion X; subst. apply F, exec_join_shape; assumption.
  - inversion X; subst. apply F, exec_replace_shape; assumption.
  - inversion X; subst. apply F, exec_insert_shape; assumption.
Qed.
Lemma exec_inv rows cs : forall e e', est_inv e -> Forall cmd_valid cs -> exec rows cs e = Some e' -> est_inv e'.
Proof.
  induction cs as [|c cs IH]; intros e e' He Hc X; cbn [exec] in X; [inversion X; subst; exact He|].
  inversion Hc; subst. destruct (exec1 rows c e) as [e1|] eqn:E1; [|discriminate].
  eapply IH; [eapply exec1_inv; eassumption|assumption|exact X].
Qed.
Lemma init_inv b : buf_wf b -> buf_valid b -> est_inv (init_est b).
Proof. intros HW HV. split; [apply init_est_valid, HV|]. split; [exact HW|]. apply init_ok, HW. Qed.
