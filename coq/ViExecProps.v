(* ViExecProps.v -- C08: proofs about the interpreter of key programs (ViDefs.exec): the region handed to
   the operators, delete / yank / put at the level of exec, preservation of valid UTF-8. *)
From Coq Require Import List NArith ZArith Lia Bool ZifyN ZifyBool ZifyNat.
From NV Require Import Bytes UcDefs UcSpec UcSegProps MotDefs MotProps RegDefs RegProps ViDefs ViProps.
Import ListNotations.
Local Open Scope Z_scope.

(* ====================================================================================== *)
(* C08_region                                                                               *)
(* ====================================================================================== *)

Lemma vc_region_char b k r1 o1 r2 o2 : 0 <= o2 ->
  let '(ra, oa, rb, ob) := ends r1 o1 r2 o2 in
  vc_region b k r1 o1 r2 o2 =
  mk_region ra (ren_noeol (getl b ra) oa) rb
            (if incl_key k && (ob <? lbuf_eol b rb) then ren_noeol (getl b rb) ob + 1 else ob) false.
Proof.
  intro H2. unfold ends, lex_leb, vc_region.
  destruct (Z.ltb_spec o2 0); [lia|]. cbn [negb andb].
  destruct (Z.ltb_spec r2 r1) as [A|A].
  - destruct (Z.ltb_spec r1 r2); [lia|]. destruct (Z.eqb_spec r1 r2); [lia|]. cbn [orb andb].
    destruct (Z.eqb_spec r2 r1); [lia|]. cbn [andb]. reflexivity.
  - destruct (Z.eqb_spec r1 r2) as [E|E].
    + subst r2. destruct (Z.ltb_spec r1 r1); [lia|]. cbn [orb andb].
      destruct (Z.ltb_spec o2 o1); destruct (Z.leb_spec o1 o2); try lia; reflexivity.
    + destruct (Z.ltb_spec r1 r2); [|lia]. cbn [orb andb]. reflexivity.
Qed.

Lemma vc_region_line b k r1 o1 r2 o2 : o2 < 0 ->
  let g := vc_region b k r1 o1 r2 o2 in g_ln g = true /\ g_r1 g = Z.min r1 r2 /\ g_r2 g = Z.max r1 r2.
Proof.
  intro H. cbv zeta. destruct (vc_region_rows b k r1 o1 r2 o2) as (A & B & C). rewrite A, B, C.
  destruct (Z.ltb_spec o2 0); [auto|lia].
Qed.

Lemma ren_noeol_le ol o : 0 <= o -> ren_noeol ol o <= o.
Proof.
  intro H. unfold ren_noeol.
  set (n := match ol with Some l => slen l | None => 0 end).
  set (o1 := if o >=? n then Z.max 0 (n - 1) else o).
  assert (o1 <= o) by (unfold o1; destruct (Z.geb_spec o n); lia). clearbody o1.
  destruct (0 <? o1); cbn [andb]; [|lia]. destruct (N.eqb _ 10); lia.
Qed.

Lemma noeol_below_eol b r o : buf_wf b -> 0 <= o < lbuf_eol b r -> ren_noeol (getl b r) o = o.
Proof.
  intros HW H. unfold lbuf_eol in H. destruct (getl b r) as [l|] eqn:E; [|cbn in H; lia].
  pose proof (getl_wf _ _ _ HW E) as Hl. apply ren_noeol_id; [exact Hl|].
  unfold off_ok. destruct (Z.eqb_spec (slen l) 0); lia.
Qed.

(* the region is ordered: (r1, o1) <= (r2, o2) *)
Lemma vc_region_ordered b k r1 o1 r2 o2 : buf_wf b -> 0 <= o1 -> 0 <= o2 ->
  let g := vc_region b k r1 o1 r2 o2 in lex_le (g_r1 g) (g_o1 g) (g_r2 g) (g_o2 g).
Proof.
  intros HW H1 H2. cbv zeta. pose proof (vc_region_char b k r1 o1 r2 o2 H2) as E.
  unfold ends, lex_leb in E.
  assert (G : forall ra oa rb ob, 0 <= oa -> lex_le ra oa rb ob ->
     lex_le ra (ren_noeol (getl b ra) oa) rb (if incl_key k && (ob <? lbuf_eol b rb) then ren_noeol (getl b rb) ob + 1 else ob)).
  { intros ra oa rb ob Ha L. pose proof (ren_noeol_le (getl b ra) oa Ha) as Le.
    destruct L as [L|[L1 L2]]; [left; exact L|right; split; [exact L1|]].
    destruct (incl_key k); cbn [andb]; [|lia]. destruct (Z.ltb_spec ob (lbuf_eol b rb)); [|lia].
    rewrite (noeol_below_eol b rb ob HW) by lia. lia. }
  destruct (Z.ltb_spec r1 r2); cbn [orb] in E.
  - rewrite E. cbn [g_r1 g_r2 g_o1 g_o2]. apply G; [exact H1|left; assumption].
  - destruct (Z.eqb_spec r1 r2); cbn [andb] in E.
    + destruct (Z.leb_spec o1 o2); rewrite E; cbn [g_r1 g_r2 g_o1 g_o2]; apply G; try assumption; right; split; lia.
    + rewrite E. cbn [g_r1 g_r2 g_o1 g_o2]. apply G; [exact H2|left; lia].
Qed.

(* the full statement: what vc_motion hands to the operator, for every state and every target *)

Lemma vc_region_spec b k r1 o1 r2 o2 : buf_wf b -> 0 <= o1 -> region_spec b k r1 o1 r2 o2 (vc_region b k r1 o1 r2 o2).
Proof.
  intros HW H1. split; [apply vc_region_line|]. intro H2.
  pose proof (vc_region_ordered b k r1 o1 r2 o2 HW H1 H2) as Ord. cbv zeta in Ord.
  pose proof (vc_region_char b k r1 o1 r2 o2 H2) as E.
  assert (P : 0 <= snd (ends r1 o1 r2 o2)) by (unfold ends; destruct (lex_leb _ _ _ _); cbn; lia).
  destruct (ends r1 o1 r2 o2) as [[[ra oa] rb] ob]. cbn [snd] in P. rewrite E in *. cbn [g_ln g_r1 g_r2 g_o1 g_o2] in *.
  repeat split; try assumption.
  - destruct (incl_key k); cbn [andb]; [|reflexivity]. destruct (Z.ltb_spec ob (lbuf_eol b rb)); [|reflexivity].
    rewrite (noeol_below_eol b rb ob HW) by lia. reflexivity.
Qed.

(* at the level of the interpreter: whenever the motion of an operator command succeeds, the region
   passed on is the one of the specification, for the cursor (row, ren_noeol off) and the target *)
Lemma op_target_off b rows s a1 a2 t o1 k r2 o2 cl cc pc : 0 <= o1 ->
  op_target b rows s a1 a2 t o1 = TOk k r2 o2 cl cc pc -> 0 <= o2 \/ o2 = -1.
Proof.
  intros H E. unfold op_target in E. destruct t as [k0|].
  - destruct (vi_motion _ _ _ _ _ _ _ _ _ _ _) eqn:M; try discriminate. inversion E; subst.
    eapply vi_motion_off; [exact H|exact M].
  - inversion E. right. reflexivity.
Qed.

Lemma exec_region b rows s a1 a2 t k r2 o2 cl cc pc : buf_wf b -> 0 <= v_off s ->
  let o1 := ren_noeol (getl b (v_row s)) (v_off s) in
  op_target b rows s a1 a2 t o1 = TOk k r2 o2 cl cc pc ->
  (0 <= o2 \/ o2 = -1) /\ region_spec b k (v_row s) o1 r2 o2 (vc_region b k (v_row s) o1 r2 o2).
Proof.
  intros HW Ho o1 E. assert (H1 : 0 <= o1) by (apply ren_noeol_nonneg, Ho).
  split; [eapply op_target_off; [exact H1|exact E]|apply vc_region_spec; assumption].
Qed.

(* ====================================================================================== *)
(* chop after flat, decomposition of the buffer around a range of rows                      *)
(* ====================================================================================== *)
Lemma chop_f_chars ks : Forall scalar ks -> forall fuel, (length (chars ks) <= fuel)%nat -> chop_f fuel (chars ks) = map encode ks.
Proof.
  induction 1 as [|k ks Hk Hks IH]; intros fuel Hf.
  - cbn. destruct fuel; reflexivity.
  - rewrite chars_cons in *. pose proof (encode_nonempty k Hk) as Hn. rewrite app_length in Hf.
    destruct fuel as [|f]; [lia|]. cbn [chop_f map].
    destruct (encode k ++ chars ks) as [|x xs] eqn:E.
    { apply (f_equal (@length N)) in E. rewrite app_length in E. cbn in E. lia. }
    rewrite <- E. rewrite uc_next_encode by (auto; apply chars_hd_noncont; assumption).
    rewrite Nat.max_r by lia. rewrite firstn_app_exact, skipn_app_exact. f_equal. apply IH. lia.
Qed.
Lemma chop_chars ks : Forall scalar ks -> chop (chars ks) = map encode ks.
Proof. intro H. apply chop_f_chars; [exact H|lia]. Qed.
Lemma line_valid_enc cs : line_valid cs -> exists ks, Forall scalar ks /\ cs = map encode ks.
Proof.
  unfold line_valid. induction 1 as [|c cs (k & Hk & ->) _ (ks & Hks & ->)].
  - exists []. split; [constructor|reflexivity].
  - exists (k :: ks). split; [constructor; assumption|reflexivity].
Qed.
Lemma flat_enc ks : flat (map encode ks) = chars ks.
Proof. unfold flat, chars. symmetry. apply flat_map_concat_map. Qed.
Lemma chop_flat cs : line_valid cs -> chop (flat cs) = cs.
Proof. intro H. destruct (line_valid_enc cs H) as (ks & Hks & ->). rewrite flat_enc. apply chop_chars, Hks. Qed.
Lemma chop_valid s : valid s -> line_valid (chop s).
Proof.
  intros (ks & Hks & ->). rewrite chop_chars by exact Hks. unfold line_valid.
  induction Hks as [|k ks Hk _ IH]; cbn [map]; constructor; [exists k; auto|exact IH].
Qed.

Lemma getl_split b r l : getl b r = Some l -> exists pre post, b = pre ++ l :: post /\ Z.of_nat (length pre) = r.
Proof.
  intro E. destruct (getl_nth _ _ _ E) as [Hr En]. apply nth_error_split in En. destruct En as (pre & post & Eb & El).
  exists pre, post. split; [exact Eb|lia].
Qed.
Lemma getl_app_r (pre : buf) x r : Z.of_nat (length pre) <= r -> getl (pre ++ x) r = getl x (r - Z.of_nat (length pre)).
Proof.
  intro H. unfold getl. destruct (Z.ltb_spec r 0); [lia|]. destruct (Z.ltb_spec (r - Z.of_nat (length pre)) 0); [lia|].
  rewrite nth_error_app2 by lia. f_equal. lia.
Qed.
Lemma getl_cons_S (l : line) x r : 0 < r -> getl (l :: x) r = getl x (r - 1).
Proof.
  intro H. unfold getl. destruct (Z.ltb_spec r 0); [lia|]. destruct (Z.ltb_spec (r - 1) 0); [lia|].
  replace (Z.to_nat r) with (S (Z.to_nat (r - 1))) by lia. reflexivity.
Qed.
Lemma getl_split2 b r1 r2 l1 l2 : getl b r1 = Some l1 -> getl b r2 = Some l2 -> r1 < r2 ->
  exists pre mid post, b = pre ++ l1 :: mid ++ l2 :: post /\ Z.of_nat (length pre) = r1 /\ r2 = r1 + 1 + Z.of_nat (length mid).
Proof.
  intros E1 E2 H. destruct (getl_split _ _ _ E1) as (pre & rest & Eb & Ep). subst b.
  rewrite getl_app_r in E2 by lia. rewrite getl_cons_S in E2 by lia.
  destruct (getl_split _ _ _ E2) as (mid & post & Er & Em). subst rest.
  exists pre, mid, post. repeat split; [exact Ep|lia].
Qed.
Lemma set_row_decomp (pre x post : buf) ls : set_row (pre ++ x ++ post) (Z.of_nat (length pre)) ls (Z.of_nat (length x)) = pre ++ ls ++ post.
Proof.
  unfold set_row. rewrite Nat2Z.id, firstn_app_exact. f_equal. f_equal.
  replace (Z.to_nat (Z.of_nat (length pre) + Z.of_nat (length x))) with (length (pre ++ x)) by (rewrite app_length; lia).
  rewrite app_assoc. apply skipn_app_exact.
Qed.
Lemma rows_between_decomp (pre x post : buf) : rows_between (pre ++ x ++ post) (Z.of_nat (length pre)) (Z.of_nat (length pre) + Z.of_nat (length x)) = x.
Proof.
  unfold rows_between. rewrite Nat2Z.id, skipn_app_exact.
  replace (Z.to_nat (Z.of_nat (length pre) + Z.of_nat (length x) - Z.of_nat (length pre))) with (length x) by lia.
  apply firstn_app_exact.
Qed.
Lemma blen_app (x y : buf) : blen (x ++ y) = blen x + blen y.
Proof. unfold blen. rewrite app_length. lia. Qed.
Lemma sub_l_all (l : line) : sub_l l 0 (-1) = l.
Proof. rewrite sub_l_skipn by (unfold slen; lia). reflexivity. Qed.

(* line-wise region text = the lines themselves *)
Lemma region_lines (pre x post : buf) : x <> [] ->
  lbuf_region (pre ++ x ++ post) (Z.of_nat (length pre)) 0 (Z.of_nat (length pre) + Z.of_nat (length x) - 1) (-1) = concat x.
Proof.
  intro Hx. destruct x as [|l1 x]; [contradiction|]. clear Hx. unfold lbuf_region.
  assert (G1 : getl (pre ++ (l1 :: x) ++ post) (Z.of_nat (length pre)) = Some l1).
  { rewrite getl_app_r by lia. rewrite Z.sub_diag. reflexivity. }
  rewrite G1. destruct x as [|l2 x] using rev_ind.
  - cbn [length]. replace (Z.of_nat (length pre) + Z.of_nat 1 - 1) with (Z.of_nat (length pre)) by lia.
    rewrite G1, Z.eqb_refl, sub_l_all. cbn. rewrite app_nil_r. reflexivity.
  - clear IHx. cbn [length]. rewrite app_length. cbn [length].
    set (r2 := Z.of_nat (length pre) + Z.of_nat (S (length x + 1)) - 1).
    assert (G2 : getl (pre ++ (l1 :: x ++ [l2]) ++ post) r2 = Some l2).
    { rewrite getl_app_r by (unfold r2; lia). cbn [app]. rewrite getl_cons_S by (unfold r2; lia).
      rewrite <- app_assoc. rewrite getl_app_r by (unfold r2; lia).
      replace (r2 - Z.of_nat (length pre) - 1 - Z.of_nat (length x)) with 0 by (unfold r2; lia). reflexivity. }
    rewrite G2. destruct (Z.eqb_spec (Z.of_nat (length pre)) r2); [unfold r2 in *; lia|].
    rewrite !sub_l_all.
    replace (pre ++ (l1 :: x ++ [l2]) ++ post) with ((pre ++ [l1]) ++ x ++ (l2 :: post)) by (rewrite <- !app_assoc; cbn [app]; rewrite <- ?app_assoc; reflexivity).
    replace (Z.of_nat (length pre) + 1) with (Z.of_nat (length (pre ++ [l1]))) by (rewrite app_length; cbn; lia).
    replace r2 with (Z.of_nat (length (pre ++ [l1])) + Z.of_nat (length x)) by (unfold r2; rewrite app_length; cbn; lia).
    rewrite rows_between_decomp. cbn [concat]. rewrite concat_app. cbn [concat]. rewrite app_nil_r. reflexivity.
Qed.

(* ====================================================================================== *)
(* C08_delete_yank_put at the level of the interpreter                                      *)
(* ====================================================================================== *)
Lemma finish_buf rows b R s md : s_buf (finish rows b R s md) = b.
Proof. reflexivity. Qed.
Lemma finish_regs rows b R s md : s_regs (finish rows b R s md) = R.
Proof. reflexivity. Qed.
Lemma finish_row rows b R s md : 0 <= v_row s < blen b -> v_row (s_vs (finish rows b R s md)) = v_row s.
Proof.
  intro H. unfold finish, vi_wfix. destruct md; cbn [s_vs vs_col v_row];
  destruct (Z.ltb_spec (v_row s) 0); destruct (Z.geb_spec (v_row s) (blen b)); try lia; reflexivity.
Qed.
Lemma finish_off rows b R s md : 0 <= v_row s < blen b ->
  v_off (s_vs (finish rows b R s md)) = ren_noeol (getl b (v_row s)) (v_off s).
Proof.
  intro H. unfold finish, vi_wfix. destruct md; cbn [s_vs vs_col v_row v_off];
  destruct (Z.ltb_spec (v_row s) 0); destruct (Z.geb_spec (v_row s) (blen b)); try lia; reflexivity.
Qed.

Lemma range_split (b : buf) r1 r2 : 0 <= r1 <= r2 -> r2 < blen b ->
  exists pre x post, b = pre ++ x ++ post /\ Z.of_nat (length pre) = r1 /\ Z.of_nat (length x) = r2 - r1 + 1.
Proof.
  intros H1 H2. unfold blen in H2.
  exists (firstn (Z.to_nat r1) b), (firstn (Z.to_nat (r2 - r1 + 1)) (skipn (Z.to_nat r1) b)),
         (skipn (Z.to_nat (r2 - r1 + 1)) (skipn (Z.to_nat r1) b)).
  rewrite !firstn_skipn. repeat split.
  - rewrite firstn_length. lia.
  - rewrite firstn_length, skipn_length. lia.
Qed.


(* what the d and y commands do once the motion has succeeded *)
Lemma exec_op_yank rows e y a1 a2 t k r2 o2 cl cc pc :
  let b := s_buf e in let s := s_vs e in
  let o1 := ren_noeol (getl b (v_row s)) (v_off s) in
  op_target b rows s a1 a2 t o1 = TOk k r2 o2 cl cc pc ->
  let g := vc_region b k (v_row s) o1 r2 o2 in
  exec_op rows e y a1 Oy a2 t [] =
  Some (finish rows b (reg_put (s_regs e) y (flat (region_text b g)) (g_ln g))
               (vs_pos (vs_mot s cl cc pc) (g_r1 g) (if g_ln g then v_off s else g_o1 g)) (negb (g_ln g))).
Proof. intros b s o1 E g. unfold exec_op. fold b s o1. rewrite E. reflexivity. Qed.
Lemma exec_op_delete rows e y a1 a2 t k r2 o2 cl cc pc :
  let b := s_buf e in let s := s_vs e in
  let o1 := ren_noeol (getl b (v_row s)) (v_off s) in
  op_target b rows s a1 a2 t o1 = TOk k r2 o2 cl cc pc ->
  let g := vc_region b k (v_row s) o1 r2 o2 in
  let b' := fst (vi_delete b (s_regs e) y g) in
  exec_op rows e y a1 Od a2 t [] =
  Some (finish rows b' (reg_put (s_regs e) y (flat (region_text b g)) (g_ln g))
               (vs_pos (vs_mot s cl cc pc) (g_r1 g) (if g_ln g then lbuf_indents b' (g_r1 g) else g_o1 g)) true).
Proof.
  intros b s o1 E g b'. unfold exec_op. fold b s o1. rewrite E. change (v_row (vs_mot s cl cc pc)) with (v_row s). fold g.
  unfold b', vi_delete, region_text. destruct (g_ln g); reflexivity.
Qed.

(* yank: the buffer is unchanged and the register holds exactly the region's text *)
Lemma yank_spec rows e y a1 a2 t k r2 o2 cl cc pc e1 : plain_reg y ->
  let b := s_buf e in let s := s_vs e in
  let o1 := ren_noeol (getl b (v_row s)) (v_off s) in
  op_target b rows s a1 a2 t o1 = TOk k r2 o2 cl cc pc ->
  let g := vc_region b k (v_row s) o1 r2 o2 in
  exec_op rows e y a1 Oy a2 t [] = Some e1 ->
  s_buf e1 = b /\ reg_get (s_regs e1) y = Some (flat (region_text b g), g_ln g).
Proof.
  intros [Hy Hq] b s o1 E g X. rewrite (exec_op_yank rows e y a1 a2 t k r2 o2 cl cc pc E) in X. inversion X; subst e1.
  split; [reflexivity|]. cbn [s_regs finish]. apply put_get_plain; assumption.
Qed.

Lemma flat_app (x y : list chr) : flat (x ++ y) = flat x ++ flat y.
Proof. unfold flat. apply concat_app. Qed.
Lemma flat_wf_nonnil (l : line) (x : list chr) : line_wf l -> flat (l ++ x) <> [].
Proof.
  intros (body & -> & _) E. rewrite <- app_assoc, !flat_app in E. cbn in E.
  apply (f_equal (@length N)) in E. rewrite app_length in E. cbn in E. lia.
Qed.
Lemma buf_valid_app (x y : buf) : buf_valid (x ++ y) <-> buf_valid x /\ buf_valid y.
Proof. unfold buf_valid. apply Forall_app. Qed.
Lemma concat_valid (x : buf) : buf_valid x -> line_valid (concat x).
Proof. unfold buf_valid, line_valid. induction 1; cbn [concat]; [constructor|apply Forall_app; split; assumption]. Qed.
Lemma buf_wf_app (x y : buf) : buf_wf (x ++ y) <-> buf_wf x /\ buf_wf y.
Proof. unfold buf_wf. apply Forall_app. Qed.
Lemma repeat_app_1 {A} (x : list A) : repeat_app 1 x = x.
Proof. cbn. apply app_nil_r. Qed.

(* line-wise delete: register, buffer, cursor row; a following P of that register restores the
   buffer when a line is left below the deleted ones *)
Lemma delete_lines_spec rows e y a1 a2 t k r2 o2 cl cc pc e1 : plain_reg y ->
  let b := s_buf e in let s := s_vs e in
  let o1 := ren_noeol (getl b (v_row s)) (v_off s) in
  buf_wf b -> buf_valid b ->
  op_target b rows s a1 a2 t o1 = TOk k r2 o2 cl cc pc ->
  let g := vc_region b k (v_row s) o1 r2 o2 in
  g_ln g = true -> 0 <= g_r1 g -> g_r2 g < blen b ->
  exec_op rows e y a1 Od a2 t [] = Some e1 ->
  reg_get (s_regs e1) y = Some (flat (concat (rows_between b (g_r1 g) (g_r2 g + 1))), true) /\
  s_buf e1 = firstn (Z.to_nat (g_r1 g)) b ++ skipn (Z.to_nat (g_r2 g + 1)) b /\
  (g_r2 g + 1 < blen b -> v_row (s_vs e1) = g_r1 g /\ s_buf (exec_put rows e1 y 0 false) = b).
Proof.
  intros [Hy Hq] b s o1 HW HV E g Hln H1 H2 X.
  rewrite (exec_op_delete rows e y a1 a2 t k r2 o2 cl cc pc E) in X. fold b s o1 g in X.
  assert (H12 : g_r1 g <= g_r2 g) by (destruct (vc_region_rows b k (v_row s) o1 r2 o2) as (A & B & _); fold g in A, B; lia).
  clear E. clearbody g. clearbody o1. clearbody s. clearbody b.
  destruct (range_split b (g_r1 g) (g_r2 g) ltac:(lia) H2) as (pre & x & post & Eb & Lp & Lx).
  assert (Hx : x <> []) by (intro; subst x; cbn [length] in Lx; lia).
  assert (ET : region_text b g = concat x).
  { unfold region_text. rewrite Hln, Eb, <- Lp. replace (g_r2 g) with (Z.of_nat (length pre) + Z.of_nat (length x) - 1) by lia.
    apply region_lines, Hx. }
  assert (ER : rows_between b (g_r1 g) (g_r2 g + 1) = x).
  { rewrite Eb, <- Lp. replace (g_r2 g + 1) with (Z.of_nat (length pre) + Z.of_nat (length x)) by lia. apply rows_between_decomp. }
  assert (EB : fst (vi_delete b (s_regs e) y g) = pre ++ post).
  { unfold vi_delete. rewrite Hln. cbn [fst]. replace (g_r2 g + 1) with (g_r1 g + Z.of_nat (length x)) by lia.
    rewrite lbuf_edit_none by (try lia; rewrite Eb, !blen_app; unfold blen; lia).
    rewrite Eb, <- Lp. rewrite set_row_decomp. reflexivity. }
  rewrite EB, ET, Hln in X. inversion X; subst e1. clear X.
  rewrite finish_regs, finish_buf, ER. split; [apply put_get_plain; assumption|]. split.
  { rewrite Eb, <- Lp, Nat2Z.id, firstn_app_exact. f_equal.
    replace (Z.to_nat (Z.of_nat (length pre) + Z.of_nat (length x) - 1 + 1)) with (length (pre ++ x)) by (rewrite app_length; lia).
    replace (g_r2 g + 1) with (Z.of_nat (length (pre ++ x))) by (rewrite app_length; lia).
    rewrite Nat2Z.id, app_assoc, skipn_app_exact. reflexivity. }
  intro H3.
  assert (Hpost : post <> []).
  { intro; subst post. rewrite Eb, !blen_app in H3. unfold blen in H3. cbn [length] in H3. lia. }
  set (st := vs_pos (vs_mot s cl cc pc) (g_r1 g) (lbuf_indents (pre ++ post) (g_r1 g))).
  assert (Hrow : 0 <= v_row st < blen (pre ++ post)).
  { unfold st. cbn [vs_pos v_row]. rewrite blen_app. unfold blen. destruct post; [contradiction|]. cbn [length]. lia. }
  split; [rewrite finish_row by exact Hrow; reflexivity|].
  unfold exec_put. rewrite finish_regs, finish_buf, finish_row by exact Hrow.
  rewrite put_get_plain by assumption.
  rewrite Eb in HW, HV. apply buf_wf_app in HW. destruct HW as [HWp HW]. apply buf_wf_app in HW. destruct HW as [HWx HWq].
  apply buf_valid_app in HV. destruct HV as [HVp HV]. apply buf_valid_app in HV. destruct HV as [HVx HVq].
  destruct (flat (concat x)) as [|c0 txt] eqn:Etxt.
  { exfalso. destruct x as [|l1 x]; [contradiction|]. cbn [concat] in Etxt. inversion HWx; subst. eapply flat_wf_nonnil; eassumption. }
  rewrite <- Etxt. change (Z.max 1 0) with 1. change (Z.to_nat 1) with 1%nat. rewrite repeat_app_1.
  rewrite chop_flat by (apply concat_valid, HVx).
  destruct (Z.eqb_spec (blen (pre ++ post)) 0) as [Z0|_]; [lia|].
  cbn [st vs_pos v_row]. rewrite finish_buf.
  unfold lbuf_edit. rewrite !Z.min_l by (rewrite blen_app; unfold blen; lia). rewrite Z.sub_diag.
  rewrite split_text_concat by exact HWx.
  rewrite <- Lp. change 0 with (Z.of_nat (@length line [])).
  replace (pre ++ post) with (pre ++ [] ++ post) by reflexivity. rewrite set_row_decomp. symmetry. exact Eb.
Qed.

(* ---------- character-wise regions ---------- *)
Lemma sub_l_cut (l : line) o : 0 <= o <= slen l -> sub_l l 0 o ++ sub_l l o (-1) = l.
Proof.
  intro H. rewrite sub_l_firstn, sub_l_skipn by lia. apply firstn_skipn.
Qed.
Lemma lbuf_region_valid b r1 o1 r2 o2 : buf_valid b -> line_valid (lbuf_region b r1 o1 r2 o2).
Proof.
  intro Hb. unfold lbuf_region. destruct (getl b r1) as [l1|] eqn:E1; [|constructor]. destruct (getl b r2) as [l2|] eqn:E2; [|constructor].
  pose proof (optl_valid b r1 Hb) as V1. pose proof (optl_valid b r2 Hb) as V2. rewrite E1 in V1. rewrite E2 in V2. cbn [optl] in *.
  destruct (r1 =? r2); [apply sub_l_valid, V1|].
  unfold line_valid. apply Forall_app. split; [apply sub_l_valid, V1|]. apply Forall_app. split; [|apply sub_l_valid, V2].
  apply concat_valid. unfold rows_between, buf_valid. apply Forall_firstn', Forall_skipn', Hb.
Qed.
Lemma region_cut b r1 o1 r2 o2 l1 l2 : getl b r1 = Some l1 -> getl b r2 = Some l2 -> lex_le r1 o1 r2 o2 ->
  0 <= o1 <= slen l1 -> 0 <= o2 <= slen l2 ->
  exists pre x post, b = pre ++ x ++ post /\ Z.of_nat (length pre) = r1 /\ Z.of_nat (length x) = r2 - r1 + 1 /\
    sub_l l1 0 o1 ++ lbuf_region b r1 o1 r2 o2 ++ sub_l l2 o2 (-1) = concat x.
Proof.
  intros E1 E2 L H1 H2. destruct L as [L|[L Lo]].
  - destruct (getl_split2 b r1 r2 l1 l2 E1 E2 L) as (pre & mid & post & Eb & Lp & Lm).
    exists pre, (l1 :: mid ++ [l2]), post. split; [rewrite Eb; cbn [app]; rewrite <- app_assoc; reflexivity|].
    split; [exact Lp|]. split; [cbn [length]; rewrite app_length; cbn [length]; lia|].
    unfold lbuf_region. rewrite E1, E2. destruct (Z.eqb_spec r1 r2); [lia|].
    assert (ER : rows_between b (r1 + 1) r2 = mid).
    { rewrite Eb. replace (pre ++ l1 :: mid ++ l2 :: post) with ((pre ++ [l1]) ++ mid ++ (l2 :: post)) by (rewrite <- app_assoc; reflexivity).
      replace (r1 + 1) with (Z.of_nat (length (pre ++ [l1]))) by (rewrite app_length; cbn [length]; lia).
      replace r2 with (Z.of_nat (length (pre ++ [l1])) + Z.of_nat (length mid)) by (rewrite app_length; cbn [length]; lia).
      apply rows_between_decomp. }
    rewrite ER. cbn [concat]. rewrite concat_app. cbn [concat]. rewrite app_nil_r.
    rewrite <- (sub_l_cut l1 o1 H1) at 3. rewrite <- (sub_l_cut l2 o2 H2) at 3. rewrite <- !app_assoc. reflexivity.
  - subst r2. rewrite E1 in E2. inversion E2; subst l2. destruct (getl_split b r1 l1 E1) as (pre & post & Eb & Lp).
    exists pre, [l1], post. split; [exact Eb|]. split; [exact Lp|]. split; [cbn [length]; lia|].
    unfold lbuf_region. rewrite E1, Z.eqb_refl. cbn [concat]. rewrite app_nil_r. apply sub_l_split; lia.
Qed.

Lemma region_char_facts b k r1 o1 r2 o2 l1 : buf_wf b -> 0 <= o1 -> 0 <= o2 ->
  let g := vc_region b k r1 o1 r2 o2 in getl b (g_r1 g) = Some l1 ->
  0 <= g_o1 g <= slen l1 - 1 /\ 0 <= g_o2 g /\ lex_le (g_r1 g) (g_o1 g) (g_r2 g) (g_o2 g).
Proof.
  intros HW H1 H2 g El. destruct (vc_region_spec b k r1 o1 r2 o2 HW H1) as [_ S]. specialize (S H2). fold g in S.
  assert (P : 0 <= snd (fst (fst (ends r1 o1 r2 o2))) /\ 0 <= snd (ends r1 o1 r2 o2))
    by (unfold ends; destruct (lex_leb _ _ _ _); cbn; lia).
  destruct (ends r1 o1 r2 o2) as [[[ra oa] rb] ob]. cbn [fst snd] in P. destruct S as (_ & Ea & Eb & Eo1 & Eo2 & L).
  split; [|split; [|exact L]].
  - rewrite Eo1, <- Ea, El. pose proof (getl_wf _ _ _ HW El) as Hl.
    pose proof (ren_noeol_ok l1 oa Hl ltac:(lia)) as [A B]. pose proof (wf_slen_pos l1 Hl). lia.
  - rewrite Eo2. destruct (incl_key k && (ob <? lbuf_eol b rb)); lia.
Qed.

(* character-wise delete: register, buffer (before ++ after on one line), cursor; a following P of that
   register restores the buffer when the cursor could stay at the start of the region *)
Lemma delete_chars_spec rows e y a1 a2 t k r2 o2 cl cc pc e1 l1 l2 : plain_reg y ->
  let b := s_buf e in let s := s_vs e in
  let o1 := ren_noeol (getl b (v_row s)) (v_off s) in
  buf_wf b -> buf_valid b -> 0 <= v_off s ->
  op_target b rows s a1 a2 t o1 = TOk k r2 o2 cl cc pc ->
  let g := vc_region b k (v_row s) o1 r2 o2 in
  g_ln g = false -> getl b (g_r1 g) = Some l1 -> getl b (g_r2 g) = Some l2 -> g_o2 g <= slen l2 - 1 ->
  exec_op rows e y a1 Od a2 t [] = Some e1 ->
  let nl := sub_l l1 0 (g_o1 g) ++ sub_l l2 (g_o2 g) (-1) in
  let txt := lbuf_region b (g_r1 g) (g_o1 g) (g_r2 g) (g_o2 g) in
  reg_get (s_regs e1) y = Some (flat txt, false) /\
  s_buf e1 = firstn (Z.to_nat (g_r1 g)) b ++ [nl] ++ skipn (Z.to_nat (g_r2 g + 1)) b /\
  v_row (s_vs e1) = g_r1 g /\
  (off_ok nl (g_o1 g) -> flat txt <> [] -> v_off (s_vs e1) = g_o1 g /\ s_buf (exec_put rows e1 y 0 false) = b).
Proof.
  intros [Hy Hq] b s o1 HW HV Ho E g Hln El1 El2 Hb2 X nl txt.
  rewrite (exec_op_delete rows e y a1 a2 t k r2 o2 cl cc pc E) in X. fold b s o1 g in X.
  assert (H1 : 0 <= o1) by (apply ren_noeol_nonneg, Ho).
  assert (H2 : 0 <= o2).
  { destruct (vc_region_rows b k (v_row s) o1 r2 o2) as (_ & _ & C). fold g in C. rewrite Hln in C. destruct (Z.ltb_spec o2 0); [discriminate|lia]. }
  destruct (region_char_facts b k (v_row s) o1 r2 o2 l1 HW H1 H2 El1) as (F1 & F2 & F3). fold g in F1, F2, F3.
  clear E. clearbody g. clearbody o1. clearbody s. clearbody b.
  pose proof (getl_wf _ _ _ HW El1) as W1. pose proof (getl_wf _ _ _ HW El2) as W2.
  destruct (region_cut b (g_r1 g) (g_o1 g) (g_r2 g) (g_o2 g) l1 l2 El1 El2 F3 ltac:(lia) ltac:(lia)) as (pre & x & post & Eb & Lp & Lx & Ecat).
  fold txt in Ecat.
  assert (Wnl : line_wf nl) by (apply cut_wf; try assumption; lia).
  assert (EB : fst (vi_delete b (s_regs e) y g) = pre ++ [nl] ++ post).
  { unfold vi_delete. rewrite Hln, El1, El2. cbn [fst optl]. fold nl. replace (g_r2 g + 1) with (g_r1 g + Z.of_nat (length x)) by lia.
    rewrite lbuf_edit_some by (try lia; rewrite Eb, !blen_app; unfold blen; lia).
    rewrite (split_text_line nl Wnl). rewrite Eb, <- Lp. apply set_row_decomp. }
  assert (ET : region_text b g = txt) by (unfold region_text; rewrite Hln; reflexivity).
  rewrite EB, ET, Hln in X. inversion X; subst e1. clear X.
  rewrite finish_regs, finish_buf. split; [apply put_get_plain; assumption|]. split.
  { rewrite Eb, <- Lp, Nat2Z.id, firstn_app_exact. f_equal. f_equal.
    replace (g_r2 g + 1) with (Z.of_nat (length (pre ++ x))) by (rewrite app_length; lia).
    rewrite Nat2Z.id, app_assoc, skipn_app_exact. reflexivity. }
  set (st := vs_pos (vs_mot s cl cc pc) (g_r1 g) (g_o1 g)).
  set (b' := pre ++ (@cons line nl nil) ++ post).
  set (R' := reg_put (s_regs e) y (flat txt) false).
  assert (Hrow : 0 <= v_row st < blen b').
  { unfold st, b'. cbn [vs_pos v_row]. rewrite !blen_app. unfold blen. cbn [length]. lia. }
  assert (G : getl b' (g_r1 g) = Some nl).
  { unfold b'. rewrite getl_app_r by lia. rewrite <- Lp, Z.sub_diag. reflexivity. }
  set (e1 := finish rows b' R' st true).
  assert (P1 : s_buf e1 = b') by reflexivity.
  assert (P2 : s_regs e1 = R') by reflexivity.
  assert (P3 : v_row (s_vs e1) = g_r1 g) by (unfold e1; rewrite finish_row by exact Hrow; reflexivity).
  assert (P4 : off_ok nl (g_o1 g) -> v_off (s_vs e1) = g_o1 g).
  { intro Hok. unfold e1. rewrite finish_off by exact Hrow. unfold st. cbn [vs_pos v_row v_off]. rewrite G. apply ren_noeol_id; assumption. }
  change (finish rows (pre ++ nl :: post) R' st true) with e1.
  clearbody e1. split; [exact P3|]. intros Hok Hne. specialize (P4 Hok). split; [exact P4|].
  unfold exec_put. rewrite P1, P2, P3, P4. unfold R'.
  rewrite put_get_plain by assumption.
  destruct (flat txt) as [|c0 tl] eqn:Etxt; [contradiction|]. rewrite <- Etxt.
  change (Z.max 1 0) with 1. change (Z.to_nat 1) with 1%nat. rewrite repeat_app_1.
  rewrite chop_flat by (apply lbuf_region_valid, HV).
  rewrite finish_buf.
  destruct (Z.ltb_spec (g_r1 g) (blen b')); [|unfold st in Hrow; cbn [vs_pos v_row] in Hrow; lia]. rewrite G. cbn [optl].
  rewrite andb_false_r, Z.add_0_r, (ren_noeol_id nl (g_o1 g) Wnl Hok).
  assert (E1 : sub_l nl 0 (g_o1 g) = sub_l l1 0 (g_o1 g) /\ sub_l nl (g_o1 g) (-1) = sub_l l2 (g_o2 g) (-1)).
  { pose proof (sub_l_len l1 (g_o1 g) ltac:(lia)) as L1. unfold nl.
    pose proof (sub_l_app_left (sub_l l1 0 (g_o1 g)) (sub_l l2 (g_o2 g) (-1))) as A1.
    pose proof (sub_l_app_right (sub_l l1 0 (g_o1 g)) (sub_l l2 (g_o2 g) (-1))) as A2.
    rewrite L1 in A1, A2. split; assumption. }
  destruct E1 as [E1 E2]. rewrite E1, E2, Ecat.
  replace (g_r1 g + 1) with (g_r1 g + Z.of_nat (@length line [nl])) by (cbn [length]; lia).
  rewrite lbuf_edit_some by (try lia; unfold b'; rewrite !blen_app; unfold blen; cbn [length]; lia). unfold b'.
  rewrite Eb in HW. apply buf_wf_app in HW. destruct HW as [_ HW]. apply buf_wf_app in HW. destruct HW as [HWx _].
  rewrite split_text_concat by exact HWx. rewrite <- Lp, set_row_decomp. symmetry. exact Eb.
Qed.
