(* TrExCmds.v -- C06: the LINE COMMANDS of /repo/ex.c (ec_delete, ec_put, ec_yank, ec_insert, ec_print, ec_null, ec_lnum, ec_mark,
   with ex_yank and ex_zero; whitelist tools/c2clite.d/88_excmds.list) do to the editor what the model's commands (coq/ExDefs.v) do
   to the abstract state, BY PROOF on the translated C text, relative to oracles for the line-buffer operations they call. *)
From Coq Require Import List ZArith NArith Bool Lia.
From NV Require Import Bytes GenConsts CLite CLiteProps GenCFuncs CLiteTac CLiteExt TrLbufBase TrLbufMarks ExAddrDefs TrExAddr ExCapAddr TrExAddrEx.
From NV Require CapDefs CapDefs2 CapProps ExDefs ExProps.
Import ListNotations.
Local Open Scope Z_scope.

Local Notation iok := TrExAddr.int_ok.
Ltac xs := repeat (progress (xstep; cbn [b2z fst snd]; try change (0 =? 0) with true; try change (1 =? 0) with false; cbn [negb])).

(* ------------------------------------------------------------------ the untranslated callees *)
Lemma x_ex_zero_none : nth_error cprog X_ex_zero = None. Proof. vm_compute. reflexivity. Qed.
Lemma x_lbuf_cp_none : nth_error cprog X_lbuf_cp = None. Proof. vm_compute. reflexivity. Qed.
Lemma x_reg_put_none : nth_error cprog X_reg_put = None. Proof. vm_compute. reflexivity. Qed.
Lemma x_lbuf_edit_none : nth_error cprog X_lbuf_edit = None. Proof. vm_compute. reflexivity. Qed.
Lemma x_ex_print_none : nth_error cprog X_ex_print = None. Proof. vm_compute. reflexivity. Qed.
Lemma x_sprintf_none : nth_error cprog X_sprintf = None. Proof. vm_compute. reflexivity. Qed.

(* the memory holds bufs[0].lb -> a struct lbuf with n lines *)
Definition len_view (mm : mem) (bl : nat) (n : Z) : Prop :=
  exists gbufs lblk, nth_error mm G_bufs = Some gbufs /\ nth_error gbufs BUFS_LB = Some (VPtr bl 0) /\
                     nth_error mm bl = Some lblk /\ nth_error lblk L_ln_n = Some (VInt n) /\ iok n.
Definition xb_view (mm : mem) (bl : nat) : Prop := exists gbufs, nth_error mm G_bufs = Some gbufs /\ nth_error gbufs BUFS_LB = Some (VPtr bl 0).
Lemma len_xb mm bl n : len_view mm bl n -> xb_view mm bl.
Proof. intros (g & l & H1 & H2 & _). exists g. split; assumption. Qed.
Definition xb_e : expr := ECall F_ex_lbuf [].
Definition len_e : expr := ECall F_lbuf_len [xb_e].

(* what a command needs of the memory it is called in: the address string, xrow, the buffer's length and marks as the model state has them *)
Record cmd_pre (mm : mem) (st : ExDefs.st) (bs bl : nat) (s : bytes) (gbufs lblk : block) : Prop := mk_cmd_pre {
  cp_str : str_at mm bs s;
  cp_nn : nonul s;
  cp_no : nosearch s;
  cp_x : cell_at mm G_xrow (ExDefs.xrow st);
  cp_bufs : nth_error mm G_bufs = Some gbufs;
  cp_lb : nth_error gbufs BUFS_LB = Some (VPtr bl 0);
  cp_l : nth_error mm bl = Some lblk;
  cp_n : nth_error lblk L_ln_n = Some (VInt (ExDefs.slen st));
  cp_mi : marks_ints lblk;
  cp_mr : marks_rep lblk (ExDefs.marks (ExDefs.lb st));
  cp_lit : nth_error mm G_lit_25_1 = Some gb_lit_25_1;
  cp_ix : iok (ExDefs.xrow st);
  cp_il : iok (ExDefs.slen st);
  cp_big : 2 * Z.of_nat (S (length s)) <= 2147483647;
  cp_fit : region_fit (ExDefs.slen st) (mark_of lblk) search0 s (ExDefs.xrow st) }.

Section Cx.
  Variable ext : nat -> list val -> mem -> res (val * mem).
  Variable fuel : nat.

  Lemma cx_ext D f args mm : nth_error cprog f = None -> callx ext cprog fuel (S D) f args mm = ext f args mm.
  Proof. intro H. rewrite callx_S, H. reflexivity. Qed.
  Lemma cx_lbuf D mm gbufs bl : nth_error mm G_bufs = Some gbufs -> nth_error gbufs BUFS_LB = Some (VPtr bl 0) ->
    callx ext cprog fuel (S D) F_ex_lbuf [] mm = Ok (VPtr bl 0, mm).
  Proof. intros H1 H2. apply callx_mono. exact (call_ex_lbuf mm gbufs bl D fuel H1 H2). Qed.
  Lemma cx_len D mm bl lblk n : nth_error mm bl = Some lblk -> nth_error lblk L_ln_n = Some (VInt n) -> iok n ->
    callx ext cprog fuel (S D) F_lbuf_len [VPtr bl 0] mm = Ok (VInt n, mm).
  Proof. intros H1 H2 H3. apply callx_mono. exact (call_lbuf_len mm bl lblk n D fuel H1 H2 H3). Qed.
  Lemma eval_xb D L mm bl : xb_view mm bl -> eval (callx ext cprog fuel (S D)) xb_e (mkst L mm) = Ok (VPtr bl 0, mkst L mm).
  Proof. intros (gbufs & H1 & H2). unfold xb_e. xs. rewrite (cx_lbuf D mm gbufs bl H1 H2). reflexivity. Qed.
  Lemma eval_len D L mm bl n : len_view mm bl n -> eval (callx ext cprog fuel (S D)) len_e (mkst L mm) = Ok (VInt n, mkst L mm).
  Proof.
    intros (gbufs & lblk & H1 & H2 & H3 & H4 & H5). unfold len_e, xb_e. xs. rewrite (cx_lbuf D mm gbufs bl H1 H2). xs.
    rewrite (cx_len D mm bl lblk n H3 H4 H5). reflexivity.
  Qed.

  Lemma cx_ex_lineno D m bs bn bl s i xrow len gbufs lblk search n j :
    str_at m bs s -> bytes_lt256 s -> nth_error m bn = Some [VPtr bs (Z.of_nat i)] -> cell_at m G_xrow xrow ->
    nth_error m G_bufs = Some gbufs -> nth_error gbufs BUFS_LB = Some (VPtr bl 0) ->
    nth_error m bl = Some lblk -> nth_error lblk L_ln_n = Some (VInt len) -> marks_ints lblk ->
    bs <> bn /\ G_xrow <> bn /\ G_bufs <> bn /\ bl <> bn -> iok xrow -> iok len ->
    nosearch s -> (i <= length s)%nat -> (2 * S (length s) <= fuel)%nat ->
    CapDefs.ex_lineno len (mark_of lblk) search xrow s i = CapDefs.Ok (n, j) -> lineno_fit len (mark_of lblk) search xrow s i ->
    exists j' nb, callx ext cprog fuel (S (S (S D))) F_ex_lineno [VPtr bn 0] m
                  = Ok (VInt n, upd m bn [VPtr bs (Z.of_nat j')] ++ [[VInt nb]]) /\
                  (j' = j \/ n = -2) /\ (i <= j')%nat /\ (j' <= length s)%nat /\ iok n.
  Proof.
    intros H1 H2 H3 H4 H5 H6 H7 H8 H9 H10 H11 H12 H13 H14 H15 H16 H17.
    destruct (call_ex_lineno m bs bn bl s i xrow len gbufs lblk search D fuel n j H1 H2 H3 H4 H5 H6 H7 H8 H9 H10 H11 H12 H13 H14 H15 H16 H17)
      as (j' & nb & E & R).
    exists j', nb. split; [apply callx_mono; exact E|exact R].
  Qed.

  (* ---- the address: ex_region(loc, &beg, &end) called by a command, in terms of the model ExDefs.ex_region *)
  Lemma cx_region D rvalid rfind mm st bs bl s gbufs lblk bb be vb0 e0 :
    cmd_pre mm st bs bl s gbufs lblk -> nth_error mm bb = Some [vb0] -> nth_error mm be = Some [VInt e0] -> iok e0 ->
    rdist bs bb be bl -> (2 * S (length s) <= fuel)%nat ->
    let R := ExDefs.ex_region rvalid rfind s st in
    exists m1, callx ext cprog fuel (S (S (S (S D)))) F_ex_region [VPtr bs 0; VPtr bb 0; VPtr be 0] mm
               = Ok (VInt (b2z (fst (fst (fst R)))), m1) /\
      nth_error m1 bb = Some [VInt (snd (fst (fst R)))] /\ nth_error m1 be = Some [VInt (snd (fst R))] /\
      cell_at m1 G_xrow (ExDefs.xrow (snd R)) /\ snd R = ExDefs.set_xrow st (ExDefs.xrow (snd R)) /\
      iok (snd (fst (fst R))) /\ iok (snd (fst R)) /\ iok (ExDefs.xrow (snd R)) /\
      (forall b', (b' < length mm)%nat -> b' <> bb -> b' <> be -> b' <> G_xrow -> nth_error m1 b' = nth_error mm b').
  Proof.
    intros [Hs Hnn Hno Hx Hb Hbl Hl Hln Hmi Hrep Hlit Hxr Hlen Hbig Hfit] Hbeg Hend He0 Hdist Hf R.
    pose proof (nonul_lt256 s Hnn) as H256.
    assert (Hlt : (bs < length mm)%nat /\ (bb < length mm)%nat /\ (be < length mm)%nat /\ (bl < length mm)%nat /\
                  (G_xrow < length mm)%nat /\ (G_bufs < length mm)%nat).
    { unfold str_at, cell_at in *. repeat split; apply nth_error_Some; congruence. }
    destruct (region_bridge rvalid rfind search0 s st Hnn Hno) as (r & Er & Ex).
    rewrite <- (region_full_ext _ _ _ s _ (lineno_mark_ext (ExDefs.slen st) _ _ search0 s H256 (marks_model lblk (ExDefs.lb st) Hrep))) in Er.
    destruct Hlt as (L1 & L2 & L3 & L4 & L5 & L6).
    destruct (region_body_ok mm bs bb be bl s gbufs lblk (ExDefs.slen st) Hnn (conj L1 (conj L2 (conj L3 (conj L4 (conj L5 L6))))) Hdist Hlen
                (callx ext cprog fuel (S (S (S D))))
                (fun m0 H => cx_lbuf (S (S D)) m0 gbufs bl H Hbl)
                (fun m0 H => cx_len (S (S D)) m0 bl lblk (ExDefs.slen st) H Hln Hlen)
                search0
                (fun m0 i xr vb e n j Rv Hi Ixr El Fl =>
                   cx_ex_lineno D m0 bs (length mm) bl s i xr (ExDefs.slen st) gbufs lblk search0 n j
                     (ri_str _ _ _ _ _ _ _ _ _ _ _ _ _ Rv) H256 (ri_loc _ _ _ _ _ _ _ _ _ _ _ _ _ Rv) (ri_xrow _ _ _ _ _ _ _ _ _ _ _ _ _ Rv)
                     (ri_bufs _ _ _ _ _ _ _ _ _ _ _ _ _ Rv) Hbl (ri_lbuf _ _ _ _ _ _ _ _ _ _ _ _ _ Rv) Hln Hmi
                     (conj (lt_ne _ _ L1) (conj (lt_ne _ _ L5) (conj (lt_ne _ _ L6) (lt_ne _ _ L4)))) Ixr Hlen Hno Hi Hf El Fl)
                (ExDefs.xrow st) vb0 e0 Hs Hx Hbeg Hend Hb Hl Hlit Hxr He0 Hbig fuel r Er Hfit Hf) as (st' & i' & Exe & RI & Ib & Ie & Ixr).
    exists (memm st'). unfold R. rewrite Ex. cbn [fst snd ExDefs.xrow ExDefs.set_xrow]. split.
    - rewrite callx_S. cbn [nth_error cprog F_ex_region]. change (fn_nparams cf_ex_region) with 3%nat. change (fn_nlocals cf_ex_region) with 6%nat.
      cbn [length Nat.eqb Nat.sub repeat app]. rewrite Exe. reflexivity.
    - destruct RI as [A B C D0 E F G H]. split; [exact D0|]. split; [exact E|]. split; [exact C|]. split; [reflexivity|].
      split; [exact Ib|]. split; [exact Ie|]. split; [exact Ixr|exact H].
  Qed.
End Cx.

(* ------------------------------------------------------------------ ex_zero (fix 6c95ca8): loc[0] && strcmp("%", loc) && !beg && !end *)
Lemma sx_ne0 : forall c, (c < 256)%N -> negb (wrap I32 (wrap I8 (Z.of_N c)) =? 0) = negb (c =? 0)%N.
Proof. byte_fact. Qed.
Theorem tr_ex_zero m bs s b e d fuel : str_at m bs s -> nonul s -> nth_error m G_lit_25_1 = Some gb_lit_25_1 ->
  callf cprog fuel (S d) F_ex_zero [VPtr bs 0; VInt b; VInt e] m = Ok (VInt (b2z (ExDefs.ex_zero s b e)), m).
Proof.
  intros Hs Hn Hlit. pose proof (nonul_lt256 s Hn) as H256.
  enter F_ex_zero cf_ex_zero. xs. rewrite (load_str m bs s (0 + 1 * 0) 0 Hs eq_refl ltac:(lia)). xs.
  rewrite (sx_ne0 _ (nthb_lt256 s 0 H256)). unfold ExDefs.ex_zero.
  destruct s as [|c t]; [reflexivity|]. inversion Hn as [|? ? [Hc0 Hc] Ht]; subst.
  change (nthb (c :: t) 0) with c. destruct (N.eqb_spec c 0) as [Ez|Ez]; [lia|]. xs.
  destruct (strcmp_pct m G_lit_25_1 bs (c :: t) Hlit Hs Hn) as (r & Ecmp & Hr). change (Z.of_nat 0) with 0 in *. rewrite Ecmp. xs.
  change (ExDefs.bytes_eqb (c :: t) [37%N]) with (CapDefs.bytes_eqb (c :: t) [37%N]). rewrite <- Hr.
  destruct (r =? 0); xs; [reflexivity|]. destruct (b =? 0); xs; [|reflexivity]. destruct (e =? 0); reflexivity.
Qed.
(* ex.c's own calls of ex_zero are calls to the index X_ex_zero (tools/c2clite.d/88_excmds.list: @extern, so that ec_glob's text keeps
   its form): the theorems below are about cprog LINKED with the translated ex_zero at that index *)
Definition zero_linked (ext : nat -> list val -> mem -> res (val * mem)) : Prop :=
  forall args mm, ext X_ex_zero args mm = callf cprog 0 1 F_ex_zero args mm.

(* ------------------------------------------------------------------ REG(arg): arg[0] != '\\' ? (unsigned char) arg[0] : 0x80 | (unsigned char) arg[1] *)
Definition arg_byte (k : Z) : expr := ELoad (Some I8) (EPtrAdd 1 (ELocal 2) (EConst k)).
Definition reg_e : expr :=
  ECond (EBin ONe I32 (ECast I32 (arg_byte 0)) (EConst 92)) (ECast I32 (ECast U8 (arg_byte 0)))
        (EBin OOr I32 (EConst 128) (ECast I32 (ECast U8 (arg_byte 1)))).
Lemma sx_eqb_97 : forall c, (c < 256)%N -> (wrap I32 (wrap I8 (Z.of_N c)) =? 97) = (c =? 97)%N.
Proof. byte_fact. Qed.
Lemma sx_ne_99 : forall c, (c < 256)%N -> negb (wrap I32 (wrap I8 (Z.of_N c)) =? 99) = negb (c =? 99)%N.
Proof. byte_fact. Qed.
Lemma sx_ne_92 : forall c, (c < 256)%N -> negb (wrap I32 (wrap I8 (Z.of_N c)) =? 92) = negb (c =? 92)%N.
Proof. byte_fact. Qed.
Lemma eval_reg call v0 v1 ba rest mm arg : str_at mm ba arg -> nonul arg ->
  eval call reg_e (mkst (v0 :: v1 :: VPtr ba 0 :: rest) mm) = Ok (VInt (Z.of_N (ExDefs.REG arg)), mkst (v0 :: v1 :: VPtr ba 0 :: rest) mm).
Proof.
  intros Hs Hn. pose proof (nonul_lt256 arg Hn) as H256. unfold reg_e, arg_byte. xs.
  rewrite (load_str mm ba arg (0 + 1 * 0) 0 Hs eq_refl ltac:(lia)). xs. rewrite (sx_ne_92 _ (nthb_lt256 arg 0 H256)).
  destruct arg as [|c t].
  { change (nthb [] 0) with 0%N. cbn [N.eqb negb]. xs. rewrite (load_str mm ba [] (0 + 1 * 0) 0 Hs eq_refl ltac:(cbn [length]; lia)). xs. reflexivity. }
  change (nthb (c :: t) 0) with c. inversion Hn as [|? ? [Hc0 Hc] Ht]; subst.
  unfold ExDefs.REG. destruct (N.eqb_spec c 92) as [->|Hne]; xs.
  - rewrite (load_str mm ba (92%N :: t) (0 + 1 * 1) 1 Hs eq_refl ltac:(cbn [length]; lia)). xs.
    change (nthb (92%N :: t) 1) with (nthb t 0). rewrite (wrap_byte_chain _ (nthb_lt256 t 0 (nonul_lt256 t Ht))).
    replace (nthb t 0) with (hd0 t) by (destruct t; reflexivity). change 128 with (Z.of_N 128). rewrite of_N_lor. reflexivity.
  - rewrite (load_str mm ba (c :: t) (0 + 1 * 0) 0 Hs eq_refl ltac:(lia)). xs. change (nthb (c :: t) 0) with c. rewrite (wrap_byte_chain _ Hc).
    destruct c as [|p]; [lia|]. destruct (Pos.eq_dec p 92) as [->|Hp]; [congruence|].
    repeat (destruct p as [p|p|]; try reflexivity; try congruence).
Qed.

(* ------------------------------------------------------------------ integer expressions without side effects *)
Definition pure (call : nat -> list val -> mem -> res (val * mem)) (e : expr) (st : state) (z : Z) : Prop := eval call e st = Ok (VInt z, st).
Definition ld (k : nat) : expr := ELoad (Some I32) (ELocal k).
Definition min_e (a b : expr) : expr := ECond (EBin OLt I32 a b) a b.       (* MIN(a, b) of vi.h *)
Definition max_e (a b : expr) : expr := ECond (EBin OLt I32 a b) b a.       (* MAX(a, b) *)
Section Pure.
  Variable call : nat -> list val -> mem -> res (val * mem).
  Lemma pure_const z st : pure call (EConst z) st z.
  Proof. reflexivity. Qed.
  Lemma pure_local k L mm z : nth_error L k = Some (VInt z) -> pure call (ELocal k) (mkst L mm) z.
  Proof. intro H. unfold pure. cbn [eval]. unfold get_local. cbn [locals]. rewrite H. reflexivity. Qed.
  Lemma pure_ld k L mm bk z : nth_error L k = Some (VPtr bk 0) -> nth_error mm bk = Some [VInt z] -> iok z -> pure call (ld k) (mkst L mm) z.
  Proof.
    intros H Hc Hi. unfold pure, ld. cbn [eval]. unfold get_local. cbn [locals]. rewrite H. cbn [bind memm]. rewrite (load1 mm bk _ Hc). cbn [bind].
    rewrite (int_ok_wrap z Hi). reflexivity.
  Qed.
  Lemma pure_sub a b st x y : pure call a st x -> pure call b st y -> iok (x - y) -> pure call (EBin OSub I32 a b) st (x - y).
  Proof. intros Ha Hb Hi. unfold pure in *. cbn [eval]. rewrite Ha. cbn [bind]. rewrite Hb. cbn [bind as_int arith]. rewrite (int_ok_chk _ Hi). reflexivity. Qed.
  Lemma pure_add a b st x y : pure call a st x -> pure call b st y -> iok (x + y) -> pure call (EBin OAdd I32 a b) st (x + y).
  Proof. intros Ha Hb Hi. unfold pure in *. cbn [eval]. rewrite Ha. cbn [bind]. rewrite Hb. cbn [bind as_int arith]. rewrite (int_ok_chk _ Hi). reflexivity. Qed.
  Lemma pure_min a b st x y : pure call a st x -> pure call b st y -> pure call (min_e a b) st (Z.min x y).
  Proof.
    intros Ha Hb. unfold pure, min_e in *. cbn [eval]. rewrite Ha. cbn [bind]. rewrite Hb. cbn [bind as_int arith truth]. rewrite nb2z.
    destruct (Z.ltb_spec x y); [rewrite Ha, Z.min_l by lia|rewrite Hb, Z.min_r by lia]; reflexivity.
  Qed.
  Lemma pure_max a b st x y : pure call a st x -> pure call b st y -> pure call (max_e a b) st (Z.max x y).
  Proof.
    intros Ha Hb. unfold pure, max_e in *. cbn [eval]. rewrite Ha. cbn [bind]. rewrite Hb. cbn [bind as_int arith truth]. rewrite nb2z.
    destruct (Z.ltb_spec x y); [rewrite Hb, Z.max_r by lia|rewrite Ha, Z.max_l by lia]; reflexivity.
  Qed.
  (* xrow = e; *)
  Lemma exec_set_xrow f e L mm z x : pure call e (mkst L mm) z -> iok z -> cell_at mm G_xrow x ->
    exec call f (SExpr (EStore (Some I32) (EGlob G_xrow) e)) (mkst L mm) = ONormal (mkst L (upd mm G_xrow [VInt z])).
  Proof.
    intros He Hi Hx. rewrite exec_expr. cbn [eval bind]. unfold pure in He. rewrite He. cbn [bind memm locals].
    rewrite (int_ok_wrap z Hi), (store_cell mm G_xrow x z Hx). reflexivity.
  Qed.
End Pure.

Definition keeps (fr : list nat) (m m' : mem) : Prop := forall b, In b fr -> nth_error m' b = nth_error m b.

(* ------------------------------------------------------------------ the frame of a command: `int beg, end;` *)
(* the two locals whose address goes to ex_region live in blocks of their own, allocated at entry *)
Definition frame_mem (m : mem) (vb ve : val) : mem := (m ++ [[vb]]) ++ [[ve]].
Definition frame2 : stmt := SSeq (SExpr (ESetLocal 4 (EBuiltin BMalloc [EConst 1]))) (SExpr (ESetLocal 5 (EBuiltin BMalloc [EConst 1]))).
Definition run_of (o : outcome) : res (val * mem) :=
  match o with OReturn v st => Ok (v, memm st) | ONormal st => Ok (VUndef, memm st) | OErr x => Err x | _ => Err EShape end.
Definition mem_le (m mm : mem) : Prop := forall b blk, nth_error m b = Some blk -> nth_error mm b = Some blk.
Lemma mem_le_app m x : mem_le m (m ++ [x]).
Proof. intros b blk H. rewrite nth_error_app_old by (apply nth_error_Some; congruence). exact H. Qed.
Lemma mem_le_trans a b c : mem_le a b -> mem_le b c -> mem_le a c.
Proof. intros H1 H2 k blk H. apply H2, H1, H. Qed.
Lemma mem_le_frame m vb ve : mem_le m (frame_mem m vb ve).
Proof. unfold frame_mem. eapply mem_le_trans; apply mem_le_app. Qed.
Lemma frame_beg m vb ve : nth_error (frame_mem m vb ve) (length m) = Some [vb].
Proof. unfold frame_mem. apply mem_le_app. apply nth_error_app_new. Qed.
Lemma frame_end m vb ve : nth_error (frame_mem m vb ve) (S (length m)) = Some [ve].
Proof. unfold frame_mem. replace (S (length m)) with (length (m ++ [[vb]])) by (rewrite app_length; cbn; lia). apply nth_error_app_new. Qed.
Lemma frame_old m vb ve b : (b < length m)%nat -> nth_error (frame_mem m vb ve) b = nth_error m b.
Proof. intro H. unfold frame_mem. rewrite !nth_error_app_old by (rewrite ?app_length; cbn [length]; lia). reflexivity. Qed.
Lemma frame_length m vb ve : length (frame_mem m vb ve) = S (S (length m)).
Proof. unfold frame_mem. rewrite !app_length. cbn. lia. Qed.
Lemma pre_le m mm st bs bl s gbufs lblk : mem_le m mm -> cmd_pre m st bs bl s gbufs lblk -> cmd_pre mm st bs bl s gbufs lblk.
Proof.
  intros H [A1 A2 A3 A4 A5 A6 A7 A8 A9 A10 A11 A12 A13 A14 A15]. unfold str_at, cell_at in *.
  constructor; try assumption; unfold str_at, cell_at; apply H; assumption.
Qed.
Lemma exec_frame2 call f a0 a1 a2 a3 rest m :
  exec call f frame2 (mkst (a0 :: a1 :: a2 :: a3 :: VUndef :: VUndef :: rest) m)
  = ONormal (mkst (a0 :: a1 :: a2 :: a3 :: VPtr (length m) 0 :: VPtr (S (length m)) 0 :: rest) (frame_mem m VUndef VUndef)).
Proof.
  unfold frame2. rewrite exec_seq, exec_expr. xcbn. rewrite malloc_ok by lia. xcbn. rewrite exec_expr. xcbn. rewrite malloc_ok by lia. xcbn.
  change (repeat VUndef (Z.to_nat 1)) with [VUndef]. rewrite app_length. cbn [length]. rewrite Nat.add_1_r. reflexivity.
Qed.
Lemma rdist_frame n bs bl : (bs < n)%nat -> (bl < n)%nat -> (G_xrow < n)%nat -> (G_bufs < n)%nat -> G_xrow <> bs -> G_xrow <> bl ->
  rdist bs n (S n) bl.
Proof. intros. unfold rdist. repeat split; lia. Qed.

Lemma cmd_pre_iff mm st bs bl s gbufs lblk : cmd_pre mm st bs bl s gbufs lblk <->
  (str_at mm bs s /\ nonul s /\ nosearch s /\ cell_at mm G_xrow (ExDefs.xrow st) /\
   nth_error mm G_bufs = Some gbufs /\ nth_error gbufs BUFS_LB = Some (VPtr bl 0) /\
   nth_error mm bl = Some lblk /\ nth_error lblk L_ln_n = Some (VInt (ExDefs.slen st)) /\
   marks_ints lblk /\ marks_rep lblk (ExDefs.marks (ExDefs.lb st)) /\ nth_error mm G_lit_25_1 = Some gb_lit_25_1 /\
   iok (ExDefs.xrow st) /\ iok (ExDefs.slen st) /\ 2 * Z.of_nat (S (length s)) <= 2147483647 /\
   region_fit (ExDefs.slen st) (mark_of lblk) search0 s (ExDefs.xrow st)).
Proof.
  split.
  - intros [A1 A2 A3 A4 A5 A6 A7 A8 A9 A10 A11 A12 A13 A14 A15]. repeat (split; [assumption|]). assumption.
  - intros (A1 & A2 & A3 & A4 & A5 & A6 & A7 & A8 & A9 & A10 & A11 & A12 & A13 & A14 & A15). constructor; assumption.
Qed.

(* ------------------------------------------------------------------ the guards of the commands *)
Definition region_e (kb ke : nat) : expr := ECall F_ex_region [ELocal 0; ELocal kb; ELocal ke].
Definition zero_e (kb ke : nat) : expr := ECall X_ex_zero [ELocal 0; ld kb; ld ke].
Definition ret1 : stmt := SReturn (Some (EConst 1)).
Definition guard_rz (kb ke : nat) : stmt := SIf (EOrElse (region_e kb ke) (zero_e kb ke)) ret1 SSkip.
Definition guard_rzl : stmt := SIf (EOrElse (EOrElse (region_e 4 5) (zero_e 4 5)) (ELNot len_e)) ret1 SSkip.
Definition clamp_e (ke kn : nat) : expr :=
  max_e (EConst 0) (min_e (EBin OSub I32 len_e (EConst 1)) (EBin OSub I32 (EBin OSub I32 (EBin OAdd I32 (ld ke) len_e) (ELocal kn)) (EConst 1))).
Definition nz_e (kb ke : nat) : expr := EOrElse (EBin ONe I32 (ld kb) (EConst 0)) (EBin ONe I32 (ld ke) (EConst 0)).
Definition guard_rn : stmt := SIf (EAndAlso (region_e 4 5) (nz_e 4 5)) ret1 SSkip.

Lemma get_local_ok0 Lx mx k v : nth_error Lx k = Some v -> v <> VUndef -> get_local (mkst Lx mx) k = Ok v.
Proof. intros H N. unfold get_local. cbn [locals]. rewrite H. destruct v; [congruence|reflexivity|reflexivity]. Qed.

Section Cmds.
  Variable ext : nat -> list val -> mem -> res (val * mem).
  Variable fuel : nat.
  Local Notation cxd D := (callx ext cprog fuel D).

  (* ---- ex_yank(reg, beg, end): lbuf_cp, reg_put with the line-wise flag, free *)
  Lemma cx_ex_yank D mm bl reg b e pb m2 u m3 c blk : xb_view mm bl ->
    ext X_lbuf_cp [VPtr bl 0; VInt b; VInt e] mm = Ok (VPtr pb 0, m2) ->
    ext X_reg_put [VInt reg; VPtr pb 0; VInt 1] m2 = Ok (u, m3) ->
    nth_error m3 pb = Some (c :: blk) ->
    callx ext cprog fuel (S (S D)) F_ex_yank [VInt reg; VInt b; VInt e] mm = Ok (VUndef, upd m3 pb []).
  Proof.
    intros (gbufs & Hb & Hlb) Hcp Hput Hblk.
    rewrite callx_S. change (nth_error cprog F_ex_yank) with (Some cf_ex_yank).
    cbn [fn_nparams cf_ex_yank length Nat.eqb fn_nlocals Nat.sub repeat app fn_body].
    xs. rewrite (cx_lbuf ext fuel D mm gbufs bl Hb Hlb). xs. rewrite (cx_ext ext fuel D _ _ _ x_lbuf_cp_none), Hcp. xs.
    rewrite (cx_ext ext fuel D _ _ _ x_reg_put_none), Hput. xs.
    rewrite (free_ok m3 pb (c :: blk) Hblk) by discriminate. reflexivity.
  Qed.

  (* ---- lbuf_edit(xb, txt, a, b) with argument expressions without side effects *)
  Lemma exec_edit_s D L mx bl (vt_e eb ee : expr) vt zb ze u' m5 : xb_view mx bl ->
    eval (callx ext cprog fuel (S D)) vt_e (mkst L mx) = Ok (vt, mkst L mx) ->
    pure (callx ext cprog fuel (S D)) eb (mkst L mx) zb -> pure (callx ext cprog fuel (S D)) ee (mkst L mx) ze ->
    ext X_lbuf_edit [VPtr bl 0; vt; VInt zb; VInt ze] mx = Ok (u', m5) ->
    exec (callx ext cprog fuel (S D)) fuel (SExpr (ECall X_lbuf_edit [xb_e; vt_e; eb; ee])) (mkst L mx) = ONormal (mkst L m5).
  Proof.
    intros Hx Ht Hb He Hed. unfold pure in *. rewrite exec_expr. cbn [eval]. rewrite (eval_xb ext fuel D L mx bl Hx). cbn [bind].
    rewrite Ht. cbn [bind]. rewrite Hb. cbn [bind]. rewrite He. cbn [bind memm locals].
    rewrite (cx_ext ext fuel D _ _ _ x_lbuf_edit_none), Hed. reflexivity.
  Qed.

  (* ---- xrow = MAX(0, MIN(lbuf_len(xb) - 1, end + lbuf_len(xb) - n - 1)): the current line after text was added (fix 7b90d84: never -1) *)
  Lemma pure_clamp D L m5 bl be ke kn e' n n2 : nth_error L ke = Some (VPtr be 0) -> nth_error L kn = Some (VInt n) ->
    nth_error m5 be = Some [VInt e'] -> len_view m5 bl n2 -> 0 <= e' -> 0 <= n -> iok n -> 0 <= n2 -> iok (e' + n2) ->
    pure (callx ext cprog fuel (S D)) (clamp_e ke kn) (mkst L m5) (Z.max 0 (Z.min (n2 - 1) (e' + n2 - n - 1))).
  Proof.
    intros Hke Hkn He Hl He0 Hn0 Hin Hn2 Hfit.
    assert (In2 : iok n2) by (destruct Hl as (g & l & _ & _ & _ & _ & I5); exact I5).
    assert (Ie : iok e') by (unfold TrExAddr.int_ok in *; lia).
    pose proof (eval_len ext fuel D L m5 bl n2 Hl) as Pl. fold (pure (callx ext cprog fuel (S D)) len_e (mkst L m5) n2) in Pl.
    unfold clamp_e. apply pure_max; [apply pure_const|]. apply pure_min.
    - apply pure_sub; [exact Pl|apply pure_const|unfold TrExAddr.int_ok in *; lia].
    - apply pure_sub; [|apply pure_const|unfold TrExAddr.int_ok in *; lia].
      apply pure_sub; [|apply (pure_local _ kn L m5 n Hkn)|unfold TrExAddr.int_ok in *; lia].
      apply pure_add; [apply (pure_ld _ ke L m5 be e' Hke He Ie)|exact Pl|exact Hfit].
  Qed.

  (* ---- lbuf_get(xb, pos) for a row inside the buffer: cell pos of the table lb->ln *)
  Lemma cx_lbuf_get D mx bl lblk n bln lnblk pos p o : nth_error mx bl = Some lblk -> nth_error lblk L_ln_n = Some (VInt n) -> iok n ->
    nth_error lblk L_ln = Some (VPtr bln 0) -> nth_error mx bln = Some lnblk -> 0 <= pos < n -> nth_error lnblk (Z.to_nat pos) = Some (VPtr p o) ->
    callx ext cprog fuel (S D) F_lbuf_get [VPtr bl 0; VInt pos] mx = Ok (VPtr p o, mx).
  Proof.
    intros Hb Hn Hi Hl Hbl Hp Hc. apply callx_mono. enter F_lbuf_get cf_lbuf_get. xstep.
    destruct (Z.leb_spec 0 pos) as [_|]; [|lia]. cbn [b2z]. xstep.
    rewrite (fld_load mx bl lblk L_ln_n _ _ Hb Hn) by reflexivity. xstep. rewrite (int_ok_wrap n Hi).
    destruct (Z.ltb_spec pos n) as [_|]; [|lia]. cbn [b2z]. xstep.
    rewrite (fld_load mx bl lblk L_ln _ _ Hb Hl) by reflexivity. xstep.
    rewrite (fld_load mx bln lnblk (Z.to_nat pos) _ _ Hbl Hc) by lia. reflexivity.
  Qed.

  (* ---- what the memory is after ex_region returned: beg, end and xrow hold the model's values, every other block the command looks at is as before *)
  Section AfterRegion.
    Variables (rvalid : bytes -> bool) (rfind : bytes -> bytes -> bool -> option (nat * nat)).
    Variables (st : ExDefs.st) (mm : mem) (bs bl : nat) (s : bytes) (gbufs lblk : block) (bb be : nat) (vb0 : val) (e0 : Z) (d : nat).
    Hypothesis Hpre : cmd_pre mm st bs bl s gbufs lblk.
    Hypothesis Hbeg : nth_error mm bb = Some [vb0].
    Hypothesis Hend : nth_error mm be = Some [VInt e0].
    Hypothesis He0 : iok e0.
    Hypothesis Hdist : rdist bs bb be bl.
    Hypothesis Hf : (2 * S (length s) <= fuel)%nat.
    Hypothesis Hz : zero_linked ext.
    Local Notation R := (ExDefs.ex_region rvalid rfind s st).
    Local Notation bad := (fst (fst (fst R))).
    Local Notation b := (snd (fst (fst R))).
    Local Notation e := (snd (fst R)).
    Local Notation s1 := (snd R).
    Local Notation cx := (callx ext cprog fuel (S (S (S (S d))))).

    Record after_region (m1 : mem) : Prop := mk_after {
      ar_call : cx F_ex_region [VPtr bs 0; VPtr bb 0; VPtr be 0] mm = Ok (VInt (b2z bad), m1);
      ar_beg : nth_error m1 bb = Some [VInt b];
      ar_end : nth_error m1 be = Some [VInt e];
      ar_xrow : cell_at m1 G_xrow (ExDefs.xrow s1);
      ar_st : s1 = ExDefs.set_xrow st (ExDefs.xrow s1);
      ar_ib : iok b; ar_ie : iok e; ar_ix : iok (ExDefs.xrow s1);
      ar_fr : forall b', (b' < length mm)%nat -> b' <> bb -> b' <> be -> b' <> G_xrow -> nth_error m1 b' = nth_error mm b' }.
    Lemma region_runs : exists m1, after_region m1.
    Proof.
      destruct (cx_region ext fuel d rvalid rfind mm st bs bl s gbufs lblk bb be vb0 e0 Hpre Hbeg Hend He0 Hdist Hf)
        as (m1 & A1 & A2 & A3 & A4 & A5 & A6 & A7 & A8 & A9).
      exists m1. constructor; assumption.
    Qed.

    Variable m1 : mem.
    Hypothesis AR : after_region m1.
    Lemma ar_old b' blk : nth_error mm b' = Some blk -> b' <> bb -> b' <> be -> b' <> G_xrow -> nth_error m1 b' = Some blk.
    Proof. intros H N1 N2 N3. rewrite (ar_fr m1 AR b') by (try assumption; apply nth_error_Some; congruence). exact H. Qed.
    Lemma ar_len : len_view m1 bl (ExDefs.slen st).
    Proof.
      destruct Hpre as [A1 A2 A3 A4 A5 A6 A7 A8 A9 A10 A11 A12 A13 A14 A15].
      destruct Hdist as (D1 & D2 & D3 & D4 & D5 & D6 & D7 & D8 & D9 & D10 & D11).
      exists gbufs, lblk. split; [apply ar_old; try assumption; try (apply not_eq_sym; assumption); unfold G_bufs, G_xrow; discriminate|].
      split; [assumption|]. split; [apply ar_old; try assumption; apply not_eq_sym; assumption|]. split; assumption.
    Qed.
    Lemma ar_str : str_at m1 bs s.
    Proof.
      destruct Hdist as (D1 & D2 & D3 & D4 & D5 & D6 & D7 & D8 & D9 & D10 & D11).
      unfold str_at. apply ar_old; [exact (cp_str _ _ _ _ _ _ _ Hpre)| | |]; apply not_eq_sym; assumption.
    Qed.
    Lemma ar_lit : nth_error m1 G_lit_25_1 = Some gb_lit_25_1.
    Proof.
      assert (Hbb : (G_lit_25_1 < length cglobals)%nat) by (vm_compute; lia).
      destruct Hdist as (D1 & D2 & D3 & D4 & D5 & D6 & D7 & D8 & D9 & D10 & D11).
      pose proof (cp_lit _ _ _ _ _ _ _ Hpre) as Hl.
      destruct (Nat.eq_dec G_lit_25_1 bb) as [E|N1]; [rewrite E in Hl; rewrite Hl in Hbeg; discriminate Hbeg|].
      destruct (Nat.eq_dec G_lit_25_1 be) as [E|N2]; [rewrite E in Hl; rewrite Hl in Hend; discriminate Hend|].
      apply ar_old; [exact Hl|assumption|assumption|unfold G_lit_25_1, G_xrow; discriminate].
    Qed.

    (* an address that a text-adding command accepts: inside the buffer, or address 0 *)
    Lemma ar_bounds : bad && (negb (b =? 0) || negb (e =? 0)) = false -> 0 <= b <= e /\ e <= ExDefs.slen st.
    Proof.
      intro G. assert (Es : ExDefs.slen s1 = ExDefs.slen st) by (rewrite (ar_st m1 AR); reflexivity).
      assert (Hn0 : 0 <= ExDefs.slen st) by (unfold ExDefs.slen, ExDefs.llen; lia).
      revert G Es. destruct R as [[[bad0 b0] e0'] s0] eqn:ER. cbn [fst snd]. intros G Es. destruct bad0.
      - cbn [andb] in G. destruct (Z.eqb_spec b0 0); [|discriminate G]. destruct (Z.eqb_spec e0' 0); [|discriminate G]. lia.
      - pose proof (ExProps.region_bounds rvalid rfind s st b0 e0' s0 ER) as (B1 & B2 & _). lia.
    Qed.
    (* the locals of a command: loc, cmd, arg, txt, &beg, &end, ... *)
    Variables (v1 v2 v3 : val) (rest : list val).
    Local Notation L := (VPtr bs 0 :: v1 :: v2 :: v3 :: VPtr bb 0 :: VPtr be 0 :: rest).
    Lemma eval_region_e : eval cx (region_e 4 5) (mkst L mm) = Ok (VInt (b2z bad), mkst L m1).
    Proof. unfold region_e. xs. rewrite (ar_call m1 AR). reflexivity. Qed.
    Lemma pure_beg mx : nth_error mx bb = Some [VInt b] -> pure cx (ld 4) (mkst L mx) b.
    Proof. intro H. apply (pure_ld cx 4 L mx bb b eq_refl H (ar_ib m1 AR)). Qed.
    Lemma pure_end mx : nth_error mx be = Some [VInt e] -> pure cx (ld 5) (mkst L mx) e.
    Proof. intro H. apply (pure_ld cx 5 L mx be e eq_refl H (ar_ie m1 AR)). Qed.
    Lemma eval_zero_e : eval cx (zero_e 4 5) (mkst L m1) = Ok (VInt (b2z (ExDefs.ex_zero s b e)), mkst L m1).
    Proof.
      unfold zero_e. xs. rewrite (pure_beg m1 (ar_beg m1 AR)). xs. rewrite (pure_end m1 (ar_end m1 AR)). xs.
      rewrite (cx_ext ext fuel _ _ _ _ x_ex_zero_none), Hz.
      rewrite (tr_ex_zero m1 bs s b e 0 0 ar_str (cp_nn _ _ _ _ _ _ _ Hpre) ar_lit). reflexivity.
    Qed.
    Lemma eval_nz_e : eval cx (nz_e 4 5) (mkst L m1) = Ok (VInt (b2z (negb (b =? 0) || negb (e =? 0))), mkst L m1).
    Proof.
      unfold nz_e. cbn [eval]. rewrite (pure_beg m1 (ar_beg m1 AR)). xs. destruct (b =? 0); xs; [|reflexivity].
      rewrite (pure_end m1 (ar_end m1 AR)). xs. destruct (e =? 0); reflexivity.
    Qed.
    (* if (ex_region(loc, &beg, &end) || ex_zero(loc, beg, end)) return 1; *)
    Lemma exec_guard_rz : exec cx fuel (guard_rz 4 5) (mkst L mm)
      = if bad || ExDefs.ex_zero s b e then OReturn (VInt 1) (mkst L m1) else ONormal (mkst L m1).
    Proof.
      unfold guard_rz, ret1. rewrite exec_if. cbn [eval]. rewrite eval_region_e. xs. destruct bad; xs; [reflexivity|].
      rewrite eval_zero_e. xs. destruct (ExDefs.ex_zero s b e); xs; reflexivity.
    Qed.
    (* if (ex_region(loc, &beg, &end) || ex_zero(loc, beg, end) || !lbuf_len(xb)) return 1; *)
    Lemma exec_guard_rzl : exec cx fuel guard_rzl (mkst L mm)
      = if bad || ExDefs.ex_zero s b e || (ExDefs.slen st =? 0) then OReturn (VInt 1) (mkst L m1) else ONormal (mkst L m1).
    Proof.
      unfold guard_rzl, ret1. rewrite exec_if. cbn [eval]. rewrite eval_region_e. xs. destruct bad; xs; [reflexivity|].
      rewrite eval_zero_e. xs. destruct (ExDefs.ex_zero s b e); xs; [reflexivity|].
      rewrite (eval_len ext fuel _ L m1 bl _ ar_len). xs. rewrite negb_involutive. destruct (ExDefs.slen st =? 0); xs; reflexivity.
    Qed.
    (* the same guard for any placement of the locals (ec_lnum keeps msg[128] in front of beg and end) *)
    Lemma exec_guard_rz_gen kb ke Lg : nth_error Lg 0 = Some (VPtr bs 0) -> nth_error Lg kb = Some (VPtr bb 0) -> nth_error Lg ke = Some (VPtr be 0) ->
      exec cx fuel (guard_rz kb ke) (mkst Lg mm) = if bad || ExDefs.ex_zero s b e then OReturn (VInt 1) (mkst Lg m1) else ONormal (mkst Lg m1).
    Proof.
      intros H0 Hkb Hke. unfold guard_rz, ret1, region_e, zero_e. rewrite exec_if. cbn [eval].
      rewrite (get_local_ok0 Lg mm 0 _ H0) by discriminate. cbn [bind]. rewrite (get_local_ok0 Lg mm kb _ Hkb) by discriminate. cbn [bind].
      rewrite (get_local_ok0 Lg mm ke _ Hke) by discriminate. cbn [bind memm locals]. rewrite (ar_call m1 AR). xs. destruct bad; xs; [reflexivity|].
      rewrite (get_local_ok0 Lg m1 0 _ H0) by discriminate. cbn [bind].
      rewrite (pure_ld cx kb Lg m1 bb b Hkb (ar_beg m1 AR) (ar_ib m1 AR)). cbn [bind]. rewrite (pure_ld cx ke Lg m1 be e Hke (ar_end m1 AR) (ar_ie m1 AR)). cbn [bind memm locals].
      rewrite (cx_ext ext fuel _ _ _ _ x_ex_zero_none), Hz.
      rewrite (tr_ex_zero m1 bs s b e 0 0 ar_str (cp_nn _ _ _ _ _ _ _ Hpre) ar_lit). xs. destruct (ExDefs.ex_zero s b e); xs; reflexivity.
    Qed.
    (* if (ex_region(loc, &beg, &end) && (beg != 0 || end != 0)) return 1;   -- the commands that add text accept address 0 (fix 6c95ca8) *)
    Lemma exec_guard_rn : exec cx fuel guard_rn (mkst L mm)
      = if bad && (negb (b =? 0) || negb (e =? 0)) then OReturn (VInt 1) (mkst L m1) else ONormal (mkst L m1).
    Proof.
      unfold guard_rn, ret1. rewrite exec_if. cbn [eval]. rewrite eval_region_e. xs. destruct bad; xs; [|reflexivity].
      rewrite eval_nz_e. xs. destruct (negb (b =? 0) || negb (e =? 0)); xs; reflexivity.
    Qed.

    (* ================================================================ ec_delete *)
    (* ex_yank(REG(arg), beg, end); lbuf_edit(xb, NULL, beg, end); xrow = MAX(0, MIN(beg, lbuf_len(xb) - 1)); return 0; *)
    Definition yank_s : stmt := SExpr (ECall F_ex_yank [reg_e; ld 4; ld 5]).
    Definition del_xrow : stmt := SExpr (EStore (Some I32) (EGlob G_xrow) (max_e (EConst 0) (min_e (ld 4) (EBin OSub I32 len_e (EConst 1))))).
    Definition ret0 : stmt := SReturn (Some (EConst 0)).
    Definition delete_rest : stmt :=
      SSeq guard_rzl (SSeq yank_s (SSeq (SExpr (ECall X_lbuf_edit [xb_e; EConst 0; ld 4; ld 5])) (SSeq del_xrow ret0))).
    Lemma ec_delete_shape : fn_body cf_ec_delete = SSeq frame2 delete_rest.
    Proof. reflexivity. Qed.

    Variables (ba : nat) (arg : bytes).
    Hypothesis Hv2 : v2 = VPtr ba 0.
    Hypothesis Harg : str_at m1 ba arg.
    Hypothesis Hnarg : nonul arg.

    (* the three steps of ex_yank, as the oracle answers them, seen from the command *)
    Record yanked (pb : nat) (m2 m3 : mem) : Prop := mk_yanked {
      yk_cp : ext X_lbuf_cp [VPtr bl 0; VInt b; VInt e] m1 = Ok (VPtr pb 0, m2);
      yk_put : exists u, ext X_reg_put [VInt (Z.of_N (ExDefs.REG arg)); VPtr pb 0; VInt 1] m2 = Ok (u, m3);
      yk_live : exists c blk, nth_error m3 pb = Some (c :: blk);
      yk_keeps : keeps [G_bufs; bb; be] m1 (upd m3 pb []) }.
    Lemma exec_yank_s pb m2 m3 : yanked pb m2 m3 -> exec cx fuel yank_s (mkst L m1) = ONormal (mkst L (upd m3 pb [])).
    Proof.
      intros [Hcp (u & Hput) (c & blk & Hlive) _]. unfold yank_s. rewrite exec_expr. cbn [eval].
      rewrite Hv2, (eval_reg cx _ _ ba _ m1 arg Harg Hnarg). cbn [bind].
      rewrite <- Hv2. rewrite (pure_beg m1 (ar_beg m1 AR)). cbn [bind]. rewrite (pure_end m1 (ar_end m1 AR)). cbn [bind memm locals].
      rewrite (cx_ex_yank (S (S d)) m1 bl _ b e pb m2 u m3 c blk (len_xb _ _ _ ar_len) Hcp Hput Hlive). reflexivity.
    Qed.
    Lemma yanked_view pb m2 m3 : yanked pb m2 m3 ->
      xb_view (upd m3 pb []) bl /\ nth_error (upd m3 pb []) bb = Some [VInt b] /\ nth_error (upd m3 pb []) be = Some [VInt e].
    Proof.
      intros [_ _ _ K]. destruct ar_len as (g & l & H1 & H2 & _).
      split; [exists g; split; [rewrite (K G_bufs) by (cbn; auto); exact H1|exact H2]|].
      split; [rewrite (K bb) by (cbn; auto); exact (ar_beg m1 AR)|rewrite (K be) by (cbn; auto); exact (ar_end m1 AR)].
    Qed.

    Lemma delete_body_fail : bad || ExDefs.ex_zero s b e || (ExDefs.slen st =? 0) = true ->
      exec cx fuel delete_rest (mkst L mm) = OReturn (VInt 1) (mkst L m1).
    Proof. intro H. unfold delete_rest. rewrite exec_seq, exec_guard_rzl, H. reflexivity. Qed.
    Lemma delete_body_ok pb m2 m3 u' m5 n5 x5 : bad || ExDefs.ex_zero s b e || (ExDefs.slen st =? 0) = false ->
      yanked pb m2 m3 ->
      ext X_lbuf_edit [VPtr bl 0; VInt 0; VInt b; VInt e] (upd m3 pb []) = Ok (u', m5) ->
      nth_error m5 bb = Some [VInt b] -> len_view m5 bl n5 -> 0 <= n5 -> cell_at m5 G_xrow x5 ->
      exec cx fuel delete_rest (mkst L mm) = OReturn (VInt 0) (mkst L (upd m5 G_xrow [VInt (Z.max 0 (Z.min b (n5 - 1)))])).
    Proof.
      intros H Y Hed Hb5 Hl5 Hn5 Hx5. unfold delete_rest. rewrite exec_seq, exec_guard_rzl, H.
      rewrite exec_seq, (exec_yank_s pb m2 m3 Y). destruct (yanked_view pb m2 m3 Y) as (V1 & V2 & V3).
      rewrite exec_seq, (exec_edit_s _ L (upd m3 pb []) bl (EConst 0) (ld 4) (ld 5) (VInt 0) b e u' m5 V1 eq_refl (pure_beg _ V2) (pure_end _ V3) Hed).
      assert (In5 : iok n5) by (destruct Hl5 as (g & l & _ & _ & _ & _ & I5); exact I5).
      assert (P : pure cx (max_e (EConst 0) (min_e (ld 4) (EBin OSub I32 len_e (EConst 1)))) (mkst L m5) (Z.max 0 (Z.min b (n5 - 1)))).
      { apply pure_max; [apply pure_const|]. apply pure_min; [exact (pure_beg _ Hb5)|].
        apply pure_sub; [exact (eval_len ext fuel _ L m5 bl n5 Hl5)|apply pure_const|unfold TrExAddr.int_ok in *; lia]. }
      unfold del_xrow. rewrite exec_seq, (exec_set_xrow cx fuel _ L m5 _ x5 P) by (try assumption; pose proof (ar_ib m1 AR); unfold TrExAddr.int_ok in *; lia).
      unfold ret0. rewrite exec_return. reflexivity.
    Qed.

    (* ================================================================ ec_yank: ex_yank(REG(arg), beg, end); return 0; *)
    Definition yank_rest : stmt := SSeq guard_rzl (SSeq yank_s ret0).
    Lemma ec_yank_shape : fn_body cf_ec_yank = SSeq frame2 yank_rest.
    Proof. reflexivity. Qed.
    Lemma yank_body_fail : bad || ExDefs.ex_zero s b e || (ExDefs.slen st =? 0) = true ->
      exec cx fuel yank_rest (mkst L mm) = OReturn (VInt 1) (mkst L m1).
    Proof. intro H. unfold yank_rest. rewrite exec_seq, exec_guard_rzl, H. reflexivity. Qed.
    Lemma yank_body_ok pb m2 m3 : bad || ExDefs.ex_zero s b e || (ExDefs.slen st =? 0) = false -> yanked pb m2 m3 ->
      exec cx fuel yank_rest (mkst L mm) = OReturn (VInt 0) (mkst L (upd m3 pb [])).
    Proof.
      intros H Y. unfold yank_rest. rewrite exec_seq, exec_guard_rzl, H. rewrite exec_seq, (exec_yank_s pb m2 m3 Y).
      unfold ret0. rewrite exec_return. reflexivity.
    Qed.

    (* ================================================================ ec_insert (a, i, c) *)
    (* if (cmd[0] == 'a') if (end > beg && beg + 1 <= lbuf_len(xb)) beg++;  if (cmd[0] != 'c') end = beg;  n = lbuf_len(xb);
       lbuf_edit(xb, txt, beg, end);  xrow = MAX(0, MIN(lbuf_len(xb) - 1, end + lbuf_len(xb) - n - 1));  return 0; *)
    Definition cmd0_e : expr := ECast I32 (ELoad (Some I8) (EPtrAdd 1 (ELocal 1) (EConst 0))).
    Definition app_s : stmt :=
      SIf (EBin OEq I32 cmd0_e (EConst 97))
          (SIf (EAndAlso (EBin OGt I32 (ld 5) (ld 4)) (EBin OLe I32 (EBin OAdd I32 (ld 4) (EConst 1)) len_e)) (SExpr (EIncMem true (Some I32) 1 (ELocal 4))) SSkip) SSkip.
    Definition noc_s : stmt := SIf (EBin ONe I32 cmd0_e (EConst 99)) (SExpr (EStore (Some I32) (ELocal 5) (ld 4))) SSkip.
    Definition setn_s (k : nat) : stmt := SExpr (ESetLocal k len_e).
    Definition clamp_s (ke kn : nat) : stmt := SExpr (EStore (Some I32) (EGlob G_xrow) (clamp_e ke kn)).
    Definition insert_rest : stmt :=
      SSeq guard_rn (SSeq app_s (SSeq noc_s (SSeq (setn_s 6) (SSeq (SExpr (ECall X_lbuf_edit [xb_e; ELocal 3; ld 4; ld 5])) (SSeq (clamp_s 5 6) ret0))))).
    Lemma ec_insert_shape : fn_body cf_ec_insert = SSeq frame2 insert_rest.
    Proof. reflexivity. Qed.

    Variables (bc : nat) (cmd : bytes) (v6 : val) (rest' : list val).
    Hypothesis Hv1 : v1 = VPtr bc 0.
    Hypothesis Hrest : rest = v6 :: rest'.
    Hypothesis Hcmd : str_at m1 bc cmd.
    Hypothesis Hncmd : nonul cmd.
    Hypothesis Nbc : bc <> bb /\ bc <> be.
    Hypothesis Hv3 : v3 <> VUndef.
    (* the position rule of the model: a appends behind a non-empty range (0a: before the first line, fix e93d764), i and a replace nothing *)
    Definition ins_b : Z := if (hd0 cmd =? 97)%N && (b <? e) && (b + 1 <=? ExDefs.slen st) then b + 1 else b.
    Definition ins_e : Z := if (hd0 cmd =? 99)%N then e else ins_b.
    Lemma eval_cmd0 mx : str_at mx bc cmd -> eval cx cmd0_e (mkst L mx) = Ok (VInt (wrap I32 (wrap I8 (Z.of_N (hd0 cmd)))), mkst L mx).
    Proof.
      intro H. unfold cmd0_e. rewrite Hv1. xs. rewrite (load_str mx bc cmd (0 + 1 * 0) 0 H eq_refl ltac:(lia)). xs.
      replace (nthb cmd 0) with (hd0 cmd) by (destruct cmd; reflexivity). reflexivity.
    Qed.
    Lemma hd0_lt256 : (hd0 cmd < 256)%N.
    Proof. replace (hd0 cmd) with (nthb cmd 0) by (destruct cmd; reflexivity). apply nthb_lt256, nonul_lt256, Hncmd. Qed.
    Lemma bb_ne_be : bb <> be.
    Proof. destruct Hdist as (D1 & _). exact D1. Qed.
    Lemma exec_app_s : (b < e -> iok (b + 1)) -> exec cx fuel app_s (mkst L m1) = ONormal (mkst L (upd m1 bb [VInt ins_b])).
    Proof.
      intro Hfit. unfold app_s, ins_b. rewrite exec_if. cbn [eval]. rewrite (eval_cmd0 m1 Hcmd). xs. rewrite (sx_eqb_97 _ hd0_lt256).
      destruct (hd0 cmd =? 97)%N; xs; [|rewrite upd_self by exact (ar_beg m1 AR); reflexivity].
      rewrite (pure_end m1 (ar_end m1 AR)). xs. rewrite (pure_beg m1 (ar_beg m1 AR)). xs.
      destruct (Z.ltb_spec b e) as [Hlt|Hge]; xs; [|rewrite upd_self by exact (ar_beg m1 AR); reflexivity].
      rewrite (pure_beg m1 (ar_beg m1 AR)). xs. rewrite (int_ok_chk _ (Hfit Hlt)). xs.
      rewrite (eval_len ext fuel _ L m1 bl _ ar_len). xs.
      destruct (b + 1 <=? ExDefs.slen st); xs; [|rewrite upd_self by exact (ar_beg m1 AR); reflexivity].
      rewrite (load1 m1 bb _ (ar_beg m1 AR)). xs. rewrite (int_ok_wrap _ (ar_ib m1 AR)), (int_ok_chk _ (Hfit Hlt)). xs.
      rewrite (store1 m1 bb _ _ (ar_beg m1 AR)). reflexivity.
    Qed.
    Lemma exec_noc_s : iok ins_b -> exec cx fuel noc_s (mkst L (upd m1 bb [VInt ins_b])) = ONormal (mkst L (upd (upd m1 bb [VInt ins_b]) be [VInt ins_e])).
    Proof.
      intro Hi. pose proof bb_ne_be as Nbe. destruct Nbc as (N1 & N2).
      assert (Lbb : (bb < length m1)%nat) by (apply nth_error_Some; rewrite (ar_beg m1 AR); discriminate).
      assert (Hc2 : str_at (upd m1 bb [VInt ins_b]) bc cmd) by (apply str_at_upd_other; assumption).
      assert (Hb2 : nth_error (upd m1 bb [VInt ins_b]) bb = Some [VInt ins_b]) by (apply mem_upd_same; exact Lbb).
      assert (He2 : nth_error (upd m1 bb [VInt ins_b]) be = Some [VInt e]) by (rewrite mem_upd_other by (auto using not_eq_sym); exact (ar_end m1 AR)).
      unfold noc_s, ins_e. rewrite exec_if. cbn [eval]. rewrite (eval_cmd0 _ Hc2). xs. rewrite (sx_ne_99 _ hd0_lt256).
      destruct (hd0 cmd =? 99)%N; xs; [rewrite (upd_self _ be _ He2); reflexivity|].
      rewrite (pure_ld cx 4 L _ bb ins_b eq_refl Hb2 Hi). xs. rewrite (int_ok_wrap _ Hi), (store1 _ be _ _ He2). reflexivity.
    Qed.
    Lemma get_local_ok Lx mx k v : nth_error Lx k = Some v -> v <> VUndef -> get_local (mkst Lx mx) k = Ok v.
    Proof. intros H N. unfold get_local. cbn [locals]. rewrite H. destruct v; [congruence|reflexivity|reflexivity]. Qed.
    Local Notation mb := (upd (upd m1 bb [VInt ins_b]) be [VInt ins_e]).
    Local Notation L6 := (VPtr bs 0 :: v1 :: v2 :: v3 :: VPtr bb 0 :: VPtr be 0 :: VInt (ExDefs.slen st) :: rest').
    Lemma mb_view : len_view mb bl (ExDefs.slen st) /\ nth_error mb bb = Some [VInt ins_b] /\ nth_error mb be = Some [VInt ins_e].
    Proof.
      destruct Hdist as (D1 & D2 & D3 & D4 & D5 & D6 & D7 & D8 & D9 & D10 & D11).
      assert (Lbb : (bb < length m1)%nat) by (apply nth_error_Some; rewrite (ar_beg m1 AR); discriminate).
      assert (Lbe : (be < length (upd m1 bb [VInt ins_b]))%nat) by (rewrite upd_length by exact Lbb; apply nth_error_Some; rewrite (ar_end m1 AR); discriminate).
      destruct ar_len as (g & l & H1 & H2 & H3 & H4 & H5).
      split; [exists g, l; rewrite !mem_upd_other by (first [exact Lbb|exact Lbe|apply not_eq_sym; assumption]); split; [exact H1|split; [exact H2|split; [exact H3|split; [exact H4|exact H5]]]]|].
      split; [rewrite mem_upd_other by (first [exact Lbe|assumption]); apply mem_upd_same; exact Lbb|apply mem_upd_same; exact Lbe].
    Qed.
    Lemma insert_body_fail : bad && (negb (b =? 0) || negb (e =? 0)) = true ->
      exec cx fuel insert_rest (mkst L mm) = OReturn (VInt 1) (mkst L m1).
    Proof. intro H. unfold insert_rest. rewrite exec_seq, exec_guard_rn, H. reflexivity. Qed.
    Lemma insert_body_ok u' m5 n2 x5 : bad && (negb (b =? 0) || negb (e =? 0)) = false ->
      (b < e -> iok (b + 1)) -> iok ins_b -> 0 <= ins_e -> iok (ins_e + n2) -> 0 <= n2 ->
      ext X_lbuf_edit [VPtr bl 0; v3; VInt ins_b; VInt ins_e] mb = Ok (u', m5) ->
      nth_error m5 be = Some [VInt ins_e] -> len_view m5 bl n2 -> cell_at m5 G_xrow x5 ->
      exec cx fuel insert_rest (mkst L mm)
      = OReturn (VInt 0) (mkst L6 (upd m5 G_xrow [VInt (Z.max 0 (Z.min (n2 - 1) (ins_e + n2 - ExDefs.slen st - 1)))])).
    Proof.
      intros G Hfit Hib He0' Hfit2 Hn2 Hed He5 Hl5 Hx5. destruct mb_view as (V1 & V2 & V3).
      assert (Hie : iok ins_e) by (unfold ins_e; destruct (hd0 cmd =? 99)%N; [exact (ar_ie m1 AR)|exact Hib]).
      assert (Hn0 : 0 <= ExDefs.slen st) by (unfold ExDefs.slen, ExDefs.llen; lia).
      unfold insert_rest. rewrite exec_seq, exec_guard_rn, G. rewrite exec_seq, (exec_app_s Hfit). rewrite exec_seq, (exec_noc_s Hib).
      unfold setn_s. rewrite exec_seq, exec_expr. cbn [eval]. rewrite (eval_len ext fuel _ L mb bl _ V1). cbn [bind]. rewrite Hrest. cbn [set_local locals set_nth memm bind].
      rewrite exec_seq.
      rewrite (exec_edit_s (S (S (S d))) L6 mb bl (ELocal 3) (ld 4) (ld 5) v3 ins_b ins_e u' m5 (len_xb _ _ _ V1)
                 ltac:(cbn [eval]; rewrite (get_local_ok L6 mb 3 v3 eq_refl Hv3); reflexivity)
                 (pure_ld cx 4 L6 mb bb ins_b eq_refl V2 Hib) (pure_ld cx 5 L6 mb be ins_e eq_refl V3 Hie) Hed).
      pose proof (pure_clamp (S (S (S d))) L6 m5 bl be 5 6 ins_e (ExDefs.slen st) n2 eq_refl eq_refl He5 Hl5 He0' Hn0 (cp_il _ _ _ _ _ _ _ Hpre) Hn2 Hfit2) as P.
      unfold clamp_s. rewrite exec_seq, (exec_set_xrow cx fuel _ L6 m5 _ x5 P) by (try assumption; unfold TrExAddr.int_ok in *; lia).
      unfold ret0. rewrite exec_return. reflexivity.
    Qed.

    (* ================================================================ ec_print (p and the address-less command line) *)
    (* if (!cmd[0] && !loc[0]) if (xrow >= lbuf_len(xb)) return 1;  if (ex_region(..) || ex_zero(..)) return 1;
       for (i = beg; i < end; i++) ex_print(lbuf_get(xb, i));  xrow = MAX(beg, end - 1);  xoff = 0;  return 0; *)
    Definition byte0_e (k : nat) : expr := ELoad (Some I8) (EPtrAdd 1 (ELocal k) (EConst 0)).
    Definition pre_print : stmt :=
      SIf (EAndAlso (ELNot (byte0_e 1)) (ELNot (byte0_e 0))) (SIf (EBin OGe I32 (ELoad (Some I32) (EGlob G_xrow)) len_e) ret1 SSkip) SSkip.
    Definition print_call : stmt := SExpr (ECall X_ex_print [ECall F_lbuf_get [xb_e; ELocal 6]]).
    Definition print_loop : stmt := SFor (Some (EBin OLt I32 (ELocal 6) (ld 5))) (Some (EIncLocal true 6 (Some I32) 1)) print_call.
    Definition print_xrow : stmt := SExpr (EStore (Some I32) (EGlob G_xrow) (max_e (ld 4) (EBin OSub I32 (ld 5) (EConst 1)))).
    Definition xoff0 : stmt := SExpr (EStore (Some I32) (EGlob G_xoff) (EConst 0)).
    Definition print_rest : stmt :=
      SSeq pre_print (SSeq (guard_rz 4 5) (SSeq (SSeq (SExpr (ESetLocal 6 (ld 4))) print_loop) (SSeq print_xrow (SSeq xoff0 ret0)))).
    Lemma ec_print_shape : fn_body cf_ec_print = SSeq frame2 print_rest.
    Proof. reflexivity. Qed.

    Hypothesis Hcmd0 : str_at mm bc cmd.
    Definition noaddr_nocmd : bool := match cmd, s with [], [] => true | _, _ => false end.
    Lemma nonul_hd_nil (t : bytes) : nonul t -> (nthb t 0 =? 0)%N = match t with [] => true | _ => false end.
    Proof. intro H. destruct t as [|c t']; [reflexivity|]. inversion H as [|? ? [Hc0 _] _]; subst. change (nthb (c :: t') 0) with c. destruct (N.eqb_spec c 0); [lia|reflexivity]. Qed.
    Lemma exec_pre_print : exec cx fuel pre_print (mkst L mm)
      = if noaddr_nocmd && (ExDefs.slen st <=? ExDefs.xrow st) then OReturn (VInt 1) (mkst L mm) else ONormal (mkst L mm).
    Proof.
      destruct Hpre as [A1 A2 A3 A4 A5 A6 A7 A8 A9 A10 A11 A12 A13 A14 A15].
      unfold pre_print, byte0_e, ret1, noaddr_nocmd. rewrite exec_if. rewrite Hv1. xs.
      rewrite (load_str mm bc cmd (0 + 1 * 0) 0 Hcmd0 eq_refl ltac:(lia)). xs. rewrite (sc_eqb_0 _ (nthb_lt256 cmd 0 (nonul_lt256 cmd Hncmd))).
      rewrite (nonul_hd_nil cmd Hncmd). destruct cmd as [|c0 t0]; xs; [|reflexivity].
      rewrite (load_str mm bs s (0 + 1 * 0) 0 A1 eq_refl ltac:(lia)). xs. rewrite (sc_eqb_0 _ (nthb_lt256 s 0 (nonul_lt256 s A2))).
      rewrite (nonul_hd_nil s A2). destruct s as [|c1 t1]; xs; [|reflexivity].
      rewrite (load_cell mm G_xrow _ A4). xs. rewrite (int_ok_wrap _ A12).
      rewrite <- Hv1. rewrite (eval_len ext fuel _ L mm bl (ExDefs.slen st)) by (exists gbufs, lblk; repeat (split; [assumption|]); assumption).
      xs. destruct (ExDefs.slen st <=? ExDefs.xrow st); xs; reflexivity.
    Qed.

    (* the rows are printed in order: the memories pm 0 = m1, pm 1, ... the oracle ex_print leaves, each still showing the buffer and the command's locals *)
    Variables (bln : nat) (lnblk : block).
    Record print_view (mx : mem) : Prop := mk_print_view {
      pv_len : len_view mx bl (ExDefs.slen st);
      pv_ln : exists lblk', nth_error mx bl = Some lblk' /\ nth_error lblk' L_ln_n = Some (VInt (ExDefs.slen st)) /\ nth_error lblk' L_ln = Some (VPtr bln 0);
      pv_tab : nth_error mx bln = Some lnblk;
      pv_beg : nth_error mx bb = Some [VInt b];
      pv_end : nth_error mx be = Some [VInt e] }.
    Variable pm : nat -> mem.
    Local Notation cnt := (Z.to_nat (e - b)).
    Local Notation Li i := (VPtr bs 0 :: v1 :: v2 :: v3 :: VPtr bb 0 :: VPtr be 0 :: VInt i :: rest').
    Definition printed : Prop := forall k, (k < cnt)%nat ->
      exists p o u, nth_error lnblk (Z.to_nat (b + Z.of_nat k)) = Some (VPtr p o) /\ ext X_ex_print [VPtr p o] (pm k) = Ok (u, pm (S k)).
    Lemma print_loop_ok : 0 <= b -> e <= ExDefs.slen st -> (forall k, (k <= cnt)%nat -> print_view (pm k)) -> printed ->
      forall j k fuel', (j + k = cnt)%nat -> (j < fuel')%nat ->
      exec cx fuel' print_loop (mkst (Li (b + Z.of_nat k)) (pm k)) = ONormal (mkst (Li (Z.max (b + Z.of_nat k) e)) (pm cnt)).
    Proof.
      intros Hb0 Hen Hview Hpr. pose proof (cp_il _ _ _ _ _ _ _ Hpre) as Il. pose proof (ar_ie m1 AR) as Ie. pose proof (ar_ib m1 AR) as Ib.
      induction j as [|j IH]; intros k fuel' Hjk Hfu; (destruct fuel' as [|fuel']; [lia|]); unfold print_loop; rewrite exec_for; cbn [eval_opt eval].
      - assert (Hk : k = cnt) by lia. destruct (Hview k ltac:(lia)) as [V1 V2 V3 V4 V5].
        rewrite (pure_local cx 6 (Li (b + Z.of_nat k)) (pm k) (b + Z.of_nat k) eq_refl). cbn [bind]. rewrite (pure_ld cx 5 (Li (b + Z.of_nat k)) (pm k) be e eq_refl V5 Ie). xs.
        destruct (Z.ltb_spec (b + Z.of_nat k) e) as [Hlt|Hge]; [lia|]. xs. rewrite Hk at 2. rewrite Z.max_l by lia. reflexivity.
      - destruct (Hview k ltac:(lia)) as [V1 V2 V3 V4 V5]. destruct V2 as (lblk' & W1 & W2 & W3).
        rewrite (pure_local cx 6 (Li (b + Z.of_nat k)) (pm k) (b + Z.of_nat k) eq_refl). cbn [bind]. rewrite (pure_ld cx 5 (Li (b + Z.of_nat k)) (pm k) be e eq_refl V5 Ie). xs.
        destruct (Z.ltb_spec (b + Z.of_nat k) e) as [Hlt|Hge]; [|lia]. xs.
        destruct (Hpr k ltac:(lia)) as (p & o & u & Hcell & Hext).
        unfold print_call. rewrite exec_expr. cbn [eval]. rewrite (eval_xb ext fuel _ _ (pm k) bl (len_xb _ _ _ V1)). cbn [bind]. xs.
        rewrite (cx_lbuf_get (S (S (S d))) (pm k) bl lblk' (ExDefs.slen st) bln lnblk (b + Z.of_nat k) p o W1 W2 Il W3 V3 ltac:(lia) Hcell). xs.
        rewrite (cx_ext ext fuel _ _ _ _ x_ex_print_none), Hext. xs.
        rewrite (int_ok_chk (b + Z.of_nat k + 1)) by (unfold TrExAddr.int_ok in *; lia). xs.
        replace (b + Z.of_nat k + 1) with (b + Z.of_nat (S k)) by lia. fold print_call. fold print_loop.
        rewrite (IH (S k) fuel' ltac:(lia) ltac:(lia)). rewrite !Z.max_r by lia. reflexivity.
    Qed.
    Lemma xoff_ne_xrow : G_xoff <> G_xrow.
    Proof. vm_compute. discriminate. Qed.
    Lemma print_body_pre : noaddr_nocmd && (ExDefs.slen st <=? ExDefs.xrow st) = true ->
      exec cx fuel print_rest (mkst L mm) = OReturn (VInt 1) (mkst L mm).
    Proof. intro H. unfold print_rest. rewrite exec_seq, exec_pre_print, H. reflexivity. Qed.
    Lemma print_body_fail : noaddr_nocmd && (ExDefs.slen st <=? ExDefs.xrow st) = false -> bad || ExDefs.ex_zero s b e = true ->
      exec cx fuel print_rest (mkst L mm) = OReturn (VInt 1) (mkst L m1).
    Proof. intros H G. unfold print_rest. rewrite exec_seq, exec_pre_print, H. rewrite exec_seq, exec_guard_rz, G. reflexivity. Qed.
    Lemma print_body_ok x5 y5 : noaddr_nocmd && (ExDefs.slen st <=? ExDefs.xrow st) = false -> bad || ExDefs.ex_zero s b e = false ->
      pm O = m1 -> (forall k, (k <= cnt)%nat -> print_view (pm k)) -> printed ->
      cell_at (pm cnt) G_xrow x5 -> cell_at (pm cnt) G_xoff y5 -> (cnt < fuel)%nat ->
      exec cx fuel print_rest (mkst L mm)
      = OReturn (VInt 0) (mkst (Li (Z.max b e)) (upd (upd (pm cnt) G_xrow [VInt (Z.max b (e - 1))]) G_xoff [VInt 0])).
    Proof.
      intros H G H0 Hview Hpr Hx5 Hy5 Hfu. pose proof (ar_ie m1 AR) as Ie. pose proof (ar_ib m1 AR) as Ib.
      assert (Hbad : bad = false) by (destruct bad; [discriminate G|reflexivity]).
      destruct (ar_bounds ltac:(rewrite Hbad; reflexivity)) as ((B1 & B2) & B3).
      unfold print_rest. rewrite exec_seq, exec_pre_print, H. rewrite exec_seq, exec_guard_rz, G.
      rewrite exec_seq, exec_seq, exec_expr. cbn [eval]. rewrite (pure_beg m1 (ar_beg m1 AR)). cbn [bind]. rewrite Hrest. cbn [set_local locals set_nth memm bind].
      assert (EL : exec cx fuel print_loop (mkst (Li b) m1) = ONormal (mkst (Li (Z.max b e)) (pm cnt))).
      { pose proof (print_loop_ok B1 B3 Hview Hpr cnt O fuel ltac:(lia) Hfu) as E. rewrite H0 in E. cbn [Z.of_nat] in E. rewrite Z.add_0_r in E. exact E. }
      rewrite EL.
      destruct (Hview cnt ltac:(lia)) as [V1 V2 V3 V4 V5].
      assert (P : pure cx (max_e (ld 4) (EBin OSub I32 (ld 5) (EConst 1))) (mkst (Li (Z.max b e)) (pm cnt)) (Z.max b (e - 1))).
      { apply pure_max; [exact (pure_ld cx 4 (Li (Z.max b e)) (pm cnt) bb b eq_refl V4 Ib)|].
        apply pure_sub; [exact (pure_ld cx 5 (Li (Z.max b e)) (pm cnt) be e eq_refl V5 Ie)|apply pure_const|unfold TrExAddr.int_ok in *; lia]. }
      unfold print_xrow. rewrite exec_seq, (exec_set_xrow cx fuel _ _ (pm cnt) _ x5 P) by (try assumption; unfold TrExAddr.int_ok in *; lia).
      assert (Lx : (G_xrow < length (pm cnt))%nat) by (apply nth_error_Some; unfold cell_at in Hx5; congruence).
      pose proof (cell_at_upd_other (pm cnt) G_xrow [VInt (Z.max b (e - 1))] G_xoff y5 Lx xoff_ne_xrow Hy5) as Hy6.
      unfold xoff0. rewrite exec_seq, exec_expr. xs. rewrite (store_cell _ G_xoff y5 _ Hy6). xs. unfold ret0. rewrite exec_return. reflexivity.
    Qed.

    (* ================================================================ ec_mark (k): lbuf_mark(xb, (unsigned char) arg[0], end - 1, 0) *)
    Definition mark_s : stmt := SExpr (ECall F_lbuf_mark [xb_e; ECast I32 (ECast U8 (arg_byte 0)); EBin OSub I32 (ld 5) (EConst 1); EConst 0]).
    Definition mark_rest : stmt := SSeq (guard_rz 4 5) (SSeq mark_s ret0).
    Lemma ec_mark_shape : fn_body cf_ec_mark = SSeq frame2 mark_rest.
    Proof. reflexivity. Qed.
    Lemma mark_body_fail : bad || ExDefs.ex_zero s b e = true -> exec cx fuel mark_rest (mkst L mm) = OReturn (VInt 1) (mkst L m1).
    Proof. intro G. unfold mark_rest. rewrite exec_seq, exec_guard_rz, G. reflexivity. Qed.
    Lemma mark_body_ok : bad || ExDefs.ex_zero s b e = false -> length lblk = LBUF_CELLS ->
      let blk' := mark_blk lblk (Z.of_N (hd0 arg)) (e - 1) 0 in
      exec cx fuel mark_rest (mkst L mm) = OReturn (VInt 0) (mkst L (if 0 <=? midx (hd0 arg) then upd m1 bl blk' else m1)) /\
      marks_rep blk' (ExDefs.marks (ExDefs.lbuf_mark (ExDefs.lb st) (hd0 arg) (e - 1))).
    Proof.
      clear Nbc Hcmd Hcmd0 Hncmd Hv1 Hrest Hv3 pm bln lnblk.
      intros G Hlen blk'. pose proof (ar_ie m1 AR) as Ie.
      assert (Hbad : bad = false) by (destruct bad; [discriminate G|reflexivity]).
      destruct (ar_bounds ltac:(rewrite Hbad; reflexivity)) as ((B1 & B2) & B3).
      assert (Hl1 : nth_error m1 bl = Some lblk).
      { destruct Hdist as (D1 & D2 & D3 & D4 & D5 & D6 & D7 & D8 & D9 & D10 & D11).
        apply ar_old; [exact (cp_l _ _ _ _ _ _ _ Hpre)| | |]; apply not_eq_sym; assumption. }
      assert (Hc : (hd0 arg < 256)%N) by (replace (hd0 arg) with (nthb arg 0) by (destruct arg; reflexivity); apply nthb_lt256, nonul_lt256, Hnarg).
      destruct (tr_lbuf_mark_model m1 bl lblk (ExDefs.lb st) (hd0 arg) (e - 1) 0 (S (S d)) fuel Hl1 Hlen (cp_mr _ _ _ _ _ _ _ Hpre) Hc
                  ltac:(unfold i32, TrExAddr.int_ok in *; lia) ltac:(unfold i32; lia)) as (Ecall & Hrep).
      split; [|exact Hrep].
      unfold mark_rest. rewrite exec_seq, exec_guard_rz, G. unfold mark_s. rewrite exec_seq, exec_expr. cbn [eval].
      rewrite (eval_xb ext fuel _ L m1 bl (len_xb _ _ _ ar_len)). cbn [bind]. unfold arg_byte. rewrite Hv2. xs.
      rewrite (load_str m1 ba arg (0 + 1 * 0) 0 Harg eq_refl ltac:(lia)). xs.
      replace (nthb arg 0) with (hd0 arg) by (destruct arg; reflexivity). rewrite (wrap_byte_chain _ Hc).
      rewrite <- Hv2. rewrite (pure_end m1 (ar_end m1 AR)). xs. rewrite (int_ok_chk (e - 1)) by (unfold TrExAddr.int_ok in *; lia). xs.
      rewrite (callx_mono ext _ _ _ _ _ _ _ Ecall). xs. unfold ret0. rewrite exec_return. reflexivity.
    Qed.
  End AfterRegion.

  (* ================================================================ the commands as functions of cprog *)
  (* A command starts by allocating `beg` and `end` (indeterminate), then runs its text.  ex_region reads *end once before it writes it
     (`int end0 = *end`, a value it uses only from the second address on): CLite calls the use of an indeterminate value an error, so the
     call of a command with an address that is neither empty nor "%" has no successful run in CLite.  C gives `end` SOME int value there
     (its address is taken, int has no trap representation): X_run .. ve is the command's text run in the frame where `end` holds ve;
     the theorems are stated for every int e0 in that place, and X_entry says that the call is X_run with the indeterminate value. *)
  Definition ec_delete_run D (a0 a1 a2 a3 : val) (m : mem) (ve : val) : res (val * mem) :=
    run_of (exec (callx ext cprog fuel D) fuel delete_rest (mkst [a0; a1; a2; a3; VPtr (length m) 0; VPtr (S (length m)) 0] (frame_mem m VUndef ve))).
  Lemma ec_delete_entry D a0 a1 a2 a3 m : callx ext cprog fuel (S D) F_ec_delete [a0; a1; a2; a3] m = ec_delete_run D a0 a1 a2 a3 m VUndef.
  Proof.
    rewrite callx_S. change (nth_error cprog F_ec_delete) with (Some cf_ec_delete). cbv beta iota.
    change (fn_nparams cf_ec_delete) with 4%nat. change (fn_nlocals cf_ec_delete) with 6%nat. rewrite ec_delete_shape.
    cbn [length Nat.eqb Nat.sub repeat app]. rewrite exec_seq, exec_frame2. reflexivity.
  Qed.

  Definition ec_yank_run D (a0 a1 a2 a3 : val) (m : mem) (ve : val) : res (val * mem) :=
    run_of (exec (callx ext cprog fuel D) fuel yank_rest (mkst [a0; a1; a2; a3; VPtr (length m) 0; VPtr (S (length m)) 0] (frame_mem m VUndef ve))).
  Lemma ec_yank_entry D a0 a1 a2 a3 m : callx ext cprog fuel (S D) F_ec_yank [a0; a1; a2; a3] m = ec_yank_run D a0 a1 a2 a3 m VUndef.
  Proof.
    rewrite callx_S. change (nth_error cprog F_ec_yank) with (Some cf_ec_yank). cbv beta iota.
    change (fn_nparams cf_ec_yank) with 4%nat. change (fn_nlocals cf_ec_yank) with 6%nat. rewrite ec_yank_shape.
    cbn [length Nat.eqb Nat.sub repeat app]. rewrite exec_seq, exec_frame2. reflexivity.
  Qed.

  Definition ec_insert_run D (a0 a1 a2 a3 : val) (m : mem) (ve : val) : res (val * mem) :=
    run_of (exec (callx ext cprog fuel D) fuel insert_rest (mkst [a0; a1; a2; a3; VPtr (length m) 0; VPtr (S (length m)) 0; VUndef] (frame_mem m VUndef ve))).
  Lemma ec_insert_entry D a0 a1 a2 a3 m : callx ext cprog fuel (S D) F_ec_insert [a0; a1; a2; a3] m = ec_insert_run D a0 a1 a2 a3 m VUndef.
  Proof.
    rewrite callx_S. change (nth_error cprog F_ec_insert) with (Some cf_ec_insert). cbv beta iota.
    change (fn_nparams cf_ec_insert) with 4%nat. change (fn_nlocals cf_ec_insert) with 7%nat. rewrite ec_insert_shape.
    cbn [length Nat.eqb Nat.sub repeat app]. rewrite exec_seq, exec_frame2. reflexivity.
  Qed.

  Definition ec_print_run D (a0 a1 a2 a3 : val) (m : mem) (ve : val) : res (val * mem) :=
    run_of (exec (callx ext cprog fuel D) fuel print_rest (mkst [a0; a1; a2; a3; VPtr (length m) 0; VPtr (S (length m)) 0; VUndef] (frame_mem m VUndef ve))).
  Lemma ec_print_entry D a0 a1 a2 a3 m : callx ext cprog fuel (S D) F_ec_print [a0; a1; a2; a3] m = ec_print_run D a0 a1 a2 a3 m VUndef.
  Proof.
    rewrite callx_S. change (nth_error cprog F_ec_print) with (Some cf_ec_print). cbv beta iota.
    change (fn_nparams cf_ec_print) with 4%nat. change (fn_nlocals cf_ec_print) with 7%nat. rewrite ec_print_shape.
    cbn [length Nat.eqb Nat.sub repeat app]. rewrite exec_seq, exec_frame2. reflexivity.
  Qed.

  Definition ec_mark_run D (a0 a1 a2 a3 : val) (m : mem) (ve : val) : res (val * mem) :=
    run_of (exec (callx ext cprog fuel D) fuel mark_rest (mkst [a0; a1; a2; a3; VPtr (length m) 0; VPtr (S (length m)) 0] (frame_mem m VUndef ve))).
  Lemma ec_mark_entry D a0 a1 a2 a3 m : callx ext cprog fuel (S D) F_ec_mark [a0; a1; a2; a3] m = ec_mark_run D a0 a1 a2 a3 m VUndef.
  Proof.
    rewrite callx_S. change (nth_error cprog F_ec_mark) with (Some cf_ec_mark). cbv beta iota.
    change (fn_nparams cf_ec_mark) with 4%nat. change (fn_nlocals cf_ec_mark) with 6%nat. rewrite ec_mark_shape.
    cbn [length Nat.eqb Nat.sub repeat app]. rewrite exec_seq, exec_frame2. reflexivity.
  Qed.

  (* ---- ec_null in ex mode (xvis == 0): xrow = xrow + 1 < lbuf_len(xb) ? xrow + 1 : xrow; return ec_print(loc, cmd, arg, txt); *)
  Definition null_ex : stmt :=
    SSeq (SExpr (EStore (Some I32) (EGlob G_xrow) (ECond (EBin OLt I32 (EBin OAdd I32 xrow_ld (EConst 1)) len_e) (EBin OAdd I32 xrow_ld (EConst 1)) xrow_ld)))
         (SReturn (Some (ECall F_ec_print [ELocal 0; ELocal 1; ELocal 2; ELocal 3]))).
  Definition null_vis : stmt := SSeq (SIf (region_e 4 5) ret1 SSkip) (SSeq print_xrow (SSeq xoff0 ret0)).
  Definition null_rest : stmt := SSeq (SIf (ELNot (ELoad (Some I32) (EGlob G_xvis))) null_ex SSkip) null_vis.
  Lemma ec_null_shape : fn_body cf_ec_null = SSeq frame2 null_rest.
  Proof. reflexivity. Qed.
  Lemma eval_call4 call f a0 a1 a2 a3 rest mx : a0 <> VUndef -> a1 <> VUndef -> a2 <> VUndef -> a3 <> VUndef ->
    eval call (ECall f [ELocal 0; ELocal 1; ELocal 2; ELocal 3]) (mkst (a0 :: a1 :: a2 :: a3 :: rest) mx)
    = match call f [a0; a1; a2; a3] mx with Ok (v, m') => Ok (v, mkst (a0 :: a1 :: a2 :: a3 :: rest) m') | Err x => Err x end.
  Proof.
    intros N0 N1 N2 N3. cbn [eval]. unfold get_local. cbn [locals nth_error bind].
    destruct a0; try congruence; destruct a1; try congruence; destruct a2; try congruence; destruct a3; try congruence; cbn [bind memm locals];
      match goal with |- context [call f ?a ?mm] => destruct (call f a mm) as [[v m']|err] end; reflexivity.
  Qed.
  Lemma len_view_le m mm bl n : mem_le m mm -> len_view m bl n -> len_view mm bl n.
  Proof. intros H (g & l & H1 & H2 & H3 & H4 & H5). exists g, l. split; [apply H; exact H1|]. split; [exact H2|]. split; [apply H; exact H3|]. split; assumption. Qed.
  (* the null command outside visual mode IS the print command run on the memory where the current line went one line down (if there is one):
     the model's ec_null = ec_print on set_xrow s (if xrow s + 1 <? slen s then xrow s + 1 else xrow s), by definition *)
  Theorem tr_ec_null_ex D a0 a1 a2 a3 m x n bl : cell_at m G_xvis 0 -> cell_at m G_xrow x -> iok x -> iok (x + 1) -> len_view m bl n ->
    a0 <> VUndef -> a1 <> VUndef -> a2 <> VUndef -> a3 <> VUndef ->
    callx ext cprog fuel (S (S D)) F_ec_null [a0; a1; a2; a3] m
    = callx ext cprog fuel (S D) F_ec_print [a0; a1; a2; a3] (upd (frame_mem m VUndef VUndef) G_xrow [VInt (if x + 1 <? n then x + 1 else x)]).
  Proof.
    intros Hvis Hx Ix Ix1 Hl N0 N1 N2 N3. set (mf := frame_mem m VUndef VUndef).
    pose proof (mem_le_frame m VUndef VUndef) as Hle. pose proof (len_view_le m mf bl n Hle Hl) as Hlf.
    assert (Hxf : cell_at mf G_xrow x) by (apply Hle; exact Hx). assert (Hvf : cell_at mf G_xvis 0) by (apply Hle; exact Hvis).
    rewrite callx_S. change (nth_error cprog F_ec_null) with (Some cf_ec_null). cbv beta iota.
    change (fn_nparams cf_ec_null) with 4%nat. change (fn_nlocals cf_ec_null) with 6%nat. rewrite ec_null_shape.
    cbn [length Nat.eqb Nat.sub repeat app]. rewrite exec_seq, exec_frame2. fold mf.
    unfold null_rest. rewrite exec_seq, exec_if. xs. rewrite (load_cell mf G_xvis 0 Hvf). xs.
    unfold null_ex. rewrite exec_seq, exec_expr. unfold xrow_ld. xs. rewrite (load_cell mf G_xrow x Hxf). xs. rewrite (int_ok_wrap _ Ix), (int_ok_chk _ Ix1). xs.
    rewrite (eval_len ext fuel D _ mf bl n Hlf). xs.
    assert (Est : forall z, iok z -> store mf G_xrow 0 (VInt z) = Ok (upd mf G_xrow [VInt z])) by (intros z _; exact (store_cell mf G_xrow x z Hxf)).
    destruct (x + 1 <? n); xs; rewrite ?(load_cell mf G_xrow x Hxf); xs; rewrite ?(int_ok_wrap _ Ix), ?(int_ok_chk _ Ix1); xs;
      rewrite ?(int_ok_wrap _ Ix1), ?(int_ok_wrap _ Ix), Est by assumption; cbn [bind locals memm];
      rewrite exec_return, (eval_call4 _ F_ec_print a0 a1 a2 a3 _ _ N0 N1 N2 N3);
      match goal with |- context [callx ext cprog fuel (S D) F_ec_print ?a ?mm] => destruct (callx ext cprog fuel (S D) F_ec_print a mm) as [[v m']|err] end; reflexivity.
  Qed.

  (* the context of every command theorem: the memory m at the call, the model state st it represents, the address string *)
  Section Final.
    Variables (rvalid : bytes -> bool) (rfind : bytes -> bytes -> bool -> option (nat * nat)).
    Variables (st : ExDefs.st) (m : mem) (bs bl : nat) (s : bytes) (gbufs lblk : block) (e0 : Z) (d : nat).
    Hypothesis Hpre : cmd_pre m st bs bl s gbufs lblk.
    Hypothesis Nbs : G_xrow <> bs.
    Hypothesis Nbl : G_xrow <> bl.
    Hypothesis Hz : zero_linked ext.
    Hypothesis He0 : iok e0.
    Hypothesis Hf : (2 * S (length s) <= fuel)%nat.
    Local Notation bb := (length m).
    Local Notation be := (S (length m)).
    Local Notation D := (S (S (S (S d)))).
    Local Notation mf := (frame_mem m VUndef (VInt e0)).
    Local Notation R := (ExDefs.ex_region rvalid rfind s st).
    Local Notation bad := (fst (fst (fst R))).
    Local Notation b := (snd (fst (fst R))).
    Local Notation e := (snd (fst R)).
    Local Notation s1 := (snd R).

    Lemma final_lt : (bs < length m)%nat /\ (bl < length m)%nat /\ (G_xrow < length m)%nat /\ (G_bufs < length m)%nat.
    Proof.
      destruct Hpre as [A1 A2 A3 A4 A5 A6 A7 A8 A9 A10 A11 A12 A13 A14 A15]. unfold str_at, cell_at in *.
      repeat split; apply nth_error_Some; congruence.
    Qed.
    Lemma final_dist : rdist bs bb be bl.
    Proof. destruct final_lt as (L1 & L2 & L3 & L4). apply rdist_frame; assumption. Qed.
    Lemma final_region : exists m1, after_region rvalid rfind st mf bs s bb be d m1.
    Proof.
      apply (region_runs rvalid rfind st mf bs bl s gbufs lblk bb be VUndef e0 d (pre_le _ _ _ _ _ _ _ _ (mem_le_frame m _ _) Hpre)
               (frame_beg m _ _) (frame_end m _ _) He0 final_dist Hf).
    Qed.
    Lemma final_old m1 b' blk : after_region rvalid rfind st mf bs s bb be d m1 -> nth_error m b' = Some blk -> b' <> G_xrow ->
      nth_error m1 b' = Some blk.
    Proof.
      intros AR H N. assert (b' < length m)%nat by (apply nth_error_Some; congruence).
      rewrite (ar_fr _ _ _ _ _ _ _ _ _ _ AR b') by (rewrite ?frame_length; lia). rewrite frame_old by assumption. exact H.
    Qed.

    (* ---- ec_delete *)
    Lemma model_delete arg : ExDefs.ec_delete rvalid rfind s arg st =
      if bad || ExDefs.ex_zero s b e || (ExDefs.slen s1 =? 0) then (s1, 1)
      else let s3 := ExDefs.edit (ExDefs.ex_yank s1 (ExDefs.REG arg) b e) None b e in
           (ExDefs.set_xrow s3 (Z.max 0 (Z.min b (ExDefs.slen s3 - 1))), 0).
    Proof. unfold ExDefs.ec_delete. destruct R as [[[bad0 b0] e0'] s0]. reflexivity. Qed.

    (* d: the address is resolved by ex_region (tr_ex_region); when it is rejected, is the address 0, or the buffer is empty, the
       command returns 1 and nothing but xrow (the ';' separator) has changed; otherwise lbuf_cp(xb, beg, end), reg_put(REG(arg), buf, 1),
       free(buf), lbuf_edit(xb, NULL, beg, end) are called in this order with the model's arguments, and xrow becomes the model's new
       current line MAX(0, MIN(beg, lbuf_len(xb) - 1)) (fix 9481b21: after $d the new last line) *)
    Theorem tr_ec_delete vcmd ba arg vtxt : str_at m ba arg -> nonul arg -> ba <> G_xrow ->
      let M := ExDefs.ec_delete rvalid rfind s arg st in
      exists m1, callx ext cprog fuel D F_ex_region [VPtr bs 0; VPtr bb 0; VPtr be 0] mf = Ok (VInt (b2z bad), m1) /\
        (snd M <> 0 -> ec_delete_run D (VPtr bs 0) vcmd (VPtr ba 0) vtxt m (VInt e0) = Ok (VInt (snd M), m1) /\
                       snd M = 1 /\ cell_at m1 G_xrow (ExDefs.xrow (fst M)) /\ ExDefs.lb (fst M) = ExDefs.lb st) /\
        (snd M = 0 -> forall pb m2 u m3 c blk u' m5 x5,
           ext X_lbuf_cp [VPtr bl 0; VInt b; VInt e] m1 = Ok (VPtr pb 0, m2) ->
           ext X_reg_put [VInt (Z.of_N (ExDefs.REG arg)); VPtr pb 0; VInt 1] m2 = Ok (u, m3) ->
           nth_error m3 pb = Some (c :: blk) -> keeps [G_bufs; bb; be] m1 (upd m3 pb []) ->
           ext X_lbuf_edit [VPtr bl 0; VInt 0; VInt b; VInt e] (upd m3 pb []) = Ok (u', m5) ->
           nth_error m5 bb = Some [VInt b] -> len_view m5 bl (ExDefs.slen (fst M)) -> cell_at m5 G_xrow x5 ->
           ec_delete_run D (VPtr bs 0) vcmd (VPtr ba 0) vtxt m (VInt e0) = Ok (VInt 0, upd m5 G_xrow [VInt (ExDefs.xrow (fst M))])).
    Proof.
      intros Harg Hnarg Nba M. destruct final_region as (m1 & AR). exists m1. split; [exact (ar_call _ _ _ _ _ _ _ _ _ _ AR)|].
      pose proof (pre_le _ _ _ _ _ _ _ _ (mem_le_frame m VUndef (VInt e0)) Hpre) as Pf.
      assert (Es : ExDefs.slen s1 = ExDefs.slen st) by (rewrite (ar_st _ _ _ _ _ _ _ _ _ _ AR); reflexivity).
      assert (El : ExDefs.lb s1 = ExDefs.lb st) by (rewrite (ar_st _ _ _ _ _ _ _ _ _ _ AR); reflexivity).
      unfold M. rewrite (model_delete arg), Es. unfold ec_delete_run.
      destruct (bad || ExDefs.ex_zero s b e || (ExDefs.slen st =? 0)) eqn:G; cbn [fst snd].
      - split; [|intro H; discriminate H]. intros _.
        rewrite (delete_body_fail rvalid rfind st mf bs bl s gbufs lblk bb be VUndef e0 d Pf (frame_beg m _ _) (frame_end m _ _) final_dist Hf Hz m1 AR vcmd (VPtr ba 0) vtxt [] G).
        split; [reflexivity|]. split; [reflexivity|]. split; [exact (ar_xrow _ _ _ _ _ _ _ _ _ _ AR)|exact El].
      - split; [intro H; exfalso; apply H; reflexivity|]. intros _ pb m2 u m3 c blk u' m5 x5 Hcp Hput Hlive Hk Hed Hb5 Hl5 Hx5.
        cbn [ExDefs.slen ExDefs.set_xrow ExDefs.lb ExDefs.xrow] in Hl5 |- *.
        rewrite (delete_body_ok rvalid rfind st mf bs bl s gbufs lblk bb be VUndef e0 d Pf (frame_beg m _ _) (frame_end m _ _) final_dist Hf Hz m1 AR
                   vcmd (VPtr ba 0) vtxt [] ba arg eq_refl (final_old m1 ba _ AR Harg Nba) Hnarg pb m2 m3 u' m5 _ x5 G
                   (mk_yanked rvalid rfind st bl s bb be m1 arg pb m2 m3 Hcp (ex_intro _ u Hput) (ex_intro _ c (ex_intro _ blk Hlive)) Hk) Hed Hb5 Hl5
                   ltac:(unfold ExDefs.slen, ExDefs.llen; lia) Hx5).
        reflexivity.
    Qed.

    (* ---- ec_yank *)
    Lemma model_yank arg : ExDefs.ec_yank rvalid rfind s arg st =
      if bad || ExDefs.ex_zero s b e || (ExDefs.slen s1 =? 0) then (s1, 1) else (ExDefs.ex_yank s1 (ExDefs.REG arg) b e, 0).
    Proof. unfold ExDefs.ec_yank. destruct R as [[[bad0 b0] e0'] s0]. reflexivity. Qed.
    (* y: the guard of d, then lbuf_cp(xb, beg, end), reg_put(REG(arg), buf, 1), free(buf); xrow is what ex_region left, the buffer is not touched *)
    Theorem tr_ec_yank vcmd ba arg vtxt : str_at m ba arg -> nonul arg -> ba <> G_xrow ->
      let M := ExDefs.ec_yank rvalid rfind s arg st in
      exists m1, callx ext cprog fuel D F_ex_region [VPtr bs 0; VPtr bb 0; VPtr be 0] mf = Ok (VInt (b2z bad), m1) /\
        cell_at m1 G_xrow (ExDefs.xrow (fst M)) /\ ExDefs.lb (fst M) = ExDefs.lb st /\
        (snd M <> 0 -> ec_yank_run D (VPtr bs 0) vcmd (VPtr ba 0) vtxt m (VInt e0) = Ok (VInt (snd M), m1) /\ snd M = 1) /\
        (snd M = 0 -> forall pb m2 u m3 c blk,
           ext X_lbuf_cp [VPtr bl 0; VInt b; VInt e] m1 = Ok (VPtr pb 0, m2) ->
           ext X_reg_put [VInt (Z.of_N (ExDefs.REG arg)); VPtr pb 0; VInt 1] m2 = Ok (u, m3) ->
           nth_error m3 pb = Some (c :: blk) -> keeps [G_bufs; bb; be] m1 (upd m3 pb []) ->
           ec_yank_run D (VPtr bs 0) vcmd (VPtr ba 0) vtxt m (VInt e0) = Ok (VInt 0, upd m3 pb [])).
    Proof.
      intros Harg Hnarg Nba M. destruct final_region as (m1 & AR). exists m1. split; [exact (ar_call _ _ _ _ _ _ _ _ _ _ AR)|].
      pose proof (pre_le _ _ _ _ _ _ _ _ (mem_le_frame m VUndef (VInt e0)) Hpre) as Pf.
      assert (Es : ExDefs.slen s1 = ExDefs.slen st) by (rewrite (ar_st _ _ _ _ _ _ _ _ _ _ AR); reflexivity).
      assert (El : ExDefs.lb s1 = ExDefs.lb st) by (rewrite (ar_st _ _ _ _ _ _ _ _ _ _ AR); reflexivity).
      unfold M. rewrite (model_yank arg), Es. unfold ec_yank_run.
      destruct (bad || ExDefs.ex_zero s b e || (ExDefs.slen st =? 0)) eqn:G; cbn [fst snd].
      - split; [exact (ar_xrow _ _ _ _ _ _ _ _ _ _ AR)|]. split; [exact El|]. split; [|intro H; discriminate H]. intros _.
        rewrite (yank_body_fail rvalid rfind st mf bs bl s gbufs lblk bb be VUndef e0 d Pf (frame_beg m _ _) (frame_end m _ _) final_dist Hf Hz m1 AR vcmd (VPtr ba 0) vtxt [] G).
        split; reflexivity.
      - split; [exact (ar_xrow _ _ _ _ _ _ _ _ _ _ AR)|]. split; [exact El|]. split; [intro H; exfalso; apply H; reflexivity|].
        intros _ pb m2 u m3 c blk Hcp Hput Hlive Hk.
        rewrite (yank_body_ok rvalid rfind st mf bs bl s gbufs lblk bb be VUndef e0 d Pf (frame_beg m _ _) (frame_end m _ _) final_dist Hf Hz m1 AR
                   vcmd (VPtr ba 0) vtxt [] ba arg eq_refl (final_old m1 ba _ AR Harg Nba) Hnarg pb m2 m3 G
                   (mk_yanked rvalid rfind st bl s bb be m1 arg pb m2 m3 Hcp (ex_intro _ u Hput) (ex_intro _ c (ex_intro _ blk Hlive)) Hk)).
        reflexivity.
    Qed.

    (* ---- ec_insert *)
    Lemma final_bounds m1 : after_region rvalid rfind st mf bs s bb be d m1 -> bad && (negb (b =? 0) || negb (e =? 0)) = false ->
      0 <= b <= e /\ e <= ExDefs.slen st.
    Proof. intros AR G. exact (ar_bounds rvalid rfind st mf bs s bb be d Hf m1 AR G). Qed.
    Lemma ins_positions cmd :
      ins_b rvalid rfind st s cmd = (if (hd0 cmd =? 97)%N && (b <? e) && (b + 1 <=? ExDefs.slen st) then b + 1 else b) /\
      ins_e rvalid rfind st s cmd = (if (hd0 cmd =? 99)%N then e else ins_b rvalid rfind st s cmd).
    Proof. split; reflexivity. Qed.
    Lemma model_insert cmd txt : ExDefs.ec_insert rvalid rfind s cmd txt st =
      if bad && (negb (b =? 0) || negb (e =? 0)) then (s1, 1)
      else let b' := if (hd0 cmd =? 97)%N && (b <? e) && (b + 1 <=? ExDefs.slen s1) then b + 1 else b in
           let e' := if (hd0 cmd =? 99)%N then e else b' in
           let s2 := ExDefs.edit s1 txt b' e' in
           (ExDefs.set_xrow s2 (Z.max 0 (Z.min (ExDefs.slen s2 - 1) (e' + ExDefs.slen s2 - ExDefs.slen s1 - 1))), 0).
    Proof. unfold ExDefs.ec_insert. destruct R as [[[bad0 b0] e0'] s0]. reflexivity. Qed.
    (* a, i, c: the address is resolved; rejected unless it is address 0 (fix 6c95ca8); the position rule: `a` moves beg behind a non-empty
       range (so 0a inserts before the first line, fix e93d764), only `c` keeps end; lbuf_edit(xb, txt, beg', end') is called with the
       model's positions, in the memory where beg and end hold them; xrow = MAX(0, MIN(len' - 1, end' + len' - len - 1)) is the model's
       current line (fix 7b90d84: 0, not -1, when an empty text block goes to the top).  txt is the model's text block; what the
       oracle does with the pointer vtxt is its own matter: the hypothesis is that the buffer it leaves has the model's length *)
    Theorem tr_ec_insert bc cmd varg vtxt txt : str_at m bc cmd -> nonul cmd -> bc <> G_xrow -> vtxt <> VUndef ->
      let M := ExDefs.ec_insert rvalid rfind s cmd txt st in
      let b' := ins_b rvalid rfind st s cmd in let e' := ins_e rvalid rfind st s cmd in
      exists m1, callx ext cprog fuel D F_ex_region [VPtr bs 0; VPtr bb 0; VPtr be 0] mf = Ok (VInt (b2z bad), m1) /\
        (snd M <> 0 -> ec_insert_run D (VPtr bs 0) (VPtr bc 0) varg vtxt m (VInt e0) = Ok (VInt (snd M), m1) /\
                       snd M = 1 /\ cell_at m1 G_xrow (ExDefs.xrow (fst M)) /\ ExDefs.lb (fst M) = ExDefs.lb st) /\
        (snd M = 0 -> ExDefs.lb (fst M) = ExDefs.lbuf_edit txt (Z.to_nat b') (Z.to_nat e') (ExDefs.lb st) /\ forall u' m5 x5,
           ext X_lbuf_edit [VPtr bl 0; vtxt; VInt b'; VInt e'] (upd (upd m1 bb [VInt b']) be [VInt e']) = Ok (u', m5) ->
           nth_error m5 be = Some [VInt e'] -> len_view m5 bl (ExDefs.slen (fst M)) -> cell_at m5 G_xrow x5 ->
           iok (e' + ExDefs.slen (fst M)) ->
           ec_insert_run D (VPtr bs 0) (VPtr bc 0) varg vtxt m (VInt e0) = Ok (VInt 0, upd m5 G_xrow [VInt (ExDefs.xrow (fst M))])).
    Proof.
      intros Hcmd Hncmd Nbc Hvt M b' e'. destruct final_region as (m1 & AR). exists m1. split; [exact (ar_call _ _ _ _ _ _ _ _ _ _ AR)|].
      pose proof (pre_le _ _ _ _ _ _ _ _ (mem_le_frame m VUndef (VInt e0)) Hpre) as Pf.
      assert (Es : ExDefs.slen s1 = ExDefs.slen st) by (rewrite (ar_st _ _ _ _ _ _ _ _ _ _ AR); reflexivity).
      assert (El : ExDefs.lb s1 = ExDefs.lb st) by (rewrite (ar_st _ _ _ _ _ _ _ _ _ _ AR); reflexivity).
      assert (Lbc : (bc < length m)%nat) by (apply nth_error_Some; unfold str_at in Hcmd; congruence).
      unfold M. rewrite (model_insert cmd txt), Es. unfold ec_insert_run. fold b' e'.
      destruct (bad && (negb (b =? 0) || negb (e =? 0))) eqn:G; cbn [fst snd].
      - split; [|intro H; discriminate H]. intros _.
        rewrite (insert_body_fail rvalid rfind st mf bs s bb be d m1 AR (VPtr bc 0) varg vtxt [VUndef] G).
        split; [reflexivity|]. split; [reflexivity|]. split; [exact (ar_xrow _ _ _ _ _ _ _ _ _ _ AR)|exact El].
      - split; [intro H; exfalso; apply H; reflexivity|]. intros _.
        change (if (hd0 cmd =? 97)%N && (b <? e) && (b + 1 <=? ExDefs.slen st) then b + 1 else b) with b'.
        change (if (hd0 cmd =? 99)%N then e else b') with e'. cbv zeta.
        cbn [ExDefs.slen ExDefs.set_xrow ExDefs.lb ExDefs.xrow ExDefs.edit ExDefs.set_lb]. rewrite El.
        split; [reflexivity|]. intros u' m5 x5 Hed He5 Hl5 Hx5 Hfit.
        destruct (final_bounds m1 AR G) as ((B1 & B2) & B3). pose proof (cp_il _ _ _ _ _ _ _ Hpre) as Il.
        assert (Hb' : b <= b' <= b + 1 /\ b' <= ExDefs.slen st).
        { unfold b', ins_b. destruct ((hd0 cmd =? 97)%N && (b <? e) && (b + 1 <=? ExDefs.slen st)) eqn:Ec; [|lia].
          apply andb_prop in Ec. destruct Ec as (_ & Ec). apply Z.leb_le in Ec. lia. }
        assert (He' : 0 <= e') by (unfold e', ins_e; destruct (hd0 cmd =? 99)%N; fold b'; lia).
        match type of Hl5 with len_view _ _ ?n => set (n2 := n) in * end.
        assert (Hn2 : 0 <= n2) by (unfold n2, ExDefs.slen, ExDefs.llen; lia).
        rewrite (insert_body_ok rvalid rfind st mf bs bl s gbufs lblk bb be d Pf final_dist Hf m1 AR (VPtr bc 0) varg vtxt [VUndef] bc cmd VUndef []
                   eq_refl eq_refl (final_old m1 bc _ AR Hcmd Nbc) Hncmd ltac:(lia) Hvt u' m5 n2 x5 G
                   ltac:(unfold TrExAddr.int_ok in *; lia) ltac:(fold b'; unfold TrExAddr.int_ok in *; lia) He' Hfit Hn2 Hed He5 Hl5 Hx5).
        reflexivity.
    Qed.

    (* ---- ec_print *)
    Lemma print_view_iff bl' s' bb' be' bln lnblk mx :
      print_view rvalid rfind st bl' s' bb' be' bln lnblk mx <->
      (len_view mx bl' (ExDefs.slen st) /\
       (exists lblk', nth_error mx bl' = Some lblk' /\ nth_error lblk' L_ln_n = Some (VInt (ExDefs.slen st)) /\ nth_error lblk' L_ln = Some (VPtr bln 0)) /\
       nth_error mx bln = Some lnblk /\
       nth_error mx bb' = Some [VInt (snd (fst (fst (ExDefs.ex_region rvalid rfind s' st))))] /\
       nth_error mx be' = Some [VInt (snd (fst (ExDefs.ex_region rvalid rfind s' st)))]).
    Proof. split; [intros [A1 A2 A3 A4 A5]; repeat (split; [assumption|]); assumption|intros (A1 & A2 & A3 & A4 & A5); constructor; assumption]. Qed.
    Lemma printed_iff s' lnblk pm : printed rvalid rfind st s' lnblk pm <->
      (let b := snd (fst (fst (ExDefs.ex_region rvalid rfind s' st))) in let e := snd (fst (ExDefs.ex_region rvalid rfind s' st)) in
       forall k, (k < Z.to_nat (e - b))%nat ->
       exists p o u, nth_error lnblk (Z.to_nat (b + Z.of_nat k)) = Some (VPtr p o) /\ ext X_ex_print [VPtr p o] (pm k) = Ok (u, pm (S k))).
    Proof. split; intro H; exact H. Qed.
    Lemma model_print cmd : ExDefs.ec_print rvalid rfind s cmd st =
      if noaddr_nocmd s cmd && (ExDefs.slen st <=? ExDefs.xrow st) then (st, 1)
      else if bad || ExDefs.ex_zero s b e then (s1, 1)
      else (ExDefs.set_xrow (ExDefs.print_lines (firstn (Z.to_nat (e - b)) (skipn (Z.to_nat b) (ExDefs.lns (ExDefs.lb s1)))) s1) (Z.max b (e - 1)), 0).
    Proof. unfold ExDefs.ec_print, noaddr_nocmd. destruct R as [[[bad0 b0] e0'] s0]. reflexivity. Qed.
    (* p (and the command line that is only an address).  Without command name and address: 1 when the current line is not a line.  Then
       ex_region, ex_zero (fix 6c95ca8).  Then ex_print(lbuf_get(xb, i)) for i = beg, .., end - 1 IN THIS ORDER: pm 0 = the memory after ex_region,
       pm (k + 1) = the memory the oracle leaves when called with row beg + k's pointer lb->ln[beg + k] on pm k; each pm k still shows the buffer
       (print_view: length, the table lb->ln = block bln = lnblk) and the locals beg and end; xrow = MAX(beg, end - 1), xoff = 0 *)
    Theorem tr_ec_print bc cmd varg vtxt bln lnblk : str_at m bc cmd -> nonul cmd -> bc <> G_xrow ->
      nth_error lblk L_ln = Some (VPtr bln 0) -> nth_error m bln = Some lnblk -> bln <> G_xrow ->
      let M := ExDefs.ec_print rvalid rfind s cmd st in
      let early := noaddr_nocmd s cmd && (ExDefs.slen st <=? ExDefs.xrow st) in
      let cnt := Z.to_nat (e - b) in
      (early = true -> ec_print_run D (VPtr bs 0) (VPtr bc 0) varg vtxt m (VInt e0) = Ok (VInt 1, mf) /\ M = (st, 1)) /\
      exists m1, callx ext cprog fuel D F_ex_region [VPtr bs 0; VPtr bb 0; VPtr be 0] mf = Ok (VInt (b2z bad), m1) /\
        print_view rvalid rfind st bl s bb be bln lnblk m1 /\
        (early = false -> snd M <> 0 -> ec_print_run D (VPtr bs 0) (VPtr bc 0) varg vtxt m (VInt e0) = Ok (VInt (snd M), m1) /\
                       snd M = 1 /\ cell_at m1 G_xrow (ExDefs.xrow (fst M)) /\ ExDefs.lb (fst M) = ExDefs.lb st) /\
        (early = false -> snd M = 0 -> ExDefs.xrow (fst M) = Z.max b (e - 1) /\ forall pm x5 y5,
           pm O = m1 -> (forall k, (1 <= k <= cnt)%nat -> print_view rvalid rfind st bl s bb be bln lnblk (pm k)) ->
           printed rvalid rfind st s lnblk pm -> cell_at (pm cnt) G_xrow x5 -> cell_at (pm cnt) G_xoff y5 -> (cnt < fuel)%nat ->
           ec_print_run D (VPtr bs 0) (VPtr bc 0) varg vtxt m (VInt e0)
           = Ok (VInt 0, upd (upd (pm cnt) G_xrow [VInt (ExDefs.xrow (fst M))]) G_xoff [VInt 0])).
    Proof.
      intros Hcmd Hncmd Nbc Hln Htab Nbln M early cnt. destruct final_region as (m1 & AR).
      pose proof (pre_le _ _ _ _ _ _ _ _ (mem_le_frame m VUndef (VInt e0)) Hpre) as Pf.
      assert (Es : ExDefs.slen s1 = ExDefs.slen st) by (rewrite (ar_st _ _ _ _ _ _ _ _ _ _ AR); reflexivity).
      assert (El : ExDefs.lb s1 = ExDefs.lb st) by (rewrite (ar_st _ _ _ _ _ _ _ _ _ _ AR); reflexivity).
      assert (Lbc : (bc < length m)%nat) by (apply nth_error_Some; unfold str_at in Hcmd; congruence).
      pose proof (final_old m1 bc _ AR Hcmd Nbc) as Hcmd1. pose proof (mem_le_frame m VUndef (VInt e0) _ _ Hcmd) as Hcmdf.
      assert (Nbc' : bc <> bb /\ bc <> be) by lia.
      assert (PV1 : print_view rvalid rfind st bl s bb be bln lnblk m1).
      { constructor.
        - exact (ar_len rvalid rfind st mf bs bl s gbufs lblk bb be d Pf final_dist m1 AR).
        - exists lblk. split; [exact (final_old m1 bl _ AR (cp_l _ _ _ _ _ _ _ Hpre) (not_eq_sym Nbl))|]. split; [exact (cp_n _ _ _ _ _ _ _ Hpre)|exact Hln].
        - exact (final_old m1 bln _ AR Htab Nbln).
        - exact (ar_beg _ _ _ _ _ _ _ _ _ _ AR).
        - exact (ar_end _ _ _ _ _ _ _ _ _ _ AR). }
      unfold M. rewrite (model_print cmd). fold early. unfold ec_print_run. split.
      - intro H. rewrite H. split; [|reflexivity].
        rewrite (print_body_pre st mf bs bl s gbufs lblk bb be d Pf Hf m1 (VPtr bc 0) varg vtxt [VUndef] bc cmd eq_refl Hcmd1 Hncmd Nbc' Hcmdf H). reflexivity.
      - exists m1. split; [exact (ar_call _ _ _ _ _ _ _ _ _ _ AR)|]. split; [exact PV1|].
        destruct early eqn:Hearly; [split; intro H; discriminate H|].
        destruct (bad || ExDefs.ex_zero s b e) eqn:G; cbn [fst snd].
        + split; [|intros _ H; discriminate H]. intros _ _.
          rewrite (print_body_fail rvalid rfind st mf bs bl s gbufs lblk bb be VUndef e0 d Pf (frame_beg m _ _) (frame_end m _ _) final_dist Hf Hz m1 AR
                     (VPtr bc 0) varg vtxt [VUndef] bc cmd eq_refl Hcmd1 Hncmd Nbc' Hcmdf Hearly G).
          split; [reflexivity|]. split; [reflexivity|]. split; [exact (ar_xrow _ _ _ _ _ _ _ _ _ _ AR)|exact El].
        + split; [intros _ H; exfalso; apply H; reflexivity|]. intros _ _. split; [reflexivity|].
          intros pm x5 y5 H0 Hview Hpr Hx5 Hy5 Hfu.
          rewrite (print_body_ok rvalid rfind st mf bs bl s gbufs lblk bb be VUndef e0 d Pf (frame_beg m _ _) (frame_end m _ _) final_dist Hf Hz m1 AR
                     (VPtr bc 0) varg vtxt [VUndef] bc cmd VUndef [] eq_refl eq_refl Hcmd1 Hncmd Nbc' Hcmdf bln lnblk pm x5 y5 Hearly G H0
                     ltac:(intros k Hk; destruct k as [|k]; [rewrite H0; exact PV1|apply Hview; fold cnt in Hk; lia]) Hpr Hx5 Hy5 Hfu).
          reflexivity.
    Qed.

    (* ---- ec_mark *)
    Lemma model_mark arg : ExDefs.ec_mark rvalid rfind s arg st =
      if bad || ExDefs.ex_zero s b e then (s1, 1) else (ExDefs.set_lb s1 (ExDefs.lbuf_mark (ExDefs.lb s1) (hd0 arg) (e - 1)), 0).
    Proof. unfold ExDefs.ec_mark. destruct R as [[[bad0 b0] e0'] s0]. reflexivity. Qed.
    (* k: no oracle besides ex_zero: ex_region, ex_zero (fix 6c95ca8), then the TRANSLATED lbuf_mark(xb, arg[0], end - 1, 0) (TrLbufMarks): the struct lbuf
       afterwards holds the mark rows of the model's state after the model's ec_mark *)
    Theorem tr_ec_mark vcmd ba arg vtxt : str_at m ba arg -> nonul arg -> ba <> G_xrow -> length lblk = LBUF_CELLS ->
      let M := ExDefs.ec_mark rvalid rfind s arg st in
      let blk' := mark_blk lblk (Z.of_N (hd0 arg)) (e - 1) 0 in
      exists m1, callx ext cprog fuel D F_ex_region [VPtr bs 0; VPtr bb 0; VPtr be 0] mf = Ok (VInt (b2z bad), m1) /\
        cell_at m1 G_xrow (ExDefs.xrow (fst M)) /\
        (snd M <> 0 -> ec_mark_run D (VPtr bs 0) vcmd (VPtr ba 0) vtxt m (VInt e0) = Ok (VInt (snd M), m1) /\ snd M = 1 /\ ExDefs.lb (fst M) = ExDefs.lb st) /\
        (snd M = 0 -> ec_mark_run D (VPtr bs 0) vcmd (VPtr ba 0) vtxt m (VInt e0) = Ok (VInt 0, if 0 <=? midx (hd0 arg) then upd m1 bl blk' else m1) /\
                      marks_rep blk' (ExDefs.marks (ExDefs.lb (fst M)))).
    Proof.
      intros Harg Hnarg Nba Hlen M blk'. destruct final_region as (m1 & AR). exists m1. split; [exact (ar_call _ _ _ _ _ _ _ _ _ _ AR)|].
      pose proof (pre_le _ _ _ _ _ _ _ _ (mem_le_frame m VUndef (VInt e0)) Hpre) as Pf.
      assert (El : ExDefs.lb s1 = ExDefs.lb st) by (rewrite (ar_st _ _ _ _ _ _ _ _ _ _ AR); reflexivity).
      unfold M. rewrite (model_mark arg). unfold ec_mark_run.
      destruct (bad || ExDefs.ex_zero s b e) eqn:G; cbn [fst snd].
      - split; [exact (ar_xrow _ _ _ _ _ _ _ _ _ _ AR)|]. split; [|intro H; discriminate H]. intros _.
        rewrite (mark_body_fail rvalid rfind st mf bs bl s gbufs lblk bb be VUndef e0 d Pf (frame_beg m _ _) (frame_end m _ _) final_dist Hf Hz m1 AR vcmd (VPtr ba 0) vtxt [] G).
        split; [reflexivity|]. split; [reflexivity|exact El].
      - split; [exact (ar_xrow _ _ _ _ _ _ _ _ _ _ AR)|]. split; [intro H; exfalso; apply H; reflexivity|]. intros _.
        destruct (mark_body_ok rvalid rfind st mf bs bl s gbufs lblk bb be VUndef e0 d Pf (frame_beg m _ _) (frame_end m _ _) final_dist Hf Hz m1 AR
                    vcmd (VPtr ba 0) vtxt [] ba arg eq_refl (final_old m1 ba _ AR Harg Nba) Hnarg G Hlen) as (E & Hrep).
        rewrite E. split; [reflexivity|]. cbn [ExDefs.lb ExDefs.set_lb]. rewrite El. exact Hrep.
    Qed.
  End Final.

  (* ================================================================ ec_lnum (=): sprintf(msg, "%d\n", end); ex_print(msg); return 0; *)
  (* the frame: char msg[128] (block length m), then beg and end *)
  Definition lnum_rest : stmt :=
    SSeq (guard_rz 5 6) (SSeq (SExpr (ECall X_sprintf [ELocal 4; EGlob G_lit_25640a_3; ld 6])) (SSeq (SExpr (ECall X_ex_print [ELocal 4])) ret0)).
  Lemma ec_lnum_shape : fn_body cf_ec_lnum =
    SSeq (SExpr (ESetLocal 4 (EBuiltin BMalloc [EConst 128])))
         (SSeq (SSeq (SExpr (ESetLocal 5 (EBuiltin BMalloc [EConst 1]))) (SExpr (ESetLocal 6 (EBuiltin BMalloc [EConst 1])))) lnum_rest).
  Proof. reflexivity. Qed.
  Definition msg_mem (m : mem) : mem := m ++ [repeat VUndef 128].
  Definition ec_lnum_run D (a0 a1 a2 a3 : val) (m : mem) (ve : val) : res (val * mem) :=
    run_of (exec (callx ext cprog fuel D) fuel lnum_rest
              (mkst [a0; a1; a2; a3; VPtr (length m) 0; VPtr (S (length m)) 0; VPtr (S (S (length m))) 0] (frame_mem (msg_mem m) VUndef ve))).
  Lemma ec_lnum_entry D a0 a1 a2 a3 m : callx ext cprog fuel (S D) F_ec_lnum [a0; a1; a2; a3] m = ec_lnum_run D a0 a1 a2 a3 m VUndef.
  Proof.
    rewrite callx_S. change (nth_error cprog F_ec_lnum) with (Some cf_ec_lnum). cbv beta iota.
    change (fn_nparams cf_ec_lnum) with 4%nat. change (fn_nlocals cf_ec_lnum) with 7%nat. rewrite ec_lnum_shape.
    cbn [length Nat.eqb Nat.sub repeat app]. rewrite exec_seq, exec_expr. xcbn. rewrite malloc_ok by lia. xcbn.
    rewrite exec_seq, exec_seq, exec_expr. xcbn. rewrite malloc_ok by lia. xcbn. rewrite exec_expr. xcbn. rewrite malloc_ok by lia. xcbn.
    change (repeat VUndef (Z.to_nat 1)) with [VUndef]. change (Z.to_nat 128) with 128%nat.
    unfold ec_lnum_run, frame_mem, msg_mem. rewrite !app_length. cbn [length]. rewrite !Nat.add_1_r. reflexivity.
  Qed.
  (* =: ex_region, ex_zero (fix 6c95ca8), then sprintf(msg, "%d\n", end) with the model's number (the model prints ONum end) and ex_print(msg) on the memory
     sprintf left, with the same buffer *)
  Theorem tr_ec_lnum rvalid rfind (st : ExDefs.st) m bs bl s gbufs lblk e0 d vcmd varg vtxt :
    cmd_pre m st bs bl s gbufs lblk -> G_xrow <> bs -> G_xrow <> bl -> zero_linked ext -> iok e0 -> (2 * S (length s) <= fuel)%nat ->
    let M := ExDefs.ec_lnum rvalid rfind s st in
    let R := ExDefs.ex_region rvalid rfind s st in
    let bmsg := length m in let bb := S (length m) in let be := S (S (length m)) in let D := S (S (S (S d))) in
    exists m1, callx ext cprog fuel D F_ex_region [VPtr bs 0; VPtr bb 0; VPtr be 0] (frame_mem (msg_mem m) VUndef (VInt e0))
               = Ok (VInt (b2z (fst (fst (fst R)))), m1) /\
      cell_at m1 G_xrow (ExDefs.xrow (fst M)) /\ ExDefs.lb (fst M) = ExDefs.lb st /\
      (snd M <> 0 -> ec_lnum_run D (VPtr bs 0) vcmd varg vtxt m (VInt e0) = Ok (VInt (snd M), m1) /\ snd M = 1 /\ ExDefs.out (fst M) = ExDefs.out st) /\
      (snd M = 0 -> ExDefs.out (fst M) = ExDefs.ONum (snd (fst R)) :: ExDefs.out st /\ forall u m2 u' m3,
         ext X_sprintf [VPtr bmsg 0; VPtr G_lit_25640a_3 0; VInt (snd (fst R))] m1 = Ok (u, m2) ->
         ext X_ex_print [VPtr bmsg 0] m2 = Ok (u', m3) ->
         ec_lnum_run D (VPtr bs 0) vcmd varg vtxt m (VInt e0) = Ok (VInt 0, m3)).
  Proof.
    intros Hpre Nbs Nbl Hz He0 Hf M R bmsg bb be D. subst D.
    pose proof (pre_le _ _ _ _ _ _ _ _ (mem_le_app m (repeat VUndef 128)) Hpre) as Pm. fold (msg_mem m) in Pm.
    assert (Lm : length (msg_mem m) = S (length m)) by (unfold msg_mem; rewrite app_length; cbn; lia).
    destruct (final_region rvalid rfind st (msg_mem m) bs bl s gbufs lblk e0 d Pm Nbs Nbl He0 Hf) as (m1 & AR). rewrite Lm in AR.
    exists m1. split; [exact (ar_call _ _ _ _ _ _ _ _ _ _ AR)|].
    pose proof (pre_le _ _ _ _ _ _ _ _ (mem_le_frame (msg_mem m) VUndef (VInt e0)) Pm) as Pf.
    pose proof (final_dist st (msg_mem m) bs bl s gbufs lblk Pm Nbs Nbl) as Hdist. rewrite Lm in Hdist.
    pose proof (frame_beg (msg_mem m) VUndef (VInt e0)) as Hbeg. pose proof (frame_end (msg_mem m) VUndef (VInt e0)) as Hend. rewrite Lm in Hbeg, Hend.
    assert (El : ExDefs.lb (snd R) = ExDefs.lb st) by (unfold R; rewrite (ar_st _ _ _ _ _ _ _ _ _ _ AR); reflexivity).
    assert (Eo : ExDefs.out (snd R) = ExDefs.out st) by (unfold R; rewrite (ar_st _ _ _ _ _ _ _ _ _ _ AR); reflexivity).
    pose proof (ar_xrow _ _ _ _ _ _ _ _ _ _ AR) as Hx1. pose proof (ar_end _ _ _ _ _ _ _ _ _ _ AR) as He1. pose proof (ar_ie _ _ _ _ _ _ _ _ _ _ AR) as Ie1.
    set (L := [VPtr bs 0; vcmd; varg; vtxt; VPtr bmsg 0; VPtr bb 0; VPtr be 0]).
    pose proof (exec_guard_rz_gen rvalid rfind st _ bs bl s gbufs lblk bb be VUndef e0 d Pf Hbeg Hend Hdist Hf Hz m1 AR 5 6 L eq_refl eq_refl eq_refl) as Hg.
    unfold M, ExDefs.ec_lnum, ec_lnum_run. fold R.
    change (mkst [VPtr bs 0; vcmd; varg; vtxt; VPtr (length m) 0; VPtr (S (length m)) 0; VPtr (S (S (length m))) 0] (frame_mem (msg_mem m) VUndef (VInt e0)))
      with (mkst L (frame_mem (msg_mem m) VUndef (VInt e0))).
    unfold lnum_rest. rewrite exec_seq, Hg. fold R in Hx1, He1, Ie1 |- *.
    destruct R as [[[bad0 b1] e1] s0] eqn:ER. cbn [fst snd] in *.
    destruct (bad0 || ExDefs.ex_zero s b1 e1) eqn:G; cbn [fst snd run_of].
    - split; [exact Hx1|]. split; [exact El|]. split; [|intro H; discriminate H]. intros _. split; [reflexivity|]. split; [reflexivity|exact Eo].
    - split; [exact Hx1|]. split; [exact El|]. split; [intro H; exfalso; apply H; reflexivity|]. intros _.
      split; [cbn [ExDefs.out ExDefs.emit]; rewrite Eo; reflexivity|]. intros u m2 u' m3 Hsp Hpr.
      rewrite exec_seq, exec_expr. cbn [eval]. rewrite (get_local_ok0 L m1 4 (VPtr bmsg 0) eq_refl) by discriminate. cbn [bind].
      rewrite (pure_ld (callx ext cprog fuel (S (S (S (S d))))) 6 L m1 be e1 eq_refl He1 Ie1). cbn [bind memm locals].
      rewrite (cx_ext ext fuel _ _ _ _ x_sprintf_none), Hsp. cbn [bind memm locals].
      rewrite exec_seq, exec_expr. cbn [eval]. rewrite (get_local_ok0 L m2 4 (VPtr bmsg 0) eq_refl) by discriminate. cbn [bind memm locals].
      rewrite (cx_ext ext fuel _ _ _ _ x_ex_print_none), Hpr. cbn [bind memm locals].
      unfold ret0. rewrite exec_return. reflexivity.
  Qed.
End Cmds.

(* ------------------------------------------------------------------ a memory and a table oracle to RUN the commands on *)
(* the program's globals with xrow set and bufs[0].lb pointing to a struct lbuf of `lines` lines without marks (TrExAddr.lbuf_blk), then
   the strings loc, cmd, arg in blocks of their own: bl = length cglobals, loc in bl + 1, cmd in bl + 2, arg in bl + 3 *)
Definition cmd_mem (lines xrow : Z) (addr cmd arg : list Z) : mem :=
  upd (upd cglobals G_xrow [VInt xrow]) G_bufs (upd gb_bufs BUFS_LB (VPtr (length cglobals) 0))
  ++ [lbuf_blk lines; cstr_block addr; cstr_block cmd; cstr_block arg].
(* an oracle that answers from a table and LOGS every call: it appends the block (tag :: arguments) to the memory; tags: 1 lbuf_cp (which
   also allocates the string cp it returns), 2 reg_put, 3 lbuf_edit (which sets ln_n to newlen), 4 ex_print, 5 sprintf; ex_zero is linked *)
Definition log_ext (newlen : Z) (cp : list Z) (f : nat) (args : list val) (m : mem) : res (val * mem) :=
  if Nat.eqb f X_ex_zero then callf cprog 0 1 F_ex_zero args m
  else if Nat.eqb f X_lbuf_cp then Ok (VPtr (S (length m)) 0, m ++ [VInt 1 :: args; cstr_block cp])
  else if Nat.eqb f X_reg_put then Ok (VUndef, m ++ [VInt 2 :: args])
  else if Nat.eqb f X_lbuf_edit then
    match nth_error m (length cglobals) with
    | Some blk => Ok (VUndef, upd m (length cglobals) (upd blk L_ln_n (VInt newlen)) ++ [VInt 3 :: args])
    | None => Err EOob
    end
  else if Nat.eqb f X_ex_print then Ok (VUndef, m ++ [VInt 4 :: args])
  else if Nat.eqb f X_sprintf then Ok (VInt 0, m ++ [VInt 5 :: args])
  else Err EShape.
(* the log: the blocks of two cells or more appended behind the first `from` blocks (the cells of locals are blocks of one cell, a freed block is empty) *)
Definition log_of (m : mem) (from : nat) : list block := filter (fun blk => (2 <=? length blk)%nat) (skipn from m).
Definition show (r : res (val * mem)) (from : nat) : option (val * option block * list block) :=
  match r with Ok (v, m') => Some (v, nth_error m' G_xrow, log_of m' from) | Err _ => None end.

(* `2,3d` on five lines, current line 0: lbuf_cp(xb, 1, 3), reg_put(0, buf, 1), [free(buf)], lbuf_edit(xb, NULL, 1, 3), xrow = 1, return 0.
   `%d`: lbuf_edit(xb, NULL, 0, 5), the buffer is empty afterwards, xrow = MAX(0, MIN(0, -1)) = 0.
   `4,5d` deletes through the last line: xrow = the new last line 2 (fix 9481b21).  `0d`: address 0 is refused (fix 6c95ca8), nothing is called.
   The call of the function itself on `%d` runs (the "%" path of ex_region does not read *end); on `2,3d` it is EUndef (see above). *)
Lemma run_delete_examples :
  let bl := length cglobals in
  let run e0 newlen cp addr := show (ec_delete_run (log_ext newlen cp) 100 10 (VPtr (S bl) 0) (VPtr (S (S bl)) 0) (VPtr (S (S (S bl))) 0) (VInt 0)
                                     (cmd_mem 5 0 addr [100] []) (VInt e0)) (bl + 6) in
  run 0 3 [98; 10; 99; 10] [50; 44; 51]
  = Some (VInt 0, Some [VInt 1], [[VInt 1; VPtr bl 0; VInt 1; VInt 3]; [VInt 2; VInt 0; VPtr (bl + 10) 0; VInt 1]; [VInt 3; VPtr bl 0; VInt 0; VInt 1; VInt 3]]) /\
  run 77 3 [98; 10; 99; 10] [50; 44; 51] = run 0 3 [98; 10; 99; 10] [50; 44; 51] /\
  run 0 0 [97; 10] [37]
  = Some (VInt 0, Some [VInt 0], [[VInt 1; VPtr bl 0; VInt 0; VInt 5]; [VInt 2; VInt 0; VPtr (bl + 8) 0; VInt 1]; [VInt 3; VPtr bl 0; VInt 0; VInt 0; VInt 5]]) /\
  run 0 3 [100; 10; 101; 10] [52; 44; 53]
  = Some (VInt 0, Some [VInt 2], [[VInt 1; VPtr bl 0; VInt 3; VInt 5]; [VInt 2; VInt 0; VPtr (bl + 10) 0; VInt 1]; [VInt 3; VPtr bl 0; VInt 0; VInt 3; VInt 5]]) /\
  run 0 5 [] [48] = Some (VInt 1, Some [VInt 0], []) /\
  show (callx (log_ext 0 [97; 10]) cprog 100 11 F_ec_delete [VPtr (S bl) 0; VPtr (S (S bl)) 0; VPtr (S (S (S bl))) 0; VInt 0] (cmd_mem 5 0 [37] [100] [])) (bl + 6)
  = run 0 0 [97; 10] [37] /\
  callx (log_ext 3 []) cprog 100 11 F_ec_delete [VPtr (S bl) 0; VPtr (S (S bl)) 0; VPtr (S (S (S bl))) 0; VInt 0] (cmd_mem 5 0 [50; 44; 51] [100] []) = Err EUndef.
Proof. vm_compute. repeat split; reflexivity. Qed.

(* the hypotheses of the command theorems are satisfiable: the memory above represents the five-line state st0 (no marks, current line 0), for
   every address string the examples use; log_ext is linked with ex_zero *)
Definition st5 : ExDefs.st :=
  ExDefs.mkst (ExDefs.mklb (ExDefs.number_lines [[97]; [98]; [99]; [100]; [101]]%N 0) (repeat (-1, None) ExDefs.NMARKS) [] 0 1 0 0 5) 0 [] [] 0 [] [] false true 0 None 0%N.
Lemma marks_rep_blk5 : marks_rep (lbuf_blk 5) (ExDefs.marks (ExDefs.lb st5)).
Proof. split; [vm_compute; reflexivity|]. intros k Hk. do 32 (destruct k as [|k]; [vm_compute; reflexivity|]). lia. Qed.
Lemma marks_ints_blk5 : marks_ints (lbuf_blk 5).
Proof. intros j Hj. do 64 (destruct j as [|j]; [eexists; split; [reflexivity|unfold i32; lia]|]). lia. Qed.
Lemma cmd_pre_example cmd arg :
  let bl := length cglobals in
  Forall (fun a : bytes => cmd_pre (cmd_mem 5 0 (map Z.of_N a) cmd arg) st5 (S bl) bl a (upd gb_bufs BUFS_LB (VPtr bl 0)) (lbuf_blk 5))
         [[50; 44; 51]; [37]; [52; 44; 53]; [48]; []; [36]]%N /\
  (forall n cp, zero_linked (log_ext n cp)) /\ G_xrow <> S bl /\ G_xrow <> bl.
Proof.
  cbv zeta. split; [|split; [intros n cp args mm; reflexivity|split; vm_compute; discriminate]].
  repeat (apply Forall_cons; [constructor;
    [vm_compute; reflexivity | repeat constructor; cbv; intuition discriminate | repeat constructor; intro H; discriminate H
    | vm_compute; reflexivity | vm_compute; reflexivity | vm_compute; reflexivity | vm_compute; reflexivity | vm_compute; reflexivity
    | exact marks_ints_blk5 | exact marks_rep_blk5 | vm_compute; reflexivity | vm_compute; split; discriminate | vm_compute; split; discriminate
    | vm_compute; discriminate | vm_compute; intuition discriminate ]|]).
  apply Forall_nil.
Qed.

(* a / i / c run: `0a` on five lines inserts BEFORE the first line: lbuf_edit(xb, txt, 0, 0), xrow = 0 (fix e93d764); `2a`: lbuf_edit(xb, txt, 2, 2),
   xrow = 2; `2,3c` with one line of text: lbuf_edit(xb, txt, 1, 3), xrow = 1; `2i`: lbuf_edit(xb, txt, 1, 1); `a` with an empty text block on the
   empty buffer: lbuf_edit(xb, txt, 0, 0), xrow = 0, not -1 (fix 7b90d84); `7a` on five lines: rejected, no call.  txt is passed as it came. *)
Lemma run_insert_examples :
  let bl := length cglobals in
  let txt := VPtr (S (S (S bl))) 0 in
  let run lines newlen addr c := show (ec_insert_run (log_ext newlen []) 100 10 (VPtr (S bl) 0) (VPtr (S (S bl)) 0) (VInt 0) txt
                                        (cmd_mem lines 0 addr [c] [120; 10]) (VInt 0)) (bl + 6) in
  run 5 6 [48] 97 = Some (VInt 0, Some [VInt 0], [[VInt 3; VPtr bl 0; txt; VInt 0; VInt 0]]) /\
  run 5 6 [50] 97 = Some (VInt 0, Some [VInt 2], [[VInt 3; VPtr bl 0; txt; VInt 2; VInt 2]]) /\
  run 5 4 [50; 44; 51] 99 = Some (VInt 0, Some [VInt 1], [[VInt 3; VPtr bl 0; txt; VInt 1; VInt 3]]) /\
  run 5 6 [50] 105 = Some (VInt 0, Some [VInt 1], [[VInt 3; VPtr bl 0; txt; VInt 1; VInt 1]]) /\
  run 0 0 [] 97 = Some (VInt 0, Some [VInt 0], [[VInt 3; VPtr bl 0; txt; VInt 0; VInt 0]]) /\
  run 0 1 [48] 97 = Some (VInt 0, Some [VInt 0], [[VInt 3; VPtr bl 0; txt; VInt 0; VInt 0]]) /\
  run 5 5 [55] 97 = Some (VInt 1, Some [VInt 0], []).
Proof. vm_compute. repeat split; reflexivity. Qed.

(* a memory with the table of line pointers: cmd_mem with lb->ln = block bl + 4 = [&"a\n"; &"b\n"; &"c\n"; &"d\n"; &"e\n"], the lines in bl + 5 .. bl + 9 *)
Definition print_mem (xrow : Z) (addr cmd arg : list Z) : mem :=
  let bl := length cglobals in
  upd (upd cglobals G_xrow [VInt xrow]) G_bufs (upd gb_bufs BUFS_LB (VPtr bl 0))
  ++ [upd (lbuf_blk 5) L_ln (VPtr (bl + 4) 0); cstr_block addr; cstr_block cmd; cstr_block arg;
      [VPtr (bl + 5) 0; VPtr (bl + 6) 0; VPtr (bl + 7) 0; VPtr (bl + 8) 0; VPtr (bl + 9) 0];
      cstr_block [97; 10]; cstr_block [98; 10]; cstr_block [99; 10]; cstr_block [100; 10]; cstr_block [101; 10]].
(* `2,4p`: ex_print(lb->ln[1]), ex_print(lb->ln[2]), ex_print(lb->ln[3]) in this order, xrow = 3, xoff = 0; `$p`; `0p`: 1, nothing printed (fix 6c95ca8);
   the address-less print with the current line behind the buffer: 1.  The null command (the call itself, ex mode): `%`: the current line goes down, then all
   five rows are printed, xrow = 4; without address: the next line is printed, xrow = 1.  `3=`: sprintf(msg, "%d\n", 3), ex_print(msg).
   `3ka`: mark[0] of the struct lbuf = 2, and the mark's column 0. *)
Lemma run_print_examples :
  let bl := length cglobals in
  let args := [VPtr (S bl) 0; VPtr (S (S bl)) 0; VPtr (S (S (S bl))) 0; VInt 0] in
  let run xr addr cmd := show (ec_print_run (log_ext 5 []) 100 10 (VPtr (S bl) 0) (VPtr (S (S bl)) 0) (VPtr (S (S (S bl))) 0) (VInt 0) (print_mem xr addr cmd []) (VInt 0)) (bl + 12) in
  run 0 [50; 44; 52] [112] = Some (VInt 0, Some [VInt 3], [[VInt 4; VPtr (bl + 6) 0]; [VInt 4; VPtr (bl + 7) 0]; [VInt 4; VPtr (bl + 8) 0]]) /\
  run 0 [36] [112] = Some (VInt 0, Some [VInt 4], [[VInt 4; VPtr (bl + 9) 0]]) /\
  run 0 [48] [112] = Some (VInt 1, Some [VInt 0], []) /\
  run 5 [] [] = Some (VInt 1, Some [VInt 5], []) /\
  run 2 [] [] = Some (VInt 0, Some [VInt 2], [[VInt 4; VPtr (bl + 7) 0]]) /\
  show (callx (log_ext 5 []) cprog 100 12 F_ec_null args (print_mem 0 [37] [] [])) (bl + 14)
  = Some (VInt 0, Some [VInt 4], [[VInt 4; VPtr (bl + 5) 0]; [VInt 4; VPtr (bl + 6) 0]; [VInt 4; VPtr (bl + 7) 0]; [VInt 4; VPtr (bl + 8) 0]; [VInt 4; VPtr (bl + 9) 0]]) /\
  show (callx (log_ext 5 []) cprog 100 12 F_ec_null args (print_mem 0 [] [] [])) (bl + 14) = Some (VInt 0, Some [VInt 1], [[VInt 4; VPtr (bl + 6) 0]]) /\
  show (callx (log_ext 5 []) cprog 100 12 F_ec_null args (print_mem 4 [] [] [])) (bl + 14) = Some (VInt 0, Some [VInt 4], [[VInt 4; VPtr (bl + 9) 0]]) /\
  show (ec_lnum_run (log_ext 5 []) 100 10 (VPtr (S bl) 0) (VPtr (S (S bl)) 0) (VPtr (S (S (S bl))) 0) (VInt 0) (print_mem 0 [51] [61] []) (VInt 0)) (bl + 13)
  = Some (VInt 0, Some [VInt 0], [[VInt 5; VPtr (bl + 10) 0; VPtr G_lit_25640a_3 0; VInt 3]; [VInt 4; VPtr (bl + 10) 0]]) /\
  match ec_mark_run (log_ext 5 []) 100 10 (VPtr (S bl) 0) (VPtr (S (S bl)) 0) (VPtr (S (S (S bl))) 0) (VInt 0) (print_mem 0 [51] [107] [97]) (VInt 0) with
  | Ok (v, m') => Some (v, option_map (fun blk => (nth 0 blk VUndef, nth 32 blk VUndef, nth 1 blk VUndef)) (nth_error m' bl))
  | Err _ => None
  end = Some (VInt 0, Some (VInt 2, VInt 0, VInt (-1))).
Proof. vm_compute. repeat split; reflexivity. Qed.
