(* TermOutProps.v -- the scroll region of the emulator (TermEmu.v) under the strings term.c writes
   (TermOutDefs.v): term_window sets it to the requested rows, term_done resets it to the whole screen, and after
   term_done; term_init it equals the editor's copy again exactly when the window sequence is written again.
   A line feed on the bottom text row scrolls the text rows iff the region's bottom is that row. *)
From Coq Require Import List NArith ZArith Bool Arith Lia ZifyBool ZifyNat ZifyN.
From NV Require Import Bytes TermEmu TermOutDefs.
Import ListNotations.
Ltac Zify.zify_post_hook ::= Z.div_mod_to_equations.

(* ------------------------------------------------------------------ run *)
Lemma run_app t a b : run t (a ++ b) = run (run t a) b.
Proof. unfold run. apply fold_left_app. Qed.
Lemma run_cons t x a : run t (x :: a) = run (feed t x) a.
Proof. reflexivity. Qed.
Lemma run_nil t : run t [] = t.
Proof. reflexivity. Qed.

(* ------------------------------------------------------------------ sprintf("%d") read back by the CSI parser *)
Definition csi_step (cur : option N) (b : N) : option N :=
  Some (match cur with Some v => v * 10 + (b - 48) | None => b - 48 end)%N.
Definition csi_num (cur : option N) (ds : list N) : option N := fold_left csi_step ds cur.

Lemma dec_aux_spec : forall f n, n < f ->
  Forall (fun b => is_digit b = true) (dec_aux f n) /\ csi_num None (dec_aux f n) = Some (N.of_nat n).
Proof.
  induction f as [|f IH]; intros n Hn; [lia|].
  cbn [dec_aux]. destruct (n <? 10) eqn:E.
  - apply Nat.ltb_lt in E. split.
    + constructor; [|constructor]. unfold is_digit. lia.
    + unfold csi_num, csi_step. cbn [fold_left]. f_equal. lia.
  - apply Nat.ltb_ge in E.
    assert (Hd : n / 10 < f).
    { assert (n / 10 < n) by (apply Nat.div_lt; lia). lia. }
    destruct (IH _ Hd) as [F1 F2]. split.
    + apply Forall_app. split; [exact F1|]. constructor; [|constructor].
      unfold is_digit. assert (n mod 10 < 10) by (apply Nat.mod_upper_bound; lia). lia.
    + unfold csi_num in *. rewrite fold_left_app, F2. cbn [fold_left]. unfold csi_step. f_equal.
      assert (n mod 10 < 10) by (apply Nat.mod_upper_bound; lia).
      pose proof (Nat.div_mod n 10). lia.
Qed.
Lemma dec_spec n : Forall (fun b => is_digit b = true) (dec n) /\ csi_num None (dec n) = Some (N.of_nat n).
Proof. apply dec_aux_spec. lia. Qed.

(* ------------------------------------------------------------------ the parser, byte by byte *)
Lemma st_with_st t s : t_st (with_st t s) = s.
Proof. reflexivity. Qed.
Lemma with_st_with_st t a b : with_st (with_st t a) b = with_st t b.
Proof. reflexivity. Qed.

Lemma feed_ground_esc t : t_st t = Ground -> feed t 27 = with_st t Esc.
Proof. intros H. unfold feed. rewrite H. reflexivity. Qed.
Lemma feed_esc_bracket t : t_st t = Esc -> feed t 91 = with_st t (Csi [] None).
Proof. intros H. unfold feed. rewrite H. reflexivity. Qed.
Lemma feed_csi_digit t done cur b : t_st t = Csi done cur -> is_digit b = true ->
  feed t b = with_st t (Csi done (csi_step cur b)).
Proof. intros H D. unfold feed. rewrite H, D. reflexivity. Qed.
Lemma feed_csi_semi t done cur : t_st t = Csi done cur -> feed t 59 = with_st t (Csi (cur :: done) None).
Proof. intros H. unfold feed. rewrite H. reflexivity. Qed.
Lemma feed_csi_final t done cur b : t_st t = Csi done cur -> is_digit b = false -> (b =? 59)%N = false ->
  ((64 <=? b) && (b <=? 126))%N = true -> feed t b = csi_final t (rev (cur :: done)) b.
Proof. intros H D S F. unfold feed. rewrite H, D, S, F. reflexivity. Qed.

Lemma run_digits : forall ds t done cur, t_st t = Csi done cur -> Forall (fun b => is_digit b = true) ds ->
  run t ds = with_st t (Csi done (csi_num cur ds)).
Proof.
  induction ds as [|d ds IH]; intros t done cur H F.
  - cbn. destruct t; cbn in *; subst; reflexivity.
  - inversion F; subst. rewrite run_cons, (feed_csi_digit _ _ _ _ H) by assumption.
    rewrite (IH _ done (csi_step cur d)) by (reflexivity || assumption).
    rewrite with_st_with_st. reflexivity.
Qed.

(* csi_final never looks at the parser state of its argument *)
Lemma csi_final_st t s ps b : csi_final (with_st t s) ps b = csi_final t ps b.
Proof. reflexivity. Qed.

(* "\33[" n ";" m <final> *)
Lemma run_csi2 t n m fin : t_st t = Ground -> is_digit fin = false -> (fin =? 59)%N = false ->
  ((64 <=? fin) && (fin <=? 126))%N = true ->
  run t (CSI ++ dec n ++ [59]%N ++ dec m ++ [fin]) = csi_final t [Some (N.of_nat n); Some (N.of_nat m)] fin.
Proof.
  intros G D S F. destruct (dec_spec n) as [Fn Vn]. destruct (dec_spec m) as [Fm Vm].
  unfold CSI. cbn [app]. rewrite run_cons, (feed_ground_esc _ G).
  rewrite run_cons, feed_esc_bracket by reflexivity. rewrite with_st_with_st.
  rewrite run_app, (run_digits (dec n) _ [] None) by (reflexivity || assumption). rewrite with_st_with_st, Vn.
  cbn [app]. rewrite run_cons, (feed_csi_semi _ [] (Some (N.of_nat n))) by reflexivity. rewrite with_st_with_st.
  rewrite run_app, (run_digits (dec m) _ [Some (N.of_nat n)] None) by (reflexivity || assumption). rewrite with_st_with_st, Vm.
  rewrite run_cons, run_nil.
  rewrite (feed_csi_final _ [Some (N.of_nat n)] (Some (N.of_nat m))) by (reflexivity || assumption).
  rewrite csi_final_st. reflexivity.
Qed.
(* "\33[" <final> *)
Lemma run_csi0 t fin : t_st t = Ground -> is_digit fin = false -> (fin =? 59)%N = false ->
  ((64 <=? fin) && (fin <=? 126))%N = true ->
  run t (CSI ++ [fin]) = csi_final t [None] fin.
Proof.
  intros G D S F. unfold CSI. cbn [app]. rewrite run_cons, (feed_ground_esc _ G).
  rewrite run_cons, feed_esc_bracket by reflexivity. rewrite with_st_with_st.
  rewrite run_cons, run_nil. rewrite (feed_csi_final _ [] None) by (reflexivity || assumption).
  rewrite csi_final_st. reflexivity.
Qed.

(* ------------------------------------------------------------------ the single sequences *)
(* DECSTBM with two parameters: a region of at least two lines inside the screen is taken, the cursor goes home *)
Lemma emu_stbm2 t top bot : t_st t = Ground -> S top < bot -> bot <= t_rows t ->
  run t (CSI ++ dec (top + 1) ++ [59]%N ++ dec bot ++ [114]%N) = upd t (t_cells t) 0 0 top bot Ground (t_err t).
Proof.
  intros G H1 H2. rewrite run_csi2 by (assumption || reflexivity).
  unfold csi_final. cbn [N.eqb Pos.eqb]. unfold par1, par. cbn [nth]. rewrite !Nat2N.id.
  replace (Nat.max 1 (top + 1) - 1) with top by lia.
  replace (bot =? 0) with false by lia.
  replace ((S top <? bot) && (bot <=? t_rows t)) with true by lia. reflexivity.
Qed.
(* a one-line region is ignored (nothing changes) *)
Lemma emu_stbm2_one_line t top : t_st t = Ground -> S top <= t_rows t ->
  run t (CSI ++ dec (top + 1) ++ [59]%N ++ dec (S top) ++ [114]%N) = t.
Proof.
  intros G H2. rewrite run_csi2 by (assumption || reflexivity).
  unfold csi_final. cbn [N.eqb Pos.eqb]. unfold par1, par. cbn [nth]. rewrite !Nat2N.id.
  replace (Nat.max 1 (top + 1) - 1) with top by lia.
  replace (S top =? 0) with false by lia.
  replace ((S top <? S top) && (S top <=? t_rows t)) with false by lia.
  replace ((S top =? S top) && (S top <=? t_rows t)) with true by lia.
  destruct t; cbn in *; subst; reflexivity.
Qed.
(* DECSTBM without parameters: the whole screen *)
Lemma emu_stbm0 t : t_st t = Ground -> 2 <= t_rows t ->
  run t term_region_reset_out = upd t (t_cells t) 0 0 0 (t_rows t) Ground (t_err t).
Proof.
  intros G H. unfold term_region_reset_out. rewrite run_csi0 by (assumption || reflexivity).
  unfold csi_final. cbn [N.eqb Pos.eqb]. unfold par1, par. cbn [nth].
  replace (Nat.max 1 1 - 1) with 0 by lia.
  replace (t_rows t =? 0) with false by lia.
  replace ((1 <? t_rows t) && (t_rows t <=? t_rows t)) with true by lia. reflexivity.
Qed.
(* CUP, EL, SGR leave the region, the size and the error count alone and end in the ground state *)
Definition same_region (t t' : term) : Prop :=
  t_top t' = t_top t /\ t_bot t' = t_bot t /\ t_rows t' = t_rows t /\ t_cols t' = t_cols t /\ t_err t' = t_err t /\ t_st t' = Ground.
Lemma same_region_trans a b c : same_region a b -> same_region b c -> same_region a c.
Proof. unfold same_region. intuition congruence. Qed.
Lemma emu_pos t beg r c : t_st t = Ground -> same_region t (run t (term_pos_out beg r c)).
Proof.
  intros G. unfold term_pos_out. rewrite run_csi2 by (assumption || reflexivity).
  unfold csi_final. cbn [N.eqb Pos.eqb]. unfold same_region. cbn. repeat split; assumption || reflexivity.
Qed.
Lemma emu_pos_cursor t beg r c : t_st t = Ground -> beg + r < t_rows t -> c < t_cols t ->
  let t' := run t (term_pos_out beg r c) in t_r t' = beg + r /\ t_c t' = c /\ t_cells t' = t_cells t.
Proof.
  intros G Hr Hc. unfold term_pos_out. rewrite run_csi2 by (assumption || reflexivity).
  unfold csi_final. cbn [N.eqb Pos.eqb]. unfold par1, par. cbn [nth]. rewrite !Nat2N.id. unfold with_cur, upd. cbn [t_r t_c t_cells]. repeat split; try reflexivity; lia.
Qed.
Lemma emu_kill t : t_st t = Ground -> same_region t (run t term_kill_out).
Proof.
  intros G. unfold term_kill_out. rewrite run_csi0 by (assumption || reflexivity).
  unfold csi_final. cbn [N.eqb Pos.eqb]. unfold par. cbn [nth Nat.eqb]. unfold same_region. cbn. repeat split; reflexivity.
Qed.
Lemma emu_sgr0 t : t_st t = Ground -> same_region t (run t term_sgr0_out) /\ t_cells (run t term_sgr0_out) = t_cells t.
Proof.
  intros G. unfold term_sgr0_out. rewrite run_csi0 by (assumption || reflexivity).
  unfold csi_final. cbn [N.eqb Pos.eqb]. unfold same_region. cbn. repeat split; reflexivity.
Qed.

(* ------------------------------------------------------------------ term_window, term_done, term_init *)
(* term_window(beg, cnt), a window of at least two rows inside the screen: the emulator's region becomes exactly
   [beg, beg + cnt), nothing else changes but the cursor (home) *)
Lemma emu_term_window t rows beg cnt : t_st t = Ground -> t_rows t = rows -> 2 <= cnt -> beg + cnt <= rows ->
  run t (term_window_out rows beg cnt) = upd t (t_cells t) 0 0 beg (beg + cnt) Ground (t_err t).
Proof.
  intros G R H1 H2. unfold term_window_out. destruct ((beg =? 0) && (cnt =? rows)) eqn:E.
  - assert (beg = 0 /\ cnt = rows) as [-> ->] by lia.
    fold term_region_reset_out. rewrite emu_stbm0 by (assumption || lia). rewrite R. reflexivity.
  - apply emu_stbm2; assumption || lia.
Qed.

(* term_done: whatever the region was, it is the whole screen afterwards *)
Lemma emu_term_done t rows w : t_st t = Ground -> t_rows t = rows -> 2 <= rows ->
  let t' := run t (term_done rows w) in
  t_top t' = 0 /\ t_bot t' = rows /\ t_rows t' = rows /\ t_cols t' = t_cols t /\ t_err t' = t_err t /\ t_st t' = Ground.
Proof.
  intros G R H. unfold term_done. rewrite !run_app. rewrite emu_stbm0 by (assumption || lia).
  set (t1 := upd t (t_cells t) 0 0 0 (t_rows t) Ground (t_err t)).
  assert (G1 : t_st t1 = Ground) by reflexivity.
  pose proof (emu_pos t1 (win_beg w) (rows - 1) 0 G1) as P.
  assert (G2 : t_st (run t1 (term_pos_out (win_beg w) (rows - 1) 0)) = Ground) by apply P.
  pose proof (emu_kill _ G2) as K.
  destruct (same_region_trans _ _ _ P K) as (A & B & C & D & E & F).
  cbv zeta. rewrite A, B, C, D, E, F. subst t1. cbn. rewrite R. repeat split; reflexivity.
Qed.

(* term_done; term_init (what ^L and cmd_pipe write) with the editor's copy w = a window of at least two rows:
   the emulator's region equals the copy again IF AND ONLY IF term_init's term_window writes its sequence --
   or the copy is the whole screen anyway.  In particular with the text rows [0, rows - 1) of a single window
   the variant that trusts the copy leaves the region at the whole screen. *)
Lemma emu_reinit t rows w (cached : bool) :
  t_st t = Ground -> t_rows t = rows -> 2 <= win_rows w -> win_beg w + win_rows w <= rows ->
  let '(w', o) := reinit_out cached rows w in
  let t' := run t o in
  w' = w /\ t_st t' = Ground /\ t_err t' = t_err t /\ t_rows t' = rows /\
  (region_agrees t' w' = true <-> cached = false \/ (win_beg w = 0 /\ win_rows w = rows)).
Proof.
  intros G R H1 H2. destruct w as [beg cnt]. cbn [win_beg win_rows] in *.
  pose proof (emu_term_done t rows (mkTwin beg cnt) G R ltac:(lia)) as D. cbv zeta in D.
  destruct D as (D1 & D2 & D3 & D4 & D5 & D6).
  set (t1 := run t (term_done rows (mkTwin beg cnt))) in *.
  destruct (emu_sgr0 t1 D6) as [(S1 & S2 & S3 & S4 & S5 & S6) _].
  set (t2 := run t1 term_sgr0_out) in *.
  destruct cached; unfold reinit_out, term_init_cached, term_init, term_init_with, term_window_cached, term_window;
    cbn [win_beg win_rows]; replace (0 <? cnt) with true by lia; rewrite ?Nat.eqb_refl; cbn [andb].
  - (* nothing more is written *)
    rewrite app_nil_r, run_app. fold t1. fold t2.
    repeat split; try congruence.
    + unfold region_agrees. cbn [win_beg win_rows]. rewrite S1, S2, D1, D2. intros E. right. lia.
    + unfold region_agrees. cbn [win_beg win_rows]. rewrite S1, S2, D1, D2. intros [E|[-> ->]]; [discriminate|]. lia.
  - rewrite !run_app. fold t1. fold t2.
    rewrite (emu_term_window t2 rows beg cnt) by (congruence || lia).
    unfold region_agrees, upd. cbn [t_st t_err t_rows t_top t_bot win_beg win_rows]. repeat split; try congruence.
    + intros _. left. reflexivity.
    + intros _. lia.
Qed.

(* ------------------------------------------------------------------ why the region matters: vi_nextline *)
(* a line feed with the cursor on row r: the rows of the region move up when r is the region's last row; when the
   region reaches one row further down the cursor just moves there and NO row changes *)
Lemma emu_linefeed_bottom t : t_st t = Ground -> S (t_r t) = t_bot t ->
  t_cells (feed t 10) = del_lines (blank_row (t_cols t)) (t_top t) (t_bot t) (t_top t) 1 (t_cells t) /\ t_r (feed t 10) = t_r t.
Proof.
  intros G H. unfold feed. rewrite G. cbn [N.eqb Pos.eqb]. unfold linefeed. rewrite H, Nat.eqb_refl. cbn. split; reflexivity.
Qed.
Lemma emu_linefeed_inside t : t_st t = Ground -> S (t_r t) < t_bot t -> t_bot t <= t_rows t ->
  t_cells (feed t 10) = t_cells t /\ t_r (feed t 10) = S (t_r t).
Proof.
  intros G H1 H2. unfold feed. rewrite G. cbn [N.eqb Pos.eqb]. unfold linefeed.
  replace (S (t_r t) =? t_bot t) with false by lia. replace (S (t_r t) <? t_rows t) with true by lia. cbn. split; reflexivity.
Qed.

(* vi_nextline() on the bottom text row h - 1 of a single window (rows = h + 1): with the region [0, h) the text rows
   scroll by one as the draw model's `nextline` says (del_lines 0 h 0 1); with the region [0, h + 1) nothing moves and
   the following term_pos puts the cursor back on row h - 1: the text rows are one line behind *)
Lemma emu_nextline_bottom t h (bot : nat) :
  t_st t = Ground -> t_rows t = S h -> 2 <= h -> 1 <= t_cols t -> t_top t = 0 -> t_bot t = bot -> t_r t = h - 1 ->
  (bot = h \/ bot = S h) ->
  let t' := run t (nextline_bottom_out (mkTwin 0 h)) in
  t_r t' = h - 1 /\ t_c t' = 0 /\
  t_cells t' = if bot =? h then del_lines (blank_row (t_cols t)) 0 h 0 1 (t_cells t) else t_cells t.
Proof.
  intros G R H C T B Rr Hb. unfold nextline_bottom_out. cbn [win_beg win_rows].
  rewrite run_app. change (run t [10%N]) with (feed t 10).
  assert (G1 : t_st (feed t 10) = Ground).
  { unfold feed. rewrite G. cbn [N.eqb Pos.eqb]. unfold linefeed. destruct (S (t_r t) =? t_bot t); [reflexivity|].
    destruct (S (t_r t) <? t_rows t); reflexivity. }
  assert (R1 : t_rows (feed t 10) = S h /\ t_cols (feed t 10) = t_cols t).
  { unfold feed. rewrite G. cbn [N.eqb Pos.eqb]. unfold linefeed. destruct (S (t_r t) =? t_bot t); [cbn; auto|].
    destruct (S (t_r t) <? t_rows t); cbn; auto. }
  destruct R1 as [R1 C1].
  pose proof (emu_pos_cursor (feed t 10) 0 (h - 1) 0 G1 ltac:(lia) ltac:(lia)) as P. cbv zeta in P.
  destruct P as (P1 & P2 & P3). cbv zeta. rewrite P1, P2, P3. split; [lia|]. split; [reflexivity|].
  destruct Hb as [-> | ->].
  - rewrite Nat.eqb_refl. destruct (emu_linefeed_bottom t G ltac:(lia)) as [L _]. rewrite L, T, B. reflexivity.
  - replace (S h =? h) with false by lia. destruct (emu_linefeed_inside t G ltac:(lia) ltac:(lia)) as [L _]. exact L.
Qed.

(* ------------------------------------------------------------------ DEL *)
(* a DEL byte between two sequences is ignored: the terminal is what it would be without it.  (So a renderer that
   sends a raw DEL for a character to which the column mapping gives one cell draws the rest of the row one cell
   too far left.) *)
Lemma emu_del_ignored t pre post : t_st (run t pre) = Ground -> run t (pre ++ 127%N :: post) = run t (pre ++ post).
Proof.
  intros G. rewrite !run_app, run_cons. f_equal. unfold feed. rewrite G. reflexivity.
Qed.
