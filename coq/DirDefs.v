(* DirDefs.v -- model of dir.c (C18; used by C17 through ren_position_reorder).
   Character indices are nat, directions and regex offsets are Z.  The pattern matcher
   (rset_find over the configured marks) is an argument: `raw beg end ctx flg` is the answer of
   rset_find for the substring chrs[beg]..chrs[end] (mark index and byte offsets of the groups);
   dir_match turns it into character spans exactly as the C function does, from the GENERATED
   dirmarks table.  dir_fix is parametric in the character-level matcher `cm`.
   Only definitions here. *)
From Coq Require Import List NArith ZArith Bool Arith.
From NV Require Import Bytes UcDefs GenConf GenConsts.
Import ListNotations.

Record mres := { r_beg : nat; r_end : nat; c_beg : nat; c_end : nat; c_dir : Z; c_rec : bool }.

(* dir.c: dir_reverse(ord, beg, end): reverse ord[beg..end) in place (nothing when beg >= end - 1) *)
Definition dir_reverse (ord : list nat) (b e : nat) : list nat :=
  if (b <? e)%nat then firstn b ord ++ rev (firstn (e - b) (skipn b ord)) ++ skipn e ord else ord.

(* dir.c: dir_fix.  The while loop and the recursion both consume fuel; None = out of fuel. *)
Section Fix.
Variable cm : nat -> nat -> Z -> option mres.       (* dir_match(chrs, beg, end, ctx, ...) *)

Fixpoint dir_fix (fuel : nat) (ord : list nat) (dir : Z) (b e : nat) : option (list nat) :=
  match fuel with
  | O => None
  | S f =>
    if (b <? e)%nat then
      match cm b e dir with
      | None => Some ord
      | Some m =>
        let ord1 := if (dir <? 0)%Z then dir_reverse ord (r_beg m) (r_end m) else ord in
        let ord2 := if (c_dir m <? 0)%Z then dir_reverse ord1 (c_beg m) (c_end m) else ord1 in
        let cb := if (c_beg m =? r_beg m)%nat then S (c_beg m) else c_beg m in
        match (if c_rec m then dir_fix f ord2 (c_dir m) cb (c_end m) else Some ord2) with
        | None => None
        | Some ord3 => dir_fix f ord3 dir (r_end m) e
        end
      end
    else Some ord
  end.
End Fix.

(* the answer of rset_find: index of the matching mark, byte offsets (relative to the substring) of
   the whole match and of the groups, -1 for an unset group *)
Definition rawres := (nat * list Z)%type.

Definition dm_flags (s : bytes) (chrs : list nat) (b e : nat) : Z :=
  ((if (b =? 0)%nat then 0 else RE_NOTBOL) + (if (nthb s (nth e chrs 0%nat) =? 0)%N then 0 else RE_NOTEOL))%Z.

(* dir.c: dir_match *)
Definition dir_match (s : bytes) (chrs : list nat) (raw : nat -> nat -> Z -> Z -> option rawres)
    (b e : nat) (ctx : Z) : option mres :=
  match raw b e ctx (dm_flags s chrs b e) with
  | None => None
  | Some (found, subs) =>
    match nth_error dirmarks found with
    | None => None                      (* conf_dirmark would fail; rset_find never returns such an index *)
    | Some (_, dir, grp, _) =>
      let cb := nth b chrs 0%nat in
      let str := firstn (nth e chrs 0%nat - cb) (skipn cb s) in
      let sub k := nth k subs (-1)%Z in
      let g := Z.to_nat grp in
      let rb := (b + uc_off str (Z.to_nat (sub 0%nat)))%nat in
      let re := (b + uc_off str (Z.to_nat (sub 1%nat)))%nat in
      Some {| r_beg := rb; r_end := re;
              c_beg := if (0 <=? sub (2 * g)%nat)%Z then (b + uc_off str (Z.to_nat (sub (2 * g)%nat)))%nat else rb;
              c_end := if (0 <=? sub (2 * g + 1)%nat)%Z then (b + uc_off str (Z.to_nat (sub (2 * g + 1)%nat)))%nat else re;
              c_dir := dir; c_rec := (0 <? grp)%Z |}
    end
  end.

(* dir.c: dir_context; ctxfound = the answer of rset_find(dir_rsctx, s) (only consulted on the last path) *)
Definition dir_context (s : bytes) (xtd : Z) (ctxfound : Z) : Z :=
  if (1 <? xtd)%Z then 1%Z
  else if (xtd <? -1)%Z then (-1)%Z
  else if (xtd =? 0)%Z && negb (bit (hd0 s) 128) then 1%Z
  else match (if (ctxfound <? 0)%Z then None else nth_error dircontexts (Z.to_nat ctxfound)) with
       | Some (dir, _) => dir
       | None => if (xtd <? 0)%Z then (-1)%Z else 1%Z
       end.

(* a[i] = v (a write past the end is a heap overflow in C; the theorems exclude it) *)
Fixpoint upd {A} (l : list A) (i : nat) (v : A) : list A :=
  match l, i with
  | [], _ => []
  | _ :: r, O => v :: r
  | x :: r, S k => x :: upd r k v
  end.

(* dir.c: dir_reorder(s, ord) *)
Definition dir_reorder (s : bytes) (xtd ctxfound : Z) (raw : nat -> nat -> Z -> Z -> option rawres)
    (ord : list nat) : option (list nat) :=
  let chrs := uc_chop s in
  let n := uc_slen s in
  let dir := dir_context s xtd ctxfound in
  let nl := (0 <? n)%nat && (nthb s (nth (n - 1) chrs 0%nat) =? 10)%N in
  let ord1 := if nl then upd ord (n - 1) (n - 1)%nat else ord in
  let n1 := if nl then (n - 1)%nat else n in
  dir_fix (dir_match s chrs raw) (S n1) ord1 dir 0 n1.

(* dir_reorder as the argument of ren_position (RenDefs.v): out of fuel leaves the array alone *)
Definition dr_of (xtd ctxfound : Z) (raw : nat -> nat -> Z -> Z -> option rawres) (s : bytes) (ord : list nat) : list nat :=
  match dir_reorder s xtd ctxfound raw ord with Some r => r | None => ord end.

(* ---- the recorded matcher.  harness/probe_ren.c writes down every call of rset_find made along
   dir_fix's control flow: (beg, end, ctx, answer).  raw_of turns the list into the matcher the
   model is run with (first record of the call; a call that was not recorded does not match);
   matcher_ok is the executable form of the hypothesis cm_ok of the theorems for that matcher: every
   recorded call that dir_match turns into spans gives spans in bounds and a non-empty match.  The
   driver evaluates it on every case (DirProps.matcher_ok_cm_ok: matcher_ok = true implies cm_ok). *)
Definition rec_entry := (nat * nat * Z * option rawres)%type.

Fixpoint raw_of (tr : list rec_entry) (b e : nat) (ctx flg : Z) : option rawres :=
  match tr with
  | [] => None
  | (b', e', c', a) :: r =>
    if (b =? b')%nat && (e =? e')%nat && (ctx =? c')%Z then a else raw_of r b e ctx flg
  end.

Definition span_okb (b e : nat) (m : mres) : bool :=
  (b <=? r_beg m)%nat && (r_beg m <=? c_beg m)%nat && (c_beg m <=? c_end m)%nat &&
  (c_end m <=? r_end m)%nat && (r_end m <=? e)%nat && (b <? r_end m)%nat.

Definition matcher_ok (s : bytes) (tr : list rec_entry) : bool :=
  forallb (fun en : rec_entry =>
    let '(b, e, c, _) := en in
    match dir_match s (uc_chop s) (raw_of tr) b e c with
    | None => true
    | Some m => span_okb b e m
    end) tr.

(* ---- a syntactic nullable analysis of the ERE syntax of regex.c, used only to re-check that no
   configured mark can match the empty string (termination of dir_fix).  true = "may match
   without consuming a character"; anything the analysis cannot read counts as nullable. *)
(* the rest after a bracket expression whose '[' has been consumed *)
Fixpoint skip_to_rbracket (s : bytes) : option bytes :=
  match s with
  | [] => None
  | c :: r => if (c =? 93)%N then Some r else skip_to_rbracket r
  end.
Definition skip_bracket (s : bytes) : option bytes :=
  let s1 := match s with c :: r => if (c =? 94)%N then r else s | [] => s end in       (* ^ *)
  match s1 with
  | c :: r => if (c =? 93)%N then skip_to_rbracket r else skip_to_rbracket s1          (* a leading ] is literal *)
  | [] => None
  end.
(* {m,n}: returns (m = 0 or missing, rest after the closing brace) *)
Fixpoint skip_to_rbrace (s : bytes) : option bytes :=
  match s with
  | [] => None
  | c :: r => if (c =? 125)%N then Some r else skip_to_rbrace r
  end.
Fixpoint brace_min (s : bytes) (seen : bool) (zero : bool) : option (bool * bytes) :=
  match s with
  | [] => None
  | c :: r =>
    if (c =? 125)%N then Some (zero || negb seen, r)
    else if (c =? 44)%N then match skip_to_rbrace r with Some r' => Some (zero || negb seen, r') | None => None end
    else if ((48 <=? c) && (c <=? 57))%N then brace_min r true (zero && (c =? 48)%N)
    else None
  end.
(* repetition suffixes after an atom *)
Fixpoint p_suffix (k : nat) (nb : bool) (s : bytes) : option (bool * bytes) :=
  match k with
  | O => None
  | S k' =>
    match s with
    | c :: r =>
      if ((c =? 42) || (c =? 63))%N then p_suffix k' true r
      else if (c =? 43)%N then p_suffix k' nb r
      else if (c =? 123)%N then match brace_min r false true with
                                | Some (z, r') => p_suffix k' (nb || z) r'
                                | None => None
                                end
      else Some (nb, s)
    | [] => Some (nb, s)
    end
  end.
Fixpoint p_alt (fuel : nat) (s : bytes) : option (bool * bytes) :=
  match fuel with
  | O => None
  | S f =>
    let fix p_seq (k : nat) (s : bytes) (acc : bool) : option (bool * bytes) :=
      match k with
      | O => None
      | S k' =>
        match s with
        | [] => Some (acc, [])
        | c :: r =>
          if ((c =? 124) || (c =? 41))%N then Some (acc, s)
          else
            let atom :=
              if (c =? 40)%N then
                match p_alt f r with
                | Some (nb, d :: rest) => if (d =? 41)%N then Some (nb, rest) else None
                | _ => None
                end
              else if (c =? 91)%N then match skip_bracket r with Some rest => Some (false, rest) | None => None end
              else if (c =? 92)%N then
                match r with
                | [] => None
                | d :: _ => Some (((d =? 60) || (d =? 62))%N, skipn (uc_len r) r)
                end
              else if ((c =? 94) || (c =? 36))%N then Some (true, r)
              else Some (false, skipn (uc_len s) s) in
            match atom with
            | None => None
            | Some (nb, rest) =>
              match p_suffix (S (length rest)) nb rest with
              | None => None
              | Some (nb', rest') => p_seq k' rest' (acc && nb')
              end
            end
        end
      end in
    match p_seq (S (length s)) s true with
    | None => None
    | Some (nb, rest) =>
      match rest with
      | c :: r => if (c =? 124)%N then match p_alt f r with Some (nb2, rest2) => Some (nb || nb2, rest2) | None => None end
                  else Some (nb, rest)
      | [] => Some (nb, rest)
      end
    end
  end.
Definition pat_nullable (p : bytes) : bool :=
  match p_alt (S (length p)) p with
  | Some (nb, []) => nb
  | _ => true
  end.
