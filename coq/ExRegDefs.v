(* ExRegDefs.v -- what the numbered registers 1..9 mean (C06; definitions only, proofs in ExRegProps.v).
   reg.c reg_put(): every line-wise text stored in the unnamed or a lettered register is also pushed on the numbered
   registers (8->9, 7->8, ..., 1->2, then the new text goes to 1).  ExDefs.reg_put mirrors the C loop (reg_shift runs
   i = 8 .. 1 and copies register i to i+1 one after the other); here the same thing is said WITHOUT a loop and without
   an order of copying: the list of the stored texts, newest first, is what the registers 1..9 show. *)
From Coq Require Import List NArith ZArith Bool.
From NV Require Import Bytes ExDefs.
Import ListNotations.

(* the register file as the association list of ExDefs.st; register i (1..9) lives under the byte '0' + i *)
Definition regfile := list (N * bytes).
Definition numkey (i : nat) : N := (48 + N.of_nat i)%N.
Definition nreg (r : regfile) (i : nat) : option bytes := reg_getraw r (numkey i).
Definition is_numkey (k : N) : bool := ((49 <=? k) && (k <=? 57))%N.

(* a store is pushed on the numbered registers iff it goes to the unnamed register (0) or to a letter *)
Definition pushes (c : N) : bool := (c =? 0)%N || isalpha c.

(* one store, as a simultaneous assignment (no order of copying): 1 := v; i+1 := old i, when old i is set *)
Definition num_after_push (old : nat -> option bytes) (v : bytes) (i : nat) : option bytes :=
  match i with
  | O => old O
  | S O => Some v
  | S j => match old j with Some t => Some t | None => old (S j) end
  end.

(* the registers 1..9 show the history h (newest first): register i holds the i-th newest text, registers beyond the
   length of h are unset; what lies beyond the ninth text is forgotten *)
Definition shows (r : regfile) (h : list bytes) : Prop :=
  forall i, (1 <= i <= 9)%nat -> nreg r i = nth_error h (i - 1).

(* a sequence of stores (register name, text), oldest first *)
Definition reg_stores (r : regfile) (l : list (N * bytes)) : regfile :=
  fold_left (fun r cv => reg_put r (fst cv) (snd cv)) l r.

(* the texts of the pushed stores of l, newest first *)
Definition pushed (l : list (N * bytes)) : list bytes :=
  rev (map snd (filter (fun cv => pushes (fst cv)) l)).

(* the stores ex makes: pushed ones, and ones that go to a name that is neither a letter, nor 0, nor a digit 1..9
   (register ':' after every command line, the '\'-escaped registers) *)
Definition plain_store (cv : N * bytes) : bool := pushes (fst cv) || negb (is_numkey (fst cv)).

(* the seeded variant, for the record: copying upward (i = 1 .. 8) lets the old register 1 cascade into 2..9 *)
Fixpoint reg_shift_up (n : nat) (i : nat) (r : regfile) : regfile :=
  match n with
  | O => r
  | S n' => let r1 := match reg_getraw r (numkey i) with
                      | Some v => reg_putraw r (numkey i + 1) v
                      | None => r end in
            reg_shift_up n' (S i) r1
  end.
Definition reg_put_up (r : regfile) (c : N) (v : bytes) : regfile :=
  let r1 := if pushes c then reg_putraw (reg_shift_up 8 1 r) 49 v else r in
  reg_putraw r1 c v.
