(* TrLbufCpUse.v -- the three oracle hypotheses about lbuf_cp, discharged with the translated function itself (coq/TrLbufCp.v tr_lbuf_cp).
   Three finished developments call lbuf_cp through the oracle index X_lbuf_cp and ASSUME what it returns:
     C04  TrUndoOpt.cp_oracle (lbuf_opt's `lo->del = lbuf_cp(lb, pos, pos + n_del)`; used by TrUndoEdit / TrCmp4Edit / TrCmp4Chain),
     C06  the premise `ext X_lbuf_cp [xb; beg; end] m1 = Ok (VPtr pb 0, m2)` of TrExCmds.cx_ex_yank / tr_ec_delete / tr_ec_yank,
     C08  the field o_cp of the record TrViOp.oracles (lbuf_region's middle rows).
   Here: for every oracle `ext` that answers X_lbuf_cp by RUNNING the translated C text (is_cp; ext_cp is one), each of the three holds in
   the strongest form that is true of the real function.  None of the three developments is edited.  What is NOT true of the real
   function, precisely:
     * all three are stated for every memory and every end <= INT_MAX with one fixed oracle, i.e. without bound on the work or on the size:
       the C text needs end - beg loop iterations (fuel) and its size computations stay inside int only below 2 GB of text (the side
       condition here: at most 500 MB, TrSbuf.fits_small) -- cp_side / the premises of the C06 and C08 statements;
     * C04: cp_oracle's conclusion `nonul (lbuf_cp lb b e)` does not follow from urep Tc (str_at does not exclude a model line with a NUL
       byte; sbuf_str would copy such a line up to the NUL only): `Forall nonul (ln lb)` is a premise here;
     * C08: o_cp says the result is the block `length m` and that the new memory is m ++ [exactly the string].  The real function returns a
       block BEHIND length m (block length m is the struct sbuf, freed before the return: an empty block in CLite's memory), the block is
       longer than the string (sbuf.c's capacity), and the data blocks abandoned while growing stay in the memory as freed blocks:
       C08_cp_not_exact proves the literal o_cp FALSE of the real function; C08_tr_cp_discharged is the true variant (fresh_p). *)
From Coq Require Import List ZArith NArith Bool Lia.
From NV Require Import Bytes GenConsts CLite CLiteProps GenCFuncs CLiteTac CLiteExt TrLbufBase TrSbuf TrLbufCp.
From NV Require UndoDefs TrUndoBase TrUndoOpt TrSplice TrSpliceAll TrCmp4Str TrCmp4 ExDefs TrExCmds TrMot TrViOp.
Import ListNotations.
Local Open Scope Z_scope.

(* ------------------------------------------------------------------ the oracle that runs the C text *)
Definition is_cp (fuel d : nat) (ext : nat -> list val -> mem -> res (val * mem)) : Prop :=
  forall args m, ext X_lbuf_cp args m = callf cprog fuel (S (S (S (S d)))) F_lbuf_cp args m.
Definition ext_cp (fuel d : nat) : nat -> list val -> mem -> res (val * mem) :=
  fun f args m => if Nat.eqb f X_lbuf_cp then callf cprog fuel (S (S (S (S d)))) F_lbuf_cp args m else Err EShape.
Lemma ext_cp_is fuel d : is_cp fuel d (ext_cp fuel d).
Proof. intros args m. unfold ext_cp. rewrite Nat.eqb_refl. reflexivity. Qed.

(* the result of tr_lbuf_cp as a predicate on the oracle's answer *)
Definition fresh_p (t : bytes) (m : mem) (r : res (val * mem)) : Prop :=
  exists pb m' rest, r = Ok (VPtr pb 0, m') /\ nth_error m' pb = Some (cstr_block (zb t) ++ rest) /\
    (length m < pb < length m')%nat /\ nth_error m' (length m) = Some [] /\
    (forall k, (k < length m)%nat -> nth_error m' k = nth_error m k).

Lemma total_rows lines b e : total (cp_rows lines b e) = Z.of_nat (length (cp_bytes lines b e)).
Proof. reflexivity. Qed.

Lemma cp_run ext fuel d m bl lines b e : is_cp fuel d ext ->
  cp_view m bl lines -> 0 <= b -> -2147483648 <= e <= 2147483647 ->
  total (cp_rows lines b e) <= 500000000 -> (Z.to_nat (e - b) < fuel)%nat ->
  fresh_p (cp_bytes lines b e) m (ext X_lbuf_cp [VPtr bl 0; VInt b; VInt e] m).
Proof.
  intros X V Hb He Ht Hf. destruct (tr_lbuf_cp m bl lines b e d fuel V Hb He Ht Hf) as (pb & m' & rest & E & R).
  exists pb, m', rest. split; [rewrite X; exact E|exact R].
Qed.

Lemma pstr_of_block m b t rest : nth_error m b = Some (cstr_block (zb t) ++ rest) -> TrCmp4Str.pstr_at m b t.
Proof. intro H. exists rest. exact H. Qed.
Lemma cstr_from_of_block m b t rest : nth_error m b = Some (cstr_block (zb t) ++ rest) -> TrUndoBase.cstr_from m b 0 t.
Proof.
  intro H. exists (cstr_block (zb t) ++ rest). split; [exact H|]. split; [lia|]. change (Z.to_nat 0) with O. cbn [skipn].
  rewrite <- (TrCmp4Str.cstr_len t). rewrite firstn_app, Nat.sub_diag, firstn_all. cbn [firstn]. apply app_nil_r.
Qed.
Lemma nonul_concat (l : list bytes) : Forall nonul l -> nonul (concat l).
Proof. induction 1 as [|x l Hx _ IH]; cbn [concat]; [constructor|]. unfold nonul in *. apply Forall_app. split; assumption. Qed.
Lemma cp_bytes_nonul lines b e : Forall nonul lines -> nonul (cp_bytes lines b e).
Proof. intro H. apply nonul_concat. unfold cp_rows. apply Forall_firstn', Forall_skipn'. exact H. Qed.

(* ------------------------------------------------------------------ the pictures of a line buffer imply cp_view *)
Lemma lbuf_at_view m lb blk bln bgl lbs lines globs mk cap : TrSpliceAll.lbuf_at m lb blk bln bgl lbs lines globs mk cap ->
  Forall nonul lines -> Z.of_nat (length lines) <= 2147483647 -> cp_view m lb lines.
Proof.
  intros [(lnblk & glblk & T & Cln & _) _ _ Hstr _ _ _] Hn Hl. destruct T as [Tb _ Tln _ Tn _ Tlnb _ _ _ _].
  constructor; [|exact Hn|exact Hl]. exists blk, bln, lnblk, lbs.
  split; [exact Tb|]. split; [exact Tln|]. split; [exact Tn|]. split; [exact Tlnb|].
  intros i Hi. split; [apply Cln; exact Hi|apply Hstr; exact Hi].
Qed.
Lemma mot_at_view m lb bln lbs lines : TrMot.lbuf_at m lb bln lbs lines -> Z.of_nat (length lines) <= 2147483647 -> cp_view m lb lines.
Proof.
  intros [(blk & Hb & _ & Hln & Hn) (lnblk & Hl & _ & Hc) _ Hs _ Hnn] Hlen.
  constructor; [|exact Hnn|exact Hlen]. exists blk, bln, lnblk, lbs.
  split; [exact Hb|]. split; [exact Hln|]. split; [exact Hn|]. split; [exact Hl|].
  intros i Hi. split; [apply Hc; exact Hi|apply Hs; exact Hi].
Qed.
Lemma urep_view m bl blk bh hblk lb : TrUndoBase.urep TrCmp4.Tc m bl blk bh hblk lb -> Forall nonul (UndoDefs.ln lb) -> cp_view m bl (UndoDefs.ln lb).
Proof.
  intros R Hn. pose proof (TrUndoBase.u_blk _ _ _ _ _ _ _ R) as Hb. pose proof (TrUndoBase.u_len _ _ _ _ _ _ _ R) as L.
  pose proof (TrUndoBase.u_lnn _ _ _ _ _ _ _ R) as Hnn. pose proof (TrUndoBase.u_lnr _ _ _ _ _ _ _ R) as Hr.
  destruct (TrUndoBase.u_tab _ _ _ _ _ _ _ R) as (fp & (bln & bgl & lbs & lnblk & glblk & cap & globs & Ecs & _ & Hln & _ & _ & _ & Cln & _ & _ & _ & Hstr & _) & _).
  unfold TrUndoBase.tcells in Ecs. injection Ecs as E64 _ _ _.
  constructor; [|exact Hn|exact Hr]. exists blk, bln, lnblk, lbs.
  split; [exact Hb|]. split; [apply (TrCmp4.cell_of_hc blk 64 _ L ltac:(lia) E64)|]. split; [exact Hnn|]. split; [exact Hln|].
  intros i Hi. split; [apply Cln; exact Hi|apply Hstr; exact Hi].
Qed.

(* ================================================================== C04: TrUndoOpt.cp_oracle *)
(* cp_oracle with a side condition Q on the model state and the rows; Q = True is cp_oracle itself *)
Definition cp_oracle_when (Q : UndoDefs.lbuf -> nat -> nat -> Prop) (ext : nat -> list val -> mem -> res (val * mem))
    (T : TrUndoBase.Tpred) (bl : nat) : Prop :=
  forall (m : mem) (blk : block) bh (hblk : block) lb b e,
    TrUndoBase.urep T m bl blk bh hblk lb -> TrUndoBase.i31 e -> Q lb b e ->
    exists bd (m' : mem), ext X_lbuf_cp [VPtr bl 0; VInt (Z.of_nat b); VInt (Z.of_nat e)] m = Ok (VPtr bd 0, m') /\
      (length m <= bd < length m')%nat /\ (forall b', (b' < length m)%nat -> nth_error m' b' = nth_error m b') /\
      TrUndoBase.cstr_from m' bd 0 (UndoDefs.lbuf_cp lb b e) /\ nonul (UndoDefs.lbuf_cp lb b e).
Lemma cp_oracle_when_true ext T bl : cp_oracle_when (fun _ _ _ => True) ext T bl <-> TrUndoOpt.cp_oracle ext T bl.
Proof.
  split; intros H m blk bh hblk lb b e R He.
  - apply (H m blk bh hblk lb b e R He I).
  - intros _. apply (H m blk bh hblk lb b e R He).
Qed.
(* the text has no NUL byte, the copy is at most 500 MB, one unit of fuel per row *)
Definition cp_side (fuel : nat) (lb : UndoDefs.lbuf) (b e : nat) : Prop :=
  Forall nonul (UndoDefs.ln lb) /\ Z.of_nat (length (UndoDefs.lbuf_cp lb b e)) <= 500000000 /\ (e - b < fuel)%nat.

Lemma cp_bytes_undo lb b e : cp_bytes (UndoDefs.ln lb) (Z.of_nat b) (Z.of_nat e) = UndoDefs.lbuf_cp lb b e.
Proof.
  unfold cp_bytes, cp_rows, UndoDefs.lbuf_cp, UndoDefs.slice. rewrite Nat2Z.id.
  replace (Z.to_nat (Z.of_nat e - Z.of_nat b)) with (e - b)%nat by lia. reflexivity.
Qed.

Theorem tr_cp_discharged_C04 ext fuel d bl : is_cp fuel d ext -> cp_oracle_when (cp_side fuel) ext TrCmp4.Tc bl.
Proof.
  intros X m blk bh hblk lb b e R He (Hn & Hsz & Hf). unfold TrUndoBase.i31 in He.
  pose proof (urep_view m bl blk bh hblk lb R Hn) as V.
  destruct (cp_run ext fuel d m bl (UndoDefs.ln lb) (Z.of_nat b) (Z.of_nat e) X V) as (pb & m' & rest & E & Hd & Hpb & _ & Hold).
  - lia. (* the loop never reads a row when b is past INT_MAX: see below *)
  - lia.
  - rewrite total_rows, cp_bytes_undo. exact Hsz.
  - lia.
  - rewrite cp_bytes_undo in Hd. exists pb, m'. split; [exact E|]. split; [lia|]. split; [exact Hold|].
    split; [apply (cstr_from_of_block _ _ _ rest Hd)|]. rewrite <- cp_bytes_undo. apply cp_bytes_nonul. exact Hn.
Qed.

(* ================================================================== C06: ex_yank / ec_delete / ec_yank of TrExCmds.v *)
(* the rows in memory: the model's line text (ExDefs keeps it without the newline) followed by the newline *)
Definition ex_lines (lb : ExDefs.lbuf) : list bytes := map (fun l => ExDefs.ltxt l ++ [ExDefs.nl]) (ExDefs.lns lb).
Lemma cp_bytes_ex lb b e : 0 <= b -> cp_bytes (ex_lines lb) b e = ExDefs.lbuf_cp lb (Z.to_nat b) (Z.to_nat e).
Proof.
  intro Hb. unfold cp_bytes, cp_rows, ex_lines, ExDefs.lbuf_cp, ExDefs.join_lines.
  rewrite skipn_map, firstn_map, map_map. replace (Z.to_nat (e - b)) with (Z.to_nat e - Z.to_nat b)%nat by lia. reflexivity.
Qed.

(* the premise `ext X_lbuf_cp [VPtr bl 0; VInt b; VInt e] m1 = Ok (VPtr pb 0, m2)` of cx_ex_yank / tr_ec_delete / tr_ec_yank holds of
   the real function, and the block it names starts with the text ExDefs.ex_yank puts into the register (reg_put's argument);
   nothing that existed in m1 changed (so TrExCmds.keeps holds for every frame of live blocks) *)
Theorem tr_cp_discharged_C06 ext fuel d m1 bl lb b e : is_cp fuel d ext ->
  cp_view m1 bl (ex_lines lb) -> 0 <= b -> TrExAddr.int_ok e ->
  Z.of_nat (length (ExDefs.lbuf_cp lb (Z.to_nat b) (Z.to_nat e))) <= 500000000 -> (Z.to_nat (e - b) < fuel)%nat ->
  exists pb m2, ext X_lbuf_cp [VPtr bl 0; VInt b; VInt e] m1 = Ok (VPtr pb 0, m2) /\
    TrCmp4Str.pstr_at m2 pb (ExDefs.lbuf_cp lb (Z.to_nat b) (Z.to_nat e)) /\ nonul (ExDefs.lbuf_cp lb (Z.to_nat b) (Z.to_nat e)) /\
    (length m1 < pb < length m2)%nat /\ nth_error m2 (length m1) = Some [] /\
    (forall k, (k < length m1)%nat -> nth_error m2 k = nth_error m1 k) /\
    (forall fr, (forall k, In k fr -> (k < length m1)%nat) -> TrExCmds.keeps fr m1 m2).
Proof.
  intros X V Hb He Hsz Hf. unfold TrExAddr.int_ok in He.
  destruct (cp_run ext fuel d m1 bl (ex_lines lb) b e X V Hb He) as (pb & m2 & rest & E & Hd & Hpb & Hfree & Hold).
  - rewrite total_rows, cp_bytes_ex by exact Hb. exact Hsz.
  - exact Hf.
  - rewrite cp_bytes_ex in Hd by exact Hb. exists pb, m2. split; [exact E|]. split; [apply (pstr_of_block _ _ _ rest Hd)|].
    split; [rewrite <- cp_bytes_ex by exact Hb; apply cp_bytes_nonul; exact (cv_nonul _ _ _ V)|].
    split; [exact Hpb|]. split; [exact Hfree|]. split; [exact Hold|].
    intros fr Hfr k Hk. apply Hold. apply Hfr. exact Hk.
Qed.

(* ex_yank with the real lbuf_cp under it: only reg_put is left as an oracle *)
Corollary tr_ex_yank_cp ext fuel d D mm bl lb reg b e : is_cp fuel d ext ->
  TrExCmds.xb_view mm bl -> cp_view mm bl (ex_lines lb) -> 0 <= b -> TrExAddr.int_ok e ->
  Z.of_nat (length (ExDefs.lbuf_cp lb (Z.to_nat b) (Z.to_nat e))) <= 500000000 -> (Z.to_nat (e - b) < fuel)%nat ->
  exists pb m2, TrCmp4Str.pstr_at m2 pb (ExDefs.lbuf_cp lb (Z.to_nat b) (Z.to_nat e)) /\
    (forall k, (k < length mm)%nat -> nth_error m2 k = nth_error mm k) /\
    forall u m3 c blk, ext X_reg_put [VInt reg; VPtr pb 0; VInt 1] m2 = Ok (u, m3) -> nth_error m3 pb = Some (c :: blk) ->
      callx ext cprog fuel (S (S D)) F_ex_yank [VInt reg; VInt b; VInt e] mm = Ok (VUndef, upd m3 pb []).
Proof.
  intros X Hx V Hb He Hsz Hf.
  destruct (tr_cp_discharged_C06 ext fuel d mm bl lb b e X V Hb He Hsz Hf) as (pb & m2 & E & Hp & _ & _ & _ & Hold & _).
  exists pb, m2. split; [exact Hp|]. split; [exact Hold|]. intros u m3 c blk Hput Hlive.
  apply (TrExCmds.cx_ex_yank ext fuel D mm bl reg b e pb m2 u m3 c blk Hx E Hput Hlive).
Qed.

(* ================================================================== C08: the field o_cp of TrViOp.oracles *)
Lemma cp_bytes_vi lines b e : cp_bytes lines b e = TrViOp.cp_b lines b e.
Proof. reflexivity. Qed.

(* the true variant: fresh_p in the place of TrViOp.fresh *)
Theorem tr_cp_discharged_C08 ext fuel d m lb bln lbs lines b e : is_cp fuel d ext ->
  TrMot.lbuf_at m lb bln lbs lines -> 0 <= b -> TrLbufBase.i32 e -> Z.of_nat (length lines) <= 2147483647 ->
  Z.of_nat (length (TrViOp.cp_b lines b e)) <= 500000000 -> (Z.to_nat (e - b) < fuel)%nat ->
  fresh_p (TrViOp.cp_b lines b e) m (ext X_lbuf_cp [VPtr lb 0; VInt b; VInt e] m).
Proof.
  intros X R Hb He Hl Hsz Hf. rewrite <- cp_bytes_vi.
  apply (cp_run ext fuel d m lb lines b e X (mot_at_view m lb bln lbs lines R Hl) Hb He); [|exact Hf].
  rewrite total_rows, cp_bytes_vi. exact Hsz.
Qed.
(* the literal o_cp is false of the real function: the pointer it returns is never block `length m` (that one is the freed struct sbuf) *)
Theorem cp_not_exact_C08 ext fuel d m lb bln lbs lines b e : is_cp fuel d ext ->
  TrMot.lbuf_at m lb bln lbs lines -> 0 <= b -> TrLbufBase.i32 e -> Z.of_nat (length lines) <= 2147483647 ->
  Z.of_nat (length (TrViOp.cp_b lines b e)) <= 500000000 -> (Z.to_nat (e - b) < fuel)%nat ->
  ext X_lbuf_cp [VPtr lb 0; VInt b; VInt e] m <> TrViOp.fresh (TrViOp.cp_b lines b e) m.
Proof.
  intros X R Hb He Hl Hsz Hf.
  destruct (tr_cp_discharged_C08 ext fuel d m lb bln lbs lines b e X R Hb He Hl Hsz Hf) as (pb & m' & rest & E & _ & Hpb & _).
  rewrite E. unfold TrViOp.fresh. intro Y. injection Y as Y _. lia.
Qed.
