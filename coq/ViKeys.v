(* ViKeys.v -- C09: the key grammar of the vi command set that ViDefs.exec covers, as vi.c reads it
   (definitions only; proofs in ViKeysProps.v, the instance of InputQueue's loop in RepeatVi.v).

   vi.c obtains keys with vi_read() (= term_read() unless a key was pushed back with vi_back(); every
   pushed-back key is read again before the command ends, so one command consumes an exact prefix of
   the pending input) and, for the character after f F t T r and for insert-mode text, with
   led_read()/led_line() (term_read() directly).  The tokenizer is written as an automaton that is fed
   ONE KEY AT A TIME ([feed]); its states are the read sites of vi():

     P0      vi()            vi_ybuf = vi_yankbuf()          first key of a command
     PReg1   vi_yankbuf      c = vi_read() after '"'
     PPre y  vi()            vi_arg1 = vi_prefix()           (a register was given: no second vi_yankbuf)
     PCnt    vi_prefix       while (isdigit(c))              (n saturates at 10^8 as in the C code)
     PReg2   vi_yankbuf #2   if (!vi_ybuf) vi_ybuf = vi_yankbuf()
     PKey    vi()            vi_motion() ... c = vi_read(); switch (c)
     POp     vc_motion       vi_arg2 = vi_prefix()
     POpCnt  vi_prefix       digits of vi_arg2
     PChar   vi_char()       led_read(): the character of f F t T (vi_motion) and r (vc_replace)
     PCharMb led_readchar    the continuation bytes of a multi-byte character
     PJump   vi_motionln / vi_motion   mark = vi_read() after ' and `
     PG      vi() case 'g'   k = vi_read()
     PExec   vc_execute      c = vi_read()
     PMark   vi() case 'm'   mark = vi_read()
     PColon  vi_prompt(":")  only the form :<digits><newline> (CGoto of ViDefs)

   A command whose next part is insert-mode text (i a I A o O, c<motion>, C s S) ends its HEAD here;
   the text up to ESC / ^C is cut into keys by a second automaton ([tfeed], mirror of led_line's
   switch and led_readchar).  vc_motion returns BEFORE vi_change when the motion fails (mv < 0), so
   after `c` + a failing motion the typed text is NOT read: [vi_exec] below consumes only the head in
   that case and the text is run as commands (seen on the binary; design.d/C09.md).

   Outside the modelled set ([Stuck]: next_command = None): ! u ^R ^B ^F ^E ^Y ^U ^D ^G ^^ ^] ^T ^W z q Z
   ^L ^Z, the motions / ? n N ^A [[ ]], the "\x register form, register names other than letters,
   digits and the double quote (. : ; # ^ are written or computed by the editor), ^V ^K ^F ^E where a
   character is read, and in insert mode ^K ^A ^F ^E, NUL, and ^V / ^R followed by a newline or a byte
   above 127 (ViDefs.led_key models them for a single-byte key).  Marks (m<x>, '<x>, `<x>) are
   recognised with the keys they consume but not interpreted (KOut). *)
From Coq Require Import List NArith ZArith Bool.
From NV Require Import Bytes UcDefs MotDefs RegDefs ViDefs InputQueue.
Import ListNotations.
Local Open Scope N_scope.

(* ---------- results ---------- *)
(* the head of a command: everything up to the point where vi.c starts reading insert-mode text *)
Inductive head :=
| HCmd (c : cmd) (chg : bool)                      (* a complete command of ViDefs; chg = member of the repeatable set *)
| HIns (k : ikey)                                  (* i a I A o O: text follows *)
| HChange (y : N) (a1 a2 : Z) (t : tgt)            (* c<target>, C, s, S: text follows IF the target is reached *)
| HNop (chg : bool)                                (* reads keys, changes nothing: d<ESC>, f<ESC>, g<other>, @<ESC> *)
| HSkip                                            (* `default: continue` of vi(): ESC, unknown keys *)
| HDot (n : Z)                                     (* N. *)
| HExec (n : Z) (r : N)                            (* N@r *)
| HOut.                                            (* recognised, not interpreted by ViDefs: marks *)

(* a whole command *)
Inductive command :=
| KCmd (c : cmd) (chg : bool)
| KNop (chg : bool)
| KSkip
| KDot (n : Z)
| KExec (n : Z) (r : N)
| KOut.

(* where a motion is being read: vi() (count vi_arg1) or vc_motion (register, vi_arg1, operator, vi_arg2) *)
Inductive mctx := MTop (a1 : Z) | MOp (y : N) (a1 : Z) (op : okey) (a2 : Z).
(* who called vi_char(): vi_motion for f F t T (the key), or vc_replace *)
Inductive cctx := CFind (x : mctx) (f : N) | CRepl (a1 : Z).

Inductive pstate :=
| P0 | PReg1 | PPre (y : N) | PCnt (y : N) (n : Z) | PReg2 (n : Z) | PKey (y : N) (a1 : Z)
| POp (y : N) (a1 : Z) (op : okey) | POpCnt (y : N) (a1 : Z) (op : okey) (a2 : Z)
| PChar (k : cctx) | PCharMb (k : cctx) (need : nat) (acc : chr)
| PJump (x : mctx)
| PG (y : N) (a1 : Z) | PExec (a1 : Z) | PMark | PColon (n : Z) (some : bool).

Inductive pres := More (p : pstate) | Done (h : head) | Stuck.

(* ---------- tables ---------- *)
(* vi_prefix: if (n < 100000000) n = n * 10 + c - '0' *)
Definition add_digit (n : Z) (c : N) : Z := if (n <? 100000000)%Z then (n * 10 + Z.of_N (c - 48))%Z else n.
Definition is_19 (c : N) : bool := (49 <=? c) && (c <=? 57).
Definition is_int (c : N) : bool := (c =? 27) || (c =? 3).                 (* TK_INT of a key that was read *)
Definition is_lead (c : N) : bool := bit c 128 && bit c 64.               (* (c & 0xc0) == 0xc0 *)
(* register names whose slots only vi_yank / vi_delete / vi_change write *)
Definition ok_reg (c : N) : bool := c_isalnum c || (c =? 34).

(* the keys of vi_motionln (cmd = 0) and vi_motion that need no further key *)
Definition plain_motion (c : N) : option mkey :=
  match c with
  | 10 | 43 => Some Kplus | 45 => Some Kminus | 95 => Some Kunder
  | 106 => Some Kj | 107 => Some Kk | 71 => Some KG | 72 => Some KH | 76 => Some KL | 77 => Some KM
  | 37 => Some Kpct
  | 59 => Some Ksemi | 44 => Some Kcomma | 104 => Some Kh | 108 => Some Kl
  | 66 => Some KB | 69 => Some KE | 87 => Some KW | 98 => Some Kb | 101 => Some Ke | 119 => Some Kw
  | 123 => Some Klbrace | 125 => Some Krbrace | 48 => Some K0 | 94 => Some Kcaret | 36 => Some Kdollar
  | 124 => Some Kbar | 32 => Some Kspace | 127 | 8 => Some Kbs
  | _ => None
  end.
Definition is_find (c : N) : bool := (c =? 102) || (c =? 70) || (c =? 116) || (c =? 84).      (* f F t T *)
Definition is_jump (c : N) : bool := (c =? 39) || (c =? 96).                                    (* ' ` *)
(* motions of vi_motion that are outside ViDefs: [ ] / ? n N ^A *)
Definition out_motion (c : N) : bool :=
  (c =? 91) || (c =? 93) || (c =? 47) || (c =? 63) || (c =? 110) || (c =? 78) || (c =? 1).
(* commands of vi() outside ViDefs: ! u ^R ^B ^F ^E ^Y ^U ^D ^G ^^ ^] ^T ^W z q Z ^L ^Z *)
Definition out_command (c : N) : bool :=
  existsb (N.eqb c) [33; 117; 18; 2; 6; 5; 25; 21; 4; 7; 30; 29; 20; 23; 122; 113; 90; 12; 26].
Definition find_key (f : N) (c : chr) : mkey :=
  if f =? 102 then Kf c else if f =? 70 then KF c else if f =? 116 then Kt c else KT c.
(* the key that doubles an operator: vi_motionln's `c == cmd` *)
Definition op_char (op : okey) : N :=
  match op with Od => 100 | Oy => 121 | Oc => 99 | Olt => 60 | Ogt => 62 | Otilde => 126 | Ogu => 117 | OgU => 85 end.
Definition op_of_char (c : N) : option okey :=
  match c with 100 => Some Od | 121 => Some Oy | 99 => Some Oc | 60 => Some Olt | 62 => Some Ogt | _ => None end.
Definition ikey_of_char (c : N) : option ikey :=
  match c with 105 => Some Ii | 97 => Some Ia | 73 => Some II | 65 => Some IA | 111 => Some Io | 79 => Some IO | _ => None end.

(* vc_motion has its target: `c` goes on to vi_change (text), the others are complete *)
Definition op_head (y : N) (a1 : Z) (op : okey) (a2 : Z) (t : tgt) : head :=
  match op with Oc => HChange y a1 a2 t | _ => HCmd (COp y a1 op a2 t []) true end.
Definition motion_head (x : mctx) (k : mkey) : head :=
  match x with MTop a1 => HCmd (CMot a1 k) false | MOp y a1 op a2 => op_head y a1 op a2 (TMot k) end.
(* the character was read: vi_findchar / the rest of vc_replace *)
Definition char_head (k : cctx) (c : chr) : head :=
  match k with CFind x f => motion_head x (find_key f c) | CRepl a1 => HCmd (CReplace a1 c) true end.
(* vi_char() returned NULL (ESC, ^C): vi_motion returns -1, vc_replace returns 0; the operators and r are
   members of the repeatable set whatever they did *)
Definition char_abort (k : cctx) : head :=
  match k with CFind (MTop _) _ => HNop false | _ => HNop true end.

(* ---------- the switch of vi() on the command key (after vi_motion found no motion) ---------- *)
Definition dispatch (y : N) (a1 : Z) (c : N) : pres :=
  match plain_motion c with
  | Some k => Done (HCmd (CMot a1 k) false)
  | None =>
  if is_jump c then More (PJump (MTop a1))
  else if is_find c then More (PChar (CFind (MTop a1) c))
  else if out_motion c || out_command c then Stuck
  else match op_of_char c with
  | Some op => More (POp y a1 op)
  | None =>
  match ikey_of_char c with
  | Some k => Done (HIns k)
  | None =>
  match c with
  | 74 => Done (HCmd (CJoin a1) true)                       (* J *)
  | 112 => Done (HCmd (CPut y a1 true) true)                (* p *)
  | 80 => Done (HCmd (CPut y a1 false) true)                (* P *)
  | 120 => Done (HCmd (c_x y a1) true)                      (* x: vi_back(' '); vc_motion('d') *)
  | 88 => Done (HCmd (c_X y a1) true)
  | 68 => Done (HCmd (c_D y a1) true)
  | 89 => Done (HCmd (c_Y y a1) true)
  | 126 => Done (HCmd (c_tilde a1) true)
  | 67 => Done (HChange y a1 0 (TMot Kdollar))              (* C *)
  | 115 => Done (HChange y a1 0 (TMot Kspace))              (* s *)
  | 83 => Done (HChange y a1 0 TDbl)                        (* S *)
  | 114 => More (PChar (CRepl a1))                          (* r *)
  | 103 => More (PG y a1)                                   (* g *)
  | 46 => Done (HDot a1)                                    (* . *)
  | 64 => More (PExec a1)                                   (* @ *)
  | 109 => More PMark                                       (* m *)
  | 58 => More (PColon 0 false)                             (* : *)
  | _ => Done HSkip                                         (* default: continue *)
  end end end end.

(* the key after the operator's count: vi_motionln(&r2, cmd), then vi_motion, else `vi_read(); return 0` *)
Definition op_dispatch (y : N) (a1 : Z) (op : okey) (a2 : Z) (c : N) : pres :=
  if c =? op_char op then Done (op_head y a1 op a2 TDbl)
  else match plain_motion c with
  | Some k => Done (op_head y a1 op a2 (TMot k))
  | None =>
  if is_jump c then More (PJump (MOp y a1 op a2))
  else if is_find c then More (PChar (CFind (MOp y a1 op a2) c))
  else if out_motion c then Stuck
  else Done (HNop true)
  end.

(* ---------- one key ---------- *)
Definition feed (p : pstate) (c : N) : pres :=
  match p with
  | P0 => if c =? 34 then More PReg1 else if is_19 c then More (PCnt 0 (add_digit 0 c)) else dispatch 0 0 c
  | PReg1 => if ok_reg c then More (PPre c) else Stuck
  | PPre y => if is_19 c then More (PCnt y (add_digit 0 c)) else dispatch y 0 c
  | PCnt y n => if c_isdigit c then More (PCnt y (add_digit n c))
                else if (y =? 0) && (c =? 34) then More (PReg2 n) else dispatch y n c
  | PReg2 n => if ok_reg c then More (PKey c n) else Stuck
  | PKey y a1 => dispatch y a1 c
  | POp y a1 op => if is_19 c then More (POpCnt y a1 op (add_digit 0 c)) else op_dispatch y a1 op 0 c
  | POpCnt y a1 op a2 => if c_isdigit c then More (POpCnt y a1 op (add_digit a2 c)) else op_dispatch y a1 op a2 c
  | PChar k =>
      if is_int c then Done (char_abort k)
      else if (c =? 6) || (c =? 5) || (c =? 22) || (c =? 11) || (c =? 0) then Stuck     (* ^F ^E ^V ^K *)
      else if is_lead c then
        match uc_len_b c with
        | S (S n) => More (PCharMb k (S n) [c])
        | _ => Done (char_head k [c])
        end
      else Done (char_head k [c])
  | PCharMb k need acc =>
      match need with
      | S (S n) => More (PCharMb k (S n) (acc ++ [c]))
      | _ => Done (char_head k (acc ++ [c]))
      end
  | PJump x => Done HOut
  | PG y a1 =>
      if c =? 126 then More (POp y a1 Otilde) else if c =? 117 then More (POp y a1 Ogu)
      else if c =? 85 then More (POp y a1 OgU)
      else if (c =? 97) || (c =? 100) || (c =? 102) || (c =? 108) then Stuck           (* ga gd gf gl *)
      else Done (HNop false)
  | PExec a1 => if is_int c then Done (HNop false) else if ok_reg c || (c =? 64) then Done (HExec a1 c) else Stuck
  | PMark => Done HOut
  | PColon n some =>
      if c_isdigit c then (if (n <? 100000000)%Z then More (PColon (n * 10 + Z.of_N (c - 48))%Z true) else Stuck)
      else if (c =? 10) && some then Done (HCmd (CGoto n) false) else Stuck
  end.

(* feed keys until the head is complete; None = the input ends inside the head, or a key outside the model *)
Fixpoint scan (p : pstate) (s : bytes) : option (head * bytes) :=
  match s with
  | [] => None
  | c :: r => match feed p c with
              | More p' => scan p' r
              | Done h => Some (h, r)
              | Stuck => None
              end
  end.

(* ---------- insert-mode text: led_line's switch, cut into the keys ViDefs.led_key is folded over ---------- *)
Inductive tstate := T0 | TLit | TMb (need : nat) (cur : chr).
Inductive tres := TMore (t : tstate) (acc : list chr) | TDone (acc : list chr) | TStuck.
Definition tfeed (t : tstate) (acc : list chr) (c : N) : tres :=
  match t with
  | T0 =>
      if is_int c then TDone acc                                                   (* led_input returns: TK_INT(key) *)
      else if (c =? 22) || (c =? 18) then TMore TLit (acc ++ [[c]])                 (* ^V, ^R: one raw key follows *)
      else if (c =? 11) || (c =? 1) || (c =? 6) || (c =? 5) || (c =? 0) then TStuck  (* ^K ^A ^F ^E *)
      else if is_lead c then
        match uc_len_b c with
        | S (S n) => TMore (TMb (S n) [c]) acc
        | _ => TMore T0 (acc ++ [[c]])
        end
      else TMore T0 (acc ++ [[c]])
  | TLit => if (c <? 128) && negb (c =? 10) && negb (c =? 0) then TMore T0 (acc ++ [[c]]) else TStuck
  | TMb need cur =>
      match need with
      | S (S n) => TMore (TMb (S n) (cur ++ [c])) acc
      | _ => TMore T0 (acc ++ [cur ++ [c]])
      end
  end.
Fixpoint tscan (t : tstate) (acc : list chr) (s : bytes) : option (list chr * bytes) :=
  match s with
  | [] => None
  | c :: r => match tfeed t acc c with
              | TMore t' acc' => tscan t' acc' r
              | TDone a => Some (a, r)
              | TStuck => None
              end
  end.
Definition take_text (s : bytes) : option (list chr * bytes) := tscan T0 [] s.

(* ---------- the tokenizer ---------- *)
(* [fails a1 a2 t] says whether vc_motion('c') finds its motion failing (then vi_change is not reached and
   no text is read).  The syntactic tokenizer takes every `c` as complete; the interpreter below asks
   the editor state. *)
Definition complete (fails : Z -> Z -> tgt -> bool) (s : bytes) : option (command * bytes) :=
  match scan P0 s with
  | None => None
  | Some (h, rest) =>
      match h with
      | HCmd c chg => Some (KCmd c chg, rest)
      | HIns k => match take_text rest with Some (t, rest') => Some (KCmd (CIns k t) true, rest') | None => None end
      | HChange y a1 a2 t =>
          if fails a1 a2 t then Some (KCmd (COp y a1 Oc a2 t []) true, rest)        (* the text stays in the queue *)
          else match take_text rest with Some (tx, rest') => Some (KCmd (COp y a1 Oc a2 t tx) true, rest') | None => None end
      | HNop chg => Some (KNop chg, rest)
      | HSkip => Some (KSkip, rest)
      | HDot n => Some (KDot n, rest)
      | HExec n r => Some (KExec n r, rest)
      | HOut => Some (KOut, rest)
      end
  end.
Definition next_command (s : bytes) : option (command * bytes) := complete (fun _ _ _ => false) s.

(* the whole program; None = it does not end at a command boundary or leaves the modelled set *)
Fixpoint tokens (fuel : nat) (s : bytes) : option (list command) :=
  match s with
  | [] => Some []
  | _ => match fuel with
         | O => None
         | S f => match next_command s with
                  | Some (c, rest) => match tokens f rest with Some cs => Some (c :: cs) | None => None end
                  | None => None
                  end
         end
  end.

(* ---------- the interpreter on raw keys: one round of vi() ---------- *)
(* the editor state of the C09 loop: ViDefs' state (None = outside the model or out of fuel) and the
   `static int reg` of vc_execute (None = -1) *)
Record vis := mk_vis { vi_est : option est; vi_lastreg : option N }.
Definition vis_out (v : vis) : vis := mk_vis None (vi_lastreg v).

(* the tail of vi() after a command that changed nothing: vi_wfix, mod = 0 *)
Definition nop (rows : Z) (e : est) : est := finish rows (s_buf e) (s_regs e) (s_vs e) false.
(* vc_motion('c') returns before vi_change: the motion failed *)
Definition target_fails (rows : Z) (e : est) (a1 a2 : Z) (t : tgt) : bool :=
  match op_target (s_buf e) rows (s_vs e) a1 a2 t (ren_noeol (getl (s_buf e) (v_row (s_vs e))) (v_off (s_vs e))) with
  | TFail _ _ => true
  | _ => false
  end.
Definition act_of (chg : bool) : act N := if chg then AChange else ANone.
Definition cnt_of (n : Z) : nat := Z.to_nat n.

(* what one command does to the editor state, and what it asks of the input side *)
Definition apply_cmd (rows : Z) (v : vis) (e : est) (c : command) : vis * act N :=
  match c with
  | KCmd c chg => (mk_vis (exec1 rows c e) (vi_lastreg v), act_of chg)
  | KNop chg => (mk_vis (Some (nop rows e)) (vi_lastreg v), act_of chg)
  | KSkip => (v, ANone)
  | KDot n => (mk_vis (Some (nop rows e)) (vi_lastreg v), ADot (cnt_of n))
  | KExec n r =>
      match (if r =? 64 then vi_lastreg v else Some r) with
      | None => (mk_vis (Some (nop rows e)) None, ANone)                  (* reg = -1 *)
      | Some x =>
          match reg_get (s_regs e) x with
          | Some (txt, _) => (mk_vis (Some (nop rows e)) (Some x), APush txt (cnt_of n))
          | None => (mk_vis (Some (nop rows e)) (Some x), ANone)
          end
      end
  | KOut => (vis_out v, ANone)
  end.
(* the command at the head of the pending input as the editor in state e reads it *)
Definition parse (rows : Z) (e : est) (s : bytes) : option (command * bytes) := complete (target_fails rows e) s.

Definition vi_exec (rows : Z) (v : vis) (s : bytes) : vis * nat * act N :=
  match vi_est v with
  | None => (v, length s, ANone)                       (* outside the model: the rest of the input is dropped *)
  | Some e =>
      match parse rows e s with
      | None => (vis_out v, length s, ANone)
      | Some (c, rest) => let (v', a) := apply_cmd rows v e c in (v', (length s - length rest)%nat, a)
      end
  end.

(* a session typed at the terminal *)
Definition typed_at (keys : bytes) (rp : bytes) (v : vis) : st N vis :=
  {| q := {| used := 0; ibuf := []; tin := keys; icmd := [] |}; rep := rp; ed := v |}.
Definition vi_session (rows : Z) (fuel : nat) (b : buf) (keys : bytes) : option vis :=
  run (vi_exec rows) fuel (typed_at keys [] (mk_vis (Some (init_est b)) None)).

(* the commands of a program that ViDefs interprets, in order (KSkip contributes nothing) *)
Fixpoint cmds_of (ks : list command) : option (list cmd) :=
  match ks with
  | [] => Some []
  | KCmd c _ :: r => match cmds_of r with Some cs => Some (c :: cs) | None => None end
  | KSkip :: r => cmds_of r
  | _ => None
  end.
(* no `c` of the program meets a failing motion (then the text would be left in the queue) *)
Fixpoint changes_ok (rows : Z) (cs : list cmd) (e : est) : bool :=
  match cs with
  | [] => true
  | c :: r =>
      (match c with COp _ a1 Oc a2 t _ => negb (target_fails rows e a1 a2 t) | _ => true end) &&
      match exec1 rows c e with Some e' => changes_ok rows r e' | None => true end
  end.

(* for the correspondence driver: the loop of vi() on a typed session, noting after every round how many
   typed keys and how many pushed keys are still unread; the final state, None = a push was clipped or fuel *)
Fixpoint vi_trace (rows : Z) (fuel : nat) (s : st N vis) : list (nat * nat) * option vis :=
  match stream (q s) with
  | [] => ([], Some (ed s))
  | _ => match fuel with
         | O => ([], None)
         | S f => if fits (vi_exec rows) s
                  then let s' := step (vi_exec rows) s in
                       let (l, r) := vi_trace rows f s' in
                       ((length (tin (q s')), length (ibuf (q s'))) :: l, r)
                  else ([], None)
         end
  end.
Definition vi_session_trace (rows : Z) (fuel : nat) (b : buf) (keys : bytes) : list (nat * nat) * option vis :=
  vi_trace rows fuel (typed_at keys [] (mk_vis (Some (init_est b)) None)).
