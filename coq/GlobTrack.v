(* GlobTrack.v -- C15, second part: ec_glob's marking loop establishes the loop invariant, completeness of the scan
   at its normal end, what lbuf_replace does to the ln_glob marks, and tracks_low (good_exec) for the single
   commands of the property's list. *)
From Coq Require Import List NArith ZArith Bool Lia.
From NV Require Import Bytes ExDefs ExSpec ExProps GlobDefs GlobProps.
Import ListNotations.

(* ---------------------------------------------------------------------------------------- *)
(* lists *)

Lemma nth_firstn_lt {A} (d : A) : forall (n j : nat) (l : list A), (j < n)%nat -> nth j (firstn n l) d = nth j l d.
Proof.
  induction n as [|n IH]; intros j l H; [lia|]. destruct l as [|x l]; [destruct j; reflexivity|].
  destruct j; cbn [firstn nth]; [reflexivity | apply IH; lia].
Qed.
Lemma nth_firstn_ge {A} (d : A) : forall (n j : nat) (l : list A), (n <= j)%nat -> nth j (firstn n l) d = d.
Proof. intros n j l H. apply nth_overflow. rewrite firstn_length. lia. Qed.
Lemma nth_skipn_plus {A} (d : A) : forall (n j : nat) (l : list A), nth j (skipn n l) d = nth (n + j) l d.
Proof.
  induction n as [|n IH]; intros j l; [reflexivity|]. destruct l as [|x l]; [destruct j; reflexivity|]. cbn [skipn plus nth]. apply IH.
Qed.
Lemma sub_app {A} (a a' b b' : list A) : sub a a' -> sub b b' -> sub (a ++ b) (a' ++ b').
Proof.
  intros H1 H2. induction H1; cbn [app].
  - induction l; cbn [app]; [exact H2 | constructor; assumption].
  - apply sub_skip. exact IHsub.
  - apply sub_take. exact IHsub.
Qed.
Lemma sub_in {A} (a b : list A) x : sub a b -> In x a -> In x b.
Proof. induction 1; intro H0; [contradiction | right; auto | destruct H0; [left; assumption | right; auto]]. Qed.

Section Mark.
Variable dep : N.
Notation mk := (glob_marked dep).

Lemma mk_dline : mk dline = false.
Proof. unfold glob_marked, dline. cbn [lgl]. apply N.bits_0. Qed.

Lemma mids_app a b : mids dep (a ++ b) = mids dep a ++ mids dep b.
Proof. unfold mids. rewrite filter_app, map_app. reflexivity. Qed.

(* ---------------------------------------------------------------------------------------- *)
(* (a) the marking loop of ec_glob: for (i = beg + 1; i < end; i++) lbuf_globset(xb, i, xgdep) *)

Definition setm (x : line) : line := set_lgl x (N.setbit (lgl x) dep).
Definition nomarks (L : list line) : Prop := Forall (fun x => mk x = false) L.

Fixpoint mark_rng (i n : nat) (L : list line) : list line :=
  match L with
  | [] => []
  | x :: L' =>
    match i with
    | S i' => x :: mark_rng i' n L'
    | O => match n with O => x :: L' | S n' => setm x :: mark_rng 0 n' L' end
    end
  end.

Lemma mark_rng_0 : forall L i, mark_rng i 0 L = L.
Proof. induction L as [|x L IH]; intro i; [reflexivity|]. destruct i; cbn [mark_rng]; [reflexivity | rewrite IH; reflexivity]. Qed.

Lemma upd_line_mark_rng : forall L i n, mark_rng (S i) n (upd_line i setm L) = mark_rng i (S n) L.
Proof.
  induction L as [|x L IH]; intros i n; [destruct i; reflexivity|]. destruct i; cbn [upd_line mark_rng]; [reflexivity|].
  rewrite IH. reflexivity.
Qed.

Lemma globset_range_lns : forall n i l, lns (globset_range n i dep l) = mark_rng i n (lns l).
Proof.
  induction n as [|n IH]; intros i l; cbn [globset_range]; [rewrite mark_rng_0; reflexivity|].
  rewrite IH. unfold lbuf_globset. cbn [lns with_lns]. apply upd_line_mark_rng.
Qed.

Lemma mk_setm x : mk (setm x) = true.
Proof. unfold glob_marked, setm, set_lgl. cbn [lgl]. apply N.setbit_eq. Qed.

Lemma mids_nomarks L : nomarks L -> mids dep L = [].
Proof. induction 1 as [|x L Hx H IH]; [reflexivity|]. rewrite mids_cons, Hx. exact IH. Qed.

Lemma nomarks_mids L : mids dep L = [] -> nomarks L.
Proof.
  induction L as [|x L IH]; intro H; [constructor|]. rewrite mids_cons in H. destruct (mk x) eqn:Mx; [discriminate|].
  constructor; [exact Mx | apply IH, H].
Qed.

Lemma mids_mark_rng : forall L i n, nomarks L -> mids dep (mark_rng i n L) = map lid (firstn n (skipn i L)).
Proof.
  induction L as [|x L IH]; intros i n H; [destruct i, n; reflexivity|]. inversion H as [|? ? Hx HL]; subst.
  destruct i as [|i]; cbn [mark_rng skipn].
  - destruct n as [|n]; [apply (mids_nomarks (x :: L) H)|].
    rewrite mids_cons, mk_setm. cbn [firstn map]. f_equal. exact (IH 0%nat n HL).
  - rewrite mids_cons, Hx. apply IH, HL.
Qed.

Lemma nth_mark_rng_lt : forall L i n j, (j < i)%nat -> nth j (mark_rng i n L) dline = nth j L dline.
Proof.
  induction L as [|x L IH]; intros i n j H; [reflexivity|]. destruct i as [|i]; [lia|]. cbn [mark_rng].
  destruct j; cbn [nth]; [reflexivity | apply IH; lia].
Qed.

Lemma map_lid_mark_rng : forall L i n, map lid (mark_rng i n L) = map lid L.
Proof.
  induction L as [|x L IH]; intros i n; [reflexivity|]. destruct i as [|i]; cbn [mark_rng].
  - destruct n; [reflexivity|]. cbn [map]. rewrite IH. reflexivity.
  - cbn [map]. rewrite IH. reflexivity.
Qed.

Lemma nomarks_nth L j : nomarks L -> mk (nth j L dline) = false.
Proof. intro H. revert j. induction H; intro j; destruct j; cbn [nth]; auto using mk_dline. Qed.

(* the state ec_glob enters its loop with satisfies the loop invariant of glob_visits: no row up to beg is marked,
   the still-marked identities are exactly those of rows beg+1 .. beg+n (= end-1), in order *)
Theorem marking_ginv L b n : nomarks L ->
  ginv dep (map lid (firstn n (skipn (S b) L))) (lid (nth b L dline)) b (mark_rng (S b) n L) [].
Proof.
  intro H. split.
  - intros j Hj. rewrite nth_mark_rng_lt by lia. apply nomarks_nth, H.
  - exists []. split; [cbn [app]; rewrite nth_mark_rng_lt by lia; reflexivity|].
    cbn [app]. rewrite mids_mark_rng by exact H. apply sub_refl.
Qed.

(* ---------------------------------------------------------------------------------------- *)
(* (b) completeness at the normal end of the scan *)

Variable rfind : bytes -> bytes -> bool -> option (nat * nat).
Variable exec : bytes -> st -> st * Z.

Lemma glob_loop_x_vis pat body not : forall fuel i s vis,
  fst (glob_loop_x rfind exec fuel i pat body not dep s vis) = glob_loop_vis rfind exec fuel i pat body not dep s vis.
Proof.
  induction fuel as [|f IH]; intros i s vis; [reflexivity|]. cbn [glob_loop_x glob_loop_vis].
  destruct (nth_error (lns (lb s)) i) as [x|]; [|reflexivity].
  destruct (if Bool.eqb _ not then exec body (set_xrow s (Z.of_nat i)) else (s, 0%Z)) as [s1 r].
  destruct (_ && _); [reflexivity|]. destruct (glob_scan _ dep (lb s1)) as [j l]. apply IH.
Qed.

Hypothesis exec_ok : good_exec exec dep.
Variable keeps : nat -> Prop.
Hypothesis exec_keeps : keeps_exec exec dep keeps.

Definition ginv2 (M0 : list nat) (first : nat) (i : nat) (L : list line) (vis : list nat) : Prop :=
  (i < length L)%nat /\ clean_below dep (S i) L /\
  exists vs, vis ++ [lid (nth i L dline)] = first :: vs /\ sub (vs ++ mids dep L) M0 /\
             (forall m, In m M0 -> keeps m -> In m (vs ++ mids dep L)).

Theorem glob_complete M0 first pat body not : forall fuel i s vis,
  ginv2 M0 first i (lns (lb s)) (map fst vis) ->
  let '(s', vis', x) := glob_loop_x rfind exec fuel i pat body not dep s vis in
  x = 0%N ->
  exists vs, map fst vis' = first :: vs /\ sub vs M0 /\ mids dep (lns (lb s')) = [] /\
             (forall m, In m M0 -> keeps m -> In m vs).
Proof.
  induction fuel as [|f IH]; intros i s vis (Li & Hc & vs & Hv & Hs & Hk); cbn [glob_loop_x]; [discriminate|].
  destruct (nth_error (lns (lb s)) i) as [x|] eqn:Nx; [|apply nth_error_None in Nx; lia].
  assert (Ex : nth i (lns (lb s)) dline = x) by (apply nth_error_nth; exact Nx).
  rewrite Ex in Hv.
  set (run := Bool.eqb _ not).
  destruct (if run then exec body (set_xrow s (Z.of_nat i)) else (s, 0%Z)) as [s1 r] eqn:EB.
  set (i1 := if run then Z.to_nat (Z.min (Z.of_nat i) (xrow s1)) else i).
  assert (B : sub (mids dep (lns (lb s1))) (mids dep (lns (lb s))) /\ clean_below dep i1 (lns (lb s1)) /\
              (forall m, keeps m -> In m (mids dep (lns (lb s))) -> In m (mids dep (lns (lb s1))))).
  { unfold i1. destruct run.
    - destruct (exec_ok body (set_xrow s (Z.of_nat i)) s1 r EB) as [B1 B2].
      + cbn [xrow set_xrow]. lia.
      + cbn [xrow set_xrow lb]. rewrite Nat2Z.id. exact Hc.
      + split; [exact B1|]. split; [cbn [xrow set_xrow] in B2; exact B2|].
        intros m Km Im. exact (exec_keeps body (set_xrow s (Z.of_nat i)) s1 r m EB Km Im).
    - inversion EB; subst. split; [apply sub_refl|]. split; [intros j Hj; apply Hc; lia | auto]. }
  destruct B as (B1 & B2 & B3).
  assert (Hs1 : sub (vs ++ mids dep (lns (lb s1))) M0) by (eapply sub_trans; [apply sub_app_head; exact B1 | exact Hs]).
  assert (Hk1 : forall m, In m M0 -> keeps m -> In m (vs ++ mids dep (lns (lb s1)))).
  { intros m Im Km. specialize (Hk m Im Km). apply in_app_or in Hk. apply in_or_app. destruct Hk; [left; assumption | right; auto]. }
  destruct (run && negb (r =? 0)%Z); [discriminate|].
  unfold glob_scan.
  destruct (mids dep (lns (lb s1))) as [|m ms] eqn:ML.
  - rewrite (scan_none dep _ i1 ML). rewrite app_nil_r in Hs1.
    destruct f as [|f']; cbn [glob_loop_x]; [discriminate|].
    cbn [lb set_lb with_lns lns].
    replace (nth_error (lns (lb s1)) (length (lns (lb s1)))) with (@None line) by (symmetry; apply nth_error_None; lia).
    intros _. exists vs. split; [rewrite map_fst_app; exact Hv|]. split; [exact Hs1|]. split; [exact ML|].
    intros m Im Km. specialize (Hk1 m Im Km). rewrite app_nil_r in Hk1. exact Hk1.
  - pose proof (scan_some dep (lns (lb s1)) i1 m ms B2 ML) as SS. pose proof (scan_len dep (lns (lb s1)) i1) as SL.
    destruct (scan_l i1 dep (lns (lb s1))) as [j L2]. destruct SS as (J1 & J0 & J2 & J3 & J4). cbn [fst snd] in SL.
    specialize (IH j (set_lb s1 (with_lns (lb s1) L2)) (vis ++ [(lid x, run)])).
    assert (G : ginv2 M0 first j (lns (lb (set_lb s1 (with_lns (lb s1) L2)))) (map fst (vis ++ [(lid x, run)]))).
    { cbn [lb set_lb with_lns lns]. split; [lia|]. split; [exact J4|]. exists (vs ++ [m]). split.
      - rewrite map_fst_app. cbn [fst]. rewrite Hv, J2. reflexivity.
      - rewrite J3, <- app_assoc. split; [exact Hs1 | exact Hk1]. }
    exact (IH G).
Qed.

End Mark.

(* ---------------------------------------------------------------------------------------- *)
(* (c) what lbuf_replace / lbuf_edit do to the marks *)

Section Track.
Variable dep : N.
Notation mk := (glob_marked dep).

Lemma mids_mknew_sub : forall t old nid, sub (mids dep (mknew old t nid)) (mids dep old).
Proof.
  induction t as [|x t IH]; intros old nid; [constructor|]. destruct old as [|o old]; cbn [mknew].
  - rewrite mids_cons. unfold glob_marked at 1. cbn [lgl]. rewrite N.bits_0. apply IH.
  - rewrite !mids_cons. change (mk (mkline (lid o) (lgl o) x)) with (mk o). cbn [lid].
    destruct (mk o); [apply sub_take | ]; apply IH.
Qed.

Lemma split3 {A} (pos n_del : nat) (L : list A) : firstn pos L ++ firstn n_del (skipn pos L) ++ skipn (pos + n_del) L = L.
Proof.
  replace (skipn (pos + n_del) L) with (skipn n_del (skipn pos L)) by (rewrite skipn_skipn; reflexivity).
  rewrite firstn_skipn. apply firstn_skipn.
Qed.

(* marks only travel with surviving lines; new lines are born unmarked *)
Lemma replace_mids_sub s pos n_del l : sub (mids dep (lns (lbuf_replace s pos n_del l))) (mids dep (lns l)).
Proof.
  rewrite lbuf_replace_lns. unfold splice, new_of.
  set (t := match s with Some b => split_lines b | None => [] end).
  assert (G : sub (mids dep (firstn pos (lns l) ++ mknew (firstn n_del (skipn pos (lns l))) t (nextid l) ++ skipn (pos + n_del) (lns l)))
                  (mids dep (firstn pos (lns l) ++ firstn n_del (skipn pos (lns l)) ++ skipn (pos + n_del) (lns l)))).
  { rewrite !mids_app. apply sub_app; [apply sub_refl|]. apply sub_app; [apply mids_mknew_sub | apply sub_refl]. }
  rewrite split3 in G. exact G.
Qed.

Lemma edit_mids_sub s b e l : sub (mids dep (lns (lbuf_edit s b e l))) (mids dep (lns l)).
Proof.
  unfold lbuf_edit. destruct (_ && _); [apply sub_refl|].
  eapply sub_trans; [apply replace_mids_sub|]. rewrite lbuf_opt_lns. apply sub_refl.
Qed.

(* exactly: the new lines carry the marks of the first |t| replaced lines *)
Lemma mids_mknew_eq : forall t old nid, mids dep (mknew old t nid) = mids dep (firstn (length t) old).
Proof.
  induction t as [|x t IH]; intros old nid; [reflexivity|]. destruct old as [|o old]; cbn [mknew length firstn].
  - rewrite mids_cons. unfold glob_marked at 1. cbn [lgl]. rewrite N.bits_0. rewrite IH. destruct (length t); reflexivity.
  - rewrite !mids_cons. change (mk (mkline (lid o) (lgl o) x)) with (mk o). cbn [lid]. rewrite IH. reflexivity.
Qed.

(* a splice that puts in at least as many lines as it takes out drops no mark at all *)
Lemma replace_mids_eq s pos n_del l :
  (n_del <= length (match s with Some b => split_lines b | None => [] end))%nat ->
  mids dep (lns (lbuf_replace s pos n_del l)) = mids dep (lns l).
Proof.
  intro H. rewrite lbuf_replace_lns. unfold splice, new_of.
  set (t := match s with Some b => split_lines b | None => [] end) in *.
  rewrite <- (split3 pos n_del (lns l)) at 4. rewrite !mids_app. f_equal. f_equal.
  rewrite mids_mknew_eq. rewrite firstn_all2; [reflexivity|]. rewrite firstn_length. lia.
Qed.

Lemma edit_mids_eq s b e l :
  (Nat.min e (length (lns l)) - Nat.min b (length (lns l)) <= length (match s with Some x => split_lines x | None => [] end))%nat ->
  mids dep (lns (lbuf_edit s b e l)) = mids dep (lns l).
Proof.
  intro H. unfold lbuf_edit. destruct (_ && _); [reflexivity|]. rewrite replace_mids_eq by exact H. reflexivity.
Qed.

(* a mark is dropped only together with its line: an identity that is still in the buffer after the splice and was
   marked before is still marked -- provided identities are unique and fresh ones are new (nextid above all) *)
Lemma mknew_mk : forall t old nid r, mk (nth r (mknew old t nid) dline) = true -> mk (nth r old dline) = true.
Proof.
  induction t as [|x t IH]; intros old nid r H; [destruct r; cbn [mknew nth] in H; rewrite mk_dline in H; discriminate|].
  destruct old as [|o old]; cbn [mknew] in H.
  - destruct r as [|r]; cbn [nth] in H.
    + unfold glob_marked in H. cbn [lgl] in H. rewrite N.bits_0 in H. discriminate.
    + apply IH in H. destruct r; exact H.
  - destruct r as [|r]; cbn [nth] in *; [exact H | eapply IH; exact H].
Qed.

Lemma old_mk (pos n_del r : nat) (L : list line) :
  mk (nth r (firstn n_del (skipn pos L)) dline) = true -> mk (nth (pos + r) L dline) = true.
Proof.
  intro H. destruct (Nat.lt_ge_cases r n_del) as [Lt|Ge].
  - rewrite nth_firstn_lt in H by exact Lt. rewrite nth_skipn_plus in H. exact H.
  - rewrite nth_firstn_ge in H by exact Ge. rewrite mk_dline in H. discriminate.
Qed.

(* rows below k stay unmarked when the splice does not shrink the buffer, or when k does not reach past the new lines *)
Lemma replace_clean s pos n_del l k :
  (pos + n_del <= length (lns l))%nat ->
  clean_below dep k (lns l) ->
  (n_del <= length (match s with Some b => split_lines b | None => [] end) \/
   k <= pos + length (match s with Some b => split_lines b | None => [] end))%nat ->
  clean_below dep k (lns (lbuf_replace s pos n_del l)).
Proof.
  intros Hl Hc Hk j Hj. rewrite lbuf_replace_lns. unfold splice, new_of.
  set (t := match s with Some b => split_lines b | None => [] end) in *.
  set (new := mknew (firstn n_del (skipn pos (lns l))) t (nextid l)).
  assert (Ln : length new = length t) by apply mknew_length.
  assert (Lf : length (firstn pos (lns l)) = pos) by (rewrite firstn_length; lia).
  destruct (Nat.lt_ge_cases j pos) as [A|A].
  - rewrite app_nth1 by lia. rewrite nth_firstn_lt by exact A. apply Hc, Hj.
  - rewrite app_nth2 by lia. rewrite Lf.
    destruct (Nat.lt_ge_cases (j - pos) (length t)) as [B|B].
    + rewrite app_nth1 by lia. destruct (mk (nth (j - pos) new dline)) eqn:M; [|reflexivity].
      apply mknew_mk, old_mk in M. replace (pos + (j - pos))%nat with j in M by lia. rewrite (Hc j Hj) in M. discriminate.
    + rewrite app_nth2 by lia. rewrite Ln, nth_skipn_plus. apply Hc. lia.
Qed.

Lemma edit_clean s b e l k :
  clean_below dep k (lns l) ->
  (Nat.min e (length (lns l)) - Nat.min b (length (lns l)) <= length (match s with Some x => split_lines x | None => [] end) \/
   k <= Nat.min b (length (lns l)) + length (match s with Some x => split_lines x | None => [] end))%nat ->
  clean_below dep k (lns (lbuf_edit s b e l)).
Proof.
  intros Hc Hk. unfold lbuf_edit. destruct (_ && _); [exact Hc|].
  apply replace_clean; [rewrite lbuf_opt_lns; lia | rewrite lbuf_opt_lns; exact Hc | exact Hk].
Qed.

Lemma clean_mono k k' L : (k <= k')%nat -> clean_below dep k' L -> clean_below dep k L.
Proof. intros H Hc j Hj. apply Hc. lia. Qed.

(* length of the edited buffer *)
Lemma edit_len s (b e : nat) l : (b <= e)%nat -> (e <= length (lns l))%nat ->
  length (lns (lbuf_edit s b e l)) = (length (lns l) - (e - b) + length (match s with Some x => split_lines x | None => [] end))%nat.
Proof.
  intros H1 H2. rewrite lbuf_edit_lns by assumption. rewrite splice_length by assumption. unfold new_of. rewrite mknew_length. reflexivity.
Qed.

Lemma split_aux_nl_nonempty : forall a cur, (1 <= length (split_lines_aux (a ++ [nl]) cur))%nat.
Proof.
  induction a as [|c a IH]; intro cur; cbn [app split_lines_aux].
  - unfold nl at 1. cbn. lia.
  - destruct (c =? nl)%N; [cbn [length]; lia | apply IH].
Qed.

(* ---------------------------------------------------------------------------------------- *)
(* (d) tracks_low for the single commands *)

Variable rvalid : bytes -> bool.
Variable rfind : bytes -> bytes -> bool -> option (nat * nat).
Variable filter : bytes -> bytes -> option bytes.
Variable readfile : bytes -> option bytes.
Variable curpath : bytes.

Definition Ls (s : st) : list line := lns (lb s).

(* "the command neither marks a line nor pulls a marked one up": for every k *)
Definition noshrink (s s' : st) : Prop :=
  mids dep (Ls s') = mids dep (Ls s) /\ forall k, clean_below dep k (Ls s) -> clean_below dep k (Ls s').

Lemma noshrink_same s s' : lb s' = lb s -> noshrink s s'.
Proof. intro E. unfold noshrink, Ls. rewrite E. split; [reflexivity | auto]. Qed.

Lemma noshrink_lns s s' : lns (lb s') = lns (lb s) -> noshrink s s'.
Proof. intro E. unfold noshrink, Ls. rewrite E. split; [reflexivity | auto]. Qed.

Lemma noshrink_trans s1 s2 s3 : noshrink s1 s2 -> noshrink s2 s3 -> noshrink s1 s3.
Proof. intros [A1 A2] [B1 B2]. split; [rewrite B1; exact A1 | auto]. Qed.

Lemma noshrink_edit s t (b e : Z) :
  (Nat.min (Z.to_nat e) (length (Ls s)) - Nat.min (Z.to_nat b) (length (Ls s)) <= length (match t with Some x => split_lines x | None => [] end))%nat ->
  noshrink s (edit s t b e).
Proof.
  intro H. unfold noshrink, Ls, edit. cbn [lb set_lb]. split; [apply edit_mids_eq; exact H|].
  intros k Hc. apply edit_clean; [exact Hc | left; exact H].
Qed.

Lemma subst_rows_noshrink : forall n i pat rep g s, noshrink s (subst_rows rfind n i pat rep g s).
Proof.
  induction n as [|n IH]; intros i pat rep g s; cbn [subst_rows]; [apply noshrink_same; reflexivity|].
  eapply noshrink_trans; [|apply IH].
  destruct (line_at s i) as [x|] eqn:LA; [|apply noshrink_same; reflexivity].
  destruct (subst_line _ _ _ _ _ _ _) as [[r|] rest]; [|apply noshrink_same; reflexivity].
  apply noshrink_edit. cbn [length]. unfold split_lines. rewrite app_assoc.
  pose proof (split_aux_nl_nonempty (r ++ rest) []). lia.
Qed.

Definition tracks (s s' : st) : Prop :=
  sub (mids dep (Ls s')) (mids dep (Ls s)) /\
  clean_below dep (Z.to_nat (Z.min (xrow s) (xrow s'))) (Ls s').

Lemma noshrink_tracks s s' : (0 <= xrow s)%Z -> clean_below dep (S (Z.to_nat (xrow s))) (Ls s) -> noshrink s s' -> tracks s s'.
Proof. intros H0 Hc [A B]. split; [rewrite A; apply sub_refl|]. apply B. eapply clean_mono; [|exact Hc]. lia. Qed.

Ltac regd loc s :=
  let E := fresh "E" in destruct (ex_region rvalid rfind loc s) as [[[?bad ?b] ?e] ?s1] eqn:E;
  let R := fresh "R" in pose proof (region_slen _ _ _ _ _ _ _ _ E) as R.

Lemma put_noshrink loc arg s : noshrink s (fst (ec_put rvalid rfind loc arg s)).
Proof.
  unfold ec_put. destruct (reg_special _); [apply noshrink_same; reflexivity|].
  destruct (reg_get s _) as [buf|]; [|apply noshrink_same; reflexivity]. regd loc s.
  destruct (_ && _); [apply noshrink_same; exact R|]. cbn [fst].
  eapply noshrink_trans; [apply (noshrink_same s s1 R)|].
  apply (noshrink_trans _ (edit s1 (Some buf) e e)); [apply noshrink_edit; lia | apply noshrink_same; reflexivity].
Qed.

Lemma read_noshrink loc arg s : noshrink s (fst (ec_read rvalid rfind readfile curpath loc arg s)).
Proof.
  unfold ec_read. destruct (_ || _); [apply noshrink_same; reflexivity|]. regd loc s.
  destruct (_ && _); [apply noshrink_same; exact R|]. destruct (readfile _) as [data|]; [|apply noshrink_same; exact R]. cbn [fst].
  eapply noshrink_trans; [apply (noshrink_same s s1 R)|].
  set (pos := if (slen s1 =? 0)%Z then 0%Z else e).
  apply (noshrink_trans _ (edit s1 (Some data) pos pos)); [apply noshrink_edit; lia | apply noshrink_same; reflexivity].
Qed.

Lemma substitute_noshrink loc arg s : noshrink s (fst (ec_substitute rvalid rfind loc arg s)).
Proof.
  unfold ec_substitute. regd loc s. destruct bad; [apply noshrink_same; exact R|]. destruct (re_read arg) as [pat rest].
  assert (K : noshrink s (kwdset_if s1 pat 1)) by (apply noshrink_same; rewrite kwdset_if_lb; exact R).
  destruct pat as [p|]; [|exact K]. destruct rest as [|c rest]; [exact K|]. destruct (re_read _) as [rep flags].
  destruct (negb _); [exact K|]. destruct (kwddir _ =? 0)%Z; [exact K|]. destruct (negb _); [exact K|]. cbn [fst].
  eapply noshrink_trans; [exact K | apply subst_rows_noshrink].
Qed.

Lemma print_same loc cmd s : lb (fst (ec_print rvalid rfind loc cmd s)) = lb s.
Proof.
  unfold ec_print. destruct (_ && _); [reflexivity|]. regd loc s. destruct (_ || _); [exact R|].
  cbn [fst lb set_xrow]. rewrite print_lines_lb. exact R.
Qed.

(* a / i / c: the only shrinking case is c with fewer lines than it replaces, and then the new current line is the
   last new line *)
Lemma insert_tracks loc cmd txt s : (0 <= xrow s)%Z -> clean_below dep (S (Z.to_nat (xrow s))) (Ls s) ->
  tracks s (fst (ec_insert rvalid rfind loc cmd txt s)).
Proof.
  intros H0 Hc. unfold ec_insert. regd loc s.
  destruct (bad && (negb (b =? 0)%Z || negb (e =? 0)%Z)) eqn:RJ; [apply noshrink_tracks; [exact H0 | exact Hc | apply noshrink_same; exact R]|].
  cbn [fst].
  assert (BD : (0 <= b <= e)%Z /\ (e <= slen s1)%Z).
  { destruct bad.
    - cbn [andb] in RJ. apply orb_false_iff in RJ. destruct RJ as [R1 R2]. apply negb_false_iff in R1, R2.
      apply Z.eqb_eq in R1, R2. subst. unfold slen, llen. lia.
    - pose proof (region_bounds _ _ _ _ _ _ _ E) as (B1 & B2 & _). lia. }
  destruct BD as [B1 B2].
  set (b' := if (hd0 cmd =? 97)%N && (b <? e)%Z && (b + 1 <=? slen s1)%Z then (b + 1)%Z else b).
  assert (Rb : (b <= b' <= e)%Z).
  { unfold b'. destruct (hd0 cmd =? 97)%N; cbn [andb]; [|lia]. destruct (b <? e)%Z eqn:X; cbn [andb]; [|lia].
    destruct (b + 1 <=? slen s1)%Z; lia. }
  clearbody b'.
  set (e' := if (hd0 cmd =? 99)%N then e else b').
  assert (Re : (b' <= e' <= e)%Z) by (unfold e'; destruct (hd0 cmd =? 99)%N; lia).
  clearbody e'.
  set (t := match txt with Some x => split_lines x | None => [] end).
  unfold slen, llen in B2.
  assert (LEN : length (lns (lb (edit s1 txt b' e'))) = (length (lns (lb s1)) - (Z.to_nat e' - Z.to_nat b') + length t)%nat).
  { unfold edit. cbn [lb set_lb]. apply edit_len; lia. }
  unfold tracks, Ls. cbn [lb set_xrow xrow]. split.
  - unfold edit. cbn [lb set_lb]. rewrite <- R. apply edit_mids_sub.
  - unfold edit at 1. cbn [lb set_lb]. apply edit_clean.
    + rewrite R. eapply clean_mono; [|exact Hc]. lia.
    + unfold slen, llen. rewrite LEN. fold t.
      destruct (Nat.le_gt_cases (Z.to_nat e' - Z.to_nat b') (length t)); [left; lia | right; lia].
Qed.

Lemma delete_tracks loc arg s : (0 <= xrow s)%Z -> clean_below dep (S (Z.to_nat (xrow s))) (Ls s) ->
  tracks s (fst (ec_delete rvalid rfind loc arg s)).
Proof.
  intros H0 Hc. unfold ec_delete. regd loc s.
  destruct bad; [apply noshrink_tracks; [exact H0 | exact Hc | apply noshrink_same; exact R]|]. cbn [orb].
  destruct (_ || _); [apply noshrink_tracks; [exact H0 | exact Hc | apply noshrink_same; exact R]|]. cbn [fst].
  pose proof (region_bounds _ _ _ _ _ _ _ E) as (B1 & B2 & _). unfold slen, llen in B2.
  unfold tracks, Ls. cbn [lb set_xrow xrow]. unfold ex_yank, edit. cbn [lb set_lb set_regs]. split.
  - rewrite <- R. apply edit_mids_sub.
  - apply edit_clean; [rewrite R; eapply clean_mono; [|exact Hc]; lia|]. right. cbn [length]. lia.
Qed.

(* a and i (not c) never take a line out *)
Lemma insert_noshrink loc cmd txt s : (hd0 cmd =? 99)%N = false -> noshrink s (fst (ec_insert rvalid rfind loc cmd txt s)).
Proof.
  intro Hc. unfold ec_insert. regd loc s. destruct (_ && _); [apply noshrink_same; exact R|]. cbn [fst]. rewrite Hc.
  eapply noshrink_trans; [apply (noshrink_same s s1 R)|].
  match goal with |- context [edit s1 txt ?x ?x] => set (b' := x) end.
  apply (noshrink_trans _ (edit s1 txt b' b')); [apply noshrink_edit; lia | apply noshrink_same; reflexivity].
Qed.

(* the commands of the property's list that do not run other commands (and the harmless rest: p, k, y, =, rs, ec and the
   null command) *)
Definition track_cmds : list bytes :=
  [[97]; [105]; [99]; [100]; [107]; [112]; [112; 117]; [114]; [114; 115]; [115]; [121]; [61]; [101; 99]; []]%N.

Ltac pick_cmd := unfold ex_simple, is; cbn [bytes_eqb N.eqb Pos.eqb andb orb].

Theorem simple_tracks a loc cmd arg txt s : In a track_cmds ->
  (0 <= xrow s)%Z -> clean_below dep (S (Z.to_nat (xrow s))) (Ls s) ->
  tracks s (fst (ex_simple rvalid rfind filter readfile curpath a loc cmd arg txt s)).
Proof.
  intros Ha H0 Hc. cbn [track_cmds In] in Ha.
  assert (NS : forall s', noshrink s s' -> tracks s s') by (intros; apply noshrink_tracks; assumption).
  repeat (destruct Ha as [Ha|Ha]; [subst a; pick_cmd|]); [..|contradiction].
  - apply insert_tracks; assumption.
  - apply insert_tracks; assumption.
  - apply insert_tracks; assumption.
  - apply delete_tracks; assumption.
  - apply NS, noshrink_lns. unfold ec_mark. regd loc s. destruct (_ || _); cbn [fst lb set_lb]; [rewrite R; reflexivity|].
    rewrite lbuf_mark_lns, R. reflexivity.
  - apply NS, noshrink_same, print_same.
  - apply NS, put_noshrink.
  - apply NS, read_noshrink.
  - apply NS, noshrink_same. unfold ec_rs. destruct txt; reflexivity.
  - apply NS, substitute_noshrink.
  - apply NS, noshrink_same. unfold ec_yank. regd loc s. destruct (_ || _); exact R.
  - apply NS, noshrink_same. unfold ec_lnum. regd loc s. destruct (_ || _); exact R.
  - apply NS, noshrink_same. reflexivity.
  - apply NS, noshrink_same. unfold ec_null. rewrite print_same. reflexivity.
Qed.


(* the commands that never take a line out of the buffer drop no mark at all: a, i, pu, r, s (and p k y = rs ec, null) *)
Definition keep_cmds : list bytes :=
  [[97]; [105]; [107]; [112]; [112; 117]; [114]; [114; 115]; [115]; [121]; [61]; [101; 99]; []]%N.

Theorem simple_keeps a loc cmd arg txt s : In a keep_cmds -> (hd0 cmd =? 99)%N = false ->
  mids dep (Ls (fst (ex_simple rvalid rfind filter readfile curpath a loc cmd arg txt s))) = mids dep (Ls s).
Proof.
  intros Ha Hcm. cbn [keep_cmds In] in Ha.
  assert (NS : forall s', noshrink s s' -> mids dep (Ls s') = mids dep (Ls s)) by (intros s' [A _]; exact A).
  repeat (destruct Ha as [Ha|Ha]; [subst a; pick_cmd|]); [..|contradiction].
  - apply NS, insert_noshrink, Hcm.
  - apply NS, insert_noshrink, Hcm.
  - apply NS, noshrink_lns. unfold ec_mark. regd loc s. destruct (_ || _); cbn [fst lb set_lb]; [rewrite R; reflexivity|].
    rewrite lbuf_mark_lns, R. reflexivity.
  - apply NS, noshrink_same, print_same.
  - apply NS, put_noshrink.
  - apply NS, read_noshrink.
  - apply NS, noshrink_same. unfold ec_rs. destruct txt; reflexivity.
  - apply NS, substitute_noshrink.
  - apply NS, noshrink_same. unfold ec_yank. regd loc s. destruct (_ || _); exact R.
  - apply NS, noshrink_same. unfold ec_lnum. regd loc s. destruct (_ || _); exact R.
  - apply NS, noshrink_same. reflexivity.
  - apply NS, noshrink_same. unfold ec_null. rewrite print_same. reflexivity.
Qed.

End Track.

(* ---------------------------------------------------------------------------------------- *)
(* (e) the final sweep of ec_glob -- for (i = 0; i < lbuf_len(xb); i++) lbuf_globget(xb, i, xgdep) -- leaves no mark
   of this depth anywhere in the buffer, whatever state the loop was left in (also after a failed command list):
   the next global of the same depth starts from `nomarks` *)

Section Sweep.
Variable dep : N.

Fixpoint clr_rng (i n : nat) (L : list line) : list line :=
  match L with
  | [] => []
  | x :: L' =>
    match i with
    | S i' => x :: clr_rng i' n L'
    | O => match n with O => x :: L' | S n' => clear_lgl dep x :: clr_rng 0 n' L' end
    end
  end.

Lemma clr_rng_0 : forall L i, clr_rng i 0 L = L.
Proof. induction L as [|x L IH]; intro i; [reflexivity|]. destruct i; cbn [clr_rng]; [reflexivity | rewrite IH; reflexivity]. Qed.

Lemma upd_line_clr_rng : forall L i n, clr_rng (S i) n (upd_line i (clear_lgl dep) L) = clr_rng i (S n) L.
Proof.
  induction L as [|x L IH]; intros i n; [destruct i; reflexivity|]. destruct i; cbn [upd_line clr_rng]; [reflexivity|].
  rewrite IH. reflexivity.
Qed.

Lemma upd_line_beyond {f} : forall (L : list line) i, (length L <= i)%nat -> upd_line i f L = L.
Proof. induction L as [|x L IH]; intros i H; [destruct i; reflexivity|]. destruct i; cbn [length] in H; [lia|]. cbn [upd_line]. rewrite IH by lia. reflexivity. Qed.

Lemma globget_lns l i : lns (fst (lbuf_globget l i dep)) = upd_line i (clear_lgl dep) (lns l).
Proof.
  unfold lbuf_globget. destruct (nth_error (lns l) i) eqn:N; [reflexivity|]. cbn [fst].
  apply nth_error_None in N. rewrite upd_line_beyond by exact N. reflexivity.
Qed.

Lemma globclear_lns : forall n i l, lns (globclear n i dep l) = clr_rng i n (lns l).
Proof.
  induction n as [|n IH]; intros i l; cbn [globclear]; [rewrite clr_rng_0; reflexivity|].
  rewrite IH, globget_lns. apply upd_line_clr_rng.
Qed.

Lemma clr_all_nomarks : forall L, nomarks dep (clr_rng 0 (length L) L).
Proof. induction L as [|x L IH]; [constructor|]. cbn [length clr_rng]. constructor; [apply mk_clear | exact IH]. Qed.

Theorem sweep_nomarks l : nomarks dep (lns (globclear (length (lns l)) 0 dep l)).
Proof. rewrite globclear_lns. apply clr_all_nomarks. Qed.

Lemma map_lid_clr_rng : forall L i n, map lid (clr_rng i n L) = map lid L.
Proof.
  induction L as [|x L IH]; intros i n; [reflexivity|]. destruct i as [|i]; cbn [clr_rng].
  - destruct n; [reflexivity|]. cbn [map]. rewrite IH. reflexivity.
  - cbn [map]. rewrite IH. reflexivity.
Qed.
End Sweep.

(* a single command of the list is a good executor *)
Theorem single_good_exec dep rvalid rfind filter readfile curpath a loc cmd arg txt : In a track_cmds ->
  good_exec (fun _ s => ex_simple rvalid rfind filter readfile curpath a loc cmd arg txt s) dep.
Proof.
  intros Ha body s s' r E H0 Hc.
  pose proof (simple_tracks dep rvalid rfind filter readfile curpath a loc cmd arg txt s Ha H0 Hc) as T.
  rewrite E in T. exact T.
Qed.

Theorem single_keeps_exec dep rvalid rfind filter readfile curpath a loc cmd arg txt : In a keep_cmds -> (hd0 cmd =? 99)%N = false ->
  keeps_exec (fun _ s => ex_simple rvalid rfind filter readfile curpath a loc cmd arg txt s) dep (fun _ => True).
Proof.
  intros Ha Hc body s s' r m E _ I.
  pose proof (simple_keeps dep rvalid rfind filter readfile curpath a loc cmd arg txt s Ha Hc) as K.
  rewrite E in K. cbn [fst] in K. unfold Ls in K. rewrite K. exact I.
Qed.

(* ---------------------------------------------------------------------------------------- *)
(* the visit theorem from the entry of ec_glob's loop *)

Theorem glob_visits_from_marking dep rfind exec keeps :
  good_exec exec dep -> keeps_exec exec dep keeps ->
  forall s b n pat body not fuel,
  nomarks dep (lns (lb s)) -> (b < length (lns (lb s)))%nat ->
  let M0 := map lid (firstn n (skipn (S b) (lns (lb s)))) in
  let first := lid (nth b (lns (lb s)) dline) in
  let '(s', vis', x) := glob_loop_x rfind exec fuel b pat body not dep (set_lb s (globset_range n (S b) dep (lb s))) [] in
  ((exists vs, map fst vis' = first :: vs /\ sub vs M0) \/ vis' = []) /\
  (x = 0%N -> exists vs, map fst vis' = first :: vs /\ sub vs M0 /\ mids dep (lns (lb s')) = [] /\
                         (forall m, In m M0 -> keeps m -> In m vs)).
Proof.
  intros Hg Hk s b n pat body not fuel Hn Hb M0 first.
  set (s4 := set_lb s (globset_range n (S b) dep (lb s))).
  assert (L4 : lns (lb s4) = mark_rng dep (S b) n (lns (lb s))) by (unfold s4; cbn [lb set_lb]; apply globset_range_lns).
  pose proof (marking_ginv dep (lns (lb s)) b n Hn) as G1. fold M0 first in G1. rewrite <- L4 in G1.
  assert (G2 : ginv2 dep keeps M0 first b (lns (lb s4)) (map fst (@nil (nat * bool)))).
  { destruct G1 as (C & vs & V & S1). split; [rewrite L4, <- (map_length lid), map_lid_mark_rng, map_length; exact Hb|].
    split; [exact C|]. exists vs. split; [exact V|]. split; [exact S1|].
    intros m Im _. cbn [map app] in V. inversion V; subst vs. cbn [app]. rewrite L4, mids_mark_rng by exact Hn. exact Im. }
  pose proof (glob_visits dep rfind exec Hg M0 first pat body not fuel b s4 [] G1) as V.
  pose proof (glob_complete dep rfind exec Hg keeps Hk M0 first pat body not fuel b s4 [] G2) as C.
  rewrite <- (glob_loop_x_vis dep rfind exec pat body not fuel b s4 []) in V.
  destruct (glob_loop_x rfind exec fuel b pat body not dep s4 []) as [[s' vis'] x]. cbn [fst] in V.
  split; [exact V | exact C].
Qed.

(* ---------------------------------------------------------------------------------------- *)
(* (f) the marks survive the growth of the line table: the entries in use are the same before and after the
   re-allocation loop, whatever the fresh memory contains (and the table never shrinks) *)
Lemma mkjunk_length junk : forall k from, length (mkjunk junk k from) = k.
Proof. induction k; intro from; cbn [mkjunk length]; [reflexivity | rewrite IHk; reflexivity]. Qed.

Theorem glob_grow_keeps junk : forall fuel arr n need, (n <= length arr)%nat ->
  firstn n (glob_grow junk fuel arr n need) = firstn n arr /\ (length arr <= length (glob_grow junk fuel arr n need))%nat.
Proof.
  induction fuel as [|f IH]; intros arr n need H; cbn [glob_grow]; [split; [reflexivity | lia]|].
  destruct (need <? length arr)%nat; [split; [reflexivity | lia]|].
  set (nsz := (length arr + (if (length arr =? 0)%nat then 512 else length arr))%nat).
  assert (Hsz : (length arr <= nsz)%nat) by (unfold nsz; lia).
  assert (L : length (firstn n arr ++ mkjunk junk (nsz - n) n) = nsz).
  { rewrite app_length, firstn_length, mkjunk_length. lia. }
  destruct (IH (firstn n arr ++ mkjunk junk (nsz - n) n) n need) as [I1 I2]; [rewrite L; lia|].
  split.
  - rewrite I1. rewrite firstn_app, firstn_firstn, Nat.min_id, firstn_length, Nat.min_l by exact H.
    rewrite Nat.sub_diag. cbn [firstn]. apply app_nil_r.
  - rewrite L in I2. lia.
Qed.

(* the statements of Properties_C15.v that combine the above *)
Lemma marking_ginv_lbuf dep l b n : nomarks dep (lns l) ->
  ginv dep (map lid (firstn n (skipn (S b) (lns l)))) (lid (nth b (lns l) dline)) b (lns (globset_range n (S b) dep l)) [].
Proof. intro H. rewrite globset_range_lns. apply marking_ginv, H. Qed.

Lemma single_commands_track_low dep rvalid rfind filter readfile curpath a loc cmd arg txt :
  In a track_cmds ->
  (forall s, (0 <= xrow s)%Z -> clean_below dep (S (Z.to_nat (xrow s))) (lns (lb s)) ->
     let s' := fst (ex_simple rvalid rfind filter readfile curpath a loc cmd arg txt s) in
     sub (mids dep (lns (lb s'))) (mids dep (lns (lb s))) /\
     clean_below dep (Z.to_nat (Z.min (xrow s) (xrow s'))) (lns (lb s'))) /\
  good_exec (fun _ s => ex_simple rvalid rfind filter readfile curpath a loc cmd arg txt s) dep.
Proof.
  intros Ha. split.
  - intros s H0 Hc. exact (simple_tracks dep rvalid rfind filter readfile curpath a loc cmd arg txt s Ha H0 Hc).
  - apply single_good_exec, Ha.
Qed.

Lemma trace_erasure dep rfind exec pat body not fuel i s vis :
  fst (glob_loop_vis rfind exec fuel i pat body not dep s vis) = glob_loop rfind exec fuel i pat body not dep s /\
  fst (glob_loop_x rfind exec fuel i pat body not dep s vis) = glob_loop_vis rfind exec fuel i pat body not dep s vis.
Proof. split; [apply glob_loop_vis_erase | apply glob_loop_x_vis]. Qed.

Lemma keep_track a : In a keep_cmds -> In a track_cmds.
Proof. unfold keep_cmds, track_cmds. cbn [In]. intuition. Qed.

(* a global whose command list is ONE command that never takes a line out (a, i, pu, r, s, p, k, y, =) visits, when it
   ends normally, the first line of its range and then EVERY other line of the original range, each once, in order *)
Theorem nondeleting_global_visits_all dep rvalid rfind filter readfile curpath a loc cmd arg txt :
  In a keep_cmds -> (hd0 cmd =? 99)%N = false ->
  forall s b n pat body not fuel,
  nomarks dep (lns (lb s)) -> (b < length (lns (lb s)))%nat ->
  let M0 := map lid (firstn n (skipn (S b) (lns (lb s)))) in
  let first := lid (nth b (lns (lb s)) dline) in
  let '(s', vis', x) := glob_loop_x rfind (fun _ s => ex_simple rvalid rfind filter readfile curpath a loc cmd arg txt s)
                          fuel b pat body not dep (set_lb s (globset_range n (S b) dep (lb s))) [] in
  x = 0%N -> exists vs, map fst vis' = first :: vs /\ sub vs M0 /\ (forall m, In m M0 -> In m vs) /\ mids dep (lns (lb s')) = [].
Proof.
  intros Ha Hc s b n pat body not fuel Hn Hb M0 first.
  pose proof (glob_visits_from_marking dep rfind _ (fun _ => True)
                (single_good_exec dep rvalid rfind filter readfile curpath a loc cmd arg txt (keep_track a Ha))
                (single_keeps_exec dep rvalid rfind filter readfile curpath a loc cmd arg txt Ha Hc)
                s b n pat body not fuel Hn Hb) as V.
  cbv zeta in V. fold M0 first in V.
  destruct (glob_loop_x _ _ fuel b pat body not dep _ []) as [[s' vis'] x].
  destruct V as [_ V]. intro X. destruct (V X) as (vs & E & S1 & Z0 & K). exists vs. split; [exact E|]. split; [exact S1|].
  split; [intros m Im; exact (K m Im I) | exact Z0].
Qed.
