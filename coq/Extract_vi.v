(* Extract_vi.v -- extraction of the vi motion / operator models to OCaml (ExtrOcamlBasic only). *)
From Coq Require Import List NArith ZArith Extraction ExtrOcamlBasic.
From NV Require Import Bytes UcDefs MotDefs RegDefs ViDefs ViInsDefs.
Definition all_types : nat * N * Z := (0%nat, 0%N, 0%Z).
Extraction "vi_model.ml" all_types buf_of_bytes run_prog init_vst step run ren_pos ren_off positions regs0 reg_put reg_get
  chop flat exec_prog exec_prog_x c_x c_X c_D c_C c_s c_S c_Y c_tilde.
