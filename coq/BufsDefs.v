(* BufsDefs.v -- executable model of the buffer table of ex.c (C20): struct buf bufs[16], bufs_cnt,
   bufs_find, bufs_findroom, bufs_init, bufs_open, bufs_save, bufs_load, bufs_shift, bufs_switch,
   bufs_number, bufs_modified, ec_buffer, ec_edit (incl. the existing-path shortcut, e #, e!, ew),
   ex_next/ec_next/ec_prev, ec_write (whole buffer), ec_quit (q, q!), ex_command.

   The line buffer (struct lbuf) is an ABSTRACT payload: a type L with the operations the table
   code calls on it (record lops).  Everything that acts on the current buffer and the globals
   only (ex line commands, undo, redo, printing) is one abstract operation lb_op.  A concrete
   instance (clb: text + snapshot history + the useq counters) is used for extraction and for the
   refutation witness.  No proofs in this file.

   Not modelled: the file type field ft, the +cmd argument of :e, xaw (autowrite, assumed off),
   :x/:wq/:xa, partial writes (C02), read errors.  Time: the whole session happens within one clock
   second, so mtime(path) is TNOW for an existing file and -1 otherwise. *)
From Coq Require Import List ZArith NArith Bool Lia.
From NV Require Import GenConsts.
Import ListNotations.
Open Scope Z_scope.

Definition path := list N.
Definition content := list (list N).       (* a file / a buffer text as a list of lines *)
Definition NB : nat := Z.to_nat NBUFS.      (* LEN(bufs), generated from ex.c *)
Definition TNOW : Z := 1.

Fixpoint path_eqb (a b : path) : bool :=
  match a, b with
  | [], [] => true
  | x :: a', y :: b' => N.eqb x y && path_eqb a' b'
  | _, _ => false
  end.

Record view := mkview { v_row : Z; v_off : Z; v_top : Z; v_left : Z; v_td : Z }.
Definition view0 : view := mkview 0 0 0 0 1.    (* bufs_init *)
Definition viewz : view := mkview 0 0 0 0 0.    (* a zeroed slot *)

(* generic list helpers *)
Fixpoint first_idx {A} (f : A -> bool) (l : list A) : option nat :=
  match l with
  | [] => None
  | x :: r => if f x then Some 0%nat else option_map S (first_idx f r)
  end.
Fixpoint set_nth {A} (l : list A) (i : nat) (x : A) : list A :=
  match l, i with
  | [], _ => []
  | _ :: r, O => x :: r
  | y :: r, S i' => y :: set_nth r i' x
  end.
(* bufs_switch on the table: slot idx moves to the front, slots 0..idx-1 move down (Appendix E.6) *)
Definition switch {A} (l : list A) (idx : nat) : list A :=
  match nth_error l idx with
  | None => l
  | Some x => x :: firstn idx l ++ skipn (S idx) l
  end.

(* The file a path spelling denotes on disk, relative to the session's directory: the components between slashes, without
   the empty ones and ".", and with "d/.." removed (every directory named in a path exists and is not a symbolic link --
   assumption of the model; the generated sessions only name the existing directory "sub").  The BUFFER TABLE never uses
   this: bufs_find / bufs_open / ec_write keep and compare the path exactly as typed (`./a` and `a` are two buffers);
   only open(2) -- fs_get / fs_put below, used by edit_read and ec_write -- goes through fskey. *)
Fixpoint comps (p : path) (cur : path) : list path :=
  match p with
  | [] => [rev cur]
  | c :: r => if N.eqb c 47 then rev cur :: comps r [] else comps r (c :: cur)
  end.
Definition is_dot (c : path) : bool := path_eqb c [46%N].
Definition is_dotdot (c : path) : bool := path_eqb c [46%N; 46%N].
(* stk: the components kept so far, innermost first *)
Fixpoint norm_comps (abs : bool) (cs : list path) (stk : list path) : list path :=
  match cs with
  | [] => rev stk
  | c :: r =>
      match c with
      | [] => norm_comps abs r stk
      | _ => if is_dot c then norm_comps abs r stk
             else if is_dotdot c then
               match stk with
               | [] => if abs then norm_comps abs r [] else norm_comps abs r [c]
               | t :: stk' => if is_dotdot t then norm_comps abs r (c :: stk) else norm_comps abs r stk'
               end
             else norm_comps abs r (c :: stk)
      end
  end.
Fixpoint join_comps (cs : list path) : path :=
  match cs with
  | [] => []
  | [c] => c
  | c :: r => c ++ 47%N :: join_comps r
  end.
Definition fskey (p : path) : path :=
  match p with
  | [] => []
  | c :: _ =>
      let abs := N.eqb c 47 in
      let k := join_comps (norm_comps abs (comps p []) []) in
      if abs then 47%N :: k else k
  end.

Fixpoint fs_get (fs : list (path * content)) (p : path) : option content :=
  match fs with
  | [] => None
  | (q, c) :: r => if path_eqb (fskey q) (fskey p) then Some c else fs_get r p
  end.
Fixpoint fs_put (fs : list (path * content)) (p : path) (c : content) : list (path * content) :=
  match fs with
  | [] => [(p, c)]
  | (q, d) :: r => if path_eqb (fskey q) (fskey p) then (q, c) :: r else (q, d) :: fs_put r p c
  end.
Definition mtime (fs : list (path * content)) (p : path) : Z :=
  match fs_get fs p with Some _ => TNOW | None => -1 end.

Inductive msg := MModified | MNoSuch | MNoMore | MNotSet | MWriteFail | MWrote.
Inductive parg := PNone | PLit (p : path) | PCur | PAlt.

Section Model.
Context {L Op Out : Type}.

(* what the table code needs from lbuf.c *)
Record lops := mklops {
  lb_make : L;                                   (* lbuf_make *)
  lb_modified : L -> L * bool;                   (* lbuf_modified: useq++, seq != useq_zero *)
  lb_rd : content -> L -> L;                     (* lbuf_rd(lb, fd, 0, lbuf_len(lb)) *)
  lb_saved : bool -> L -> L;                     (* lbuf_saved(lb, clear) *)
  lb_len : L -> Z;                               (* lbuf_len *)
  lb_text : L -> content;                        (* what lbuf_wr writes for the whole buffer *)
  lb_op : Op -> L -> view -> (L * view) * list Out   (* any command on the current buffer + globals *)
}.
Variable Lo : lops.

Record buf := mkbuf { b_id : Z; b_path : path; b_lb : L; b_view : view; b_mtime : Z }.
Definition slot := option buf.

Record st := mkst {
  bufs : list slot;          (* bufs[16]: slot 0 current, slot 1 alternate, None = lb == NULL *)
  cnt : Z;                   (* bufs_cnt *)
  xv : view;                 (* xrow xoff xtop xleft xtd *)
  fs : list (path * content);
  args : list path;          (* next[] *)
  next_pos : Z;
  xwa : bool;
  xquit : bool;
  pct : path                 (* register % *)
}.

Inductive ev :=
| EvRead | EvMsg (m : msg) | EvList (l : list (Z * nat * path * bool)) | EvOut (o : list Out).

Inductive cmd :=
| CEdit (bang ew : bool) (a : parg)
| CBufList | CBufDel | CBufRenum | CBufId (n : Z) | CBufNext | CBufPrev | CBufAlias (k : nat)
| CNext | CPrev
| CQuit (bang : bool)
| CWrite (bang : bool) (p : option path)
| CSetWa (b : bool)
| COp (o : Op).

Definition set_bufs (s : st) (l : list slot) : st :=
  mkst l (cnt s) (xv s) (fs s) (args s) (next_pos s) (xwa s) (xquit s) (pct s).
Definition set_cnt (s : st) (n : Z) : st :=
  mkst (bufs s) n (xv s) (fs s) (args s) (next_pos s) (xwa s) (xquit s) (pct s).
Definition set_xv (s : st) (v : view) : st :=
  mkst (bufs s) (cnt s) v (fs s) (args s) (next_pos s) (xwa s) (xquit s) (pct s).
Definition set_fs (s : st) (f : list (path * content)) : st :=
  mkst (bufs s) (cnt s) (xv s) f (args s) (next_pos s) (xwa s) (xquit s) (pct s).
Definition set_next_pos (s : st) (n : Z) : st :=
  mkst (bufs s) (cnt s) (xv s) (fs s) (args s) n (xwa s) (xquit s) (pct s).
Definition set_xwa (s : st) (b : bool) : st :=
  mkst (bufs s) (cnt s) (xv s) (fs s) (args s) (next_pos s) b (xquit s) (pct s).
Definition set_xquit (s : st) (b : bool) : st :=
  mkst (bufs s) (cnt s) (xv s) (fs s) (args s) (next_pos s) (xwa s) b (pct s).
Definition set_pct (s : st) (p : path) : st :=
  mkst (bufs s) (cnt s) (xv s) (fs s) (args s) (next_pos s) (xwa s) (xquit s) p.

Definition set_lb (b : buf) (l : L) : buf := mkbuf (b_id b) (b_path b) l (b_view b) (b_mtime b).
Definition set_view (b : buf) (v : view) : buf := mkbuf (b_id b) (b_path b) (b_lb b) v (b_mtime b).
Definition set_id (b : buf) (i : Z) : buf := mkbuf i (b_path b) (b_lb b) (b_view b) (b_mtime b).
Definition set_path (b : buf) (p : path) : buf := mkbuf (b_id b) p (b_lb b) (b_view b) (b_mtime b).
Definition set_mtime (b : buf) (t : Z) : buf := mkbuf (b_id b) (b_path b) (b_lb b) (b_view b) t.

Definition upd_slot (f : buf -> buf) (x : slot) : slot :=
  match x with Some b => Some (f b) | None => None end.
Definition upd0 (f : buf -> buf) (l : list slot) : list slot :=
  match l with x :: r => upd_slot f x :: r | [] => [] end.
Definition upd_at (f : buf -> buf) (l : list slot) (i : nat) : list slot :=
  match nth_error l i with Some x => set_nth l i (upd_slot f x) | None => l end.
Definition bump (b : buf) : buf := set_lb b (fst (lb_modified Lo (b_lb b))).
Definition slot0 (s : st) : slot := match bufs s with x :: _ => x | [] => None end.

(* path = path[0] == '/' && path[1] == '\0' ? "" : path *)
Definition canon (p : path) : path := if path_eqb p [47%N] then [] else p.

Definition has_path (p : path) (x : slot) : bool :=
  match x with Some b => path_eqb (b_path b) p | None => false end.
Definition has_id (n : Z) (x : slot) : bool :=
  match x with Some b => Z.eqb (b_id b) n | None => false end.
Definition is_free (x : slot) : bool := match x with Some _ => false | None => true end.

Definition bufs_find (s : st) (p : path) : option nat := first_idx (has_path (canon p)) (bufs s).

Definition bufs_findroom (s : st) : nat :=
  match first_idx is_free (firstn (NB - 1) (bufs s)) with Some i => i | None => (NB - 1)%nat end.

(* bufs_free(idx) + fill the slot *)
Definition bufs_init (s : st) (idx : nat) (p : path) : st :=
  set_cnt (set_bufs s (set_nth (bufs s) idx (Some (mkbuf (cnt s + 1) p (lb_make Lo) view0 (-1))))) (cnt s + 1).

Definition bufs_open (s : st) (p : path) : st * nat :=
  let idx := bufs_findroom s in (bufs_init s idx (canon p), idx).

Definition bufs_save (s : st) : st := set_bufs s (upd0 (fun b => set_view b (xv s)) (bufs s)).

Definition bufs_load (s : st) : st :=
  match slot0 s with
  | Some b => set_pct (set_xv s (b_view b)) (b_path b)
  | None => set_pct (set_xv s viewz) []
  end.

Definition bufs_shift (s : st) : st := bufs_load (set_bufs s (tl (bufs s) ++ [None])).

(* bufs_save(); if (bufs[0].lb) lbuf_modified(bufs[0].lb);  -- the command ends for the buffer being left *)
Definition bufs_switch (s : st) (idx : nat) : st :=
  let s1 := bufs_save s in
  let s2 := set_bufs s1 (upd0 bump (bufs s1)) in
  bufs_load (set_bufs s2 (switch (bufs s2) idx)).

Fixpoint renum (l : list slot) (n : Z) : list slot * Z :=
  match l with
  | [] => ([], n)
  | Some b :: r => let (r', n') := renum r (n + 1) in (Some (set_id b (n + 1)) :: r', n')
  | None :: r => let (r', n') := renum r n in (None :: r', n')
  end.
Definition bufs_number (s : st) : st :=
  let (l, n) := renum (bufs s) 0 in set_cnt (set_bufs s l) n.

(* bufs_modified(idx, msg) with xaw = 0: the test has the side effect useq++ on that buffer *)
Definition bufs_modified (s : st) (idx : nat) : st * bool :=
  match nth_error (bufs s) idx with
  | Some (Some b) => (set_bufs s (set_nth (bufs s) idx (Some (bump b))), snd (lb_modified Lo (b_lb b)))
  | _ => (s, false)
  end.

(* ec_buffer without argument: the listing stops at the first free slot *)
Fixpoint list_walk (l : list slot) (i : nat) : list slot * list (Z * nat * path * bool) :=
  match l with
  | Some b :: r =>
      let (r', es) := list_walk r (S i) in
      (Some (bump b) :: r', (b_id b, i, b_path b, snd (lb_modified Lo (b_lb b))) :: es)
  | _ => (l, [])
  end.

(* b - : the greatest id below the current one; b + : the least id above it *)
Fixpoint scan_prev (l : list slot) (i : nat) (cur : Z) (best : option (nat * Z)) : option (nat * Z) :=
  match l with
  | [] => best
  | x :: r =>
      let best' := match x with
                   | Some b => if Z.ltb (b_id b) cur
                               then match best with
                                    | None => Some (i, b_id b)
                                    | Some (_, bid) => if Z.gtb (b_id b) bid then Some (i, b_id b) else best
                                    end
                               else best
                   | None => best
                   end in
      scan_prev r (S i) cur best'
  end.
Fixpoint scan_next (l : list slot) (i : nat) (cur : Z) (best : option (nat * Z)) : option (nat * Z) :=
  match l with
  | [] => best
  | x :: r =>
      let best' := match x with
                   | Some b => if Z.gtb (b_id b) cur
                               then match best with
                                    | None => Some (i, b_id b)
                                    | Some (_, bid) => if Z.ltb (b_id b) bid then Some (i, b_id b) else best
                                    end
                               else best
                   | None => best
                   end in
      scan_next r (S i) cur best'
  end.
Definition cur_id (s : st) : Z := match slot0 s with Some b => b_id b | None => 0 end.

Definition occupied (s : st) (idx : nat) : bool :=
  match nth_error (bufs s) idx with Some (Some _) => true | _ => false end.

(* the common tail of ec_buffer: if (idx >= 0 && idx < LEN(bufs) && bufs[idx].lb) ... *)
Definition buffer_goto (s : st) (idx : option nat) : st * list ev :=
  match idx with
  | Some i =>
      if occupied s i then
        if xwa s then (bufs_switch s i, [])
        else let (s1, d) := bufs_modified s 0 in
             if d then (s1, [EvMsg MModified]) else (bufs_switch s1 i, [])
      else (s, [EvMsg MNoSuch])
  | None => (s, [EvMsg MNoSuch])
  end.

Definition ec_buffer_list (s : st) : st * list ev :=
  let (l, es) := list_walk (bufs s) 0 in (set_bufs s l, [EvList es]).
Definition ec_buffer_del (s : st) : st * list ev :=
  let s1 := bufs_shift s in
  (match slot0 s1 with None => bufs_init s1 0 [] | Some _ => s1 end, []).
Definition ec_buffer_renum (s : st) : st * list ev := (bufs_number s, []).
Definition ec_buffer_id (s : st) (n : Z) : st * list ev :=
  buffer_goto s (first_idx (has_id n) (bufs s)).
Definition ec_buffer_prev (s : st) : st * list ev :=
  buffer_goto s (option_map fst (scan_prev (bufs s) 0 (cur_id s) None)).
Definition ec_buffer_next (s : st) : st * list ev :=
  buffer_goto s (option_map fst (scan_next (bufs s) 0 (cur_id s) None)).
Definition ec_buffer_alias (s : st) (k : nat) : st * list ev :=
  buffer_goto s (if Nat.ltb k 3 then Some k else None).

(* ex_pathexpand for the arguments "", "name", "%", "#" *)
Definition pathexpand (s : st) (a : parg) : option path :=
  match a with
  | PNone => Some []
  | PLit p => Some p
  | PCur => match nth_error (bufs s) 0 with
            | Some (Some b) => Some (match b_path b with [] => [47%N] | p => p end)
            | _ => None end
  | PAlt => match nth_error (bufs s) 1 with
            | Some (Some b) => Some (match b_path b with [] => [47%N] | p => p end)
            | _ => None end
  end.

Definition zmax0min (x n : Z) : Z := Z.max 0 (Z.min x (n - 1)).

(* the part of ec_edit after a new or the current buffer has been chosen: read, mark saved, clamp *)
Definition edit_read (s : st) (named : bool) : st * list ev :=
  match slot0 s with
  | Some b =>
      let rd := fs_get (fs s) (b_path b) in
      let lb1 := match rd with Some c => lb_rd Lo c (b_lb b) | None => b_lb b end in
      let lb2 := lb_saved Lo named lb1 in
      let b' := set_mtime (set_lb b lb2) (mtime (fs s) (b_path b)) in
      let n := lb_len Lo lb2 in
      let v := xv s in
      (set_xv (set_bufs s (upd0 (fun _ => b') (bufs s)))
              (mkview (zmax0min (v_row v) n) 0 (zmax0min (v_top v) n) (v_left v) (v_td v)),
       match rd with Some _ => [EvRead] | None => [] end)
  | None => (s, [])
  end.

(* ec_edit(loc, cmd, arg) for cmd in {e, e!, ew, ew!, next, prev} *)
Definition ec_edit (s : st) (bang ew : bool) (a : parg) : st * list ev * bool :=
  let '(s0, refused) :=
    if bang || xwa s then (s, false) else bufs_modified s 0 in
  if refused then (s0, [EvMsg MModified], false) else
  match pathexpand s0 a with
  | None => (s0, [EvMsg MNotSet], false)
  | Some p =>
      let nonempty := match p with [] => false | _ => true end in
      let s1 := if nonempty && ew then
                  match bufs_find s0 p with
                  | Some i => if Nat.ltb 1 i then bufs_switch s0 1 else s0
                  | None => s0
                  end
                else s0 in
      match (if nonempty then bufs_find s1 p else None) with
      | Some i => (bufs_switch s1 i, [], true)
      | None =>
          let s2 := if nonempty || is_free (slot0 s1)
                    then let (s', idx) := bufs_open s1 p in bufs_switch s' idx
                    else s1 in
          let (s3, evs) := edit_read s2 nonempty in
          (s3, evs, true)
      end
  end.

Definition nth_path (l : list path) (i : Z) : option path :=
  if Z.ltb i 0 then None else nth_error l (Z.to_nat i).

(* ex_next(cmd, dis) for dis = +1 / -1 *)
Definition ex_next (s : st) (dis : Z) : st * list ev :=
  let idx := match nth_path (args s) (next_pos s) with Some _ => next_pos s + dis | None => -1 end in
  match nth_path (args s) idx with
  | None => (s, [EvMsg MNoMore])
  | Some p =>
      let '(s1, evs, ok) := ec_edit s false false (PLit p) in
      (if ok then set_next_pos s1 idx else s1, evs)
  end.

(* ec_write for the whole buffer: w, w!, w path, w! path.  The unnamed buffer takes the path AS TYPED for its name
   (bufs[0].path = uc_dup(path)): the third place, after bufs_find and bufs_open, that decides what a buffer is called;
   the file is the one fskey names *)
Definition ec_write (s : st) (bang : bool) (p : option path) : st * list ev :=
  match slot0 s with
  | None => (s, [])
  | Some b =>
      let pth := match p with Some q => q | None => b_path b end in
      let ts := if path_eqb (b_path b) pth then b_mtime b else 0 in
      let mt := mtime (fs s) pth in
      if negb bang && Z.gtb mt ts then (s, [EvMsg MWriteFail])
      else if negb bang && Z.leb ts 0 && Z.geb mt 0 then (s, [EvMsg MWriteFail])
      else match pth with
      | [] => (s, [EvMsg MWriteFail])                (* open("") fails *)
      | _ =>
          let fs' := fs_put (fs s) pth (lb_text Lo (b_lb b)) in
          let b1 := match b_path b with [] => set_path b pth | _ => b end in
          let own := path_eqb (b_path b1) pth in
          let b2 := if own then set_mtime (set_lb b1 (lb_saved Lo false (b_lb b1))) TNOW else b1 in
          let s1 := set_fs (set_bufs s (upd0 (fun _ => b2) (bufs s))) fs' in
          (match b_path b with [] => set_pct s1 pth | _ => s1 end, [EvMsg MWrote])
      end
  end.

(* ec_quit for q (no a, no !): the walk over all slots *)
Fixpoint quit_walk (s : st) (i n : nat) : st * bool :=
  match n with
  | O => (s, false)
  | S n' =>
      let (s1, d) := bufs_modified s i in
      if d then (bufs_switch s1 i, true) else quit_walk s1 (S i) n'
  end.
Definition ec_quit (s : st) (bang : bool) : st * list ev :=
  if bang then (set_xquit s true, [])
  else let (s1, found) := quit_walk s 0 NB in
       if found then (s1, [EvMsg MModified]) else (set_xquit s1 true, []).

Definition ec_op (s : st) (o : Op) : st * list ev :=
  match slot0 s with
  | Some b =>
      let '(lb', v', out) := lb_op Lo o (b_lb b) (xv s) in
      (set_xv (set_bufs s (upd0 (fun b0 => set_lb b0 lb') (bufs s))) v', [EvOut out])
  | None => (s, [])
  end.

Definition ex_exec (s : st) (c : cmd) : st * list ev :=
  match c with
  | CEdit bang ew a => let '(s1, evs, _) := ec_edit s bang ew a in (s1, evs)
  | CBufList => ec_buffer_list s
  | CBufDel => ec_buffer_del s
  | CBufRenum => ec_buffer_renum s
  | CBufId n => ec_buffer_id s n
  | CBufNext => ec_buffer_next s
  | CBufPrev => ec_buffer_prev s
  | CBufAlias k => ec_buffer_alias s k
  | CNext => ex_next s 1
  | CPrev => ex_next s (-1)
  | CQuit bang => ec_quit s bang
  | CWrite bang p => ec_write s bang p
  | CSetWa b => (set_xwa s b, [])
  | COp o => ec_op s o
  end.

(* ex_command: ex_exec, then lbuf_modified(xb) *)
Definition ex_command (s : st) (c : cmd) : st * list ev :=
  let (s1, evs) := ex_exec s c in (set_bufs s1 (upd0 bump (bufs s1)), evs).

(* a command line `c1|c2|...`: ex_exec runs every command (a failing one does not stop the line), then the one
   closing lbuf_modified(xb) of ex_command *)
Fixpoint exec_all (s : st) (cs : list cmd) : st * list ev :=
  match cs with
  | [] => (s, [])
  | c :: r => let (s1, e1) := ex_exec s c in let (s2, e2) := exec_all s1 r in (s2, e1 ++ e2)
  end.
Definition ex_line (s : st) (cs : list cmd) : st * list ev :=
  let (s1, evs) := exec_all s cs in (set_bufs s1 (upd0 bump (bufs s1)), evs).

Fixpoint run (s : st) (cs : list cmd) : st :=
  match cs with
  | [] => s
  | c :: r => if xquit s then s else run (fst (ex_command s c)) r
  end.

Definition init_st (files : list (path * content)) (argv : list path) : st :=
  mkst (repeat None NB) 0 view0 files argv 0 false false [].

(* ex_init: ex_next("e", 0) *)
Definition ex_init (files : list (path * content)) (argv : list path) : st * list ev :=
  let s := init_st files argv in
  let p := match argv with q :: _ => q | [] => [] end in
  let '(s1, evs, _) := ec_edit s false false (match p with [] => PNone | _ => PLit p end) in
  (s1, evs).

End Model.

Arguments lops : clear implicits.
Arguments buf : clear implicits.
Arguments slot : clear implicits.
Arguments st : clear implicits.
Arguments ev : clear implicits.
Arguments cmd : clear implicits.

(* ------------------------------------------------------------------------------------------- *)
(* A concrete line buffer: text, history of whole-text snapshots with sequence numbers, and the
   useq / useq_zero / useq_last counters of lbuf.c (marks are not modelled here). *)

Record clb := mkclb {
  c_text : content;
  c_hist : list (Z * content * content);     (* (seq, text before, text after), oldest first; hist_n = length *)
  c_hu : nat;                                 (* hist_u *)
  c_useq : Z; c_zero : Z; c_last : Z
}.
Definition clb_make : clb := mkclb [] [] 0 1 0 0.
Definition clb_seq (l : clb) : Z :=
  match c_hu l with
  | O => c_last l
  | S k => match nth_error (c_hist l) k with Some (q, _, _) => q | None => c_last l end
  end.
Definition clb_modified (l : clb) : clb * bool :=
  (mkclb (c_text l) (c_hist l) (c_hu l) (c_useq l + 1) (c_zero l) (c_last l), negb (Z.eqb (clb_seq l) (c_zero l))).
(* lbuf_edit of the whole text: lbuf_opt drops the redo tail and logs one entry with seq = useq *)
Definition clb_edit (new : content) (l : clb) : clb :=
  mkclb new (firstn (c_hu l) (c_hist l) ++ [(c_useq l, c_text l, new)]) (S (c_hu l)) (c_useq l) (c_zero l) (c_last l).
Definition clb_saved (clear : bool) (l : clb) : clb :=
  let l1 := if clear then mkclb (c_text l) [] 0 (c_useq l) (c_zero l) (c_useq l) else l in
  fst (clb_modified (mkclb (c_text l1) (c_hist l1) (c_hu l1) (c_useq l1) (clb_seq l1) (c_last l1))).
(* lbuf_undo / lbuf_redo: all entries with the sequence number of the last (next) one *)
Fixpoint undo_loop (h : list (Z * content * content)) (q : Z) (k : nat) (t : content) : nat * content :=
  match k with
  | O => (O, t)
  | S k' => match nth_error h k' with
            | Some (q', before, _) => if Z.eqb q' q then undo_loop h q k' before else (k, t)
            | None => (k, t)
            end
  end.
Fixpoint redo_loop (h : list (Z * content * content)) (q : Z) (fuel k : nat) (t : content) : nat * content :=
  match fuel with
  | O => (k, t)
  | S f => match nth_error h k with
           | Some (q', _, after) => if Z.eqb q' q then redo_loop h q f (S k) after else (k, t)
           | None => (k, t)
           end
  end.
Definition clb_undo (l : clb) : clb :=
  match c_hu l with
  | O => l
  | S k => match nth_error (c_hist l) k with
           | Some (q, _, _) =>
               let (k', t') := undo_loop (c_hist l) q (c_hu l) (c_text l) in
               mkclb t' (c_hist l) k' (c_useq l) (c_zero l) (c_last l)
           | None => l
           end
  end.
Definition clb_redo (l : clb) : clb :=
  match nth_error (c_hist l) (c_hu l) with
  | Some (q, _, _) =>
      let (k', t') := redo_loop (c_hist l) q (length (c_hist l)) (c_hu l) (c_text l) in
      mkclb t' (c_hist l) k' (c_useq l) (c_zero l) (c_last l)
  | None => l
  end.

Inductive cop :=
| OAppend (addr : option Z) (ls : content)      (* [n]a  text . *)
| ODelete (addr : option Z)                     (* [n]d *)
| OSubst (addr : option Z) (tag : list N)       (* [n]s/$/tag/ *)
| OUndo | ORedo
| OEq                                           (* = *)
| OPrintAll                                     (* %p *)
| OPrintAt (n : Z).                             (* np *)
Inductive cout := ONum (n : Z) | OLine (l : list N).

Definition zlen {A} (l : list A) : Z := Z.of_nat (length l).
Definition set_row (v : view) (r : Z) : view := mkview r (v_off v) (v_top v) (v_left v) (v_td v).
Definition set_row_off0 (v : view) (r : Z) : view := mkview r 0 (v_top v) (v_left v) (v_td v).

(* ex_region for no address / one numeric address: (error, beg, end); beg and end are set even
   when the function reports an error, and ec_insert looks at them *)
Definition region (addr : option Z) (row n : Z) : bool * Z * Z :=
  match addr with
  | None => ((row <? 0) || (row >? n), row, if row =? n then row else row + 1)
  | Some a =>
      let e := a in
      let b := if (a - 1 <? 0) && (e =? 0) then 0 else a - 1 in
      ((b <? 0) || (b >=? n) || (e <? b) || (e >? n), b, e)
  end.
(* ex_zero: address 0 is only meaningful for the commands that add text *)
Definition ex_zero (addr : option Z) (b e : Z) : bool :=
  match addr with Some _ => (b =? 0) && (e =? 0) | None => false end.
Definition splice (t : content) (b e : Z) (ins : content) : content :=
  firstn (Z.to_nat b) t ++ ins ++ skipn (Z.to_nat e) t.

Definition cop_run (o : cop) (l : clb) (v : view) : (clb * view) * list cout :=
  let t := c_text l in
  let n := zlen t in
  let row := v_row v in
  match o with
  | OAppend addr ls =>
      (* ec_insert, cmd "a": a failed ex_region is forgiven for the range (0,0) *)
      let '(err, b, e) := region addr row n in
      if err && negb ((b =? 0) && (e =? 0)) then ((l, v), []) else
      let b := if (e >? b) && (b + 1 <=? n) then b + 1 else b in
      let t' := splice t b b ls in
      ((clb_edit t' l, set_row v (Z.max 0 (Z.min (zlen t' - 1) (b + zlen t' - n - 1)))), [])
  | ODelete addr =>
      let '(err, b, e) := region addr row n in
      if err || ex_zero addr b e || (n =? 0) then ((l, v), []) else
      let t' := splice t b e [] in
      ((if b =? e then l else clb_edit t' l, set_row v (Z.max 0 (Z.min b (zlen t' - 1)))), [])
  | OSubst addr tag =>
      let '(err, b, e) := region addr row n in
      if err || (b =? e) then ((l, v), []) else
      match nth_error t (Z.to_nat b) with
      | Some ln => ((clb_edit (splice t b e [ln ++ tag]) l, v), [])
      | None => ((l, v), [])
      end
  | OUndo => ((clb_undo l, v), [])
  | ORedo => ((clb_redo l, v), [])
  | OEq =>
      let '(err, _, e) := region None row n in
      if err then ((l, v), []) else ((l, v), [ONum e])
  | OPrintAll => ((l, set_row_off0 v (Z.max 0 (n - 1))), map OLine t)
  | OPrintAt k =>
      let '(err, b, e) := region (Some k) row n in
      if err || ex_zero (Some k) b e then ((l, v), []) else
      ((l, set_row_off0 v (Z.max b (e - 1))), map OLine (firstn (Z.to_nat (e - b)) (skipn (Z.to_nat b) t)))
  end.

Definition clb_ops : lops clb cop cout :=
  mklops clb_make clb_modified (fun c l => clb_edit c l) clb_saved (fun l => zlen (c_text l)) c_text cop_run.

Definition c_init := @ex_init clb cop cout clb_ops.
Definition c_command := @ex_command clb cop cout clb_ops.
Definition c_line := @ex_line clb cop cout clb_ops.
