(* RsetDefs.v -- model of rset.c: re_groupcount, rset_make (wrapping "(" "(p0)" "|" "(p1)" ... ")",
   grp[] / setgrpcnt[] / grpcnt), rset_find.  No proofs. *)
From Coq Require Import List NArith ZArith Bool Arith.
From NV Require Import Bytes GenConsts ReSyntax ReParse ReEmit ReVM.
Import ListNotations.
Local Open Scope N_scope.

(* re_groupcount: the number of groups of a pattern, or None (= -1) when the pattern is not self-contained:
   an unmatched ')' or an unclosed '(' (dep), a lone backslash at the end, an unclosed bracket.
   skip = bytes the C loop steps over without looking at them:
     if (s[0] == backslash) { if (!s[1]) return -1; s += 2; }
     else if (s[0] == '[') { the statements of regex.c's brk_len(), on the pointer; if (s[0] != ']') return -1; s++; }
     else { if (s[0] == '(') n++, dep++;  if (s[0] == ')' && --dep < 0) return -1;  s++; }
     ... return dep ? -1 : n;                                                                     *)
(* did the bracket scan of brk_len stop at a ']' ? *)
Definition brk_closed (s : bytes) : bool :=
  let n1 := if nthb s 1 =? 94 then 2%nat else 1%nat in
  let n2 := if nthb s n1 =? 93 then S n1 else n1 in
  let n := (n2 + brk_body false (skipn n2 s))%nat in
  nthb s n =? 93.
Fixpoint gcount (s : bytes) (skip : nat) (n dep : nat) : option nat :=
  match s with
  | [] => if Nat.eqb dep 0 then Some n else None
  | c :: r =>
    match skip with
    | S k => gcount r k n dep
    | O =>
      if c =? 92 then (match r with [] => None | _ :: _ => gcount r 1 n dep end)
      else if c =? 91 then (if brk_closed s then gcount r (brk_len s - 1) n dep else None)
      else if c =? 40 then gcount r 0 (S n) (S dep)
      else if c =? 41 then (match dep with O => None | S d => gcount r 0 n d end)
      else gcount r 0 n dep
    end
  end.
Definition re_groupcount_opt (s : bytes) : option nat := gcount s 0 0 0.
Definition re_groupcount (s : bytes) : nat := match re_groupcount_opt s with Some n => n | None => 0%nat end.

(* the number of groups of a parse tree = what rnode_grpnum returns *)
Fixpoint ngroups (t : node) : nat :=
  match t with
  | NNil => 0%nat
  | NAtom _ _ _ => 0%nat
  | NGrp x _ _ _ => (1 + ngroups x)%nat
  | NCat x y => (ngroups x + ngroups y)%nat
  | NAlt x y => (ngroups x + ngroups y)%nat
  end.

(* An executable check of rset_make's bookkeeping against the parser (C10_rset_index): the combined
   pattern is parsed completely, the tree is one outer group around the alternation of one wrapper
   group per non-NULL pattern, and each wrapper contains exactly re_groupcount p groups. *)
Fixpoint somes (res : list (option bytes)) : list bytes :=
  match res with [] => [] | None :: r => somes r | Some p :: r => p :: somes r end.
Definition is_wrap (t : node) (p : bytes) : bool :=
  match t with
  | NGrp x _ mn mx => (mn =? 1)%Z && (mx =? 1)%Z && Nat.eqb (ngroups x) (re_groupcount p)
  | _ => false
  end.
Fixpoint check_alts (body : node) (ps : list bytes) {struct ps} : bool :=
  match ps with
  | [] => false
  | p :: ps' =>
    match ps' with
    | [] => is_wrap body p
    | _ :: _ => match body with NAlt w rest => is_wrap w p && check_alts rest ps' | _ => false end
    end
  end.

Record rset := { rs_prog : prog; rs_cflg : Z; rs_n : nat; rs_grp : list Z; rs_setgrpcnt : list nat; rs_grpcnt : nat }.

(* the combined pattern and the group tables; NULL entries of re[] are None *)
Fixpoint rset_build (res : list (option bytes)) (sb : bytes) (grpcnt : nat) : bytes * list Z * list nat * nat :=
  match res with
  | [] => (sb, [], [], grpcnt)
  | None :: rest =>
    let '(sb', g, sg, gc) := rset_build rest sb grpcnt in (sb', (-1)%Z :: g, O :: sg, gc)
  | Some p :: rest =>
    let sb1 := (if Nat.ltb 1 (length sb) then sb ++ [124] else sb) ++ [40] ++ p ++ [41] in
    let k := re_groupcount p in
    let '(sb', g, sg, gc) := rset_build rest sb1 (grpcnt + 1 + k) in (sb', Z.of_nat grpcnt :: g, k :: sg, gc)
  end.

Definition rset_pattern (res : list (option bytes)) : bytes :=
  let '(sb, _, _, _) := rset_build res [40] 2 in sb ++ [41].

Definition rset_shape (res : list (option bytes)) : bool :=
  match parse_pat (rset_pattern res) with
  | Ok (Some (NGrp body _ mn mx), []) => (mn =? 1)%Z && (mx =? 1)%Z && check_alts body (somes res)
  | _ => false
  end.

(* None = rset_make returns NULL *)
Definition rset_make (res : list (option bytes)) (flg : Z) : ReSyntax.res (option rset) :=
  let '(sb, g, sg, gc) := rset_build res [40] 2 in
  let cflg := if has flg RE_ICASE then REG_ICASE else 0%Z in
  (* if (bad || regcomp(...)): a pattern that is not self-contained fails the whole set, regcomp is not called
     (the group tables computed with a count of -1 are never seen) *)
  if existsb (fun p => match re_groupcount_opt p with None => true | Some _ => false end) (somes res) then Ok None else
  do p <- regcomp (sb ++ [41]);
  match p with
  | None => Ok None
  | Some pr => Ok (Some {| rs_prog := pr; rs_cflg := cflg; rs_n := length res; rs_grp := g ++ [Z.of_nat gc]; rs_setgrpcnt := sg; rs_grpcnt := gc |})
  end.

(* for (i = 0; found && i < rs->n; i++) if (rs->grp[i] >= 0 && subs[rs->grp[i]].rm_so >= 0) set = i; *)
Fixpoint rset_which (grp : list Z) (subs : list (Z * Z)) (i : Z) (set : Z) : Z :=
  match grp with
  | [] => set
  | g :: rest =>
    rset_which rest subs (i + 1)%Z
      (if (0 <=? g)%Z && (0 <=? fst (nth (Z.to_nat g) subs ((-1)%Z, (-1)%Z)))%Z then i else set)
  end.

(* returns (set, grps[0 .. 2n-1] as pairs) and the number of depth cuts; grps is [] when set < 0
   (the C code leaves the caller's array untouched then) *)
Definition rset_find_d (d : nat) (rs : rset) (line : bytes) (n : nat) (flg : Z) : ReSyntax.res (Z * list (Z * Z)) * N :=
  if Nat.leb (rs_grpcnt rs) 2 then (Ok ((-1)%Z, []), 0)
  else
    let eflg := Z.lor REG_NEWLINE (Z.lor (if has flg RE_NOTBOL then REG_NOTBOL else 0%Z) (if has flg RE_NOTEOL then REG_NOTEOL else 0%Z)) in
    match regexec_d d (rs_prog rs) (rs_cflg rs) line (rs_grpcnt rs) eflg with
    | (Ok None, c) => (Ok ((-1)%Z, []), c)
    | (Ok (Some subs), c) =>
      let set := rset_which (firstn (rs_n rs) (rs_grp rs)) subs 0%Z (-1)%Z in
      if (set <? 0)%Z then (Ok (set, []), c)
      else
        let base := Z.to_nat (nth (Z.to_nat set) (rs_grp rs) 0%Z) in
        let cnt := nth (Z.to_nat set) (rs_setgrpcnt rs) O in
        (Ok (set, map (fun i => if Nat.ltb i (cnt + 1) then nth (base + i) subs ((-1)%Z, (-1)%Z) else ((-1)%Z, (-1)%Z)) (seq 0 n)), c)
    | (OOB w, c) => (OOB w, c)
    | (NoFuel, c) => (NoFuel, c)
    end.
Definition rset_find := rset_find_d depth.
