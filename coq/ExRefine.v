(* ExRefine.v -- the ex model (ExDefs.v) refines the reference line editor of ExSpec.v on whole scripts
   (C06_refines_spec): abs (model run) = reference run, by induction over the script. *)
From Coq Require Import List NArith ZArith Bool Lia.
From NV Require Import Bytes ExDefs ExSpec ExProps.
Import ListNotations.
Local Open Scope Z_scope.

(* ---------------------------------------------------------------------------------------- *)
(* what address resolution reads: texts, mark rows, current line, remembered pattern *)
Definition csim (s s' : st) : Prop :=
  texts s = texts s' /\ map fst (marks (lb s)) = map fst (marks (lb s')) /\
  xrow s = xrow s' /\ kwd s = kwd s' /\ kwddir s = kwddir s'.

Definition rest5 (s : st) := (regs s, out s, inp s, xquit s, xwa s).

Lemma csim_len s s' : csim s s' -> length (lns (lb s)) = length (lns (lb s')).
Proof. intros (T & _). unfold texts in T. rewrite <- (map_length ltxt (lns (lb s))), T, map_length. reflexivity. Qed.

Lemma csim_slen s s' : csim s s' -> slen s = slen s'.
Proof. intro H. unfold slen, llen. rewrite (csim_len _ _ H). reflexivity. Qed.

Lemma csim_line_at s s' row : csim s s' -> option_map ltxt (line_at s row) = option_map ltxt (line_at s' row).
Proof.
  intro H. unfold line_at. rewrite (csim_slen _ _ H). destruct ((0 <=? row) && (row <? slen s')); [|reflexivity].
  destruct H as (T & _). unfold texts in T. rewrite <- !nth_error_map, T. reflexivity.
Qed.

Lemma csim_jump s s' m : csim s s' -> lbuf_jump (lb s) m = lbuf_jump (lb s') m.
Proof.
  intros (_ & M & _). unfold lbuf_jump. destruct (markidx m) as [k|]; [|reflexivity].
  assert (E : mark_row (lb s) k = mark_row (lb s') k).
  { unfold mark_row. rewrite <- !(map_nth fst), M. reflexivity. }
  rewrite E. reflexivity.
Qed.

Lemma csim_kwdset s s' p d : csim s s' -> csim (kwdset_if s p d) (kwdset_if s' p d).
Proof. intros (T & M & X & K & D). destruct p as [[|c p]|]; unfold csim; cbn; auto. Qed.

Lemma csim_set_xrow s s' r : csim s s' -> csim (set_xrow s r) (set_xrow s' r).
Proof. intros (T & M & X & K & D). unfold csim; cbn; auto. Qed.

Lemma csim_flag s s' f : csim s s' -> csim (flag s f) (flag s' f).
Proof. intros (T & M & X & K & D). unfold csim; cbn; auto. Qed.

Section Sim.
Variable rvalid : bytes -> bool.
Variable rfind : bytes -> bytes -> bool -> option (nat * nat).

Lemma csim_search_loop : forall f s s' pat row dir, csim s s' ->
  search_loop rfind f s pat row dir = search_loop rfind f s' pat row dir.
Proof.
  induction f as [|f IH]; intros s s' pat row dir H; [reflexivity|]. cbn [search_loop].
  pose proof (csim_line_at s s' row H) as L.
  destruct (line_at s row) as [x|]; destruct (line_at s' row) as [x'|]; cbn in L; try discriminate; [|reflexivity].
  inversion L as [L']. rewrite L'. destruct (rfind pat (ltxt x') false); [reflexivity|]. apply IH, H.
Qed.

Lemma csim_search s s' pat : csim s s' ->
  fst (ex_search rvalid rfind s pat) = fst (ex_search rvalid rfind s' pat) /\
  csim (snd (ex_search rvalid rfind s pat)) (snd (ex_search rvalid rfind s' pat)).
Proof.
  intro H. unfold ex_search. destruct (re_read pat) as [kw rest].
  set (d := if (hd0 pat =? 47)%N then 1 else -1).
  pose proof (csim_kwdset s s' kw d H) as H1.
  set (a := kwdset_if s kw d) in *. set (a' := kwdset_if s' kw d) in *.
  pose proof H1 as (T & M & X & K & D). rewrite D, K.
  destruct (kwddir a' =? 0); [cbn; auto|]. destruct (negb (rvalid (kwd a'))); [cbn; auto|].
  cbn [fst snd]. split; [|exact H1]. rewrite X, (csim_len _ _ H1), (csim_search_loop _ a a' _ _ _ H1). reflexivity.
Qed.

Lemma csim_lineno s s' num : csim s s' ->
  fst (ex_lineno rvalid rfind s num) = fst (ex_lineno rvalid rfind s' num) /\
  csim (snd (ex_lineno rvalid rfind s num)) (snd (ex_lineno rvalid rfind s' num)).
Proof.
  intro H. pose proof (csim_slen _ _ H) as L. pose proof H as (T & M & X & K & D).
  unfold ex_lineno.
  assert (F : forall n rest a a', csim a a' ->
    fst (let '(n', rest') := offsets (S (length rest)) rest n in (n', rest', a)) =
    fst (let '(n', rest') := offsets (S (length rest)) rest n in (n', rest', a')) /\
    csim (snd (let '(n', rest') := offsets (S (length rest)) rest n in (n', rest', a)))
         (snd (let '(n', rest') := offsets (S (length rest)) rest n in (n', rest', a')))).
  { intros n rest a a' Ha. destruct (offsets _ rest n). cbn. auto. }
  rewrite X, L.
  destruct num as [|c rest]; [apply F; exact H|].
  destruct (c =? 46)%N; [apply F; exact H|].
  destruct (c =? 36)%N; [apply F; exact H|].
  destruct (c =? 39)%N.
  { rewrite (csim_jump _ _ (hd0 rest) H). destruct (lbuf_jump (lb s') (hd0 rest)); [apply F; exact H | cbn; auto]. }
  destruct ((c =? 47) || (c =? 63))%N.
  { destruct (csim_search s s' (c :: rest) H) as [E1 E2].
    destruct (ex_search rvalid rfind s (c :: rest)) as [[n r1] a].
    destruct (ex_search rvalid rfind s' (c :: rest)) as [[n' r1'] a']. cbn [fst snd] in *.
    inversion E1; subst. destruct (n' <? 0); [cbn; auto | apply F; exact E2]. }
  destruct (isdigit c); apply F; exact H.
Qed.

Lemma csim_region_loop : forall fuel loc first b e s s', csim s s' ->
  fst (region_loop rvalid rfind fuel loc first b e s) = fst (region_loop rvalid rfind fuel loc first b e s') /\
  csim (snd (region_loop rvalid rfind fuel loc first b e s)) (snd (region_loop rvalid rfind fuel loc first b e s')).
Proof.
  induction fuel as [|f IH]; intros loc first b e s s' H; cbn [region_loop].
  - cbn [fst snd]. split; [reflexivity | apply csim_flag, H].
  - destruct loc as [|c loc]; [cbn; auto|].
    destruct (csim_lineno s s' (c :: loc) H) as [E1 E2].
    destruct (ex_lineno rvalid rfind s (c :: loc)) as [[n rest] s1].
    destruct (ex_lineno rvalid rfind s' (c :: loc)) as [[n' rest'] s1']. cbn [fst snd] in *.
    inversion E1; subst. destruct (n' + 1 <? 0); [cbn; auto|].
    destruct (skip_to_sep rest') as [|c2 rest2]; [cbn; auto|].
    apply IH. destruct (c2 =? 59)%N; [apply csim_set_xrow, E2 | exact E2].
Qed.

Lemma csim_region loc s s' : csim s s' ->
  fst (ex_region rvalid rfind loc s) = fst (ex_region rvalid rfind loc s') /\
  csim (snd (ex_region rvalid rfind loc s)) (snd (ex_region rvalid rfind loc s')).
Proof.
  intro H. pose proof (csim_slen _ _ H) as L. pose proof H as (T & M & X & K & D).
  unfold ex_region. destruct (bytes_eqb loc [37%N]); [rewrite L; cbn; auto|].
  destruct loc as [|c loc]; [rewrite X, L; cbn; auto|].
  destruct (csim_region_loop (S (length (c :: loc))) (c :: loc) true 0 0 s s' H) as [E1 E2].
  destruct (region_loop rvalid rfind (S (length (c :: loc))) (c :: loc) true 0 0 s) as [[[bad b] e] s1].
  destruct (region_loop rvalid rfind (S (length (c :: loc))) (c :: loc) true 0 0 s') as [[[bad' b'] e'] s1'].
  cbn [fst snd] in *. inversion E1; subst. rewrite (csim_slen _ _ E2).
  destruct bad'; [cbn; auto|].
  repeat match goal with |- context [if ?x then _ else _] => destruct x end; cbn; auto.
Qed.

(* address resolution changes the current line, the remembered pattern and the error flags only *)
Lemma kwdset_if_rest s p d : rest5 (kwdset_if s p d) = rest5 s.
Proof. destruct p as [[|c p]|]; reflexivity. Qed.

Lemma ex_search_rest s pat : rest5 (snd (ex_search rvalid rfind s pat)) = rest5 s.
Proof.
  unfold ex_search. destruct (re_read pat) as [kw rest].
  destruct (kwddir _ =? 0); [apply kwdset_if_rest|]. destruct (negb _); apply kwdset_if_rest.
Qed.

Lemma ex_lineno_rest s num : rest5 (snd (ex_lineno rvalid rfind s num)) = rest5 s.
Proof.
  unfold ex_lineno.
  assert (F : forall n rest s', rest5 s' = rest5 s ->
    rest5 (snd (let '(n', rest') := offsets (S (length rest)) rest n in (n', rest', s'))) = rest5 s).
  { intros n rest s' E. destruct (offsets _ rest n). exact E. }
  destruct num as [|c rest]; [apply F; reflexivity|].
  destruct (c =? 46)%N; [apply F; reflexivity|]. destruct (c =? 36)%N; [apply F; reflexivity|].
  destruct (c =? 39)%N; [destruct (lbuf_jump _ _); [apply F|]; reflexivity|].
  destruct (_ || _)%bool.
  - pose proof (ex_search_rest s (c :: rest)) as E. destruct (ex_search rvalid rfind s (c :: rest)) as [[n rest'] s']. cbn [snd] in E.
    destruct (n <? 0); [exact E | apply F; exact E].
  - destruct (isdigit c); apply F; reflexivity.
Qed.

Lemma region_loop_rest : forall fuel loc first b e s,
  rest5 (snd (region_loop rvalid rfind fuel loc first b e s)) = rest5 s.
Proof.
  induction fuel as [|f IH]; intros loc first b e s; [reflexivity|]. cbn [region_loop].
  destruct loc as [|c loc]; [reflexivity|].
  pose proof (ex_lineno_rest s (c :: loc)) as E. destruct (ex_lineno rvalid rfind s (c :: loc)) as [[n rest] s1]. cbn [snd] in E.
  destruct (n + 1 <? 0); [exact E|]. destruct (skip_to_sep rest) as [|c2 rest']; [exact E|].
  rewrite IH. destruct (c2 =? 59)%N; exact E.
Qed.

Lemma ex_region_rest loc s : rest5 (snd (ex_region rvalid rfind loc s)) = rest5 s.
Proof.
  unfold ex_region. destruct (bytes_eqb loc [37%N]); [reflexivity|]. destruct loc as [|c loc]; [reflexivity|].
  pose proof (region_loop_rest (S (length (c :: loc))) (c :: loc) true 0 0 s) as E.
  destruct (region_loop _ _ _ _ _ _ _ s) as [[[bad b] e] s1]. cbn [snd] in E.
  destruct bad; [exact E|]. repeat match goal with |- context [if ?x then _ else _] => destruct x end; exact E.
Qed.

Lemma csim_conc s : csim s (conc (abs s)).
Proof.
  unfold csim, conc, abs, texts. cbn [lb lns marks xrow kwd kwddir r_txt r_marks r_cur r_kwd r_kwddir].
  assert (A : forall l : list bytes, map ltxt (map (mkline 0 0%N) l) = l) by (induction l; cbn; congruence).
  assert (B : forall l : list Z, map fst (map (fun z => (z, @None nat)) l) = l) by (induction l; cbn; congruence).
  rewrite A, B. auto.
Qed.

Lemma abs_addr s s1 : lb s1 = lb s -> rest5 s1 = rest5 s -> abs s1 = r_addr (abs s) (xrow s1) (kwd s1) (kwddir s1).
Proof.
  intros L R. unfold rest5 in R. inversion R as [[R1 R2 R3 R4 R5]].
  unfold abs, r_addr, texts. cbn [r_txt r_out r_regs r_marks r_inp r_quit r_wa]. rewrite L, R1, R2, R3, R4, R5. reflexivity.
Qed.

Theorem region_abs loc s bad b e s1 : ex_region rvalid rfind loc s = (bad, b, e, s1) ->
  ref_region rvalid rfind loc (abs s) = (bad, b, e, abs s1).
Proof.
  intro E. unfold ref_region.
  destruct (csim_region loc s (conc (abs s)) (csim_conc s)) as [E1 E2].
  pose proof (ex_region_lb rvalid rfind loc s) as L. pose proof (ex_region_rest loc s) as R.
  rewrite E in E1, E2, L, R. cbn [fst snd] in *.
  destruct (ex_region rvalid rfind loc (conc (abs s))) as [[[bad' b'] e'] s1']. cbn [fst snd] in *.
  inversion E1; subst. destruct E2 as (_ & _ & X & K & D). rewrite <- X, <- K, <- D.
  rewrite (abs_addr s s1 L R). reflexivity.
Qed.

End Sim.

(* ---------------------------------------------------------------------------------------- *)
(* an edit on the reference state *)

Lemma map_fst_upd {A B} : forall (l : list (A * B)) k v, map fst (upd k v l) = upd k (fst v) (map fst l).
Proof. induction l as [|x l IH]; intros k v; [destruct k; reflexivity|]. destruct k; cbn [upd map]; [reflexivity | rewrite IH; reflexivity]. Qed.

Lemma shift_fst nul pos nd ni m : 0 <= nd -> 0 <= ni ->
  fst (shift_mark nul pos nd ni m) = ref_mark_shift nul pos nd ni (fst m).
Proof.
  intros H1 H2. destruct m as [r g]. unfold shift_mark, ref_mark_shift. cbn [fst].
  destruct nul; cbn [andb];
    repeat match goal with |- context [if ?c then _ else _] => destruct c eqn:? end; cbn [fst andb] in *; try lia; try discriminate.
Qed.

Lemma eqb_nat_Z (a b : nat) : (Z.of_nat a =? Z.of_nat b) = (a =? b)%nat.
Proof. destruct (a =? b)%nat eqn:E; [apply Nat.eqb_eq in E; subst; apply Z.eqb_refl | apply Nat.eqb_neq in E; apply Z.eqb_neq; lia]. Qed.

Lemma marks_edit_abs l t (b e : nat) : (b <= e)%nat -> (e <= length (lns l))%nat ->
  map fst (marks (lbuf_edit t b e l)) = ref_marks_edit t (Z.of_nat b) (Z.of_nat e) (map fst (marks l)).
Proof.
  intros H1 H2. unfold lbuf_edit, ref_marks_edit. rewrite !Nat.min_l by lia. rewrite eqb_nat_Z.
  destruct ((b =? e)%nat && match t with None => true | Some _ => false end); [reflexivity|].
  unfold lbuf_replace, lbuf_opt, lbuf_mark, markcopy.
  change (markidx 91) with (Some 28%nat). change (markidx 93) with (Some 29%nat). cbn [marks lns].
  rewrite !map_fst_upd. cbn [fst]. rewrite map_map.
  change (match t with Some b0 => split_lines b0 | None => [] end) with (opt_lines t).
  rewrite <- (eqb_nat_Z (length (opt_lines t)) 0). change (Z.of_nat 0) with 0.
  replace (if Z.of_nat (length (opt_lines t)) =? 0 then 0 else Z.of_nat (length (opt_lines t)) - 1)
    with (if Z.of_nat (length (opt_lines t)) =? 0 then 0 else Z.of_nat (length (opt_lines t)) - 1) by reflexivity.
  f_equal. f_equal.
  replace (nth 30 (map fst (marks l)) (-1)) with (fst (nth 30 (marks l) (-1, @None nat))) by (symmetry; exact (map_nth fst (marks l) (-1, @None nat) 30)).
  rewrite <- map_fst_upd. rewrite map_map. apply map_ext. intro m.
  rewrite shift_fst by lia. rewrite Nat2Z.inj_sub by lia. reflexivity.
Qed.

Lemma opt_lines_eq t : match t with Some x => split_lines x | None => [] end = opt_lines t.
Proof. reflexivity. Qed.

Lemma abs_edit s t b e : 0 <= b <= e -> e <= slen s ->
  abs (edit s t b e) = r_set (abs s) (splice (Z.to_nat b) (Z.to_nat e) (opt_lines t) (texts s)) (xrow s)
                             (ref_marks_edit t b e (map fst (marks (lb s)))).
Proof.
  intros H1 H2. unfold abs at 1. rewrite texts_edit by assumption. rewrite opt_lines_eq.
  unfold edit. cbn [lb set_lb xrow out regs kwd kwddir inp xquit xwa]. unfold slen, llen in H2. rewrite marks_edit_abs by lia. rewrite !Z2Nat.id by lia.
  reflexivity.
Qed.

Lemma slen_edit s t b e : 0 <= b <= e -> e <= slen s ->
  slen (edit s t b e) = slen s - (e - b) + Z.of_nat (length (opt_lines t)).
Proof.
  intros H1 H2. rewrite !slen_texts. rewrite texts_edit by assumption. rewrite opt_lines_eq.
  rewrite slen_texts in H2. rewrite splice_length by lia. lia.
Qed.

Lemma len_splice (b e : Z) (t l : list bytes) : 0 <= b <= e -> e <= Z.of_nat (length l) ->
  Z.of_nat (length (splice (Z.to_nat b) (Z.to_nat e) t l)) = Z.of_nat (length l) - (e - b) + Z.of_nat (length t).
Proof. intros H1 H2. rewrite splice_length by lia. lia. Qed.

Definition absr (x : st * Z) : rst * Z := (abs (fst x), snd x).

Section Cmds.
Variable rvalid : bytes -> bool.
Variable rfind : bytes -> bytes -> bool -> option (nat * nat).
Variable filter : bytes -> bytes -> option bytes.
Variable readfile : bytes -> option bytes.
Variable curpath : bytes.

(* bounds also for the (0,0) outcome that the text-adding commands accept *)
Lemma region_bounds' loc s bad b e s1 : ex_region rvalid rfind loc s = (bad, b, e, s1) ->
  bad && nonzero b e = false -> 0 <= b <= e /\ e <= slen s1.
Proof.
  intros E C. destruct bad.
  - cbn [andb] in C. unfold nonzero in C. apply orb_false_iff in C. destruct C as [C1 C2].
    apply negb_false_iff, Z.eqb_eq in C1. apply negb_false_iff, Z.eqb_eq in C2. subst. unfold slen, llen. lia.
  - pose proof (region_bounds _ _ _ _ _ _ _ E) as (B1 & B2 & _). lia.
Qed.

Ltac start loc s E :=
  destruct (ex_region rvalid rfind loc s) as [[[?bad ?b] ?e] ?s1] eqn:E; rewrite (region_abs _ _ _ _ _ _ _ _ E).

Lemma abs_insert loc cmd txt s :
  absr (ec_insert rvalid rfind loc cmd txt s) = ref_insert_cmd rvalid rfind loc cmd txt (abs s).
Proof.
  unfold ec_insert, ref_insert_cmd. start loc s E. fold (nonzero b e).
  destruct (bad && nonzero b e) eqn:C; [reflexivity|].
  destruct (region_bounds' _ _ _ _ _ _ E C) as [B1 B2].
  assert (K : ((hd0 cmd =? 97)%N && (b <? e) && (b + 1 <=? slen s1)) = ((hd0 cmd =? 97)%N && (b <? e))).
  { destruct (hd0 cmd =? 97)%N; [|reflexivity]. destruct (b <? e) eqn:X; [|reflexivity]. cbn [andb]. apply Z.leb_le. lia. }
  rewrite K. clear K. unfold absr. cbn [fst snd].
  change (abs (set_xrow ?x ?r)) with (r_cur_set (abs x) r).
  destruct (hd0 cmd =? 99)%N eqn:C99.
  - assert (A : (hd0 cmd =? 97)%N = false) by (apply N.eqb_eq in C99; rewrite C99; reflexivity). rewrite A. cbn [andb].
    rewrite abs_edit, slen_edit by lia. unfold ref_change, r_cur_set, r_set, r_addr. cbn [r_txt r_marks abs r_cur r_out r_regs r_kwd r_kwddir r_inp r_quit r_wa].
    f_equal. f_equal. unfold clampz. rewrite len_splice by (try rewrite <- slen_texts; lia). rewrite <- slen_texts. lia.
  - destruct (hd0 cmd =? 97)%N eqn:C97; cbn [andb].
    + assert (P : 0 <= (if b <? e then b + 1 else b) <= slen s1) by (destruct (b <? e) eqn:X; lia).
      rewrite abs_edit, slen_edit by lia. unfold ref_append, r_cur_set, r_set, r_addr. cbn [r_txt r_marks abs r_cur r_out r_regs r_kwd r_kwddir r_inp r_quit r_wa].
      f_equal. f_equal. unfold clampz. rewrite len_splice by (try rewrite <- slen_texts; lia). rewrite <- slen_texts. lia.
    + rewrite abs_edit, slen_edit by lia. unfold ref_insert, r_cur_set, r_set, r_addr. cbn [r_txt r_marks abs r_cur r_out r_regs r_kwd r_kwddir r_inp r_quit r_wa].
      f_equal. f_equal. unfold clampz. rewrite len_splice by (try rewrite <- slen_texts; lia). rewrite <- slen_texts. lia.
Qed.


Lemma abs_emit s o : abs (emit s o) = r_emit (abs s) [o].
Proof. reflexivity. Qed.

Lemma abs_print_lines : forall l s, abs (print_lines l s) = r_emit (abs s) (rev (map OLine (map ltxt l))).
Proof.
  induction l as [|x l IH]; intro s; [reflexivity|]. cbn [print_lines map rev]. rewrite IH, abs_emit.
  unfold r_emit. cbn [r_txt r_cur r_out r_regs r_marks r_kwd r_kwddir r_inp r_quit r_wa]. rewrite <- app_assoc. reflexivity.
Qed.

Ltac rlen := unfold r_len; cbn [abs r_txt r_cur]; rewrite <- ?slen_texts.

Lemma abs_print loc cmd s : absr (ec_print rvalid rfind loc cmd s) = ref_print_cmd rvalid rfind loc cmd (abs s).
Proof.
  unfold ec_print, ref_print_cmd. rlen.
  destruct ((match cmd, loc with [], [] => true | _, _ => false end) && (slen s <=? xrow s)); [reflexivity|].
  start loc s E. destruct (bad || ex_zero loc b e); [reflexivity|].
  unfold absr, ref_print. cbn [fst snd]. change (abs (set_xrow ?x ?r)) with (r_cur_set (abs x) r).
  rewrite abs_print_lines. cbn [abs r_txt]. unfold texts. rewrite skipn_map, firstn_map. reflexivity.
Qed.

Lemma abs_null loc cmd s : absr (ec_null rvalid rfind loc cmd s) = ref_null_cmd rvalid rfind loc cmd (abs s).
Proof.
  unfold ec_null, ref_null_cmd. rewrite abs_print. rlen. reflexivity.
Qed.

Lemma orb3_false a b c : a || b || c = false -> a = false /\ b = false /\ c = false.
Proof. destruct a, b, c; cbn; auto; discriminate. Qed.

Ltac rfields := cbn [abs r_txt r_marks r_cur r_out r_regs r_kwd r_kwddir r_inp r_quit r_wa].

Lemma abs_delete loc arg s : absr (ec_delete rvalid rfind loc arg s) = ref_delete_cmd rvalid rfind loc arg (abs s).
Proof.
  unfold ec_delete, ref_delete_cmd. start loc s E. rlen.
  destruct (bad || ex_zero loc b e || (slen s1 =? 0)) eqn:C; [reflexivity|].
  apply orb3_false in C. destruct C as (C1 & C2 & C3). subst bad.
  pose proof (region_bounds _ _ _ _ _ _ _ E) as (B1 & B2 & _).
  unfold absr. cbn [fst snd]. change (abs (set_xrow ?x ?r)) with (r_cur_set (abs x) r).
  unfold ex_yank.
  rewrite abs_edit, slen_edit by (try change (slen (set_regs ?x ?g)) with (slen x); lia).
  change (slen (set_regs ?x ?g)) with (slen x).
  unfold ref_delete, r_cur_set, r_set, r_addr, r_regs_set. rfields. cbn [opt_lines length lb set_regs xrow regs kwd kwddir out inp xquit xwa].
  change (texts (set_regs s1 ?g)) with (texts s1).
  f_equal. f_equal.
  - unfold clampz. rewrite len_splice by (try rewrite <- slen_texts; lia). rewrite <- slen_texts. cbn [length]. lia.
  - rewrite cp_range by lia. reflexivity.
Qed.

Lemma abs_yank loc arg s : absr (ec_yank rvalid rfind loc arg s) = ref_yank_cmd rvalid rfind loc arg (abs s).
Proof.
  unfold ec_yank, ref_yank_cmd. start loc s E. rlen.
  destruct (bad || ex_zero loc b e || (slen s1 =? 0)) eqn:C; [reflexivity|].
  apply orb3_false in C. destruct C as (C1 & C2 & C3). subst bad.
  pose proof (region_bounds _ _ _ _ _ _ _ E) as (B1 & B2 & _).
  unfold absr, ex_yank, r_regs_set. cbn [fst snd]. unfold abs at 1. cbn [xrow set_regs regs lb out kwd kwddir inp xquit xwa].
  change (texts (set_regs s1 ?g)) with (texts s1). rfields. rewrite cp_range by lia. reflexivity.
Qed.

Lemma abs_put loc arg s x : ref_put_cmd rvalid rfind loc arg (abs s) = Some x -> absr (ec_put rvalid rfind loc arg s) = x.
Proof.
  unfold ec_put, ref_put_cmd. destruct (reg_special (REG arg)); [discriminate|].
  change (ref_reg_get (abs s) (REG arg)) with (reg_get s (REG arg)).
  destruct (reg_get s (REG arg)) as [buf|]; [|intro H; inversion H; reflexivity].
  start loc s E. fold (nonzero b e). destruct (bad && nonzero b e) eqn:C; [intro H; inversion H; reflexivity|].
  destruct (region_bounds' _ _ _ _ _ _ E C) as [B1 B2].
  intro H. inversion H as [H']. clear H H'.
  unfold absr. cbn [fst snd]. change (abs (set_xrow ?x ?r)) with (r_cur_set (abs x) r).
  rewrite abs_edit, slen_edit by lia.
  assert (L : slen s1 = slen s) by (unfold slen; rewrite (region_slen _ _ _ _ _ _ _ _ E); reflexivity). rewrite <- L.
  unfold ref_put, r_cur_set, r_set, r_addr. rfields. cbn [opt_lines].
  f_equal. f_equal. unfold clampz. rewrite len_splice by (try rewrite <- slen_texts; lia). rewrite <- slen_texts. lia.
Qed.

Lemma abs_lnum loc s : absr (ec_lnum rvalid rfind loc s) = ref_lnum_cmd rvalid rfind loc (abs s).
Proof. unfold ec_lnum, ref_lnum_cmd. start loc s E. destruct (bad || ex_zero loc b e); reflexivity. Qed.

Lemma abs_mark loc arg s : absr (ec_mark rvalid rfind loc arg s) = ref_mark_cmd rvalid rfind loc arg (abs s).
Proof.
  unfold ec_mark, ref_mark_cmd. start loc s E. destruct (bad || ex_zero loc b e); [reflexivity|].
  unfold absr. cbn [fst snd]. unfold abs at 1, r_set. cbn [lb set_lb xrow out regs kwd kwddir inp xquit xwa]. rfields.
  unfold texts. cbn [lb set_lb]. rewrite lbuf_mark_lns. unfold lbuf_mark.
  destruct (markidx (hd0 arg)) as [k|]; [|reflexivity]. cbn [marks]. rewrite map_fst_upd. reflexivity.
Qed.

Lemma abs_read loc arg s x : ref_read_cmd rvalid rfind readfile curpath loc arg (abs s) = Some x ->
  absr (ec_read rvalid rfind readfile curpath loc arg s) = x.
Proof.
  unfold ec_read, ref_read_cmd. destruct (negb (plain_arg arg) || (hd0 arg =? 33)%N); [discriminate|].
  start loc s E. fold (nonzero b e). destruct (bad && nonzero b e) eqn:C; [intro H; inversion H; reflexivity|].
  destruct (region_bounds' _ _ _ _ _ _ E C) as [B1 B2].
  destruct (readfile _) as [data|]; [|intro H; inversion H; reflexivity].
  intro H. inversion H as [H']. clear H H'. rlen.
  set (pos := if slen s1 =? 0 then 0 else e).
  assert (Hpos : 0 <= pos <= slen s1) by (unfold pos; destruct (slen s1 =? 0) eqn:Z0; lia).
  unfold absr. cbn [fst snd]. rewrite abs_emit. change (abs (set_xrow ?x ?r)) with (r_cur_set (abs x) r).
  rewrite abs_edit, slen_edit by lia.
  assert (L : slen s1 = slen s) by (unfold slen; rewrite (region_slen _ _ _ _ _ _ _ _ E); reflexivity). rewrite <- L.
  unfold ref_read, r_emit, r_cur_set, r_set, r_addr. rfields. cbn [opt_lines]. rewrite <- ?slen_texts. try fold pos.
  f_equal. f_equal. lia.
Qed.

Lemma abs_filter loc arg s x : ref_filter_cmd rvalid rfind filter loc arg (abs s) = Some x ->
  absr (ec_exec rvalid rfind filter loc arg s) = x.
Proof.
  unfold ec_exec, ref_filter_cmd. change (r_wa (abs s)) with (xwa s). destruct (xwa s); [|discriminate]. cbn [negb].
  destruct (negb (plain_arg arg)); [discriminate|]. destruct loc as [|c loc]; [discriminate|].
  start (c :: loc) s E. destruct (bad || ex_zero (c :: loc) b e) eqn:C; [intro H; inversion H; reflexivity|].
  apply orb_false_iff in C. destruct C as [C1 C2]. subst bad.
  pose proof (region_bounds _ _ _ _ _ _ _ E) as (B1 & B2 & _).
  rewrite cp_range by lia. rfields. fold (texts s1).
  destruct (filter arg (ref_range (texts s1) b e)) as [rep|]; intro H; inversion H as [H']; clear H H'; [|reflexivity].
  unfold absr. cbn [fst snd]. rewrite abs_edit by lia. reflexivity.
Qed.

Lemma abs_simple a loc cmd arg txt s x :
  ref_simple rvalid rfind filter readfile curpath a loc cmd arg txt (abs s) = Some x ->
  absr (ex_simple rvalid rfind filter readfile curpath a loc cmd arg txt s) = x.
Proof.
  unfold ref_simple, ex_simple.
  destruct (is a [97]%N || is a [105]%N || is a [99]%N); [intro H; inversion H; apply abs_insert|].
  destruct (is a [100]%N); [intro H; inversion H; apply abs_delete|].
  destruct (is a [107]%N); [intro H; inversion H; apply abs_mark|].
  destruct (is a [112]%N); [intro H; inversion H; apply abs_print|].
  destruct (is a [112; 117]%N); [apply abs_put|].
  destruct (is a [113; 33]%N); [intro H; inversion H; reflexivity|].
  destruct (is a [114]%N); [apply abs_read|].
  destruct (is a [114; 115]%N); [unfold ec_rs; destruct txt; intro H; inversion H; reflexivity|].
  destruct (is a [115]%N); [discriminate|].
  destruct (is a [117]%N); [discriminate|].
  destruct (is a [119]%N || is a [119; 33]%N); [discriminate|].
  destruct (is a [121]%N); [intro H; inversion H; apply abs_yank|].
  destruct (is a [33]%N); [apply abs_filter|].
  destruct (is a [61]%N); [intro H; inversion H; apply abs_lnum|].
  destruct (is a [101; 99]%N); [intro H; inversion H; reflexivity|].
  destruct (is a []); [intro H; inversion H; apply abs_null|].
  discriminate.
Qed.

End Cmds.

(* ---------------------------------------------------------------------------------------- *)
(* command lines and scripts *)
Section Script.
Variable rvalid : bytes -> bool.
Variable rfind : bytes -> bytes -> bool -> option (nat * nat).
Variable filter : bytes -> bytes -> option bytes.
Variable readfile : bytes -> option bytes.
Variable curpath : bytes.

Lemma abs_txt src a s :
  ref_txt src a (abs s) = (fst (fst (ex_txt src a s)), snd (fst (ex_txt src a s)), abs (snd (ex_txt src a s))).
Proof.
  unfold ref_txt, ex_txt. change (r_inp (abs s)) with (inp s).
  destruct ((hd0 a =? 114)%N && (hd0 (tl a) =? 115)%N); destruct src;
    repeat match goal with
           | |- context [let '(_, _) := ?x in _] => destruct x
           | |- context [if ?c then _ else _] => destruct c
           end; reflexivity.
Qed.

Lemma abs_bump s : abs (bump s) = abs s.
Proof. reflexivity. Qed.

Lemma abs_at (mexec : bytes -> st -> st * Z) (rexec : bytes -> rst -> option (rst * Z)) loc arg s x :
  (forall ln s0 y, rexec ln (abs s0) = Some y -> absr (mexec ln s0) = y) ->
  ref_at_cmd rvalid rfind rexec loc arg (abs s) = Some x -> absr (ec_at rvalid rfind mexec loc arg s) = x.
Proof.
  intro IH. unfold ec_at, ref_at_cmd. destruct (reg_special (REG arg)); [discriminate|].
  change (ref_reg_get (abs s) (REG arg)) with (reg_get s (REG arg)).
  destruct (reg_get s (REG arg)) as [buf|]; [|intro H; inversion H; reflexivity].
  destruct (ex_region rvalid rfind loc s) as [[[bad b] e] s1] eqn:E. rewrite (region_abs _ _ _ _ _ _ _ _ E).
  destruct (bad || ex_zero loc b e); [intro H; inversion H; reflexivity|].
  change (r_cur_set (abs s1) b) with (abs (set_xrow s1 b)). intro H. specialize (IH _ _ _ H).
  destruct (mexec buf (set_xrow s1 b)) as [s2 r]. unfold absr in *. cbn [fst snd] in *. rewrite abs_bump. exact IH.
Qed.

Theorem exec_refines : forall fuel ret ln s x,
  ref_exec rvalid rfind filter readfile curpath fuel ret ln (abs s) = Some x ->
  absr (ex_exec rvalid rfind filter readfile curpath fuel ret ln s) = x.
Proof.
  induction fuel as [|f IH]; intros ret ln s x; [discriminate|]. cbn [ex_exec ref_exec].
  destruct ln as [|c ln]; [intro H; inversion H; reflexivity|].
  destruct (ex_loc (c :: ln)) as [ln1 loc]. destruct (ex_cmd ln1) as [ln2 cmd].
  set (abbr := match ex_idx cmd with Some a => a | None => _ end).
  destruct (ex_arg ln2 abbr) as [ln3 arg]. rewrite abs_txt.
  destruct (ex_txt ln3 abbr s) as [[ln4 txt] s1]. cbn [fst snd].
  match goal with |- match ?m with Some _ => _ | None => _ end = _ -> _ => destruct m as [[r2 rt2]|] eqn:RM end; [|discriminate].
  intro H.
  match goal with |- absr (let '(s2, ret2') := ?m in _) = _ => assert (M : absr m = (r2, rt2)) end.
  { destruct (ex_idx cmd) as [a|].
    - destruct ((hd0 a =? 103)%N || (hd0 a =? 118)%N); [discriminate|].
      destruct (hd0 a =? 64)%N.
      + apply (abs_at _ _ _ _ _ _ (IH 0) RM).
      + apply abs_simple. exact RM.
    - destruct (is_other cmd); [discriminate|]. inversion RM. reflexivity. }
  match goal with |- absr (let '(s2, ret2') := ?m in _) = _ => destruct m as [s2 ret2'] end.
  unfold absr in M. cbn [fst snd] in M. inversion M; subst. apply IH. exact H.
Qed.

Lemma abs_set_inp s i : abs (set_inp s i) = r_inp_set (abs s) i.
Proof. reflexivity. Qed.
Lemma abs_set_regs s g : abs (set_regs s g) = r_regs_set (abs s) g.
Proof. reflexivity. Qed.

Theorem main_refines : forall n fuel s r',
  ref_main rvalid rfind filter readfile curpath n fuel (abs s) = Some r' ->
  abs (ex_main rvalid rfind filter readfile curpath n fuel s) = r'.
Proof.
  induction n as [|n IH]; intros fuel s r'; [discriminate|]. cbn [ex_main ref_main].
  change (r_quit (abs s)) with (xquit s). change (r_inp (abs s)) with (inp s).
  destruct (xquit s); [intro H; inversion H; reflexivity|].
  destruct (inp s) as [|ln rest]; [intro H; inversion H; reflexivity|].
  rewrite <- abs_set_inp.
  destruct (ref_exec rvalid rfind filter readfile curpath fuel 0 ln (abs (set_inp s rest))) as [[r1 z]|] eqn:RE; [|discriminate].
  pose proof (exec_refines _ _ _ _ _ RE) as M. unfold ex_command.
  destruct (ex_exec rvalid rfind filter readfile curpath fuel 0 ln (set_inp s rest)) as [s1 z']. unfold absr in M. cbn [fst snd] in M.
  inversion M; subst. intro H. apply IH. rewrite abs_set_regs. cbn [regs bump set_lb]. rewrite abs_bump. exact H.
Qed.

(* the same for ONE command (the step of the induction): whatever the state *)
Theorem simple_refines a loc cmd arg txt s x :
  ref_simple rvalid rfind filter readfile curpath a loc cmd arg txt (abs s) = Some x ->
  absr (ex_simple rvalid rfind filter readfile curpath a loc cmd arg txt s) = x.
Proof. apply abs_simple. Qed.

Theorem exec_refines_pair fuel ret ln s r' ret' :
  ref_exec rvalid rfind filter readfile curpath fuel ret ln (abs s) = Some (r', ret') ->
  abs (fst (ex_exec rvalid rfind filter readfile curpath fuel ret ln s)) = r' /\
  snd (ex_exec rvalid rfind filter readfile curpath fuel ret ln s) = ret'.
Proof. intro H. pose proof (exec_refines _ _ _ _ _ H) as E. inversion E. split; reflexivity. Qed.

Theorem simple_refines_pair a loc cmd arg txt s r' ret' :
  ref_simple rvalid rfind filter readfile curpath a loc cmd arg txt (abs s) = Some (r', ret') ->
  abs (fst (ex_simple rvalid rfind filter readfile curpath a loc cmd arg txt s)) = r' /\
  snd (ex_simple rvalid rfind filter readfile curpath a loc cmd arg txt s) = ret'.
Proof. intro H. pose proof (simple_refines _ _ _ _ _ _ _ H) as E. inversion E. split; reflexivity. Qed.

End Script.

(* ---------------------------------------------------------------------------------------- *)
(* the same with the trace of states after every command *)
Section Trace.
Variable rvalid : bytes -> bool.
Variable rfind : bytes -> bytes -> bool -> option (nat * nat).
Variable filter : bytes -> bytes -> option bytes.
Variable readfile : bytes -> option bytes.
Variable curpath : bytes.

Lemma last_nonempty {A} (d d' : A) : forall l b, last (b :: l) d = last (b :: l) d'.
Proof. induction l as [|a l IH]; intro b; [reflexivity|]. change (last (a :: l) d = last (a :: l) d'). apply IH. Qed.
Lemma last_cons {A} (a d : A) l : last (a :: l) d = last l a.
Proof. destruct l as [|b l]; [reflexivity|]. change (last (b :: l) d = last (b :: l) a). apply last_nonempty. Qed.

(* ex_exec_tr is ex_exec: its last state is ex_exec's result (the start state for an empty line) *)
Theorem exec_tr_last : forall fuel ret ln s,
  fst (ex_exec rvalid rfind filter readfile curpath fuel ret ln s) = last (ex_exec_tr rvalid rfind filter readfile curpath fuel ret ln s) s.
Proof.
  induction fuel as [|f IH]; intros ret ln s; [reflexivity|]. cbn [ex_exec ex_exec_tr].
  destruct ln as [|c ln]; [reflexivity|].
  destruct (ex_loc (c :: ln)) as [ln1 loc]. destruct (ex_cmd ln1) as [ln2 cmd].
  set (abbr := match ex_idx cmd with Some a => a | None => _ end).
  destruct (ex_arg ln2 abbr) as [ln3 arg]. destruct (ex_txt ln3 abbr s) as [[ln4 txt] s1].
  match goal with |- fst (let '(s2, ret2) := ?m in _) = _ => destruct m as [s2 ret2] end.
  rewrite last_cons. apply IH.
Qed.

Theorem exec_tr_refines : forall fuel ret ln s t,
  ref_exec_tr rvalid rfind filter readfile curpath fuel ret ln (abs s) = Some t ->
  map abs (ex_exec_tr rvalid rfind filter readfile curpath fuel ret ln s) = t.
Proof.
  induction fuel as [|f IH]; intros ret ln s t; [discriminate|]. cbn [ex_exec_tr ref_exec_tr].
  destruct ln as [|c ln]; [intro H; inversion H; reflexivity|].
  destruct (ex_loc (c :: ln)) as [ln1 loc]. destruct (ex_cmd ln1) as [ln2 cmd].
  set (abbr := match ex_idx cmd with Some a => a | None => _ end).
  destruct (ex_arg ln2 abbr) as [ln3 arg]. rewrite abs_txt.
  destruct (ex_txt ln3 abbr s) as [[ln4 txt] s1]. cbn [fst snd].
  match goal with |- match ?m with Some _ => _ | None => _ end = _ -> _ => destruct m as [[r2 rt2]|] eqn:RM end; [|discriminate].
  intro H.
  match goal with |- map abs (let '(s2, ret2') := ?m in _) = _ => assert (M : absr m = (r2, rt2)) end.
  { destruct (ex_idx cmd) as [a|].
    - destruct ((hd0 a =? 103)%N || (hd0 a =? 118)%N); [discriminate|].
      destruct (hd0 a =? 64)%N.
      + apply (abs_at _ _ _ _ _ _ _ _ (exec_refines rvalid rfind filter readfile curpath f 0) RM).
      + apply abs_simple. exact RM.
    - destruct (is_other cmd); [discriminate|]. inversion RM. reflexivity. }
  match goal with |- map abs (let '(s2, ret2') := ?m in _) = _ => destruct m as [s2 ret2'] end.
  unfold absr in M. cbn [fst snd] in M. inversion M; subst.
  destruct (ref_exec_tr rvalid rfind filter readfile curpath f rt2 ln4 (abs s2)) as [t'|] eqn:RT; [|discriminate].
  inversion H; subst. cbn [map]. f_equal. apply IH. exact RT.
Qed.

Theorem main_tr_refines : forall n fuel s t,
  ref_main_tr rvalid rfind filter readfile curpath n fuel (abs s) = Some t ->
  map abs (ex_main_tr rvalid rfind filter readfile curpath n fuel s) = t.
Proof.
  induction n as [|n IH]; intros fuel s t; [discriminate|]. cbn [ex_main_tr ref_main_tr].
  change (r_quit (abs s)) with (xquit s). change (r_inp (abs s)) with (inp s).
  destruct (xquit s); [intro H; inversion H; reflexivity|].
  destruct (inp s) as [|ln rest]; [intro H; inversion H; reflexivity|].
  rewrite <- abs_set_inp.
  destruct (ref_exec rvalid rfind filter readfile curpath fuel 0 ln (abs (set_inp s rest))) as [[r1 z]|] eqn:RE; [|discriminate].
  destruct (ref_exec_tr rvalid rfind filter readfile curpath fuel 0 ln (abs (set_inp s rest))) as [t1|] eqn:RT; [|discriminate].
  pose proof (exec_refines _ _ _ _ _ _ _ _ _ _ RE) as M. pose proof (exec_tr_refines _ _ _ _ _ RT) as MT.
  unfold ex_command.
  destruct (ex_exec rvalid rfind filter readfile curpath fuel 0 ln (set_inp s rest)) as [s1 z']. unfold absr in M. cbn [fst snd] in *.
  inversion M; subst.
  destruct (ref_main_tr rvalid rfind filter readfile curpath n fuel (r_regs_set (abs s1) (reg_put (r_regs (abs s1)) 58 ln))) as [t2|] eqn:RM; [|discriminate].
  intro H. inversion H; subst. rewrite map_app. f_equal. apply IH.
  rewrite abs_set_regs. cbn [regs bump set_lb]. rewrite abs_bump. exact RM.
Qed.

End Trace.
