(* ReGroups2.v -- C10_rset_index, the semantic half: when rset_find reports index idx for a pattern set that
   passes rset_shape, the match regexec found is a derivation of the set semantics that goes THROUGH the wrapper
   group of alternative idx (not through another alternative): the marks of a group are written only inside that
   group, the group numbers of different alternatives are disjoint, all marks start at -1. *)
From Coq Require Import List Arith Lia Bool ZArith NArith ZifyN ZifyBool ZifyNat.
From NV Require Import Bytes GenConsts ReSyntax ReParse ReEmit ReVM ReSem RsetDefs ReProps ReProps2 ReProps3 ReProps4 ReProps5 ReProps8 ReProps9 ReGroups.
Import ListNotations.

(* group numbers occurring in a regular expression / in a tree *)
Fixpoint rgroups (r : re) : list nat :=
  match r with
  | RAtom _ => []
  | RCat x y | RAlt x y => rgroups x ++ rgroups y
  | RStar x | RPow _ x | RPlus x | ROpt _ x => rgroups x
  | RGrp g x => g :: rgroups x
  end.
Fixpoint tgroups (t : node) : list nat :=
  match t with
  | NNil | NAtom _ _ _ => []
  | NGrp x g _ _ => g :: tgroups x
  | NCat x y | NAlt x y => tgroups x ++ tgroups y
  end.

Lemma rgroups_normal x mn mx : incl (rgroups (normal x mn mx)) (rgroups x).
Proof.
  unfold normal. destruct mn, mx; cbn [rgroups]; try apply incl_refl; apply incl_app; apply incl_refl.
Qed.
Lemma rgroups_rep_re x mn mx : incl (rgroups (rep_re x mn mx)) (rgroups x).
Proof.
  unfold rep_re. destruct ((mn =? 0)%Z && (mx =? 0)%Z); [apply incl_refl|].
  destruct ((mn =? 1)%Z && (mx =? 1)%Z); [apply incl_refl | apply rgroups_normal].
Qed.
Lemma rgroups_tr t : incl (rgroups (tr t)) (tgroups t).
Proof.
  induction t; cbn [tr tgroups].
  - cbn. apply incl_refl.
  - eapply incl_tran; [apply rgroups_rep_re | cbn; apply incl_refl].
  - eapply incl_tran; [apply rgroups_rep_re|]. cbn [rgroups]. intros a [<-|I]; [left; reflexivity | right; apply IHt; exact I].
  - cbn [rgroups]. apply incl_app; [apply incl_appl | apply incl_appr]; assumption.
  - cbn [rgroups]. apply incl_app; [apply incl_appl | apply incl_appr]; assumption.
Qed.

Lemma tgroups_grpnum t : forall num g, In g (tgroups (fst (grpnum t num))) -> num <= g < num + ngroups t.
Proof.
  induction t; intros num g0; cbn [grpnum tgroups ngroups fst]; try (intros []).
  - specialize (IHt (num + 1) g0). destruct (grpnum t (num + 1)) as [x' k]. cbn [fst tgroups] in *. intros [<-|I]; [lia | specialize (IHt I); lia].
  - pose proof (grpnum_ngroups t1 num) as K. specialize (IHt1 num g0). destruct (grpnum t1 num) as [x' k1]. cbn [fst snd] in *. subst k1.
    specialize (IHt2 (num + ngroups t1) g0). destruct (grpnum t2 (num + ngroups t1)) as [y' k2]. cbn [fst tgroups] in *.
    intro I. apply in_app_or in I. destruct I as [I|I]; [specialize (IHt1 I) | specialize (IHt2 I)]; lia.
  - pose proof (grpnum_ngroups t1 num) as K. specialize (IHt1 num g0). destruct (grpnum t1 num) as [x' k1]. cbn [fst snd] in *. subst k1.
    specialize (IHt2 (num + ngroups t1) g0). destruct (grpnum t2 (num + ngroups t1)) as [y' k2]. cbn [fst tgroups] in *.
    intro I. apply in_app_or in I. destruct I as [I|I]; [specialize (IHt1 I) | specialize (IHt2 I)]; lia.
Qed.

(* the wrapper groups of an alternation, in order *)
Fixpoint wrappers (body : node) : list (nat * node) :=
  match body with
  | NGrp x g _ _ => [(g, x)]
  | NAlt (NGrp x g _ _) rest => (g, x) :: wrappers rest
  | _ => []
  end.

Lemma nums_ge ps : forall num G, In G (nums num ps) -> num <= G.
Proof. induction ps as [|p ps IH]; intros num G; cbn [nums]; [intros [] | intros [<-|I]; [lia | specialize (IH _ _ I); lia]]. Qed.

Lemma wraps_sep_gen body ps gs : wraps body ps gs -> forall num, gs = nums num ps ->
  (forall g x, In (g, x) (wrappers body) -> num <= g /\ g + ngroups x < num + total ps /\ (forall h, In h (tgroups x) -> g < h <= g + ngroups x)) /\
  (forall g x G, In (g, x) (wrappers body) -> In G (nums num ps) -> G <> g -> G < g \/ g + ngroups x < G).
Proof.
  induction 1 as [x x0 g p Hx Ex | x x0 g p rest ps gs Hx Ex Hne W IH]; intros num E; cbn [nums] in E; inversion E; subst; clear E.
  - cbn [wrappers nums total]. split.
    + intros g0 x1 [E|[]]. inversion E; subst. split; [lia|]. split; [lia|]. intros h Hh. apply tgroups_grpnum in Hh. rewrite ngroups_grpnum in *. lia.
    + intros g0 x1 G [E|[]] [<-|[]] N. inversion E; subst. lia.
  - cbn [wrappers nums total]. destruct (IH _ eq_refl) as [I1 I2]. split.
    + intros g0 x1 [E|I].
      * inversion E; subst. split; [lia|]. split; [lia|]. intros h Hh. apply tgroups_grpnum in Hh. rewrite ngroups_grpnum in *. lia.
      * destruct (I1 _ _ I) as (A & B & C). split; [lia|]. split; [lia | exact C].
    + intros g0 x1 G [E|I] [<-|J] N.
      * inversion E; subst. lia.
      * inversion E; subst. apply nums_ge in J. lia.
      * destruct (I1 _ _ I) as (A & B & C). lia.
      * eapply I2; eauto.
Qed.
Lemma wraps_sep ps body num : wraps body ps (nums num ps) ->
  (forall g x, In (g, x) (wrappers body) -> num <= g /\ g + ngroups x < num + total ps /\ (forall h, In h (tgroups x) -> g < h <= g + ngroups x)) /\
  (forall g x G, In (g, x) (wrappers body) -> In G (nums num ps) -> G <> g -> G < g \/ g + ngroups x < G).
Proof. intro W. eapply wraps_sep_gen; eauto. Qed.

Lemma wraps_wrappers body ps gs : wraps body ps gs -> map fst (wrappers body) = gs.
Proof. induction 1; cbn [wrappers map fst]; [reflexivity | rewrite IHwraps; reflexivity]. Qed.

Lemma tr_wrap x g : tr (NGrp x g 1 1) = RGrp g (tr x).
Proof. reflexivity. Qed.

Lemma nth_repeat_m1 n : forall i, nth i (repeat (-1)%Z n) (-1)%Z = (-1)%Z.
Proof. induction n; intro i; destruct i; cbn; auto. Qed.

Lemma nth_map_seq {A} (f : nat -> A) n i d : i < n -> nth i (map f (seq 0 n)) d = f i.
Proof.
  intro L. rewrite (nth_indep _ d (f 0)) by (rewrite map_length, seq_length; exact L).
  rewrite map_nth, seq_nth by exact L. reflexivity.
Qed.

Lemma nth_psub marks nsub G : (0 <= fst (nth G (psub_of marks nsub) ((-1)%Z, (-1)%Z)))%Z -> (0 <= nth (2 * G) marks (-1)%Z)%Z.
Proof.
  unfold psub_of. intro H. destruct (lt_dec G nsub) as [L|L].
  - rewrite nth_map_seq in H by exact L.
    destruct (Nat.ltb (G * 2) nmarks); cbn [fst] in H; [replace (2 * G) with (G * 2) by lia; exact H | lia].
  - rewrite nth_overflow in H by (rewrite map_length, seq_length; lia). cbn [fst] in H. lia.
Qed.

Section Frame.
Variable flg : Z.
Variable line : bytes.
Notation M := (ReSem.M st (atom_step flg line) mark_step).

Lemma mk_mark_other m i s : i <> m -> mk (mark_step m s) i = mk s i.
Proof.
  intro N. unfold mark_step, mk. destruct (Z.of_nat m <? NGRPS)%Z; [|reflexivity]. cbn [snd]. apply nth_upd_other. congruence.
Qed.

Lemma atom_step_marks a s s' : atom_step flg line a s = Ok (Some s') -> snd s' = snd s.
Proof.
  unfold atom_step. destruct (ratom_match flg line a (fst s)) as [[q|]| |]; cbn [bind]; try discriminate.
  intro H; inversion H; reflexivity.
Qed.

(* a derivation of r changes only the marks of r's own groups *)
Lemma M_frame r s s' : M r s s' -> forall i, (forall g, In g (rgroups r) -> i <> 2 * g /\ i <> 2 * g + 1) -> mk s' i = mk s i.
Proof.
  induction 1; intros i Hi; cbn [rgroups] in Hi; try reflexivity.
  - unfold mk. erewrite atom_step_marks by eassumption. reflexivity.
  - rewrite IHM2, IHM1; [reflexivity | |]; intros g Hg; apply Hi; apply in_or_app; [left | right]; exact Hg.
  - apply IHM. intros g Hg. apply Hi. apply in_or_app. left. exact Hg.
  - apply IHM. intros g Hg. apply Hi. apply in_or_app. right. exact Hg.
  - rewrite IHM2, IHM1; [reflexivity | |]; exact Hi.
  - destruct (Hi g (or_introl eq_refl)) as [N1 N2].
    rewrite mk_mark_other by exact N2. rewrite IHM by (intros g' Hg'; apply Hi; right; exact Hg'). apply mk_mark_other. exact N1.
  - rewrite IHM2, IHM1; [reflexivity | |]; exact Hi.
  - apply IHM. exact Hi.
  - rewrite IHM2, IHM1; [reflexivity | |]; exact Hi.
  - rewrite IHM2, IHM1; [reflexivity | |]; exact Hi.
Qed.

(* a derivation of the alternation of wrappers is a derivation of exactly one wrapper *)
Lemma wraps_taken body ps gs : wraps body ps gs -> forall s s', M (tr body) s s' ->
  exists g x, In (g, x) (wrappers body) /\ M (RGrp g (tr x)) s s'.
Proof.
  induction 1 as [x x0 g p Hx Ex | x x0 g p rest ps gs Hx Ex Hne W IH]; intros s s' Hm.
  - rewrite tr_wrap in Hm. exists g, x. split; [left; reflexivity | exact Hm].
  - clear Ex Hx. cbn [tr] in Hm. change (tr (NGrp x g 1 1)) with (RGrp g (tr x)) in Hm. inversion Hm; subst.
    + exists g, x. split; [left; reflexivity | assumption].
    + match goal with Hr : ReSem.M _ _ _ (tr rest) _ _ |- _ => destruct (IH _ _ Hr) as (g' & x' & I & Mx) end.
      exists g', x'. split; [right; exact I | exact Mx].
Qed.
End Frame.

Theorem rset_index_semantic res flg rs d line n fl idx g c :
  rset_shape res = true -> rset_make res flg = Ok (Some rs) ->
  rset_find_d d rs line n fl = (Ok (idx, g), c) -> (0 <= idx)%Z ->
  let eflg := Z.lor REG_NEWLINE (Z.lor (if has fl RE_NOTBOL then REG_NOTBOL else 0%Z) (if has fl RE_NOTEOL then REG_NOTEOL else 0%Z)) in
  let f := Z.lor (rs_cflg rs) eflg in
  let G := Z.to_nat (nth (Z.to_nat idx) (firstn (rs_n rs) (rs_grp rs)) (-1)%Z) in
  exists body x p s2 r,
    tree (rs_prog rs) = NGrp body 1 1 1 /\ In (G, x) (wrappers body) /\
    In p (tried line (length line + 2) 0 0) /\
    ReSem.M st (atom_step f line) mark_step (RGrp G (tr x)) (mark_step 2 (mark_step 0 (init p))) s2 /\
    r = mark_step 1 (mark_step 3 s2) /\
    regexec_d d (rs_prog rs) (rs_cflg rs) line (rs_grpcnt rs) eflg = (Ok (Some (psub_of (snd r) (rs_grpcnt rs))), c).
Proof.
  intros Sh Mk Fd Hidx eflg f G.
  destruct (rset_index _ _ _ _ _ _ _ _ Fd Hidx) as (subs & Rx & Hlt & Hbase & Hso & _). cbv zeta in Hbase, Hso. fold eflg in Rx.
  destruct (rset_index_full _ _ _ Sh Mk) as (body & Ht & W & _ & _ & _ & Hn).
  (* the compiled program *)
  assert (Hc : exists pat, regcomp pat = Ok (Some (rs_prog rs))).
  { unfold rset_make in Mk. destruct (rset_build res [40%N] 2) as [[[sb g1] sg] gc].
    destruct (existsb _ (somes res)); [discriminate|].
    destruct (regcomp (sb ++ [41%N])) as [[pr|]| |] eqn:E; cbn [bind] in Mk; try discriminate. inversion Mk; subst. cbn [rs_prog]. eauto. }
  destruct Hc as (pat & Hc). pose proof (regcomp_layout _ _ Hc) as Lay.
  assert (C : code_at (code (rs_prog rs)) 0 ([IMark 0] ++ emit (tr (tree (rs_prog rs))) 1 ++ [IMark 1; IMatch])) by (rewrite <- Lay; apply code_at_self).
  unfold regexec_d in Rx. fold f in Rx.
  destruct (re_loop d (code (rs_prog rs)) f line (length line + 2) 0 0) as [[[r|]| |] c0] eqn:L; inversion Rx; subst subs c0; clear Rx.
  destruct (re_loop_sound d (code (rs_prog rs)) f line (tr (tree (rs_prog rs))) C _ _ _ _ _ L) as (p & s1 & Ip & M1 & Er).
  rewrite Ht in M1. rewrite tr_wrap in M1. inversion M1; subst. rename s' into s2.
  match goal with Hb : ReSem.M _ _ _ (tr body) _ _ |- _ => destruct (wraps_taken f line _ _ _ W _ _ Hb) as (g0 & x & Iw & Mx) end.
  (* G is one of the wrapper numbers and is the one taken *)
  assert (HG : In G (nums 2 (somes res))).
  { rewrite <- Hn. apply in_map. apply filter_In. split; [apply nth_In; lia | unfold nonneg; lia]. }
  rewrite Hn in W.
  destruct (wraps_sep _ _ _ W) as [S1 S2].
  assert (g0 = G) as ->.
  { destruct (Nat.eq_dec G g0) as [E|N]; [symmetry; exact E | exfalso].
    pose proof (nums_ge _ _ _ HG) as G2.
    apply nth_psub in Hso. fold G in Hso.
    change (nth (2 * G) (snd (mark_step 1 (mark_step (2 * 1 + 1) s2))) (-1)%Z) with (mk (mark_step 1 (mark_step (2 * 1 + 1) s2)) (2 * G)) in Hso.
    rewrite !mk_mark_other in Hso by lia.
    destruct (S1 _ _ Iw) as (_ & _ & Tg). specialize (S2 _ _ _ Iw HG N).
    rewrite (M_frame f line _ _ _ Mx) in Hso.
    2:{ intros h Hh. cbn [rgroups] in Hh. destruct Hh as [<-|Hh]; [lia|]. apply rgroups_tr in Hh. specialize (Tg _ Hh). lia. }
    rewrite !mk_mark_other in Hso by lia. unfold mk, init in Hso. cbn [snd] in Hso. rewrite nth_repeat_m1 in Hso. lia. }
  exists body, x, p, s2, (mark_step 1 (mark_step (2 * 1 + 1) s2)).
  split; [exact Ht|]. split; [exact Iw|]. split; [exact Ip|]. split; [exact Mx|]. split; [reflexivity|].
  unfold regexec_d. fold f. rewrite L. reflexivity.
Qed.
