(* RstrEngine5.v -- C12, part 5: the attempt at the terminator position, and the assembly:
   rset_find on the compiled simple pattern answers spec_find. *)
From Coq Require Import List NArith ZArith Bool Arith Lia ZifyBool ZifyNat ZifyN.
From NV Require Import Bytes GenConsts UcDefs UcSpec UcProps UcSegProps RstrDefs RstrProps ReSyntax ReParse ReEmit ReVM RsetDefs ReProps6 ReProps11 RstrEngine RstrEngine2 RstrEngine3 RstrEngine4.
Import ListNotations.
Local Open Scope N_scope.

Section End.
  Variable cs : list N.
  Hypothesis Hs : Forall scalar cs.
  Hypothesis H10 : ~ In 10 (chars cs).
  Variable flg : Z.
  Variable ic nb : bool.
  Hypothesis Fic : has flg REG_ICASE = ic.
  Hypothesis Fnl : has flg REG_NEWLINE = true.
  Hypothesis Fnb : has flg REG_NOTBOL = nb.
  Let L := chars cs ++ [10].
  Let n := length (chars cs).

  Lemma Llen' : length L = S n.
  Proof. unfold L, n. rewrite app_length. cbn. lia. Qed.
  Lemma L_at_n : nth n L 0 = 10.
  Proof. unfold L, n. rewrite app_nth2 by lia. now rewrite Nat.sub_diag. Qed.
  Lemma L_past : nth (S n) L 0 = 0.
  Proof. apply nth_overflow. rewrite Llen'. lia. Qed.

  Lemma A_beg_end : ratom_match flg L ABeg (S n) = Ok None.
  Proof.
    cbn [ratom_match Nat.eqb]. replace (S n - 1)%nat with n by lia. unfold nthb. rewrite L_at_n. cbn [N.eqb Pos.eqb].
    rewrite rdk_nth by (rewrite Llen'; lia). rewrite L_past. cbn [bind N.eqb negb]. now rewrite andb_false_r.
  Qed.

  Lemma A_chr_end lit : lit <> [] -> hd0 lit <> 0 -> ratom_match flg L (AChr lit) (S n) = Ok None.
  Proof.
    intros Hne Hnz. cbn [ratom_match]. destruct (negb (has flg REG_ICASE)).
    - rewrite skipn_all2 by (rewrite Llen'; lia). destruct lit; [congruence|reflexivity].
    - cbn [chr_icase]. assert (E0 : nthb lit 0 = hd0 lit) by (destruct lit; reflexivity). rewrite E0.
      destruct (N.eqb_spec (hd0 lit) 0); [contradiction|].
      destruct (ucdec_ok lit 0 ltac:(lia)) as [c1 E1]. rewrite E1. cbn [bind].
      destruct (ucdec_ok L (S n + 0) ltac:(rewrite Llen'; lia)) as [c2 E2]. rewrite E2. cbn [bind].
      assert (U2 : re_uclen_at L (S n + 0) = 0%nat).
      { unfold re_uclen_at. rewrite skipn_all2 by (rewrite Llen'; lia). reflexivity. }
      assert (U1 : (1 <= re_uclen_at lit 0)%nat) by (unfold re_uclen_at; cbn [skipn]; apply re_uclen_pos; exact Hnz).
      rewrite U2. destruct (Nat.eqb_spec (re_uclen_at lit 0) 0); [lia|]. now rewrite andb_false_r.
  Qed.

  Lemma chain_end sp : (p_lit sp <> [] -> hd0 (p_lit sp) <> 0) ->
    (forall j, (j <= n)%nat -> sat_b sp ic nb L j = false) -> chain flg L (atoms_of sp) (S n) = Ok None.
  Proof.
    intros Hnz Hall. destruct sp as [b1 b2 lit b3 b4]. unfold atoms_of. cbn [p_lbeg p_wbeg p_lit p_wend p_lend] in *.
    destruct b1. { cbn [app chain]. now rewrite A_beg_end. }
    destruct b2.
    { cbn [app chain]. pose proof (A_wbeg cs Hs flg ic nb (S n) ltac:(lia)) as K. fold L in K. rewrite K.
      unfold wbegc. rewrite L_past. change (RstrDefs.isword 0) with false. now rewrite andb_false_r. }
    destruct lit as [|x lit'].
    2:{ cbn [app chain]. rewrite A_chr_end; [reflexivity|discriminate|apply Hnz; discriminate]. }
    destruct b3.
    { cbn [app chain]. pose proof (A_wend cs Hs flg ic nb (S n) ltac:(lia)) as K. fold L in K. rewrite K.
      unfold wendc. replace (S n - 1)%nat with n by lia. rewrite L_at_n. reflexivity. }
    exfalso. destruct b4.
    - specialize (Hall n ltac:(lia)). unfold sat_b in Hall. cbn [p_lbeg p_wbeg p_lit p_wend p_lend length implb] in Hall.
      rewrite Nat.add_0_r, L_at_n in Hall. cbn in Hall. discriminate.
    - specialize (Hall 0%nat ltac:(lia)). cbn in Hall. discriminate.
  Qed.
End End.

(* ------------------------------------------------------------------------------------------ *)
Lemma map_seq_tail {A} (f : nat -> A) (v : A) m : (forall i, (1 <= i)%nat -> f i = v) ->
  map f (seq 0 (S m)) = f 0%nat :: repeat v m.
Proof.
  intro H. cbn [seq map]. f_equal. rewrite <- seq_shift, map_map.
  induction m as [|m IH] using nat_ind; [reflexivity|].
  rewrite seq_S, map_app, IH. cbn [map]. rewrite (H (S (0 + m))) by lia.
  clear. induction m; [reflexivity|]. cbn [repeat app]. now f_equal.
Qed.

Definition eflags (nb ne : bool) : Z := Z.lor (if nb then RE_NOTBOL else 0%Z) (if ne then RE_NOTEOL else 0%Z).
Definition cflags (ic : bool) : Z := if ic then RE_ICASE else 0%Z.

Definition engine_answer (sp : spat) (ic nb : bool) (content : bytes) (n : nat) : ReSyntax.res (Z * list (Z * Z)) * N :=
  match spec_find sp ic nb content with
  | Some i => (Ok (0%Z, (Z.of_nat i, Z.of_nat (i + length (p_lit sp))) :: repeat ((-1)%Z, (-1)%Z) (n - 1)), 0)
  | None => (Ok ((-1)%Z, []), 0)
  end.

(* the hypothesis on the literal atom: at every character boundary of the line it is lit_at *)
Definition chr_at_bounds (flg : Z) (ic : bool) (cs : list N) (lit : bytes) : Prop :=
  forall cs1 cs2, cs = cs1 ++ cs2 -> lit <> [] ->
    ratom_match flg (chars cs ++ [10]) (AChr lit) (length (chars cs1)) =
    Ok (if lit_at ic lit (chars cs ++ [10]) (length (chars cs1)) then Some (length (chars cs1) + length lit)%nat else None).

Lemma find_simple sp ic nb ne cs d n :
  Forall scalar cs -> ~ In 10 (chars cs) -> lit_valid (p_lit sp) -> ~ In 10 (p_lit sp) ->
  chr_at_bounds (Z.lor (if has (cflags ic) RE_ICASE then REG_ICASE else 0%Z)
                   (Z.lor REG_NEWLINE (Z.lor (if has (eflags nb ne) RE_NOTBOL then REG_NOTBOL else 0%Z)
                                             (if has (eflags nb ne) RE_NOTEOL then REG_NOTEOL else 0%Z)))) ic cs (p_lit sp) ->
  (1 <= n)%nat ->
  rset_find_d (S d) (simple_rset (atoms_of sp) (if has (cflags ic) RE_ICASE then REG_ICASE else 0%Z)) (chars cs ++ [10]) n (eflags nb ne) =
  engine_answer sp ic nb (chars cs) n.
Proof.
  intros Hs H10 Hv Hl10 Hchr Hn.
  set (flg := Z.lor _ _) in Hchr.
  assert (Fic : has flg REG_ICASE = ic) by (unfold flg; destruct ic, nb, ne; reflexivity).
  assert (Fnl : has flg REG_NEWLINE = true) by (unfold flg; destruct ic, nb, ne; reflexivity).
  assert (Fnb : has flg REG_NOTBOL = nb) by (unfold flg; destruct ic, nb, ne; reflexivity).
  unfold rset_find_d, simple_rset, regexec_d. cbn [rs_grpcnt rs_prog rs_cflg rs_n rs_grp rs_setgrpcnt code Nat.leb].
  fold flg.
  set (sat := sat_b sp ic nb (chars cs ++ [10])).
  set (res_at := fun j : nat => ((j + length (p_lit sp))%nat, marks_of j (j + length (p_lit sp)))).
  assert (Hnzl : p_lit sp <> [] -> hd0 (p_lit sp) <> 0).
  { intros Hne. destruct Hv as (lcs & E & Hsl). rewrite E in *. destruct lcs as [|c lcs]; [exfalso; apply Hne; reflexivity|].
    inversion Hsl as [|? ? Hc Hsl']. rewrite chars_cons. apply hd0_nz_encode. exact Hc. }
  rewrite (loop_top (S d) (simple_code (atoms_of sp)) flg cs Hs sat res_at).
  - unfold engine_answer, spec_find. fold sat.
    destruct (find sat (seq 0 (S (length (chars cs))))) as [j|]; [|reflexivity].
    unfold res_at. cbn [snd]. rewrite psub_marks.
    cbn [firstn rset_which]. change (Z.to_nat 2) with 2%nat. change (Z.to_nat 0) with 0%nat. cbn [nth fst].
    change (0 <=? 2)%Z with true. replace (0 <=? Z.of_nat j)%Z with true by lia. cbn [andb].
    change (0 <? 0)%Z with false. cbv iota. change (Z.to_nat 2) with 2%nat.
    destruct n as [|m]; [lia|]. replace (S m - 1)%nat with m by lia.
    rewrite (map_seq_tail _ ((-1)%Z, (-1)%Z)); [reflexivity|].
    intros i Hi. destruct i as [|i]; [lia|]. reflexivity.
  - (* character boundaries *)
    intros cs1 cs2 E. rewrite recmatch_simple.
    assert (Hi : (length (chars cs1) <= length (chars cs))%nat) by (rewrite E, chars_app, app_length; lia).
    rewrite (chain_sat cs Hs H10 flg ic nb Fnl Fnb sp (length (chars cs1)) Hi Hl10 (Hchr cs1 cs2 E)).
    fold sat. destruct (sat (length (chars cs1))); reflexivity.
  - (* the terminator position *)
    intro Hall. rewrite recmatch_simple.
    rewrite (chain_end cs Hs flg ic nb sp Hnzl Hall). reflexivity.
  - (* inside a character *)
    intros cs1 c cs2 i E Hi Hsat.
    destruct (inside_bytes cs cs1 c cs2 i Hs E Hi) as (B1 & B2 & B3).
    apply (sat_inside sp ic nb (chars cs ++ [10]) i Hv); try assumption.
    + rewrite app_nth1 by lia. exact B1.
    + rewrite app_nth1 by lia. exact B2.
    + rewrite app_length. cbn [length]. lia.
Qed.

(* ------------------------------------------------------------------------------------------ *)
Lemma not_in_memb c l : ~ In c l -> memb c l = false.
Proof.
  intro H. unfold memb. destruct (existsb (N.eqb c) l) eqn:E; [|reflexivity].
  apply existsb_exists in E. destruct E as (x & Hx & Ex). apply N.eqb_eq in Ex. subst x. contradiction.
Qed.

Definition engine_flags (ic nb ne : bool) : Z :=
  Z.lor (if has (cflags ic) RE_ICASE then REG_ICASE else 0%Z)
    (Z.lor REG_NEWLINE (Z.lor (if has (eflags nb ne) RE_NOTBOL then REG_NOTBOL else 0%Z)
                              (if has (eflags nb ne) RE_NOTEOL then REG_NOTEOL else 0%Z))).

(* the theorem, relative to the meaning of the literal atom at character boundaries *)
Theorem equiv_engine_rel ic p rs cs lcs nb ne d n :
  rstr_simple ic p = Some rs ->
  ~ In 10 (chars cs) -> ~ In 10 p -> Forall scalar cs -> r_str rs = chars lcs -> Forall scalar lcs ->
  (1 <= d)%nat -> (1 <= n)%nat ->
  chr_at_bounds (engine_flags ic nb ne) ic cs (r_str rs) ->
  exists r, rset_make [Some p] (cflags ic) = Ok (Some r) /\
    rset_find_d d r (chars cs ++ [10]) n (eflags nb ne) = engine_answer (spat_of rs) ic nb (chars cs) n.
Proof.
  intros Hsim H10 Hp10 Hs El Hsl Hd Hn Hchr.
  destruct (classifier ic p rs Hsim) as [Ep Hcl].
  assert (Hv : lit_valid (p_lit (spat_of rs))) by (exists lcs; split; assumption).
  assert (Hm : nometa (p_lit (spat_of rs))).
  { cbn [spat_of p_lit]. eapply Forall_impl; [|exact Hcl]. cbv beta. intros c (H1 & H2 & _).
    split; apply not_in_memb; assumption. }
  assert (Hl10 : ~ In 10 (p_lit (spat_of rs))).
  { cbn [spat_of p_lit]. intro Hin. apply Hp10. rewrite Ep. unfold spat_string, spat_of. cbn [p_lit].
    apply in_or_app; right. apply in_or_app; right. apply in_or_app; left. exact Hin. }
  eexists. split.
  - rewrite Ep at 1. apply rset_make_simple; assumption.
  - destruct d as [|d]; [lia|]. apply find_simple; assumption.
Qed.

Lemma chr_bounds_plain nb ne cs lit : chr_at_bounds (engine_flags false nb ne) false cs lit.
Proof.
  intros cs1 cs2 _ _. cbn [ratom_match].
  replace (has (engine_flags false nb ne) REG_ICASE) with false by (destruct nb, ne; reflexivity).
  cbn [negb]. unfold lit_at. rewrite prefixb_spec. destruct (eqb_bytes _ _); reflexivity.
Qed.

(* ignore-case off: SPEC = what the regex model answers, for every simple pattern, every valid
   UTF-8 line and literal, every flag set, every depth limit >= 1 and every group count >= 1 *)
Theorem equiv_engine_plain p rs cs lcs nb ne d n :
  rstr_simple false p = Some rs ->
  ~ In 10 (chars cs) -> ~ In 10 p -> Forall scalar cs -> r_str rs = chars lcs -> Forall scalar lcs ->
  (1 <= d)%nat -> (1 <= n)%nat ->
  exists r, rset_make [Some p] (cflags false) = Ok (Some r) /\
    rset_find_d d r (chars cs ++ [10]) n (eflags nb ne) = engine_answer (spat_of rs) false nb (chars cs) n.
Proof. intros. eapply equiv_engine_rel; eauto. apply chr_bounds_plain. Qed.
